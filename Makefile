# /verif top-level: setup builds everything that does not depend on a later edit of /repo;
# every check re-derives facts, harness and proofs from /repo's working tree anyway.
PROPS := C01 C02 C03 C04 C05 C06 C07 C08 C09 C10 C11 C12 C13 C14 C15 C16 C17 C18 C19 C20
.PHONY: setup clean all-quick
setup:
	python3 bin/setup.py
clean:
	rm -rf _build coq/Makefile.coq coq/Makefile.coq.conf coq/.Makefile.coq.d
	find coq -name '*.vo' -o -name '*.vok' -o -name '*.vos' -o -name '*.glob' -o -name '.*.aux' | xargs rm -f
