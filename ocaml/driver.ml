(* driver.ml - runs the extracted Coq model (Model) on a scenario file and
   prints the same observation blocks as harness/vharness.c.  Glue only:
   line parsing, int/hex <-> N/Z/nat conversion, printing. *)
open Model

let rec p_of_int i = if i = 1 then XH else if i land 1 = 0 then XO (p_of_int (i lsr 1)) else XI (p_of_int (i lsr 1))
let n_of_int i = if i <= 0 then N0 else Npos (p_of_int i)
let rec int_of_p = function XH -> 1 | XO p -> 2 * int_of_p p | XI p -> 2 * int_of_p p + 1
let int_of_n = function N0 -> 0 | Npos p -> int_of_p p
let z_of_int i = if i = 0 then Z0 else if i > 0 then Zpos (p_of_int i) else Zneg (p_of_int (-i))
let int_of_z = function Z0 -> 0 | Zpos p -> int_of_p p | Zneg p -> - (int_of_p p)
let rec int_of_nat = function O -> 0 | S k -> 1 + int_of_nat k
(* decimal rendering of an N of any size (timestamps are uint64) *)
let string_of_n n =
  let rec bits = function XH -> [1] | XO p -> 0 :: bits p | XI p -> 1 :: bits p in
  match n with
  | N0 -> "0"
  | Npos p ->
    let bl = List.rev (bits p) in
    if List.length bl <= 61 then string_of_int (int_of_p p)
    else begin
      (* big: base-10^9 limbs *)
      let limbs = ref [0] in
      List.iter (fun b ->
        let carry = ref b in
        limbs := List.map (fun l -> let v = l * 2 + !carry in carry := v / 1000000000; v mod 1000000000) !limbs;
        if !carry > 0 then limbs := !limbs @ [!carry]) bl;
      match List.rev !limbs with
      | [] -> "0"
      | h :: t -> string_of_int h ^ String.concat "" (List.map (Printf.sprintf "%09d") t)
    end
(* parse a decimal that may exceed OCaml's int *)
let n_of_string s =
  if String.length s <= 17 then n_of_int (int_of_string s)
  else begin
    (* decimal -> N by Horner with the model's own N arithmetic *)
    let ten = n_of_int 10 in
    let acc = ref N0 in
    String.iter (fun ch -> acc := N.add (N.mul !acc ten) (n_of_int (Char.code ch - 48))) s;
    !acc
  end

let hexval c = match c with '0'..'9' -> Char.code c - 48 | 'a'..'f' -> Char.code c - 87 | 'A'..'F' -> Char.code c - 55 | _ -> -1
let bytes_of_hex s =
  if s = "-" then [] else begin
    let n = String.length s / 2 in
    let rec go i acc = if i < 0 then acc else go (i - 1) (n_of_int (hexval s.[2*i] * 16 + hexval s.[2*i+1]) :: acc) in
    go (n - 1) []
  end
let hex_of_bytes l =
  let b = Buffer.create 128 in
  List.iter (fun x -> Buffer.add_string b (Printf.sprintf "%02x" (int_of_n x land 255))) l;
  Buffer.contents b
let mac_of_hex s =
  match bytes_of_hex s with
  | [a;b;c;d;e;f] -> { m0=a; m1=b; m2=c; m3=d; m4=e; m5=f }
  | l -> let g i = try List.nth l i with _ -> N0 in { m0=g 0; m1=g 1; m2=g 2; m3=g 3; m4=g 4; m5=g 5 }
let hex_of_mac m = hex_of_bytes [m.m0; m.m1; m.m2; m.m3; m.m4; m.m5]

(* ---- mutable driver state ---- *)
let sys = ref sys0
let world = ref world0
let junk = ref (n_of_int 0xA5)
let failalloc : (int, unit) Hashtbl.t = Hashtbl.create 16
let failsend : (int, unit) Hashtbl.t = Hashtbl.create 16
let failalloc_from = ref (-1)
let failsend_from = ref (-1)
let af i = let k = int_of_n i in Hashtbl.mem failalloc k || (!failalloc_from >= 0 && k >= !failalloc_from)
let sf i = let k = int_of_n i in Hashtbl.mem failsend k || (!failsend_from >= 0 && k >= !failsend_from)

(* per-context raw configuration as the harness keeps it *)
type rawcfg = { mutable mtu : int; mutable mtufail : bool; mutable mac : mac; mutable macfail : bool;
  mutable flags : int; mutable iftype : int; mutable iftypefail : bool; mutable ipv4 : int; mutable ipv4fail : bool;
  mutable ipv6 : n list; mutable ipv6fail : bool; mutable speed : int; mutable speedfail : bool;
  mutable wifi : int option; mutable bssid : mac; mutable bssidfail : bool; mutable ssid : n list;
  mutable rate : int; mutable ratefail : bool; mutable rssi : int; mutable rssifail : bool }
let raws : (int, rawcfg) Hashtbl.t = Hashtbl.create 8
let zmac0 = mac_of_hex "000000000000"
let raw_of i =
  match Hashtbl.find_opt raws i with
  | Some r -> r
  | None ->
    let r = { mtu = 1500; mtufail = false; mac = mac_of_hex (Printf.sprintf "0200000000%02x" (0x10 + i)); macfail = false;
              flags = 0; iftype = 6; iftypefail = false; ipv4 = 0; ipv4fail = false; ipv6 = List.init 16 (fun _ -> N0); ipv6fail = false;
              speed = 1000000; speedfail = false; wifi = None; bssid = zmac0; bssidfail = false; ssid = [];
              rate = 0; ratefail = false; rssi = 0; rssifail = false } in
    Hashtbl.replace raws i r; r
let opt fail v = if fail then None else Some v
let pcfg_of_raw r =
  { c_rxsize = n_of_int r.mtu; c_mtu = opt r.mtufail (n_of_int r.mtu); c_mac = opt r.macfail r.mac;
    c_flags = n_of_int r.flags; c_iftype = opt r.iftypefail (n_of_int r.iftype); c_ipv4 = opt r.ipv4fail (n_of_int r.ipv4);
    c_ipv6 = opt r.ipv6fail r.ipv6; c_speed = opt r.speedfail (n_of_int r.speed);
    c_wifi = (match r.wifi with Some m -> Some (n_of_int m) | None -> None);
    c_bssid = opt r.bssidfail r.bssid; c_ssid = r.ssid; c_rate = opt r.ratefail (n_of_int r.rate);
    (* the port stores the value in an int8_t *)
    c_rssi = opt r.rssifail (z_of_int (let v = r.rssi land 255 in if v >= 128 then v - 256 else v)) }
let graw = ref default_g

(* frames handed to the port during the last operation (for "relay") *)
let last_sends : (int * n list) list ref = ref []
let out = Buffer.create (1 lsl 16)
let pf fmt = Printf.bprintf out fmt
let b2i b = if b then 1 else 0
(* C16 oracle: the specification dictionary, kept per context *)
let dicts : (int, dent list) Hashtbl.t = Hashtbl.create 8
let dict_of i = match Hashtbl.find_opt dicts i with Some d -> d | None -> []
let pr_dict i =
  let d = dict_of i in
  let ents = List.map (fun e -> Printf.sprintf "%s:%d:%d:%d:%s" (hex_of_bytes [e.d_k0; e.d_k1; e.d_k2; e.d_k3; e.d_k4; e.d_k5])
                (int_of_n e.d_gen) (int_of_n e.d_seq) (b2i e.d_complete) (string_of_n e.d_last)) d in
  let ents = List.sort compare ents in
  pf "~ cnt=%d allc=%d empty=%d dict=%s" (List.length d) (b2i (d_all_complete d)) (b2i (d = [])) (if ents = [] then "-" else String.concat "," ents)
let reset_state () =
  Hashtbl.reset dicts; last_sends := [];
  sys := sys0; world := world0; junk := n_of_int 0xA5;
  Hashtbl.reset failalloc; Hashtbl.reset failsend; failalloc_from := -1; failsend_from := -1;
  Hashtbl.reset raws; graw := default_g

(* ---- printing ---- *)
let pr_led () = pf " live=%d bytes=%s allocs=%s sends=%s" (int_of_nat !world.w_live) (string_of_n !world.w_bytes) (string_of_n !world.w_allocs) (string_of_n !world.w_sends)
let pr_autom ctx =
  let a = aset_of !sys (n_of_int ctx) in
  pf " map=%d@%s ctc=%d chg=%s inact=%s" (int_of_n a.a_map.a_cur) (string_of_n a.a_map.a_last)
    (int_of_n a.a_mst.ms_ctc) (string_of_n a.a_mst.ms_chg) (string_of_n a.a_mst.ms_inact);
  pf " sess=%d@%s" (int_of_n a.a_sess.a_cur) (string_of_n a.a_sess.a_last);
  pf " enum=%d@%s ni=%s r=%s begun=%d hts=%s bts=%s" (int_of_n a.a_enum.a_cur) (string_of_n a.a_enum.a_last)
    (string_of_n a.a_band.b_ni) (string_of_n a.a_band.b_r) (b2i a.a_band.b_begun) (string_of_n a.a_band.b_hts) (string_of_n a.a_band.b_bts);
  pf " ltx=%s" (string_of_n a.a_ltx)
let pr_table ctx =
  let t = (aset_of !sys (n_of_int ctx)).a_tbl in
  pf " cnt=%d allc=%d empty=%d tbl=" (int_of_n t.t_count) (b2i t.t_allc) (b2i (int_of_n t.t_count = 0));
  let any = ref false in
  List.iteri (fun i s ->
    if s.s_valid then begin
      if !any then pf ",";
      any := true;
      pf "%d:%s:%d:%d:%d:%d:%s" i (hex_of_mac s.s_mac) (int_of_n s.s_gen) (int_of_n s.s_seq) (int_of_n s.s_state) (b2i s.s_complete) (string_of_n s.s_last)
    end) t.t_slots;
  if not !any then pf "-"
let pr_actions () =
  List.iter (function
    | Sleep ms -> pf "> sleep %s\n" (string_of_n ms)
    | Send (ctx, ok, fr) -> pf "> send %d %s%s\n" (int_of_n ctx) (if ok then "" else "x ") (hex_of_bytes fr)
    | HelloTx (ctx, ms) -> pf "> hello %d %s\n" (int_of_n ctx) (string_of_n ms))
    (List.rev !world.w_trace)

exception Faulted of string
let fault_name = function OobRead -> "oob-read" | OobWrite -> "oob-write" | BadFree -> "bad-free" | NullDeref -> "null-deref" | ArithOverflow -> "overflow"

let exec (p : op) : opret =
  world := { !world with w_trace = [] };
  match run_op af sf !junk !sys p !world with
  | Ok ((y, r), w) -> sys := y; world := w; pr_actions ();
    last_sends := !last_sends @ List.filter_map (function Send (c, _, fr) -> Some (int_of_n c, fr) | _ -> None) (List.rev w.w_trace);
    r
  | Fault f -> raise (Faulted (fault_name f))

let ret_int = function RInt z -> int_of_z z | _ -> 0

let split_ws s = List.filter (fun x -> x <> "") (String.split_on_char ' ' (String.trim s))
let kv s = match String.index_opt s '=' with Some i -> (String.sub s 0 i, String.sub s (i+1) (String.length s - i - 1)) | None -> (s, "")

let do_cfg toks =
  match toks with
  | "g" :: rest ->
    List.iter (fun t -> let (k, v) = kv t in
      let g = !graw in
      graw := (match k with
        | "host" -> { g with g_host = bytes_of_hex v }
        | "icon" -> { g with g_icon = if v = "none" then None else Some (bytes_of_hex v) }
        | "fname" -> { g with g_fname = if v = "none" then None else Some (bytes_of_hex v) }
        | "hwid" -> { g with g_hwid = bytes_of_hex v }
        | "retfull" -> { g with g_retfull = (int_of_string v <> 0) }
        | _ -> g)) rest;
    ignore (exec (OGcfg !graw))
  | c :: rest ->
    let i = int_of_string c in
    let r = raw_of i in
    List.iter (fun t -> let (k, v) = kv t in
      let iv () = int_of_string v in
      match k with
      | "mtu" -> r.mtu <- iv () | "mtufail" -> r.mtufail <- iv () <> 0
      | "mac" -> r.mac <- mac_of_hex v | "macfail" -> r.macfail <- iv () <> 0
      | "flags" -> r.flags <- iv ()
      | "iftype" -> r.iftype <- iv () | "iftypefail" -> r.iftypefail <- iv () <> 0
      | "ipv4" -> r.ipv4 <- iv () | "ipv4fail" -> r.ipv4fail <- iv () <> 0
      | "ipv6" -> r.ipv6 <- (let l = bytes_of_hex v in l @ List.init (max 0 (16 - List.length l)) (fun _ -> N0)) | "ipv6fail" -> r.ipv6fail <- iv () <> 0
      | "speed" -> r.speed <- iv () | "speedfail" -> r.speedfail <- iv () <> 0
      | "wifi" -> r.wifi <- (if v = "none" then None else Some (iv () land 255))
      | "bssid" -> r.bssid <- mac_of_hex v | "bssidfail" -> r.bssidfail <- iv () <> 0
      | "ssid" -> r.ssid <- bytes_of_hex v
      | "rate" -> r.rate <- iv () land 65535 | "ratefail" -> r.ratefail <- iv () <> 0
      | "rssi" -> r.rssi <- iv () | "rssifail" -> r.rssifail <- iv () <> 0
      | _ -> ()) rest;
    ignore (exec (OCfg (n_of_int i, pcfg_of_raw r)))
  | [] -> ()

let run_line line =
  let toks = split_ws line in
  match toks with
  | [] -> ()
  | opname :: args ->
    pf "# %s\n" line;
    let ctx () = let i = int_of_string (List.hd args) in if i < 0 || i >= 8 then 0 else i in
    let nctx () = n_of_int (ctx ()) in
    let arg k = List.nth args k in
    let fill k = n_of_int (int_of_string ("0x" ^ arg k)) in
    let auto_line ?ret () = pf "="; (match ret with Some r -> pf " ret=%s" r | None -> ()); pr_autom (ctx ()); pf "\n" in
    let tbl_line ?ret () = pf "="; (match ret with Some r -> pf " ret=%s" r | None -> ()); pr_table (ctx ()); pf "\n" in
    let relayed = !last_sends in
    last_sends := [];
    (match opname with
     | "relay" ->
       let from = int_of_string (arg 0) and dst = n_of_int (let i = int_of_string (arg 1) in if i < 0 || i >= 8 then 0 else i) in
       List.iter (fun (cx, fr) -> if cx = from then ignore (exec (OFrame (dst, fill 2, fr)))) relayed;
       last_sends := [];
       pf "="; pr_led (); pf "\n"
     | "linux" ->
       let li = { li_mac = mac_of_hex (arg 0); li_mtu = n_of_string (arg 1); li_iftype = n_of_string (arg 2); li_speed = n_of_string (arg 3);
                  li_medium = n_of_string (arg 4); li_flags = n_of_string (arg 5) } in
       let ((((m, mtu), ift), spd), fl) = linux_getters li in
       pf "= mac=%s mtu=%s iftype=%s speed=%s flags=%s rc=0000 wifi=0\n" (hex_of_mac m) (string_of_n mtu) (string_of_n ift) (string_of_n spd) (string_of_n fl)
     | "cfg" -> do_cfg args; pf "= ok\n"
     | "junk" -> junk := n_of_int (int_of_string ("0x" ^ arg 0)); pf "= ok\n"
     | "adv" -> ignore (exec (OAdv (n_of_string (arg 0)))); pf "= now=%s\n" (string_of_n !world.w_now)
     | "failalloc" ->
       (match args with
        | ["clear"] -> Hashtbl.reset failalloc; failalloc_from := -1
        | ["from"; k] -> failalloc_from := int_of_n !world.w_allocs + int_of_string k - 1
        | [k] -> Hashtbl.replace failalloc (int_of_n !world.w_allocs + int_of_string k - 1) ()
        | _ -> ());
       pf "= ok\n"
     | "failsend" ->
       (match args with
        | ["clear"] -> Hashtbl.reset failsend; failsend_from := -1
        | ["from"; k] -> failsend_from := int_of_n !world.w_sends + int_of_string k - 1
        | [k] -> Hashtbl.replace failsend (int_of_n !world.w_sends + int_of_string k - 1) ()
        | _ -> ());
       pf "= ok\n"
     | "frame" -> ignore (exec (OFrame (nctx (), fill 1, bytes_of_hex (arg 2)))); pf "="; pr_led (); pf "\n"
     | "classify" ->
       let fr = bytes_of_hex (arg 2) in
       let c = cfg_of !sys (nctx ()) in
       let fr' = List.filteri (fun i _ -> i < int_of_n c.c_rxsize) fr in
       let exp = classify_spec fr' (known_of (aset_of !sys (nctx ())).a_tbl) (mac_bytes (own c)) in
       let r = exec (OClassify (nctx (), fill 1, fr)) in pf "= ev=%d\n" (ret_int r);
       if classify_constrained fr' then pf "~ ev=%d\n" (int_of_z exp)
     | "esp32" -> ignore (exec (OEsp32 (nctx (), n_of_int (int_of_string (arg 1)), bytes_of_hex (arg 2)))); auto_line ()
     | "flow" -> ignore (exec (OFlow (nctx (), fill 1, bytes_of_hex (arg 2)))); pf "="; pr_led (); pr_autom (ctx ()); pr_table (ctx ()); pf "\n"
     | "tick" -> ignore (exec (OTick (nctx ()))); pf "="; pr_autom (ctx ()); pr_table (ctx ()); pf "\n";
       if Hashtbl.mem dicts (ctx ()) then begin
         Hashtbl.replace dicts (ctx ()) (d_tick (dict_of (ctx ())) (N.div !world.w_now (n_of_int 1000))); pr_dict (ctx ()); pf "\n" end
     | "mk" -> ignore (exec (OMk (nctx ()))); pf "="; pr_led (); pr_autom (ctx ()); pr_table (ctx ()); pf "\n"
     | "ctor" ->
       let k = (match arg 0 with "mapping" -> KMapping | "session" -> KSession | "enumeration" -> KEnumeration | _ -> KTable) in
       (match exec (OCtor k) with
        | RCtor (obj, extra, st) ->
          pf "= ret=%s extra=%s" (if obj then "ok" else "null") (if extra then "ok" else "null");
          if obj && arg 0 <> "table" then pf " st=%d" (int_of_n st);
          pr_led (); pf "\n"
        | _ -> pf "= ?\n")
     | "ss_map" ->
       let a = aset_of !sys (nctx ()) in
       let now_s = N.div !world.w_now (n_of_int 1000) in
       let input = z_of_int (int_of_string (arg 1)) in
       let exp = mapping_expect a.a_map.a_cur input (N.sub now_s a.a_map.a_last) (timeout_of mapping_timeouts a.a_map.a_cur) in
       ignore (exec (OSsMap (nctx (), input))); auto_line ();
       if exp <> [] then pf "~ map=%s\n" (String.concat "|" (List.map (fun n -> string_of_int (int_of_n n)) exp))
     | "ss_sess" ->
       let a = aset_of !sys (nctx ()) in
       let now_s = N.div !world.w_now (n_of_int 1000) in
       let input = z_of_int (int_of_string (arg 1)) in
       let exp = session_expect a.a_sess.a_cur input (N.sub now_s a.a_sess.a_last) in
       ignore (exec (OSsSess (nctx (), input))); auto_line ();
       (match exp with Some n -> pf "~ sess=%d\n" (int_of_n n) | None -> ())
     | "ss_enum" -> ignore (exec (OSsEnum (nctx (), z_of_int (int_of_string (arg 1))))); auto_line ()
     | "set_map" -> ignore (exec (OSetMap (nctx (), n_of_int (int_of_string (arg 1) land 255), n_of_string (arg 2)))); auto_line ()
     | "set_sess" -> ignore (exec (OSetSess (nctx (), n_of_int (int_of_string (arg 1) land 255), n_of_string (arg 2)))); auto_line ()
     | "set_enum" -> ignore (exec (OSetEnum (nctx (), n_of_int (int_of_string (arg 1) land 255)))); auto_line ()
     | "st_add" ->
       let m = mac_of_hex (arg 1) and g = n_of_int (int_of_string (arg 2) land 65535) and q = n_of_int (int_of_string (arg 3) land 65535) in
       let r = exec (OStAdd (nctx (), m, g, q)) in
       tbl_line ~ret:(string_of_int (ret_int r)) ();
       let (d, ok) = d_add (dict_of (ctx ())) (N.div !world.w_now (n_of_int 1000)) m.m0 m.m1 m.m2 m.m3 m.m4 m.m5 g q in
       Hashtbl.replace dicts (ctx ()) d; pr_dict (ctx ()); pf " retok=%d\n" (b2i ok)
     | "st_find" ->
       let m = mac_of_hex (arg 1) and g = n_of_int (int_of_string (arg 2) land 65535) in
       let r = exec (OStFind (nctx (), m, g)) in tbl_line ~ret:(string_of_int (ret_int r)) ();
       pr_dict (ctx ()); pf " retok=%d\n" (b2i (d_has (dict_of (ctx ())) m.m0 m.m1 m.m2 m.m3 m.m4 m.m5 g))
     | "st_remove" ->
       let m = mac_of_hex (arg 1) and g = n_of_int (int_of_string (arg 2) land 65535) in
       ignore (exec (OStRemove (nctx (), m, g))); tbl_line ();
       Hashtbl.replace dicts (ctx ()) (d_remove (dict_of (ctx ())) m.m0 m.m1 m.m2 m.m3 m.m4 m.m5 g); pr_dict (ctx ()); pf "\n"
     | "st_complete" ->
       let m = mac_of_hex (arg 1) and g = n_of_int (int_of_string (arg 2) land 65535) and v = int_of_string (arg 3) <> 0 in
       let r = exec (OStComplete (nctx (), m, g, v)) in
       tbl_line ~ret:(string_of_int (ret_int r)) ();
       let had = d_has (dict_of (ctx ())) m.m0 m.m1 m.m2 m.m3 m.m4 m.m5 g in
       Hashtbl.replace dicts (ctx ()) (d_set_complete (dict_of (ctx ())) m.m0 m.m1 m.m2 m.m3 m.m4 m.m5 g v); pr_dict (ctx ()); pf " retok=%d\n" (b2i had)
     | "st_clear" -> ignore (exec (OStClear (nctx ()))); tbl_line (); Hashtbl.replace dicts (ctx ()) []; pr_dict (ctx ()); pf "\n"
     | "band_init" -> ignore (exec (OBandInit (nctx ()))); auto_line ()
     | "band_hello" -> ignore (exec (OBandHello (nctx ()))); auto_line ()
     | "band_update" ->
       let b = (aset_of !sys (nctx ())).a_band in
       let exp = ni_expect b.b_r b.b_begun b.b_ni in
       ignore (exec (OBandUpdate (nctx ()))); auto_line ();
       pf "~ ni=%s\n" (string_of_n exp)
     | "band_choose" -> let r = exec (OBandChoose (nctx ())) in
       auto_line ~ret:(match r with RInt z -> (match z with Z0 -> "0" | Zpos p -> string_of_n (Npos p) | Zneg _ -> "-") | _ -> "?") ()
     | "band_do_hello" -> ignore (exec (OBandDoHello (nctx ()))); auto_line ()
     | "band_set" -> ignore (exec (OBandSet (nctx (), n_of_string (arg 1), n_of_string (arg 2), int_of_string (arg 3) <> 0))); auto_line ()
     | "map_charge" -> ignore (exec (OMapCharge (nctx ()))); auto_line ()
     | "map_touch" -> ignore (exec (OMapTouch (nctx ()))); auto_line ()
     | "map_reset_charge" -> ignore (exec (OMapResetCharge (nctx ()))); auto_line ()
     | _ -> pf "= unknown-op\n")

(* ---- oracle mode: the extracted specification predicates of spec/SpecTx.v evaluated on the IMPLEMENTATION's trace ----
   mdriver --oracle <implementation output>: configuration lines are replayed to know each interface's attributes;
   every transmitted frame must satisfy wf_tx, every Hello must decode (hello_fields, decode_attrs) to attrs_of. *)
let rec nat_of_int i = if i <= 0 then O else S (nat_of_int (i - 1))
let starts s p = String.length s >= String.length p && String.sub s 0 (String.length p) = p
let oracle_mode file =
  let ic = open_in file in
  let scn = ref "?" and opidx = ref (-1) in
  (try
     while true do
       let line = input_line ic in
       if starts line "## " then begin scn := String.sub line 3 (String.length line - 3); reset_state (); opidx := -1 end
       else if starts line "# " then begin
         incr opidx;
         let l = String.sub line 2 (String.length line - 2) in
         if starts l "cfg " then (try do_cfg (List.tl (split_ws l)) with _ -> ()); Buffer.clear out
       end
       else if starts line "> send " then begin
         match split_ws line with
         | _ :: _ :: cx :: rest ->
           let hex = List.nth rest (List.length rest - 1) in
           if hex <> "x" then begin
             let ctx = n_of_int (int_of_string cx) in
             let c = cfg_of !sys ctx in
             let fr = bytes_of_hex hex in
             let mtu = int_of_n (mtu_or_default c) in
             if not (wf_tx (mac_bytes (own c)) (nat_of_int mtu) fr) then
               Printf.printf "%s\t%d\ttransmitted frame rejected by the specification validator wf_tx (spec/SpecTx.v): %s\n" !scn !opidx (String.sub hex 0 (min 80 (String.length hex)));
             if List.length fr >= 18 && int_of_n (List.nth fr 17) = 1 then
               (match hello_fields fr with
                | Some hf -> if decode_attrs hf.hf_props <> attrs_of c !sys.y_g then
                    Printf.printf "%s\t%d\tHello does not decode (decode_attrs) to the attributes the platform supplied (attrs_of)\n" !scn !opidx
                | None -> Printf.printf "%s\t%d\tHello does not parse (hello_fields)\n" !scn !opidx)
           end
         | _ -> ()
       end
     done
   with End_of_file -> ())

let () =
  if Array.length Sys.argv >= 3 && Sys.argv.(1) = "--oracle" then begin oracle_mode Sys.argv.(2); exit 0 end;
  let ic = open_in Sys.argv.(1) in
  let in_scn = ref false and dead = ref false in
  (try
     while true do
       let line = input_line ic in
       if String.length line >= 8 && String.sub line 0 8 = "scenario" then begin
         (match split_ws line with _ :: name :: _ -> pf "## %s\n" name | _ -> pf "## ?\n");
         reset_state (); in_scn := true; dead := false
       end else if !in_scn && not !dead && line <> "" && line.[0] <> '%' then begin
         (try run_line line with
          | Faulted k -> pf "! fault %s\n" k; dead := true
          | e -> pf "! glue-error %s\n" (Printexc.to_string e); dead := true)   (* the glue could not read the line: this scenario only *)
       end;
       if Buffer.length out > (1 lsl 16) then begin print_string (Buffer.contents out); Buffer.clear out end
     done
   with End_of_file -> ());
  print_string (Buffer.contents out)
