"""Frame builders and scenario helpers shared by the per-property generators.

Frames are built from the wire layout of MS-LLTD, independently of the C
headers (the model side takes its offsets from the regenerated facts).
"""
import struct

BCAST = bytes([0xFF] * 6)

def mac(i):
    """a deterministic unicast station address"""
    if isinstance(i, (bytes, bytearray)):
        return bytes(i)
    return bytes([0x02, 0x00, (i >> 24) & 0xFF, (i >> 16) & 0xFF, (i >> 8) & 0xFF, i & 0xFF])

def twin(addr, pos, delta=None):
    """the address that differs from addr in octet pos only (stays unicast)"""
    b = bytearray(addr); b[pos] ^= (0x02 if pos == 0 else 0x40) if delta is None else delta
    return bytes(b)
TWIN0 = bytes([0x02, 0x15, 0x5d, 0x3a, 0x7c, 0x91])
# stations that differ from TWIN0 in exactly one octet each (an address comparison that skips or folds octets confuses them)
TWINS = [TWIN0] + [twin(TWIN0, p_) for p_ in range(6)]

def add_hints(pairs):
    """address pairs that the tree's own address comparison confuses (bin/leafcheck.py): join the twin pool in place"""
    for a, b in pairs:
        for x in (bytes.fromhex(a), bytes.fromhex(b)):
            if x not in TWINS: TWINS.append(x)

def hx(b):
    return b.hex() if b else '-'

def base(edst, esrc, tos, opcode, rdst, rsrc, seq, ver=1, res=0, etype=0x88D9):
    return (bytes(edst) + bytes(esrc) + struct.pack('>H', etype) + bytes([ver & 255, tos & 255, res & 255, opcode & 255])
            + bytes(rdst) + bytes(rsrc) + struct.pack('>H', seq & 0xFFFF))

def discover(mapper, tos=0, gen=0, seq=1, stations=(), esrc=None, count=None, edst=BCAST, rdst=BCAST):
    esrc = mapper if esrc is None else esrc
    n = len(stations) if count is None else count
    return base(edst, esrc, tos, 0, rdst, mapper, seq) + struct.pack('>HH', gen & 0xFFFF, n & 0xFFFF) + b''.join(bytes(s) for s in stations)

def hello(src, tos=0, gen=0, cur=None, app=None, seq=0):
    cur = src if cur is None else cur
    app = cur if app is None else app
    return base(BCAST, src, tos, 1, BCAST, src, seq) + struct.pack('>H', gen & 0xFFFF) + bytes(cur) + bytes(app)

def emit(mapper, own, descs, seq=1, tos=0, esrc=None, count=None):
    esrc = mapper if esrc is None else esrc
    n = len(descs) if count is None else count
    body = b''.join(bytes([t & 255, p & 255]) + bytes(s) + bytes(d) for (t, p, s, d) in descs)
    return base(own, esrc, tos, 2, own, mapper, seq) + struct.pack('>H', n & 0xFFFF) + body

def probe(esrc, edst, rsrc, rdst, train=False, tos=0, seq=0):
    return base(edst, esrc, tos, 3 if train else 4, rdst, rsrc, seq)

def query(mapper, own, seq=1, tos=0, esrc=None):
    esrc = mapper if esrc is None else esrc
    return base(own, esrc, tos, 6, own, mapper, seq)

def qlt(mapper, own, typ, off, seq=1, tos=0, esrc=None):
    esrc = mapper if esrc is None else esrc
    return base(own, esrc, tos, 0x0B, own, mapper, seq) + bytes([typ & 255, 0]) + struct.pack('>H', off & 0xFFFF)

def reset(mapper, own=BCAST, tos=0, seq=0, esrc=None, rdst=None):
    esrc = mapper if esrc is None else esrc
    rdst = own if rdst is None else rdst
    return base(own, esrc, tos, 8, rdst, mapper, seq)

def generic(opcode, tos, esrc, rsrc, edst, rdst, seq=0, body=b''):
    return base(edst, esrc, tos, opcode, rdst, rsrc, seq) + body


class Scn:
    """accumulates scenario text"""
    def __init__(self):
        self.lines = []
        self.count = 0
    def start(self, name):
        self.lines.append('scenario %s' % name)
        self.count += 1
    def op(self, *a):
        self.lines.append(' '.join(str(x) for x in a))
    def cfg(self, ctx, **kw):
        self.lines.append('cfg %s ' % ctx + ' '.join('%s=%s' % (k, v) for k, v in kw.items()))
    def frame(self, ctx, b, fill='00'):
        self.lines.append('frame %s %s %s' % (ctx, fill, hx(b)))
    def flow(self, ctx, b, fill='00'):
        self.lines.append('flow %s %s %s' % (ctx, fill, hx(b)))
    def classify(self, ctx, b, fill='00'):
        self.lines.append('classify %s %s %s' % (ctx, fill, hx(b)))
    def text(self):
        return '\n'.join(self.lines) + '\n'
