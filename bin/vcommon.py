"""Shared machinery of bin/check: build steps, running both sides, parsing
observation blocks, evidence writing.  See DESIGN.md sections 4 and 5."""
import fcntl, hashlib, json, os, re, subprocess, sys, time

VERIF = os.path.dirname(os.path.dirname(os.path.abspath(__file__)))
REPO = os.environ.get('LLTD_REPO', '/repo')
BUILD = os.path.join(VERIF, '_build')
COQ = os.path.join(VERIF, 'coq')
CORE = ['lltdBlock.c', 'lltdAutomata.c', 'lltdTlvOps.c', 'lltdWire.c']
HARNESS_CFLAGS = ['-O1', '-g', '-fsanitize=address,undefined', '-fno-sanitize-recover=all', '-DLLTD_VERIF', '-w']

class BuildError(Exception):
    def __init__(self, what, log=''):
        super().__init__(what); self.what = what; self.log = log

def sh(cmd, cwd=None, timeout=1800, env=None, check=False):
    p = subprocess.run(cmd, cwd=cwd, timeout=timeout, env=env, stdout=subprocess.PIPE, stderr=subprocess.STDOUT, text=True, errors='replace')
    if check and p.returncode != 0:
        raise BuildError(' '.join(cmd[:3]), p.stdout)
    return p.returncode, p.stdout

class Lock:
    def __enter__(self):
        os.makedirs(BUILD, exist_ok=True)
        self.f = open(os.path.join(BUILD, '.lock'), 'w')
        fcntl.flock(self.f, fcntl.LOCK_EX)
        return self
    def __exit__(self, *a):
        fcntl.flock(self.f, fcntl.LOCK_UN); self.f.close()

def file_hash(paths):
    h = hashlib.sha256()
    for p in sorted(paths):
        h.update(p.encode())
        try:
            h.update(open(p, 'rb').read())
        except OSError:
            h.update(b'<missing>')
    return h.hexdigest()

def stamp_ok(name, digest):
    p = os.path.join(BUILD, name + '.stamp')
    return os.path.exists(p) and open(p).read() == digest
def stamp_set(name, digest):
    open(os.path.join(BUILD, name + '.stamp'), 'w').write(digest)

def repo_sources():
    l = [os.path.join(REPO, 'lltdResponder', f) for f in os.listdir(os.path.join(REPO, 'lltdResponder'))]
    l += [os.path.join(REPO, 'os/esp32/daemon/lltd_esp32.c'), os.path.join(REPO, 'os/esp32/daemon/lltd_esp32.h'),
          os.path.join(REPO, 'os/darwin/daemon/darwin-main.c'), os.path.join(REPO, 'scripts/lint_core_no_os_conditionals.sh')]
    return l
def harness_sources():
    d = os.path.join(VERIF, 'harness')
    return [os.path.join(d, f) for f in os.listdir(d)] + [os.path.join(VERIF, 'bin/slice_flow.py'), os.path.join(VERIF, 'bin/genfacts.py'), os.path.join(VERIF, 'bin/symfacts.py')]

def build_facts(sym_only_ok=False):
    """symbol facts -> coq/gen/Symbols.v; probe -> facts -> coq/gen/Extracted.v (rewritten only when changed).
    sym_only_ok: a property decided on the symbol facts alone (C20) goes on when the probe does not link"""
    dig = file_hash(repo_sources() + harness_sources())
    ext = os.path.join(COQ, 'gen/Extracted.v')
    sym = os.path.join(COQ, 'gen/Symbols.v')
    if stamp_ok('facts', dig) and os.path.exists(ext) and os.path.exists(sym):
        return
    if not (stamp_ok('symfacts', dig) and os.path.exists(sym)):
        rc, out3 = sh([sys.executable, os.path.join(VERIF, 'bin/symfacts.py'), REPO, BUILD, sym], timeout=600)
        if rc != 0: raise BuildError('symfacts failed', out3)
        stamp_set('symfacts', dig)
    inc = os.path.join(REPO, 'lltdResponder')
    rc, out = sh(['gcc', '-w', '-I' + inc, '-o', os.path.join(BUILD, 'probe'), os.path.join(VERIF, 'harness/probe.c')]
                 + [os.path.join(inc, f) for f in CORE if f != 'lltdBlock.c'])
    if rc != 0:
        if sym_only_ok and os.path.exists(ext): return
        raise BuildError('fact probe does not compile against the working tree', out)
    rc, out = sh([os.path.join(BUILD, 'probe')], timeout=60)
    if rc != 0: raise BuildError('fact probe failed', out)
    open(os.path.join(BUILD, 'facts.txt'), 'w').write(out)
    rc, out2 = sh([sys.executable, os.path.join(VERIF, 'bin/genfacts.py'), os.path.join(BUILD, 'facts.txt'), ext])
    if rc != 0: raise BuildError('genfacts failed', out2)
    stamp_set('facts', dig)

def facts():
    """the regenerated numeric facts as a dict"""
    d = {}
    try:
        for l in open(os.path.join(BUILD, 'facts.txt')):
            t = l.split()
            if len(t) == 3 and t[0] in ('N', 'Z'): d[t[1]] = int(t[2])
    except OSError:
        pass
    return d

def build_harness():
    dig = file_hash(repo_sources() + harness_sources())
    exe = os.path.join(BUILD, 'vharness')
    if stamp_ok('harness', dig) and os.path.exists(exe):
        return
    rc, out = sh([sys.executable, os.path.join(VERIF, 'bin/slice_flow.py'), REPO, BUILD])
    noflow = rc != 0        # the anchors in darwin-main.c moved: only what needs the documented flow is affected (C12, flow ops)
    open(os.path.join(BUILD, 'harness.flow'), 'w').write('0' if noflow else '1')
    inc = os.path.join(REPO, 'lltdResponder')
    cmd = (['gcc'] + HARNESS_CFLAGS + (['-DNO_FLOW'] if noflow else []) + ['-I' + inc, '-I' + os.path.join(VERIF, 'harness'), '-I' + BUILD, '-o', exe,
            os.path.join(VERIF, 'harness/vharness.c'), os.path.join(VERIF, 'harness/flow_shim.c')]
           + [os.path.join(inc, f) for f in CORE] + [os.path.join(REPO, 'os/esp32/daemon/lltd_esp32.c')])
    rc, out = sh(cmd)
    view = '1'
    if rc != 0:
        # a change to the automata structs the harness looks into: keep the frame-level operations alive
        rc2, out2 = sh(cmd[:1] + ['-DVIEW_AUTOMATA=0'] + cmd[1:])
        if rc2 != 0: raise BuildError('verification harness does not compile against the working tree', out)
        view = '0'
    open(os.path.join(BUILD, 'harness.view'), 'w').write(view)
    stamp_set('harness', dig)

def build_harness_cov():
    """the same harness, the core compiled by clang with edge and comparison tracing (harness/cov.c); -> exe or None"""
    dig = file_hash(repo_sources() + harness_sources()); exe = os.path.join(BUILD, 'vharness_cov')
    if stamp_ok('harness_cov', dig): return exe if os.path.exists(exe) else None
    inc = os.path.join(REPO, 'lltdResponder')
    base = ['clang', '-O1', '-g', '-fsanitize=address,undefined', '-fno-sanitize-recover=all', '-DLLTD_VERIF', '-w', '-I' + inc, '-I' + os.path.join(VERIF, 'harness'), '-I' + BUILD]
    flags = (['-DNO_FLOW'] if harness_flow() == '0' else []) + (['-DVIEW_AUTOMATA=0'] if harness_view() == '0' else [])
    objs = []; ok = True
    for f in [os.path.join(inc, c) for c in CORE] + [os.path.join(REPO, 'os/esp32/daemon/lltd_esp32.c')]:
        o = os.path.join(BUILD, 'cov_' + os.path.basename(f)[:-2] + '.o'); objs.append(o)
        rc, out = sh(base + ['-fsanitize-coverage=trace-pc-guard,trace-cmp', '-c', f, '-o', o])
        if rc != 0: ok = False; break
    if ok:
        rc, out = sh(base + flags + ['-DVCOV', '-o', exe, os.path.join(VERIF, 'harness/vharness.c'), os.path.join(VERIF, 'harness/flow_shim.c'), os.path.join(VERIF, 'harness/cov.c')] + objs)
        ok = rc == 0
    if not ok and os.path.exists(exe): os.remove(exe)
    stamp_set('harness_cov', dig)
    return exe if ok else None

def build_harness_msan():
    """the harness under MemorySanitizer (clang): fresh port memory stays 'uninitialised', every transmitted byte is tested; -> exe or None"""
    dig = file_hash(repo_sources() + harness_sources()); exe = os.path.join(BUILD, 'vharness_msan')
    if stamp_ok('harness_msan', dig): return exe if os.path.exists(exe) else None
    inc = os.path.join(REPO, 'lltdResponder')
    flags = (['-DNO_FLOW'] if harness_flow() == '0' else []) + (['-DVIEW_AUTOMATA=0'] if harness_view() == '0' else [])
    rc, out = sh(['clang', '-O1', '-g', '-fsanitize=memory', '-fno-sanitize-recover=all', '-DLLTD_VERIF', '-DVMSAN', '-w', '-I' + inc, '-I' + os.path.join(VERIF, 'harness'), '-I' + BUILD] + flags
                 + ['-o', exe, os.path.join(VERIF, 'harness/vharness.c'), os.path.join(VERIF, 'harness/flow_shim.c')] + [os.path.join(inc, f) for f in CORE] + [os.path.join(REPO, 'os/esp32/daemon/lltd_esp32.c')])
    if rc != 0 and os.path.exists(exe): os.remove(exe)
    stamp_set('harness_msan', dig)
    return exe if rc == 0 else None

def run_msan(text, tag):
    """-> [(scenario, operation index, operation, what)] for every scenario the MemorySanitizer build stops in"""
    exe = os.path.join(BUILD, 'vharness_msan')
    d = os.path.join(BUILD, 'run'); os.makedirs(d, exist_ok=True)
    scn = os.path.join(d, tag + '.msan.scn'); open(scn, 'w').write(text)
    with open(scn + '.out', 'w') as o, open(scn + '.err', 'w') as e:
        subprocess.run([exe, scn], stdout=o, stderr=e, timeout=1800)
    res = []
    for name, blocks in parse_out(scn + '.out').items():
        for i, b in enumerate(blocks):
            if b.fault: res.append((name, i, b.op, b.fault)); break
    return res

def harness_flow():
    """'1' if the Darwin frame flow and tick wiring could be sliced out of darwin-main.c"""
    try: return open(os.path.join(BUILD, 'harness.flow')).read().strip()
    except OSError: return '1'

def harness_view():
    """'1' if the harness can look into the automata objects, '0' if it had to be built without that view"""
    try: return open(os.path.join(BUILD, 'harness.view')).read().strip()
    except OSError: return '1'

def build_linuxport():
    """os/linux/lltd_port.c as is + harness/linuxport_main.c"""
    srcs = [os.path.join(REPO, 'os/linux/lltd_port.c'), os.path.join(REPO, 'os/linux/daemon/linux-main.h'), os.path.join(VERIF, 'harness/linuxport_main.c'),
            os.path.join(REPO, 'lltdResponder/lltdPort.h'), os.path.join(REPO, 'lltdResponder/lltdProtocol.h')]
    dig = file_hash(srcs); exe = os.path.join(BUILD, 'linuxport')
    if stamp_ok('linuxport', dig) and os.path.exists(exe): return exe
    rc, out = sh(['gcc'] + HARNESS_CFLAGS + ['-I' + os.path.join(REPO, 'lltdResponder'), '-I' + os.path.join(REPO, 'os/linux'), '-o', exe,
                  os.path.join(VERIF, 'harness/linuxport_main.c'), os.path.join(REPO, 'os/linux/lltd_port.c')])
    if rc != 0: raise BuildError('the Linux platform layer does not compile into the getter harness', out)
    stamp_set('linuxport', dig); return exe

def build_race():
    """core + harness/race.c under ThreadSanitizer"""
    srcs = repo_sources() + [os.path.join(VERIF, 'harness/race.c')]
    dig = file_hash(srcs); exe = os.path.join(BUILD, 'race')
    if stamp_ok('race', dig) and os.path.exists(exe): return exe
    inc = os.path.join(REPO, 'lltdResponder')
    rc, out = sh(['gcc', '-O1', '-g', '-fsanitize=thread', '-w', '-I' + inc, '-o', exe, os.path.join(VERIF, 'harness/race.c')] + [os.path.join(inc, f) for f in CORE] + ['-lpthread'])
    if rc != 0: raise BuildError('the two-thread harness does not compile against the working tree', out)
    stamp_set('race', dig); return exe

def coq_makefile():
    mk = os.path.join(COQ, 'Makefile.coq')
    proj = os.path.join(COQ, '_CoqProject')
    if not os.path.exists(mk) or os.path.getmtime(mk) < os.path.getmtime(proj):
        sh(['coq_makefile', '-f', '_CoqProject', '-o', 'Makefile.coq'], cwd=COQ, check=True)

def build_coq(targets, timeout=3000):
    """full .vo build of the given targets (and what they depend on)"""
    coq_makefile()
    rc, out = sh(['make', '-f', 'Makefile.coq', '-k', '-j16'] + targets, cwd=COQ, timeout=timeout)
    return rc, out

def coq_flags():
    fl = []
    for d in ('gen', 'model', 'spec', 'proofs', 'props', 'regress', 'extract'):
        fl += ['-Q', os.path.join(COQ, d), 'LLTD']
    return fl

def build_model_driver():
    """extract the model and build the OCaml driver (when the model or the facts changed)"""
    srcs = [os.path.join(COQ, 'gen/Extracted.v'), os.path.join(COQ, 'extract/Extract.v'), os.path.join(VERIF, 'ocaml/driver.ml')]
    srcs += [os.path.join(COQ, 'model', f) for f in os.listdir(os.path.join(COQ, 'model')) if f.endswith('.v')]
    srcs += [os.path.join(COQ, 'spec', f) for f in os.listdir(os.path.join(COQ, 'spec')) if f.endswith('.v')]
    srcs += [os.path.join(COQ, 'proofs/ClassifyProofs.v'), os.path.join(COQ, 'proofs/TableProofs.v')]
    dig = file_hash(srcs)
    exe = os.path.join(BUILD, 'mdriver')
    if stamp_ok('driver', dig) and os.path.exists(exe):
        return
    rc, out = build_coq(['model/Sys.vo', 'spec/Spec.vo', 'spec/SpecTx.vo', 'proofs/ClassifyProofs.vo'])
    if rc != 0: raise BuildError('model does not compile against the regenerated facts', out)
    ml = os.path.join(BUILD, 'ml'); os.makedirs(ml, exist_ok=True)
    rc, out = sh(['coqc'] + coq_flags() + ['-o', os.path.join(ml, 'Extract.vo'), os.path.join(COQ, 'extract/Extract.v')], cwd=ml)
    if rc != 0: raise BuildError('extraction failed', out)
    import shutil
    shutil.copy(os.path.join(VERIF, 'ocaml/driver.ml'), os.path.join(ml, 'driver.ml'))
    rc, out = sh(['ocamlfind', 'ocamlopt', '-w', '-a', 'model.mli', 'model.ml', 'driver.ml', '-o', exe], cwd=ml)
    if rc != 0: raise BuildError('OCaml driver does not compile', out)
    stamp_set('driver', dig)

# ---------------------------------------------------------------------------
def run_impl(scn_path, out_path, timeout=1800):
    env = dict(os.environ); env['ASAN_OPTIONS'] = 'detect_leaks=0:abort_on_error=0'; env['UBSAN_OPTIONS'] = 'print_stacktrace=0'
    with open(out_path, 'w') as o, open(out_path + '.err', 'w') as e:
        p = subprocess.run([os.path.join(BUILD, 'vharness'), scn_path], stdout=o, stderr=e, timeout=timeout, env=env)
    return p.returncode
def run_model(scn_path, out_path, timeout=1800):
    with open(out_path, 'w') as o, open(out_path + '.err', 'w') as e:
        p = subprocess.run([os.path.join(BUILD, 'mdriver'), scn_path], stdout=o, stderr=e, timeout=timeout)
    return p.returncode

def run_xoracle(impl_out):
    """extracted Coq specification predicates on the implementation's trace -> {scenario: [(opidx, msg)]}"""
    p = subprocess.run([os.path.join(BUILD, 'mdriver'), '--oracle', impl_out], stdout=subprocess.PIPE, stderr=subprocess.PIPE, text=True, timeout=1800)
    res = {}
    for l in p.stdout.split('\n'):
        t = l.split('\t')
        if len(t) == 3: res.setdefault(t[0], []).append((int(t[1]), t[2]))
    return res

def unhex(t):
    """tolerant: output cut short by a sanitizer abort may end in half a byte"""
    if t in ('x', '-'): return b''
    t = ''.join(ch for ch in t if ch in '0123456789abcdefABCDEF')
    return bytes.fromhex(t[:len(t) // 2 * 2])

class Block:
    __slots__ = ('op', 'acts', 'status', 'fault', 'kv', 'expect')
    def __init__(self, op):
        self.op = op; self.acts = []; self.status = None; self.fault = None; self.kv = {}; self.expect = {}
    def sends(self):
        r = []
        for a in self.acts:
            if a.startswith('send '):
                t = a.split()
                try: r.append((int(t[1]), t[2] != 'x', unhex(t[-1])))
                except (ValueError, IndexError): pass
        return r

def parse_out(path):
    """-> {scenario: [Block]}; a fault ends the scenario; actions printed
    before a fault within the same operation are dropped (the C side loses
    unflushed output when a sanitizer aborts)"""
    res = {}; cur = None; blk = None
    for line in open(path, errors='replace'):
        line = line.rstrip('\n')
        if line.startswith('## '):
            cur = []; res[line[3:]] = cur; blk = None
        elif cur is None:
            continue
        elif line.startswith('# '):
            blk = Block(line[2:]); cur.append(blk)
        elif line.startswith('> '):
            if blk is not None: blk.acts.append(line[2:])
        elif line.startswith('= '):
            if blk is not None:
                blk.status = line[2:]
                for t in blk.status.split():
                    if '=' in t:
                        k, v = t.split('=', 1); blk.kv[k] = v
        elif line.startswith('~ '):
            if blk is not None:
                for t in line[2:].split():
                    if '=' in t:
                        k, v = t.split('=', 1); blk.expect[k] = v.split('|')
        elif line.startswith('! fault'):
            if blk is None or blk.status is not None:
                blk = Block('?'); cur.append(blk)
            blk.fault = 'fault'; blk.acts = []
    return res

def write_evidence(pid, ev):
    os.makedirs(os.path.join(VERIF, 'evidence'), exist_ok=True)
    p = os.path.join(VERIF, 'evidence', pid + '.json')
    tmp = p + '.tmp'
    json.dump(ev, open(tmp, 'w'), indent=1)
    os.replace(tmp, p)

def known_findings():
    known, fixed = [], []
    p = os.path.join(VERIF, 'known_findings.txt')
    if os.path.exists(p):
        for l in open(p):
            l = l.strip()
            if l.startswith('known:'):
                m = re.match(r'known:\s+property=(\S+)\s+key=(\S+)\s+(.*)', l)
                if m: known.append((m.group(1), m.group(2), m.group(3)))
            elif l.startswith('fixed:'):
                fixed.append(l)
    return known, fixed
