#!/usr/bin/env python3
"""bin/seedtable.py <tag> [seedall logs...]: markdown rows for DESIGN.md section 16 from seeded/*-<tag>-*/meta.json"""
import json, os, re, sys
tag = sys.argv[1]; now = {}
for f in sys.argv[2:]:
    for l in open(f):
        t = l.split()
        if len(t) >= 2: now[t[0]] = 'concrete' if t[1] == 'concrete' else 'no-failing-input-found' if t[1].startswith('NO-FAILING') else 'MISSED'
d = os.path.join(os.path.dirname(os.path.dirname(os.path.abspath(__file__))), 'seeded')
print('| change | what it does | needs to manifest | first run | now |\n|---|---|---|---|---|')
for x in sorted(os.listdir(d)):
    if '-%s-' % tag not in x: continue
    m = json.load(open(os.path.join(d, x, 'meta.json')))
    print('| %s | %s | %s | %s | %s |' % (x, m.get('what_it_does', ''), m.get('needs_to_manifest', ''), m.get('first_run', ''), now.get(x, '') + (' (' + m['strengthening'] + ')' if m.get('strengthening') else '')))
