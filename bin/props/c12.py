"""C12 - periodic Hellos: pacing, purpose, silence."""
from props.base import *
NEEDS_FLOW = True     # the Darwin flow and tick wiring sliced out of darwin-main.c
NEEDS_VIEW = True     # reads the public fields of the automata objects
COQ_TARGETS = ['props/Properties_C12.vo']
CORR_IS_SPEC = False
RULE = ('random interleavings (150 ops) of tick / clock advance (0..120000 ms, dense around 999/1000/1001 and the 300 ms block time) / session add, refresh, '
        'complete, remove, clear / Hello heard / enumeration events / band and mapping calls, with the tick wired as the Darwin daemon wires it (code sliced '
        'from darwin-main.c); plus the documented per-frame flow driven by generated frame histories (Discover/Hello/Reset/Emit/Query/Charge/noise). '
        'Oracles on the implementation trace: gaps >= 1000 ms per interface, Hello only inside tick/flow, table not empty and not all complete at a sending tick. '
        'distinct = distinct (gap class, enumeration state, table size) at sending ticks + distinct suppressed cases')
ADV = [0, 1, 50, 99, 100, 299, 300, 301, 600, 999, 1000, 1001, 1500, 5000, 29000, 30000, 31000, 61000, 120000]
def scenarios(rng, tier):
    s = Scn()
    n = 60 if tier == 'quick' else 3000
    own = bytes([2, 0, 0, 0, 0, 0x10])
    for k in range(n):
        s.start('sched_%d' % k); s.op('mk 0'); s.op('adv', 1 + rng.randrange(3000))
        ks = [(hx(mac(rng.randrange(1, 4))), rng.randrange(2)) for _ in range(4)]
        # start an enumeration so that ticks have something to do
        m, g = ks[0]; s.op('st_add 0', m, g, 1); s.op('ss_enum 0 3'); s.op('band_init 0'); s.op('band_choose 0')
        for i in range(150):
            r = rng.random(); m, g = rng.choice(ks)
            if r < 0.33: s.op('tick 0')
            elif r < 0.58: s.op('adv', rng.choice(ADV))
            elif r < 0.66: s.op('st_add 0', m, g, rng.randrange(3))
            elif r < 0.70: s.op('st_complete 0', m, g, rng.randrange(2))
            elif r < 0.73: s.op('st_remove 0', m, g)
            elif r < 0.75: s.op('st_clear 0')
            elif r < 0.82: s.op('band_hello 0')
            elif r < 0.87: s.op('ss_enum 0', rng.randrange(4))
            elif r < 0.90: s.op(rng.choice(['band_update 0', 'band_choose 0', 'band_do_hello 0', 'band_init 0']))
            elif r < 0.93: s.op('band_set 0', rng.choice([0, 1, 9, 10, 11, 200, 70000]), rng.choice([45, 180, 10000]), rng.randrange(2))
            elif r < 0.96: s.op(rng.choice(['map_touch 0', 'map_charge 0', 'ss_map 0 0', 'ss_map 0 8', 'ss_map 0 2']))
            else: s.op('set_enum 0', rng.randrange(3))
    for k in range(n // 2):
        s.start('flow_%d' % k); s.op('mk 0'); s.op('adv', 1 + rng.randrange(3000))
        Ms = [mac(1), mac(2)]
        for i in range(80):
            r = rng.random(); M = rng.choice(Ms)
            if r < 0.25: s.op('tick 0')
            elif r < 0.50: s.op('adv', rng.choice(ADV))
            elif r < 0.65:
                st = [own] if rng.random() < 0.4 else [mac(9)]
                s.flow(0, discover(M, gen=rng.choice([1, 2]), seq=rng.choice([1, 2]), stations=st if rng.random() < 0.8 else [], tos=rng.choice([0, 0, 1])))
            elif r < 0.78: s.flow(0, hello(mac(rng.randrange(20, 40)), gen=1))
            elif r < 0.83: s.flow(0, reset(M, rdst=rng.choice([BCAST, own])))
            elif r < 0.88: s.flow(0, generic(9, 0, M, M, own, own))
            elif r < 0.93: s.flow(0, query(M, own, seq=rng.randrange(1, 9)))
            else: s.flow(0, generic(rng.randrange(256), rng.randrange(3), M, M, own, own, body=bytes(rng.randrange(256) for _ in range(8))))
    # a round ends (table emptied) right after a periodic Hello and the next round starts within the same second
    for k in range(20 if tier == 'quick' else 600):
        s.start('round_%d' % k); s.op('mk 0'); s.op('adv', 1000 + rng.randrange(4000))
        M = mac(1); step = rng.choice([50, 100, 100, 20])
        for rnd in range(3):
            s.flow(0, discover(M, gen=1 + rnd, seq=1 + rnd, stations=[mac(9)] if rng.random() < 0.85 else []))   # not acknowledged: the session stays incomplete
            for i in range(rng.choice([2, 3, 5, 12])): s.op('adv', step); s.op('tick 0')
            r = rng.random()
            if r < 0.5: s.flow(0, reset(M, rdst=BCAST))
            elif r < 0.75: s.op('st_clear 0')
            else: s.op('adv', 61000)
            for i in range(rng.choice([1, 1, 2, 4])): s.op('adv', rng.choice([0, 20, 100])); s.op('tick 0')
    own = bytes([2, 0, 0, 0, 0, 0x10])
    for k, t0 in enumerate([2**32 - 10000, 2**32 - 1500, 2**32 - 300, 2**31 - 2000, 2**33 - 5000, 2**32 + 100] * (1 if tier == 'quick' else 20)):
        s.start('wrap_%d' % k); s.op('mk 0'); s.op('adv', t0 + rng.randrange(200)); M = mac(1)
        s.flow(0, discover(M, gen=1, seq=1, stations=[mac(9)]))
        for i in range(60): s.op('adv', rng.choice([100, 100, 200, 50])); s.op('tick 0')
    for k in range(12 if tier == 'quick' else 300):
        # two sessions of different age; the older one expires alone; the table is cleared; a session that is complete from the
        # start appears: nothing may be sent for it
        s.start('ghost_%d' % k); s.op('mk 0'); s.op('adv', 1000 + rng.randrange(3000)); A, Bm, Cm = hx(mac(1)), hx(mac(2)), hx(mac(3))
        s.op('st_add 0', A, 1, 1); s.op('ss_enum 0 3'); s.op('band_init 0'); s.op('band_choose 0')
        for i in range(3): s.op('adv', 100); s.op('tick 0')
        s.op('adv', rng.choice([5000, 15000, 30000])); s.op('st_add 0', Bm, 1, 1)
        for i in range(rng.choice([3, 8])): s.op('adv', 100); s.op('tick 0')
        s.op('adv', rng.choice([31000, 46000, 56000])); s.op('tick 0')
        for i in range(3): s.op('adv', 100); s.op('tick 0')
        s.op('st_clear 0'); s.op('tick 0'); s.op('adv', rng.choice([100, 2000]))
        s.op('st_add 0', Cm, 5, 1); s.op('st_complete 0', Cm, 5, 1); s.op('ss_enum 0 3'); s.op('band_init 0'); s.op('band_choose 0')
        for i in range(40): s.op('adv', 100); s.op('tick 0')
    for k in range(10 if tier == 'quick' else 200):
        s.start('emitidle_%d' % k); s.op('mk 0'); s.op('adv', 1000 + rng.randrange(3000)); M = mac(1)
        s.flow(0, discover(M, gen=1, seq=1, stations=[mac(9)]))
        s.op('adv', rng.choice([100, 1000, 3000])); s.flow(0, emit(M, own, [(1, 0, mac(7), mac(8))], seq=2))
        for i in range(rng.choice([350, 400])): s.op('adv', 100); s.op('tick 0')    # more than 30 s of silence, ticks running
    return [(s.text(), {})]
KEYS = ['map', 'ctc', 'chg', 'inact', 'sess', 'enum', 'ni', 'r', 'begun', 'hts', 'bts', 'ltx', 'cnt', 'allc', 'empty']
def hellos(blk):
    return tuple(a for a in blk.acts if a.startswith('hello '))
def project(blk, name, meta):
    if blk.fault: return ('fault',)
    ks = KEYS if blk.op.startswith(('tick', 'flow')) else [k for k in KEYS if k in blk.kv]
    return tuple((k, blk.kv.get(k)) for k in ks) + (hellos(blk),)
def oracle(name, ib, mb, meta):
    """pacing and origin from the trace; purpose and silence against an INDEPENDENT picture of the session table kept from the
    operations alone (which sessions were opened, acknowledged, removed, expired after 60 s, dropped after 30 s without a frame)"""
    fails = []; last = {}; now = 0
    sess = {}          # (mapper, generation) -> [complete (True/False/None = left open), last activity in s]
    touch = None       # second of the last frame (30 s inactivity deadline), None = not armed
    own = bytes([2, 0, 0, 0, 0, 0x10])
    def sweep(ns):
        nonlocal touch
        if touch is not None and ns >= touch + 30: sess.clear(); touch = None
        for k in [k for k, v in sess.items() if ns > v[1] + 60]: del sess[k]
    for i, b in enumerate(ib):
        if b.fault: break
        t = b.op.split()
        if 'now' in b.kv and t[0] == 'adv': now = int(b.kv['now'])
        ns = now // 1000
        if t[0] == 'mk': sess.clear(); touch = None
        elif t[0] == 'st_add' and t[1] == '0':
            k = (t[2], int(t[3]))
            if k in sess: sess[k][1] = ns
            elif len(sess) < 16: sess[k] = [False, ns]
        elif t[0] == 'st_complete' and t[1] == '0':
            k = (t[2], int(t[3]))
            if k in sess: sess[k][0] = bool(int(t[4]))
        elif t[0] == 'st_remove' and t[1] == '0': sess.pop((t[2], int(t[3])), None)
        elif t[0] == 'st_clear' and t[1] == '0': sess.clear()
        elif t[0] == 'map_touch': touch = ns
        elif t[0] == 'flow' and len(t) >= 4:
            fr = V.unhex(t[3]); touch = ns
            if len(fr) >= 32:
                opc = fr[17]
                if opc == 8: sess.clear()
                elif opc == 0 and len(fr) >= 36:
                    k = (fr[24:30].hex(), (fr[32] << 8) | fr[33]); n = (fr[34] << 8) | fr[35]
                    listed = any(fr[36 + 6 * j: 42 + 6 * j] == own for j in range(min(n, (len(fr) - 36) // 6)))
                    comp = None if n == 0 else listed
                    if k in sess:
                        sess[k][1] = ns
                        if comp: sess[k][0] = True
                        elif comp is None and sess[k][0] is False: sess[k][0] = None
                    elif len(sess) < 16: sess[k] = [comp, ns]
                    else: sess['?%d' % i] = [None, ns]
        if t[0] in ('tick', 'flow'): sweep(ns)
        for h in hellos(b):
            _, ctx, tt = h.split(); tt = int(tt)
            if not b.op.startswith(('tick', 'flow')):
                fails.append((i, 'periodic Hello emitted by "%s", not by the tick' % b.op[:60]))
            if ctx in last and tt - last[ctx] < 1000:
                fails.append((i, 'periodic Hellos %d ms apart (at %d and %d) on interface %s' % (tt - last[ctx], last[ctx], tt, ctx)))
            last[ctx] = tt
            if b.kv.get('empty') == '1' or b.kv.get('allc') == '1':
                fails.append((i, 'periodic Hello at %d although the session table is %s' % (tt, 'empty' if b.kv.get('empty') == '1' else 'all complete')))
            elif ctx == '0' and name.startswith(('ghost', 'emitidle', 'round', 'wrap')) and not any(v[0] is not True for v in sess.values()):
                fails.append((i, 'periodic Hello at %d ms although %s' % (tt, 'no session is left (reset, expired, or dropped after 30 s without a frame)' if not sess else 'every session is complete')))
    return fails
def count(name, lines, ib, stats, meta):
    last = None
    for b in ib:
        if b.op.startswith(('tick', 'flow')):
            stats['evaluations'] += 1
            hs = hellos(b)
            if hs:
                t = int(hs[0].split()[2]); gap = None if last is None else t - last
                cls = 'first' if gap is None else ('=1000' if gap == 1000 else ('<1500' if gap < 1500 else ('<10000' if gap < 10000 else 'long')))
                stats['distinct'].add(('send', cls, b.kv.get('enum', '').split('@')[0], b.kv.get('cnt')))
                if len(stats['samples']) < 6: stats['samples'].append({'op': b.op[:20], 'hello_at_ms': t, 'gap_ms': gap, 'table_count': b.kv.get('cnt')})
                last = t
            else:
                stats['distinct'].add(('quiet', b.kv.get('enum', '').split('@')[0], b.kv.get('empty'), b.kv.get('allc')))
EXPLORE = dict(skip_ops=('set_map', 'set_sess', 'set_enum', 'band_set'), ops=('flow', 'tick', 'adv', 'st_add', 'st_complete', 'st_remove', 'st_clear', 'band_hello', 'band_choose', 'band_update', 'band_do_hello', 'map_charge', 'map_touch'), mtu=False, oracle=False, num={'adv': {1: (0, 70000)}})

def extra_checks(tier, seed):
    """premise of the pacing theorem: the tick-private time stamp of the last Hello (`LastHelloTxMs`) is written by the
    tick alone.  Re-established from the sources on every run: in the daemons the field may only have its address taken
    for the tick port (`.last_hello_tx_ms = &...->LastHelloTxMs`); in the core only automata_tick stores through it."""
    import re, os
    fails = []; seen = []
    for root, _, files in os.walk(os.path.join(V.REPO, 'os')):
        for f in files:
            if not f.endswith(('.c', '.m', '.cpp')): continue
            p = os.path.join(root, f)
            try: txt = open(p, errors='replace').read()
            except OSError: continue
            for m in re.finditer(r'[^\n]*LastHelloTxMs[^\n]*', txt):
                line = m.group(0).strip(); seen.append(os.path.relpath(p, V.REPO))
                if not re.search(r'\.last_hello_tx_ms\s*=\s*&[^;,]*LastHelloTxMs', line) and not line.lstrip().startswith(('//', '*', '/*')):
                    fails.append('premise of C12 (pacing) no longer re-established: %s touches LastHelloTxMs other than by handing its address to the tick port: "%s"' % (os.path.relpath(p, V.REPO), line[:160]))
    core = open(os.path.join(V.REPO, 'lltdResponder/lltdAutomata.c'), errors='replace').read()
    stores = re.findall(r'\*\s*port->last_hello_tx_ms\s*=[^=]', core)
    tick = re.search(r'\nvoid automata_tick\(.*?\n}\n', core, re.S)
    in_tick = len(re.findall(r'\*\s*port->last_hello_tx_ms\s*=[^=]', tick.group(0))) if tick else 0
    if len(stores) != in_tick:
        fails.append('premise of C12 (pacing): the last-Hello time stamp is stored through the tick port outside automata_tick (%d stores, %d of them in the tick)' % (len(stores), in_tick))
    return {'failures': fails[:4], 'found_input': False, 'premise': {'daemon_files_naming_the_field': sorted(set(seen)), 'stores_in_core': len(stores), 'stores_in_tick': in_tick}}
