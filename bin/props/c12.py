"""C12 - periodic Hellos: pacing, purpose, silence."""
from props.base import *
NEEDS_VIEW = True     # reads the public fields of the automata objects
COQ_TARGETS = ['props/Properties_C12.vo']
CORR_IS_SPEC = False
RULE = ('random interleavings (150 ops) of tick / clock advance (0..120000 ms, dense around 999/1000/1001 and the 300 ms block time) / session add, refresh, '
        'complete, remove, clear / Hello heard / enumeration events / band and mapping calls, with the tick wired as the Darwin daemon wires it (code sliced '
        'from darwin-main.c); plus the documented per-frame flow driven by generated frame histories (Discover/Hello/Reset/Emit/Query/Charge/noise). '
        'Oracles on the implementation trace: gaps >= 1000 ms per interface, Hello only inside tick/flow, table not empty and not all complete at a sending tick. '
        'distinct = distinct (gap class, enumeration state, table size) at sending ticks + distinct suppressed cases')
ADV = [0, 1, 50, 99, 100, 299, 300, 301, 600, 999, 1000, 1001, 1500, 5000, 29000, 30000, 31000, 61000, 120000]
def scenarios(rng, tier):
    s = Scn()
    n = 60 if tier == 'quick' else 3000
    own = bytes([2, 0, 0, 0, 0, 0x10])
    for k in range(n):
        s.start('sched_%d' % k); s.op('mk 0'); s.op('adv', 1 + rng.randrange(3000))
        ks = [(hx(mac(rng.randrange(1, 4))), rng.randrange(2)) for _ in range(4)]
        # start an enumeration so that ticks have something to do
        m, g = ks[0]; s.op('st_add 0', m, g, 1); s.op('ss_enum 0 3'); s.op('band_init 0'); s.op('band_choose 0')
        for i in range(150):
            r = rng.random(); m, g = rng.choice(ks)
            if r < 0.33: s.op('tick 0')
            elif r < 0.58: s.op('adv', rng.choice(ADV))
            elif r < 0.66: s.op('st_add 0', m, g, rng.randrange(3))
            elif r < 0.70: s.op('st_complete 0', m, g, rng.randrange(2))
            elif r < 0.73: s.op('st_remove 0', m, g)
            elif r < 0.75: s.op('st_clear 0')
            elif r < 0.82: s.op('band_hello 0')
            elif r < 0.87: s.op('ss_enum 0', rng.randrange(4))
            elif r < 0.90: s.op(rng.choice(['band_update 0', 'band_choose 0', 'band_do_hello 0', 'band_init 0']))
            elif r < 0.93: s.op('band_set 0', rng.choice([0, 1, 9, 10, 11, 200, 70000]), rng.choice([45, 180, 10000]), rng.randrange(2))
            elif r < 0.96: s.op(rng.choice(['map_touch 0', 'map_charge 0', 'ss_map 0 0', 'ss_map 0 8', 'ss_map 0 2']))
            else: s.op('set_enum 0', rng.randrange(3))
    for k in range(n // 2):
        s.start('flow_%d' % k); s.op('mk 0'); s.op('adv', 1 + rng.randrange(3000))
        Ms = [mac(1), mac(2)]
        for i in range(80):
            r = rng.random(); M = rng.choice(Ms)
            if r < 0.25: s.op('tick 0')
            elif r < 0.50: s.op('adv', rng.choice(ADV))
            elif r < 0.65:
                st = [own] if rng.random() < 0.4 else [mac(9)]
                s.flow(0, discover(M, gen=rng.choice([1, 2]), seq=rng.choice([1, 2]), stations=st if rng.random() < 0.8 else [], tos=rng.choice([0, 0, 1])))
            elif r < 0.78: s.flow(0, hello(mac(rng.randrange(20, 40)), gen=1))
            elif r < 0.83: s.flow(0, reset(M, rdst=rng.choice([BCAST, own])))
            elif r < 0.88: s.flow(0, generic(9, 0, M, M, own, own))
            elif r < 0.93: s.flow(0, query(M, own, seq=rng.randrange(1, 9)))
            else: s.flow(0, generic(rng.randrange(256), rng.randrange(3), M, M, own, own, body=bytes(rng.randrange(256) for _ in range(8))))
    # a round ends (table emptied) right after a periodic Hello and the next round starts within the same second
    for k in range(20 if tier == 'quick' else 600):
        s.start('round_%d' % k); s.op('mk 0'); s.op('adv', 1000 + rng.randrange(4000))
        M = mac(1); step = rng.choice([50, 100, 100, 20])
        for rnd in range(3):
            s.flow(0, discover(M, gen=1 + rnd, seq=1 + rnd, stations=[mac(9)] if rng.random() < 0.85 else []))   # not acknowledged: the session stays incomplete
            for i in range(rng.choice([2, 3, 5, 12])): s.op('adv', step); s.op('tick 0')
            r = rng.random()
            if r < 0.5: s.flow(0, reset(M, rdst=BCAST))
            elif r < 0.75: s.op('st_clear 0')
            else: s.op('adv', 61000)
            for i in range(rng.choice([1, 1, 2, 4])): s.op('adv', rng.choice([0, 20, 100])); s.op('tick 0')
    return [(s.text(), {})]
KEYS = ['map', 'ctc', 'chg', 'inact', 'sess', 'enum', 'ni', 'r', 'begun', 'hts', 'bts', 'ltx', 'cnt', 'allc', 'empty']
def hellos(blk):
    return tuple(a for a in blk.acts if a.startswith('hello '))
def project(blk, name, meta):
    if blk.fault: return ('fault',)
    ks = KEYS if blk.op.startswith(('tick', 'flow')) else [k for k in KEYS if k in blk.kv]
    return tuple((k, blk.kv.get(k)) for k in ks) + (hellos(blk),)
def oracle(name, ib, mb, meta):
    fails = []; last = {}
    for i, b in enumerate(ib):
        for h in hellos(b):
            _, ctx, t = h.split(); t = int(t)
            if not b.op.startswith(('tick', 'flow')):
                fails.append((i, 'periodic Hello emitted by "%s", not by the tick' % b.op[:60]))
            if ctx in last and t - last[ctx] < 1000:
                fails.append((i, 'periodic Hellos %d ms apart (at %d and %d) on interface %s' % (t - last[ctx], last[ctx], t, ctx)))
            last[ctx] = t
            if b.kv.get('empty') == '1' or b.kv.get('allc') == '1':
                fails.append((i, 'periodic Hello at %d although the session table is %s' % (t, 'empty' if b.kv.get('empty') == '1' else 'all complete')))
    return fails
def count(name, lines, ib, stats, meta):
    last = None
    for b in ib:
        if b.op.startswith(('tick', 'flow')):
            stats['evaluations'] += 1
            hs = hellos(b)
            if hs:
                t = int(hs[0].split()[2]); gap = None if last is None else t - last
                cls = 'first' if gap is None else ('=1000' if gap == 1000 else ('<1500' if gap < 1500 else ('<10000' if gap < 10000 else 'long')))
                stats['distinct'].add(('send', cls, b.kv.get('enum', '').split('@')[0], b.kv.get('cnt')))
                if len(stats['samples']) < 6: stats['samples'].append({'op': b.op[:20], 'hello_at_ms': t, 'gap_ms': gap, 'table_count': b.kv.get('cnt')})
                last = t
            else:
                stats['distinct'].add(('quiet', b.kv.get('enum', '').split('@')[0], b.kv.get('empty'), b.kv.get('allc')))
