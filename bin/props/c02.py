"""C02 - only well-formed, solicited, bounded frames leave; no uninitialised byte on the wire."""
from props.base import *
from props.blk import *
XORACLE = 'wf'   # spec/SpecTx.v predicates, extracted, run on the implementation's trace
COQ_TARGETS = ['props/Properties_C02.vo']
RULE = ('frame histories on randomly configured interfaces (MTU 576/577/1492/1500/2000/9216/random, wired and Wi-Fi, names and SSIDs of 0..40 bytes, '
        'failing getters): valid sessions (Discover/Emit/Probe/Query/QueryLargeTlv/Reset/Hello/Charge), mutated frames and pure noise (every opcode, ToS 0..3 and 255); '
        'every scenario is run twice with different junk bytes in freshly allocated memory. Oracles on the implementation trace: independent byte-level validator '
        '(length <= MTU, EtherType, version, reserved byte, real source, opcode set, per-opcode length, Hello property list), solicited-only rule and per-request '
        'frame count, twin-run equality. distinct = distinct (request ToS, request opcode, reply opcodes) triples + distinct Hello property type sets')
_twins = {}
def scenarios(rng, tier):
    _twins.clear()
    s = Scn(); n = 40 if tier == 'quick' else 1500
    for k in range(n):
        body = Scn()
        cfg = rand_cfg(rng, 0)
        body.lines.append(cfg.line())
        icon = bytes(rng.randrange(256) for _ in range(rng.choice([0, 1, 300, 541, 542, 543, 1466, 1467, 3000]))) if rng.random() < 0.6 else None
        body.lines.append(gline(host=bytes(rng.randrange(1, 256) for _ in range(rng.choice([0, 1, 15, 31, 32, 33, 40]))), icon=icon,
                                fname=bytes(rng.randrange(256) for _ in range(rng.choice([0, 7, 64, 600]))) if rng.random() < 0.5 else None,
                                hwid=bytes(rng.randrange(256) for _ in range(rng.choice([0, 3, 16, 64, 80]))), retfull=rng.randrange(2)))
        st = [mac(i) for i in range(1, 5)]
        session(rng, body, 0, cfg, st, n_ops=rng.choice([10, 30, 60]), noise=rng.choice([0.05, 0.3, 0.9]), icon_len=len(icon or b''))
        for j, junk in enumerate(('a5', '00', '3c') if k % 2 == 0 else ('a5', 'ff')):
            s.start('wf_%d~%d' % (k, j)); s.op('junk', junk); s.lines += body.lines
    # full QueryResp / large-TLV responses at every residue of the MTU (count and length words against the real frame length)
    fam_full_lists(s, 'full', RESIDUE_MTUS if tier == 'thorough' else RESIDUE_MTUS[::1], extra=(0, 2) if tier == 'quick' else (0, 1, 2), twin=True)
    fam_mtu_change(s, 'mtuchg', rng, 12 if tier == 'quick' else 200)
    # a hardware id that fills its 64-byte buffer exactly (no terminator), around it, and requests at the edges
    for k, hl in enumerate((62, 63, 64, 65, 66, 80)):
        for j, junk in enumerate(('a5', '5a')):
            s.start('hwid_%d~%d' % (hl, j)); s.op('junk', junk); s.lines.append(gline(hwid=bytes(1 + (7 * i) % 250 for i in range(hl))))
            M = mac(1); s.frame(0, discover(M, gen=1))
            for off in (0, 1, 60, 62, 63, 64, 65, 66): s.frame(0, qlt(M, OWN0, 19, off, seq=3 + off))
    return [(s.text(), {})]
def project(blk, name, meta):
    # the property observes WHICH frames leave in reaction to what (their well-formedness is judged on the implementation's
    # own frames by the extracted validator and the Python one); byte layouts the property leaves open are not compared
    if blk.fault: return ('fault',)
    if blk.op.startswith(('frame', 'relay')): return send_opcodes(blk)
    return ()
SOLICIT = {(0, 0), (1, 0), (0, 2), (0, 6), (0, 0x0B), (1, 0x0B)}
def oracle(name, ib, mb, meta):
    fails = []; cfgd = dict(mtu=1500, mac=OWN0, mtufail=0, macfail=0)
    for i, b in enumerate(ib):
        if b.op.startswith('cfg 0'):
            for t in b.op.split()[2:]:
                k, v = t.split('=', 1)
                if k == 'mtu': cfgd['mtu'] = int(v)
                elif k == 'mac': cfgd['mac'] = bytes.fromhex(v)
                elif k in ('mtufail', 'macfail'): cfgd[k] = int(v)
        if not b.op.startswith('frame') or b.fault: continue
        mtu = 1500 if (cfgd['mtufail'] or cfgd['mtu'] == 0) else cfgd['mtu']
        own = bytes(6) if cfgd['macfail'] else cfgd['mac']
        ctx, fr = frame_of(b); d = dec(fr[:cfgd['mtu']] + bytes(max(0, 36 - len(fr))))
        sn = sends_of(b)
        for (_, ok, out) in sn:
            why = wf_tx(own, mtu, out)
            if why: fails.append((i, 'transmitted frame is not well-formed: %s (frame %s...)' % (why, out[:40].hex())))
        if sn:
            key = (d['tos'], d['opc'])
            if key not in SOLICIT:
                fails.append((i, '%d frame(s) sent in reaction to ToS %d / opcode %d, which is not a request' % (len(sn), d['tos'], d['opc'])))
            lim = 1
            if key == (0, 2): lim = ((d['body'][0] << 8) | d['body'][1]) + 1 if len(d['body']) >= 2 else 1
            if len(sn) > lim: fails.append((i, '%d frames sent for one request (limit %d)' % (len(sn), lim)))
    base, _, j = name.partition('~')
    tr = [tuple(b.acts) for b in ib if b.op.startswith('frame')]
    if meta.get('shrinking'): return fails    # the twin comparison is between whole runs
    if base in _twins:
        if _twins[base][1] != tr:
            k = next((x for x in range(min(len(tr), len(_twins[base][1]))) if tr[x] != _twins[base][1][x]), 0)
            fails.append((0, 'transmitted bytes depend on the content of freshly allocated memory: run %s and run %s differ at frame operation %d' % (_twins[base][0], name, k)))
    else: _twins[base] = (name, tr)
    return fails
def count(name, lines, ib, stats, meta):
    for b in ib:
        if b.op.startswith('frame'):
            stats['evaluations'] += 1
            ctx, fr = frame_of(b); d = dec(fr + bytes(36))
            sn = sends_of(b)
            stats['distinct'].add((d['tos'], d['opc'], tuple(dec(o)['opc'] for _, _, o in sn if len(o) >= 32)))
            for _, _, o in sn:
                h = hello_fields(o)
                if h and h['props'] is not None:
                    stats['distinct'].add(('hello', tuple(t for t, _ in h['props'])))
                    if len(stats['samples']) < 3: stats['samples'].append({'hello_len': len(o), 'property_types': [t for t, _ in h['props']]})
EXPLORE = dict(domain='frames', ops=('frame',), mtu=True, skip='~')

def extra_checks(tier, seed):
    """the same scenarios once more under MemorySanitizer: port memory is left uninitialised, every byte handed to the wire is tested
    (catches what the twin-junk comparison cannot: bytes that come from the STACK, e.g. a local the core no longer clears
    before a getter that may fail)"""
    import random
    with V.Lock(): exe = V.build_harness_msan()
    if not exe: return {'msan': 'the MemorySanitizer build (clang) of the harness failed; skipped'}
    text = ''.join(t for t, _ in scenarios(random.Random(seed * 1000003 + 17), tier))
    hits = V.run_msan(text, 'C02')
    fails = []
    scn = {}
    cur = None
    for l in text.split('\n'):
        if l.startswith('scenario'): cur = l.split()[1]; scn[cur] = []
        elif cur and l.strip(): scn[cur].append(l)
    for name, i, op, what in hits[:3]:
        fails.append('under MemorySanitizer the responder stops at operation %d of scenario %s ("%s"): a byte it never wrote since obtaining the memory (heap or stack) reaches a '
                     'transmitted frame or decides a branch\nscenario %s\n%s' % (i, name, op[:120], name, '\n'.join(scn.get(name.split('~')[0] if name not in scn else name, [])[:i + 1])))
    return {'failures': fails, 'msan_scenarios': len(scn), 'msan_stops': len(hits)}
