"""C11 - session-event classifier."""
from props.base import *
CORR_IS_SPEC = True    # fault / no fault (C01) and the event value (C11) are exactly what the property states
NEEDS_VIEW = True     # session table set up through st_add
COQ_TARGETS = ['props/Properties_C11.vo']
EXPECT_KEYS = {'ev'}
RULE = ('Discover frames with station counts 0..240 (dense 0..8, then 16, 90, 239, 240), the own address at every position / absent / only beyond '
        'the received length, declared counts larger than the frame holds (up to 0xFFFF), session tables holding the same (mapper, generation) under '
        'the same / another sequence number or other keys; Reset with unicast/broadcast real destination; Hello; every other opcode 0..255; '
        'truncated frames (31, 32, 35, 36 bytes); distinct = distinct (opcode, count, position class, table class, event) tuples')
def scenarios(rng, tier):
    s = Scn()
    own = bytes([2, 0, 0, 0, 0, 0x10]); M = mac(1)
    def start(name):
        s.start(name); s.op('mk 0')
    counts = list(range(0, 9)) + [16, 90, 239, 240]
    if tier == 'thorough': counts = list(range(0, 241))
    for n in counts:
        positions = [None] + sorted(set([0, 1, n // 2, n - 1]) & set(range(n)))
        if tier == 'thorough' or n <= 8: positions = [None] + list(range(n))
        for pos in positions:
            for tblcase in ('none', 'same', 'other_seq', 'other_gen'):
                if tblcase != 'none' and rng.random() < (0.0 if n <= 3 else 0.6): continue
                start('disc_n%d_p%s_%s' % (n, pos, tblcase))
                st = [mac(1000 + i) for i in range(n)]
                if pos is not None: st[pos] = own
                gen, seq = rng.randrange(1, 65536), rng.randrange(1, 65536)
                if tblcase == 'same': s.op('st_add 0', hx(M), gen, seq)
                elif tblcase == 'other_seq': s.op('st_add 0', hx(M), gen, (seq + 1) % 65536)
                elif tblcase == 'other_gen': s.op('st_add 0', hx(M), (gen + 1) % 65536, seq)
                s.classify(0, discover(M, gen=gen, seq=seq, stations=st), fill=rng.choice(['00', 'ff', '10']))
    # the list holds addresses one octet away from the own one (not an acknowledgement), with and without the own one after them
    for p_ in range(6):
        for withown in (False, True):
            for tblcase in ('none', 'same'):
                start('twin_p%d_%d_%s' % (p_, withown, tblcase))
                st = [mac(1000), twin(own, p_), twin(own, (p_ + 1) % 6, 0x01)] + ([own] if withown else [])
                if tblcase == 'same': s.op('st_add 0', hx(twin(M, p_)), 5, 6)        # a session of a mapper one octet away from this one
                s.classify(0, discover(M, gen=5, seq=6, stations=st), fill='00')
    # histories: sessions of a few mappers are added, looked up (by classifying their Discovers), acknowledged at some list
    # index, removed, expired by the tick while others stay; every classification is judged against the table of that moment.
    # In half of them the own address is 10:10:10:10:10:10 and short frames leave it in the stale bytes behind the frame.
    for k in range(40 if tier == 'quick' else 1000):
        start('hist_%d' % k); stale = k % 2 == 1
        me = bytes([0x10] * 6) if stale else own
        if stale: s.lines.append('cfg 0 mac=%s' % me.hex())
        mp = [mac(60 + i) for i in range(3)]; s.op('adv', 5000); now_ = 5000
        for i in range(rng.choice([12, 30])):
            r = rng.random(); Mx = rng.choice(mp); g = rng.choice([1, 2]); q = rng.choice([5, 6, 7])
            if r < 0.25: s.op('st_add 0', hx(Mx), g, q)
            elif r < 0.32: s.op('st_remove 0', hx(Mx), g)
            elif r < 0.45: s.op('adv', rng.choice([1000, 20000, 30500, 61000])); s.op('tick 0')
            else:
                n_ = rng.choice([0, 1, 2, 3, 5]); pos = rng.choice([None] + list(range(n_))) if n_ else None
                stl = [mac(3000 + j) for j in range(n_)]
                if pos is not None: stl[pos] = me
                # sometimes the list is cut short while the count still says n (the own address then lies beyond the frame's end)
                fr = discover(Mx, gen=g, seq=q, stations=stl)
                if rng.random() < 0.3 and n_ > 1: fr = discover(Mx, gen=g, seq=q, stations=stl[:rng.randrange(n_)], count=rng.choice([n_, 1, 0]))
                # ... or the frame is longer than its count says (padding, a trailer): entries behind the count are not the list
                elif rng.random() < 0.35 and pos is not None and pos >= 1: fr = discover(Mx, gen=g, seq=q, stations=stl, count=pos)
                s.classify(0, fr, fill='10' if stale else rng.choice(['00', 'ff']))
    # a session that was looked up, then ends in each of the three ways a session can end (removed, table cleared, expired by
    # the tick while another mapper's session stays): its mapper's next Discover meets no known session
    for k, how in enumerate(('remove', 'clear', 'expire', 'expire_refreshed')):
        for acks in (False, True):
            start('ended_%s_%d' % (how, acks)); M1, M2 = mac(70), mac(71)
            s.op('adv', 5000); s.op('st_add 0', hx(M1), 3, 4); s.op('st_add 0', hx(M2), 3, 4)
            s.classify(0, discover(M1, gen=3, seq=4, stations=[own] if acks else [mac(9)]), fill='00')
            s.classify(0, discover(M1, gen=3, seq=5, stations=[own] if acks else [mac(9)]), fill='00')
            if how == 'remove': s.op('st_remove 0', hx(M1), 3)
            elif how == 'clear': s.op('st_clear 0'); s.op('st_add 0', hx(M2), 3, 4)
            else:
                s.op('adv', 30000); s.op('st_add 0', hx(M2), 3, 4)
                if how == 'expire_refreshed': s.classify(0, discover(M2, gen=3, seq=4, stations=[own]), fill='00')
                # the session that is about to expire is the one looked up last
                s.classify(0, discover(M1, gen=3, seq=5, stations=[own] if acks else [mac(9)]), fill='00')
                s.op('adv', 31000); s.op('tick 0')
            for q_ in (5, 6, 4):
                s.classify(0, discover(M1, gen=3, seq=q_, stations=[own] if acks else [mac(9)]), fill='00')
            s.classify(0, discover(M2, gen=3, seq=7, stations=[mac(9)]), fill='00')
    # acknowledged at index p before; now the count ends before p while the frame still holds bytes there (padding / trailer)
    for p_ in (1, 2, 5):
        for known in (True, False):
            start('behindcount_p%d_%d' % (p_, known)); stl = [mac(3100 + j) for j in range(p_ + 2)]; stl[p_] = own
            if known: s.op('st_add 0', hx(M), 9, 4)
            s.classify(0, discover(M, gen=9, seq=4, stations=stl), fill='00')
            for cnt in (p_, 1, p_ + 1):
                s.classify(0, discover(M, gen=9, seq=5, stations=stl, count=cnt), fill='00')
    # declared count exceeds what the frame holds; own address only behind the received length
    for declared in (1, 2, 5, 240, 241, 0x7FFF, 0xFFFF):
        for held in (0, 1, 3):
            start('over_d%d_h%d' % (declared, held))
            st = [mac(2000 + i) for i in range(held)]
            s.classify(0, discover(M, gen=7, stations=st, count=declared), fill='00')
            start('over_stale_d%d_h%d' % (declared, held))
            # own address sits in the stale bytes right behind the frame: must not be seen
            fr = discover(M, gen=7, stations=st, count=declared)
            s.lines.append('cfg 0 mac=%s' % ('10' * 6))
            s.classify(0, fr, fill='10')
    for ln in (0, 14, 31, 32, 33, 35, 36, 37, 41, 42):
        start('trunc_%d' % ln)
        s.classify(0, discover(M, gen=7, stations=[own, own])[:ln], fill='00')
    # what is "known": generations that are byte-swaps of each other are different sessions; a session stored behind a hole in
    # the table (an earlier one removed or expired) is known; a session idle for long is known until the tick removes it
    for k in range(12 if tier == 'quick' else 200):
        G = rng.choice([0x1234, 0x00FF, 0xFF00, 0x0100, 0xABCD, rng.randrange(1, 65536)]); Gs = ((G & 255) << 8) | (G >> 8)
        start('known_swap_%d' % k); s.op('st_add 0', hx(M), G, 7)
        for g2, q2 in ((Gs, 8), (Gs, 7), (G, 8), (G, 7)):
            s.classify(0, discover(M, gen=g2, seq=q2, stations=[own] if k % 2 else [mac(9)]), fill='00')
        start('known_hole_%d' % k); X, Y, Z = mac(50), mac(51), mac(52)
        s.op('st_add 0', hx(X), 1, 1); s.op('st_add 0', hx(Y), 1, 1); s.op('st_add 0', hx(Z), 2, 5)
        if k % 2: s.op('st_remove 0', hx(X), 1)
        else: s.op('adv 30000'); s.op('st_add 0', hx(Y), 1, 1); s.op('st_add 0', hx(Z), 2, 5); s.op('adv 31000'); s.op('tick 0')
        s.classify(0, discover(Y, gen=1, seq=2, stations=[own] if k % 3 else [mac(9)]), fill='00')
        s.classify(0, discover(Z, gen=2, seq=6, stations=[mac(9)]), fill='00'); s.classify(0, discover(X, gen=1, seq=2, stations=[mac(9)]), fill='00')
        start('known_idle_%d' % k); s.op('st_add 0', hx(M), 3, 1); s.op('adv', rng.choice([59000, 60000, 61000, 120000, 4000000]))
        s.classify(0, discover(M, gen=3, seq=2, stations=[mac(9)]), fill='00'); s.classify(0, discover(M, gen=3, seq=1, stations=[own]), fill='00')
    # Reset: topology-wide iff the REAL destination is broadcast, whatever the Ethernet destination is
    for ed in (BCAST, own, mac(77)):
        for rd in (BCAST, own, mac(77), bytes([0xFF] * 5 + [0xFE])):
            for tos in (0, 1, 2):
                start('reset_%s_%s_%d' % (ed.hex()[:4], rd.hex()[-4:], tos))
                s.classify(0, generic(8, tos, M, rng.choice([M, mac(5)]), ed, rd, seq=rng.randrange(65536)), fill=rng.choice(['00', 'ff']))
                s.classify(0, generic(1, tos, M, M, ed, rd, seq=0, body=bytes(14)), fill='ff')
    for opc in range(256):
        if opc % 16 == 0: start('opc_%d' % opc)
        rd = BCAST if rng.random() < 0.5 else own
        s.classify(0, generic(opc, rng.choice([0, 1, 2]), M, M, BCAST, rd, seq=rng.randrange(65536), body=bytes(rng.randrange(256) for _ in range(rng.randrange(0, 30)))))
    return [(s.text(), {})]
def project(blk, name, meta):
    if blk.op.startswith('classify'): return project_keys(blk, ['ev'])
    return ()
def count(name, lines, ib, stats, meta):
    for b in ib:
        if b.op.startswith('classify'):
            stats['evaluations'] += 1
            fr = b.op.split()[3]
            opc = fr[34:36]; cnt = fr[68:72] if opc == '00' else ''
            stats['distinct'].add((opc, cnt, name.split('_')[0], name.rsplit('_', 1)[-1] if name.startswith('disc') else '', b.kv.get('ev')))
            if len(stats['samples']) < 5 and name.startswith('disc_n3'):
                stats['samples'].append({'scenario': name, 'frame_hex': fr[:120], 'event': b.kv.get('ev')})
EXPLORE = dict(skip_ops=('set_map', 'set_sess', 'set_enum', 'band_set'), ops=('classify', 'st_add', 'st_remove', 'adv', 'tick'), mtu=False, num={'st_add': {3: (0, 65535), 4: (0, 65535)}, 'adv': {1: (0, 100000)}})
