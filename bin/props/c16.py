"""C16 - session table consistency against a dictionary."""
from props.base import *
NEEDS_VIEW = True     # reads the public fields of the automata objects
COQ_TARGETS = ['props/Properties_C16.vo', 'props/Properties_C16h.vo']
EXPECT_KEYS = {'cnt', 'allc', 'empty'}
RULE = ('operation sequences of length 200 over 24 distinct (mapper, generation) keys (forcing the full-table case): add / find / remove / clear / '
        'completion update / tick / clock advance 0..200 s; every return value and public field compared with the model and, independently, with the '
        'extracted dictionary specification (as a set); distinct = distinct (operation kind, table size before, hit-or-miss) triples')
def scenarios(rng, tier):
    s = Scn()
    n = 60 if tier == 'quick' else 3000
    for k in range(n):
        s.start('tbl_%d' % k); s.op('mk 0'); s.op('mk 1'); s.op('adv', rng.randrange(100000))
        nkeys = rng.choice([3, 8, 17, 24])
        ks = [(hx(mac(rng.randrange(1, 7)) if k % 3 else rng.choice(TWINS)), rng.randrange(4)) for _ in range(nkeys)]     # every third table: mappers one octet apart
        bias_add = rng.choice([0.3, 0.5, 0.8])
        for i in range(200):
            r = rng.random(); m, g = rng.choice(ks)
            if r < bias_add * 0.8: s.op('st_add 0', m, g, rng.randrange(4))
            elif r < bias_add * 0.8 + 0.1: s.op('st_find 0', m, g)
            elif r < bias_add * 0.8 + 0.2: s.op('st_remove 0', m, g)
            elif r < bias_add * 0.8 + 0.3: s.op('st_complete 0', m, g, rng.randrange(2))
            elif r < bias_add * 0.8 + 0.32: s.op('st_clear 0')
            elif r < bias_add * 0.8 + 0.42: s.op('tick 0')
            elif r < bias_add * 0.8 + 0.47 and k % 5 == 0:
                c2 = 1; m2, g2 = rng.choice(ks)       # a second interface's table in the same process
                which = rng.choice(['add', 'add', 'find', 'remove'])
                if which == 'add': s.op('st_add 1', m2, g2, rng.randrange(4))
                else: s.op('st_%s 1' % which, m2, g2)
            else: s.op('adv', rng.choice([0, 1, 999, 1000, 5000, 30000, 59000, 60000, 61000, 200000] + ([32767000, 32768000, 32769000, 65536000 + 30000, 65595000, 2**31 * 1000] if k % 4 == 0 else [])))
    # a full table of sessions that are all complete (or all but one); an unknown key then fails to enter and disturbs nothing
    for k in range(4 if tier == 'quick' else 32):
        s.start('fullc_%d' % k); s.op('mk 0'); s.op('adv', 5000)
        ks16 = [(hx(mac(100 + i)), i % 3) for i in range(16)]
        for m, g in ks16: s.op('st_add 0', m, g, 1)
        for i, (m, g) in enumerate(ks16):
            if not (k % 2 == 1 and i == 7): s.op('st_complete 0', m, g, 1)
        s.op('st_add 0', hx(mac(999)), 0, 1); s.op('st_find 0', hx(mac(999)), 0); s.op('st_add 0', ks16[3][0], ks16[3][1], 9)
        s.op('st_remove 0', ks16[5][0], ks16[5][1]); s.op('st_add 0', hx(mac(998)), 2, 1); s.op('tick 0')
    # expiry exactly at the second boundary with ticks closer together than a second (the clock has millisecond resolution)
    for k in range(12 if tier == 'quick' else 300):
        s.start('edge_%d' % k); s.op('mk 0'); s.op('adv', 1000 * rng.randrange(5, 50) + rng.choice([0, 3, 500]))
        m1, m2 = hx(mac(1)), hx(mac(2))
        s.op('st_add 0', m1, 1, 1); s.op('adv', rng.choice([0, 400, 1000, 2500])); s.op('st_add 0', m2, 1, 1)
        s.op('adv', 57000)
        for i in range(rng.choice([30, 60])):
            s.op('adv', rng.choice([20, 100, 150, 200, 300, 600, 990])); s.op('tick 0')
            if rng.random() < 0.1: s.op('st_find 0', m1, 1)
    return [(s.text(), {})]
def project(blk, name, meta):
    if blk.op.startswith(('st_', 'tick', 'mk')): return project_keys(blk, ['ret', 'cnt', 'allc', 'empty', 'tbl'])
    return ()
def entries(tbl):
    if tbl in (None, '-'): return []
    r = []
    for e in tbl.split(','):
        t = e.split(':')   # idx:mac:gen:seq:state:complete:last
        r.append('%s:%s:%s:%s:%s' % (t[1], t[2], t[3], t[5], t[6]))
    return sorted(r)
def oracle(name, ib, mb, meta):
    fails = []
    for i, (bi, bm) in enumerate(zip(ib, mb)):
        if 'dict' not in bm.expect or bi.fault: continue
        want = [] if bm.expect['dict'] == ['-'] else sorted(bm.expect['dict'][0].split(','))
        got = entries(bi.kv.get('tbl'))
        if got != want:
            fails.append((i, 'op "%s": live sessions %s but the dictionary specification has %s' % (bi.op, got, want)))
        if 'retok' in bm.expect and 'ret' in bi.kv:
            ok = int(bi.kv['ret']) >= 0
            if ok != (bm.expect['retok'] == ['1']):
                fails.append((i, 'op "%s": returned %s but the dictionary specification says %s' % (bi.op, bi.kv['ret'], 'found/added' if bm.expect['retok'] == ['1'] else 'absent/refused')))
    return fails
def count(name, lines, ib, stats, meta):
    prev = 0
    for b in ib:
        if b.op.startswith('st_'):
            stats['evaluations'] += 1
            stats['distinct'].add((b.op.split()[0], prev, b.kv.get('ret', '') not in ('', '-1')))
            if len(stats['samples']) < 5 and prev >= 15 and b.op.startswith('st_add'):
                stats['samples'].append({'op': b.op, 'live_before': prev, 'ret': b.kv.get('ret'), 'count_after': b.kv.get('cnt')})
        if 'cnt' in b.kv: prev = int(b.kv['cnt'])
EXPLORE = dict(skip_ops=('set_map', 'set_sess', 'set_enum', 'band_set'), ops=('st_add', 'st_find', 'st_remove', 'st_complete', 'st_clear', 'tick', 'adv'), mtu=False, num={'st_add': {3: (0, 65535), 4: (0, 65535)}, 'st_find': {3: (0, 65535)}, 'st_remove': {3: (0, 65535)}, 'adv': {1: (0, 100000)}})
