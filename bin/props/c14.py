"""C14 - mapping engine state machine and time-outs."""
from props.base import *
COQ_TARGETS = ['props/Properties_C14.vo']
EXPECT_KEYS = {'map'}
RULE = ('exhaustive single steps: 3 states x inputs -128..255 x elapsed {0, t-1, t, t+1, 10t} (t = the state\'s time-out, 7 for the idle state), '
        'plus random event/advance/tick sequences with the 30 s inactivity deadline; counted per distinct (state, input, timed-out?) observed')
TMO = {0: 0, 1: 5, 2: 30}
def scenarios(rng, tier):
    s = Scn()
    for st in range(3):
        t = TMO[st] or 7
        for el in (0, t - 1, t, t + 1, 10 * t):
            s.start('cells_s%d_el%d' % (st, el)); s.op('mk 0'); s.op('adv 1000000')
            for inp in range(-128, 256):
                s.op('set_map 0', st, 1000 - el); s.op('ss_map 0', inp)
    nseq = 30 if tier == 'quick' else 1000
    for k in range(nseq):
        s.start('seq_%d' % k); s.op('mk 0'); s.op('adv', 1000 + rng.randrange(5000))
        for i in range(80):
            r = rng.random()
            if r < 0.35: s.op('adv', rng.choice([0, 500, 999, 1000, 4000, 5000, 6000, 29000, 30000, 31000, 61000]))
            elif r < 0.5: s.op('tick 0')
            elif r < 0.6: s.op('map_touch 0')
            elif r < 0.65: s.op('map_charge 0')
            elif r < 0.7: s.op('st_add 0', hx(mac(rng.randrange(4))), rng.randrange(3), rng.randrange(5))
            else: s.op('ss_map 0', rng.choice([0, 2, 8, -1, -3, 4, 6, 9, 11, -2, 1, 3, 5, 7, 12, 200, -100]))
    return [(s.text(), {})]
def project(blk, name, meta):
    if blk.op.startswith(('st_add',)): return project_keys(blk, ['cnt'])
    return project_keys(blk, ['map', 'ctc', 'chg', 'inact'] + (['cnt', 'empty'] if blk.op.startswith('tick') else []))
def count(name, lines, ib, stats, meta):
    prev = None
    for b in ib:
        if b.op.startswith('ss_map') and prev is not None and 'map' in b.kv:
            st0, t0 = prev.split('@'); st1, t1 = b.kv['map'].split('@')
            stats['evaluations'] += 1
            stats['distinct'].add((st0, b.op.split()[2], int(t1) - int(t0) > TMO.get(int(st0), 0) > 0))
            if len(stats['samples']) < 6 and st0 != st1:
                stats['samples'].append({'state': st0, 'input': b.op.split()[2], 'elapsed_s': int(t1) - int(t0), 'new_state': st1})
        if 'map' in b.kv: prev = b.kv['map']
