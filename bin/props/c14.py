"""C14 - mapping engine state machine and time-outs."""
from props.base import *
NEEDS_VIEW = True     # reads the public fields of the automata objects
COQ_TARGETS = ['props/Properties_C14.vo', 'props/Properties_C14h.vo']
EXPECT_KEYS = {'map'}
RULE = ('exhaustive single steps: 3 states x inputs -128..255 x elapsed {0, t-1, t, t+1, 10t} (t = the state\'s time-out, 7 for the idle state), '
        'plus random event/advance/tick sequences with the 30 s inactivity deadline; counted per distinct (state, input, timed-out?) observed')
TMO = {0: 0, 1: 5, 2: 30}
def scenarios(rng, tier):
    s = Scn()
    for st in range(3):
        t = TMO[st] or 7
        for el in (0, t - 1, t, t + 1, 10 * t):
            s.start('cells_s%d_el%d' % (st, el)); s.op('mk 0'); s.op('adv 1000000')
            for inp in range(-128, 256):
                s.op('set_map 0', st, 1000 - el); s.op('ss_map 0', inp)
    # an input that changes nothing still counts as input: two gaps each inside the time-out, together beyond it
    for st, tmo in ((1, 5), (2, 30)):
        for x in (1, 5, 7, 10, 12, 200, -2, 0, 4, 6, 11, 9):
            s.start('gap_s%d_x%d' % (st, x)); s.op('mk 0'); s.op('adv', 1000 + rng.randrange(9000)); s.op('ss_map 0 0')
            if st == 2: s.op('ss_map 0 2')
            for rep in range(3):
                s.op('adv', (tmo - rng.choice([0, 1])) * 1000); s.op('ss_map 0', x)
                s.op('adv', (tmo - rng.choice([0, 1, 2])) * 1000); s.op('ss_map 0', rng.choice([6, 4, 11, 1]) if st == 1 else rng.choice([4, 1, 7]))
    # inputs that alias others in 8 bits (0xFD ~ -3, 0xFF ~ -1, 0x100 ~ 0, 0x102 ~ 2) right before the real one, same second
    for st in (1, 2):
        for x, y in ((253, -3), (255, -1), (256, 0), (258, 2), (264, 8), (-254, 2), (-248, 8), (-3, 253), (-1, 255), (4, 4), (2, 2)):
            s.start('alias_s%d_%d_%d' % (st, x, y)); s.op('mk 0'); s.op('adv', 1000 + rng.randrange(9000)); s.op('ss_map 0 0')
            if st == 2: s.op('ss_map 0 2')
            s.op('ss_map 0', x); s.op('ss_map 0', y); s.op('adv 200'); s.op('ss_map 0', x); s.op('ss_map 0', y); s.op('ss_map 0', y)
    # the 30 s tick must EMPTY the table, also when live sessions sit behind a hole (an older one removed / expired): look them up afterwards
    for k in range(10 if tier == 'quick' else 200):
        s.start('hole_%d' % k); s.op('mk 0'); s.op('adv', 1000 + rng.randrange(9000)); A, Bm, Cm = hx(mac(1)), hx(mac(2)), hx(mac(3))
        s.op('ss_map 0 0'); s.op('map_touch 0'); s.op('st_add 0', A, 1, 1); s.op('adv', rng.choice([1000, 20000, 40000])); s.op('st_add 0', Bm, 1, 1); s.op('st_add 0', Cm, 2, 1); s.op('map_touch 0')
        if k % 2: s.op('st_remove 0', A, 1)
        else:
            for i in range(5): s.op('adv 5000'); s.op('st_add 0', Bm, 1, 1); s.op('st_add 0', Cm, 2, 1); s.op('map_touch 0'); s.op('ss_map 0 6'); s.op('tick 0')
        s.op('adv', rng.choice([30000, 31000, 45000])); s.op('tick 0')
        for m_, g_ in ((A, 1), (Bm, 1), (Cm, 2)): s.op('st_find 0', m_, g_)
    nseq = 30 if tier == 'quick' else 1000
    for k in range(nseq):
        s.start('seq_%d' % k); s.op('mk 0'); s.op('adv', 1000 + rng.randrange(5000))
        for i in range(80):
            r = rng.random()
            if r < 0.35: s.op('adv', rng.choice([0, 500, 999, 1000, 4000, 5000, 6000, 29000, 30000, 31000, 61000]))
            elif r < 0.5: s.op('tick 0')
            elif r < 0.6: s.op('map_touch 0')
            elif r < 0.65: s.op('map_charge 0')
            elif r < 0.7: s.op('st_add 0', hx(mac(rng.randrange(4))), rng.randrange(3), rng.randrange(5))
            else: s.op('ss_map 0', rng.choice([0, 2, 8, -1, -3, 4, 6, 9, 11, -2, 1, 3, 5, 7, 12, 200, -100]))
    return [(s.text(), {})]
def oracle(name, ib, mb, meta):
    """the property's state machine, run from the operations alone (no model involved): Discover (0) opens, Emit (2) in
    Command -> Emit, emission complete (-3) back, Reset (8) / -1 end the session, everything else unchanged; an active
    state left without input for longer than its time-out is idle at the next input (only a Discover reopens in that
    step); 30 s after the last frame the tick ends the session, clears the charge counter and empties the table"""
    fails = []; now = 0; st = 0; last_in = 0; last_frame = None; after_drop = False
    F = V.facts()
    for i, b in enumerate(ib):
        if b.fault: break
        t = b.op.split()
        if 'now' in b.kv: now = int(b.kv['now'])
        if t[0] == 'mk': st = 0; last_in = now // 1000; last_frame = None
        elif t[0] == 'set_map': st = int(t[2]); last_in = int(t[3])
        elif t[0] == 'map_touch': last_frame = now // 1000
        elif t[0] == 'ss_map' and 'map' in b.kv:
            inp = int(t[2]); ns = now // 1000
            tmo = {1: 5, 2: 30}.get(st, 0)
            got = int(b.kv['map'].split('@')[0])
            if tmo and ns - last_in > tmo:
                # timed out: idle; "only a Discover may reopen a session in that same step" - both outcomes are allowed then
                st = got if (inp == 0 and got in (0, 1)) else 0
            elif st == 0: st = 1 if inp == 0 else 0
            elif st == 1: st = 2 if inp == 2 else 0 if inp in (8, -1) else 1
            elif st == 2: st = 1 if inp == -3 else 0 if inp in (8, -1) else 2
            last_in = ns
            if got != st:
                fails.append((i, 'mapping engine in state %d after input %d at %d s; the state machine of the property gives %d' % (got, inp, ns, st))); break
        elif t[0] == 'st_find' and name.startswith('hole') and after_drop and b.kv.get('ret') not in (None, '-1'):
            fails.append((i, 'session %s/%s is still found (slot %s) after the 30 s inactivity tick that must empty the session table' % (t[2], t[3], b.kv.get('ret')))); break
        elif t[0] == 'tick' and 'map' in b.kv:
            ns = now // 1000
            if last_frame is not None and ns >= last_frame + 30:
                got = int(b.kv['map'].split('@')[0])
                if got != 0 or b.kv.get('ctc') != '0' or b.kv.get('cnt') not in (None, '0'):
                    fails.append((i, '30 s without a frame (last at %d s, tick at %d s): state %d, charge counter %s, %s sessions; must be idle / 0 / none' % (last_frame, ns, got, b.kv.get('ctc'), b.kv.get('cnt')))); break
                st = 0; last_frame = None; last_in = ns; after_drop = True
    return fails
def project(blk, name, meta):
    if blk.op.startswith(('st_add', 'st_remove')): return project_keys(blk, ['cnt'])
    if blk.op.startswith('st_find'): return (blk.kv.get('ret') == '-1',)
    return project_keys(blk, ['map', 'ctc', 'chg', 'inact'] + (['cnt', 'empty'] if blk.op.startswith('tick') else []))
def count(name, lines, ib, stats, meta):
    prev = None
    for b in ib:
        if b.op.startswith('ss_map') and prev is not None and 'map' in b.kv:
            st0, t0 = prev.split('@'); st1, t1 = b.kv['map'].split('@')
            stats['evaluations'] += 1
            stats['distinct'].add((st0, b.op.split()[2], int(t1) - int(t0) > TMO.get(int(st0), 0) > 0))
            if len(stats['samples']) < 6 and st0 != st1:
                stats['samples'].append({'state': st0, 'input': b.op.split()[2], 'elapsed_s': int(t1) - int(t0), 'new_state': st1})
        if 'map' in b.kv: prev = b.kv['map']
EXPLORE = dict(oracle=False, skip_ops=('set_map', 'set_sess', 'set_enum', 'band_set'), ops=('ss_map', 'adv', 'tick', 'map_touch', 'map_charge', 'st_add', 'st_remove', 'st_find'), mtu=False, num={'ss_map': {2: (-128, 255)}, 'adv': {1: (0, 400000)}})
