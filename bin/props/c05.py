"""C05 - one mapper at a time; Reset releases it; foreign services cannot seize it."""
from props.base import *
from props.blk import *
COQ_TARGETS = ['props/Properties_C05.vo']
RULE = ('(a) histories over 5 stations issuing Discover / Reset / Hello / Probe / Emit / Query / QueryLargeTlv in any order with ToS drawn from 0..255 (dense on 0, 1, 2); commands are issued '
        'by the active mapper or while none is active (domain restriction of the property) - the independent tracker marks the state open otherwise; oracle: reply-or-silence of every Discover. '
        '(b) the exhaustive single-step sweep over all 256 x 256 (ToS, opcode) pairs in the states "no mapper" and "mapper active", each followed by a Discover from the mapper, from a stranger, '
        'and (after a Reset check) compared with the rule. distinct = distinct (state, ToS class, opcode, reply) tuples + sweep cells')
def scenarios(rng, tier):
    s = Scn(); n = 50 if tier == 'quick' else 2000
    st0 = [mac(i) for i in range(1, 6)]; st = st0; own = OWN0
    for k in range(n):
        s.start('arb_%d' % k)
        st = TWINS[:5] if k % 3 == 1 else TWINS[2:] if k % 3 == 2 else st0
        active = None
        for i in range(60):
            r = rng.random(); X = rng.choice(st)
            tos = rng.choice([0, 0, 0, 1, 1, 2, 2, 3, 255, rng.randrange(256)])
            if r < 0.4: s.frame(0, discover(X, tos=tos, gen=rng.randrange(65536), seq=rng.randrange(65536)))
            elif r < 0.5: s.frame(0, reset(X, tos=tos))
            elif r < 0.58: s.frame(0, hello(X, tos=tos, gen=3))
            elif r < 0.68: s.frame(0, probe(X, own, X, own, tos=tos))
            else:
                # a command: from the active mapper when there is one (tracked the simple way: last accepted opener)
                Y = X
                kind = rng.choice(['emit', 'query', 'qlt'])
                if kind == 'emit': s.frame(0, emit(Y, own, [(1, 0, mac(7), mac(8))], seq=rng.randrange(1, 65536), tos=tos))
                elif kind == 'query': s.frame(0, query(Y, own, seq=rng.randrange(1, 65536), tos=tos))
                else: s.frame(0, qlt(Y, own, 14, 0, seq=rng.randrange(1, 65536), tos=tos))
    # the mapper's successive Discovers carry generations that are byte-swaps of each other (and of what the other service
    # holds): still the mapper, still answered; after a Reset of either service the next station is accepted whatever it carries
    for k in range(10 if tier == 'quick' else 120):
        G = [0x1200, 0x00FF, 0x1234, 0xFF00, 0x0100, rng.randrange(1, 65536)][k % 6]; Gs = ((G & 255) << 8) | (G >> 8)
        s.start('swapgen_%d' % k); M_, X_ = st0[0], st0[1]
        s.frame(0, discover(M_, tos=k % 2, gen=G, seq=1)); s.frame(0, discover(M_, tos=k % 2, gen=Gs, seq=2)); s.frame(0, discover(M_, tos=1 - k % 2, gen=Gs, seq=3))
        s.frame(0, discover(X_, tos=k % 2, gen=G, seq=4)); s.frame(0, discover(M_, tos=k % 2, gen=G, seq=5))
        s.frame(0, reset(M_, tos=[1, 0][k % 2])); s.frame(0, discover(X_, tos=1, gen=Gs, seq=6)); s.frame(0, discover(X_, tos=0, gen=G, seq=7)); s.frame(0, discover(M_, tos=0, gen=Gs, seq=8))
    # restricted-domain histories: commands only from the tracked mapper
    for k in range(n):
        s.start('dom_%d' % k); tr = MapperTracker()
        st = TWINS if k % 2 else st0
        for i in range(50):
            r = rng.random(); X = rng.choice(st); tos = rng.choice([0, 0, 1, 2, 7])
            if r < 0.45: fr = discover(X, tos=tos, gen=rng.randrange(65536), seq=rng.randrange(65536), esrc=X if rng.random() < 0.8 else mac(50))
            elif r < 0.55: fr = reset(X, tos=tos)
            elif r < 0.62: fr = hello(X, tos=tos)
            elif r < 0.7: fr = probe(X, own, X, own, tos=tos, train=rng.random() < 0.5)
            else:
                Y = tr.active if isinstance(tr.active, bytes) else X
                kind = rng.choice(['emit', 'query', 'qlt'])
                fr = (emit(Y, own, [(rng.randrange(2), 0, mac(7), mac(8))], seq=rng.randrange(1, 65536), tos=tos) if kind == 'emit'
                      else query(Y, own, seq=rng.randrange(1, 65536), tos=tos) if kind == 'query' else qlt(Y, own, rng.choice([14, 17, 19]), 0, seq=rng.randrange(1, 65536), tos=tos))
            s.frame(0, fr); tr.feed(dec(fr + bytes(8)))
    # long runs (counters of 7 / 8 / 16 bits), three and four interfaces, refused transmissions
    for nrep in (126, 127, 128, 129, 255, 256, 257):
        for kind in ('disc', 'mixed'):
            s.start('long_%s_%d' % (kind, nrep)); A, Bm = mac(1), mac(2)
            for i in range(nrep):
                s.frame(0, discover(A, gen=1 + i % 3, seq=i + 1))
                if kind == 'mixed' and i % 5 == 0: s.frame(0, emit(A, own, [(1, 0, mac(7), mac(8))], seq=i + 1))
            s.frame(0, discover(Bm, gen=9)); s.frame(0, discover(A, gen=9)); s.frame(0, reset(A)); s.frame(0, discover(Bm, gen=9))
    for k in range(10 if tier == 'quick' else 200):
        s.start('multi_%d' % k); trs = {c: MapperTracker() for c in range(4)}
        for i in range(60):
            c = rng.randrange(4) if k % 2 else rng.choice([0, 1, 1, 2, 0, 3]); X = rng.choice(st[:3]); r = rng.random()
            fr = discover(X, tos=rng.choice([0, 0, 1]), gen=rng.randrange(65536)) if r < 0.6 else reset(X, tos=rng.choice([0, 1])) if r < 0.7 else probe(X, own_of(c), X, own_of(c)) if r < 0.85 else generic(rng.randrange(256), rng.choice([2, 3]), X, X, own_of(c), own_of(c))
            s.frame(c, fr)
    for k in range(8 if tier == 'quick' else 100):
        s.start('txfail_%d' % k); A, Bm = mac(1), mac(2)
        s.frame(0, discover(A, gen=1))
        for i in range(6):
            if rng.random() < 0.5: s.op('failsend', 1)
            s.frame(0, discover(rng.choice([A, A, Bm]), gen=1 + i, tos=rng.choice([0, 1])))
        s.op('failsend clear'); s.frame(0, discover(Bm, gen=7)); s.frame(0, discover(A, gen=7))
    batches = [(s.text(), {})]
    # sweep: quick = every (ToS, opcode) pair once in one of the two states (65536 cells), alternating; thorough = both states
    M, Z = mac(1), mac(2)
    sw = Scn()
    states = ('none', 'active')
    for tos in range(256):
        sw.start('sweep_%d' % tos); sw.lines.append('cfg 0 mtu=576')
        for opc in range(256):
            for stt in states:
                if tier == 'quick' and ((tos + opc) % 2 == 0) != (stt == 'none') and not (tos < 3 or opc < 13): continue
                sw.frame(0, reset(M))                       # known starting point: released
                if stt == 'active': sw.frame(0, discover(M, gen=1))
                sw.frame(0, generic(opc, tos, Z, Z, OWN0, OWN0, seq=5, body=bytes([0, 1, 0, 0, 1, 0] + [2] * 12 + [3] * 6)))
                sw.frame(0, discover(Z, gen=9, tos=1))      # stranger (or first comer)
                sw.frame(0, discover(M, gen=9, tos=0))
    batches.append((sw.text(), {'sweep': True, 'nomodel': tier == 'quick'}))
    return batches
def project(blk, name, meta):
    # reply or silence
    if blk.fault: return ('fault',)
    if blk.op.startswith('frame'): return bool(blk.sends())
    return ()
def oracle(name, ib, mb, meta):
    fails = []; trs = {}
    for i, b in enumerate(ib):
        if not b.op.startswith('frame') or b.fault: continue
        ctx, fr = frame_of(b); d = dec(rxview(b, fr))
        tr = trs.setdefault(ctx, MapperTracker())
        sn = sends_of(b)
        if d['tos'] in (0, 1) and d['opc'] == 0:
            exp = tr.expect_reply(d); got = any(dec(o) and dec(o)['opc'] == 1 for _, _, o in sn)
            if exp is True and not got: fails.append((i, 'Discover from %s not answered although %s' % (d['rsrc'].hex(), 'no mapper is active' if tr.active is None else 'it is the active mapper')))
            if exp is False and got: fails.append((i, 'Discover from %s answered although %s is the active mapper' % (d['rsrc'].hex(), tr.active.hex())))
        elif d['tos'] not in (0, 1) and sn:
            fails.append((i, 'frame of service %d (opcode %d) caused %d transmission(s)' % (d['tos'], d['opc'], len(sn))))
        tr.feed(d)
    return fails
def count(name, lines, ib, stats, meta):
    tr = MapperTracker()
    for b in ib:
        if not b.op.startswith('frame'): continue
        ctx, fr = frame_of(b); d = dec(rxview(b, fr))
        stats['evaluations'] += 1
        stcls = 'none' if tr.active is None else 'open' if tr.active == '?' else ('own' if tr.active == d['rsrc'] else 'other')
        stats['distinct'].add((stcls, d['tos'] if (d['tos'] < 3 or name.startswith('sweep')) else 'x', d['opc'] if (d['opc'] < 13 or name.startswith('sweep')) else 'x', bool(sends_of(b))))
        if len(stats['samples']) < 4 and d['opc'] == 0 and stcls == 'other': stats['samples'].append({'state': 'mapper ' + tr.active.hex(), 'discover_from': d['rsrc'].hex(), 'replied': bool(sends_of(b))})
        tr.feed(d)
EXPLORE = dict(domain='frames', ops=('frame',), mtu=True)
