"""C07 - every observed probe is reported to the mapper exactly once."""
from props.base import *
from props.blk import *
COQ_TARGETS = ['props/Properties_C07.vo']
RULE = ('histories with k distinct Probe/Train observations between Queries, k in {0, 1, 2, cap-1, cap, cap+1, 2cap, 2cap+1, 300} (cap = floor((MTU-34)/20), MTU 576/1500/9216), plus duplicates, '
        'frames addressed to other stations, interleaved Discover/Emit/QueryLargeTlv/Hello/noise, bridged and direct mappers, Resets; successive Queries until the list is drained. '
        'Independent oracle (dictionary of pending observations): each QueryResp lists only pending observations with the fields as received, none twice, min(cap, pending) of them, more flag iff '
        'some remain, the Query\'s sequence number, destination = mapper or broadcast when bridged; delivered ones leave the pending set, nothing is lost. '
        'distinct = distinct (k class, MTU, more flag, delivered count class) tuples')
def scenarios(rng, tier):
    s = Scn(); n = 36 if tier == 'quick' else 800
    for k in range(n):
        mtu = rng.choice([576, 1500, 1500, 9216]) if k % 4 else rng.choice([576, 577, 600])
        if k % 3 == 1: mtu = rng.choice([1492, 1493]) if rng.random() < 0.4 else 576 + rng.randrange(40)     # every residue of (MTU-34) mod 20; 1492 = PPPoE
        cfg = Cfg(0, mtu=mtu); own = cfg.own(); cap = (mtu - 34) // 20
        s.start('see_%d' % k); s.lines.append(cfg.line())
        M = mac(1); ME = M if rng.random() < 0.6 else mac(40)
        s.frame(0, discover(M, gen=1, esrc=ME))
        for rnd in range(rng.choice([1, 2, 3])):
            kk = rng.choice([0, 1, 2, cap - 1, cap, cap + 1, 2 * cap, 2 * cap + 1, 300, cap + 255, cap + 256, cap + 257] if mtu < 9216 else [0, 1, 5, 300])
            kk = min(kk, 600)
            srcs = rng.sample(range(100, 100000), kk)
            for x in srcs:
                a, bm = mac(x), mac(x + 200000) if rng.random() < 0.3 else mac(x)
                s.frame(0, probe(a, rng.choice([own, BCAST]), bm, own, train=rng.random() < 0.4))
                r = rng.random()
                if r < 0.08: s.frame(0, probe(a, own, bm, own, train=rng.random() < 0.5))                       # duplicate
                elif r < 0.14: s.frame(0, probe(mac(x + 5), own, mac(x + 5), mac(77)))                             # for another station
                elif r < 0.17: s.frame(0, discover(M, gen=1, esrc=ME))
                elif r < 0.20: s.frame(0, qlt(M, own, 14, 0, seq=3, esrc=ME))
                elif r < 0.22: s.frame(0, hello(mac(9)))
                elif r < 0.24: s.frame(0, emit(M, own, [(1, 0, mac(7), mac(8))], seq=9, esrc=ME))
                elif r < 0.25: s.frame(0, generic(rng.randrange(256), rng.choice([1, 2]), a, a, own, own))
            nq = kk // cap + 1 + rng.choice([0, 1]) if rng.random() < 0.8 else 1
            reobs = list(reversed(srcs[-3:])) + srcs[:2]      # the most recently recorded station first
            for q in range(nq):
                if q == 1 and reobs and rng.random() < 0.85:
                    # stations already reported are seen again between two Queries (the most recently recorded ones first):
                    # a new observation each, to be reported again
                    for x in reobs[:rng.choice([1, 2, 5])]: s.frame(0, probe(mac(x), own, mac(x), own))
                # the Query may arrive by another path than the frame that opened the session (direct / through a bridge)
                s.frame(0, query(M, own, seq=rng.randrange(1, 65536), esrc=rng.choice([ME, ME, M, mac(41)])))
            if rng.random() < 0.25: s.frame(0, reset(M)); s.frame(0, discover(M, gen=1, esrc=ME))
    # stations (and destinations) that differ in one octet only: seven observations, none merged; what is addressed to a
    # twin of the own address is not for us
    for k in range(7 if tier == 'quick' else 42):
        own = OWN0; s.start('twin_%d' % k); s.lines.append(Cfg(0, mtu=rng.choice([576, 1500])).line())
        M = TWINS[k % 7]; s.frame(0, discover(M, gen=1, esrc=M))
        order = TWINS[k % 7:] + TWINS[:k % 7]
        for T in order: s.frame(0, probe(T, own, T, own, train=k % 2 == 0))
        for p_ in range(6): s.frame(0, probe(mac(90 + p_), twin(own, p_), mac(90 + p_), twin(own, p_)))
        for p_ in range(6): s.frame(0, probe(TWIN0, own, twin(TWIN0, p_, 0x01), own))          # same Ethernet source, real sources one bit apart
        s.frame(0, query(M, own, seq=9, esrc=M)); s.frame(0, query(M, own, seq=10, esrc=twin(M, k % 6)))
    # what one interface may hold does not depend on what the others hold: three other interfaces keep 300 observations
    # each (never queried), then interface 0 records 300 and is queried
    for k in range(1 if tier == 'quick' else 4):
        s.start('multi4_%d' % k)
        for c in (0, 1, 2, 3): s.lines.append(Cfg(c, mtu=9216 if k % 2 == 0 else 1500).line())
        M = mac(1)
        for c in (1, 2, 3):
            oc = own_of(c); s.frame(c, discover(M, gen=1))
            for i in range(300): s.frame(c, probe(mac(20000 + 1000 * c + i), oc, mac(20000 + 1000 * c + i), oc))
        s.frame(0, discover(M, gen=1))
        for i in range(300): s.frame(0, probe(mac(30000 + i), OWN0, mac(30000 + i), OWN0))
        for q_ in range(2 if k % 2 == 0 else 6): s.frame(0, query(M, OWN0, seq=5 + q_))
    fam_full_lists(s, 'full', RESIDUE_MTUS[::2] if tier == 'quick' else RESIDUE_MTUS)
    fam_mtu_change(s, 'mtuchg', rng, 8 if tier == 'quick' else 150)
    oth = other_iface_variants(s.text(), rng, 10 if tier == 'quick' else 150)
    return [(s.text(), {}), (oth, {'family': 'other-interface'})]
def project(blk, name, meta):
    # for a Query: sequence number, destination, how many observations are listed and the more flag (which ones, and in
    # which order, is left to the dictionary oracle: the property does not prescribe it)
    if blk.fault: return ('fault',)
    if blk.op.startswith('frame'):
        d = frame_hdr(blk)
        if d and d['tos'] == 0 and d['opc'] == 6:
            r = []
            for _, _, o in blk.sends():
                q = qresp_fields(o)
                r.append((q['seq'], q['edst'], q['n'], q['more']) if q else o)
            return tuple(r)
        return send_opcodes(blk)
    return ()
def oracle(name, ib, mb, meta):
    fails = []; mtu = 1500; own = OWN0; tr = None; maybe = {}
    for i, b in enumerate(ib):
        if b.op.startswith('cfg 0'):
            kv = dict(t.split('=', 1) for t in b.op.split()[2:]); mtu = int(kv.get('mtu', mtu)); own = bytes.fromhex(kv.get('mac', own.hex()))
            if kv.get('mtufail') == '1' or mtu == 0: mtu = 1500 if 'c07' != 'c06' else -1   # getter fails: the responder assumes 1500 (an Emit is dropped)
        if tr is None: tr = SeeTracker(own)
        if not b.op.startswith('frame 0 ') or b.fault: continue
        ctx, fr = frame_of(b); d = dec(rxview(b, fr))
        if d['tos'] == 1 and d['opc'] == 8:
            # "a Reset discards the record": the statement does not say of which service; after a quick-discovery Reset what
            # was pending may be reported or not (the topology Reset below is the one C09 speaks about)
            maybe.update(tr.pending); tr.pending.clear()
        if d['tos'] != 0: continue
        if d['opc'] in (3, 4):
            tr.own = own
            # a station whose earlier observation may still be held (see above) may be de-duplicated against it: stays open
            if (d['esrc'], d['rsrc']) not in maybe: tr.feed_probe(d)
        elif d['opc'] == 8: tr.pending.clear(); tr.open = False; maybe.clear()
        elif d['opc'] == 6 and not tr.open:
            cap = (mtu - 34) // 20
            sn = sends_of(b)
            q = qresp_fields(sn[0][2]) if len(sn) == 1 else None
            if q is None:
                fails.append((i, 'Query answered by %d frame(s), not by one QueryResp' % len(sn))); continue
            dst = d['rsrc'] if d['rsrc'] == d['esrc'] else BCAST
            if q['seq'] != d['seq']: fails.append((i, 'QueryResp bears sequence number %d, the Query had %d' % (q['seq'], d['seq'])))
            if q['edst'] != dst or q['rdst'] != dst: fails.append((i, 'QueryResp addressed to %s/%s, must go to %s' % (q['edst'].hex(), q['rdst'].hex(), dst.hex())))
            seen = set()
            for (t, rs, es, ed) in q['descs']:
                key = (es, rs)
                if key in seen: fails.append((i, 'observation %s/%s listed twice in one QueryResp' % (es.hex(), rs.hex())))
                seen.add(key)
                if key in maybe and key not in tr.pending: maybe.pop(key); continue
                if key not in tr.pending: fails.append((i, 'QueryResp lists %s/%s, which was not observed since the last report (invented or reported twice)' % (es.hex(), rs.hex())))
                elif tr.pending[key] != (t, rs, es, ed): fails.append((i, 'observation %s/%s reported as %r, received as %r' % (es.hex(), rs.hex(), (t, ed.hex()), (tr.pending[key][0], tr.pending[key][3].hex()))))
            # how many go into one frame is bounded by the MTU, not prescribed; but an answer must make progress
            if 34 + 20 * q['n'] > mtu: fails.append((i, 'QueryResp lists %d observations, more than fit into the MTU %d' % (q['n'], mtu)))
            if q['n'] == 0 and tr.pending and cap > 0: fails.append((i, 'QueryResp lists nothing although %d observations are pending and %d fit' % (len(tr.pending), cap)))
            for key in seen: tr.pending.pop(key, None)
            if not q['more']: maybe.clear()
            if q['more'] != (len(tr.pending) > 0) and not (q['more'] and maybe):
                fails.append((i, 'QueryResp more flag is %d although %d observations remain unreported' % (q['more'], len(tr.pending))))
            if not q['more'] and tr.pending:
                fails.append((i, '%d observations silently dropped (not delivered, no more flag)' % len(tr.pending))); tr.pending.clear()
    return fails
def count(name, lines, ib, stats, meta):
    mtu = 1500; pend = 0
    for b in ib:
        if b.op.startswith('cfg 0'): mtu = int(dict(t.split('=', 1) for t in b.op.split()[2:])['mtu'])
        if not b.op.startswith('frame 0 '): continue
        ctx, fr = frame_of(b); d = dec(rxview(b, fr))
        if d['opc'] == 6 and d['tos'] == 0:
            stats['evaluations'] += 1
            sn = sends_of(b); q = qresp_fields(sn[0][2]) if sn else None
            cap = (mtu - 34) // 20
            if q:
                c = lambda v: v if v <= 2 else 'cap-1' if v == cap - 1 else 'cap' if v == cap else 'cap+1' if v == cap + 1 else '>cap' if v > cap else '<cap'
                stats['distinct'].add((mtu, q['more'], c(q['n'])))
                if len(stats['samples']) < 4 and q['more']: stats['samples'].append({'mtu': mtu, 'capacity': cap, 'listed': q['n'], 'more': q['more']})
EXPLORE = dict(domain='frames', ops=('frame',), mtu=True)
