"""C18 - platform faults degrade service gracefully and never wedge the responder."""
from props.base import *
from props.blk import *
import os
COQ_TARGETS = ['props/Properties_C18.vo']
CORR_IS_SPEC = False
RULE = ('fixed corpus of request scenarios covering every request type (Discover->Hello wired and Wi-Fi, Emit with 1 and 3 descriptors, Probes+Query below and above one frame, QueryLargeTlv for '
        'icon / friendly name / hardware id / unknown type, Reset), each run with the k-th allocation failing for EVERY k up to the scenario\'s allocation count (counted by a dry run), with '
        'single and repeated transmit failures, with every single failing getter and random subsets (MTU, address, icon, name, ...); then the fault clears, a topology Reset is sent and a '
        'continuation is run in parallel on a never-used interface. Oracles: no crash / sanitizer report, no release of foreign memory; after the Reset exactly the interface records are live; '
        'post-Reset reactions identical to the fresh interface; automata constructors under failing allocations return NULL or a complete object. '
        'distinct = distinct (scenario, fault kind, k) triples')
_baseline = {}
def corpus(rng):
    """-> [(name, cfg-lines, frame-lines)] for interface 0"""
    own = OWN0; M = mac(1); res = []
    def mk(name, cfgkw, gkw, frames):
        c = Cfg(0, **cfgkw); res.append((name, [c.line(), Cfg(1, **dict(c.d)).line(), gline(**gkw)], frames, c))
    F = lambda b: 'frame 0 00 ' + hx(b)
    icon = bytes(range(256)) * 8
    mk('hello_wired', {}, dict(host=b'verif-host'), [F(discover(M, gen=7))])
    mk('hello_wifi', dict(wifi=1, ssid=b'net', bssid=bytes([1, 2, 3, 4, 5, 6]), rate=108, rssi=-60), dict(host=b'h'), [F(discover(M, gen=7, tos=1)), F(discover(M, gen=8, tos=0))])
    mk('emit1', {}, {}, [F(discover(M, gen=7)), F(emit(M, own, [(1, 1, mac(7), mac(8))], seq=3))])
    mk('emit3', {}, {}, [F(discover(M, gen=7)), F(emit(M, own, [(1, 0, mac(7), mac(8)), (0, 2, mac(9), mac(8)), (1, 0, mac(10), mac(11))], seq=4))])
    mk('query_small', {}, {}, [F(discover(M, gen=7))] + [F(probe(mac(100 + i), own, mac(100 + i), own)) for i in range(3)] + [F(probe(mac(100), own, mac(100), own)), F(query(M, own, seq=5)), F(query(M, own, seq=6))])
    mk('query_big', dict(mtu=576), {}, [F(discover(M, gen=7))] + [F(probe(mac(100 + i), own, mac(100 + i), own, train=i % 2 == 0)) for i in range(30)] + [F(query(M, own, seq=5)), F(query(M, own, seq=6))])
    mk('qlt_icon', {}, dict(icon=icon), [F(discover(M, gen=7)), F(qlt(M, own, 14, 0, seq=2)), F(qlt(M, own, 14, 1466, seq=3)), F(qlt(M, own, 14, 0, seq=4, tos=1))])
    mk('qlt_name_hwid', {}, dict(fname=b'A friendly name', hwid=b'HWID\x01\x02'), [F(discover(M, gen=7)), F(qlt(M, own, 17, 0, seq=2)), F(qlt(M, own, 19, 0, seq=3)), F(qlt(M, own, 99, 0, seq=4))])
    # an interface whose MTU is not the 1500-byte fallback, answers that fill a frame: a value latched while a getter failed shows afterwards
    mk('small_mtu_big', dict(mtu=600), dict(icon=icon, fname=b'F' * 700), [F(discover(M, gen=7)), F(qlt(M, own, 14, 0, seq=2))] + [F(probe(mac(100 + i), own, mac(100 + i), own)) for i in range(40)] + [F(query(M, own, seq=5)), F(qlt(M, own, 17, 0, seq=6))])
    mk('jumbo_big', dict(mtu=9000), dict(icon=icon * 6, fname=b'F' * 700), [F(discover(M, gen=7)), F(qlt(M, own, 14, 0, seq=2))] + [F(probe(mac(100 + i), own, mac(100 + i), own)) for i in range(80)] + [F(query(M, own, seq=5))])
    mk('mixed', dict(mtu=1500), dict(icon=icon[:100]), [F(discover(M, gen=7)), F(probe(mac(5), own, mac(5), own)), F(qlt(M, own, 14, 0, seq=2)), F(emit(M, own, [(1, 0, mac(7), mac(8))], seq=3)),
                                                    F(query(M, own, seq=4)), F(reset(M)), F(discover(mac(2), gen=9)), F(probe(mac(6), own, mac(6), own)), F(query(mac(2), own, seq=5))])
    return res
CONT = None
def continuation(own, big=False):
    M = mac(3)
    fr = [discover(M, gen=11), probe(mac(50), own, mac(50), own)] + ([probe(mac(200 + i), own, mac(200 + i), own) for i in range(90)] if big else []) + [
          emit(M, own, [(1, 0, mac(7), mac(8))], seq=8), query(M, own, seq=9), qlt(M, own, 14, 0, seq=10), qlt(M, own, 17, 0, seq=11), reset(M), discover(mac(4), gen=1, tos=1)]
    L = []
    for f in fr: L.append('frame 0 00 ' + hx(f)); L.append('frame 1 00 ' + hx(f))
    return L
def count_allocs(name, cfgl, frames):
    """dry run on the implementation: allocations and transmissions the scenario makes"""
    d = os.path.join(V.BUILD, 'run'); os.makedirs(d, exist_ok=True)
    scn = os.path.join(d, 'C18_dry.scn'); open(scn, 'w').write('scenario dry\n' + '\n'.join(cfgl + frames) + '\n')
    V.run_impl(scn, scn + '.out')
    bl = V.parse_out(scn + '.out').get('dry', [])
    last = [b for b in bl if 'allocs' in b.kv]
    return (int(last[-1].kv['allocs']), int(last[-1].kv['sends'])) if last else (8, 4)
def scenarios(rng, tier):
    s = Scn()
    for (name, cfgl, frames, c) in corpus(rng):
        na, ns = count_allocs(name, cfgl, frames)
        own = c.own()
        def emit_scn(tag, fault_lines, extra_cfg=None):
            s.start('%s~%s' % (name, tag)); s.lines += cfgl
            if extra_cfg: s.lines += extra_cfg
            s.lines += fault_lines; s.lines += frames
            s.lines += ['failalloc clear', 'failsend clear']
            if extra_cfg:   # the fault clears
                s.lines += cfgl
            s.lines.append('frame 0 00 ' + hx(reset(mac(1)))); s.lines.append('frame 1 00 ' + hx(reset(mac(1))))
            s.lines += continuation(own, big='big' in name)
            s.lines.append('frame 0 00 ' + hx(reset(mac(1)))); s.lines.append('frame 1 00 ' + hx(reset(mac(1))))
        emit_scn('nofault', [])
        for k in range(1, na + 1): emit_scn('alloc%d' % k, ['failalloc %d' % k])
        for k in range(1, na + 1, 2 if tier == 'quick' else 1): emit_scn('allocfrom%d' % k, ['failalloc from %d' % k])
        for k in range(1, ns + 1): emit_scn('send%d' % k, ['failsend %d' % k])
        emit_scn('sendall', ['failsend from 1'])
        for k in range(1, min(na, 6) + 1): emit_scn('alloc%d_sendall' % k, ['failalloc %d' % k, 'failsend from 1'])
        getters = ['mtufail', 'macfail', 'iftypefail', 'ipv4fail', 'ipv6fail', 'speedfail', 'bssidfail', 'ratefail', 'rssifail']
        for gname in getters:
            cf = Cfg(0, **dict(c.d)); cf.d[gname] = 1
            emit_scn(gname, [], [cf.line()])
        for j in range(4 if tier == 'quick' else 40):
            cf = Cfg(0, **dict(c.d))
            for gname in getters:
                if rng.random() < 0.4: cf.d[gname] = 1
            emit_scn('getters%d' % j, ['failalloc %d' % rng.randrange(1, na + 2)] if rng.random() < 0.5 else [], [cf.line(), gline(icon=None, fname=None)])
    # getters that fail exactly once (the n-th call), a failing MTU getter with a small receive buffer and counters that fit
    # the 1500-byte fallback, automata built under a failing allocation and then used.  The model has no per-call getter
    # oracle: for these families only crash / no crash and the leak comparison are judged (see project).
    own = OWN0; M = mac(1)
    for mtu in (576, 800):
        for n_ in (1, 2, 3, 4):
            s.start('once_mtu%d_%d~x' % (mtu, n_)); s.lines.append('cfg 0 mtu=%d' % mtu); s.lines.append('cfg 1 mtu=%d' % mtu); s.lines.append(gline(icon=bytes(range(200)) * 8, fname=b'fn'))
            s.frame(0, discover(M, gen=1))
            for i in range(45): s.frame(0, probe(mac(100 + i), own, mac(100 + i), own))
            for fr in (query(M, own, seq=2), emit(M, own, [(1, 0, mac(7), mac(8))] * 30, seq=3, count=rng.choice([45, 70, 104])), qlt(M, own, 14, 0, seq=4), discover(M, gen=2), query(M, own, seq=5)):
                s.lines.append('cfg 0 mtufailat=%d' % n_); s.frame(0, fr, 'ff')
            s.lines.append('cfg 0 mtufail=1'); s.frame(0, emit(M, own, [(1, 0, mac(7), mac(8))] * 30, seq=6, count=rng.choice([39, 60, 104])), 'ff'); s.frame(0, query(M, own, seq=7))
            s.lines.append('cfg 0 mtufail=0 macfailat=1'); s.frame(0, discover(M, gen=3)); s.frame(0, query(M, own, seq=8))
            s.frame(0, reset(M)); s.frame(1, reset(M))
    # the very allocation of a NEW interface's record fails while another interface holds observations, a mapper and a cached
    # icon: that frame may go unanswered, but nothing the first interface holds may be lost, and nothing may leak
    for k in range(6):
        s.start('regfail_%d~x' % k); s.lines.append('cfg 0 mtu=1500'); s.lines.append('cfg 1 mtu=1500'); s.lines.append(gline(icon=bytes(range(200)), fname=b'fn'))
        s.frame(0, discover(M, gen=1))
        for i in range(3): s.frame(0, probe(mac(100 + i), own, mac(100 + i), own))
        if k % 2: s.frame(0, qlt(M, own, 14, 0, seq=2))
        s.op('failalloc', 1 + k // 2)                      # the next allocation(s): the new record (and, for k >= 2, what follows)
        s.frame(1, [discover(mac(2), gen=1), probe(mac(300), own_of(1), mac(300), own_of(1)), query(mac(2), own_of(1), seq=3)][k % 3])
        s.op('failalloc clear')
        s.frame(0, discover(mac(5), gen=2)); s.frame(0, query(M, own, seq=4))
        s.frame(0, reset(M)); s.frame(1, reset(M))
    for k in range(1, 7):
        # the automata of an interface are built while the k-th allocation fails, then driven through the core's own API
        # (ticks, session table, automata events); a constructor result that is NULL is passed on as the ports would
        for hist in ('expire', 'inactive', 'charge'):
            s.start('mkfail_%d_%s~x' % (k, hist)); s.op('failalloc', k); s.op('mk 0'); s.op('failalloc clear'); s.op('adv 5000')
            s.op('st_add 0', hx(M), 1, 1); s.op('ss_map 0 0'); s.op('ss_sess 0 2'); s.op('ss_enum 0 3'); s.op('map_touch 0'); s.op('tick 0')
            if hist == 'charge': s.op('map_charge 0'); s.op('adv 1500'); s.op('tick 0')
            s.op('adv', 31000 if hist == 'inactive' else 61000); s.op('tick 0'); s.op('adv 100'); s.op('tick 0')
            s.op('st_add 0', hx(M), 2, 1); s.op('ss_map 0 0'); s.op('tick 0'); s.op('st_clear 0'); s.op('tick 0')
    # constructors
    for kind in ('mapping', 'session', 'enumeration', 'table'):
        for k in range(0, 4):
            s.start('ctor_%s_%d' % (kind, k))
            if k: s.op('failalloc', k)
            s.op('ctor', kind); s.op('failalloc clear'); s.op('ctor', kind)
        s.start('ctor_%s_all' % kind); s.op('failalloc from 1'); s.op('ctor', kind)
    return [(s.text(), {})]
def project(blk, name, meta):
    if blk.fault: return ('fault',)
    if name.endswith('~x'): return ()        # families whose faults the model does not express: crash / leak only
    if blk.op.startswith('frame'): return send_opcodes(blk) + (blk.kv.get('live'),)
    if blk.op.startswith('ctor'): return (blk.kv.get('ret'), blk.kv.get('extra'), blk.kv.get('st'), blk.kv.get('live'))
    return ()
def strip(acts): return [tuple(a.split()[2:]) if a.startswith('send') else tuple(a.split()) for a in acts]
def oracle(name, ib, mb, meta):
    fails = []
    if any(b.fault for b in ib):
        k = next(i for i, b in enumerate(ib) if b.fault)
        fails.append((k, 'the responder crashed / corrupted memory (sanitizer report or bad release) under the injected platform fault'))
        return fails
    if name.startswith('mkfail') and 'inactive' in name:
        # not wedged: 30 s without a frame end the mapping session at the next tick, whatever part of the automata could not be built
        armed = False
        for i, b in enumerate(ib):
            if b.op.startswith('adv 31000'): armed = True
            elif armed and b.op.startswith('tick') and 'map' in b.kv and 'null' not in b.kv['map']:
                if 'inact' in b.kv and b.kv['map'].split('@')[0] != '0':
                    fails.append((i, 'mapping engine still in state %s after 30 s without a frame and a tick (automata built while an allocation failed): the session never ends' % b.kv['map'].split('@')[0]))
                break
    if name.startswith('regfail'):
        for i, b in enumerate(ib):
            if not b.op.startswith('frame 0 '): continue
            t = b.op.split(); d = dec(bytes.fromhex(t[3]) + bytes(36))
            if d['opc'] == 0 and d['rsrc'] == mac(5) and sends_of(b):
                fails.append((i, 'interface 0 answers another mapper\'s Discover after a record allocation failed for ANOTHER interface: its mapper association was lost'))
            if d['opc'] == 6:
                sn = sends_of(b); q = qresp_fields(sn[0][2]) if sn else None
                if q is None or q['n'] != 3:
                    fails.append((i, 'interface 0 reports %s of its 3 observations after a record allocation failed for ANOTHER interface' % (q['n'] if q else 'none')))
        lv = [b.kv.get('live') for b in ib if b.op.startswith('frame') and 'live' in b.kv]
        if lv and int(lv[-1]) > 2: fails.append((len(ib) - 1, 'after both interfaces were reset %s allocations are live (two interface records at most): memory was orphaned when the record allocation failed' % lv[-1]))
    if name.endswith('~x'): return fails
    if name.startswith('ctor'):
        for i, b in enumerate(ib):
            if b.op.startswith('ctor') and 'live' in b.kv:
                if b.kv.get('live') != '0': fails.append((i, 'constructor leaves %s allocation(s) live after its object was released (leak on the failure path)' % b.kv.get('live')))
                if b.kv.get('ret') == 'ok' and b.op.split()[1] in ('mapping', 'enumeration') and b.kv.get('extra') != 'ok' and b.op.split()[1] == 'enumeration':
                    fails.append((i, 'enumeration constructor returned an automaton without its RepeatBand state'))
        return fails
    cleared = False; prev = None; after_reset = 0
    base = name.partition('~')[0]; finals = []
    for i, b in enumerate(ib):
        if b.op.startswith('failsend clear'): cleared = True; continue
        if not cleared or not b.op.startswith('frame'): continue
        t = b.op.split()
        d = dec(bytes.fromhex(t[3]) + bytes(36))
        if d['opc'] == 8 and t[1] == '1':
            # both interfaces have just been reset: exactly the two interface records may be live
            finals.append((i, b.kv.get('live')))
        if t[1] == '1' and prev is not None and prev[0].split()[2:] == t[2:] and d['opc'] != 8:
            if strip(prev[1]) != strip(b.acts):
                fails.append((i, 'after fault + Reset the reaction to "%s..." differs from that of a fresh interface (%d vs %d port calls)' % (t[3][:40], len(prev[1]), len(b.acts))))
        prev = (b.op, b.acts) if t[1] == '0' else None
    # nothing may be lost or left behind BECAUSE of the fault: after fault + Reset exactly as much is allocated as after the
    # same requests + Reset without any fault (first scenario of each family)
    if not meta.get('shrinking') and finals:
        # compared at the very end (both interfaces have been used and reset again), where the record allocation that an
        # injected fault may have delayed has certainly happened
        if name.endswith('~nofault'): _baseline[base] = finals[-1][1]
        elif base in _baseline and finals[-1][1] != _baseline[base]:
            fails.append((finals[-1][0], 'after the fault cleared, further traffic and a final Reset %s allocations are live, %s without the fault: memory was leaked (or an interface record lost) under the injected fault' % (
                finals[-1][1], _baseline[base])))
    return fails
def count(name, lines, ib, stats, meta):
    stats['evaluations'] += 1
    base, _, tag = name.partition('~')
    stats['distinct'].add((base, tag))
    if len(stats['samples']) < 4 and 'alloc2' in tag: stats['samples'].append({'scenario': name, 'ops': len(lines), 'final_live': next((b.kv.get('live') for b in reversed(ib) if 'live' in b.kv), None)})
EXPLORE = dict(ops=('frame',), mtu=False, oracle=False)
