"""C15 - session automaton life-cycle."""
from props.base import *
NEEDS_VIEW = True     # reads the public fields of the automata objects
COQ_TARGETS = ['props/Properties_C15.vo']
EXPECT_KEYS = {'sess'}
RULE = ('exhaustive single steps: 4 states x session events 0..7 x elapsed {0, t-1, t, t+1, 10t} s with t = 1 (one scenario per cell, '
        'state and time stamp installed with set_sess), plus random event/advance sequences; a case is counted once per distinct '
        '(state before, event, timed-out?) triple observed on the implementation')
def scenarios(rng, tier):
    s = Scn()
    for st in range(4):
        for ev in range(8):
            for el in (0, 0, 1, 2, 10):
                s.start('cell_s%d_e%d_el%d_%d' % (st, ev, el, s.count))
                s.op('mk 0'); s.op('adv', 5000 + rng.randrange(1000)); s.op('set_sess 0', st, 5); s.op('adv', el * 1000); s.op('ss_sess 0', ev)
    nseq = 40 if tier == 'quick' else 1500
    for k in range(nseq):
        s.start('seq_%d' % k); s.op('mk 0')
        for i in range(60):
            if rng.random() < 0.4: s.op('adv', rng.choice([0, 300, 900, 1000, 1100, 1999, 2000, 2500]))
            s.op('ss_sess 0', rng.randrange(8))
    return [(s.text(), {})]
def project(blk, name, meta):
    return project_keys(blk, ['sess'])
def count(name, lines, ib, stats, meta):
    prev = None
    for b in ib:
        if b.op.startswith('ss_sess') and prev is not None and 'sess' in b.kv:
            st0, t0 = prev.split('@'); st1, t1 = b.kv['sess'].split('@')
            stats['evaluations'] += 1
            stats['distinct'].add((st0, b.op.split()[2], int(t1) - int(t0) > 1))
            if len(stats['samples']) < 6 and st0 != st1:
                stats['samples'].append({'state': st0, 'event': b.op.split()[2], 'elapsed_s': int(t1) - int(t0), 'new_state': st1})
        if 'sess' in b.kv: prev = b.kv['sess']
