"""C15 - session automaton life-cycle."""
from props.base import *
NEEDS_VIEW = True     # reads the public fields of the automata objects
COQ_TARGETS = ['props/Properties_C15.vo', 'props/Properties_C15h.vo']
EXPECT_KEYS = {'sess'}
RULE = ('exhaustive single steps: 4 states x session events 0..7 x elapsed {0, t-1, t, t+1, 10t} s with t = 1 (one scenario per cell, '
        'state and time stamp installed with set_sess), plus random event/advance sequences; a case is counted once per distinct '
        '(state before, event, timed-out?) triple observed on the implementation')
def scenarios(rng, tier):
    s = Scn()
    for st in range(4):
        for ev in range(8):
            for el in (0, 0, 1, 2, 10):
                s.start('cell_s%d_e%d_el%d_%d' % (st, ev, el, s.count))
                s.op('mk 0'); s.op('adv', 5000 + rng.randrange(1000)); s.op('set_sess 0', st, 5); s.op('adv', el * 1000); s.op('ss_sess 0', ev)
    nseq = 40 if tier == 'quick' else 1500
    for k in range(nseq):
        s.start('seq_%d' % k); s.op('mk 0')
        for i in range(60):
            if rng.random() < 0.4: s.op('adv', rng.choice([0, 300, 900, 1000, 1100, 1999, 2000, 2500]))
            s.op('ss_sess 0', rng.randrange(8))
    # very long idle times (16-bit and 32-bit second counters), sequences of one-second gaps, a second automaton created later
    for st in range(4):
        for el in (65535, 65536, 65537, 65538, 131072, 131073, 2 ** 31, 2 ** 32 + 1):
            s.start('long_s%d_el%d' % (st, el)); s.op('mk 0'); s.op('adv', 5000)
            # reach the state through events
            for ev in {0: [0], 1: [], 2: [2], 3: [3]}[st]: s.op('ss_sess 0', ev)
            s.op('adv', el * 1000); s.op('ss_sess 0', rng.choice([2, 3, 4, 5, 7, 0])); s.op('ss_sess 0', rng.randrange(8))
    for k in range(30 if tier == 'quick' else 600):
        s.start('gaps_%d' % k); s.op('mk 0'); s.op('adv', 5000 + rng.randrange(1000))
        for i in range(40):
            s.op('adv', rng.choice([1000, 1000, 999, 1, 0, 1001, 2000])); s.op('ss_sess 0', rng.choice([7, 7, 2, 3, 4, 5, 0, 6, 1]))
    for k in range(8 if tier == 'quick' else 100):
        s.start('second_%d' % k); s.op('mk 0'); s.op('adv', 3000 + rng.randrange(9000)); s.op('ss_sess 0', 2)
        s.op('adv', rng.choice([1500, 5000, 70000])); s.op('mk 1'); s.op('adv', rng.choice([0, 300, 900]))
        for ev in (rng.choice([2, 3, 0]), rng.randrange(8), rng.randrange(8)): s.op('ss_sess 1', ev); s.op('adv', rng.choice([0, 500]))
    # several interfaces whose session automata sit in active states and fall silent together: each returns to Nascent on
    # its own next event, also when those events come within one second of each other
    for k in range(8 if tier == 'quick' else 100):
        s.start('both_%d' % k); s.op('mk 0'); s.op('mk 1'); s.op('mk 2'); s.op('adv', 4000 + rng.randrange(3000))
        first = [rng.choice([2, 3, 0]) for _ in range(3)]
        for c in (0, 1, 2): s.op('ss_sess %d' % c, 7)            # the first event after the long start-up silence is the one the time-out swallows
        s.op('adv', 200)
        for c in (0, 1, 2): s.op('ss_sess %d' % c, first[c])     # now Pending / Complete / Temporary
        s.op('adv', rng.choice([2000, 5000, 70000]))
        for c in (0, 1, 2):
            s.op('ss_sess %d' % c, rng.choice([7, 6, 5, 4])); s.op('adv', rng.choice([0, 0, 100]))
        for c in (0, 1, 2): s.op('ss_sess %d' % c, rng.choice([2, 3]))
    return [(s.text(), {})]
SPEC = {(1, 2): 2, (1, 3): 3, (1, 0): 0, (2, 3): 3, (2, 5): 3, (3, 4): 2, (0, 7): 1, (0, 6): 1}
def oracle(name, ib, mb, meta):
    """the life-cycle of the property statement, from the operations alone; time-out = 1 s of inactivity (the source's
    value, regenerated); events outside 0..7 are left unspecified"""
    fails = []; now = 0; st = {}; last = {}
    for i, b in enumerate(ib):
        if b.fault: break
        t = b.op.split()
        if 'now' in b.kv and t[0] == 'adv': now = int(b.kv['now'])
        ns = now // 1000
        if t[0] == 'mk': st[t[1]] = 1; last[t[1]] = ns
        elif t[0] == 'set_sess': st[t[1]] = int(t[2]); last[t[1]] = int(t[3])
        elif t[0] == 'ss_sess' and 'sess' in b.kv and t[1] in st:
            ev = int(t[2]); c = t[1]
            if not 0 <= ev <= 7: st.pop(c, None); continue
            cur = st[c]
            if ns - last[c] > 1: cur = 1 if True else cur         # inactivity returns every state to Nascent ...
            exp_timeout = ns - last[c] > 1
            if exp_timeout:
                want = {1}                                         # ... and the event that woke it up is consumed by that step
            else:
                want = {1 if ev == 1 else SPEC.get((cur, ev), cur)}
            got = int(b.kv['sess'].split('@')[0])
            if got not in want:
                fails.append((i, 'session automaton in state %d after event %d (%d s after the previous event, state before %d); the life-cycle gives %s' % (got, ev, ns - last[c], st[c], sorted(want)))); break
            st[c] = got; last[c] = ns
    return fails
def project(blk, name, meta):
    return project_keys(blk, ['sess'])
def count(name, lines, ib, stats, meta):
    prev = None
    for b in ib:
        if b.op.startswith('ss_sess') and prev is not None and 'sess' in b.kv:
            st0, t0 = prev.split('@'); st1, t1 = b.kv['sess'].split('@')
            stats['evaluations'] += 1
            stats['distinct'].add((st0, b.op.split()[2], int(t1) - int(t0) > 1))
            if len(stats['samples']) < 6 and st0 != st1:
                stats['samples'].append({'state': st0, 'event': b.op.split()[2], 'elapsed_s': int(t1) - int(t0), 'new_state': st1})
        if 'sess' in b.kv: prev = b.kv['sess']
EXPLORE = dict(skip_ops=('set_map', 'set_sess', 'set_enum', 'band_set'), ops=('ss_sess', 'adv'), mtu=False, num={'ss_sess': {2: (0, 7)}, 'adv': {1: (0, 20000)}})
