"""Shared pieces of the frame-level property checks (C01..C10, C17..C19):
independent wire decoders written from MS-LLTD (not from the C headers, not
from the Coq model), specification-level trackers, configuration and session
generators."""
import struct, re
from lltdgen import *
import vcommon as V

OWN0 = bytes([2, 0, 0, 0, 0, 0x10])
def own_of(ctx): return bytes([2, 0, 0, 0, 0, 0x10 + ctx])

# ------------------------------------------------------------------ decoders
def dec(fr):
    """base header -> dict, None if shorter than 32 bytes"""
    if len(fr) < 32: return None
    return dict(edst=fr[0:6], esrc=fr[6:12], etype=(fr[12] << 8) | fr[13], ver=fr[14], tos=fr[15], res=fr[16], opc=fr[17],
                rdst=fr[18:24], rsrc=fr[24:30], seq=(fr[30] << 8) | fr[31], body=fr[32:])

# every property type MS-LLTD defines for a Hello (not only those this responder emits today): (min, max) value bytes
LEGAL = {1: (6, 6), 2: (4, 4), 3: (4, 4), 4: (1, 1), 5: (6, 6), 6: (0, 32), 7: (4, 4), 8: (16, 16), 9: (2, 2), 10: (8, 8),
         12: (4, 4), 13: (4, 4), 14: (0, 0), 15: (0, 32), 16: (0, 64), 17: (0, 0), 18: (16, 16), 19: (0, 200), 20: (4, 4),
         21: (1, 1), 22: (0, 0), 24: (0, 0), 25: (2, 2), 26: (0, 0), 27: (0, 36), 28: (0, 0)}

def parse_tlvs(b):
    """-> list of (type, value) or None; the end marker must be the last byte"""
    out = []; i = 0
    while True:
        if i >= len(b): return None
        t = b[i]
        if t == 0:
            return out if i == len(b) - 1 else None
        if i + 1 >= len(b): return None
        n = b[i + 1]
        if i + 2 + n > len(b): return None
        out.append((t, bytes(b[i + 2:i + 2 + n]))); i += 2 + n

def wf_tx(own, mtu, fr):
    """None if the frame is a well-formed responder transmission, else the reason"""
    if len(fr) > mtu: return 'longer than the MTU (%d > %d)' % (len(fr), mtu)
    d = dec(fr)
    if d is None: return 'shorter than a base header'
    if d['etype'] != 0x88D9: return 'EtherType %04x' % d['etype']
    if d['ver'] != 1: return 'version %d' % d['ver']
    if d['res'] != 0: return 'reserved byte %d' % d['res']
    if d['rsrc'] != own: return 'real source %s is not the own address' % d['rsrc'].hex()
    o = d['opc']
    if o in (3, 4, 5):
        if len(fr) != 32: return 'opcode %d frame of %d bytes' % (o, len(fr))
    elif o == 7:
        if len(fr) < 34: return 'QueryResp shorter than its header'
        w = (fr[32] << 8) | fr[33]
        if w & 0x4000: return 'QueryResp error bit set'
        if len(fr) != 34 + 20 * (w & 0x3FFF): return 'QueryResp of %d bytes declares %d descriptors' % (len(fr), w & 0x3FFF)
    elif o == 12:
        if len(fr) < 34: return 'QueryLargeTlvResp shorter than its header'
        w = (fr[32] << 8) | fr[33]
        if w & 0x4000: return 'QueryLargeTlvResp reserved bit set'
        if len(fr) != 34 + (w & 0x3FFF): return 'QueryLargeTlvResp of %d bytes declares %d payload bytes' % (len(fr), w & 0x3FFF)
    elif o == 1:
        if d['tos'] not in (0, 1): return 'Hello with type of service %d' % d['tos']
        if len(fr) < 46: return 'Hello shorter than its header'
        ps = parse_tlvs(fr[46:])
        if ps is None: return 'Hello property list does not parse to its end marker'
        if not ps or ps[0][0] != 1: return 'Hello property list does not start with the host identifier'
        seen = set()
        for t, v in ps:
            if t not in LEGAL: return 'Hello property of unknown type %d' % t
            lo, hi = LEGAL[t]
            if not (lo <= len(v) <= hi): return 'Hello property %d of illegal length %d' % (t, len(v))
            if t in seen: return 'Hello property %d twice' % t
            seen.add(t)
    else:
        return 'opcode %d is not one a responder sends' % o
    return None

def hello_fields(fr):
    d = dec(fr)
    if d is None or d['opc'] != 1 or len(fr) < 46: return None
    d['gen'] = (fr[32] << 8) | fr[33]; d['cur'] = fr[34:40]; d['app'] = fr[40:46]; d['props'] = parse_tlvs(fr[46:])
    return d

def qresp_fields(fr):
    d = dec(fr)
    if d is None or d['opc'] != 7 or len(fr) < 34: return None
    w = (fr[32] << 8) | fr[33]
    d['more'] = bool(w & 0x8000); d['n'] = w & 0x3FFF; d['descs'] = []
    for i in range(d['n']):
        c = fr[34 + 20 * i: 54 + 20 * i]
        if len(c) < 20: return None
        d['descs'].append(((c[0] << 8) | c[1], bytes(c[2:8]), bytes(c[8:14]), bytes(c[14:20])))   # type, real src, eth src, eth dst
    return d

def qlt_fields(fr):
    d = dec(fr)
    if d is None or d['opc'] != 12 or len(fr) < 34: return None
    w = (fr[32] << 8) | fr[33]
    d['more'] = bool(w & 0x8000); d['len'] = w & 0x3FFF; d['payload'] = bytes(fr[34:])
    return d

# ------------------------------------------------------------------ block helpers
def rxview(blk, fr):
    """the first bytes of the receive buffer as the responder finds them: the frame, then (for a frame shorter than a
    header and its first fields) what the buffer held before - the fill byte of the operation"""
    t = blk.op.split()
    try: fill = int(t[2], 16) & 255
    except (ValueError, IndexError): fill = 0
    return fr + bytes([fill]) * max(0, 64 - len(fr)) if len(fr) < 64 else fr
def frame_of(blk):
    """received frame bytes of a 'frame <ctx> <fill> <hex>' block"""
    t = blk.op.split()
    return (int(t[1]), V.unhex(t[3]))
def sends_of(blk):
    """[(ctx, ok, bytes)] in order"""
    return blk.sends()
def acts_of(blk):
    r = []
    for a in blk.acts:
        t = a.split()
        if t[0] == 'sleep': r.append(('sleep', int(t[1])))
        elif t[0] == 'send' and len(t) >= 3: r.append(('send', int(t[1]) if t[1].lstrip('-').isdigit() else -1, V.unhex(t[-1])))
    return r

# ------------------------------------------------------------------ configuration
class Cfg:
    """interface configuration as written on a cfg line; mirrors the defaults of the harness"""
    def __init__(self, ctx=0, **kw):
        self.ctx = ctx
        self.d = dict(mtu=1500, mac=own_of(ctx), flags=0, iftype=6, ipv4=0, ipv6=bytes(16), speed=1000000, wifi=None, bssid=bytes(6),
                      ssid=b'', rate=0, rssi=0, mtufail=0, macfail=0, iftypefail=0, ipv4fail=0, ipv6fail=0, speedfail=0, bssidfail=0, ratefail=0, rssifail=0)
        self.d.update(kw)
    def line(self):
        p = []
        for k, v in self.d.items():
            if k == 'wifi': p.append('wifi=%s' % ('none' if v is None else v))
            elif k == 'phy': p.append('phy=%s' % ('none' if v is None else v))
            elif isinstance(v, (bytes, bytearray)): p.append('%s=%s' % (k, v.hex() if v else '-'))
            else: p.append('%s=%d' % (k, v))
        return 'cfg %d %s' % (self.ctx, ' '.join(p))
    def own(self): return bytes(6) if self.d['macfail'] else self.d['mac']
    def mtu_eff(self): return 1500 if (self.d['mtufail'] or self.d['mtu'] == 0) else self.d['mtu']

def gline(host=b'', icon=None, fname=None, hwid=b'', retfull=0):
    return 'cfg g host=%s icon=%s fname=%s hwid=%s retfull=%d' % (host.hex() or '-', 'none' if icon is None else (icon.hex() or '-'),
                                                                  'none' if fname is None else (fname.hex() or '-'), hwid.hex() or '-', retfull)

MTUS = [576, 577, 1500, 1500, 1500, 9216, 1492, 2000, 592, 593, 1493, 590, 591, 65535, 65536, 65600, 70000]   # incl. every boundary residue of (MTU-34) mod 20 and mod 14
def rand_cfg(rng, ctx=0, mtu=None, wifi=None):
    m = mtu if mtu is not None else rng.choice(MTUS + [rng.randrange(576, 9217)])
    kw = dict(mtu=m, flags=rng.choice([0, 0x2000, 0x800, 0x2800, 0xFFFF, 1, rng.randrange(65536)]),
              iftype=rng.choice([6, 71, 0, 0xFFFFFFFF, 0x01020304, rng.randrange(2 ** 32)]),
              ipv4=rng.choice([0, 0xC0A80001, 0xFFFFFFFF, 0x01020304, 0x80000000, rng.randrange(2 ** 32)]),
              ipv6=bytes(rng.randrange(256) for _ in range(16)) if rng.random() < 0.7 else bytes(16),
              speed=rng.choice([0, 1, 100, 1000000, 0xFFFFFFFF, 0x00FF00FF, rng.randrange(2 ** 32)]))
    w = wifi if wifi is not None else (rng.random() < 0.4)
    if w:
        kw.update(wifi=rng.choice([0, 1, 2, 255]), bssid=bytes(rng.randrange(256) for _ in range(6)),
                  ssid=bytes(rng.choice([0, rng.randrange(256), rng.randrange(1, 256), rng.randrange(1, 256)]) for _ in range(rng.choice([0, 1, 5, 31, 32, 33, 40]))),
                  rate=rng.choice([0, 1, 108, 0xFFFF, 0x0100, rng.randrange(65536)]), rssi=rng.choice([-128, -127, -70, -1, 0, 1, 127]))
        if rng.random() < 0.5: kw['phy'] = rng.choice([1, 2, 7, 0xFFFFFFFF])
    for f in ('iftypefail', 'ipv4fail', 'ipv6fail', 'speedfail', 'bssidfail', 'ratefail', 'rssifail'):
        if rng.random() < 0.06: kw[f] = 1
    return Cfg(ctx, **kw)

# ------------------------------------------------------------------ specification trackers
class MapperTracker:
    """C05: who is the active mapper, from the frames alone.  None = none, bytes = that station,
    '?' = left open by the property (a command arrived from a station that is not the active mapper)."""
    def __init__(self): self.active = None
    def expect_reply(self, d):
        """for a Discover of a discovery service: True / False / None (unconstrained)"""
        if self.active == '?': return None
        return self.active is None or self.active == d['rsrc']
    def feed(self, d, replied=None):
        if d is None or d['tos'] not in (0, 1): return
        o = d['opc']
        if o == 8: self.active = None
        elif o == 0:
            if self.active is None: self.active = d['rsrc']
            elif self.active == '?' and replied is not None:
                # resolve the open case by what the responder did: a reply means the sender is (now) the mapper
                pass
        elif o in (2, 6, 0x0B):
            if self.active is None or (self.active != '?' and self.active != d['rsrc']):
                self.active = '?'

class SeeTracker:
    """C07: observations recorded since the last Query / topology Reset (keys = Ethernet source x real source)."""
    def __init__(self, own): self.own = own; self.pending = {}; self.open = False   # key -> (type, rsrc, esrc, edst)
    def feed_probe(self, d):
        if d['rdst'] != self.own: return
        k = (d['esrc'], d['rsrc'])
        # C07 speaks of up to 300 observations between two Queries; near the responder's fixed bound (C19) it may refuse
        # further ones, so from there on (until a Reset) the dictionary no longer says what must be reported
        if len(self.pending) >= 1000: self.open = True; return
        if k not in self.pending: self.pending[k] = (1 if d['opc'] == 4 else 0, d['rsrc'], d['esrc'], d['edst'])

# ------------------------------------------------------------------ session generator
def rand_mac(rng, pool):
    return rng.choice(pool)

def session(rng, s, ctx, cfg, stations, n_ops=30, tos_mix=(0, 0, 0, 1), noise=0.1, fill=None, icon_len=0):
    """appends a mostly-valid session on interface ctx to scenario s; returns nothing"""
    own = cfg.own(); mtu = cfg.d['mtu']
    M = rng.choice(stations)
    fillb = fill if fill is not None else rng.choice(['00', 'ff', 'a5'])
    gen = rng.choice([0, 1, 0x00FF, 0xFF00, 0xFFFF, rng.randrange(65536)])
    seq = rng.randrange(1, 65536)
    s.frame(ctx, discover(M, tos=rng.choice(tos_mix), gen=gen, seq=seq, stations=[own] if rng.random() < 0.5 else [], esrc=M if rng.random() < 0.8 else rng.choice(stations)), fillb)
    for i in range(n_ops):
        r = rng.random(); seq = (seq + 1) % 65536 or 1
        if r < noise:
            s.frame(ctx, generic(rng.randrange(256), rng.choice([0, 1, 2, 3, 255]), rng.choice(stations), rng.choice(stations), rng.choice([own, BCAST]), rng.choice([own, BCAST]),
                                 seq=rng.randrange(65536), body=bytes(rng.randrange(256) for _ in range(rng.choice([0, 2, 4, 20])))), fillb)
        elif r < noise + 0.15:
            X = rng.choice(stations)
            s.frame(ctx, discover(X, tos=rng.choice(tos_mix), gen=rng.choice([gen, 0, rng.randrange(65536)]), seq=seq, stations=[own] if rng.random() < 0.5 else [mac(77)]), fillb)
        elif r < noise + 0.30:
            nd = rng.choice([1, 1, 2, 3, 5])
            descs = [(rng.choice([0, 1, 1, 0, 2]) if rng.random() < 0.1 else rng.choice([0, 1]), rng.choice([0, 1, 5, 255]), rng.choice(stations + [own]), rng.choice(stations)) for _ in range(nd)]
            s.frame(ctx, emit(M, own, descs, seq=seq), fillb)
        elif r < noise + 0.55:
            A = rng.choice(stations); B = rng.choice(stations)
            s.frame(ctx, probe(A, rng.choice([own, BCAST, B]), B, own if rng.random() < 0.85 else rng.choice(stations), train=rng.random() < 0.4), fillb)
        elif r < noise + 0.68:
            s.frame(ctx, query(M, own, seq=seq, esrc=M if rng.random() < 0.8 else rng.choice(stations)), fillb)
        elif r < noise + 0.80:
            typ = rng.choice([14, 14, 17, 19, 15, 0, 255])
            s.frame(ctx, qlt(M, own, typ, rng.choice([0, 0, 1, mtu - 34, mtu - 35, 2 * (mtu - 34), icon_len, max(icon_len - 1, 0), 0x7FFF, 0x8000, 0xFFFF]), seq=seq if rng.random() < 0.9 else 0,
                             tos=rng.choice([0, 0, 1])), fillb)
        elif r < noise + 0.86:
            s.frame(ctx, hello(rng.choice(stations), gen=rng.choice([gen, ((gen & 255) << 8) | (gen >> 8)])), fillb)
        elif r < noise + 0.92:
            s.frame(ctx, reset(M, tos=rng.choice([0, 0, 1])), fillb)
            M = rng.choice(stations)
            s.frame(ctx, discover(M, tos=rng.choice(tos_mix), gen=gen, seq=seq, stations=[]), fillb)
        else:
            s.frame(ctx, generic(9, 0, M, M, own, own, seq=seq), fillb)   # Charge

# ------------------------------------------------------------------ projections: what a property observes, no more
def send_opcodes(blk):
    """opcodes of the frames handed to the port during an operation, in order"""
    return tuple((o[17] if len(o) >= 18 else -1) for _, _, o in blk.sends())
def frame_hdr(blk):
    t = blk.op.split()
    if len(t) < 4: return None
    fr = V.unhex(t[3])
    return dec(rxview(blk, fr))

# ------------------------------------------------------------------ scenario families aimed at narrow triggers
RESIDUE_MTUS = list(range(576, 596)) + [1492, 1493, 1494, 1514]     # every residue of (MTU-34) mod 20 (and most mod 14), PPPoE, jumbo-ish
def fam_full_lists(s, tag, mtus, extra=(0, 1, 2), twin=False):
    """a full observation list (capacity, +1, +2) answered by Queries at MTUs of every residue class"""
    for mtu in mtus:
        cap = (mtu - 34) // 20
        for e in extra:
            s.start('%s_%d_%d%s' % (tag, mtu, e, '~0' if twin else '')); s.lines.append('cfg 0 mtu=%d' % mtu); s.lines.append(gline(icon=bytes(range(251)) * 9))
            M = mac(1); s.frame(0, discover(M, gen=1))
            for i in range(cap + e): s.frame(0, probe(mac(100 + i), OWN0, mac(100 + i), OWN0, train=i % 3 == 0))
            s.frame(0, query(M, OWN0, seq=7)); s.frame(0, query(M, OWN0, seq=8)); s.frame(0, query(M, OWN0, seq=9))
            s.frame(0, qlt(M, OWN0, 14, 0, seq=10)); s.frame(0, qlt(M, OWN0, 14, mtu - 34, seq=11))
def fam_mtu_change(s, tag, rng, n):
    """the MTU shrinks (or the getter starts failing / recovers) in the middle of a session"""
    for k in range(n):
        m0, m1 = rng.choice([(1500, 576), (9216, 576), (1500, 590), (2000, 1492), (576, 1500), (1500, 1500)])
        s.start('%s_%d' % (tag, k)); s.lines.append('cfg 0 mtu=%d' % m0); s.lines.append(gline(icon=bytes(range(256)) * 12, fname=bytes(range(200))))
        M = mac(1); s.frame(0, discover(M, gen=1))
        if rng.random() < 0.5: s.frame(0, qlt(M, OWN0, 14, 0, seq=2))
        for i in range((m1 - 34) // 20 + rng.choice([0, 3, 12])): s.frame(0, probe(mac(100 + i), OWN0, mac(100 + i), OWN0))
        r = rng.random()
        s.lines.append('cfg 0 mtu=%d' % m1 + (' mtufail=1' if r < 0.15 else ''))
        s.frame(0, query(M, OWN0, seq=3)); s.frame(0, qlt(M, OWN0, 14, m0 - 34, seq=4)); s.frame(0, qlt(M, OWN0, 17, 0, seq=5)); s.frame(0, query(M, OWN0, seq=6))
        s.frame(0, discover(M, gen=1)); s.frame(0, query(M, OWN0, seq=7)); s.frame(0, qlt(M, OWN0, 14, 0, seq=8))

# ------------------------------------------------------------------ the same history while ANOTHER interface is busy
def other_iface_variants(text, rng, n, stride=None):
    """-> scenario text: n of the scenarios of `text` (all judged on interface 0) repeated with a second interface that
    has other attributes (address, MTU, wireless) and lives through a full session of its own - Discover from another
    mapper, Emit, observations, Query, large-property requests - before, and again in the middle of, interface 0's
    history.  Whatever interface 0 does must not depend on it (per-interface state kept in a place shared by all:
    function-local statics, caches keyed by nothing).  The oracles of the single-interface properties only judge
    `frame 0 ...` operations; the model comparison covers both interfaces."""
    scns = []
    cur = None
    for l in text.split('\n'):
        if l.startswith('scenario'): cur = [l.split()[1]]; scns.append(cur)
        elif cur is not None and l.strip(): cur.append(l)
    if not scns: return ''
    stride = stride or max(1, len(scns) // max(1, n))
    out = []
    M2 = mac(61); E2 = mac(62)
    for sc in scns[::stride][:n]:
        name, lines = sc[0], sc[1:]
        if any(l.startswith(('cfg 1', 'frame 1')) for l in lines): continue
        c1 = rand_cfg(rng, 1, mtu=rng.choice([576, 1500, 1492, 9216]), wifi=rng.random() < 0.6)
        c1.d['mac'] = bytes([2, 0xEE, 0, 0, rng.randrange(256), rng.randrange(1, 255)])
        if len(out) % 3 == 1:
            # both interfaces carry the SAME address (a VLAN sub-interface, a bond, a bridge port): still two interfaces
            m0 = [re.search(r'\bmac=([0-9a-f]{12})', l) for l in lines if l.startswith('cfg 0 ')]
            c1.d['mac'] = bytes.fromhex(m0[-1].group(1)) if m0 and m0[-1] else OWN0
        own1 = c1.own()
        def burst(seq0):
            b = Scn()
            b.frame(1, discover(M2, gen=rng.choice([7, 0x1234]), seq=seq0, esrc=E2))
            for i in range(3): b.frame(1, probe(mac(3000 + i), own1, mac(3000 + i), own1, train=i == 1))
            b.frame(1, emit(M2, own1, [(0, 1, mac(3100), mac(3101)), (1, 0, own1, mac(3102))], seq=seq0 + 1, esrc=E2))
            b.frame(1, qlt(M2, own1, 14, 0, seq=seq0 + 2, esrc=E2)); b.frame(1, qlt(M2, own1, 17, 0, seq=seq0 + 3, esrc=E2)); b.frame(1, qlt(M2, own1, 19, 0, seq=seq0 + 4, esrc=E2))
            b.frame(1, query(M2, own1, seq=seq0 + 5, esrc=E2))
            return b.lines
        k = 0
        while k < len(lines) and lines[k].startswith(('cfg', 'junk')): k += 1
        rest = lines[k:]
        mid = rng.randrange(len(rest) + 1) if rest else 0
        out.append('scenario %s_oth' % name)
        out += lines[:k] + [c1.line()] + burst(100) + rest[:mid] + burst(200) + rest[mid:]
    return '\n'.join(out) + '\n'


# ------------------------------------------------------------------ what the frame-level properties quantify over
def in_domain(ops):
    """True if a history (operation lines) stays inside the domain the frame-level oracles are written for: LLTD frames
    (EtherType 0x88D9, version 1) at least a base header long, Discovers long enough to carry their generation, commands
    (Emit, Query, QueryLargeTlv) addressed to this station and sent by the station that opened the session (any station
    while none is open), address getters working.  Outside it - e.g. a request for another station, a foreign protocol
    version - the properties leave the reaction open (answering and dropping are both fine), so only the comparison
    with the proved model and the crash / well-formedness judgements apply to such a history."""
    own = {}; mapper = {}
    for l in ops:
        t = l.split()
        if not t: continue
        if t[0] == 'cfg' and len(t) > 1 and t[1] != 'g':
            kv = dict(x.split('=', 1) for x in t[2:] if '=' in x)
            if kv.get('macfail', '0') != '0' or 'macfailat' in kv: return False
            if 'mac' in kv: own[t[1]] = bytes.fromhex(kv['mac'])
        if t[0] in ('failalloc', 'failsend') : return False
        if t[0] != 'frame' or len(t) < 4: continue
        b = V.unhex(t[3]); c = t[1]
        if len(b) < 32 or b[12:14] != b'\x88\xd9' or b[14] != 1: return False
        tos, opc, rdst, rsrc = b[15], b[17], b[18:24], b[24:30]
        if tos not in (0, 1): continue
        if opc == 0 and len(b) < 36: return False
        if opc == 8: mapper[c] = None
        elif opc == 0:
            if mapper.get(c) is None: mapper[c] = rsrc
        elif opc in (2, 6, 0x0B):
            me = own.get(c, bytes([2, 0, 0, 0, 0, 0x10 + int(c)]) if c.isdigit() else OWN0)
            if rdst != me: return False
            if mapper.get(c) is not None and rsrc != mapper[c]: return False
            if mapper.get(c) is None: mapper[c] = rsrc
            if opc == 2 and len(b) < 34: return False
            if opc == 0x0B and len(b) < 36: return False
    return True
