"""C08 - large properties are retrievable byte-exactly by offset."""
from props.base import *
from props.blk import *
COQ_TARGETS = ['props/Properties_C08.vo']
RULE = ('QueryLargeTlv requests for icon (14), friendly name (17), hardware id (19) and other types 0..255 against platform data of sizes within +-2 of k*payload (payload = MTU-34, k = 0..6, MTU '
        '576/577/1500/9216/random) and 32768, offsets within +-2 of multiples of the payload and 0, 0x7FFF, 0x8000, 0xFFFF, sequence numbers incl. 0, bridged / direct, both services; '
        'the mapper loop (offset 0, advance by the returned length while more is set) is replayed and the reassembled bytes compared with the platform\'s; hardware ids with an aligned 16-bit '
        'zero at every position. Oracle computed from request + platform data alone. distinct = distinct (type, size class, offset class, more, length class) tuples')
def near(rng, P, kmax=6):
    k = rng.randrange(0, kmax + 1); return max(0, k * P + rng.choice([-2, -1, 0, 1, 2]))
def scenarios(rng, tier):
    s = Scn(); n = 60 if tier == 'quick' else 1200
    for k in range(n):
        mtu = rng.choice([576, 577, 1500, 9216, rng.randrange(576, 9217)]) if k % 5 else 576
        cfg = Cfg(0, mtu=mtu); own = cfg.own(); P = mtu - 34
        isz = rng.choice([near(rng, P, 4 if mtu > 3000 else 6), 0, 1, 32768 if rng.random() < 0.2 else P])
        if mtu >= 9000: isz = min(isz, 40000)
        icon = bytes((7 * j + k) & 255 for j in range(isz)) if rng.random() < 0.85 else None
        fname = bytes((3 * j + 1) & 255 for j in range(rng.choice([0, 1, 30, near(rng, P, 2)]))) if rng.random() < 0.8 else None
        hl = rng.choice([0, 1, 2, 3, 10, 31, 62, 63, 64, 70])
        hwid = bytearray(rng.randrange(1, 256) for _ in range(hl))
        if hl >= 4 and rng.random() < 0.6:
            z = rng.randrange(0, hl - 1); hwid[z] = 0; hwid[z + 1] = 0
        s.start('qlt_%d' % k); s.lines.append(cfg.line()); s.lines.append(gline(icon=icon, fname=fname, hwid=bytes(hwid)))
        M = mac(1); ME = M if rng.random() < 0.7 else mac(40)
        s.frame(0, discover(M, gen=1, esrc=ME))
        # the mapper's reassembly loop for each property
        for typ, data in ((14, icon), (17, fname), (19, None)):
            size = len(data) if data is not None else (64 if typ == 19 else 0)
            off = 0
            for step in range(size // P + 2):
                s.frame(0, qlt(M, own, typ, off, seq=rng.randrange(1, 65536), tos=rng.choice([0, 0, 1]), esrc=ME))
                off += P
                if off > 0xFFFF: break
        for i in range(12):
            typ = rng.choice([14, 14, 17, 19, rng.randrange(256)])
            off = rng.choice([near(rng, P), 0, 0x7FFF, 0x8000, 0xFFFF, isz, max(isz - 1, 0), isz + 1]) & 0xFFFF
            s.frame(0, qlt(M, own, typ, off, seq=rng.choice([0, 1, 0xFFFF, rng.randrange(65536)]), tos=rng.choice([0, 1]), esrc=ME))
            if rng.random() < 0.1: s.frame(0, reset(M)); s.frame(0, discover(M, gen=1, esrc=ME))
    for k in range(16 if tier == 'quick' else 300):
        mtu = rng.choice([576, 1500]); cfg = Cfg(0, mtu=mtu); own = cfg.own(); P = mtu - 34
        i1 = bytes((5 * j + k) & 255 for j in range(rng.choice([700, 3100, 4321]))); i2 = bytes((11 * j + 3) & 255 for j in range(rng.choice([500, 3100, 4321])))
        if k % 4 == 1: i1 = None          # the platform has no icon (its getter fails) in the first session and one in the next
        if k % 4 == 3: i1 = b''           # ... or an empty one
        s.start('resets_%d' % k); s.lines.append(cfg.line()); s.lines.append(gline(icon=i1, fname=b'name one', hwid=b'hw'))
        M = mac(1); s.frame(0, discover(M, gen=1))
        for off in range(0, len(i1 or b'') + 1, P): s.frame(0, qlt(M, own, 14, off, seq=2))
        for step in rng.choice([('q', 't'), ('t',), ('q', 't', 'q'), ('t', 'q'), ('q', 'q', 't')]):
            s.frame(0, reset(rng.choice([M, mac(2)]), tos=1 if step == 'q' else 0))
        s.lines.append(gline(icon=i2, fname=b'name two is longer', hwid=b'hw'))
        if rng.random() < 0.7: s.frame(0, discover(M, gen=2))
        for off in range(0, len(i2) + 1, P): s.frame(0, qlt(M, own, 14, off, seq=3))
        s.frame(0, qlt(M, own, 17, 0, seq=4))
    for k in range(10 if tier == 'quick' else 200):
        m0, m1 = [(1500, 576), (9216, 1500), (1500, 590), (576, 1500)][(k // 2) % 4] if k < 8 else rng.choice([(1500, 576), (9216, 1500), (1500, 590), (576, 1500)])
        icon = bytes((3 * j) & 255 for j in range(5000))
        s.start('mtuwalk_%d' % k); s.lines.append(Cfg(0, mtu=m0).line()); s.lines.append(gline(icon=icon, fname=bytes(range(250)) * 3))
        pure = k % 2 == 1          # one transfer only, nothing else asked in between (the MTU changes in the middle of it)
        M = mac(1); s.frame(0, discover(M, gen=1)); s.frame(0, qlt(M, OWN0, 14, 0, seq=2))
        if not pure: s.frame(0, qlt(M, OWN0, 17, 0, seq=2))
        s.lines.append(Cfg(0, mtu=m1).line())
        for off in (m0 - 34, m0 - 34 + m1 - 34, 0, m1 - 34):
            s.frame(0, qlt(M, OWN0, 14, off, seq=3))
            if not pure: s.frame(0, qlt(M, OWN0, 17, off % 700, seq=3))
    oth = other_iface_variants(s.text(), rng, 10 if tier == 'quick' else 150)
    return [(s.text(), {}), (oth, {'family': 'other-interface'})]
def project(blk, name, meta):
    if blk.fault: return ('fault',)
    if blk.op.startswith('frame'):
        d = frame_hdr(blk)
        if d and d['tos'] in (0, 1) and d['opc'] == 0x0B:
            r = []
            for _, _, o in blk.sends():
                q = qlt_fields(o)
                r.append((q['seq'], q['edst'], q['len'], q['more'], q['payload']) if q else o)
            return tuple(r)
        return send_opcodes(blk)
    return ()
def hwid_value(hwid):
    sc = (bytes(hwid)[:64] + bytes(64))[:64]
    for i in range(0, 63, 2):
        if sc[i] == 0 and sc[i + 1] == 0: return sc[:i]
    return sc
def gcfg_of(line):
    kv = dict(t.split('=', 1) for t in line.split()[2:])
    f = lambda v: None if v == 'none' else (b'' if v == '-' else bytes.fromhex(v))
    return dict(icon=f(kv['icon']), fname=f(kv['fname']), hwid=f(kv['hwid']) or b'')
def oracle(name, ib, mb, meta):
    fails = []; mtu = 1500; own = OWN0; g = dict(icon=None, fname=None, hwid=b''); acc = {}; icon_asked = icon_open = False
    for i, b in enumerate(ib):
        if b.op.startswith('cfg 0'):
            kv = dict(t.split('=', 1) for t in b.op.split()[2:]); mtu = int(kv.get('mtu', mtu)); own = bytes.fromhex(kv.get('mac', own.hex()))
            if kv.get('mtufail') == '1' or mtu == 0: mtu = 1500 if 'c08' != 'c06' else -1   # getter fails: the responder assumes 1500 (an Emit is dropped)
        elif b.op.startswith('cfg g'):
            g2 = gcfg_of(b.op)
            # the platform's icon replaced in mid-session, after it was asked for: whether the responder serves the bytes it
            # fetched first or the new ones is not prescribed (it caches them until the next topology Reset)
            if icon_asked and g2['icon'] != g['icon']: icon_open = True
            if g2 != g: acc.clear()            # the platform's data changed: a transfer that straddles the change reassembles nothing meaningful
            g = g2
        if not b.op.startswith('frame 0 ') or b.fault: continue
        ctx, fr = frame_of(b); d = dec(rxview(b, fr))
        if d['tos'] == 0 and d['opc'] == 8: icon_asked = icon_open = False; acc.clear()      # a mapper starts its transfers anew after a Reset
        if d['tos'] not in (0, 1) or d['opc'] != 0x0B: continue
        sn = sends_of(b)
        if d['seq'] == 0:
            if sn: fails.append((i, 'QueryLargeTlv with sequence number 0 was answered'))
            continue
        typ = d['body'][0]; off = (d['body'][2] << 8) | d['body'][3]
        if typ == 14:
            icon_asked = True
            if icon_open: continue
        data = {14: g['icon'] or b'', 17: g['fname'] or b'', 19: hwid_value(g['hwid'])}.get(typ, b'')
        P = mtu - 34
        q = qlt_fields(sn[0][2]) if len(sn) == 1 else None
        if q is None:
            fails.append((i, 'QueryLargeTlv (type %d, offset %d) answered by %d frame(s)' % (typ, off, len(sn)))); continue
        # at most what fits in the MTU, the bytes at the requested offset, more iff bytes remain beyond the returned ones;
        # a response to an offset inside the data must carry at least one byte (or the mapper never finishes)
        got_n = len(q['payload'])
        want = data[off:off + min(got_n, P)] if (got_n or off >= len(data)) else data[off:off + P]
        more = len(data) > off + len(want)
        dst = d['rsrc'] if d['rsrc'] == d['esrc'] else BCAST
        if q['seq'] != d['seq']: fails.append((i, 'response bears sequence number %d, request had %d' % (q['seq'], d['seq'])))
        if q['edst'] != dst: fails.append((i, 'response addressed to %s, must go to %s' % (q['edst'].hex(), dst.hex())))
        if len(sn[0][2]) > mtu: fails.append((i, 'response of %d bytes exceeds the MTU %d' % (len(sn[0][2]), mtu)))
        if q['payload'] != want or q['len'] != len(want):
            fails.append((i, 'type %d size %d offset %d: payload of %d bytes (declared %d) differs from the platform bytes at that offset (%d bytes expected)' % (typ, len(data), off, len(q['payload']), q['len'], len(want))))
        if q['more'] != more: fails.append((i, 'type %d size %d offset %d: more flag %d, must be %d' % (typ, len(data), off, q['more'], more)))
        # reassembly as the mapper does it
        a = acc.setdefault(typ, [0, b'', True])
        if off == 0: a[0], a[1], a[2] = 0, b'', True
        if a[2] and off == a[0]:
            a[1] += q['payload']; a[0] += q['len']
            if not q['more']:
                a[2] = False
                if a[1] != data: fails.append((i, 'type %d: reassembled %d bytes differ from the platform\'s %d bytes' % (typ, len(a[1]), len(data))))
    return fails
def count(name, lines, ib, stats, meta):
    mtu = 1500
    for b in ib:
        if b.op.startswith('cfg 0'): mtu = int(dict(t.split('=', 1) for t in b.op.split()[2:])['mtu'])
        if not b.op.startswith('frame 0 '): continue
        ctx, fr = frame_of(b); d = dec(rxview(b, fr))
        if d['opc'] != 0x0B: continue
        stats['evaluations'] += 1
        sn = sends_of(b); q = qlt_fields(sn[0][2]) if sn else None
        P = mtu - 34; off = (d['body'][2] << 8) | d['body'][3]
        oc = ('k%d%+d' % ((off + 2) // P, off - ((off + 2) // P) * P)) if abs(off - ((off + 2) // P) * P) <= 2 else 'o'
        stats['distinct'].add((d['body'][0] if d['body'][0] in (14, 17, 19) else 'x', oc, q['more'] if q else None, (q['len'] == P, q['len'] == 0) if q else None, mtu if mtu in (576, 1500, 9216) else 'r'))
        if len(stats['samples']) < 4 and q and q['more']: stats['samples'].append({'type': d['body'][0], 'offset': off, 'mtu': mtu, 'len': q['len'], 'more': q['more']})
EXPLORE = dict(domain='frames', ops=('frame',), mtu=True)
