"""C20 - the protocol core reaches the outside world only through the port API."""
from props.base import *
import os, re
COQ_TARGETS = ['props/Properties_C20.vo']
TRUSTED_BASE = COMMON_TB + ['translator bin/symfacts.py: gcc 12 / clang 14, GNU ld -r, nm; regex parser of lltdPort.h and of #include lines; the repository\'s scripts/lint_core_no_os_conditionals.sh']
RULE = ('complete enumeration: 4 core translation units x {gcc, clang} x {-O0, -O2, -Os} x {hosted, -ffreestanding} built from the working tree, relocatable link, nm -u; every undefined symbol '
        'must be a function declared in lltdPort.h, one of memcpy/memset/memmove/memcmp, or listed compiler runtime; every <...> header included by a core file must be a freestanding one; '
        'the repository lint script must be clean. The kernel checks the enumeration over the regenerated facts; on failure the offending (configuration, symbol) is named. '
        'distinct = configurations x distinct undefined symbols')
NO_HARNESS = True     # decided on the symbol facts (bin/symfacts.py) and the theorems about them; no scenario is run
def scenarios(rng, tier): return []
def project(blk, name, meta): return ()
ALLOWED_EXTRA = {'memcpy', 'memset', 'memmove', 'memcmp', '_GLOBAL_OFFSET_TABLE_', '__stack_chk_fail', '__stack_chk_guard',
                 '__udivdi3', '__umoddi3', '__divdi3', '__moddi3', '__muldi3', '__ashldi3', '__lshrdi3', '__ashrdi3', '__udivmoddi4',
                 '__aeabi_uldivmod', '__aeabi_ldivmod', '__aeabi_lmul', '__aeabi_llsl', '__aeabi_llsr',
                 '__aeabi_memcpy', '__aeabi_memcpy4', '__aeabi_memcpy8', '__aeabi_memset', '__aeabi_memset4', '__aeabi_memset8',
                 '__aeabi_memclr', '__aeabi_memclr4', '__aeabi_memclr8', '__aeabi_memmove', '__aeabi_memmove4', '__aeabi_memmove8',
                 '__aeabi_uidiv', '__aeabi_uidivmod', '__aeabi_idiv', '__aeabi_idivmod', '__aeabi_lasr', '__aeabi_ulcmp', '__aeabi_lcmp', '__udivsi3', '__umodsi3', '__divsi3', '__modsi3', '__mulsi3', '__udivmodsi4', '__divmodsi4', '__divmoddi4', '__clzsi2', '__clzdi2', '__ctzsi2', '__ctzdi2', '__bswapsi2', '__bswapdi2', '__popcountsi2', '__popcountdi2', '__ucmpdi2', '__cmpdi2',
                 '_aulldiv', '_aullrem', '_alldiv', '_allrem', '_allmul', '_aullshr', '_allshl', '_allshr', '__chkstk', '_chkstk'}
FREESTANDING = {'stddef.h', 'stdint.h', 'stdbool.h', 'stdarg.h', 'limits.h', 'float.h', 'iso646.h', 'stdalign.h', 'stdnoreturn.h'}
def extra_checks(tier, seed):
    """search for the concrete offender in the regenerated facts (the theorem only says yes or no)"""
    txt = open(os.path.join(V.COQ, 'gen/Symbols.v')).read()
    lst = lambda s: re.findall(r'"([^"]*)"', s)
    api = set(lst(re.search(r'Definition port_api[^\[]*\[(.*?)\]\.', txt, re.S).group(1)))
    fails = []; n = 0; distinct = set()
    for m in re.finditer(r'\("([^"]+)", \[(.*?)\], \[(.*?)\]\)', txt):
        cfgname, und, wr = m.group(1), lst(m.group(2)), lst(m.group(3))
        for sym in und:
            n += 1; distinct.add(sym)
            if sym not in api and sym not in ALLOWED_EXTRA:
                fails.append('the core built with "%s" references %s, which is neither a function declared in lltdPort.h nor a memory primitive' % (cfgname, sym))
        for sym in wr:
            if sym != 'g_iface_states': fails.append('the core built with "%s" has the writable global %s besides the interface registry (shared mutable state, premise of C17)' % (cfgname, sym)); break
    xb = re.search(r'Definition extra_builds.*?:=(.*?)\]\.\n', txt, re.S)
    for m in re.finditer(r'\("([^"]+)", \[(.*?)\]\)', xb.group(1) if xb else ''):
        for sym in lst(m.group(2)):
            n += 1; distinct.add(sym)
            if sym not in api and sym not in ALLOWED_EXTRA:
                fails.append('the core built with "%s" references %s, which is neither a function declared in lltdPort.h nor a memory primitive nor compiler run-time support' % (m.group(1), sym))
    for m in re.finditer(r'\("([^"]+\.[ch])", \[(.*?)\]\)', txt):
        for h in lst(m.group(2)):
            if h not in FREESTANDING: fails.append('core file %s includes <%s>, which is not a freestanding header' % (m.group(1), h))
    lint = lst(re.search(r'Definition lint_hits[^\[]*\[(.*?)\]\.', txt, re.S).group(1))
    for l in lint: fails.append('repository lint rule (no OS macro / OS header in the core): ' + l)
    errs = lst(re.search(r'Definition build_errors[^\[]*\[(.*?)\]\.', txt, re.S).group(1))
    for l in errs: fails.append('core does not build on its own: ' + l)
    for a in api:
        if not a.startswith('lltd_port_'): fails.append('port API function %s is outside the lltd_port_ name space' % a)
    fails = list(dict.fromkeys(fails))[:8]
    return {'failures': fails, 'evaluations': n, 'distinct': len(distinct), 'exhaustive': True, 'configurations': len(re.findall(r'\("(?:gcc|clang) ', txt)),
            'samples': [{'port_api_functions': len(api), 'undefined_symbols_seen': sorted(distinct)[:6]}]}
