"""C01 - reception is memory-safe, free of undefined behaviour, crash-free."""
from props.base import *
from props.blk import *
CORR_IS_SPEC = True    # fault / no fault (C01) and the event value (C11) are exactly what the property states
COQ_TARGETS = ['props/Properties_C01.vo']
RULE = ('frame histories interleaved with ticks and clock advances on interfaces with MTU 576, 577, 1500, 9216 and random, wired / Wi-Fi, names 0..40 bytes: every '
        'opcode x ToS pair, wire counters (Emit descriptors, Discover stations) 0, 1, the largest that fits, one more, 0xFFFF, truncated and over-long frames, all four '
        'receive entry points (frame handler, classifier on the same frame, documented flow, length-checked embedded entry point with a buffer of exactly the told length); '
        'the C core runs under ASan+UBSan (-fno-sanitize-recover), a fault of either side ends the scenario and is compared. '
        'distinct = distinct (entry point, ToS, opcode, counter class, MTU class) tuples')
def cls(n, cap):
    return 0 if n == 0 else 1 if n == 1 else 'fit' if n == cap else 'fit+1' if n == cap + 1 else 'max' if n == 0xFFFF else 'lt' if n < cap else 'gt'
def scenarios(rng, tier):
    s = Scn(); n = 30 if tier == 'quick' else 1200
    own = OWN0; M = mac(1)
    for k in range(n):
        cfg = rand_cfg(rng, 0, mtu=rng.choice([576, 577, 1500, 9216, rng.randrange(576, 9217)]))
        mtu = cfg.d['mtu']
        s.start('safe_%d' % k); s.lines.append(cfg.line())
        s.lines.append(gline(host=bytes(rng.randrange(1, 256) for _ in range(rng.choice([0, 31, 32, 33, 40]))), icon=bytes(rng.randrange(256) for _ in range(rng.choice([0, 1, mtu - 34, mtu - 33, 4000]))),
                             fname=bytes(rng.randrange(256) for _ in range(rng.choice([0, 64, 2000]))), hwid=bytes(rng.randrange(256) for _ in range(rng.choice([0, 5, 64, 100]))), retfull=rng.randrange(2)))
        s.op('mk 0'); s.op('adv', rng.randrange(1, 5000))
        own = cfg.own()
        ecap = (mtu - 34) // 14; dcap = (mtu - 36) // 6
        for i in range(25):
            r = rng.random(); ep = rng.choice(['frame', 'frame', 'frame', 'classify', 'flow'])
            fill = rng.choice(['00', 'ff', '02', 'a5'])
            if r < 0.25:
                cnt = rng.choice([0, 1, ecap - 1, ecap, ecap + 1, 0xFFFF, 0x8000, rng.randrange(65536), (65536 * rng.randrange(1, 14) + 13) // 14 + rng.choice([0, 1, ecap // 2])])
                held = rng.choice([0, 1, min(cnt, ecap), min(cnt, 3)])
                descs = [(rng.choice([0, 1, 2]), rng.choice([0, 1]), mac(9), own) for _ in range(min(held, 12))]
                fr = emit(M, own, descs, seq=rng.randrange(65536), count=cnt, tos=rng.choice([0, 0, 1, 2]))
            elif r < 0.5:
                cnt = rng.choice([0, 1, dcap - 1, dcap, dcap + 1, 0xFFFF, 0x7FFF, rng.randrange(65536), (65536 * rng.randrange(1, 6) + 5) // 6 + rng.choice([0, 1, dcap // 2])])
                held = rng.choice([0, 1, 2, min(cnt, dcap)])
                fr = discover(M, tos=rng.choice([0, 1, 2]), gen=rng.randrange(65536), seq=rng.randrange(65536), stations=[rng.choice([own, mac(5)]) for _ in range(held)], count=cnt)
            elif r < 0.62:
                fr = qlt(M, own, rng.choice([14, 17, 19, 0, 255]), rng.choice([0, 1, mtu - 34, 0x7FFF, 0x8000, 0xFFFF]), seq=rng.choice([0, 1, 0xFFFF]), tos=rng.choice([0, 1]))
            elif r < 0.72:
                fr = query(M, own, seq=rng.randrange(65536))
            elif r < 0.82:
                fr = probe(mac(rng.randrange(1, 400)), own, mac(rng.randrange(1, 400)), own, train=rng.random() < 0.5)
            elif r < 0.86:
                fr = reset(M, tos=rng.choice([0, 1]))
            else:
                fr = generic(rng.randrange(256), rng.choice([0, 1, 2, 3, 255]), M, M, own, own, seq=rng.randrange(65536), body=bytes(rng.randrange(256) for _ in range(rng.choice([0, 1, 2, 3, 4, 30]))))
            cut = rng.random()
            if cut < 0.12: fr = fr[:rng.choice([0, 1, 13, 14, 17, 18, 31, 32, 33, 34, 35, 36])]
            elif cut < 0.18: fr = fr + bytes(rng.randrange(256) for _ in range(mtu))   # longer than the MTU: the daemon's recvfrom truncates
            if ep == 'frame': s.frame(0, fr, fill)
            elif ep == 'classify': s.classify(0, fr, fill)
            else: s.flow(0, fr, fill)
            if rng.random() < 0.25:
                ln = rng.choice([0, 1, 17, 18, 31, 32, 33, len(fr)])
                s.op('esp32 0', ln, hx(fr[:ln]) if ln else '-')
            if rng.random() < 0.2: s.op('tick 0')
            if rng.random() < 0.2: s.op('adv', rng.choice([0, 1, 999, 1000, 30000, 61000]))
    # narrow triggers: full observation lists at every MTU residue; a failing / once-failing MTU getter with a receive buffer
    # smaller than the 1500-byte fallback and counters that fit 1500 but not the buffer; two interfaces sharing platform data
    fam_full_lists(s, 'full', RESIDUE_MTUS[::2] if tier == 'quick' else RESIDUE_MTUS, extra=(1,))
    for k, (mtu, cnt) in enumerate([(576, 39), (576, 60), (576, 104), (800, 55), (800, 104), (1000, 70), (576, 105)]):
        for mode in ('mtufail=1', 'mtufailat=1', 'mtufailat=2'):
            s.start('mtufb_%d_%s' % (k, mode.replace('=', ''))); s.lines.append('cfg 0 mtu=%d' % mtu); s.frame(0, discover(M, gen=1))
            for i in range(30): s.frame(0, probe(mac(300 + i), OWN0, mac(300 + i), OWN0))
            s.lines.append('cfg 0 %s' % mode)
            s.frame(0, emit(M, OWN0, [(1, 0, mac(7), mac(8))] * 60, seq=3, count=cnt), 'ff')
            s.lines.append('cfg 0 %s' % mode); s.frame(0, query(M, OWN0, seq=4))
            s.lines.append('cfg 0 %s' % mode); s.frame(0, qlt(M, OWN0, 19, 0, seq=5)); s.frame(0, discover(M, gen=2))
            s.lines.append('cfg 0 mtufail=0')
            for f_ in (classify_frames if False else ()): pass
            s.classify(0, discover(M, gen=1, stations=[OWN0] * 3, count=(65536 * 2 + 5) // 6 + 1), 'ff')
    for k in range(6 if tier == 'quick' else 60):
        s.start('multi_%d' % k); s.lines.append(gline(icon=bytes(range(250)) * rng.choice([1, 4, 20]), fname=b'friendly', hwid=bytes(range(1, 65))))
        order = [rng.randrange(3) for _ in range(40)]
        for c in range(3): s.frame(c, discover(M, gen=1))
        for c in order:
            own_c = own_of(c); r = rng.random()
            if r < 0.3: s.frame(c, qlt(M, own_c, rng.choice([14, 14, 17, 19]), rng.choice([0, 0, 100]), seq=2))
            elif r < 0.5: s.frame(c, reset(M, tos=rng.choice([0, 0, 1])))
            elif r < 0.7: s.frame(c, probe(mac(40 + c), own_c, mac(40 + c), own_c))
            elif r < 0.85: s.frame(c, query(M, own_c, seq=3))
            else: s.frame(c, discover(M, gen=1, tos=rng.choice([0, 1])))
    # every wire counter at the values named in the statement, for the requests that carry an offset: large properties of
    # several sizes asked for at 0, 1, the largest value that fits 16 bits, and the values at which offset + payload wraps
    for mtu in ((576, 1500) if tier == 'quick' else (576, 590, 1500, 9216)):
        P = mtu - 34
        for size in (14, 3000, 70000):
            s.start('offs_%d_%d' % (mtu, size)); s.lines.append('cfg 0 mtu=%d' % mtu)
            s.lines.append(gline(icon=bytes(i & 255 for i in range(size)), fname=bytes(65 + i % 26 for i in range(min(size, 2000))), hwid=bytes(range(1, 65))))
            s.frame(0, discover(M, gen=1))
            for typ in (14, 17, 19):
                for off in (0, 1, size - 1, size, size + 1, 0x7FFF, 0x8000, 65535, 65536 - P - 1, 65536 - P, 65536 - P + 1, 65536 - P // 2, 65000):
                    if 0 <= off <= 65535: s.frame(0, qlt(M, OWN0, typ, off, seq=3))
    return [(s.text(), {})]
def project(blk, name, meta):
    return ('fault',) if blk.fault else ()
def count(name, lines, ib, stats, meta):
    for b in ib:
        t = b.op.split()
        if t[0] in ('frame', 'classify', 'flow') and len(t) >= 4:
            stats['evaluations'] += 1
            fr = bytes.fromhex(t[3]) if t[3] != '-' else b''
            d = dec(fr + bytes(36))
            w = (d['body'][0] << 8) | d['body'][1]; w2 = (d['body'][2] << 8) | d['body'][3]
            stats['distinct'].add((t[0], d['tos'] if d['tos'] < 3 else 'x', d['opc'] if d['opc'] < 13 else 'x', cls(w, 104) if d['opc'] == 2 else cls(w2, 244) if d['opc'] == 0 else '', min(len(fr), 40)))
        elif t[0] == 'esp32':
            stats['evaluations'] += 1; stats['distinct'].add(('esp32', min(int(t[2]), 40)))
    if len(stats['samples']) < 3: stats['samples'].append({'scenario': name, 'ops': [l[:90] for l in lines[:6]], 'impl_fault': any(b.fault for b in ib)})
def extra_checks(tier, seed):
    """premise of the property: the daemons hand over an MTU-sized buffer filled by recvfrom(..., MTU) - re-extracted from the sources"""
    import re, os
    fails = []; found = []
    for f in ('os/linux/daemon/linux-main.c', 'os/linux/daemon/linux-embedded-main.c'):
        p = os.path.join(V.REPO, f)
        try: txt = open(p, errors='replace').read()
        except OSError: fails.append('premise: %s is missing' % f); continue
        a = re.search(r'recvBuffer\s*=\s*malloc\(\s*iface->MTU\s*\)', txt)
        b = re.search(r'recvfrom\(\s*iface->socket\s*,\s*iface->recvBuffer\s*,\s*iface->MTU\s*,', txt)
        c = re.search(r'parseFrame\(\s*iface->recvBuffer\s*,', txt)
        if not (a and b):
            fails.append('premise of C01 no longer re-established: %s does not allocate the receive buffer as malloc(iface->MTU) and fill it by recvfrom(..., iface->MTU, ...) '
                         '(the core trusts the buffer to be MTU bytes long)' % f)
        found.append({'file': f, 'malloc_mtu': bool(a), 'recvfrom_mtu': bool(b), 'parseFrame_on_buffer': bool(c)})
    return {'failures': fails, 'found_input': False, 'premise': found}
EXPLORE = dict(ops=('frame', 'classify', 'flow', 'esp32', 'tick', 'adv'), mtu=True)
