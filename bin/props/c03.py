"""C03 - an accepted Discover is answered by exactly one correct Hello."""
from props.base import *
from props.blk import *
COQ_TARGETS = ['props/Properties_C03.vo']
RULE = ('histories over 4 stations with Discovers of both services: generation 0, 1, 0x00FF, 0xFF00, 0xFFFF and random, any transaction id, direct and bridged (Ethernet source != real '
        'source), preceded by Discovers of the other service, by foreign Hellos with the same / byte-swapped generation, by Resets, commands and noise; the independent oracle tracks the '
        'active mapper from the frames (C05 rule) and demands for every accepted Discover exactly one Hello with the prescribed fields (broadcast twice, own source twice, same ToS, seq 0, '
        'that Discover\'s generation, current = real source, apparent = Ethernet source), for every refused one silence. distinct = distinct (ToS, generation class, bridged, accepted, history class)')
GENS = [0, 1, 0x00FF, 0xFF00, 0xFFFF]
def gcls(g): return g if g in GENS else 'r'
def scenarios(rng, tier):
    s = Scn(); n = 60 if tier == 'quick' else 2500
    st = [mac(i) for i in range(1, 5)]
    for k in range(n):
        cfg = rand_cfg(rng, 0) if k % 3 else Cfg(0)
        s.start('disc_%d' % k); s.lines.append(cfg.line()); own = cfg.own()
        M = rng.choice(st)
        for i in range(rng.choice([4, 12, 30])):
            r = rng.random(); g = rng.choice(GENS + [rng.randrange(65536)])
            fill = rng.choice(['00', 'ff'])
            if r < 0.45:
                X = M if rng.random() < 0.7 else rng.choice(st)
                s.frame(0, discover(X, tos=rng.choice([0, 1]), gen=g, seq=rng.randrange(65536), stations=[own] if rng.random() < 0.3 else [],
                                    esrc=X if rng.random() < 0.7 else mac(99)), fill)
            elif r < 0.6: s.frame(0, hello(rng.choice(st), tos=rng.choice([0, 1]), gen=rng.choice([g, ((g & 255) << 8) | (g >> 8)])), fill)
            elif r < 0.72:
                s.frame(0, reset(rng.choice(st), tos=rng.choice([0, 1])), fill); M = rng.choice(st)
            elif r < 0.8: s.frame(0, query(M, own, seq=rng.randrange(1, 65536)), fill)
            elif r < 0.86: s.frame(0, emit(M, own, [(1, 0, mac(7), mac(8))], seq=rng.randrange(1, 65536)), fill)
            elif r < 0.92: s.frame(0, discover(rng.choice(st), tos=rng.choice([2, 3, 255]), gen=g), fill)
            else: s.frame(0, generic(rng.randrange(256), rng.choice([0, 1, 2]), M, M, own, own, body=bytes(4)), fill)
    for k in range(30 if tier == 'quick' else 600):
        cfg = Cfg(0, mtu=rng.choice([1500, 65536, 65600, 65741, 65742, 70000, 131072 + 100, 576])); own = cfg.own()
        s.start('pairs_%d' % k); s.lines.append(cfg.line()); M = mac(1)
        G = rng.choice([0x1234, 0x00FF, 0x0100, 0xA5C3, rng.randrange(1, 65536)]); Gs = ((G & 255) << 8) | (G >> 8)
        t1, t2 = rng.choice([(0, 0), (1, 1), (0, 1), (1, 0)])
        s.frame(0, discover(M, tos=t1, gen=G, seq=5))
        mid = rng.choice(['none', 'reset0', 'reset1', 'hello', 'fault'])
        if mid == 'reset0': s.frame(0, reset(M, tos=0))
        elif mid == 'reset1': s.frame(0, reset(M, tos=1))
        elif mid == 'hello': s.frame(0, hello(mac(9), tos=t2, gen=Gs))
        elif mid == 'fault':
            s.frame(0, reset(M, tos=0)); s.op('failalloc', rng.choice([1, 2])); s.frame(0, discover(M, tos=t2, gen=G, seq=6)); s.op('failalloc clear')
        s.frame(0, discover(M, tos=t2, gen=rng.choice([Gs, Gs, G, 0]), seq=rng.choice([5, 6])))
        # the same Discover relayed over another path (same transaction id and generation, other Ethernet source), and once more
        s.frame(0, discover(M, tos=t2, gen=Gs, seq=6, esrc=mac(60))); s.frame(0, discover(M, tos=t2, gen=Gs, seq=6, esrc=mac(61))); s.frame(0, discover(M, tos=t2, gen=Gs, seq=6, esrc=mac(61)))
    oth = other_iface_variants(s.text(), rng, 10 if tier == 'quick' else 150)
    return [(s.text(), {}), (oth, {'family': 'other-interface'})]
def project(blk, name, meta):
    # what the property fixes: whether a Discover is answered, by how many frames, and the 46 fixed bytes of the Hello
    if blk.fault: return ('fault',)
    if blk.op.startswith('frame'):
        d = frame_hdr(blk)
        if d and d['tos'] in (0, 1) and d['opc'] == 0: return tuple(o[:46] for _, _, o in blk.sends())
        return send_opcodes(blk)
    return ()
def cfg_own(ib):
    own = OWN0
    for b in ib:
        if b.op.startswith('cfg 0'):
            kv = dict(t.split('=', 1) for t in b.op.split()[2:])
            own = bytes(6) if kv.get('macfail') == '1' else bytes.fromhex(kv.get('mac', OWN0.hex()))
    return own
def oracle(name, ib, mb, meta):
    fails = []; tr = MapperTracker(); own = cfg_own(ib); faulty = False
    for i, b in enumerate(ib):
        if b.op.startswith('failalloc'): faulty = 'clear' not in b.op
        if not b.op.startswith('frame 0 ') or b.fault: continue
        if faulty:
            ctx, fr = frame_of(b); tr.feed(dec(rxview(b, fr))); continue
        ctx, fr = frame_of(b); d = dec(rxview(b, fr))
        sn = [o for _, _, o in sends_of(b)]
        if d['tos'] in (0, 1) and d['opc'] == 0:
            exp = tr.expect_reply(d)
            if exp is True:
                hs = [hello_fields(o) for o in sn]
                if len(sn) != 1 or hs[0] is None:
                    fails.append((i, 'accepted Discover from %s answered by %d frame(s) instead of exactly one Hello' % (d['rsrc'].hex(), len(sn))))
                else:
                    h = hs[0]; gen = (d['body'][0] << 8) | d['body'][1]
                    want = dict(edst=BCAST, rdst=BCAST, esrc=own, rsrc=own, tos=d['tos'], seq=0, gen=gen, cur=d['rsrc'], app=d['esrc'])
                    for k2, v in want.items():
                        if h[k2] != v:
                            fails.append((i, 'Hello field %s is %s, must be %s' % (k2, h[k2].hex() if isinstance(h[k2], bytes) else h[k2], v.hex() if isinstance(v, bytes) else v)))
            elif exp is False and sn:
                fails.append((i, 'Discover from %s answered although %s is the active mapper' % (d['rsrc'].hex(), tr.active.hex())))
        tr.feed(d)
    return fails
def count(name, lines, ib, stats, meta):
    tr = MapperTracker(); hist = 'start'
    for b in ib:
        if not b.op.startswith('frame 0 '): continue
        ctx, fr = frame_of(b); d = dec(rxview(b, fr))
        if d['tos'] in (0, 1) and d['opc'] == 0:
            stats['evaluations'] += 1
            stats['distinct'].add((d['tos'], gcls((d['body'][0] << 8) | d['body'][1]), d['esrc'] != d['rsrc'], tr.expect_reply(d), hist))
            if len(stats['samples']) < 4 and sends_of(b): stats['samples'].append({'discover': fr[:40].hex(), 'hello': sends_of(b)[0][2][:46].hex()})
        hist = {0: 'disc', 1: 'hello', 8: 'reset'}.get(d['opc'], 'other') + str(min(d['tos'], 2))
        tr.feed(d)
EXPLORE = dict(domain='frames', ops=('frame',), mtu=True)
