"""Defaults for the per-property plug-ins of bin/check."""
import sys, os
sys.path.insert(0, os.path.dirname(os.path.dirname(os.path.abspath(__file__))))
from lltdgen import *
import vcommon as V

EXPECT_KEYS = set()
# True: the projection compared with the model is functionally determined by the PROPERTY TEXT, so a disagreement is
# itself a failing input; False (default): the model is more specific than the property (byte layout of unspecified
# fields, order of list entries, slot indices, timestamps) - a disagreement then only means that the proofs no longer
# speak about this code (VIOLATION ... no-failing-input-found) and the property's own oracles decide whether a
# concrete failing input exists.
CORR_IS_SPEC = False
COMMON_TB = [
    'Coq 8.16.1 kernel + vm_compute (no native_compute); hand-written executable Gallina model coq/model/*.v of the C control flow',
    'translator harness/probe.c + bin/genfacts.py (gcc layouts, #defines, tables dumped by executing init_automata_*) -> coq/gen/Extracted.v, regenerated each run',
    'correspondence: harness/vharness.c (+verification port) built from the working tree with gcc ASan/UBSan vs the model extracted with ExtrOcamlBasic only (bool, option, unit, list, prod, sumbool, sumor; andb/orb inlined; no Extract Constant of ours) + ocaml/driver.ml glue',
]
TRUSTED_BASE = COMMON_TB
ASSUMPTIONS = ['virtual millisecond clock (seconds = ms/1000), moved only by explicit advance operations',
               'logging is not modelled']

def project_keys(blk, keys, acts=False):
    if blk.fault: return ('fault',)
    r = tuple((k, blk.kv.get(k)) for k in keys)
    if acts: r = r + (tuple(blk.acts),)
    return r

def oracle(name, ib, mb, meta):
    return []
def count(name, lines, ib, stats, meta):
    stats['evaluations'] += 1
    stats['distinct'].add(tuple(lines))
    if len(stats['samples']) < 3: stats['samples'].append({'scenario': name, 'ops': lines[:8]})
def extra_checks(tier, seed):
    return {}
def finding_key(name, small, f):
    return name

# coverage-guided exploration (bin/explore.py): None = off; dict(ops=operations that may be mutated / duplicated / removed,
# mtu=True to vary the MTU of cfg lines inside [576,9216], skip=regex of scenario names whose oracle depends on their exact shape)
EXPLORE = None
EXPLORE_SECONDS = (10, 120)     # quick, thorough (x 500 mutants)
