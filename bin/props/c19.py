"""C19 - memory use is bounded and nothing is leaked."""
from props.base import *
from props.blk import *
COQ_TARGETS = ['props/Properties_C19.vo']
CORR_IS_SPEC = False
RULE = ('histories of all request types with the allocation ledger (live allocations, live bytes) read after every frame: mixed sessions on two interfaces, floods of Probes/Trains with pairwise '
        'distinct sources and no Query (3000 frames in the quick tier, 10^5 in the thorough tier), floods interleaved with Queries, cached icons, Resets. Independent oracle from the frames alone: '
        'live allocations <= interface records + observations pending since the last Query/Reset + one cached icon per record (so every transient buffer was released), the live count stops '
        'growing during a flood (no growth over the last third), after a topology Reset exactly the record remains. distinct = distinct (request class, ledger class) pairs')
def scenarios(rng, tier):
    s = Scn(); own = OWN0; M = mac(1)
    n = 12 if tier == 'quick' else 300
    for k in range(n):
        cfg = rand_cfg(rng, 0); c1 = rand_cfg(rng, 1)
        icon = bytes(rng.randrange(256) for _ in range(rng.choice([0, 1, 700, 5000])))
        s.start('mix_%d' % k); s.lines += [cfg.line(), c1.line(), gline(host=b'h', icon=icon if rng.random() < 0.8 else None, fname=b'name' if rng.random() < 0.7 else None, hwid=b'abc')]
        st = [mac(i) for i in range(1, 5)]
        for rnd in range(3):
            session(rng, s, 0, cfg, st, n_ops=25, noise=0.15, icon_len=len(icon))
            session(rng, s, 1, c1, st, n_ops=10, noise=0.15, icon_len=len(icon))
        s.frame(0, reset(M)); s.frame(1, reset(M))
    cap = V.facts().get('LLTD_SEE_LIST_MAX', 0)
    # every request type repeated: a cache fills once, a leak grows with every round
    icon = bytes(range(200)) * 20
    blocks = {
      'discover': [discover(M, gen=3)], 'discover_quick': [discover(M, gen=3, tos=1)],
      'emit': [discover(M, gen=3), emit(M, own, [(1, 0, mac(7), mac(8)), (0, 0, mac(7), mac(9))], seq=5)],
      'query_empty': [discover(M, gen=3), query(M, own, seq=6)],
      'probe_dup': [discover(M, gen=3), probe(mac(70), own, mac(70), own)],
      'probe_other': [probe(mac(71), own, mac(71), mac(72))],
      'probe_query': [probe(mac(73), own, mac(73), own), probe(mac(74), own, mac(74), own, train=True), query(M, own, seq=7)],
      'qlt_icon0': [discover(M, gen=3), qlt(M, own, 14, 0, seq=8)], 'qlt_icon_walk': [qlt(M, own, 14, 0, seq=8), qlt(M, own, 14, 1466, seq=9), qlt(M, own, 14, 2932, seq=10)],
      'qlt_name': [qlt(M, own, 17, 0, seq=8)], 'qlt_hwid': [qlt(M, own, 19, 0, seq=8)], 'qlt_unknown': [qlt(M, own, 99, 0, seq=8), qlt(M, own, 14, 0, seq=0)],
      'hello_noise': [hello(mac(9)), generic(9, 0, M, M, own, own), generic(200, 2, M, M, own, own)],
      'reset_cycle': [discover(M, gen=3), probe(mac(75), own, mac(75), own), qlt(M, own, 14, 0, seq=8), reset(M)],
      'reset_quick_then_topo': [discover(M, gen=3), qlt(M, own, 14, 0, seq=8), reset(M, tos=1), reset(M, tos=0)],
      'reset_drained_quick_topo': [discover(M, gen=3), probe(mac(76), own, mac(76), own), qlt(M, own, 14, 0, seq=8), query(M, own, seq=9), reset(mac(2), tos=1), reset(M, tos=0)],
    }
    blocks['emit_self'] = [discover(M, gen=3), emit(M, own, [(1, 0, mac(7), own), (0, 0, own, own), (1, 0, mac(8), mac(9))], seq=5)]
    blocks['qlt_icon_hourly'] = [discover(M, gen=3), qlt(M, own, 14, 0, seq=8), 'adv 3600001', qlt(M, own, 14, 0, seq=9), reset(M, tos=1), 'adv 4000000', qlt(M, own, 14, 0, seq=10)]
    blocks['qlt_beyond'] = [qlt(M, own, 17, 15, seq=8), qlt(M, own, 17, 16, seq=9), qlt(M, own, 17, 0xFFFF, seq=10), qlt(M, own, 19, 5, seq=11), qlt(M, own, 19, 4000, seq=12), qlt(M, own, 14, 0xFFF0, seq=13)]
    hosts = {'': dict(fname=b'a friendly name', hwid=b'hw'), '_noname': dict(fname=b'', hwid=b''), '_absent': dict(fname=None, hwid=b'')}
    variants = [(bn, fr, '') for bn, fr in blocks.items()] + [('qlt_icon_empty', blocks['qlt_icon0'], ''), ('qlt_icon_empty_walk', blocks['qlt_icon_walk'] + [reset(M)], '')]
    variants += [(bn + hv, blocks[bn], hv) for bn in ('qlt_name', 'qlt_hwid', 'qlt_beyond', 'qlt_unknown') for hv in ('_noname', '_absent')]     # empty / absent friendly name and hardware id
    for bn, fr, hv in variants:
        s.start('rep_' + bn); s.lines.append(gline(host=b'h', icon=b'' if 'empty' in bn else icon, **hosts[hv]))
        for r_ in range(60 if tier == 'quick' else 400):
            for f in fr:
                if isinstance(f, str): s.lines.append(f)
                else: s.frame(0, f)
    N = 3000 if tier == 'quick' else 100000
    if cap and 3 * cap + 100 > N: N = min(3 * cap + 100, 100000 if tier == 'quick' else 1000000)   # the flood must outlast the cap the source declares
    s.start('flood_%d' % N); s.lines.append('cfg 0 mtu=576')
    s.frame(0, discover(M, gen=1))
    for i in range(N): s.frame(0, probe(mac(1000 + i), own, mac(1000 + i) if i % 3 else mac(500000 + i), own, train=i % 2 == 0))
    s.frame(0, query(M, own, seq=2)); s.frame(0, reset(M))
    # rounds of (3 frames' worth of distinct probes, one Query): the backlog grows by two frames' worth per round until the cap holds it
    for mtu in ((594,) if tier == 'quick' else (576, 594, 1500, 1514)):      # 594, 1514: the last descriptor fits exactly
        per = (mtu - 34) // 20
        s.start('floodr_%d' % mtu); s.lines.append('cfg 0 mtu=%d' % mtu); s.frame(0, discover(M, gen=1))
        rounds = ((cap or 1024) + 6 * per) // (2 * per) + 14; x = 0           # a dozen more rounds once the cap holds
        for r_ in range(rounds):
            for i in range(3 * per): s.frame(0, probe(mac(5000 + x), own, mac(5000 + x), own)); x += 1
            s.frame(0, query(M, own, seq=1 + r_))
        s.frame(0, reset(M))
    for j in range(2 if tier == 'quick' else 6):
        s.start('floodq_%d' % j); s.lines.append('cfg 0 mtu=%d' % rng.choice([576, 1500]))
        s.frame(0, discover(M, gen=1))
        for i in range(max(1500, 2 * cap + 500) if cap else 1500):
            s.frame(0, probe(mac(1000 + i), own, mac(1000 + i), own))
            if rng.random() < 0.01: s.frame(0, query(M, own, seq=2 + i))
            if rng.random() < 0.002: s.frame(0, reset(M)); s.frame(0, discover(M, gen=1))
        s.frame(0, reset(M))
    return [(s.text(), {})]
def project(blk, name, meta):
    if blk.fault: return ('fault',)
    if blk.op.startswith('frame'): return (blk.kv.get('live'), blk.kv.get('bytes'))
    return ()
SLACK = 8     # allocations per interface besides record and observations (cached icon, other cached properties, ...)
def oracle(name, ib, mb, meta):
    """from the ledger alone: (1) a fixed bound per interface record, (2) no growth when the same requests are repeated or a
    flood goes on (what is retained is bounded, every transient buffer was released), (3) only the records after a Reset"""
    fails = []; rec = set(); lives = []; marks = {}
    capf = V.facts().get('LLTD_SEE_LIST_MAX', 0) or 1024
    pend = {}; cached = set()
    for i, b in enumerate(ib):
        if b.op.startswith('% mark') or b.fault or not b.op.startswith('frame'): continue
        ctx, fr = frame_of(b); d = dec(rxview(b, fr))
        rec.add(ctx)
        live = int(b.kv.get('live', 0)); lives.append((i, live))
        if live > len(rec) * (1 + capf + SLACK):
            fails.append((i, '%d allocations live with %d interface record(s): more than the fixed bound of record + %d observations + %d other blocks each' % (live, len(rec), capf, SLACK))); break
        if d['tos'] == 0 and d['opc'] == 8: pend[ctx] = True
        if d['tos'] == 0 and d['opc'] == 8 and len(rec) == 1 and live > 1:
            fails.append((i, 'after the Reset %d allocations are live; only the interface record may remain' % live)); break
    if meta.get('explored'): return fails      # the growth comparisons below presuppose the shape of their family
    if name.startswith('rep_') and len(lives) >= 60:
        # the same request block repeated: whatever is cached is cached after the first rounds; growth afterwards is a leak
        third = len(lives) // 3
        a_, b_ = lives[third][1], lives[-1][1]
        if b_ > a_: fails.append((lives[-1][0], 'repeating the same requests keeps allocating: %d live allocations after %d frames, %d after %d frames' % (a_, third, b_, len(lives))))
    cap = V.facts().get('LLTD_SEE_LIST_MAX', 0)
    if name.startswith(('flood_', 'floodr_')) and len(lives) > 300 and not (cap and 3 * cap > len(lives)):
        a_, b_ = lives[2 * len(lives) // 3][1], lives[-3][1]
        # while the observation list is still filling towards its bound, growth is what it should be: only growth beyond a FULL list is a leak
        if b_ > a_ and not (name.startswith('floodr_') and cap and a_ < cap): fails.append((len(ib) - 3, 'retained memory keeps growing with the history: %d live allocations after %d frames, %d after %d frames' % (a_, 2 * len(lives) // 3, b_, len(lives) - 3)))
    return fails
def count(name, lines, ib, stats, meta):
    for b in ib:
        if b.op.startswith('frame'):
            stats['evaluations'] += 1
            ctx, fr = frame_of(b); d = dec(rxview(b, fr))
            lv = int(b.kv.get('live', 0))
            stats['distinct'].add((d['tos'] if d['tos'] < 3 else 'x', d['opc'] if d['opc'] < 13 else 'x', lv if lv < 4 else ('1025' if lv == 1025 else 'n')))
    if name.startswith('flood_') and len(stats['samples']) < 4:
        lv = [int(b.kv.get('live', 0)) for b in ib if b.op.startswith('frame')]
        stats['samples'].append({'scenario': name, 'frames': len(lv), 'max_live': max(lv), 'final_live': lv[-1]})
EXPLORE = dict(domain='frames', ops=('frame',), mtu=True)
