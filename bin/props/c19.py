"""C19 - memory use is bounded and nothing is leaked."""
from props.base import *
from props.blk import *
COQ_TARGETS = ['props/Properties_C19.vo']
CORR_IS_SPEC = False
RULE = ('histories of all request types with the allocation ledger (live allocations, live bytes) read after every frame: mixed sessions on two interfaces, floods of Probes/Trains with pairwise '
        'distinct sources and no Query (3000 frames in the quick tier, 10^5 in the thorough tier), floods interleaved with Queries, cached icons, Resets. Independent oracle from the frames alone: '
        'live allocations <= interface records + observations pending since the last Query/Reset + one cached icon per record (so every transient buffer was released), the live count stops '
        'growing during a flood (no growth over the last third), after a topology Reset exactly the record remains. distinct = distinct (request class, ledger class) pairs')
def scenarios(rng, tier):
    s = Scn(); own = OWN0; M = mac(1)
    n = 12 if tier == 'quick' else 300
    for k in range(n):
        cfg = rand_cfg(rng, 0); c1 = rand_cfg(rng, 1)
        icon = bytes(rng.randrange(256) for _ in range(rng.choice([0, 1, 700, 5000])))
        s.start('mix_%d' % k); s.lines += [cfg.line(), c1.line(), gline(host=b'h', icon=icon if rng.random() < 0.8 else None, fname=b'name' if rng.random() < 0.7 else None, hwid=b'abc')]
        st = [mac(i) for i in range(1, 5)]
        for rnd in range(3):
            session(rng, s, 0, cfg, st, n_ops=25, noise=0.15, icon_len=len(icon))
            session(rng, s, 1, c1, st, n_ops=10, noise=0.15, icon_len=len(icon))
        s.frame(0, reset(M)); s.frame(1, reset(M))
    cap = V.facts().get('LLTD_SEE_LIST_MAX', 0)
    N = 3000 if tier == 'quick' else 100000
    if cap and 3 * cap + 100 > N: N = min(3 * cap + 100, 100000 if tier == 'quick' else 1000000)   # the flood must outlast the cap the source declares
    s.start('flood_%d' % N); s.lines.append('cfg 0 mtu=576')
    s.frame(0, discover(M, gen=1))
    for i in range(N): s.frame(0, probe(mac(1000 + i), own, mac(1000 + i) if i % 3 else mac(500000 + i), own, train=i % 2 == 0))
    s.frame(0, query(M, own, seq=2)); s.frame(0, reset(M))
    # rounds of (3 frames' worth of distinct probes, one Query): the backlog grows by two frames' worth per round until the cap holds it
    for mtu in ((576,) if tier == 'quick' else (576, 1500)):
        per = (mtu - 34) // 20
        s.start('floodr_%d' % mtu); s.lines.append('cfg 0 mtu=%d' % mtu); s.frame(0, discover(M, gen=1))
        rounds = ((cap or 1024) + 6 * per) // (2 * per) + 3; x = 0
        for r_ in range(rounds):
            for i in range(3 * per): s.frame(0, probe(mac(5000 + x), own, mac(5000 + x), own)); x += 1
            s.frame(0, query(M, own, seq=1 + r_))
        s.frame(0, reset(M))
    for j in range(2 if tier == 'quick' else 6):
        s.start('floodq_%d' % j); s.lines.append('cfg 0 mtu=%d' % rng.choice([576, 1500]))
        s.frame(0, discover(M, gen=1))
        for i in range(max(1500, 2 * cap + 500) if cap else 1500):
            s.frame(0, probe(mac(1000 + i), own, mac(1000 + i), own))
            if rng.random() < 0.01: s.frame(0, query(M, own, seq=2 + i))
            if rng.random() < 0.002: s.frame(0, reset(M)); s.frame(0, discover(M, gen=1))
        s.frame(0, reset(M))
    return [(s.text(), {})]
def project(blk, name, meta):
    if blk.fault: return ('fault',)
    if blk.op.startswith('frame'): return (blk.kv.get('live'), blk.kv.get('bytes'))
    return ()
def oracle(name, ib, mb, meta):
    fails = []; own = {0: OWN0, 1: own_of(1)}; pend = {0: set(), 1: set()}; rec = set(); iconseen = set(); hasicon = False
    lives = []
    for i, b in enumerate(ib):
        if b.op.startswith('cfg g'): hasicon = 'icon=none' not in b.op
        elif b.op.startswith('cfg '):
            t = b.op.split(); kv = dict(x.split('=', 1) for x in t[2:])
            if 'mac' in kv: own[int(t[1])] = bytes(6) if kv.get('macfail') == '1' else bytes.fromhex(kv['mac'])
        if not b.op.startswith('frame') or b.fault: continue
        ctx, fr = frame_of(b); d = dec(fr + bytes(max(0, 36 - len(fr))))
        rec.add(ctx)
        if d['tos'] == 0:
            if d['opc'] in (3, 4) and d['rdst'] == own[ctx]: pend[ctx].add((d['esrc'], d['rsrc']))
            elif d['opc'] == 6:
                # what a QueryResp delivered leaves the record: take the count from the response itself
                sn = sends_of(b); q = qresp_fields(sn[0][2]) if sn else None
                if q:
                    for (t_, rs, es, ed) in q['descs']: pend[ctx].discard((es, rs))
            elif d['opc'] == 8: pend[ctx].clear(); iconseen.discard(ctx)
        if d['tos'] in (0, 1) and d['opc'] == 0x0B and d['seq'] != 0 and d['body'][0] == 14 and hasicon: iconseen.add(ctx)
        live = int(b.kv.get('live', 0)); lives.append(live)
        capf = V.facts().get('LLTD_SEE_LIST_MAX', 0)
        if capf and live > len(rec) * (2 + capf):
            fails.append((i, '%d allocations live: more than the fixed bound of %d per interface record (record + %d observations + icon) that the retained state is proved to obey' % (live, 2 + capf, capf)))
            break
        bound = len(rec) + sum(len(p) for p in pend.values()) + len(iconseen)
        if live > bound:
            fails.append((i, '%d allocations live after "%s..." although at most %d can be part of the retained state (%d records, %d pending observations, %d cached icons): a buffer was not released' % (
                live, b.op[:50], bound, len(rec), sum(len(p) for p in pend.values()), len(iconseen))))
            break
        if d['tos'] == 0 and d['opc'] == 8 and ctx == max(rec) and all(not pend[c] and c not in iconseen for c in rec) and live != len(rec):
            fails.append((i, 'after the Reset %d allocations are live; only the %d interface record(s) may remain' % (live, len(rec)))); break
    cap = V.facts().get('LLTD_SEE_LIST_MAX', 0)
    if name.startswith('flood_') and len(lives) > 300 and not (cap and 3 * cap > len(lives)):
        a, bb = lives[2 * len(lives) // 3], lives[-3]
        if bb > a: fails.append((len(ib) - 3, 'retained memory keeps growing with the history: %d live allocations after %d frames, %d after %d frames' % (a, 2 * len(lives) // 3, bb, len(lives) - 3)))
    return fails
def count(name, lines, ib, stats, meta):
    for b in ib:
        if b.op.startswith('frame'):
            stats['evaluations'] += 1
            ctx, fr = frame_of(b); d = dec(fr + bytes(max(0, 36 - len(fr))))
            lv = int(b.kv.get('live', 0))
            stats['distinct'].add((d['tos'] if d['tos'] < 3 else 'x', d['opc'] if d['opc'] < 13 else 'x', lv if lv < 4 else ('1025' if lv == 1025 else 'n')))
    if name.startswith('flood_') and len(stats['samples']) < 4:
        lv = [int(b.kv.get('live', 0)) for b in ib if b.op.startswith('frame')]
        stats['samples'].append({'scenario': name, 'frames': len(lv), 'max_live': max(lv), 'final_live': lv[-1]})
