"""C06 - an Emit is executed descriptor by descriptor and then acknowledged."""
from props.base import *
from props.blk import *
COQ_TARGETS = ['props/Properties_C06.vo']
RULE = ('Emit frames from the active mapper with n in {1, 2, 3, cap-1, cap} descriptors (cap = floor((MTU-34)/14), MTU 576/1500/9216/random), kinds Probe/Train, pauses 0/1/255/random, '
        'arbitrary source/destination, non-zero sequence numbers, bridged and direct mappers; plus declared counts that exceed what fits (cap+1, 0x7FFF, 0xFFFF) with 0..cap descriptors present, '
        'plus descriptors of unknown kind. Oracle computed from the received frame alone: exactly [sleep pause_i, Probe/Train_i]... in order then one ACK (Ethernet destination = the mapper\'s '
        'Ethernet source of the session opener, real destination = mapper, sequence number = the Emit\'s); bound (MTU-34)/14 + 1 on the number of transmissions for any declared count. '
        'distinct = distinct (count class, MTU class, kinds, bridged) tuples')
def scenarios(rng, tier):
    s = Scn(); n = 60 if tier == 'quick' else 1500
    for k in range(n):
        mtu = rng.choice([576, 1500, 1500, 9216, rng.randrange(576, 9217)]) if (tier == 'thorough' or k % 6) else rng.choice([576, 1500])
        cfg = Cfg(0, mtu=mtu, mac=bytes([2, 0, 0, 0, 1, rng.randrange(256)]))
        own = cfg.own(); cap = (mtu - 34) // 14
        s.start('emit_%d' % k); s.lines.append(cfg.line())
        M = mac(1); ME = M if rng.random() < 0.6 else mac(40)
        s.frame(0, discover(M, gen=rng.randrange(65536), seq=rng.randrange(65536), esrc=ME))
        lastseq = None
        for i in range(rng.choice([1, 3])):
            cnt = rng.choice([1, 1, 2, 3, rng.randrange(1, cap + 1), cap - 1, cap] if mtu <= 1500 or tier == 'thorough' else [1, 2, 3, 40])
            descs = [(rng.choice([0, 1]), rng.choice([0, 1, 255, rng.randrange(256)]), mac(rng.randrange(1, 1 << 20)), rng.choice([own, mac(rng.randrange(1, 1 << 20))])) for _ in range(cnt)]
            sq = rng.randrange(1, 65536)
            if lastseq is not None and rng.random() < 0.5: sq = lastseq          # same sequence number as the mapper's previous request
            if rng.random() < 0.3: s.frame(0, query(M, own, seq=sq, esrc=ME))
            elif rng.random() < 0.2: s.frame(0, qlt(M, own, 14, 0, seq=sq, esrc=ME))
            s.frame(0, emit(M, own, descs, seq=sq, esrc=rng.choice([ME, M])), rng.choice(['00', 'ff'])); lastseq = sq
        r = rng.random()
        if r < 0.5:
            wrap = [(65536 * m + 13) // 14 + j for m in range(1, 14) for j in (0, 1, cap // 2, cap)]      # count*14 wraps 16 bits to something small
            declared = rng.choice([cap + 1, cap + 2, 0x7FFF, 0x8000, 0xFFFF] + [w for w in rng.sample(wrap, 6) if w <= 0xFFFF])
            present = rng.choice([0, 1, 5, min(cap, 30)])
            descs = [(1, 0, mac(7), mac(8)) for _ in range(present)]
            s.frame(0, emit(M, own, descs, seq=rng.randrange(1, 65536), count=declared), rng.choice(['00', 'ff', '01']))
        elif r < 0.8:
            descs = [(rng.choice([0, 1, 2, 7, 255]), 1, mac(7), mac(8)) for _ in range(rng.choice([1, 2, 4]))]
            s.frame(0, emit(M, own, descs, seq=rng.randrange(1, 65536)))
        else:
            s.frame(0, emit(M, own, [], seq=rng.randrange(1, 65536), count=0))
    # the largest Emit a frame can carry, for every residue of (MTU-34) mod 14 (the frame filled exactly, or up to 13 bytes
    # short of it) - and one more than that
    for r_ in range(14):
        mtu = 576 + ((r_ - (576 - 34)) % 14) + 14 * rng.choice([0, 1, 50, 66]); cap = (mtu - 34) // 14
        cfg = Cfg(0, mtu=mtu); own = cfg.own(); M = mac(1)
        s.start('fit_%d_%d' % (r_, mtu)); s.lines.append(cfg.line()); s.frame(0, discover(M, gen=1))
        for cnt in (cap, cap - 1, cap + 1):
            descs = [(j % 2, 0, mac(5000 + j), mac(6000 + j)) for j in range(min(cnt, cap))]
            s.frame(0, emit(M, own, descs, seq=100 + cnt % 50, count=cnt))
    # several refused transmissions in a row (a whole Emit's worth and more), the fault clears, the mapper goes on
    for k in range(6 if tier == 'quick' else 60):
        cfg = Cfg(0, mtu=1500); own = cfg.own(); M = mac(1); nref = [1, 3, 4, 5, 8, 12][k % 6]
        s.start('refused_%d' % k); s.lines.append(cfg.line()); s.frame(0, discover(M, gen=1))
        s.op('failsend from 1')
        left = nref; sq = 10
        while left > 0:
            nd = min(left, 3); s.frame(0, emit(M, own, [(1, 0, mac(7), mac(8))] * nd, seq=sq)); sq += 1; left -= nd + 1
        s.op('failsend clear')
        s.frame(0, emit(M, own, [(1, 1, mac(17), mac(18)), (0, 0, mac(19), mac(20))], seq=sq)); s.frame(0, emit(M, own, [(0, 2, mac(21), mac(22))], seq=sq + 1))
    for k in range(20 if tier == 'quick' else 400):
        cfg = Cfg(0, mtu=rng.choice([576, 1500, 65536, 70000])); own = cfg.own(); M = mac(1)
        s.start('txf_%d' % k); s.lines.append(cfg.line()); s.frame(0, discover(M, gen=1)); s.frame(0, discover(M, gen=1, tos=1))
        n1 = rng.choice([1, 2, 3]); sq = rng.randrange(1, 60000)
        s.op('failsend', rng.randrange(1, n1 + 2))           # one transmission of this Emit is refused (a Probe or the ACK)
        s.frame(0, emit(M, own, [(1, 0, mac(7), mac(8))] * n1, seq=sq)); s.op('failsend clear')
        if rng.random() < 0.5: s.frame(0, qlt(M, own, 14, 0, seq=sq + 2, tos=1))
        elif rng.random() < 0.5: s.frame(0, query(M, own, seq=sq + 2))
        s.frame(0, emit(M, own, [(rng.choice([0, 1]), 1, mac(17), mac(18)), (1, 0, mac(19), mac(20))], seq=sq + 2))
        s.frame(0, emit(M, own, [(0, 2, mac(21), mac(22))], seq=sq + 3))
    oth = other_iface_variants(s.text(), rng, 10 if tier == 'quick' else 150)
    return [(s.text(), {}), (oth, {'family': 'other-interface'})]
def act_shape(a):
    if a[0] == 'sleep': return ('sleep', a[1])
    f = dec(a[2])
    if f is None: return ('send', 'runt')
    if f['opc'] == 5: return ('ack', f['edst'], f['rdst'], f['rsrc'], f['seq'], len(a[2]))
    return ('send', f['opc'], f['edst'], f['esrc'], f['rsrc'], len(a[2]))
def project(blk, name, meta):
    # for Emit frames: the ordered port calls reduced to the fields the property names
    if blk.fault: return ('fault',)
    if blk.op.startswith('frame'):
        d = frame_hdr(blk)
        if d and d['tos'] == 0 and d['opc'] == 2: return tuple(act_shape(a) for a in acts_of(blk))
        return send_opcodes(blk)
    return ()
def oracle(name, ib, mb, meta):
    fails = []; mtu = 1500; own = OWN0; mapper = None; faulty = False; paths = set()
    for i, b in enumerate(ib):
        if b.op.startswith('failsend'): faulty = 'clear' not in b.op
        if b.op.startswith('cfg 0'):
            kv = dict(t.split('=', 1) for t in b.op.split()[2:]); mtu = int(kv.get('mtu', mtu)); own = bytes.fromhex(kv.get('mac', own.hex()))
            if kv.get('mtufail') == '1' or mtu == 0: mtu = 1500 if 'c06' != 'c06' else -1   # getter fails: the responder assumes 1500 (an Emit is dropped)
        if not b.op.startswith('frame 0 ') or b.fault: continue
        ctx, fr = frame_of(b); d = dec(rxview(b, fr))
        fill = int(b.op.split()[2], 16)
        # who the mapper is, from the frames alone (as C05 prescribes): the first Discover of a discovery service while
        # no mapper is active; released by a Reset; left open ('?') once a command of a station that is not the mapper arrived
        if d['tos'] in (0, 1):
            if d['opc'] == 8: mapper = None
            elif d['opc'] == 0 and mapper is None: mapper = (d['rsrc'], d['esrc'])
            elif d['opc'] in (2, 6, 0x0B) and (mapper is None or (mapper != '?' and mapper[0] != d['rsrc'])): mapper = '?'
            if mapper not in (None, '?') and d['rsrc'] == mapper[0]: paths.add(d['esrc'])    # Ethernet addresses the mapper's frames came from
            if mapper is None: paths = set()
        if d['tos'] != 0 or d['opc'] != 2 or mtu < 0 or faulty or mapper == '?': continue
        cap = (mtu - 34) // 14
        buf = (fr + bytes([fill]) * mtu)[:mtu]
        n = (buf[32] << 8) | buf[33]
        acts = acts_of(b); nsend = sum(1 for a in acts if a[0] == 'send')
        if nsend > cap + 1:
            fails.append((i, 'Emit declaring %d descriptors made the responder transmit %d frames; a maximum-size Emit at MTU %d requests at most %d' % (n, nsend, mtu, cap + 1)))
        if not (1 <= n <= cap) or mapper is None or mapper[0] != d['rsrc']: continue
        descs = [buf[34 + 14 * j: 48 + 14 * j] for j in range(n)]
        if any(x[0] not in (0, 1) for x in descs): continue
        # what the property prescribes: per descriptor a pause and a 32-byte Probe/Train with the descriptor's source and
        # destination as Ethernet addresses and the own address as real source; then one ACK to the mapper with the Emit's
        # sequence number.  Fields the property leaves open (real destination and sequence number of a Probe) are not compared.
        def shape(a):
            if a[0] == 'sleep': return ('sleep', a[1])
            f = dec(a[2])
            if f is None: return ('send', 'runt')
            if f['opc'] == 5: return ('ack', f['edst'], f['rdst'], f['rsrc'], f['seq'], len(a[2]))
            return ('send', f['opc'], f['edst'], f['esrc'], f['rsrc'], len(a[2]))
        want = []
        for x in descs:
            want.append(('sleep', x[1]))
            want.append(('send', 4 if x[0] == 1 else 3, bytes(x[8:14]), bytes(x[2:8]), own, 32))
        want.append(('ack', mapper[1], mapper[0], own, d['seq'], 32))
        got = [shape(a) for a in acts]
        # "addressed to the mapper": real destination = the mapper; at Ethernet level the address the session was opened
        # from, the one this Emit came from, any other one a frame of the mapper came from in this session, or the mapper's own are all the mapper
        if got and got[-1][0] == 'ack' and (got[-1][1] in (mapper[1], d['esrc'], mapper[0]) or got[-1][1] in paths): got[-1] = ('ack', mapper[1]) + got[-1][2:]
        if got != want:
            k = next((j for j in range(min(len(got), len(want))) if got[j] != want[j]), min(len(got), len(want)))
            fmt = lambda t: tuple(v.hex() if isinstance(v, bytes) else v for v in t)
            fails.append((i, 'Emit with %d descriptors: port call %d is %s, must be %s (%d calls made, %d prescribed)' % (
                n, k, fmt(got[k]) if k < len(got) else 'missing', fmt(want[k]) if k < len(want) else 'nothing', len(got), len(want))))
    return fails
def count(name, lines, ib, stats, meta):
    mtu = 1500
    for b in ib:
        if b.op.startswith('cfg 0'): mtu = int(dict(t.split('=', 1) for t in b.op.split()[2:])['mtu'])
        if not b.op.startswith('frame 0 '): continue
        ctx, fr = frame_of(b); d = dec(rxview(b, fr))
        if d['opc'] != 2: continue
        stats['evaluations'] += 1
        cap = (mtu - 34) // 14; n = (d['body'][0] << 8) | d['body'][1]
        ccls = n if n <= 3 else 'cap-1' if n == cap - 1 else 'cap' if n == cap else 'cap+' if n <= cap + 2 else 'big' if n > cap else 'mid'
        kinds = tuple(sorted(set(fr[34 + 14 * j] for j in range(min(n, (len(fr) - 34) // 14)))))
        stats['distinct'].add((ccls, 576 if mtu == 576 else 1500 if mtu == 1500 else 9216 if mtu == 9216 else 'r', kinds, d['esrc'] != d['rsrc']))
        if len(stats['samples']) < 4 and 1 < n <= 3: stats['samples'].append({'declared': n, 'mtu': mtu, 'port_calls': [a[:70] for a in b.acts]})
EXPLORE = dict(domain='frames', ops=('frame',), mtu=True)
