"""C09 - a topology Reset returns the responder to fresh-start behaviour."""
from props.base import *
from props.blk import *
COQ_TARGETS = ['props/Properties_C09.vo']
RULE = ('pairs (h . Reset . c  on interface 0,  c alone on a never-used interface 1 with the same configuration) in one process: histories h ending with a cached icon, pending observations, '
        'both generations set, a foreign or bridged mapper, a half-drained observation list; continuations c with Discovers of both services and generations incl. 0, Emit, Probe, Query, '
        'QueryLargeTlv (cached properties), noise; oracle: per-frame port calls on both interfaces identical byte for byte. distinct = distinct (last opcodes of h, first opcodes of c) classes')
def scenarios(rng, tier):
    s = Scn(); n = 50 if tier == 'quick' else 1500
    for k in range(n):
        base_cfg = rand_cfg(rng, 0) if k % 2 else Cfg(0, mtu=rng.choice([576, 1500]))
        c1 = Cfg(1, **dict(base_cfg.d))
        own = base_cfg.own(); mtu = base_cfg.d['mtu']
        icon = bytes(rng.randrange(256) for _ in range(rng.choice([10, 600, 3000])))
        s.start('reset_%d' % k); s.lines.append(base_cfg.line()); s.lines.append(c1.line())
        noicon = (k % 5 == 3)          # no icon (the getter fails) or an empty one before the Reset, asked for; a real one afterwards
        s.lines.append(gline(host=b'host', icon=(None if k % 10 == 3 else b'') if noicon else icon, fname=b'friendly', hwid=b'\x01\x02\x03\x04'))
        st = [mac(i) for i in range(1, 5)]
        if noicon: s.frame(0, discover(st[0], gen=3)); s.frame(0, qlt(st[0], own, 14, 0, seq=2))
        if rng.random() < 0.35:      # observations recorded before any mapper is known
            for t in range(rng.choice([1, 2, 4])): s.frame(0, probe(mac(400 + t), own, mac(400 + t), own, train=t % 2 == 0))
        if rng.random() < 0.85:
            h = Scn(); session(rng, h, 0, base_cfg, st, n_ops=rng.choice([5, 25, 60]), noise=0.1, icon_len=len(icon))
            s.lines += h.lines
        # make the tail of h interesting
        M = rng.choice(st)
        for t in range(rng.choice([0, 1, 3])):
            r = rng.random()
            if r < 0.3: s.frame(0, qlt(M, own, 14, 0, seq=5))
            elif r < 0.6: s.frame(0, probe(mac(300 + t), own, mac(300 + t), own))
            elif r < 0.8: s.frame(0, discover(M, tos=rng.choice([0, 1]), gen=rng.randrange(1, 65536), esrc=mac(60)))
            else: s.frame(0, query(M, own, seq=9))
        if rng.random() < 0.4: s.frame(0, reset(rng.choice(st), tos=1))      # the quick-discovery service ended first
        s.frame(0, reset(rng.choice(st), tos=0))
        c = Scn(); session(rng, c, 0, base_cfg, st, n_ops=rng.choice([5, 20, 40]), noise=0.1, icon_len=len(icon))
        # the icon may differ now: the cache must not leak
        if noicon:
            s.lines.append(gline(host=b'host', icon=icon, fname=b'friendly', hwid=b'\x01\x02\x03\x04'))
            for f_ in (discover(st[1], gen=4), qlt(st[1], own, 14, 0, seq=3), qlt(st[1], own, 14, 100, seq=4)):
                s.frame(0, f_); s.frame(1, f_)
        elif rng.random() < 0.5: s.lines.append(gline(host=b'host', icon=bytes(reversed(icon)), fname=b'friendly', hwid=b'\x01\x02\x03\x04'))
        for l in c.lines:
            t = l.split()
            s.lines.append(l)
            s.lines.append(' '.join([t[0], '1'] + t[2:]))
    for k in range(20 if tier == 'quick' else 400):
        base_cfg = Cfg(0, mtu=rng.choice([576, 1500])); c1 = Cfg(1, **dict(base_cfg.d)); own = base_cfg.own(); M = mac(1)
        s.start('swap_%d' % k); s.lines.append(base_cfg.line()); s.lines.append(c1.line())
        first_icon = rng.choice([b'', b'', bytes(range(100))])
        s.lines.append(gline(host=b'h', icon=first_icon, fname=b'n'))
        G = rng.choice([0x1234, 0x00FF, 0x3412, rng.randrange(1, 65536)]); Gs = ((G & 255) << 8) | (G >> 8)
        t1 = rng.choice([0, 1]); s.frame(0, discover(M, tos=t1, gen=G, seq=3)); s.frame(0, discover(M, tos=1 - t1, gen=Gs, seq=3))
        s.frame(0, qlt(M, own, 14, 0, seq=4)); s.frame(0, probe(mac(70), own, mac(70), own))
        if rng.random() < 0.5: s.frame(0, reset(M, tos=1))
        s.lines.append(gline(host=b'h', icon=bytes(range(200)) + bytes(range(100)), fname=b'n'))
        s.frame(0, reset(M, tos=0))
        for fr in (discover(M, tos=t1, gen=Gs, seq=9), discover(M, tos=1 - t1, gen=G, seq=9), discover(M, tos=1, gen=Gs, seq=10), qlt(M, own, 14, 0, seq=11), query(M, own, seq=12), qlt(M, own, 14, 100, seq=13, tos=1)):
            s.frame(0, fr); s.frame(1, fr)
    return [(s.text(), {})]
def project(blk, name, meta):
    # kinds and sizes of the frames sent per received frame (the byte-for-byte comparison the property asks for is made
    # between the two interfaces of the implementation itself, see oracle)
    if blk.fault: return ('fault',)
    if blk.op.startswith('frame'): return tuple((o[17] if len(o) >= 18 else -1, len(o)) for _, _, o in blk.sends())
    return ()
def strip_ctx(acts):
    r = []
    for a in acts:
        t = a.split()
        r.append((t[0], t[2:]) if t[0] == 'send' else tuple(t))
    return r
def oracle(name, ib, mb, meta):
    fails = []; seen_reset = False; prev = None
    for i, b in enumerate(ib):
        if not b.op.startswith('frame') or b.fault: continue
        t = b.op.split()
        if not seen_reset:
            d = dec(bytes.fromhex(t[3]) + bytes(36)) if t[3] != '-' else None
            # the Reset that ends h is the last ctx-0 frame before the paired part; detect the pairing by the ctx-1 frames
            if t[1] == '1': seen_reset = True
        if t[1] == '1' and prev is not None and prev[0].split()[2:] == t[2:]:
            a0, a1 = strip_ctx(prev[1]), strip_ctx(b.acts)
            if a0 != a1:
                fails.append((i, 'after the Reset the responder reacts to "%s..." with %s, a freshly started one with %s' % (t[3][:44], [x[0] for x in a0] or 'nothing', [x[0] for x in a1] or 'nothing')
                              if [x[0] for x in a0] != [x[0] for x in a1] else 'after the Reset the reaction to "%s..." differs in content from that of a freshly started responder' % t[3][:44]))
        prev = (b.op, b.acts) if t[1] == '0' else None
    return fails
def count(name, lines, ib, stats, meta):
    stats['evaluations'] += 1
    ops = [bytes.fromhex(l.split()[3])[17] if l.startswith('frame') and len(l.split()) > 3 and len(l.split()[3]) >= 36 else None for l in lines]
    idx = next((i for i, l in enumerate(lines) if l.startswith('frame 1')), len(lines))
    stats['distinct'].add((tuple(o for o in ops[max(0, idx - 5):idx - 1] if o is not None)[-3:], tuple(o for o in ops[idx:idx + 6:2] if o is not None)))
    if len(stats['samples']) < 3: stats['samples'].append({'scenario': name, 'history_frames': idx, 'continuation_frames': (len(lines) - idx) // 2})
EXPLORE = dict(ops=('frame',), mtu=True, oracle=False)
