"""C13 - RepeatBand back-off."""
from props.base import *
import subprocess
COQ_TARGETS = ['props/Properties_C13.vo']
EXPECT_KEYS = {'ni'}
RULE = ('band_update_stats on boundary-dense r (0, 1, 14, 15, 9769, 9770, 65535, 65536, 2^31, 2^32-1, powers of two +-1, random) x begun x prior counts, '
        'followed by band_choose_hello_time; thorough tier: every r in [0, 2^32) through the real band_update_stats (harness/bandsweep.c); '
        'non-trivial = distinct (r, begun) with r > 0 and begun')
def rs(rng, n):
    l = [0, 1, 2, 3, 9, 10, 11, 14, 15, 16, 100, 148, 149, 150, 9769, 9770, 9771, 65535, 65536, 65537, 92681, 92682, 131072,
         2**31 - 1, 2**31, 2**31 + 1, 2**32 - 2, 2**32 - 1, 3037000499 % 2**32, 308, 309, 30841, 95443, 95444]
    for k in range(1, 32): l += [2**k - 1, 2**k, 2**k + 1]
    l += [rng.randrange(2**32) for _ in range(n)] + [rng.randrange(70000) for _ in range(n)]
    return [x for x in l if 0 <= x < 2**32]
def scenarios(rng, tier):
    s = Scn()
    n = 100 if tier == 'quick' else 20000
    vals = rs(rng, n)
    per = 200
    for i in range(0, len(vals), per):
        s.start('band_%d' % (i // per)); s.op('mk 0'); s.op('adv', rng.randrange(100000))
        for r in vals[i:i + per]:
            begun = 1 if rng.random() < 0.8 else 0
            s.op('band_set 0', r, rng.choice([45, 45, 10000, 180, 4500]), begun)
            s.op('band_update 0'); s.op('band_choose 0')
    # hello counting up to the GAMMA threshold
    s.start('band_count'); s.op('mk 0'); s.op('band_init 0')
    for i in range(25): s.op('band_hello 0')
    s.op('band_update 0'); s.op('band_choose 0'); s.op('band_do_hello 0')
    return [(s.text(), {})]
def project(blk, name, meta):
    return project_keys(blk, ['ni', 'r', 'begun', 'hts', 'bts', 'ret'])
def count(name, lines, ib, stats, meta):
    for i, b in enumerate(ib):
        if b.op.startswith('band_set'):
            t = b.op.split(); stats['evaluations'] += 1
            if int(t[2]) > 0 and t[4] == '1': stats['distinct'].add((t[2], t[4]))
            if len(stats['samples']) < 6 and int(t[2]) > 65535 and i + 1 < len(ib):
                stats['samples'].append({'r': int(t[2]), 'begun': t[4], 'Ni_after': ib[i + 1].kv.get('ni')})
def extra_checks(tier, seed):
    if tier != 'thorough': return {}
    exe = os.path.join(V.BUILD, 'bandsweep')
    inc = os.path.join(V.REPO, 'lltdResponder')
    rc, out = V.sh(['gcc', '-O2', '-w', '-fopenmp', '-I' + inc, '-o', exe, os.path.join(V.VERIF, 'harness/bandsweep.c'), os.path.join(inc, 'lltdAutomata.c')])
    if rc != 0: raise V.BuildError('bandsweep does not compile', out)
    rc, out = V.sh([exe], timeout=3000)
    res = {'evaluations': 2**32, 'distinct': 2**32 - 1, 'exhaustive': True, 'sweep_output': out.strip()[-300:]}
    if rc != 0:
        res['failures'] = ['exhaustive sweep of band_update_stats over r in [0,2^32): ' + out.strip()[-500:]]
    return res
