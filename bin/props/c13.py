"""C13 - RepeatBand back-off."""
from props.base import *
import subprocess
NEEDS_VIEW = True     # reads the public fields of the automata objects
COQ_TARGETS = ['props/Properties_C13.vo', 'props/Properties_C13h.vo']
EXPECT_KEYS = {'ni'}
RULE = ('band_update_stats on boundary-dense r (0, 1, 14, 15, 9769, 9770, 65535, 65536, 2^31, 2^32-1, powers of two +-1, random) x begun x prior counts, '
        'followed by band_choose_hello_time; thorough tier: every r in [0, 2^32) through the real band_update_stats (harness/bandsweep.c); '
        'non-trivial = distinct (r, begun) with r > 0 and begun')
def rs(rng, n):
    l = [0, 1, 2, 3, 9, 10, 11, 14, 15, 16, 100, 148, 149, 150, 9769, 9770, 9771, 65535, 65536, 65537, 92681, 92682, 131072,
         2**31 - 1, 2**31, 2**31 + 1, 2**32 - 2, 2**32 - 1, 3037000499 % 2**32, 308, 309, 30841, 95443, 95444]
    for k in range(1, 32): l += [2**k - 1, 2**k, 2**k + 1]
    l += [rng.randrange(2**32) for _ in range(n)] + [rng.randrange(70000) for _ in range(n)]
    return [x for x in l if 0 <= x < 2**32]
def scenarios(rng, tier):
    s = Scn()
    n = 100 if tier == 'quick' else 20000
    vals = rs(rng, n)
    per = 200
    for i in range(0, len(vals), per):
        s.start('band_%d' % (i // per)); s.op('mk 0'); s.op('adv', rng.randrange(100000))
        for r in vals[i:i + per]:
            begun = 1 if rng.random() < 0.8 else 0
            s.op('band_set 0', r, rng.choice([45, 45, 10000, 180, 4500]), begun)
            s.op('band_update 0'); s.op('band_choose 0')
    # counters beyond 16 bits (a field narrowed to uint16_t wraps them): the count stays at its maximum, monotone
    s.start('band_wide'); s.op('mk 0'); s.op('adv 1000')
    for r in (65535, 65536, 65537, 65536 + 14, 65536 + 15, 131072, 2 ** 24, 2 ** 31, 2 ** 32 - 1):
        for ni0 in (45, 10000):
            s.op('band_set 0', r, ni0, 1); s.op('band_update 0'); s.op('band_choose 0')
    # more Hellos in one block than 16 bits count: the counter must not wrap (then a flood looks like silence)
    s.start('band_many'); s.op('mk 0'); s.op('adv 1000'); s.op('band_init 0')
    for i in range(65536 + 20): s.op('band_hello 0')
    s.op('band_update 0'); s.op('band_choose 0')
    # hello counting up to the GAMMA threshold
    s.start('band_count'); s.op('mk 0'); s.op('band_init 0')
    for i in range(25): s.op('band_hello 0')
    s.op('band_update 0'); s.op('band_choose 0'); s.op('band_do_hello 0')
    # "after enumeration has begun": by the responder's own first Hello, or by load - GAMMA Hellos heard in one block; exactly
    # GAMMA-1, GAMMA, GAMMA+1 heard while it has not begun, then the block ends
    for nh in (8, 9, 10, 11, 12, 20):
        s.start('load_%d' % nh); s.op('mk 0'); s.op('adv', 4000); s.op('band_init 0')
        for i in range(nh): s.op('band_hello 0')
        s.op('band_update 0'); s.op('band_choose 0')
    # two mappers: the second one's Discover arrives right after the first one's session completed (Wait -> Pausing again)
    for k in range(10 if tier == 'quick' else 300):
        s.start('twomap_%d' % k); s.op('mk 0'); s.op('adv', 1000 + rng.randrange(4000)); A, Bm = mac(1), mac(2); own = bytes([2, 0, 0, 0, 0, 0x10])
        s.flow(0, discover(A, gen=1, seq=1, stations=[mac(9)]))
        for i in range(rng.choice([3, 5, 12])): s.op('adv', 100); s.op('tick 0')
        s.flow(0, discover(A, gen=1, seq=2, stations=[own]))
        if rng.random() < 0.3: s.op('adv', 100); s.op('tick 0')
        s.flow(0, discover(Bm, gen=1, seq=1, stations=[mac(9)]))
        for i in range(40):
            s.op('adv', rng.choice([100, 100, 50]))
            if rng.random() < 0.4:
                for j in range(rng.choice([1, 3, 8])): s.flow(0, hello(mac(30 + j), gen=1))
            s.op('tick 0')
    # the same at the end of enumeration blocks as the periodic tick reaches them (block time 300 ms, ticks every 100 ms,
    # Hello deadline and block deadline falling into the same tick or not, bursts of Hellos heard in some blocks)
    for k in range(40 if tier == 'quick' else 2000):
        s.start('tick_%d' % k); s.op('mk 0'); s.op('adv', 1000 + rng.randrange(5000))
        s.op('st_add 0', hx(mac(1)), 1, 1); s.op('ss_enum 0 3'); s.op('band_init 0'); s.op('band_choose 0')
        step = rng.choice([100, 100, 50, 150, 300, 400, 700, 1100])
        for i in range(rng.choice([30, 60])):
            s.op('adv', step)
            if rng.random() < 0.35:
                for j in range(rng.choice([1, 2, 5, 12, 20, 40])): s.op('band_hello 0')
            if rng.random() < 0.1: s.op('st_add 0', hx(mac(1)), 1, rng.randrange(3))
            s.op('tick 0')
    return [(s.text(), {})]
def oracle(name, ib, mb, meta):
    fails = []; now = 0; pre = None; heard = 0
    F = V.facts(); NMAX, ALPHA, BETA, TXC, GAMMA, MULF = F.get('BAND_NMAX', 10000), F.get('BAND_ALPHA', 45), F.get('BAND_BETA', 2), F.get('BAND_TXC', 4), F.get('BAND_GAMMA', 10), F.get('BAND_MUL_FRAME_1', 6)
    NMAXd, ALPHAd = 10000, 45          # the documented constants of the property
    for i, b in enumerate(ib):
        if b.fault: break
        if 'now' in b.kv: now = int(b.kv['now'])
        if b.op.startswith('tick') and pre is not None and all(k in pre for k in ('r', 'begun', 'bts')) and 'ni' in b.kv:
            r, begun, bts = int(pre['r']), pre['begun'] == '1', int(pre['bts'])
            if r > 0 and begun and 0 < bts <= now and b.kv.get('r') == '0' and b.kv.get('enum', '').startswith('1'):
                ni = int(b.kv['ni']); want = min(NMAXd, ALPHAd * r * r)
                if ni != want: fails.append((i, 'block ended with r=%d Hellos heard: repetition count %d, formula min(NMAX, ALPHA*r^2) gives %d' % (r, ni, want)))
                interval = -(-(4 * ni * 20) // 30)
                hts = int(b.kv.get('hts', 0))
                if hts and hts < now + max(interval, 6):
                    fails.append((i, 'block ended with r=%d (count %d) at %d ms: next Hello scheduled at %d ms, the load formula allows it no sooner than %d ms' % (r, ni, now, hts, now + max(interval, 6))))
        if b.op.startswith(('band_init', 'mk')): heard = 0
        elif b.op.startswith('band_update'):
            if name.startswith('band_many') and heard >= 15 and b.kv.get('ni') not in (None, str(NMAXd)):
                fails.append((i, 'block with %d Hellos heard ended with repetition count %s, the formula gives NMAX = %d' % (heard, b.kv.get('ni'), NMAXd)))
            heard = 0
        elif b.op.startswith('band_hello') and 'begun' in b.kv:
            heard += 1
            if name.startswith('band_many') and 'r' in b.kv and int(b.kv['r']) != heard and not any('counter of Hellos' in m for _, m in fails):
                fails.append((i, 'the counter of Hellos heard in this block reads %s after %d Hellos' % (b.kv['r'], heard)))
            if heard >= 10 and b.kv['begun'] != '1':
                fails.append((i, '%d Hellos heard in one block (GAMMA = 10) and enumeration is still not marked as begun: the count of this block will not enter the repetition count' % heard))
        if b.op.startswith(('tick', 'flow')) and b.kv.get('enum', '').startswith('1') and b.kv.get('bts') == '0' and b.kv.get('hts') not in (None, '0'):
            fails.append((i, 'enumerating (Hellos are being scheduled) but no block deadline is armed: the block never ends and the repetition count never follows the load'))
        if any(k in b.kv for k in ('r', 'bts')): pre = b.kv
    return fails
def project(blk, name, meta):
    return project_keys(blk, ['ni', 'r', 'begun', 'hts', 'bts', 'ret'])
def count(name, lines, ib, stats, meta):
    for i, b in enumerate(ib):
        if b.op.startswith('band_set'):
            t = b.op.split(); stats['evaluations'] += 1
            if int(t[2]) > 0 and t[4] == '1': stats['distinct'].add((t[2], t[4]))
            if len(stats['samples']) < 6 and int(t[2]) > 65535 and i + 1 < len(ib):
                stats['samples'].append({'r': int(t[2]), 'begun': t[4], 'Ni_after': ib[i + 1].kv.get('ni')})
def extra_checks(tier, seed):
    if tier != 'thorough': return {}
    exe = os.path.join(V.BUILD, 'bandsweep')
    inc = os.path.join(V.REPO, 'lltdResponder')
    rc, out = V.sh(['gcc', '-O2', '-w', '-fopenmp', '-I' + inc, '-o', exe, os.path.join(V.VERIF, 'harness/bandsweep.c'), os.path.join(inc, 'lltdAutomata.c')])
    if rc != 0: raise V.BuildError('bandsweep does not compile', out)
    rc, out = V.sh([exe], timeout=3000)
    res = {'evaluations': 2**32, 'distinct': 2**32 - 1, 'exhaustive': True, 'sweep_output': out.strip()[-300:]}
    if rc != 0:
        res['failures'] = ['exhaustive sweep of band_update_stats over r in [0,2^32): ' + out.strip()[-500:]]
    return res
EXPLORE = dict(oracle=False, skip_ops=('set_map', 'set_sess', 'set_enum', 'band_set'), ops=('flow', 'tick', 'adv', 'band_hello', 'band_choose', 'band_update', 'band_do_hello', 'st_add'), mtu=False, num={'adv': {1: (0, 70000)}})
