"""C10 - probes emitted by one responder are observed by a peer responder."""
from props.base import *
from props.blk import *
COQ_TARGETS = ['props/Properties_C10.vo']
RULE = ('two instances in one process (interface 0 = emitter A, interface 1 = observer B, arbitrary distinct addresses, different MTUs): the mapper orders A to emit 1..6 Probe/Train '
        'descriptors towards B (and some towards other stations), every frame A transmits is delivered unmodified to B (relay), interleaved with unrelated traffic on both; B is then queried. '
        'Oracle: for every descriptor aimed at B, B\'s next QueryResp lists (kind, real source = A, Ethernet source = descriptor source, Ethernet destination = B) exactly once; descriptors aimed '
        'elsewhere are not listed. distinct = distinct (descriptor count, kinds, unrelated-traffic class) tuples')
def scenarios(rng, tier):
    s = Scn(); n = 50 if tier == 'quick' else 1500
    for k in range(n):
        A = bytes([2, 0xAA, 0, 0, rng.randrange(256), rng.randrange(256)]); B = bytes([2, 0xBB, 0, rng.randrange(256), 0, rng.randrange(256)])
        cA = Cfg(0, mac=A, mtu=rng.choice([576, 1500, 9216])); cB = Cfg(1, mac=B, mtu=rng.choice([576, 1500, 1500, 9216]))
        s.start('peer_%d' % k); s.lines.append(cA.line()); s.lines.append(cB.line())
        M = mac(1)
        s.frame(0, discover(M, gen=5, stations=[])); s.frame(1, discover(M, gen=5, stations=[]))
        for rnd in range(rng.choice([1, 2])):
            nd = rng.choice([1, 2, 3, 6])
            descs = []
            for j in range(nd):
                dst = B if rng.random() < 0.75 else rng.choice([mac(77), BCAST, A])
                src_ = rng.choice([A, mac(1000 + 10 * rnd + j), mac(2000 + j)]) if rng.random() < 0.8 else A
                if k % 4 == 3: src_ = TWINS[(j + 3 * rnd) % 7]              # emitted sources that differ in a single octet
                descs.append((rng.choice([0, 1]), rng.choice([0, 1, 20]), src_, dst))
            if rng.random() < 0.4: s.frame(1, probe(mac(500), B, mac(500), B))          # unrelated observation at B
            if rng.random() < 0.3: s.frame(1, reset(mac(rng.choice([1, 9])), tos=1))       # a quick-discovery Reset seen by B: the observation log must not care
            if rng.random() < 0.15: s.frame(1, hello(mac(9), tos=1))
            s.frame(0, emit(M, A, descs, seq=rng.randrange(1, 65536)))
            s.op('relay 0 1', rng.choice(['00', 'ff']))
            if rng.random() < 0.4: s.frame(1, hello(mac(9)))
            if rng.random() < 0.3: s.frame(1, discover(M, gen=5))
            if rng.random() < 0.3: s.frame(1, generic(rng.randrange(256), 2, M, M, B, B))
            s.frame(1, query(M, B, seq=rng.randrange(1, 65536)))
            if rng.random() < 0.5: s.frame(1, query(M, B, seq=rng.randrange(1, 65536)))
    for k in range(6 if tier == 'quick' else 60):
        A = bytes([2, 0xAA, 0, 0, 3, k & 255]); Bm = bytes([2, 0xBB, 0, 0, 3, k & 255])
        s.start('rerun_%d' % k); s.lines.append(Cfg(0, mac=A).line()); s.lines.append(Cfg(1, mac=Bm).line())
        M = mac(1); descs = [(k % 2, 0, mac(4000 + j), Bm) for j in range(1 + k % 3)]
        s.frame(0, discover(M, gen=5)); s.frame(1, discover(M, gen=5))
        s.frame(0, emit(M, A, descs, seq=7)); s.op('relay 0 1 00')
        # the run ends without B having been asked; the next run repeats the very same emission
        s.frame(1, reset(M, tos=0)); s.frame(0, reset(M, tos=0))
        s.frame(0, discover(M, gen=6)); s.frame(1, discover(M, gen=6))
        s.frame(0, emit(M, A, descs, seq=8)); s.op('relay 0 1 00')
        s.frame(1, query(M, Bm, seq=9))
    for k in range(16 if tier == 'quick' else 300):
        A = bytes([2, 0xAA, 0, 0, 1, k & 255]); Bm = bytes([2, 0xBB, 0, 0, 2, k & 255]); mb = rng.choice([594, 1494, 1514, 576, 614])
        cA = Cfg(0, mac=A, mtu=1500); cB = Cfg(1, mac=Bm, mtu=mb); capb = (mb - 34) // 20
        s.start('edge_%d' % k); s.lines.append(cA.line()); s.lines.append(cB.line())
        M, M2 = mac(1), mac(2); s.frame(0, discover(M, gen=5)); s.frame(1, discover(M, gen=5))
        nd = rng.choice([capb, capb, capb - 1, 3])
        for off in range(0, nd, 50):
            descs = [(rng.choice([0, 1]), 0, mac(3000 + off + j), Bm) for j in range(min(50, nd - off))]
            s.frame(0, emit(M, A, descs, seq=7)); s.op('relay 0 1 00')
        var = k % 4
        if var == 1: s.frame(1, reset(mac(9), tos=1)); s.frame(1, discover(M2, gen=6))           # another mapper takes over after a quick Reset
        if var == 2: s.op('failalloc 1'); s.frame(1, query(M, Bm, seq=8)); s.op('failalloc clear')   # the response buffer cannot be allocated: the mapper asks again
        mq = M2 if var == 1 else M
        for q in range(3): s.frame(1, query(mq, Bm, seq=9 + q))
    return [(s.text(), {})]
def project(blk, name, meta):
    # B's QueryResps as sets of observations; everything else by the kinds of frames sent
    if blk.fault: return ('fault',)
    if blk.op.startswith('frame 1'):
        d = frame_hdr(blk)
        if d and d['tos'] == 0 and d['opc'] == 6:
            r = []
            for _, _, o in blk.sends():
                q = qresp_fields(o)
                r.append((q['more'], tuple(sorted(q['descs']))) if q else o)
            return tuple(r)
    if blk.op.startswith(('frame', 'relay')): return send_opcodes(blk)
    return ()
def oracle(name, ib, mb, meta):
    fails = []; A = B = None; expect = {}; unexpected = set(); faulty = False; mapperB = None
    for i, b in enumerate(ib):
        if b.op.startswith('cfg 0'): A = bytes.fromhex(dict(t.split('=', 1) for t in b.op.split()[2:])['mac'])
        if b.op.startswith('cfg 1'): B = bytes.fromhex(dict(t.split('=', 1) for t in b.op.split()[2:])['mac'])
        if b.op.startswith('failalloc'): faulty = 'clear' not in b.op
        if b.fault or not b.op.startswith('frame'): continue
        ctx, fr = frame_of(b); d = dec(rxview(b, fr))
        if faulty:
            # while an allocation is made to fail nothing is demanded; but what B does report then counts as reported
            if ctx == 1 and d['tos'] == 0 and d['opc'] == 6:
                sn = sends_of(b); q = qresp_fields(sn[0][2]) if sn else None
                for (t, rs, es, ed) in (q['descs'] if q else []): expect.pop((es, rs), None)
            continue
        if ctx == 0 and d['tos'] == 0 and d['opc'] == 2:
            n = (fr[32] << 8) | fr[33]
            for j in range(n):
                x = fr[34 + 14 * j: 48 + 14 * j]
                if len(x) < 14 or x[0] not in (0, 1): continue
                key = (bytes(x[2:8]), A)
                if bytes(x[8:14]) == B:
                    if key not in expect: expect[key] = (x[0], A, bytes(x[2:8]), B)
                else: unexpected.add(key)
        elif ctx == 1 and d['tos'] in (0, 1) and d['opc'] == 0 and mapperB is None: mapperB = d['rsrc']
        elif ctx == 1 and d['tos'] in (0, 1) and d['opc'] == 8: mapperB = None        # a Reset of either discovery service releases the mapper (C05)
        elif ctx == 1 and d['tos'] == 0 and d['opc'] == 6:
            sn = sends_of(b); q = qresp_fields(sn[0][2]) if sn else None
            if q is None: continue
            if mapperB is not None and d['rsrc'] != mapperB:
                # a Query of a station that is not B's mapper: whether it is served is left open; what it is told counts as reported
                for (t, rs, es, ed) in q['descs']: expect.pop((es, rs), None)
                continue
            listed = {(es, rs): (t, rs, es, ed) for (t, rs, es, ed) in q['descs']}
            if not q['more']:
                for key, val in expect.items():
                    if key not in listed: fails.append((i, 'frame emitted by A (%s) from %s towards B is missing from B\'s QueryResp' % (A.hex(), key[0].hex())))
                    elif listed[key] != val: fails.append((i, 'B reports the emitted frame as %r, A sent %r' % (listed[key][0], val[0])))
                for key in unexpected - set(expect):
                    if key in listed: fails.append((i, 'B lists a frame A emitted towards another station (%s)' % key[0].hex()))
                expect.clear(); unexpected.clear()
            else:
                for key in list(expect):
                    if key in listed: del expect[key]
    return fails
def count(name, lines, ib, stats, meta):
    for b in ib:
        if b.op.startswith('frame 0'):
            ctx, fr = frame_of(b); d = dec(rxview(b, fr))
            if d['opc'] == 2:
                stats['evaluations'] += 1
                n = (fr[32] << 8) | fr[33]
                stats['distinct'].add((n, tuple(fr[34 + 14 * j] for j in range(n)), len(b.acts)))
                if len(stats['samples']) < 3: stats['samples'].append({'descriptors': n, 'emitter_calls': [a[:60] for a in b.acts][:6]})
EXPLORE = dict(ops=('frame', 'relay'), mtu=True, oracle=False)
