"""C17 - interfaces are isolated from each other, also when served concurrently."""
from props.base import *
from props.blk import *
import os, re
COQ_TARGETS = ['props/Properties_C17.vo']
RULE = ('sequential: pairs of histories (h1 on interface 0, h2 on interface 1; same or different addresses and MTUs; sessions, floods, Resets, noise) run alone and in 3 random interleavings each; '
        'oracle: the per-frame port calls of each interface in the interleaving equal those of its history alone. Concurrent: the working-tree core under ThreadSanitizer, two threads released by a '
        'barrier, first frame each (and longer per-thread histories), repeated; every reported data race is attributed by its two access sites: the registry (lltd_state_for_iface) is the listed '
        'known finding, any other site is a violation; a lost interface record (a third record allocation) is counted. distinct = distinct interleaving shapes + distinct race site pairs')
_alone = {}
def scenarios(rng, tier):
    _alone.clear()
    s = Scn(); n = 25 if tier == 'quick' else 600
    st = [mac(i) for i in range(1, 5)]
    for k in range(n):
        c0 = rand_cfg(rng, 0); c1 = rand_cfg(rng, 1)
        if rng.random() < 0.5: c1.d['mac'] = c0.d['mac']
        icon = bytes(rng.randrange(256) for _ in range(rng.choice([0, 100, 2000])))
        head = [c0.line(), c1.line(), gline(host=b'h', icon=icon, fname=b'n', hwid=b'x')]
        h0 = Scn(); session(rng, h0, 0, c0, st, n_ops=rng.choice([8, 30]), noise=0.15, icon_len=len(icon))
        h1 = Scn(); session(rng, h1, 1, c1, st, n_ops=rng.choice([8, 30]), noise=0.15, icon_len=len(icon))
        s.start('iso_%d~a0' % k); s.lines += head + h0.lines
        s.start('iso_%d~a1' % k); s.lines += head + h1.lines
        for j in range(3):
            a, b = list(h0.lines), list(h1.lines); mix = []
            while a or b:
                if a and (not b or rng.random() < 0.5): mix.append(a.pop(0))
                else: mix.append(b.pop(0))
            s.start('iso_%d~m%d' % (k, j)); s.lines += head + mix
    M = mac(1)
    for k in range(10 if tier == 'quick' else 200):
        # h0 / h1 built by hand: each interface also receives probes whose real destination is the OTHER interface's address
        m0, m1 = bytes([2, 0xA0, 0, 0, 0, k & 255]), bytes([2, 0xB0, 0, 0, 0, k & 255])
        head = [Cfg(0, mac=m0).line(), Cfg(1, mac=m1).line(), Cfg(2, mac=bytes([2, 0xC0, 0, 0, 0, 1])).line()]
        big = (k % 5 == 0)
        def hist(c, me, other):
            h = Scn(); h.frame(c, discover(M, gen=1))
            n_ = (1024 if c == 0 else 600) if big else rng.choice([3, 8])
            for i in range(n_):
                h.frame(c, probe(mac(500 + 1000 * c + i), me, mac(500 + 1000 * c + i), me))
                if not big and rng.random() < 0.5: h.frame(c, probe(mac(900 + i), other, mac(900 + i), other))
            if rng.random() < 0.5: h.lines.append('cfg %d mac=%s macfail=1' % (c, me.hex())); h.frame(c, probe(mac(950), me, mac(950), me)); h.lines.append('cfg %d mac=%s macfail=0' % (c, me.hex()))
            for q_ in range(12 if big else 2): h.frame(c, query(M, me, seq=5 + q_))      # drained completely
            return h.lines
        h0, h1 = hist(0, m0, m1), hist(1, m1, m0)
        h2 = ['frame 2 00 ' + hx(discover(M, gen=1))]
        s.start('xaddr_%d~a0' % k); s.lines += head + h0
        s.start('xaddr_%d~a1' % k); s.lines += head + h1
        for j in range(2):
            a, b = list(h0), list(h1); mix = []; third = list(h2)
            while a or b:
                r_ = rng.random()
                if third and r_ < 0.05: mix.append(third.pop(0))
                elif a and (not b or r_ < 0.5):
                    # keep a cfg/frame/cfg triple together
                    mix.append(a.pop(0))
                    while a and (mix[-1].startswith('cfg') or (a[0].startswith('cfg') and 'macfail=0' in a[0])): mix.append(a.pop(0))
                    if mix[-1].startswith('cfg') and 'macfail=1' in mix[-1] and third: mix.append(third.pop(0)); 
                else:
                    mix.append(b.pop(0))
                    while b and (mix[-1].startswith('cfg') or (b[0].startswith('cfg') and 'macfail=0' in b[0])): mix.append(b.pop(0))
            if big and j == 0:
                # one interface's whole history while the other one is holding its full, unreported list
                cut = next(i for i, l in enumerate(h0) if '88d90100000602' in l or l.split()[-1][34:36] == '06')
                mix = h0[:cut] + h1 + h0[cut:]
            s.start('xaddr_%d~m%d' % (k, j)); s.lines += head + mix
    # one interface ends its session (Reset of either service, or a second Discover / a drained list) while the OTHER one holds
    # state that its next frames depend on: observations not yet reported, the mapper association, generations, a cached icon
    for k in range(12 if tier == 'quick' else 120):
        m0, m1 = bytes([2, 0xA1, 0, 0, 0, k & 255]), bytes([2, 0xB1, 0, 0, 0, k & 255])
        head = [Cfg(0, mac=m0).line(), Cfg(1, mac=m1).line(), gline(host=b'h', icon=bytes(range(200)), fname=b'n', hwid=b'x')]
        first, other = (0, 1) if k % 2 == 0 else (1, 0)          # which interface the responder sees first
        me = {0: m0, 1: m1}
        def fr(c, b): return 'frame %d 00 %s' % (c, hx(b))
        hold = [fr(first, discover(M, gen=9, seq=3))] + [fr(first, probe(mac(800 + i), me[first], mac(800 + i), me[first])) for i in range(3)] + [fr(first, qlt(M, me[first], 14, 0, seq=4))]
        after = [fr(first, query(M, me[first], seq=5)), fr(first, discover(mac(2), gen=1)), fr(first, emit(M, me[first], [(0, 0, mac(7), mac(8))], seq=6)), fr(first, discover(M, gen=0, seq=7)),
                 fr(first, qlt(M, me[first], 14, 100, seq=8))]
        ender = [fr(other, discover(mac(3), gen=2)), fr(other, probe(mac(850), me[other], mac(850), me[other])),
                 fr(other, reset(mac(3), tos=[0, 1, 0][k % 3])) if k % 4 != 3 else fr(other, query(mac(3), me[other], seq=2))]
        hists = {first: hold + after, other: ender}
        s.start('endoth_%d~a0' % k); s.lines += head + hists[0]
        s.start('endoth_%d~a1' % k); s.lines += head + hists[1]
        s.start('endoth_%d~m0' % k); s.lines += head + hold + ender + after
        s.start('endoth_%d~m1' % k); s.lines += head + hold[:1] + ender[:1] + hold[1:] + ender[1:] + after
    # an interface whose address getter fails for a moment, exactly while ANOTHER interface is seen for the first time
    for k in range(8 if tier == 'quick' else 100):
        m0 = bytes([2, 0xA0, 0, 0, 1, k & 255]); head = [Cfg(0, mac=m0).line()]
        pre = ['frame 0 00 ' + hx(discover(M, gen=1))] + ['frame 0 00 ' + hx(probe(mac(700 + i), m0, mac(700 + i), m0)) for i in range(3)] + ['frame 0 00 ' + hx(qlt(M, m0, 14, 0, seq=2))]
        win_open = ['cfg 0 mac=%s macfail=1' % m0.hex()]; win_close = ['cfg 0 mac=%s macfail=0' % m0.hex()]
        post = ['frame 0 00 ' + hx(query(M, m0, seq=3)), 'frame 0 00 ' + hx(discover(mac(2), gen=1)), 'frame 0 00 ' + hx(discover(M, gen=1))]
        other = ['frame %d 00 %s' % (1 + k % 3, hx(discover(M, gen=1)))]
        inside = ['frame 0 00 ' + hx(probe(mac(750), m0, mac(750), m0))] if k % 2 else []
        s.start('regdrop_%d~a0' % k); s.lines += head + pre + win_open + inside + win_close + post
        s.start('regdrop_%d~m0' % k); s.lines += head + pre + win_open + other + inside + win_close + post
        s.start('regdrop_%d~m1' % k); s.lines += head + pre + win_open + inside + other + win_close + post
    return [(s.text(), {})]
def project(blk, name, meta):
    if blk.fault: return ('fault',)
    if blk.op.startswith('frame'): return send_opcodes(blk)
    return ()
def per_ctx(ib, ctx):
    return [(b.op, tuple(b.acts)) for b in ib if b.op.startswith('frame %d ' % ctx)]
def oracle(name, ib, mb, meta):
    base, _, tag = name.partition('~')
    if meta.get('shrinking'): return []       # cross-scenario comparison: shortened variants say nothing
    if tag in ('a0', 'a1'):
        _alone[(base, int(tag[1]))] = per_ctx(ib, int(tag[1])); return []
    fails = []
    for ctx in (0, 1):
        alone = _alone.get((base, ctx)); got = per_ctx(ib, ctx)
        if alone is None: continue
        if got != alone:
            k = next((i for i in range(min(len(got), len(alone))) if got[i] != alone[i]), min(len(got), len(alone)))
            idx = [i for i, b in enumerate(ib) if b.op.startswith('frame %d ' % ctx)]
            fails.append((idx[k] if k < len(idx) else len(ib) - 1, 'interface %d reacts to its frame no. %d differently when interface %d\'s frames are interleaved than when its history runs alone' % (ctx, k, 1 - ctx)))
    return fails
def count(name, lines, ib, stats, meta):
    stats['evaluations'] += 1
    shape = ''.join(l.split()[1] for l in lines if l.startswith('frame'))[:24]
    stats['distinct'].add(shape)
def extra_checks(tier, seed):
    exe = V.build_race()
    rec = V.facts().get('sz_iface_state', 64)
    runs = 12 if tier == 'quick' else 200
    fails = []; known = []; sites = {}; lost = 0; keys = {}; reg_seen = False
    env = dict(os.environ); env['TSAN_OPTIONS'] = 'halt_on_error=0 report_signal_unsafe=0 exitcode=0'
    d = os.path.join(V.BUILD, 'run'); os.makedirs(d, exist_ok=True)
    for r in range(runs):
        frames = 1 if r % 3 == 0 else (8 if r % 3 == 1 else 60)
        import subprocess
        p = subprocess.run([exe, str(rec), str(frames)], stdout=subprocess.PIPE, stderr=subprocess.STDOUT, text=True, env=env, timeout=120)
        out = p.stdout
        m = re.search(r'records=(\d+)', out)
        if m and int(m.group(1)) > 2: lost += 1
        if p.returncode not in (0,) and 'ThreadSanitizer' not in out:
            fails.append('two-thread run crashed (exit %d): %s' % (p.returncode, out[-400:]))
        reps = [r_ for r_ in out.split('==================') if 'ThreadSanitizer: data race' in r_]
        parsed = []
        for rep in reps:
            # the two conflicting accesses: first stack frame of each that lies in the core's sources
            secs = [x for x in rep.split('\n\n') if re.search(r'(Read|Write|read|write) of size', x)][:2]
            fr = []
            for x in secs:
                m2 = re.search(r'#\d+ (\S+) (\S*lltdResponder/\S+?):(\d+)', x)
                fr.append(m2.groups() if m2 else ('?', '?', '0'))
            loc = re.search(r"Location is (global '(\w+)'|heap block of size \d+[^\n]*)((?:\n\s+#\d+ [^\n]*)*)", rep)
            glob = loc.group(2) if loc and loc.group(2) else None
            alloc_fn = None
            if loc and not glob:
                m3 = re.search(r'#\d+ (\S+) \S*lltdResponder/', loc.group(3) or '')
                alloc_fn = m3.group(1) if m3 else None
            parsed.append((fr, glob, alloc_fn, rep))
        # the registry accessors: whoever races on the global list head itself
        accessors = set(f[0] for fr, glob, _, _ in parsed if glob == 'g_iface_states' for f in fr)
        for fr, glob, alloc_fn, rep in parsed:
            pair = tuple(sorted(f[0] for f in fr))
            sites[pair] = sites.get(pair, 0) + 1
            registry = glob == 'g_iface_states' or (glob is None and alloc_fn in accessors and all(f[0] in accessors for f in fr))
            if registry: reg_seen = True
            else:
                msg = 'data race between two receive threads outside the interface registry: %s\n%s' % (' / '.join('%s (%s:%s)' % f for f in fr), rep.strip()[:1500])
                if msg.split('\n')[0] not in [x.split('\n')[0] for x in fails]: fails.append(msg)
    kf = [(k, t) for (p, k, t) in V.known_findings()[0] if p == 'C17' and k == 'registry-race']
    known_seen = []
    if reg_seen or lost:
        if kf: known_seen.append(kf[0])
        else: fails.append('data race on the interface registry (lltd_state_for_iface): two threads handling their first frames concurrently; %d of %d runs lost an interface record' % (lost, runs))
    return {'failures': fails, 'known_seen': known_seen, 'evaluations': runs, 'distinct': len(sites), 'tsan_runs': runs, 'race_site_pairs': {' / '.join(k): v for k, v in sites.items()},
            'runs_with_lost_record': lost, 'samples': [{'tsan_race_sites': [' / '.join(k) for k in sites][:4], 'lost_record_runs': lost}]}
