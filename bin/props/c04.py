"""C04 - Hello properties faithfully encode the interface's attributes."""
from props.base import *
from props.blk import *
XORACLE = 'attrs'   # spec/SpecTx.v predicates, extracted, run on the implementation's trace
COQ_TARGETS = ['props/Properties_C04.vo']
RULE = ('attribute tuples: MAC random in 2^48, flags in 2^16 (0, 0x2000, 0x800, 0xFFFF, single bits, random), ifType / IPv4 / speed in 2^32 dense on byte-boundary values (0, 1, 0xFF, 0x100, '
        '0xFF00, 0x01020304, 0x80000000, 0xFFFFFFFF, random), IPv6 random, machine names and SSIDs of every length 0..40, RSSI -128, -127, -70, -1, 0, 1, 127, rate in 2^16, wireless on/off, '
        'every port getter failing independently, both size-return conventions; one Discover each, the Hello decoded by an independent TLV decoder and compared with the supplied tuple. '
        'Linux platform layer: os/linux/lltd_port.c compiled as is, getters evaluated on network_interface_t field values (MTU, type, speed 0..2^32-1 incl. 99/100/101, duplex and loopback bits '
        'among random other bits). distinct = distinct (property type set, failing getter set, name length, ssid length, rssi) tuples + linux tuples')
B32 = [0, 1, 0xFF, 0x100, 0xFF00, 0x10000, 0x01020304, 0x7FFFFFFF, 0x80000000, 0xFFFFFFFF]
def scenarios(rng, tier):
    s = Scn(); n = 150 if tier == 'quick' else 6000
    for k in range(n):
        wifi = rng.random() < 0.5
        kw = dict(mtu=rng.choice([576, 1500, 9216]), mac=bytes(rng.randrange(256) for _ in range(6)),
                  flags=rng.choice([0, 0x2000, 0x800, 0x2800, 0xFFFF, 1 << rng.randrange(16), rng.randrange(65536)]),
                  iftype=rng.choice(B32 + [6, 71, rng.randrange(2 ** 32)]), ipv4=rng.choice(B32 + [0xC0A80001, rng.randrange(2 ** 32)]),
                  ipv6=bytes(rng.randrange(256) for _ in range(16)), speed=rng.choice(B32 + [10000000, rng.randrange(2 ** 32)]))
        if wifi:
            kw.update(wifi=rng.choice([0, 1, 2, 3, 255]), bssid=bytes(rng.randrange(256) for _ in range(6)), ssid=bytes((rng.randrange(1, 256) if k % 5 else rng.choice([0, rng.randrange(256)])) for _ in range(k % 41)),
                      rate=rng.choice([0, 1, 0xFF, 0x100, 108, 0xFFFF, rng.randrange(65536)]), rssi=rng.choice([-128, -127, -70, -1, 0, 1, 127]))
            if rng.random() < 0.5: kw['phy'] = rng.choice([1, 2, 7])
        if wifi and k % 16 == 5: kw['bssid'] = kw['mac']               # a station that hosts its own BSS: BSSID = own address
        if wifi and k % 16 == 13: kw['bssid'] = bytes(6)
        fails = [f for f in ('iftypefail', 'ipv4fail', 'ipv6fail', 'speedfail', 'bssidfail', 'ratefail', 'rssifail', 'macfail') if rng.random() < (0.15 if k % 3 == 0 else 0.25 if k % 4 == 2 else 0.0)]
        for f in fails: kw[f] = 1
        cfg = Cfg(0, **kw)
        s.start('attr_%d' % k); s.lines.append(cfg.line())
        s.lines.append(gline(host=bytes((rng.randrange(1, 256) if (k % 3 or i_ % 2 == 0) else 0) for i_ in range((k * 7) % 41)), retfull=rng.randrange(2)))   # every third name UCS-2 like: zero bytes inside
        tos0, gen0 = rng.choice([0, 1]), rng.randrange(65536)
        s.frame(0, discover(mac(1), tos=tos0, gen=gen0))
        if k % 4 == 1:
            # earlier traffic must leave no trace in a later Hello: observations, a QueryResp with several descriptors, large-TLV
            # responses, then another Discover (same session, no Reset)
            own_ = bytes(6) if 'macfail' in fails else kw['mac']
            for i in range(rng.choice([2, 3, 8])): s.frame(0, probe(bytes([0x7e, 0x29, 0x5e, 0x11, i, 0xfe]), own_, bytes([0x6a, 0xff, 0x29, 0x5e, i, 1]), own_))
            s.frame(0, query(mac(1), own_, seq=4)); s.frame(0, qlt(mac(1), own_, 17, 0, seq=5))
            s.frame(0, discover(mac(1), tos=rng.choice([0, 1]), gen=rng.randrange(65536)))
        if k % 4 == 2:
            # getters that fail at first and then recover (and the other way round) within one session
            kw3 = dict(kw)
            for f in ('iftypefail', 'ipv4fail', 'ipv6fail', 'speedfail', 'bssidfail', 'ratefail', 'rssifail', 'macfail'): kw3[f] = 0 if kw.get(f) else (1 if rng.random() < 0.3 else 0)
            s.lines.append(Cfg(0, **kw3).line())
            s.frame(0, discover(mac(1), tos=tos0, gen=gen0) if k % 8 == 2 else discover(mac(1), tos=rng.choice([0, 1]), gen=rng.randrange(65536)))
        if k % 4 == 0:
            # the attributes change while the session goes on: the next Hello must carry the current ones
            kw2 = dict(kw); kw2.update(ipv4=rng.randrange(2 ** 32), speed=rng.choice(B32), flags=rng.randrange(65536), ipv6=bytes(rng.randrange(256) for _ in range(16)))
            if wifi: kw2.update(rssi=rng.choice([-128, -50, 0, 127]), rate=rng.randrange(65536), bssid=bytes(rng.randrange(256) for _ in range(6)))
            if k % 8 == 0:
                # the medium itself changes under the same interface (wired <-> wireless): the next Hello follows it
                if wifi: kw2.update(wifi=None)
                else: kw2.update(wifi=rng.choice([0, 1, 2]), bssid=bytes(rng.randrange(256) for _ in range(6)), ssid=b'net-%d' % k, rate=rng.randrange(65536), rssi=-60)
            s.lines.append(Cfg(0, **kw2).line())
            s.lines.append(gline(host=bytes(rng.choice([0, 0, rng.randrange(256), rng.randrange(1, 256)]) for _ in range(rng.randrange(41))), retfull=rng.randrange(2)))
            # the same round again (same service, same generation) in every other case: the Hello still carries the CURRENT attributes
            s.frame(0, discover(mac(1), tos=tos0, gen=gen0) if k % 8 in (0, 4) and k % 16 != 0 or k % 8 == 4 else discover(mac(1), tos=rng.choice([0, 1]), gen=rng.randrange(65536)))
    oth = other_iface_variants(s.text(), rng, 10 if tier == 'quick' else 150)
    return [(s.text(), {}), (oth, {'family': 'other-interface'})]
def project(blk, name, meta):
    # the decoded property SET of the Hello (the order of properties is not prescribed)
    if blk.fault: return ('fault',)
    if blk.op.startswith('frame'):
        r = []
        for _, _, o in blk.sends():
            h = hello_fields(o)
            r.append(tuple(sorted(h['props'])) if h and h['props'] is not None else o)
        return tuple(r)
    return ()
def be(b): return int.from_bytes(b, 'big')
def oracle(name, ib, mb, meta):
    fails = []; kv = dict(t.split('=', 1) for t in Cfg(0).line().split()[2:]); g = {}
    for i, b in enumerate(ib):
        if b.op.startswith('cfg 0'): kv = dict(t.split('=', 1) for t in b.op.split()[2:])
        elif b.op.startswith('cfg g'): g = dict(t.split('=', 1) for t in b.op.split()[2:])
        if not b.op.startswith('frame 0 ') or b.fault: continue
        dd = frame_hdr(b)
        if not (dd and dd['tos'] in (0, 1) and dd['opc'] == 0): continue      # other traffic of the session: not a Hello
        sn = sends_of(b)
        if len(sn) != 1:
            # in the generated families every Discover is an acceptable one; a history found by the search may hold refused ones (C03 / C05 judge those)
            if not meta.get('explored') or len(sn) > 1: fails.append((i, 'Discover answered by %d frames' % len(sn)))
            continue
        h = hello_fields(sn[0][2])
        if h is None or h['props'] is None: fails.append((i, 'Hello property list does not parse')); continue
        P = {}
        for t, v in h['props']:
            if t in P: fails.append((i, 'property %d twice' % t))
            P[t] = v
        hx_ = lambda k: b'' if kv.get(k, '-') == '-' else bytes.fromhex(kv[k])
        I = lambda k: int(kv.get(k, '0'))
        fl = lambda k: kv.get(k + 'fail', '0') == '1'
        want = {1: bytes(6) if fl('mac') else hx_('mac'),
                2: ((I('flags') & 0xFFFF) << 16).to_bytes(4, 'big'),
                3: (0 if fl('iftype') else I('iftype')).to_bytes(4, 'big'),
                7: (0 if fl('ipv4') else I('ipv4')).to_bytes(4, 'big'),
                8: bytes(16) if fl('ipv6') else hx_('ipv6'),
                10: (1000000).to_bytes(8, 'big'),
                12: (0 if fl('speed') else I('speed')).to_bytes(4, 'big'),
                15: (b'' if g.get('host', '-') == '-' else bytes.fromhex(g['host']))[:32],
                20: (0xE0000000).to_bytes(4, 'big'), 14: b'', 17: b''}
        if kv.get('wifi', 'none') != 'none':
            want[4] = bytes([I('wifi') & 255])
            if not fl('bssid'): want[5] = hx_('bssid')
            want[6] = hx_('ssid')[:32]
            want[9] = (0 if fl('rate') else I('rate')).to_bytes(2, 'big')
            want[13] = ((0 if fl('rssi') else I('rssi')) & 0xFFFFFFFF).to_bytes(4, 'big')
        names = {1: 'host id', 2: 'characteristics', 3: 'interface type', 4: 'wireless mode', 5: 'BSSID', 6: 'SSID', 7: 'IPv4', 8: 'IPv6', 9: 'max rate', 10: 'perf counter',
                 12: 'link speed', 13: 'RSSI', 14: 'icon marker', 15: 'machine name', 17: 'friendly-name marker', 20: 'QoS characteristics'}
        for t in sorted(set(want) | set(P)):
            if t not in P: fails.append((i, 'property %s (%d) missing from the Hello' % (names.get(t, '?'), t)))
            elif t not in want:
                # properties the statement does not speak about (UUID, support URL, ...) are none of this property's business
                if t in (4, 5, 6, 9, 13): fails.append((i, 'property %s (%d) present although the interface %s' % (names.get(t, '?'), t, 'is not wireless' if kv.get('wifi', 'none') == 'none' else 'does not supply it')))
            elif P[t] != want[t]: fails.append((i, 'property %s (%d) decodes to %s, the platform supplied %s' % (names.get(t, '?'), t, P[t].hex() or '(empty)', want[t].hex() or '(empty)')))
    return fails
def count(name, lines, ib, stats, meta):
    kv = dict(t.split('=', 1) for t in Cfg(0).line().split()[2:])
    for b in ib:
        if b.op.startswith('cfg 0'): kv = dict(t.split('=', 1) for t in b.op.split()[2:])
        if b.op.startswith('frame'):
            dd = frame_hdr(b)
            if not (dd and dd['opc'] == 0): continue
            stats['evaluations'] += 1
            sn = sends_of(b); h = hello_fields(sn[0][2]) if sn else None
            if h and h['props'] is not None:
                P = dict(h['props'])
                stats['distinct'].add((tuple(sorted(P)), tuple(k for k in kv if k.endswith('fail') and kv[k] == '1'), len(P.get(15, b'')), len(P.get(6, b'')), kv.get('rssi')))
                if len(stats['samples']) < 3: stats['samples'].append({'cfg': {k: kv[k] for k in ('flags', 'iftype', 'speed', 'wifi', 'rssi')}, 'props': {str(t): v.hex() for t, v in P.items()}})
def extra_checks(tier, seed):
    import random, os
    rng = random.Random(seed * 77 + 5)
    exe = V.build_linuxport()
    n = 400 if tier == 'quick' else 20000
    L = ['scenario linux']; tuples = []
    for k in range(n):
        m = bytes(rng.randrange(256) for _ in range(6))
        mtu = rng.choice([0, 68, 576, 1500, 9000, 65535, 0xFFFFFFFF, rng.randrange(2 ** 32)])
        ift = rng.choice(B32 + [6, 71, rng.randrange(2 ** 32)])
        spd = rng.choice(B32 + [99, 100, 101, 199, 200, 1000000000, 4294967200, rng.randrange(2 ** 32)])
        med = rng.choice([0, 0x10, 0x20, 0x30, 0xFFFFFFEF, 0xFFFFFFFF, rng.randrange(2 ** 32)])
        flg = rng.choice([0, 8, 1, 0x1043, 0x49, 0xFFFFFFF7, 0xFFFFFFFF, rng.randrange(2 ** 32)])
        tuples.append((m, mtu, ift, spd, med, flg)); L.append('linux %s %d %d %d %d %d' % (m.hex(), mtu, ift, spd, med, flg))
    d = os.path.join(V.BUILD, 'run'); os.makedirs(d, exist_ok=True)
    scn = os.path.join(d, 'C04_linux.scn'); open(scn, 'w').write('\n'.join(L) + '\n')
    rc, out = V.sh([exe, scn], timeout=600); open(scn + '.c.out', 'w').write(out)
    V.run_model(scn, scn + '.m.out')
    ci = V.parse_out(scn + '.c.out').get('linux', []); cm = V.parse_out(scn + '.m.out').get('linux', [])
    fails = []; distinct = set()
    if len(ci) != n or len(cm) != n: fails.append('Linux getter harness produced %d results, the model %d, expected %d\n%s' % (len(ci), len(cm), n, out[-600:]))
    for (m, mtu, ift, spd, med, flg), bi, bm in zip(tuples, ci, cm):
        want = dict(mac=m.hex(), mtu=str(mtu), iftype=str(ift), speed=str(spd // 100), flags=str((0x2000 if med & 0x10 else 0) | (0x800 if flg & 8 else 0)), rc='0000')
        got = {k: bi.kv.get(k) for k in want}
        distinct.add((spd % 100 == 0, bool(med & 0x10), bool(flg & 8)))
        if got != want:
            fails.append('Linux platform layer distorts the interface record: "%s" gives %s, must be %s' % (bi.op, got, want))
        elif {k: bm.kv.get(k) for k in want} != want:
            fails.append('the model of the Linux getters differs from the implementation on "%s": %s' % (bi.op, {k: bm.kv.get(k) for k in want}))
        if len(fails) > 5: break
    # exhaustive: all 2^32 values of every copied / converted field through the real getters (16 processes, plain -O2 build)
    import subprocess
    sweep = os.path.join(V.BUILD, 'linuxsweep')
    rc, out = V.sh(['gcc', '-O2', '-w', '-I' + os.path.join(V.REPO, 'lltdResponder'), '-I' + os.path.join(V.REPO, 'os/linux'), '-o', sweep,
                    os.path.join(V.VERIF, 'harness/linuxport_main.c'), os.path.join(V.REPO, 'os/linux/lltd_port.c')])
    swept = 0
    if rc != 0: fails.append('the Linux platform layer does not compile into the sweep harness: ' + out[-300:])
    else:
        ps = [subprocess.Popen([sweep, '--sweep', str(c), '16'], stdout=subprocess.PIPE, stderr=subprocess.STDOUT, text=True) for c in range(16)]
        for pr in ps:
            o, _ = pr.communicate(timeout=1200)
            for l in o.split('\n'):
                if l.startswith('BAD') and len(fails) < 6: fails.append('Linux platform layer distorts the interface record: ' + l[4:])
            if 'sweep:' in o: swept += 1
        if swept != 16: fails.append('exhaustive sweep of the Linux getters did not complete (%d of 16 parts)' % swept)
    return {'failures': fails, 'evaluations': n + 5 * 2 ** 32, 'distinct': len(distinct) + 2 ** 32, 'exhaustive': True, 'samples': [{'linux': L[1], 'getters': ci[0].status if ci else None}], 'linux_tuples': n,
            'linux_exhaustive': 'LinkSpeed, MediumType, flags, MTU, ifType: all 2^32 values each'}
EXPLORE = dict(domain='frames', ops=('frame',), mtu=True)
