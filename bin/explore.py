"""explore.py - coverage-guided search for further scenarios (used by bin/check after the generated families).

The generated scenarios of a property are the seeds.  They are mutated (bytes and protocol fields of received frames,
repetition with varying station addresses, duplication / removal / reordering of operations, clock advances, the MTU of
a cfg line inside the property's range) and run through _build/vharness_cov: the same harness, with the core compiled
by clang with -fsanitize-coverage=trace-pc-guard,trace-cmp (harness/cov.c).  A mutant that reaches an edge of the core
that no earlier scenario of this run reached is kept; so are mutants on which the core crashed; the constants the core
compares against (and the values it compared them with) feed the mutators, so that a condition such as
`count == 283` or `len == 0x1f4` in the tree under test steers the search towards itself.  What is kept - plus a random
sample of the other mutants - goes through the ordinary pipeline of bin/check (extracted model vs implementation,
extracted specification predicates, the property's independent oracle).  The search never decides anything itself.

Everything is derived from one PRNG state (VERIF_SEED), so a run is reproducible as long as the tree is the same.
"""
import os, random, re, subprocess, sys, time, shutil
import vcommon as V

INTERESTING = [0, 1, 2, 3, 4, 7, 8, 15, 16, 31, 32, 63, 64, 100, 127, 128, 129, 255, 256, 257, 511, 512, 1000, 1023, 1024, 1025,
               1500, 4095, 4096, 32767, 32768, 65535]
HEXOPS = ('frame', 'classify', 'flow', 'esp32')

def split(text):
    res = []; cur = None
    for l in text.split('\n'):
        if l.startswith('scenario'):
            cur = (l.split()[1], []); res.append(cur)
        elif cur is not None and l.strip() and not l.startswith('%'):
            cur[1].append(l)
    return res

class Mut:
    def __init__(self, rng, cfg):
        self.rng = rng; self.cfg = cfg; self.dict = set()
        self.ops = tuple(cfg.get('ops', ('frame',)))
    def val(self, bits=16):
        r = self.rng
        c = r.random()
        if c < 0.45 and self.dict:
            v = r.choice(tuple(self.dict)) + r.choice([0, 0, 0, 1, -1])
        elif c < 0.8:
            v = r.choice(INTERESTING) + r.choice([0, 0, 1, -1])
        else:
            v = r.getrandbits(bits)
        return v & ((1 << bits) - 1)
    def hexline(self, l):
        t = l.split()
        return len(t) >= 4 and t[0] in self.ops and t[0] in HEXOPS
    def mutable(self, l):
        t = l.split()
        return bool(t) and t[0] in self.ops
    def put(self, b, off, v, n, le=False):
        if off + n > len(b): return
        bs = (v & ((1 << (8 * n)) - 1)).to_bytes(n, 'little' if le else 'big')
        b[off:off + n] = bs
    def mut_bytes(self, b, others):
        b2 = self.mut_bytes0(b, others)
        # EtherType and version mostly stay what the daemons' sockets deliver (the properties speak about LLTD frames)
        if len(b2) >= 15 and len(b) >= 15 and self.rng.random() < 0.9: b2[12:15] = b[12:15]
        return b2
    def mut_bytes0(self, b, others):
        r = self.rng; b = bytearray(b)
        k = r.random()
        if not b: return bytearray(r.getrandbits(8) for _ in range(r.choice([1, 14, 32, 46])))
        if k < 0.18:
            i = r.randrange(len(b)) if r.random() < 0.4 else r.randrange(min(len(b), 64)); b[i] = r.choice([0, 1, 0xff, 0x7f, 0x80, r.getrandbits(8), (b[i] + 1) & 255, (b[i] - 1) & 255])
        elif k < 0.30:
            self.put(b, 17, r.randrange(0, 14) if r.random() < 0.9 else r.getrandbits(8), 1)          # opcode
            if r.random() < 0.3: self.put(b, 15, r.randrange(0, 4), 1)                                # type of service
        elif k < 0.42:
            self.put(b, r.choice([30, 32, 34, 36, 38, 40, 44, 46]), self.val(16), 2)                  # sequence number, generation, counts
        elif k < 0.56:
            n = r.choice([1, 2, 2, 4]); off = r.randrange(min(len(b), 80)) if r.random() < 0.7 else r.randrange(len(b))
            self.put(b, off, self.val(8 * n), n, le=r.random() < 0.15)
        elif k < 0.68:
            L = r.choice([self.val(16) % 9300, len(b) + r.choice([1, -1, 2, -2, 14, -14, 20, -20]), r.choice([0, 13, 14, 31, 32, 33, 34, 35, 36, 45, 46, 47, 60])])
            L = max(0, min(L, 9216))
            if L <= len(b): b = b[:L]
            else: b = b + bytearray(r.getrandbits(8) if r.random() < 0.3 else 0 for _ in range(L - len(b)))
        elif k < 0.84 and others:
            o = r.choice(others)
            if len(o) >= 30:
                so = r.choice([0, 6, 18, 24]); mac = o[so:so + 6]
                do = r.choice([0, 6, 18, 24] + ([32 + 14 * j + x for j in range(3) for x in (2, 8)] if len(b) > 80 else []))
                if do + 6 <= len(b): b[do:do + 6] = mac
        else:
            i = r.randrange(len(b)); j = r.randrange(len(b)); n = r.choice([1, 2, 6, 14, 20])
            b[i:i + n] = b[j:j + n][:max(0, min(n, len(b) - i))] if i + n <= len(b) else b[i:i + n]
        return b
    def set_hex(self, l, b):
        t = l.split()
        if t[0] == 'esp32': t[2] = str(len(b))
        t[3] = bytes(b).hex() if b else '-'
        return ' '.join(t[:4])
    def get_hex(self, l):
        return bytearray(V.unhex(l.split()[3]))
    def mutate(self, lines, donors):
        r = self.rng; ls = list(lines)
        hx = [i for i, l in enumerate(ls) if self.hexline(l)]
        mu = [i for i, l in enumerate(ls) if self.mutable(l)]
        if not mu: return None
        for _ in range(r.choice([1, 1, 1, 2, 3])):
            k = r.random()
            hx = [i for i, l in enumerate(ls) if self.hexline(l)]
            mu = [i for i, l in enumerate(ls) if self.mutable(l)]
            if not mu: break
            if k < 0.45 and hx:
                i = r.choice(hx); others = [self.get_hex(ls[j]) for j in r.sample(hx, min(3, len(hx)))]
                ls[i] = self.set_hex(ls[i], self.mut_bytes(self.get_hex(ls[i]), others))
            elif k < 0.55:
                i = r.choice(mu); ls.insert(r.randrange(i, len(ls)) + 1, ls[i])
            elif k < 0.62 and len(mu) > 1:
                del ls[r.choice(mu)]
            elif k < 0.69 and len(mu) > 1:
                i, j = r.sample(mu, 2); ls[i], ls[j] = ls[j], ls[i]
            elif k < 0.80 and hx:
                # the same frame from n different stations (real source / Ethernet source varied): counts and table fills
                i = r.choice(hx); b = self.get_hex(ls[i]); n = self.val(16) % 1100
                if n > 300 and r.random() < 0.7: n = n % 300
                if len(b) >= 30 and n > 0 and len(ls) + n < 4000:
                    base = r.getrandbits(16); out = []
                    both = r.random() < 0.7
                    for q in range(n):
                        c = bytearray(b); x = (base + q) & 0xFFFFFF
                        c[27:30] = x.to_bytes(3, 'big')
                        if both: c[9:12] = x.to_bytes(3, 'big')
                        out.append(self.set_hex(ls[i], c))
                    ls[i + 1:i + 1] = out
            elif k < 0.88 and 'adv' in self.ops:
                amt = r.choice([1, 10, 100, 999, 1000, 1001, 2000, 15000, 30000, 60000, 600000, self.val(32) % 10 ** 7])
                ad = [i for i in mu if ls[i].startswith('adv ')]
                if ad and r.random() < 0.5: ls[r.choice(ad)] = 'adv %d' % amt
                else: ls.insert(r.choice(mu) + 1, 'adv %d' % amt)
            elif k < 0.94 and donors:
                # only operations of a kind, and on an interface, the scenario already uses (flow / tick / table calls need
                # the automata its own prologue creates)
                have = set(l.split()[0] for l in ls); ctxs = set(l.split()[1] for l in ls if len(l.split()) > 1 and l.split()[0] not in ('adv', 'cfg', 'junk', 'failalloc', 'failsend'))
                if any(l.startswith('mk ') for l in ls): ctxs = set(l.split()[1] for l in ls if l.startswith('mk '))
                d = r.choice(donors); dm = [l for l in d if self.mutable(l) and l.split()[0] in have and (len(l.split()) < 2 or l.split()[1] in ctxs or l.split()[0] == 'adv')]
                if dm:
                    s = r.randrange(len(dm)); seg = dm[s:s + r.choice([1, 2, 5, 20])]
                    p = r.choice(mu) + 1; ls[p:p] = seg
            elif k < 0.97 and self.cfg.get('num'):
                # a numeric argument of an API call, inside the range the property quantifies over
                spec = self.cfg['num']; cand = [i for i in mu if ls[i].split()[0] in spec]
                if cand:
                    i = r.choice(cand); t = ls[i].split(); pos, (lo, hi) = r.choice(list(spec[t[0]].items()))
                    if pos < len(t):
                        v = r.choice([lo, hi, lo + 1, hi - 1, r.randint(lo, hi), self.val(32), self.val(16)])
                        t[pos] = str(min(hi, max(lo, v))); ls[i] = ' '.join(t)
            elif self.cfg.get('mtu'):
                cf = [i for i, l in enumerate(ls) if re.match(r'cfg \d+ ', l) and 'mtu=' in l]
                if cf:
                    i = r.choice(cf)
                    m = r.choice([576 + self.val(16) % 8641, r.randrange(576, 9217), 576, 9216, 1500])
                    ls[i] = re.sub(r'\bmtu=\d+', 'mtu=%d' % m, ls[i])
        if ls == list(lines): return None
        # an interface's automata must exist before anything is done to them (scenarios that build them say so with mk)
        if any(l.startswith('mk ') for l in ls):
            made = set()
            for l in ls:
                t = l.split()
                if t[0] == 'mk': made.add(t[1])
                elif len(t) > 1 and t[0] not in ('adv', 'cfg', 'junk', 'failalloc', 'failsend', 'ctor') and t[1] not in made: return None
        return ls

def run_cov(files, tag):
    """run the coverage harness on several scenario files in parallel -> {scenario: set(edges)}, consts, crashed names"""
    exe = os.path.join(V.BUILD, 'vharness_cov')
    env = dict(os.environ); env['ASAN_OPTIONS'] = 'detect_leaks=0:abort_on_error=0'; env['UBSAN_OPTIONS'] = 'print_stacktrace=0'
    procs = []
    for f in files:
        cov = f + '.cov'
        if os.path.exists(cov): os.remove(cov)
        e = dict(env); e['VCOV_OUT'] = cov
        procs.append((f, subprocess.Popen([exe, f], stdout=open(f + '.out', 'w'), stderr=subprocess.DEVNULL, env=e)))
    edges = {}; consts = set(); seen = set(); crashed = set()
    for f, p in procs:
        try: p.wait(timeout=300)
        except subprocess.TimeoutExpired: p.kill()
        try:
            for l in open(f + '.cov'):
                t = l.split()
                if len(t) < 3: continue
                if t[2] == 'e': edges[t[1]] = set(t[3:])
                else:
                    for x in t[3:]:
                        v = int(x, 16)
                        if v < (1 << 32): consts.add(v)
        except OSError: pass
        for l in open(f + '.out', errors='replace'):
            if l.startswith('## '): cur = l[3:].strip(); seen.add(cur)
            elif l.startswith('! fault'): crashed.add(cur)
    return edges, consts, crashed

def explore(prop, pid, batches, seconds, seed, nproc=None):
    cfg = getattr(prop, 'EXPLORE', None)
    info = {'enabled': bool(cfg), 'seconds': seconds}
    if not cfg or seconds <= 0: return [], info
    nproc = nproc or min(16, os.cpu_count() or 4)
    rng = random.Random(seed * 7919 + 101)
    skip = re.compile(cfg['skip']) if cfg.get('skip') else None
    work = os.path.join(V.BUILD, 'explore', pid); shutil.rmtree(work, ignore_errors=True); os.makedirs(work)
    t0 = time.time()
    seeds = []   # (name, lines, meta)
    for text, meta in batches:
        if meta.get('corpus') or meta.get('noexplore'): continue
        for name, lines in split(text):
            if skip and skip.search(name): continue
            if sum(len(l) for l in lines) > 400000: continue
            if cfg.get('skip_ops') and any(l.split()[0] in cfg['skip_ops'] for l in lines): continue     # e.g. states / timestamps set by hand: removing an advance would put them into the future
            seeds.append((name, lines, meta))
    if not seeds: return [], info
    mut = Mut(rng, cfg)
    # generation 0: the seeds themselves
    def write_run(items, gen):
        files = []
        per = max(1, (len(items) + nproc - 1) // nproc)
        for w in range(0, len(items), per):
            f = os.path.join(work, 'g%d_%d.scn' % (gen, w // per))
            with open(f, 'w') as o:
                for name, lines, _ in items[w:w + per]:
                    o.write('scenario %s\n' % name + '\n'.join(lines) + '\n')
            files.append(f)
        r = run_cov(files, gen)
        for f in files:
            for x in (f, f + '.out', f + '.cov'):
                try: os.remove(x)
                except OSError: pass
        return r
    edges, consts, crashed = write_run(seeds, 0)
    glob = set()
    for e in edges.values(): glob |= e
    mut.dict |= consts
    info['seed_scenarios'] = len(seeds); info['seed_edges'] = len(glob)
    corpus = [(n, l, m, 1.0) for (n, l, m) in seeds]
    kept = []; sampled = []; gen = 0; nmut = 0
    per_gen = nproc * int(cfg.get('per_worker', 24))
    maxkeep = int(cfg.get('max_keep', 120))
    # the budget is a NUMBER OF MUTANTS (500 per second asked for), so that a run is reproducible from seed and tree whatever
    # the load of the machine; wall time only serves as a safety net
    budget = int(cfg.get('budget_per_s', 500) * seconds)
    while nmut < budget and time.time() - t0 < 6 * seconds + 30 and len(kept) < maxkeep:
        gen += 1; items = []
        weights = [c[3] for c in corpus]
        tries = 0
        while len(items) < per_gen and nmut < budget and tries < per_gen * 4:
            tries += 1
            n, l, m, w = rng.choices(corpus, weights)[0]
            donors = [rng.choice(corpus)[1]]
            ml = mut.mutate(l, donors)
            if ml is None or sum(len(x) for x in ml) > 600000: continue
            nmut += 1
            base = n.split('__x')[0]; suf = ''
            if '~' in n: suf = n[n.index('~'):]; base = base.split('~')[0]       # families are recognised by prefix and by a ~suffix: keep both
            items.append(('%s__x%d%s' % (base[:40], nmut, suf), ml, m))
        if not items: break
        edges, consts, crashed = write_run(items, gen)
        mut.dict |= consts
        for (n, l, m) in items:
            e = edges.get(n)
            if n in crashed or e is None:
                kept.append((n, l, m)); continue
            new = e - glob
            if new:
                glob |= new; kept.append((n, l, m)); corpus.append((n, l, m, 3.0 + len(new)))
            elif len(sampled) < int(cfg.get('sample', 60)) and rng.random() < 0.02:
                sampled.append((n, l, m))
    info.update(generations=gen, mutants=nmut, budget=budget, kept_new_coverage=len(kept), sampled=len(sampled), edges=len(glob),
                dictionary=len(mut.dict), wall=round(time.time() - t0, 1))
    shutil.rmtree(work, ignore_errors=True)
    out = {}
    for (n, l, m) in kept + sampled:
        key = id(m)
        out.setdefault(key, (m, []))[1].append('scenario %s\n' % n + '\n'.join(l) + '\n')
    res = []
    for key, (m, texts) in out.items():
        m2 = dict(m); m2['explored'] = True
        res.append((''.join(texts), m2))
    return res, info
