#!/usr/bin/env python3
"""Cut the per-frame flow and the tick wiring out of os/darwin/daemon/darwin-main.c.

usage: slice_flow.py <repo> <outdir>
Writes flow_frame.inc (from the 'header = ...recvBuffer' statement of the
receive loop through the automata_tick call that follows parseFrame) and
flow_tick.inc (the tick issued on a receive time-out).  Exits 1 with a message
if the anchors are not found: the C12 premise 'the Darwin daemon wires the
tick as documented' can then not be re-established.
"""
import sys, os
repo, out = sys.argv[1], sys.argv[2]
src = open(os.path.join(repo, 'os/darwin/daemon/darwin-main.c'), encoding='utf-8', errors='replace').read().split('\n')
def find(pred, start=0):
    for i in range(start, len(src)):
        if pred(src[i]): return i
    return -1
a = find(lambda l: 'lltd_demultiplex_header_t *header = currentNetworkInterface->recvBuffer' in l)
p = find(lambda l: 'parseFrame(' in l, a) if a >= 0 else -1
e = find(lambda l: '&tick_port);' in l, p) if p >= 0 else -1
t0 = find(lambda l: 'lltd_automata_tick_port tick_port' in l)
t1 = find(lambda l: '&tick_port);' in l, t0) if t0 >= 0 else -1
if min(a, p, e, t0, t1) < 0 or not (t1 < a):
    print('slice_flow: anchors not found in darwin-main.c', file=sys.stderr); sys.exit(1)
os.makedirs(out, exist_ok=True)
def put(name, lines):
    path = os.path.join(out, name); txt = '\n'.join(lines) + '\n'
    if not os.path.exists(path) or open(path).read() != txt: open(path, 'w').write(txt)
put('flow_frame.inc', src[a:e+1])
put('flow_tick.inc', ['{'] + src[t0:t1+1] + ['}'])
