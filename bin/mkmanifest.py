#!/usr/bin/env python3
"""Regenerates MANIFEST.json from the table below (keeps it valid and in step with what is built)."""
import json, os
VERIF = os.path.dirname(os.path.dirname(os.path.abspath(__file__)))
ids = [json.loads(l)['id'] for l in open(os.path.join(VERIF, 'properties.jsonl'))]
TB = ('Trusted: Coq 8.16.1 kernel and vm_compute (no native_compute, no axioms: every property theorem prints "Closed under the global context"); '
      'the hand-written Gallina model of the C control flow (coq/model), tied to /repo on every run by (a) facts regenerated from the working tree '
      '(probe.c + genfacts.py: compiler layouts, #defines, automata tables dumped by executing the constructors) and (b) differential execution of the '
      'extracted model (ExtrOcamlBasic only) against the C core under ASan/UBSan on generated scenarios; virtual clock; logging not modelled. ')
CHECKS = {
 'C11': dict(text='Theorem for every byte buffer, every received length inside it, every session table and own address: the model of derive_session_event never reads outside the buffer and returns exactly the byte-level specification (list slicing over the MS-LLTD wire layout) of the received part; corollaries state acknowledging / not acknowledging for any position of the own address, the changed-transaction variants, Reset/Hello and no event for every other opcode. Station stride and offsets are regenerated facts.',
             note=TB + 'A Discover with an empty station list is left open by the property (the code treats it as acknowledging).', tech='Rocq proof (induction over the station list, slicing lemmas) + regenerated layout + differential run vs C and vs extracted spec', ref='6 (C11)'),
 'C16': dict(text='Refinement to a dictionary keyed by (mapper, generation): invariant (16 slots, no duplicate live key, count = number of live sessions, all_complete = function of the live sessions) proved for every table reachable by any operation sequence (induction over fold_left), plus per-operation characterisations on the abstract view for add (refresh / insert / refuse-when-full leaves the table untouched), find, remove, clear, completion update and the 60 s expiry sweep.',
             note=TB + 'The executable dictionary used as run-time oracle (spec/SpecExec.v) mirrors the proved per-operation statements; its own Permutation-refinement theorem is not proved.', tech='Rocq proof (invariant by induction over operations, list surgery lemmas) + differential run vs C and vs extracted dictionary', ref='6 (C16)'),
 'C12': dict(text='Invariant proof over EVERY schedule of ticks, clock advances and arbitrary other calls (adversarial Havoc of automata, RepeatBand state and session table; only the tick-private last-transmit timestamp is kept, as the Darwin wiring guarantees): consecutive periodic Hellos are >= HELLO_MIN_INTERVAL_MS apart; a Hello is sent only by the tick and only if, after its own inactivity handling and expiry sweep, a live incomplete session exists (uses the regenerated enumeration table); silence once no session is left. The other automata API calls are proved to be Havoc instances.',
             note=TB + 'The Darwin daemon cannot be built here: its per-frame flow and tick wiring are sliced textually out of darwin-main.c on every run and compiled into the harness; that the daemon writes LastHelloTxMs nowhere else is not checked. 64-bit millisecond clock assumed not to wrap.', tech='Rocq proof (invariant over arbitrary schedules with adversarial environment) + differential run vs C incl. sliced Darwin flow + trace oracles', ref='6 (C12)'),
 'C13': dict(text='Theorems over the model of band_update_stats/band_choose_hello_time with the C integer widths written out: for every r < 2^32 the new count equals min(NMAX, ALPHA*r^BETA) over unbounded numbers, range [ALPHA,NMAX] is invariant under every band operation, count and interval are monotone, the interval obeys the load formula. Constants are regenerated facts proved equal to the documented ones.',
             note=TB + 'Thorough tier sweeps all 2^32 values of r through the real band_update_stats.', tech='Rocq proof (N arithmetic, lia/nia) + regenerated constants + differential run vs C', ref='6 (C13)'),
 'C14': dict(text='Theorem for every state, EVERY integer input and every elapsed time: the regenerated mapping table walked by the modelled switch_state_mapping (last row wins, time-out pre-emption, second pass) equals the specification written from the property text; finite part by vm_compute over the table, all other inputs by a lookup lemma; time-out bounds; tick-driven 30 s inactivity theorem.',
             note=TB, tech='Rocq proof (finite sweep lifted + lookup lemma) over regenerated table + differential run vs C', ref='6 (C14)'),
 'C15': dict(text='Theorem for all 4 states x 8 session events x every elapsed time over the table that init_automata_session() actually builds (regenerated each run): result equals the life-cycle specification within the time-out, Nascent past it.',
             note=TB, tech='Rocq proof by computation over the regenerated table + differential run vs C', ref='6 (C15)'),
}
NA_REASON = 'check under construction in this round: model and harness exist, proof and check not yet registered'
m = {
 'version': 1,
 'setup_cmd': 'make -C /verif setup',
 'hooks': {'guard': 'LLTD_VERIF', 'enable': 'the verification harness is compiled with -DLLTD_VERIF; no hook in /repo is needed so far (state is reached through parseFrame and fresh context pointers, the ledger lives in the verification port)',
           'baseline_off_cmd': 'make -C /repo test', 'source_commits': [], 'add_only': True},
 'engines': [{'name': 'lltd-rocq', 'path': 'bin/check', 'serves_properties': sorted(CHECKS), 'kind_free_text': 'Rocq (Coq 8.16) proofs over an executable model + regenerated facts + differential correspondence harness'}],
 'checks': [], 'not_applicable': [],
 'notes': 'Genuine defects of the pinned tree were repaired by fix: commits in /repo, see known_findings.txt and DESIGN.md section 7.',
}
for i in ids:
    if i in CHECKS:
        c = CHECKS[i]
        m['checks'].append({'property_id': i, 'quick_cmd': 'bin/check %s --tier quick' % i, 'thorough_cmd': 'bin/check %s --tier thorough' % i,
                            'evidence_file': 'evidence/%s.json' % i, 'replay_cmd_template': 'bin/check %s --replay {path}' % i, 'engine': 'lltd-rocq',
                            'level_claimed': {'category': 'proof', 'text': c['text'], 'design_ref': 'DESIGN.md section ' + c['ref']},
                            'level_note': c['note'], 'technique': c['tech']})
    else:
        m['not_applicable'].append({'property_id': i, 'reason': NA_REASON})
json.dump(m, open(os.path.join(VERIF, 'MANIFEST.json'), 'w'), indent=1)
print('checks:', len(m['checks']), 'not_applicable:', len(m['not_applicable']))
