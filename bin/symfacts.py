#!/usr/bin/env python3
"""Second translator (C20, and the 'no other shared mutable state' premise of C17): builds the four core files of
/repo's working tree on their own with {gcc, clang} x {-O0, -O2, -Os} x {hosted, -ffreestanding}, links them
relocatably and writes what `nm` says into coq/gen/Symbols.v, together with the port API parsed from lltdPort.h,
the system headers the core includes, and the hits of the repository's own lint script.

usage: symfacts.py <repo> <builddir> <Symbols.v>
"""
import os, re, subprocess, sys
repo, build, dst = sys.argv[1], sys.argv[2], sys.argv[3]
CORE = ['lltdBlock.c', 'lltdAutomata.c', 'lltdTlvOps.c', 'lltdWire.c']
inc = os.path.join(repo, 'lltdResponder')
def sh(cmd, cwd=None):
    p = subprocess.run(cmd, stdout=subprocess.PIPE, stderr=subprocess.STDOUT, text=True, cwd=cwd)
    return p.returncode, p.stdout
errs = []; builds = []
for cc in ('gcc', 'clang'):
    for opt in ('-O0', '-O2', '-Os'):
        for fs in ('', '-ffreestanding'):
            name = '%s %s %s' % (cc, opt, fs or 'hosted')
            d = os.path.join(build, 'sym', (cc + opt + fs).replace('-', '_')); os.makedirs(d, exist_ok=True)
            objs = []
            for f in CORE:
                o = os.path.join(d, f[:-2] + '.o')
                rc, out = sh([cc, opt] + ([fs] if fs else []) + ['-w', '-c', '-I' + inc, os.path.join(inc, f), '-o', o])
                if rc != 0: errs.append('%s: %s does not compile: %s' % (name, f, out[-300:]))
                objs.append(o)
            core = os.path.join(d, 'core.o')
            rc, out = sh(['ld', '-r', '-o', core] + objs)
            if rc != 0: errs.append('%s: ld -r failed: %s' % (name, out[-300:])); continue
            rc, out = sh(['nm', '-u', core]); und = sorted(set(l.split()[-1] for l in out.split('\n') if l.strip()))
            # writable data objects: symbols of type OBJECT in .data* / .bss* / COMMON; .data.rel.ro* is constant data that
            # merely needs relocation (e.g. a static const table of function pointers) and is NOT writable
            rc, out = sh(['objdump', '-t', core]); wr = set()
            for l in out.split('\n'):
                t = l.split()
                if len(t) >= 5 and ' O ' in l:
                    sec = t[-3]
                    if (sec.startswith('.data') and not sec.startswith('.data.rel.ro')) or sec.startswith('.bss') or sec == '*COM*' or sec.startswith(('.tbss', '.tdata')):
                        wr.add(t[-1])
            wr = sorted(wr)
            builds.append((name, und, wr))
# beyond the twelve configurations the property names: position-independent code, and other targets clang can generate code
# for with nothing but its own freestanding headers (32-bit ARM / RISC-V bare metal, AArch64, Windows kernel-style builds);
# there is no linker for those here, so undefined = referenced by some object and defined by none
extra = []
for cc in ('gcc', 'clang'):
    for opt in ('-O0', '-O2'):
        name = '%s %s -fPIC' % (cc, opt)
        d = os.path.join(build, 'sym', (cc + opt + 'pic').replace('-', '_')); os.makedirs(d, exist_ok=True); objs = []
        for f in CORE:
            o = os.path.join(d, f[:-2] + '.o'); rc, out = sh([cc, opt, '-fPIC', '-w', '-c', '-I' + inc, os.path.join(inc, f), '-o', o])
            if rc != 0: errs.append('%s: %s does not compile: %s' % (name, f, out[-300:]))
            objs.append(o)
        core = os.path.join(d, 'core.o'); rc, out = sh(['ld', '-r', '-o', core] + objs)
        if rc != 0: errs.append('%s: ld -r failed' % name); continue
        rc, out = sh(['nm', '-u', core]); extra.append((name, sorted(set(l.split()[-1] for l in out.split('\n') if l.strip()))))
for tgt in ('x86_64-pc-windows-msvc', 'i686-pc-windows-msvc', 'aarch64-none-elf', 'arm-none-eabi', 'riscv32-unknown-elf'):
    for opt in ('-O0', '-O2'):
        name = 'clang %s -ffreestanding --target=%s' % (opt, tgt)
        d = os.path.join(build, 'sym', ('x' + tgt + opt).replace('-', '_')); os.makedirs(d, exist_ok=True); und, dfn = set(), set(); ok = True
        for f in CORE:
            o = os.path.join(d, f[:-2] + '.o'); rc, out = sh(['clang', '--target=' + tgt, '-ffreestanding', opt, '-w', '-c', '-I' + inc, os.path.join(inc, f), '-o', o])
            if rc != 0: errs.append('%s: %s does not compile: %s' % (name, f, out[-300:])); ok = False; continue
            rc, out = sh(['llvm-nm', o])
            for l in out.split('\n'):
                t = l.split()
                if len(t) == 2 and t[0] in 'Uw': und.add(t[1])
                elif len(t) == 3: dfn.add(t[2])
        if ok:
            syms = sorted(und - dfn)
            if tgt.startswith('i686-pc-windows'): syms = sorted(x[1:] if x.startswith('_') else x for x in syms)     # cdecl decoration
            extra.append((name, syms))
hdr = open(os.path.join(inc, 'lltdPort.h')).read()
hdr = re.sub(r'/\*.*?\*/', '', hdr, flags=re.S)
api = sorted(set(re.findall(r'\b(lltd_port_\w+)\s*\(', hdr)))
sysinc = {}
for f in sorted(os.listdir(inc)):
    if f.endswith(('.c', '.h')):
        sysinc[f] = sorted(set(re.findall(r'^\s*#\s*include\s*<([^>]+)>', open(os.path.join(inc, f), errors='replace').read(), re.M)))
rc, out = sh(['bash', os.path.join(repo, 'scripts/lint_core_no_os_conditionals.sh')], cwd=repo)
lint = [] if rc == 0 else [l.strip()[:160] for l in out.split('\n') if re.match(r'^\S+:\d+:', l.strip())] or ['lint script failed: ' + out.strip()[-120:]]
def cs(s): return '"%s"' % s.replace('"', "'")
def cl(l): return '[' + '; '.join(cs(x) for x in l) + ']'
o = ['(* GENERATED by bin/symfacts.py from compiling /repo\'s core on its own. Do not edit. *)', 'From Coq Require Import List String.', 'Import ListNotations.', 'Local Open Scope string_scope.', '']
o.append('Definition port_api : list string :=\n  %s.' % cl(api))
o.append('Definition builds : list (string * list string * list string) :=   (* configuration, undefined symbols, writable data symbols *)\n  [%s].' % ';\n   '.join('(%s, %s, %s)' % (cs(n), cl(u), cl(w)) for n, u, w in builds))
o.append('Definition extra_builds : list (string * list string) :=   (* further configurations: -fPIC, other targets *)\n  [%s].' % ';\n   '.join('(%s, %s)' % (cs(n), cl(u)) for n, u in extra))
o.append('Definition system_includes : list (string * list string) :=\n  [%s].' % ';\n   '.join('(%s, %s)' % (cs(f), cl(v)) for f, v in sysinc.items()))
o.append('Definition lint_hits : list string := %s.' % cl(lint))
o.append('Definition build_errors : list string := %s.' % cl(errs))
txt = '\n'.join(o) + '\n'
if not os.path.exists(dst) or open(dst).read() != txt:
    os.makedirs(os.path.dirname(dst), exist_ok=True); open(dst, 'w').write(txt)
