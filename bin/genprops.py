#!/usr/bin/env python3
"""One-off helper: writes coq/props/Properties_<id>.v from the table below.  Each property theorem restates the
full type of a proved lemma (as printed by Check) and is closed by `exact <lemma>` with Print Assumptions beneath."""
import os, re, subprocess, sys
VERIF = os.path.dirname(os.path.dirname(os.path.abspath(__file__)))
COQ = os.path.join(VERIF, 'coq')
FL = []
for d in ('gen', 'model', 'spec', 'proofs', 'props'): FL += ['-Q', os.path.join(COQ, d), 'LLTD']
TABLE = {
 'C01': ('BlockFun BlockSafe FaultProofs SysSafe', 'C01: reception is memory-safe in the model for every oracle, every buffer of the daemon\'s size, every history (Fault = any read/write outside a buffer, bad release)',
         [('C01_frame_step_never_faults', 'safe_step'), ('C01_frame_never_faults', 'safe_frame'), ('C01_history_never_faults', 'safe_history'),
          ('C01_classifier_stays_inside', 'classify_total'), ('C01_esp32_reads_inside_length', 'esp32_total'), ('C01_tick_total', 'tick_total'),
          ('C01_every_entry_point_every_history', 'rx_history_safe'), ('C01_hypotheses_satisfiable', 'rx_history_applies')]),
 'C02': ('BlockFun BlockNominal SystemRefinement SpecTx TxProofs BufferLevel', 'C02: every transmitted frame passes the independent validator wf_tx; solicited only; junk independent; link to the buffer-level model',
         [('C02_every_frame_well_formed', 'C02_wf_step'), ('C02_only_solicited_and_bounded', 'C02_solicited'), ('C02_hello_property_list_well_formed', 'wf_hello'),
          ('C02_no_uninitialised_byte', 'junk_independent'), ('C02_buffer_level_model_refines', 'step_nominal'), ('C02_registry_level_refines', 'frame_nominal'), ('C02_on_the_buffer_level_model', 'C02_buffer_level'), ('C02_every_history_every_interface_buffer_level', 'C02_buffer_level_history'), ('C02_every_send_of_any_run', 'C02_buffer_level_trace')]),
 'C03': ('BlockFun BlockNominal PropsMapper SystemRefinement BufferLevel HelloHistory', 'C03: an accepted Discover is answered by exactly one correct Hello',
         [('C03_accepted_discover_one_hello', 'C03_one_hello'), ('C03_hello_fields', 'C03_hello_shape'), ('C03_generation_of_that_discover', 'C03_generation_recorded'),
          ('C03_refused_discover_silence', 'C03_rejected'), ('C03_hellos_heard_change_nothing', 'C03_hello_heard'), ('C03_buffer_level_model_refines', 'step_nominal'), ('C03_on_the_buffer_level_model', 'C03_buffer_level'), ('C03_every_hello_of_any_history', 'C03_C04_buffer_level_history'), ('C03_hello_only_for_an_accepted_discover', 'C03_hello_accepted_history')]),
 'C04': ('BlockFun SpecTx TxProofs BufferLevel HelloHistory', 'C04: decoding a Hello yields the attributes the platform supplied; Linux getters',
         [('C04_hello_decodes_to_attributes', 'C04_roundtrip'), ('C04_wireless_only_on_wireless', 'C04_wireless_gate'), ('C04_property_list_parses', 'parse_props_hello'),
          ('C04_be32_roundtrip', 'be32_roundtrip'), ('C04_signed_roundtrip', 's32_roundtrip'), ('C04_linux_platform_layer', 'C04_linux'), ('C04_on_the_buffer_level_model', 'C04_buffer_level'), ('C04_every_hello_of_any_history', 'C03_C04_buffer_level_trace')]),
 'C05': ('BlockFun PropsMapper SystemRefinement', 'C05: one mapper at a time',
         [('C05_discover_answered_iff', 'C05_answered_iff'), ('C05_accepted_becomes_mapper', 'C05_becomes_mapper'), ('C05_mapper_preserved', 'C05_preserved'),
          ('C05_reset_releases', 'C05_reset_releases'), ('C05_foreign_service_inert', 'C05_foreign_service'), ('C05_short_frame_inert', 'C05_unparsable'),
          ('C05_history', 'C05_history'), ('C05_history_next_discover', 'C05_history_next'), ('C05_after_reset_anyone', 'C05_after_reset_any'), ('C05_on_the_buffer_level_model', 'C05_buffer_level')]),
 'C06': ('BlockFun PropsEmit BufferLevel', 'C06: Emit executed descriptor by descriptor, then acknowledged; bounded',
         [('C06_emit_sequence', 'C06_emit'), ('C06_descriptor_slicing', 'read_descs_spec'), ('C06_unknown_kinds', 'C06_emit_any_frames'), ('C06_oversize_count_dropped', 'C06_nofit'), ('C06_transmission_bound', 'C06_bound'), ('C06_on_the_buffer_level_model', 'C06_buffer_level'), ('C06_any_kinds_buffer_level', 'C06_buffer_level_any'), ('C06_oversize_buffer_level', 'C06_buffer_level_nofit'), ('C06_bound_buffer_level', 'C06_buffer_level_bound')]),
 'C07': ('BlockFun PropsQuery BufferLevel QueryHistory', 'C07: every observed probe reported exactly once',
         [('C07_record_rule', 'C07_record'), ('C07_no_duplicate_keys', 'C07_nodup_run'), ('C07_query_reports', 'C07_query'), ('C07_query_on_the_wire', 'C07_query_decoded'),
          ('C07_reply_destination', 'reply_dst_spec'), ('C07_other_frames_keep', 'C07_others_keep'), ('C07_reset_discards', 'C07_reset_discards'),
          ('C07_conservation', 'C07_conservation'), ('C07_drain', 'C07_drain'), ('C07_drain_last_clear', 'C07_drain_last'), ('C07_on_the_buffer_level_model', 'C07_buffer_level'), ('C07_decoded_buffer_level', 'C07_buffer_level_decoded'), ('C07_record_buffer_level', 'C07_buffer_level_record'), ('C07_conservation_over_any_history_buffer_level', 'C07_buffer_level_history'), ('C07_no_duplicates_over_any_history_buffer_level', 'C07_buffer_level_history_nodup')]),
 'C08': ('BlockFun PropsLarge BufferLevel', 'C08: large properties retrievable byte-exactly by offset',
         [('C08_response', 'C08_step'), ('C08_chunk_length', 'C08_chunk_length'), ('C08_fits_mtu', 'C08_fits'), ('C08_seq_zero_ignored', 'C08_seq0'), ('C08_unknown_or_past_end', 'C08_past_end'),
          ('C08_wire_decoding', 'decode_qlt_frame'), ('C08_reassembly', 'C08_reassemble'), ('C08_mapper_loop_end_to_end', 'C08_fetch_wire'), ('C08_offsets_fit', 'C08_offsets_16bit'),
          ('C08_icon_cached', 'C08_icon_cached'), ('C08_hardware_id', 'C08_hwid_prefix'), ('C08_on_the_buffer_level_model', 'C08_buffer_level'), ('C08_seq0_buffer_level', 'C08_buffer_level_seq0'), ('C08_icon_buffer_level', 'C08_buffer_level_icon')]),
 'C09': ('BlockFun PropsMapper SystemRefinement', 'C09: a topology Reset returns the responder to fresh-start behaviour',
         [('C09_normalisation_step', 'C09_norm_step'), ('C09_reset_gives_fresh', 'C09_reset_fresh'), ('C09_after_reset_like_fresh', 'C09_history'), ('C09_one_run', 'C09_history_run'), ('C09_on_the_buffer_level_model', 'C09_buffer_level')]),
 'C10': ('BlockFun PropsEmit EndToEnd', 'C10: probes emitted by one responder are observed by a peer responder',
         [('C10_emitted_frame_parses', 'parse_probe_frame'), ('C10_peer_records', 'C10_peer'), ('C10_peer_reports', 'C10_reported'), ('C10_peer_reports_later', 'C10_reported_later'),
          ('C10_from_the_emit_to_the_peers_report', 'C10_system'), ('C10_whatever_the_emitter_sends', 'C10_system_sent'), ('C10_on_one_wire', 'C10_system_run')]),
 'C17': ('BlockFun Isolation SystemRefinement RegistryProofs', 'C17: interfaces are isolated (sequential: proved; concurrent registration: refuted = known finding)',
         [('C17_interleaving_isolated', 'isolation'), ('C17_registry_isolated', 'reg_isolation'), ('C17_whole_system_refines_pure_histories', 'system_refinement_clock'), ('C17_on_the_buffer_level_model', 'C17_buffer_level'), ('C17_registry_sequential_ok', 'registry_sequential_ok'),
          ('C17_registry_lost_update', 'C17_registry_refuted'), ('C17_registry_losing_interleavings', 'registry_all_interleavings')]),
 'C18': ('BlockFun BlockSafe PropsMapper FaultProofs EndToEnd', 'C18: platform faults degrade gracefully',
         [('C18_no_fault_any_oracle', 'safe_history'), ('C18_step_any_oracle', 'safe_step'), ('C18_reset_restores_fresh_any_oracle', 'reset_any_oracle'), ('C18_then_behaves_like_fresh', 'C09_history'),
          ('C18_constructors_report_failure', 'ctor_any_oracle'),
          ('C18_fault_history_then_reset_then_like_fresh', 'C18_recovery'), ('C18_reset_frame_any_oracle_registry_level', 'reset_frame_any_oracle')]),
 'C19': ('BlockFun BlockSafe FaultProofs EndToEnd', 'C19: bounded memory, nothing leaked',
         [('C19_ledger_is_what_records_hold', 'safe_history'), ('C19_bytes_bounded', 'reg_bytes_bound'), ('C19_count_bounded', 'reg_count_bound'), ('C19_after_reset_only_record', 'reset_any_oracle'),
          ('C19_any_history_from_start_bounded', 'C19_history_bound'), ('C19_retained_per_interface', 'C19_retained_per_interface')]),
}
# history-level restatements for the automata-side properties, whose step-level property files are hand-written
# (first build round); these go into props/Properties_<id>h.v which Properties_<id>.v's check also builds
TABLE.update({
 'C13h': ('Automata Sys AutomataHistory SpecExec ExpectSound', 'C13, history level: the RepeatBand bounds hold after ANY history of receive-path operations, ticks and automata API calls',
          [('C13_after_any_history', 'C13_history'), ('C13_choice_after_any_history', 'C13_history_choose'), ('C13_tick_after_any_history', 'C13_history_tick'), ('C13_runtime_expectation_sound', 'ni_expect_sound')]),
 'C14h': ('Automata Sys AutomataHistory SpecExec ExpectSound', 'C14, history level: legal states after any history; the 30 s inactivity deadline fires at the next tick in every reachable state',
          [('C14_every_reachable_state_legal', 'C14_history_state_valid'), ('C14_receive_path_from_start', 'C14_history_state_valid_rx'), ('C14_inactivity_after_any_history', 'C14_history_timeout'),
           ('C14_invariant_of_every_history', 'history_inv'), ('C14_runtime_expectation_sound', 'mapping_expect_sound_all'), ('C14_timed_out_means_idle', 'mapping_timed_out_quiescent')]),
 'C15h': ('Automata Sys AutomataHistory SpecExec ExpectSound', 'C15, history level: no timestamp from the future; the life-cycle table applies in every reachable state; the tick leaves the session automaton alone',
          [('C15_after_any_history', 'C15_history_invariant'), ('C15_flow_after_any_history', 'C15_history_flow'), ('C15_tick_after_any_history', 'C15_history_tick'), ('C15_runtime_expectation_sound', 'session_expect_sound'), ('C15_runtime_expectation_total', 'session_expect_defined')]),
 'C16h': ('Automata Sys TableProofs AutomataHistory SpecExec DictRefinement', 'C16, history level: the table invariant holds after any history through the frame flow and the tick, not only through the table API; the executable dictionary used as run-time oracle refines the table',
          [('C16_flow_preserves', 'flow_table_inv'), ('C16_tick_preserves', 'tick_table_inv'), ('C16_after_any_history', 'C16_history_flow'),
           ('C16_dictionary_refines_any_history', 'dict_history_refines'), ('C16_dictionary_observations_agree', 'dict_history_observations'), ('C16_dictionary_add', 'dict_add_refines'),
           ('C16_dictionary_tick', 'dict_tick_refines'), ('C16_dictionary_all_complete', 'dict_all_complete_refines'), ('C16_dictionary_count', 'dict_count')]),
})
def main():
    only = sys.argv[1:]
    for pid, (imports, title, items) in TABLE.items():
        if only and pid not in only: continue
        src = 'From LLTD Require Import %s.\nSet Printing Width 110.\n' % imports + ''.join('Check %s.\n' % l for _, l in items)
        wd = os.path.join(VERIF, '_build', 'genprops'); os.makedirs(wd, exist_ok=True)
        open(os.path.join(wd, 'genprops.v'), 'w').write(src)
        p = subprocess.run(['coqc'] + FL + [os.path.join(wd, 'genprops.v')], stdout=subprocess.PIPE, stderr=subprocess.STDOUT, text=True, cwd=wd)
        if p.returncode != 0:
            print(pid, 'FAILED:\n', p.stdout[-1500:]); continue
        out = p.stdout
        # split on "name\n     : type"
        chunks = re.split(r'^(\w+)\n\s+: ', out, flags=re.M)
        types = {}
        for i in range(1, len(chunks) - 1, 2): types[chunks[i]] = chunks[i + 1].rstrip()
        body = ['(* %s.', '   Statements only: each theorem restates the full type of a lemma proved in coq/proofs and is closed by', '   `exact`; Print Assumptions beneath.  Regenerate with bin/genprops.py after a lemma changes. *)']
        body[0] = body[0] % title
        body.append('From LLTD Require Import %s.\n' % imports)
        for new, lem in items:
            t = types.get(lem)
            if t is None: print(pid, 'no type for', lem); continue
            t = '\n'.join('  ' + l.strip() if k else l.strip() for k, l in enumerate(t.split('\n')))
            body.append('Theorem %s :\n  %s.\nProof. exact %s. Qed.\nPrint Assumptions %s.\n' % (new, t, lem, new))
        open(os.path.join(COQ, 'props', 'Properties_%s.v' % pid), 'w').write('\n'.join(body))
        print(pid, 'written', len(items))
main()
