#!/usr/bin/env python3
"""bin/leafcheck.py: leaf functions of the core against their specification for ALL inputs (harness/leaf.c, CBMC).
Writes _build/leaf.json: {function: {ok, seconds, counterexample}} and 'hints' (address pairs that a broken comparison
confuses; the scenario generators add them to their station pools so that the failure shows at property level).
CBMC decides a bounded, loop-free correspondence here; it supports the tie between model and code and the search for a
failing input - no theorem rests on it."""
import json, os, re, subprocess, sys, time
from concurrent.futures import ThreadPoolExecutor
sys.path.insert(0, os.path.dirname(os.path.abspath(__file__)))
import vcommon as V
LEAVES = {   # entry point -> (properties whose model leans on it, what the specification says)
 'compareEthernetAddress': (['C03', 'C05', 'C07', 'C09', 'C10'], 'two addresses are the same station iff all six octets are equal'),
 'setLltdHeaderEx': (['C02', 'C03', 'C06', 'C07', 'C08', 'C10'], 'the 32-byte base header of MS-LLTD from its five fields, nothing else written'),
 'setLltdHeader': (['C02', 'C06'], 'the 32-byte base header with real = Ethernet addresses'),
 'setHelloHeader': (['C02', 'C03'], 'generation, current mapper, apparent mapper (14 bytes)'),
 'setIPv4TLV': (['C02', 'C04'], 'property 7, 4 bytes as supplied, zero when the platform has none'),
 'setIPv6TLV': (['C02', 'C04'], 'property 8, 16 bytes as supplied, zero when the platform has none'),
 'setLinkSpeedTLV': (['C02', 'C04'], 'property 12, big-endian'),
 'setCharacteristicsTLV': (['C02', 'C04'], 'property 2, flags in the upper 16 bits, big-endian'),
 'setWifiRssiTLV': (['C02', 'C04'], 'property 13, sign-extended, big-endian'),
 'mac_equal': (['C11', 'C12', 'C16'], 'two addresses are the same station iff all six octets are equal (session table, classifier)'),
 'mac_copy': (['C11', 'C16'], 'all six octets copied, nothing else written'),
}
AUTOMATA = ('mac_equal', 'mac_copy')
def run(fn):
    inc = os.path.join(V.REPO, 'lltdResponder'); t0 = time.time()
    files = [os.path.join(V.VERIF, 'harness/leaf_automata.c')] if fn in AUTOMATA else [os.path.join(V.VERIF, 'harness/leaf.c'), os.path.join(inc, 'lltdWire.c'), os.path.join(inc, 'lltdTlvOps.c')]
    cmd = ['cbmc', '-I' + inc] + files + ['--function', 'leaf_' + fn, '--unwind', '70', '--no-unwinding-assertions', '--trace']
    try:
        p = subprocess.run(cmd, stdout=subprocess.PIPE, stderr=subprocess.STDOUT, text=True, timeout=600)
        out = p.stdout
    except (subprocess.TimeoutExpired, OSError) as e:
        return fn, {'ok': None, 'why': 'cbmc did not finish: %r' % (e,), 'seconds': round(time.time() - t0, 1)}
    if 'VERIFICATION SUCCESSFUL' in out: return fn, {'ok': True, 'seconds': round(time.time() - t0, 1)}
    if 'VERIFICATION FAILED' not in out: return fn, {'ok': None, 'why': 'cbmc could not process the sources: ' + out[-400:], 'seconds': round(time.time() - t0, 1)}
    failed = re.findall(r'\[leaf_%s\.assertion\.\d+\] line \d+ (.*?): FAILURE' % fn, out) or re.findall(r'\] line \d+ (.*?): FAILURE', out)[:3]
    cex = {}
    for var in ('A', 'B'):
        m = re.findall(r'^\s+%s\.a=\{ ([\d, ]+) \}' % var, out, re.M) or re.findall(r'^\s+%s=\{ ([\d, ]+) \}' % var.lower(), out, re.M)
        if m: cex[var] = bytes(int(x) for x in m[-1].split(',')).hex()
    for var in ('g_ok', 'g_u32', 'g_i8', 'off', 'seq', 'opc', 'tos', 'gen'):
        m = re.findall(r'^\s+%s=(-?\d+)' % var, out, re.M)
        if m: cex[var] = int(m[-1])
    return fn, {'ok': False, 'violated': failed[:3], 'counterexample': cex, 'seconds': round(time.time() - t0, 1)}
def main():
    srcs = [os.path.join(V.REPO, 'lltdResponder', f) for f in os.listdir(os.path.join(V.REPO, 'lltdResponder'))] + [os.path.join(V.VERIF, 'harness/leaf.c'), os.path.join(V.VERIF, 'harness/leaf_automata.c'), os.path.abspath(__file__)]
    dig = V.file_hash(srcs); outp = os.path.join(V.BUILD, 'leaf.json')
    if V.stamp_ok('leaf', dig) and os.path.exists(outp): return
    res = {}
    with ThreadPoolExecutor(11) as ex:
        for fn, r in ex.map(run, LEAVES): r['serves'] = LEAVES[fn][0]; r['specification'] = LEAVES[fn][1]; res[fn] = r
    hints = []
    for fn in ('compareEthernetAddress', 'mac_equal'):
        c = res.get(fn, {}).get('counterexample', {})
        if 'A' in c and 'B' in c and len(c['A']) == 12 and len(c['B']) == 12: hints.append([c['A'], c['B']])
    json.dump({'leaves': res, 'hints': hints}, open(outp, 'w'), indent=1)
    V.stamp_set('leaf', dig)
if __name__ == '__main__':
    main(); print(open(os.path.join(V.BUILD, 'leaf.json')).read()[:1500])
