#!/usr/bin/env python3
"""setup: facts, harness, all Coq files (full .vo), extraction, OCaml driver.  Offline."""
import os, sys
sys.path.insert(0, os.path.dirname(os.path.abspath(__file__)))
import vcommon as V
with V.Lock():
    V.build_facts()
    V.build_harness()
    rc, out = V.build_coq([])
    print(out[-3000:])
    if rc != 0:
        print('setup: Coq build failed', file=sys.stderr); sys.exit(1)
    V.build_model_driver()
    V.build_linuxport(); V.build_race()
    # optional builds (clang): the checks fall back gracefully when one of them is not available
    try:
        V.build_harness_cov(); V.build_harness_msan()
        import leafcheck; leafcheck.main()
    except Exception as e:
        print('setup: optional build skipped:', e)
print('setup ok')
