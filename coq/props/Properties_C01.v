(* C01: reception is memory-safe in the model for every oracle, every buffer of the daemon's size, every history (Fault = any read/write outside a buffer, bad release).
   Statements only: each theorem restates the full type of a lemma proved in coq/proofs and is closed by
   `exact`; Print Assumptions beneath.  Regenerate with bin/genprops.py after a lemma changes. *)
From LLTD Require Import BlockFun BlockSafe FaultProofs SysSafe.

Theorem C01_frame_step_never_faults :
  forall (af sf : N -> bool) (junk ctx : N) (c : pcfg) (g : gcfg) (s : ist)
  (buf : list N) (w : world) (bl : nat) (bb : N),
  cfg_ok c ->
  length buf = o (c_rxsize c) ->
  ledger_frame bl bb s w ->
  st_bounded g s ->
  exists (s' : ist) (w' : world),
  parse_frame_st af sf junk ctx c g s buf w = Ok s' w' /\
  ledger_frame bl bb s' w' /\ st_bounded g s' /\ w_now w' = w_now w.
Proof. exact safe_step. Qed.
Print Assumptions C01_frame_step_never_faults.

Theorem C01_frame_never_faults :
  forall (af sf : N -> bool) (junk ctx : N) (c : pcfg) (g : gcfg) (r : registry)
  (buf : list N) (w : world) (bl : nat) (bb : N),
  cfg_ok c ->
  length buf = o (c_rxsize c) ->
  ledger_reg bl bb r w ->
  reg_bounded g r ->
  exists (r' : registry) (w' : world),
  parse_frame af sf junk ctx c g r buf w = Ok r' w' /\
  ledger_reg bl bb r' w' /\
  reg_bounded g r' /\
  w_now w' = w_now w /\ length r' <= S (length r) /\ (reg_find r ctx <> None -> length r' = length r).
Proof. exact safe_frame. Qed.
Print Assumptions C01_frame_never_faults.

Theorem C01_history_never_faults :
  forall (af sf : N -> bool) (junk : N) (cfgs : N -> pcfg) (g : gcfg) (l : list fop)
  (r : registry) (w : world) (bl : nat) (bb : N),
  Forall (fop_ok cfgs) l ->
  ledger_reg bl bb r w ->
  reg_bounded g r ->
  exists (r' : registry) (w' : world),
  run_frames af sf junk cfgs g r l w = Ok r' w' /\ ledger_reg bl bb r' w' /\ reg_bounded g r'.
Proof. exact safe_history. Qed.
Print Assumptions C01_history_never_faults.

Theorem C01_classifier_stays_inside :
  forall (buf : list N) (len : N) (t : Automata.stable) (me : mac),
  o len <= length buf -> exists ev : Z, Automata.classify buf len t me = Some ev.
Proof. exact classify_total. Qed.
Print Assumptions C01_classifier_stays_inside.

Theorem C01_esp32_reads_inside_length :
  forall (buf : list N) (len now : N) (a : Automata.aset),
  length buf = o len -> exists a' : Automata.aset, Sys.esp32_handle buf len now a = Some a'.
Proof. exact esp32_total. Qed.
Print Assumptions C01_esp32_reads_inside_length.

Theorem C01_tick_total :
  forall (ctx : N) (a : Automata.aset) (w : world),
  exists (a' : Automata.aset) (w' : world),
  Automata.tick ctx a w = Ok a' w' /\
  w_live w' = w_live w /\ w_bytes w' = w_bytes w /\ w_now w' = w_now w.
Proof. exact tick_total. Qed.
Print Assumptions C01_tick_total.

Theorem C01_every_entry_point_every_history :
  forall (af sf : N -> bool) (junk : N) (ops : list Sys.op) (y : Sys.sys) (w : world)
  (bl : nat) (bb : N),
  (forall ctx : N, cfg_ok (Sys.cfg_of y ctx)) ->
  Forall
  (fun p : Sys.op =>
  match p with
  | Sys.OAdv _ | Sys.OFrame _ _ _ | Sys.OClassify _ _ _ | Sys.OEsp32 _ _ _ |
  Sys.OFlow _ _ _ | Sys.OTick _ => True
  | _ => False
  end) ops ->
  ledger_reg bl bb (Sys.y_reg y) w ->
  reg_bounded (Sys.y_g y) (Sys.y_reg y) ->
  exists (y' : Sys.sys) (w' : world),
  run_ops af sf junk y ops w = Ok y' w' /\
  ledger_reg bl bb (Sys.y_reg y') w' /\ reg_bounded (Sys.y_g y') (Sys.y_reg y').
Proof. exact rx_history_safe. Qed.
Print Assumptions C01_every_entry_point_every_history.

Theorem C01_hypotheses_satisfiable :
  (forall ctx : N, cfg_ok (Sys.cfg_of Sys.sys0 ctx)) /\
  ledger_reg 0 0 (Sys.y_reg Sys.sys0) world0 /\ reg_bounded (Sys.y_g Sys.sys0) (Sys.y_reg Sys.sys0).
Proof. exact rx_history_applies. Qed.
Print Assumptions C01_hypotheses_satisfiable.
