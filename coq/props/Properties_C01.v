(* placeholder until the proofs are integrated *)
From LLTD Require Import BufProofs.
Theorem C01_placeholder : True. Proof. exact I. Qed.
Print Assumptions C01_placeholder.
