(* placeholder until the proofs are integrated *)
From LLTD Require Import BufProofs.
Theorem C17_placeholder : True. Proof. exact I. Qed.
Print Assumptions C17_placeholder.
