(* C17: interfaces are isolated (sequential: proved; concurrent registration: refuted = known finding).
   Statements only: each theorem restates the full type of a lemma proved in coq/proofs and is closed by
   `exact`; Print Assumptions beneath.  Regenerate with bin/genprops.py after a lemma changes. *)
From LLTD Require Import BlockFun Isolation SystemRefinement RegistryProofs.

Theorem C17_interleaving_isolated :
  forall (cfgs : N -> pcfg) (g : gcfg) (mtus : N -> N) (l : list (N * list N)) (m : smap) (ctx : N),
  acts_of ctx (snd (sys_run cfgs g mtus m l)) =
  snd (f_run ctx (cfgs ctx) g (mtus ctx) (m ctx) (frames_of ctx l)) /\
  fst (sys_run cfgs g mtus m l) ctx = fst (f_run ctx (cfgs ctx) g (mtus ctx) (m ctx) (frames_of ctx l)).
Proof. exact isolation. Qed.
Print Assumptions C17_interleaving_isolated.

Theorem C17_registry_isolated :
  forall (r : registry) (c1 c2 : N) (s : ist), c1 <> c2 -> reg_find (reg_set r c1 s) c2 = reg_find r c2.
Proof. exact reg_isolation. Qed.
Print Assumptions C17_registry_isolated.

Theorem C17_whole_system_refines_pure_histories :
  forall (junk : N) (cfgs : N -> pcfg) (g : gcfg) (mtus : N -> N),
  cfgs_nominal cfgs mtus ->
  forall (l : list BlockSafe.fop) (r : registry) (w : world) (bl : nat) (bb : N),
  Forall (fop_len cfgs) l ->
  BlockSafe.ledger_reg bl bb r w ->
  exists (r' : registry) (w' : world),
  BlockSafe.run_frames no_fail no_fail junk cfgs g r l w = Ok r' w' /\
  w_trace w' = rev (map snd (snd (sys_run cfgs g mtus (reg_state r) (fframes l)))) ++ w_trace w /\
  (forall ctx : N, reg_state r' ctx = fst (sys_run cfgs g mtus (reg_state r) (fframes l)) ctx) /\
  BlockSafe.ledger_reg bl bb r' w' /\ w_now w' = (w_now w + fadv l)%N.
Proof. exact system_refinement_clock. Qed.
Print Assumptions C17_whole_system_refines_pure_histories.

Theorem C17_on_the_buffer_level_model :
  forall (junk : N) (cfgs : N -> pcfg) (g : gcfg) (mtus : N -> N),
  cfgs_nominal cfgs mtus ->
  forall (l : list (N * list N)) (r : registry) (w : world) (bl : nat) (bb : N),
  Forall (frame_len cfgs) l ->
  BlockSafe.ledger_reg bl bb r w ->
  exists (r' : registry) (w' : world) (tagged : list (N * action)),
  BlockSafe.run_frames no_fail no_fail junk cfgs g r
  (map (fun p : N * list N => BlockSafe.FFrame (fst p) (snd p)) l) w = Ok r' w' /\
  w_trace w' = rev (map snd tagged) ++ w_trace w /\
  (forall ctx : N,
  acts_of ctx tagged = snd (f_run ctx (cfgs ctx) g (mtus ctx) (reg_state r ctx) (frames_of ctx l)) /\
  reg_state r' ctx = fst (f_run ctx (cfgs ctx) g (mtus ctx) (reg_state r ctx) (frames_of ctx l))).
Proof. exact C17_buffer_level. Qed.
Print Assumptions C17_on_the_buffer_level_model.

Theorem C17_registry_sequential_ok :
  let s := Registry.rrun (Registry.rstate0 1 2) [false; false; false; false; true; true; true; true] in
  Registry.both_done s = true /\ Registry.registered s 1 = true /\ Registry.registered s 2 = true.
Proof. exact registry_sequential_ok. Qed.
Print Assumptions C17_registry_sequential_ok.

Theorem C17_registry_lost_update :
  exists sched : list bool,
  let s := Registry.rrun (Registry.rstate0 1 2) sched in
  Registry.both_done s = true /\ (Registry.registered s 1 = false \/ Registry.registered s 2 = false).
Proof. exact C17_registry_refuted. Qed.
Print Assumptions C17_registry_lost_update.

Theorem C17_registry_losing_interleavings :
  length (interleavings 4 4) = 70 /\ length (filter loses (interleavings 4 4)) = 40.
Proof. exact registry_all_interleavings. Qed.
Print Assumptions C17_registry_losing_interleavings.
