(* C02: every transmitted frame passes the independent validator wf_tx; solicited only; junk independent; link to the buffer-level model.
   Statements only: each theorem restates the full type of a lemma proved in coq/proofs and is closed by
   `exact`; Print Assumptions beneath.  Regenerate with bin/genprops.py after a lemma changes. *)
From LLTD Require Import BlockFun BlockNominal SystemRefinement SpecTx TxProofs BufferLevel.

Theorem C02_every_frame_well_formed :
  forall (ctx : N) (c : pcfg) (g : gcfg) (mtu : N),
  (206 <= mtu)%N ->
  (mtu < 16418)%N ->
  forall (s : ist) (buf : list N),
  Forall
  (fun a : action =>
  match a with
  | Send _ _ fr => wf_tx (mac_bytes (own c)) (o mtu) fr = true
  | _ => True
  end) (snd (f_step ctx c g mtu s buf)).
Proof. exact C02_wf_step. Qed.
Print Assumptions C02_every_frame_well_formed.

Theorem C02_only_solicited_and_bounded :
  forall (ctx : N) (c : pcfg) (g : gcfg) (mtu : N) (s : ist) (buf : list N),
  snd (f_step ctx c g mtu s buf) <> [] ->
  exists h : hdr,
  parse_hdr buf = Some h /\
  In (h_tos h, h_opc h) [(0%N, 0%N); (1%N, 0%N); (0%N, 2%N); (0%N, 6%N); (0%N, 11%N); (1%N, 11%N)] /\
  sends (snd (f_step ctx c g mtu s buf)) <=
  (if (h_tos h =? 0)%N && (h_opc h =? 2)%N then o (h_w0 h) + 1 else 1).
Proof. exact C02_solicited. Qed.
Print Assumptions C02_only_solicited_and_bounded.

Theorem C02_hello_property_list_well_formed :
  forall (c : pcfg) (g : gcfg), wf_hello_props (concat (hello_tlvs c g)) = true.
Proof. exact wf_hello. Qed.
Print Assumptions C02_hello_property_list_well_formed.

Theorem C02_no_uninitialised_byte :
  forall (j1 j2 ctx : N) (c : pcfg) (g : gcfg) (mtu : N) (s : ist) (buf : list N)
  (w : world) (bl : nat) (bb : N),
  c_mtu c = Some mtu ->
  (576 <= mtu)%N ->
  (mtu <= 9216)%N ->
  (mtu <= c_rxsize c)%N ->
  length buf = o (c_rxsize c) ->
  ledger_frame bl bb s w ->
  match parse_frame_st no_fail no_fail j1 ctx c g s buf w with
  | Ok s1 w1 =>
  match parse_frame_st no_fail no_fail j2 ctx c g s buf w with
  | Ok s2 w2 => s1 = s2 /\ w_trace w1 = w_trace w2
  | Fault _ => False
  end
  | Fault _ => False
  end.
Proof. exact junk_independent. Qed.
Print Assumptions C02_no_uninitialised_byte.

Theorem C02_buffer_level_model_refines :
  forall (junk ctx : N) (c : pcfg) (g : gcfg) (mtu : N),
  c_mtu c = Some mtu ->
  (576 <= mtu)%N ->
  (mtu <= 9216)%N ->
  (mtu <= c_rxsize c)%N ->
  forall (s : ist) (buf : list N) (w : world) (bl : nat) (bb : N),
  length buf = o (c_rxsize c) ->
  ledger_frame bl bb s w ->
  exists w' : world,
  parse_frame_st no_fail no_fail junk ctx c g s buf w = Ok (fst (f_step ctx c g mtu s buf)) w' /\
  w_trace w' = rev (snd (f_step ctx c g mtu s buf)) ++ w_trace w /\
  ledger_frame bl bb (fst (f_step ctx c g mtu s buf)) w' /\ w_now w' = w_now w.
Proof. exact step_nominal. Qed.
Print Assumptions C02_buffer_level_model_refines.

Theorem C02_registry_level_refines :
  forall (junk ctx : N) (c : pcfg) (g : gcfg) (mtu : N) (r : registry) (buf : list N)
  (w : world) (bl : nat) (bb : N),
  c_mtu c = Some mtu ->
  (576 <= mtu)%N ->
  (mtu <= 9216)%N ->
  (mtu <= c_rxsize c)%N ->
  length buf = o (c_rxsize c) ->
  BlockSafe.ledger_reg bl bb r w ->
  exists (r' : registry) (w' : world),
  parse_frame no_fail no_fail junk ctx c g r buf w = Ok r' w' /\
  reg_state r' ctx = fst (f_step ctx c g mtu (reg_state r ctx) buf) /\
  (forall c2 : N, c2 <> ctx -> reg_state r' c2 = reg_state r c2) /\
  w_trace w' = rev (snd (f_step ctx c g mtu (reg_state r ctx) buf)) ++ w_trace w /\
  BlockSafe.ledger_reg bl bb r' w' /\ w_now w' = w_now w.
Proof. exact frame_nominal. Qed.
Print Assumptions C02_registry_level_refines.

Theorem C02_on_the_buffer_level_model :
  forall (junk ctx : N) (c : pcfg) (g : gcfg) (mtu : N) (r : registry) (buf : list N)
  (w : world) (bl : nat) (bb : N),
  c_mtu c = Some mtu ->
  (576 <= mtu)%N ->
  (mtu <= 9216)%N ->
  (mtu <= c_rxsize c)%N ->
  length buf = o (c_rxsize c) ->
  BlockSafe.ledger_reg bl bb r w ->
  exists (r' : registry) (w' : world) (acts : list action),
  parse_frame no_fail no_fail junk ctx c g r buf w = Ok r' w' /\
  w_trace w' = rev acts ++ w_trace w /\
  BlockSafe.ledger_reg bl bb r' w' /\
  Forall (C02_act ctx c mtu) acts /\
  (w_trace w' <> w_trace w ->
  exists h : hdr,
  parse_hdr buf = Some h /\
  In (h_tos h, h_opc h) soliciting /\
  sends acts <= (if (h_tos h =? 0)%N && (h_opc h =? 2)%N then o (h_w0 h) + 1 else 1)).
Proof. exact C02_buffer_level. Qed.
Print Assumptions C02_on_the_buffer_level_model.

Theorem C02_every_history_every_interface_buffer_level :
  forall (junk : N) (cfgs : N -> pcfg) (g : gcfg) (mtus : N -> N),
  cfgs_nominal cfgs mtus ->
  forall (l : list BlockSafe.fop) (r : registry) (w : world) (bl : nat) (bb : N),
  Forall (fop_len cfgs) l ->
  BlockSafe.ledger_reg bl bb r w ->
  exists (r' : registry) (w' : world) (ta : list (N * action)),
  BlockSafe.run_frames no_fail no_fail junk cfgs g r l w = Ok r' w' /\
  ta = snd (Isolation.sys_run cfgs g mtus (reg_state r) (fframes l)) /\
  w_trace w' = rev (map snd ta) ++ w_trace w /\
  BlockSafe.ledger_reg bl bb r' w' /\
  (forall (k : N) (a : action),
  In (k, a) ta ->
  C02_act k (cfgs k) (mtus k) a /\
  (exists (buf : list N) (h : hdr),
  In (BlockSafe.FFrame k buf) l /\ parse_hdr buf = Some h /\ In (h_tos h, h_opc h) soliciting)).
Proof. exact C02_buffer_level_history. Qed.
Print Assumptions C02_every_history_every_interface_buffer_level.

Theorem C02_every_send_of_any_run :
  forall (junk : N) (cfgs : N -> pcfg) (g : gcfg) (mtus : N -> N),
  cfgs_nominal cfgs mtus ->
  forall (l : list BlockSafe.fop) (r : registry) (w : world) (bl : nat) (bb : N),
  Forall (fop_len cfgs) l ->
  BlockSafe.ledger_reg bl bb r w ->
  exists (r' : registry) (w' : world) (added : list action),
  BlockSafe.run_frames no_fail no_fail junk cfgs g r l w = Ok r' w' /\
  w_trace w' = added ++ w_trace w /\
  BlockSafe.ledger_reg bl bb r' w' /\
  (forall k n : N, ~ In (HelloTx k n) added) /\
  (forall (k : N) (ok : bool) (fr : list N),
  In (Send k ok fr) added ->
  ok = true /\
  wf_tx (mac_bytes (own (cfgs k))) (o (mtus k)) fr = true /\
  (exists (buf : list N) (h : hdr),
  In (BlockSafe.FFrame k buf) l /\ parse_hdr buf = Some h /\ In (h_tos h, h_opc h) soliciting)).
Proof. exact C02_buffer_level_trace. Qed.
Print Assumptions C02_every_send_of_any_run.
