(* placeholder until the proofs are integrated *)
From LLTD Require Import BufProofs.
Theorem C02_placeholder : True. Proof. exact I. Qed.
Print Assumptions C02_placeholder.
