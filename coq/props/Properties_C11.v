(* C11 - Acknowledgement by the mapper is recognised from the Discover.
   The classifier is derive_session_event as repaired in /repo (6-byte stride,
   bounded by the received length); stride and offsets are regenerated facts. *)
From LLTD Require Import Automata SpecClassify TableProofs ClassifyProofs.
Local Open Scope N_scope.

(* For every buffer of bytes, every received length inside it, every session
   table and every own address: the classifier never reads outside the buffer
   and returns what the byte-level specification says about the received part. *)
Theorem C11_classifier_meets_spec :
  forall buf len t me, bytes_ok buf -> (N.to_nat len <= length buf)%nat ->
    classify buf len t me = Some (classify_spec (firstn (N.to_nat len) buf) (known_of t) (mac_bytes me)).
Proof. exact classify_correct. Qed.
Print Assumptions C11_classifier_meets_spec.

(* what the specification says, in the words of the property *)
Theorem C11_discover :
  forall fr known me, (36 <= length fr)%nat -> nth 17 fr 0 = 0 -> u16_at fr 34 <> 0 ->
    let n := Nat.min (N.to_nat (u16_at fr 34)) ((length fr - 36) / 6) in
    let changed := match known (bytes_at fr 24 6) (u16_at fr 32) with Some q => negb (q =? u16_at fr 30) | None => false end in
    classify_spec fr known me =
    if listed fr n me then (if changed then 5%Z else 3%Z) else (if changed then 4%Z else 2%Z).
Proof. exact classify_spec_discover. Qed.
Theorem C11_any_position :
  forall fr n me, listed fr n me = true <-> exists i, (i < n)%nat /\ bytes_at fr (36 + 6 * i) 6 = me.
Proof. exact listed_iff. Qed.
Theorem C11_reset :
  forall fr known me, (32 <= length fr)%nat -> nth 17 fr 0 = 8 ->
    classify_spec fr known me = if bytes_eqb (bytes_at fr 18 6) [255; 255; 255; 255; 255; 255] then 6%Z else 1%Z.
Proof. exact classify_spec_reset. Qed.
Theorem C11_hello : forall fr known me, (32 <= length fr)%nat -> nth 17 fr 0 = 1 -> classify_spec fr known me = 7%Z.
Proof. exact classify_spec_hello. Qed.
Theorem C11_other_opcodes :
  forall fr known me, nth 17 fr 0 <> 0 -> nth 17 fr 0 <> 1 -> nth 17 fr 0 <> 8 -> classify_spec fr known me = EV_NONE.
Proof. exact classify_spec_other. Qed.
(* the numbers are the sess_* constants of lltdAutomata.h *)
Theorem C11_codes :
  (Z.of_N sess_reset, Z.of_N sess_discover_noack, Z.of_N sess_discover_acking, Z.of_N sess_discover_noack_chgd_xid,
   Z.of_N sess_discover_acking_chgd_xid, Z.of_N sess_topo_reset, Z.of_N sess_hello) = (1, 2, 3, 4, 5, 6, 7)%Z.
Proof. reflexivity. Qed.
Print Assumptions C11_discover.
