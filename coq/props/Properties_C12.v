(* C12 - Periodic Hellos are paced, purposeful and stop with the session. *)
From LLTD Require Import Automata Sys AutomataBase TickProofs.
Local Open Scope N_scope.

(* (3) Pacing.  For EVERY schedule of ticks, clock advances and arbitrary other
   calls (SHavoc replaces the automata, the RepeatBand state and the session
   table by anything; only the tick's private last-transmit timestamp is kept):
   consecutive periodic Hellos of an interface are at least
   HELLO_MIN_INTERVAL_MS apart.  (The 64-bit millisecond clock must not wrap.) *)
Theorem C12_paced :
  forall ctx ops,
    let s := fold_left (sstep ctx) ops (aset0, world0) in
    w_now (snd s) < W64 -> paced (hello_times ctx (w_trace (snd s))).
Proof. exact paced_always. Qed.
Print Assumptions C12_paced.
Theorem C12_min_interval_is_one_second : HELLO_MIN_INTERVAL_MS = 1000.
Proof. reflexivity. Qed.

(* (1) Only the tick emits them. *)
Theorem C12_only_tick :
  forall ctx s p,
    hello_times ctx (w_trace (snd (sstep ctx s p))) <> hello_times ctx (w_trace (snd s)) -> p = STick.
Proof. exact only_tick_sends. Qed.
(* ... and the other calls of the automata API are indeed instances of SHavoc:
   they add nothing to the trace and leave the timestamp alone. *)
Theorem C12_api_is_havoc :
  forall af sf junk y p w y' r w',
    is_automata_api p = true -> run_op af sf junk y p w = Ok (y', r) w' ->
    w_trace w' = w_trace w /\ w_now w' = w_now w /\ forall c, a_ltx (aset_of y' c) = a_ltx (aset_of y c).
Proof. exact automata_api_is_havoc. Qed.
Theorem C12_flow_keeps_timestamp : forall now h ev a, a_ltx (flow_automata now h ev a) = a_ltx a.
Proof. exact flow_automata_ltx. Qed.

(* what a tick does: never faults, sends at most one Hello, stamped with the current time *)
Theorem C12_tick_trace :
  forall ctx a w, exists a' w', tick ctx a w = Ok a' w' /\ w_now w' = w_now w /\
    w_trace w' = (if tick_sends a (w_now w) then [HelloTx ctx (w_now w)] else []) ++ w_trace w /\
    a_ltx a' = (if tick_sends a (w_now w) then w_now w else a_ltx a) /\
    a_tbl a' = tick_table (w_now w / 1000) (a_tbl (tick_mapping (w_now w / 1000) a)).
Proof. exact tick_trace. Qed.

(* (2) Purpose: a Hello goes out only while, after this tick's own inactivity
   handling and expiry sweep, the table holds a live session that is not complete. *)
Theorem C12_purpose :
  forall a now_ms, tick_sends a now_ms = true ->
    let t := tick_table (now_ms / 1000) (a_tbl (tick_mapping (now_ms / 1000) a)) in
    any_incomplete (t_slots t) = true /\ st_is_empty t = false.
Proof. exact tick_purpose. Qed.
Print Assumptions C12_purpose.

(* (4) Once no session is left - reset, expired, or dropped after 30 s without
   traffic - the tick stays silent. *)
Theorem C12_silent_without_session :
  forall a now_ms,
    (forall s, In s (t_slots (tick_table (now_ms / 1000) (a_tbl (tick_mapping (now_ms / 1000) a)))) -> s_valid s = false) ->
    tick_sends a now_ms = false.
Proof. exact silent_when_no_session. Qed.
Print Assumptions C12_silent_without_session.
