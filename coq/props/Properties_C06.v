(* C06: Emit executed descriptor by descriptor, then acknowledged; bounded.
   Statements only: each theorem restates the full type of a lemma proved in coq/proofs and is closed by
   `exact`; Print Assumptions beneath.  Regenerate with bin/genprops.py after a lemma changes. *)
From LLTD Require Import BlockFun PropsEmit BufferLevel.

Theorem C06_emit_sequence :
  forall (ctx : N) (c : pcfg) (g : gcfg) (mtu : N),
  (576 <= mtu <= 9216)%N ->
  forall (s : ist) (buf : list N) (h : hdr),
  parse_hdr buf = Some h ->
  h_tos h = tos_discovery ->
  h_opc h = opcode_emit ->
  (1 <= h_w0 h)%N ->
  (h_w0 h <= (mtu - 34) / 14)%N ->
  o mtu <= length buf ->
  let ds := spec_descs buf (o (h_w0 h)) in
  Forall (fun d : emitee => d_type d = 0%N \/ d_type d = 1%N) ds ->
  active s = Some (h_rsrc h) ->
  snd (f_step ctx c g mtu s buf) =
  flat_map (fun d : emitee => [Sleep (d_pause d); tx ctx (probe_frame c d)]) ds ++
  [tx ctx (header_bytes (own c) (mapp s) (own c) (h_rsrc h) (h_seq h) opcode_ack tos_discovery)] /\
  active (fst (f_step ctx c g mtu s buf)) = Some (h_rsrc h).
Proof. exact C06_emit. Qed.
Print Assumptions C06_emit_sequence.

Theorem C06_descriptor_slicing :
  forall (buf : list N) (n : nat),
  34 + 14 * n <= length buf -> 14 * n < o 65536 -> read_descs buf n 0 = Some (spec_descs buf n).
Proof. exact read_descs_spec. Qed.
Print Assumptions C06_descriptor_slicing.

Theorem C06_unknown_kinds :
  forall (ctx : N) (c : pcfg) (g : gcfg) (mtu : N),
  (576 <= mtu <= 9216)%N ->
  forall (s : ist) (buf : list N) (h : hdr),
  parse_hdr buf = Some h ->
  h_tos h = tos_discovery ->
  h_opc h = opcode_emit ->
  (h_w0 h <= (mtu - 34) / 14)%N ->
  o mtu <= length buf ->
  let s1 := with_seq (set_active s h) (h_seq h) in
  let ds := spec_descs buf (o (h_w0 h)) in
  snd (f_step ctx c g mtu s buf) =
  flat_map
  (fun d : emitee => if kind_known d then [Sleep (d_pause d); tx ctx (probe_frame c d)] else []) ds ++
  (if ack_due ds then [tx ctx (ack_frame c s1)] else []).
Proof. exact C06_emit_any_frames. Qed.
Print Assumptions C06_unknown_kinds.

Theorem C06_oversize_count_dropped :
  forall (ctx : N) (c : pcfg) (g : gcfg) (mtu : N) (s : ist) (buf : list N) (h : hdr),
  parse_hdr buf = Some h ->
  h_tos h = tos_discovery ->
  h_opc h = opcode_emit -> (h_w0 h > (mtu - 34) / 14)%N -> f_step ctx c g mtu s buf = (s, []).
Proof. exact C06_nofit. Qed.
Print Assumptions C06_oversize_count_dropped.

Theorem C06_transmission_bound :
  forall (ctx : N) (c : pcfg) (g : gcfg) (mtu : N) (s : ist) (buf : list N) (h : hdr),
  parse_hdr buf = Some h ->
  h_tos h = tos_discovery ->
  h_opc h = opcode_emit -> count_sends (snd (f_step ctx c g mtu s buf)) <= o ((mtu - 34) / 14) + 1.
Proof. exact C06_bound. Qed.
Print Assumptions C06_transmission_bound.

Theorem C06_on_the_buffer_level_model :
  forall (junk ctx : N) (c : pcfg) (g : gcfg) (mtu : N) (r : registry) (buf : list N)
  (w : world) (bl : nat) (bb : N) (h : hdr),
  c_mtu c = Some mtu ->
  (576 <= mtu)%N ->
  (mtu <= 9216)%N ->
  (mtu <= c_rxsize c)%N ->
  length buf = o (c_rxsize c) ->
  BlockSafe.ledger_reg bl bb r w ->
  parse_hdr buf = Some h ->
  h_tos h = tos_discovery ->
  h_opc h = opcode_emit ->
  (1 <= h_w0 h)%N ->
  (h_w0 h <= (mtu - 34) / 14)%N ->
  let ds := spec_descs buf (o (h_w0 h)) in
  Forall (fun d : emitee => d_type d = 0%N \/ d_type d = 1%N) ds ->
  active (SystemRefinement.reg_state r ctx) = Some (h_rsrc h) ->
  exists (r' : registry) (w' : world),
  parse_frame no_fail no_fail junk ctx c g r buf w = Ok r' w' /\
  w_trace w' =
  rev
  (flat_map (fun d : emitee => [Sleep (d_pause d); tx ctx (probe_frame c d)]) ds ++
  [tx ctx
  (header_bytes (own c) (mapp (SystemRefinement.reg_state r ctx)) (own c)
  (h_rsrc h) (h_seq h) opcode_ack tos_discovery)]) ++ w_trace w /\
  active (SystemRefinement.reg_state r' ctx) = Some (h_rsrc h) /\ BlockSafe.ledger_reg bl bb r' w'.
Proof. exact C06_buffer_level. Qed.
Print Assumptions C06_on_the_buffer_level_model.

Theorem C06_any_kinds_buffer_level :
  forall (junk ctx : N) (c : pcfg) (g : gcfg) (mtu : N) (r : registry) (buf : list N)
  (w : world) (bl : nat) (bb : N) (h : hdr),
  c_mtu c = Some mtu ->
  (576 <= mtu)%N ->
  (mtu <= 9216)%N ->
  (mtu <= c_rxsize c)%N ->
  length buf = o (c_rxsize c) ->
  BlockSafe.ledger_reg bl bb r w ->
  parse_hdr buf = Some h ->
  h_tos h = tos_discovery ->
  h_opc h = opcode_emit ->
  (h_w0 h <= (mtu - 34) / 14)%N ->
  let s1 := with_seq (set_active (SystemRefinement.reg_state r ctx) h) (h_seq h) in
  let ds := spec_descs buf (o (h_w0 h)) in
  exists (r' : registry) (w' : world),
  parse_frame no_fail no_fail junk ctx c g r buf w = Ok r' w' /\
  w_trace w' =
  rev
  (flat_map
  (fun d : emitee => if kind_known d then [Sleep (d_pause d); tx ctx (probe_frame c d)] else [])
  ds ++ (if ack_due ds then [tx ctx (ack_frame c s1)] else [])) ++ w_trace w /\
  BlockSafe.ledger_reg bl bb r' w'.
Proof. exact C06_buffer_level_any. Qed.
Print Assumptions C06_any_kinds_buffer_level.

Theorem C06_oversize_buffer_level :
  forall (junk ctx : N) (c : pcfg) (g : gcfg) (mtu : N) (r : registry) (buf : list N)
  (w : world) (bl : nat) (bb : N) (h : hdr),
  c_mtu c = Some mtu ->
  (576 <= mtu)%N ->
  (mtu <= 9216)%N ->
  (mtu <= c_rxsize c)%N ->
  length buf = o (c_rxsize c) ->
  BlockSafe.ledger_reg bl bb r w ->
  parse_hdr buf = Some h ->
  h_tos h = tos_discovery ->
  h_opc h = opcode_emit ->
  (h_w0 h > (mtu - 34) / 14)%N ->
  exists (r' : registry) (w' : world),
  parse_frame no_fail no_fail junk ctx c g r buf w = Ok r' w' /\
  w_trace w' = w_trace w /\
  (forall k : N, SystemRefinement.reg_state r' k = SystemRefinement.reg_state r k) /\
  BlockSafe.ledger_reg bl bb r' w'.
Proof. exact C06_buffer_level_nofit. Qed.
Print Assumptions C06_oversize_buffer_level.

Theorem C06_bound_buffer_level :
  forall (junk ctx : N) (c : pcfg) (g : gcfg) (mtu : N) (r : registry) (buf : list N)
  (w : world) (bl : nat) (bb : N) (h : hdr),
  c_mtu c = Some mtu ->
  (576 <= mtu)%N ->
  (mtu <= 9216)%N ->
  (mtu <= c_rxsize c)%N ->
  length buf = o (c_rxsize c) ->
  BlockSafe.ledger_reg bl bb r w ->
  parse_hdr buf = Some h ->
  h_tos h = tos_discovery ->
  h_opc h = opcode_emit ->
  exists (r' : registry) (w' : world) (acts : list action),
  parse_frame no_fail no_fail junk ctx c g r buf w = Ok r' w' /\
  w_trace w' = rev acts ++ w_trace w /\
  count_sends acts <= o ((mtu - 34) / 14) + 1 /\ BlockSafe.ledger_reg bl bb r' w'.
Proof. exact C06_buffer_level_bound. Qed.
Print Assumptions C06_bound_buffer_level.
