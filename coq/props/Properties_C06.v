(* placeholder until the proofs are integrated *)
From LLTD Require Import BufProofs.
Theorem C06_placeholder : True. Proof. exact I. Qed.
Print Assumptions C06_placeholder.
