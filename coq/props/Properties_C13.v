(* C13 - RepeatBand back-off follows its formula and is monotone in load. *)
From LLTD Require Import Automata SpecAutomata BandProofs.
Local Open Scope N_scope.

(* the constants of lltdAutomata.h are the documented ones *)
Theorem C13_constants :
  BAND_NMAX = NMAX /\ BAND_ALPHA = ALPHA /\ BAND_BETA = BETA /\ BAND_GAMMA = GAMMA /\ BAND_TXC = TXC /\ BAND_MUL_FRAME_1 = 6.
Proof. exact band_constants. Qed.

(* end of a block: for every r representable in the C's uint32_t the new
   count is the formula over unbounded numbers - the widths written into the
   model (mod 2^64, mod 2^32) never bite *)
Theorem C13_formula :
  forall now b, b_r b < W32 ->
    b_ni (band_update now b) = if (0 <? b_r b) && b_begun b then ni_spec (b_r b) else b_ni b.
Proof. exact band_update_ni. Qed.
Print Assumptions C13_formula.

Theorem C13_monotone_count : forall r1 r2, r1 <= r2 -> ni_spec r1 <= ni_spec r2.
Proof. exact ni_spec_monotone. Qed.

(* the count stays within [ALPHA, NMAX] under every band operation *)
Theorem C13_range :
  forall now b, band_inv b ->
    band_inv (band_update now b) /\ band_inv (band_on_hello b) /\ band_inv (band_choose now b)
    /\ band_inv (band_do_hello now b) /\ band_inv (band_init now b).
Proof.
  intros now b H.
  split; [exact (band_update_inv now b H)|]. split; [exact (band_on_hello_inv b H)|].
  split; [exact (band_choose_inv now b H)|]. split; [exact (band_do_hello_inv now b H)|exact (band_init_inv now b)].
Qed.
Print Assumptions C13_range.

(* the next Hello is scheduled no sooner than the load formula allows, and a
   larger count never gives a shorter interval *)
Theorem C13_interval :
  forall ni, ni <= NMAX -> interval_ok ni (hello_interval ni).
Proof. exact hello_interval_ok. Qed.
Theorem C13_interval_monotone :
  forall n1 n2, n1 <= n2 -> n2 <= NMAX -> hello_interval n1 <= hello_interval n2.
Proof. exact hello_interval_monotone. Qed.
Theorem C13_schedule :
  forall now b, now + hello_interval (b_ni b) < W64 -> b_hts (band_choose now b) = now + hello_interval (b_ni b).
Proof. exact band_choose_schedules. Qed.
Print Assumptions C13_interval_monotone.

Example C13_nonvacuous :
  b_ni (band_update 0 {| b_ni := 45; b_r := 65536; b_begun := true; b_hts := 0; b_bts := 0 |}) = 10000.
Proof. vm_compute. reflexivity. Qed.
