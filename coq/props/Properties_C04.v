(* placeholder until the proofs are integrated *)
From LLTD Require Import BufProofs.
Theorem C04_placeholder : True. Proof. exact I. Qed.
Print Assumptions C04_placeholder.
