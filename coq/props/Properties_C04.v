(* C04: decoding a Hello yields the attributes the platform supplied; Linux getters.
   Statements only: each theorem restates the full type of a lemma proved in coq/proofs and is closed by
   `exact`; Print Assumptions beneath.  Regenerate with bin/genprops.py after a lemma changes. *)
From LLTD Require Import BlockFun SpecTx TxProofs BufferLevel HelloHistory.

Theorem C04_hello_decodes_to_attributes :
  forall (c : pcfg) (g : gcfg),
  cfg_wf c g ->
  forall (h : hdr) (gen : N),
  match hello_fields (hello_frame c g h gen) with
  | Some hf =>
  decode_attrs (hf_props hf) = attrs_of c g /\
  hf_edst hf = [255%N; 255%N; 255%N; 255%N; 255%N; 255%N] /\
  hf_rdst hf = [255%N; 255%N; 255%N; 255%N; 255%N; 255%N] /\
  hf_esrc hf = mac_bytes (own c) /\
  hf_rsrc hf = mac_bytes (own c) /\
  hf_seq hf = 0%N /\
  hf_gen hf = (gen mod 65536)%N /\
  hf_cur hf = mac_bytes (h_rsrc h) /\ hf_app hf = mac_bytes (h_esrc h) /\ hf_tos hf = h_tos h
  | None => False
  end.
Proof. exact C04_roundtrip. Qed.
Print Assumptions C04_hello_decodes_to_attributes.

Theorem C04_wireless_only_on_wireless :
  forall (c : pcfg) (g : gcfg) (ps : list (N * list N)),
  parse_props (concat (hello_tlvs c g)) = Some ps ->
  (forall t : N, In t [4%N; 6%N; 9%N; 13%N] -> In t (map fst ps) <-> c_wifi c <> None) /\
  (In 5%N (map fst ps) <-> c_wifi c <> None /\ c_bssid c <> None).
Proof. exact C04_wireless_gate. Qed.
Print Assumptions C04_wireless_only_on_wireless.

Theorem C04_property_list_parses :
  forall (c : pcfg) (g : gcfg), parse_props (concat (hello_tlvs c g)) = Some (hello_props c g).
Proof. exact parse_props_hello. Qed.
Print Assumptions C04_property_list_parses.

Theorem C04_be32_roundtrip :
  forall v : N, be32_dec (be32 v) = (v mod 4294967296)%N.
Proof. exact be32_roundtrip. Qed.
Print Assumptions C04_be32_roundtrip.

Theorem C04_signed_roundtrip :
  forall z : Z, (-2147483648 <= z < 2147483648)%Z -> s32_dec (be32 (u32_of_Z z)) = z.
Proof. exact s32_roundtrip. Qed.
Print Assumptions C04_signed_roundtrip.

Theorem C04_linux_platform_layer :
  forall i : Sys.linux_iface,
  Sys.linux_getters i =
  (Sys.li_mac i, Sys.li_mtu i, Sys.li_iftype i, (Sys.li_speed i mod 4294967296 / 100)%N,
  Sys.linux_flags i) /\
  (N.land (Sys.linux_flags i) 8192 <> 0%N <-> N.land (Sys.li_medium i) 16 <> 0%N) /\
  (N.land (Sys.linux_flags i) 2048 <> 0%N <-> N.land (Sys.li_flags i) 8 <> 0%N) /\
  In (Sys.linux_flags i) [0%N; 2048%N; 8192%N; 10240%N].
Proof. exact C04_linux. Qed.
Print Assumptions C04_linux_platform_layer.

Theorem C04_on_the_buffer_level_model :
  forall (junk ctx : N) (c : pcfg) (g : gcfg) (mtu : N) (r : registry) (buf : list N)
  (w : world) (bl : nat) (bb : N) (h : hdr),
  c_mtu c = Some mtu ->
  (576 <= mtu)%N ->
  (mtu <= 9216)%N ->
  (mtu <= c_rxsize c)%N ->
  length buf = o (c_rxsize c) ->
  BlockSafe.ledger_reg bl bb r w ->
  cfg_wf c g ->
  parse_hdr buf = Some h ->
  PropsMapper.is_discover h = true ->
  matches (SystemRefinement.reg_state r ctx) h = true ->
  exists (r' : registry) (w' : world) (fr : list N) (hf : hello_rec),
  parse_frame no_fail no_fail junk ctx c g r buf w = Ok r' w' /\
  w_trace w' =
  Send ctx true fr :: (if (h_tos h =? tos_discovery)%N then [Sleep 10] else []) ++ w_trace w /\
  BlockSafe.ledger_reg bl bb r' w' /\
  hello_fields fr = Some hf /\
  decode_attrs (hf_props hf) = attrs_of c g /\
  hf_edst hf = [255%N; 255%N; 255%N; 255%N; 255%N; 255%N] /\
  hf_rdst hf = [255%N; 255%N; 255%N; 255%N; 255%N; 255%N] /\
  hf_esrc hf = mac_bytes (own c) /\
  hf_rsrc hf = mac_bytes (own c) /\
  hf_seq hf = 0%N /\
  hf_gen hf = (h_w0 h mod 65536)%N /\
  hf_cur hf = mac_bytes (h_rsrc h) /\
  hf_app hf = mac_bytes (h_esrc h) /\
  hf_tos hf = h_tos h /\
  (forall t : N, In t [4%N; 6%N; 9%N; 13%N] -> In t (map fst (hf_props hf)) <-> c_wifi c <> None) /\
  (In 5%N (map fst (hf_props hf)) <-> c_wifi c <> None /\ c_bssid c <> None).
Proof. exact C04_buffer_level. Qed.
Print Assumptions C04_on_the_buffer_level_model.

Theorem C04_every_hello_of_any_history :
  forall (junk : N) (cfgs : N -> pcfg) (g : gcfg) (mtus : N -> N),
  SystemRefinement.cfgs_nominal cfgs mtus ->
  (forall k : N, cfg_wf (cfgs k) g) ->
  forall (l : list BlockSafe.fop) (r : registry) (w : world) (bl : nat) (bb : N),
  Forall (SystemRefinement.fop_len cfgs) l ->
  BlockSafe.ledger_reg bl bb r w ->
  exists (r' : registry) (w' : world) (added : list action),
  BlockSafe.run_frames no_fail no_fail junk cfgs g r l w = Ok r' w' /\
  w_trace w' = added ++ w_trace w /\
  BlockSafe.ledger_reg bl bb r' w' /\
  (forall (k : N) (ok : bool) (fr : list N),
  In (Send k ok fr) added -> nth 17 fr 0%N = opcode_hello -> hello_explained cfgs g l k k ok fr).
Proof. exact C03_C04_buffer_level_trace. Qed.
Print Assumptions C04_every_hello_of_any_history.
