(* C19: bounded memory, nothing leaked.
   Statements only: each theorem restates the full type of a lemma proved in coq/proofs and is closed by
   `exact`; Print Assumptions beneath.  Regenerate with bin/genprops.py after a lemma changes. *)
From LLTD Require Import BlockFun BlockSafe FaultProofs EndToEnd.

Theorem C19_ledger_is_what_records_hold :
  forall (af sf : N -> bool) (junk : N) (cfgs : N -> pcfg) (g : gcfg) (l : list fop)
  (r : registry) (w : world) (bl : nat) (bb : N),
  Forall (fop_ok cfgs) l ->
  ledger_reg bl bb r w ->
  reg_bounded g r ->
  exists (r' : registry) (w' : world),
  run_frames af sf junk cfgs g r l w = Ok r' w' /\ ledger_reg bl bb r' w' /\ reg_bounded g r'.
Proof. exact safe_history. Qed.
Print Assumptions C19_ledger_is_what_records_hold.

Theorem C19_bytes_bounded :
  (N -> bool) ->
  (N -> bool) ->
  N ->
  (N -> pcfg) ->
  forall (g : gcfg) (r : registry),
  reg_bounded g r -> (reg_bytes r <= N.of_nat (length r) * per_iface_bound g)%N.
Proof. exact reg_bytes_bound. Qed.
Print Assumptions C19_bytes_bounded.

Theorem C19_count_bounded :
  (N -> bool) ->
  (N -> bool) ->
  N ->
  (N -> pcfg) ->
  forall (g : gcfg) (r : registry),
  reg_bounded g r -> reg_count r <= length r * (2 + o LLTD_SEE_LIST_MAX).
Proof. exact reg_count_bound. Qed.
Print Assumptions C19_count_bounded.

Theorem C19_after_reset_only_record :
  forall (af sf : N -> bool) (junk ctx : N) (c : pcfg) (g : gcfg) (s : ist)
  (buf : list N) (h : hdr) (w : world) (bl : nat) (bb : N),
  cfg_ok c ->
  length buf = o (c_rxsize c) ->
  ledger_frame bl bb s w ->
  parse_hdr buf = Some h ->
  h_tos h = tos_discovery ->
  h_opc h = opcode_reset ->
  exists (s' : ist) (w' : world),
  parse_frame_st af sf junk ctx c g s buf w = Ok s' w' /\
  norm s' = fresh /\ w_live w' = bl /\ w_bytes w' = bb /\ w_trace w' = w_trace w /\ w_now w' = w_now w.
Proof. exact reset_any_oracle. Qed.
Print Assumptions C19_after_reset_only_record.

Theorem C19_any_history_from_start_bounded :
  forall (af sf : N -> bool) (junk : N) (cfgs : N -> pcfg) (g : gcfg) (l : list fop),
  Forall (fop_ok cfgs) l ->
  exists (r' : registry) (w' : world),
  run_frames af sf junk cfgs g [] l world0 = Ok r' w' /\
  (w_bytes w' <= N.of_nat (length r') * per_iface_bound g)%N /\
  w_live w' <= length r' * (2 + o LLTD_SEE_LIST_MAX) /\
  length r' <= distinct_ifaces l /\ length r' <= length l.
Proof. exact C19_history_bound. Qed.
Print Assumptions C19_any_history_from_start_bounded.

Theorem C19_retained_per_interface :
  forall (af sf : N -> bool) (junk : N) (cfgs : N -> pcfg) (g : gcfg) (l : list fop),
  Forall (fop_ok cfgs) l ->
  exists (r' : registry) (w' : world),
  run_frames af sf junk cfgs g [] l world0 = Ok r' w' /\
  (w_bytes w' <= N.of_nat (distinct_ifaces l) * per_iface_bound g)%N /\
  w_live w' <= distinct_ifaces l * (2 + o LLTD_SEE_LIST_MAX).
Proof. exact C19_retained_per_interface. Qed.
Print Assumptions C19_retained_per_interface.
