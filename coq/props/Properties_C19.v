(* placeholder until the proofs are integrated *)
From LLTD Require Import BufProofs.
Theorem C19_placeholder : True. Proof. exact I. Qed.
Print Assumptions C19_placeholder.
