(* C15, history level: no timestamp from the future; the life-cycle table applies in every reachable state; the tick leaves the session automaton alone.
   Statements only: each theorem restates the full type of a lemma proved in coq/proofs and is closed by
   `exact`; Print Assumptions beneath.  Regenerate with bin/genprops.py after a lemma changes. *)
From LLTD Require Import Automata Sys AutomataHistory SpecExec ExpectSound.

Theorem C15_after_any_history :
  forall (af sf : N -> bool) (junk : N) (ops : list op) (y : sys) (w : world),
  Forall hist_op ops ->
  HInv y w ->
  exists (y' : sys) (w' : world),
  SysSafe.run_ops af sf junk y ops w = Ok y' w' /\
  (forall ctx : N,
  (exists s : SpecAutomata.sstate, a_cur (a_sess (aset_of y' ctx)) = SessionProofs.sstate_code s) /\
  (a_last (a_sess (aset_of y' ctx)) <= w_now w' / 1000)%N).
Proof. exact C15_history_invariant. Qed.
Print Assumptions C15_after_any_history.

Theorem C15_flow_after_any_history :
  forall (af sf : N -> bool) (junk : N) (ops : list op) (ctx fill : N) (bytes : list N)
  (y : sys) (w : world),
  Forall hist_op ops ->
  HInv y w ->
  exists (y1 : sys) (w1 : world) (ev : Z) (y' : sys) (w' : world),
  SysSafe.run_ops af sf junk y ops w = Ok y1 w1 /\
  classify (mk_rxbuf (cfg_of y1 ctx) fill bytes) (rx_len (cfg_of y1 ctx) bytes)
  (a_tbl (aset_of y1 ctx)) (own (cfg_of y1 ctx)) = Some ev /\
  SysSafe.run_ops af sf junk y (ops ++ [OFlow ctx fill bytes]) w = Ok y' w' /\
  w_now w' = w_now w1 /\
  (let a := a_sess (aset_of y1 ctx) in
  let a' := a_sess (aset_of y' ctx) in
  let ns := (w_now w1 / 1000)%N in
  ((ev < 0)%Z -> a' = a) /\
  ((0 <= ev)%Z ->
  (w_now w1 < W64)%N ->
  a_last a' = ns /\
  ((1 < ns - a_last a)%N -> a_cur a' = SessionProofs.sstate_code SpecAutomata.Nascent) /\
  (forall (s : SpecAutomata.sstate) (e : SpecAutomata.sevent),
  (ns - a_last a <= 1)%N ->
  a_cur a = SessionProofs.sstate_code s ->
  ev = SessionProofs.sevent_code e ->
  a_cur a' = SessionProofs.sstate_code (SpecAutomata.session_spec s e)))).
Proof. exact C15_history_flow. Qed.
Print Assumptions C15_flow_after_any_history.

Theorem C15_tick_after_any_history :
  forall (af sf : N -> bool) (junk : N) (ops : list op) (ctx : N) (y : sys) (w : world),
  Forall hist_op ops ->
  HInv y w ->
  exists (y1 : sys) (w1 : world) (y' : sys) (w' : world),
  SysSafe.run_ops af sf junk y ops w = Ok y1 w1 /\
  SysSafe.run_ops af sf junk y (ops ++ [OTick ctx]) w = Ok y' w' /\
  a_sess (aset_of y' ctx) = a_sess (aset_of y1 ctx).
Proof. exact C15_history_tick. Qed.
Print Assumptions C15_tick_after_any_history.

Theorem C15_runtime_expectation_sound :
  forall (s : N) (ev : Z) (now_s last x : N),
  (s < 4)%N ->
  (0 <= ev <= 7)%Z ->
  (last <= now_s)%N ->
  (now_s < W64)%N ->
  session_expect s ev (now_s - last) = Some x ->
  let a' := switch_session {| a_cur := s; a_last := last |} now_s ev in
  a_cur a' = x /\ a_last a' = now_s.
Proof. exact session_expect_sound. Qed.
Print Assumptions C15_runtime_expectation_sound.

Theorem C15_runtime_expectation_total :
  forall (s : N) (ev : Z) (elapsed : N),
  (s < 4)%N -> (0 <= ev <= 7)%Z -> exists x : N, session_expect s ev elapsed = Some x.
Proof. exact session_expect_defined. Qed.
Print Assumptions C15_runtime_expectation_total.
