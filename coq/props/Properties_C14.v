(* C14 - The mapping engine follows its state machine and times out. *)
From LLTD Require Import Automata SpecAutomata AutomataBase MappingProofs.
Local Open Scope N_scope.

(* every state x EVERY input (any C int) x every elapsed time *)
Theorem C14_mapping_step :
  forall (s : mstate_name) (i : Z) (a : autom) (now : N),
    a_cur a = mstate_code s -> a_last a <= now -> now < W64 ->
    let a' := switch_mapping a now i in
    let tmo := timeout_of mapping_timeouts (mstate_code s) in
    a_last a' = now /\
    ((tmo = 0%Z \/ now - a_last a <= Z.to_N tmo) -> a_cur a' = mstate_code (mapping_spec s i)) /\
    ((tmo <> 0%Z /\ Z.to_N tmo < now - a_last a) ->
       a_cur a' = mstate_code Quiescent \/ (i = OP_DISCOVER /\ a_cur a' = mstate_code Command)).
Proof. exact mapping_step. Qed.
Print Assumptions C14_mapping_step.

(* idle has no time-out; the active states' time-outs are non-zero and at most 30 s *)
Theorem C14_timeouts :
  timeout_of mapping_timeouts 0 = 0%Z /\
  (0 < timeout_of mapping_timeouts 1 <= 30)%Z /\ (0 < timeout_of mapping_timeouts 2 <= 30)%Z.
Proof. exact mapping_timeouts_facts. Qed.
Print Assumptions C14_timeouts.

Theorem C14_initial_idle : mapping_init = mstate_code Quiescent.
Proof. reflexivity. Qed.

(* the spec's named inputs are the opcodes of lltdProtocol.h *)
Theorem C14_inputs :
  OP_DISCOVER = Z.of_N opcode_discover /\ OP_EMIT = Z.of_N opcode_emit /\ OP_RESET = Z.of_N opcode_reset.
Proof. exact mapping_inputs_named. Qed.

(* after the inactivity deadline the tick ends the session, clears the charge
   counter and empties the session table *)
Theorem C14_tick_inactive :
  forall (ctx : N) (a : aset) (w : world),
    let now_s := w_now w / 1000 in
    w_now w < W64 -> a_last (a_map a) <= now_s -> a_cur (a_map a) < 3 ->
    ms_inact (a_mst a) <> 0 -> ms_inact (a_mst a) <= now_s ->
    exists a' w', tick ctx a w = Ok a' w' /\
      a_cur (a_map a') = mstate_code Quiescent /\ ms_ctc (a_mst a') = 0 /\ st_is_empty (a_tbl a') = true.
Proof. exact tick_inactive. Qed.
Print Assumptions C14_tick_inactive.

(* the deadline is 30 s after the last frame *)
Theorem C14_deadline : forall now_s m, now_s + 30 < W64 -> ms_inact (map_touch now_s m) = now_s + 30.
Proof. intros now_s m H. unfold map_touch; cbn. apply N.mod_small. exact H. Qed.
