(* C14, history level: legal states after any history; the 30 s inactivity deadline fires at the next tick in every reachable state.
   Statements only: each theorem restates the full type of a lemma proved in coq/proofs and is closed by
   `exact`; Print Assumptions beneath.  Regenerate with bin/genprops.py after a lemma changes. *)
From LLTD Require Import Automata Sys AutomataHistory SpecExec ExpectSound.

Theorem C14_every_reachable_state_legal :
  forall (af sf : N -> bool) (junk : N) (ops : list op) (y : sys) (w : world),
  Forall hist_op ops ->
  HInv y w ->
  exists (y' : sys) (w' : world),
  SysSafe.run_ops af sf junk y ops w = Ok y' w' /\ (forall ctx : N, legal_states (aset_of y' ctx)).
Proof. exact C14_history_state_valid. Qed.
Print Assumptions C14_every_reachable_state_legal.

Theorem C14_receive_path_from_start :
  forall (af sf : N -> bool) (junk ctx0 : N) (ops : list op) (w : world),
  Forall rx_op ops ->
  exists (y' : sys) (w' : world),
  SysSafe.run_ops af sf junk sys0 (OMk ctx0 :: ops) w = Ok y' w' /\
  (forall ctx : N, legal_states (aset_of y' ctx)).
Proof. exact C14_history_state_valid_rx. Qed.
Print Assumptions C14_receive_path_from_start.

Theorem C14_inactivity_after_any_history :
  forall (af sf : N -> bool) (junk : N) (ops : list op) (ctx : N) (y : sys) (w : world),
  Forall hist_op ops ->
  HInv y w ->
  exists (y1 : sys) (w1 : world) (y' : sys) (w' : world),
  SysSafe.run_ops af sf junk y ops w = Ok y1 w1 /\
  SysSafe.run_ops af sf junk y (ops ++ [OTick ctx]) w = Ok y' w' /\
  w_now w' = w_now w1 /\
  (ms_inact (a_mst (aset_of y1 ctx)) <> 0%N ->
  (ms_inact (a_mst (aset_of y1 ctx)) <= w_now w1 / 1000)%N ->
  a_cur (a_map (aset_of y' ctx)) = MappingProofs.mstate_code SpecAutomata.Quiescent /\
  ms_ctc (a_mst (aset_of y' ctx)) = 0%N /\
  ms_inact (a_mst (aset_of y' ctx)) = 0%N /\
  st_is_empty (a_tbl (aset_of y' ctx)) = true /\
  TableProofs.live (t_slots (a_tbl (aset_of y' ctx))) = []).
Proof. exact C14_history_timeout. Qed.
Print Assumptions C14_inactivity_after_any_history.

Theorem C14_invariant_of_every_history :
  forall (af sf : N -> bool) (junk : N) (ops : list op) (y : sys) (w : world),
  Forall hist_op ops ->
  HInv y w ->
  exists (y' : sys) (w' : world),
  SysSafe.run_ops af sf junk y ops w = Ok y' w' /\ HInv y' w' /\ (w_now w <= w_now w')%N.
Proof. exact history_inv. Qed.
Print Assumptions C14_invariant_of_every_history.

Theorem C14_runtime_expectation_sound :
  forall (s : N) (input : Z) (now_s last : N),
  (s < 3)%N ->
  (last <= now_s)%N ->
  (now_s < W64)%N ->
  let l := mapping_expect s input (now_s - last) (timeout_of mapping_timeouts s) in
  let a' := switch_mapping {| a_cur := s; a_last := last |} now_s input in
  In (a_cur a') l /\ l <> [] /\ a_last a' = now_s.
Proof. exact mapping_expect_sound_all. Qed.
Print Assumptions C14_runtime_expectation_sound.

Theorem C14_timed_out_means_idle :
  forall (s : N) (input : Z) (now_s last : N),
  (s < 3)%N ->
  (last <= now_s)%N ->
  (now_s < W64)%N ->
  let tmo := timeout_of mapping_timeouts s in
  tmo <> 0%Z ->
  (Z.to_N tmo < now_s - last)%N ->
  a_cur (switch_mapping {| a_cur := s; a_last := last |} now_s input) = 0%N.
Proof. exact mapping_timed_out_quiescent. Qed.
Print Assumptions C14_timed_out_means_idle.
