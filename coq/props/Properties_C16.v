(* C16 - The session table stays consistent under any sequence of operations.
   Abstract view of a table: the list of its live sessions, [live (t_slots t)],
   i.e. a dictionary keyed by (mapper address, generation). *)
From LLTD Require Import Automata TableProofs.
Local Open Scope N_scope.

(* In every table reachable from the constructor's by any sequence of add /
   find / remove / clear / completion update / expiry tick: 16 slots, at most
   one live session per key, count = number of live sessions, all_complete =
   what the live sessions imply. *)
Theorem C16_reachable_consistent :
  forall ops, Inv (fold_left tstep ops table0).
Proof. intros ops. exact (reachable_inv ops table0 inv_table0). Qed.
Print Assumptions C16_reachable_consistent.

Theorem C16_bounds :
  forall t, Inv t -> t_count t <= SESSION_TABLE_MAX_ENTRIES /\ (length (live (t_slots t)) <= 16)%nat.
Proof. exact inv_bound. Qed.
Theorem C16_empty_iff : forall t, Inv t -> (st_is_empty t = true <-> live (t_slots t) = []).
Proof. exact st_is_empty_spec. Qed.
Theorem C16_all_complete : forall t, Inv t -> t_allc t = forallb s_complete (live (t_slots t)).
Proof. exact st_allc_spec. Qed.

(* find returns the live session with that key, or nothing when there is none *)
Theorem C16_find_hit :
  forall t m g i, st_find t m g = Some i ->
    exists l1 s l2, t_slots t = l1 ++ s :: l2 /\ length l1 = i /\ s_valid s = true /\ key_is m g s = true
                    /\ dget (t_slots t) m g = Some s
                    /\ forallb (fun y => negb (slot_match m g y)) l1 = true.
Proof. exact st_find_some. Qed.
Theorem C16_find_miss : forall t m g, st_find t m g = None -> dget (t_slots t) m g = None.
Proof. exact st_find_none. Qed.

(* adding a known session refreshes it (sequence number, activity time) in place *)
Theorem C16_add_known :
  forall t now m g seq s, Inv t -> dget (t_slots t) m g = Some s ->
    exists l1 l2 i, live (t_slots t) = l1 ++ s :: l2 /\
      st_add t now m g seq = ({| t_slots := t_slots (fst (st_add t now m g seq)); t_count := t_count t; t_allc := t_allc t |}, Some i) /\
      live (t_slots (fst (st_add t now m g seq))) = l1 ++ refresh seq now s :: l2 /\
      Inv (fst (st_add t now m g seq)).
Proof. exact st_add_existing. Qed.

(* adding an unknown session inserts exactly it; a full table refuses and is left untouched *)
Theorem C16_add_unknown :
  forall t now m g seq, Inv t -> dget (t_slots t) m g = None ->
    let r := st_add t now m g seq in
    ((length (live (t_slots t)) < 16)%nat ->
       exists l1 l2 i, live (t_slots t) = l1 ++ l2 /\ snd r = Some i /\
         live (t_slots (fst r)) = l1 ++ new_slot m g seq now :: l2 /\
         t_count (fst r) = t_count t + 1 /\ Inv (fst r)) /\
    ((length (live (t_slots t)) = 16)%nat -> r = (t, None)).
Proof. exact st_add_new. Qed.
Print Assumptions C16_add_unknown.

Theorem C16_remove :
  forall t m g, Inv t ->
    Inv (st_remove t m g) /\
    live (t_slots (st_remove t m g)) = filter (fun y => negb (key_is m g y)) (live (t_slots t)).
Proof. exact st_remove_spec. Qed.

Theorem C16_clear : forall t, Inv t -> Inv (st_clear t) /\ live (t_slots (st_clear t)) = [].
Proof. exact st_clear_spec. Qed.

Theorem C16_completion_update :
  forall t m g v, Inv t -> let t' := fst (st_set_complete t m g v) in
    Inv t' /\ keys (live (t_slots t')) = keys (live (t_slots t)) /\
    (forall s, dget (t_slots t) m g = Some s -> dget (t_slots t') m g = Some (mark v s)) /\
    (dget (t_slots t) m g = None -> live (t_slots t') = live (t_slots t)).
Proof. exact st_set_complete_spec. Qed.

(* the tick removes exactly the sessions idle for more than 60 s *)
Theorem C16_expiry :
  forall now_s t, Inv t -> Inv (tick_table now_s t) /\
    live (t_slots (tick_table now_s t)) = filter (fresh_at now_s) (live (t_slots t)).
Proof. exact tick_table_spec. Qed.
Print Assumptions C16_expiry.
