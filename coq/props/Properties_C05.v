(* C05: one mapper at a time.
   Statements only: each theorem restates the full type of a lemma proved in coq/proofs and is closed by
   `exact`; Print Assumptions beneath.  Regenerate with bin/genprops.py after a lemma changes. *)
From LLTD Require Import BlockFun PropsMapper SystemRefinement.

Theorem C05_discover_answered_iff :
  forall (ctx : N) (c : pcfg) (g : gcfg) (mtu : N) (s : ist) (buf : list N) (h : hdr),
  parse_hdr buf = Some h ->
  is_discover h = true ->
  snd (f_step ctx c g mtu s buf) <> [] <-> active s = None \/ active s = Some (h_rsrc h).
Proof. exact C05_answered_iff. Qed.
Print Assumptions C05_discover_answered_iff.

Theorem C05_accepted_becomes_mapper :
  forall (ctx : N) (c : pcfg) (g : gcfg) (mtu : N) (s : ist) (buf : list N) (h : hdr),
  parse_hdr buf = Some h ->
  is_discover h = true ->
  matches s h = true -> active (fst (f_step ctx c g mtu s buf)) = Some (h_rsrc h).
Proof. exact C05_becomes_mapper. Qed.
Print Assumptions C05_accepted_becomes_mapper.

Theorem C05_mapper_preserved :
  forall (ctx : N) (c : pcfg) (g : gcfg) (mtu : N) (s : ist) (buf : list N) (h : hdr) (X : mac),
  parse_hdr buf = Some h ->
  active s = Some X ->
  is_reset h = false ->
  (is_command h = true -> h_rsrc h = X) -> active (fst (f_step ctx c g mtu s buf)) = Some X.
Proof. exact C05_preserved. Qed.
Print Assumptions C05_mapper_preserved.

Theorem C05_reset_releases :
  forall (ctx : N) (c : pcfg) (g : gcfg) (mtu : N) (s : ist) (buf : list N) (h : hdr),
  parse_hdr buf = Some h ->
  is_reset h = true ->
  active (fst (f_step ctx c g mtu s buf)) = None /\ snd (f_step ctx c g mtu s buf) = [].
Proof. exact C05_reset_releases. Qed.
Print Assumptions C05_reset_releases.

Theorem C05_foreign_service_inert :
  forall (ctx : N) (c : pcfg) (g : gcfg) (mtu : N) (s : ist) (buf : list N) (h : hdr),
  parse_hdr buf = Some h -> is_discovery_tos (h_tos h) = false -> f_step ctx c g mtu s buf = (s, []).
Proof. exact C05_foreign_service. Qed.
Print Assumptions C05_foreign_service_inert.

Theorem C05_short_frame_inert :
  forall (ctx : N) (c : pcfg) (g : gcfg) (mtu : N) (s : ist) (buf : list N),
  parse_hdr buf = None -> f_step ctx c g mtu s buf = (s, []).
Proof. exact C05_unparsable. Qed.
Print Assumptions C05_short_frame_inert.

Theorem C05_history :
  forall (ctx : N) (c : pcfg) (g : gcfg) (mtu : N) (s : ist) (X : mac) (bufs : list (list N)),
  active s = Some X ->
  Forall
  (fun b : list N =>
  match parse_hdr b with
  | Some h => is_reset h = false /\ (is_command h = true -> h_rsrc h = X)
  | None => True
  end) bufs -> active (fst (f_run ctx c g mtu s bufs)) = Some X.
Proof. exact C05_history. Qed.
Print Assumptions C05_history.

Theorem C05_history_next_discover :
  forall (ctx : N) (c : pcfg) (g : gcfg) (mtu : N) (s : ist) (X : mac) (bufs : list (list N))
  (buf : list N) (h : hdr),
  active s = Some X ->
  Forall
  (fun b : list N =>
  match parse_hdr b with
  | Some h0 => is_reset h0 = false /\ (is_command h0 = true -> h_rsrc h0 = X)
  | None => True
  end) bufs ->
  parse_hdr buf = Some h ->
  is_discover h = true ->
  snd (f_step ctx c g mtu (fst (f_run ctx c g mtu s bufs)) buf) <> [] <-> h_rsrc h = X.
Proof. exact C05_history_next. Qed.
Print Assumptions C05_history_next_discover.

Theorem C05_after_reset_anyone :
  forall (ctx : N) (c : pcfg) (g : gcfg) (mtu : N) (s : ist) (rbuf : list N)
  (r : hdr) (buf : list N) (h : hdr),
  parse_hdr rbuf = Some r ->
  is_reset r = true ->
  parse_hdr buf = Some h ->
  is_discover h = true ->
  snd (f_step ctx c g mtu (fst (f_step ctx c g mtu s rbuf)) buf) <> [] /\
  snd (f_step ctx c g mtu (fst (f_step ctx c g mtu s rbuf)) buf) =
  (if (h_tos h =? tos_discovery)%N then [Sleep 10] else []) ++ [tx ctx (hello_frame c g h (h_w0 h))] /\
  active (fst (f_step ctx c g mtu (fst (f_step ctx c g mtu s rbuf)) buf)) = Some (h_rsrc h).
Proof. exact C05_after_reset_any. Qed.
Print Assumptions C05_after_reset_anyone.

Theorem C05_on_the_buffer_level_model :
  forall (junk ctx : N) (c : pcfg) (g : gcfg) (mtu : N) (r : registry) (buf : list N)
  (w : world) (bl : nat) (bb : N) (h : hdr),
  c_mtu c = Some mtu ->
  (576 <= mtu)%N ->
  (mtu <= 9216)%N ->
  (mtu <= c_rxsize c)%N ->
  length buf = o (c_rxsize c) ->
  BlockSafe.ledger_reg bl bb r w ->
  parse_hdr buf = Some h ->
  is_discover h = true ->
  exists (r' : registry) (w' : world),
  parse_frame no_fail no_fail junk ctx c g r buf w = Ok r' w' /\
  (w_trace w' <> w_trace w <->
  active (reg_state r ctx) = None \/ active (reg_state r ctx) = Some (h_rsrc h)) /\
  BlockSafe.ledger_reg bl bb r' w'.
Proof. exact C05_buffer_level. Qed.
Print Assumptions C05_on_the_buffer_level_model.
