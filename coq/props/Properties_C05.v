(* placeholder until the proofs are integrated *)
From LLTD Require Import BufProofs.
Theorem C05_placeholder : True. Proof. exact I. Qed.
Print Assumptions C05_placeholder.
