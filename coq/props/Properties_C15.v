(* C15 - The session automaton follows the LLTD session life-cycle.
   Statements only; proofs are in proofs/AutomataProofs.v.  The automaton is
   the one init_automata_session() builds in /repo's working tree (its table,
   time-outs and initial state are regenerated facts, gen/Extracted.v). *)
From LLTD Require Import Automata SpecAutomata AutomataBase SessionProofs.
Local Open Scope N_scope.

(* Every state x every session event 0..7 x every elapsed time: within the
   1 s inactivity time-out the new state is the specified one, past it the
   session is Nascent again; the time stamp is refreshed. *)
Theorem C15_session_life_cycle :
  forall (s : sstate) (e : sevent) (a : autom) (now : N),
    a_cur a = sstate_code s -> a_last a <= now -> now < W64 ->
    let a' := switch_session a now (sevent_code e) in
    a_last a' = now /\
    (now - a_last a <= 1 -> a_cur a' = sstate_code (session_spec s e)) /\
    (1 < now - a_last a -> a_cur a' = sstate_code Nascent).
Proof. exact session_step. Qed.
Print Assumptions C15_session_life_cycle.

(* the event names cover exactly the alphabet 0..7 of lltdAutomata.h *)
Theorem C15_alphabet : map sevent_code all_sevents = [0; 1; 2; 3; 4; 5; 6; 7]%Z.
Proof. exact sevent_alphabet. Qed.
Print Assumptions C15_alphabet.

(* a fresh session starts Nascent *)
Theorem C15_initial : session_init = sstate_code Nascent.
Proof. reflexivity. Qed.
Print Assumptions C15_initial.
