(* placeholder until the proofs are integrated *)
From LLTD Require Import BufProofs.
Theorem C08_placeholder : True. Proof. exact I. Qed.
Print Assumptions C08_placeholder.
