(* C08: large properties retrievable byte-exactly by offset.
   Statements only: each theorem restates the full type of a lemma proved in coq/proofs and is closed by
   `exact`; Print Assumptions beneath.  Regenerate with bin/genprops.py after a lemma changes. *)
From LLTD Require Import BlockFun PropsLarge BufferLevel.

Theorem C08_response :
  forall (ctx : N) (c : pcfg) (g : gcfg) (mtu : N) (s : ist) (buf : list N) (h : hdr),
  parse_hdr buf = Some h ->
  is_discovery_tos (h_tos h) = true ->
  h_opc h = opcode_queryLargeTlv ->
  h_seq h <> 0%N ->
  snd (f_step ctx c g mtu s buf) =
  [tx ctx
  (qlt_frame c h (h_seq h) (fst (chunk_spec mtu (data_for g s (h_b0 h)) (h_w1 h)))
  (snd (chunk_spec mtu (data_for g s (h_b0 h)) (h_w1 h))))].
Proof. exact C08_step. Qed.
Print Assumptions C08_response.

Theorem C08_chunk_length :
  forall (mtu : N) (data : list N) (off : N),
  N.of_nat (length (fst (chunk_spec mtu data off))) =
  N.min (payload_max mtu) (N.of_nat (length data) - off).
Proof. exact C08_chunk_length. Qed.
Print Assumptions C08_chunk_length.

Theorem C08_fits_mtu :
  forall (c : pcfg) (mtu : N),
  (576 <= mtu <= 9216)%N ->
  forall (h : hdr) (seq : N) (data : list N) (off : N) (more : bool),
  length (qlt_frame c h seq (fst (chunk_spec mtu data off)) more) =
  34 + length (fst (chunk_spec mtu data off)) /\
  length (qlt_frame c h seq (fst (chunk_spec mtu data off)) more) <= o mtu.
Proof. exact C08_fits. Qed.
Print Assumptions C08_fits_mtu.

Theorem C08_seq_zero_ignored :
  forall (ctx : N) (c : pcfg) (g : gcfg) (mtu : N) (s : ist) (buf : list N) (h : hdr),
  parse_hdr buf = Some h ->
  h_opc h = opcode_queryLargeTlv -> h_seq h = 0%N -> f_step ctx c g mtu s buf = (s, []).
Proof. exact C08_seq0. Qed.
Print Assumptions C08_seq_zero_ignored.

Theorem C08_unknown_or_past_end :
  forall (mtu : N) (data : list N) (off : N),
  (N.of_nat (length data) <= off)%N -> chunk_spec mtu data off = ([], false).
Proof. exact C08_past_end. Qed.
Print Assumptions C08_unknown_or_past_end.

Theorem C08_wire_decoding :
  forall (c : pcfg) (h : hdr) (seq : N) (chunk : list N) (more : bool),
  (seq < 65536)%N ->
  (N.of_nat (length chunk) < 16384)%N ->
  decode_qlt (qlt_frame c h seq chunk more) = Some (seq, chunk, more).
Proof. exact decode_qlt_frame. Qed.
Print Assumptions C08_wire_decoding.

Theorem C08_reassembly :
  forall mtu : N,
  (576 <= mtu <= 9216)%N -> forall data : list N, fetch mtu (S (length data)) data 0 = Some data.
Proof. exact C08_reassemble. Qed.
Print Assumptions C08_reassembly.

Theorem C08_mapper_loop_end_to_end :
  forall (ctx : N) (c : pcfg) (g : gcfg) (mtu : N),
  (576 <= mtu <= 9216)%N ->
  forall (s : ist) (ty : N) (esrc edst rsrc rdst : mac) (seq : N),
  (0 < seq < 65536)%N ->
  (N.of_nat (length (data_for g s ty)) <= 65535)%N ->
  mapper_fetch ctx c g mtu (S (length (data_for g s ty))) (qlt_request esrc edst rsrc rdst seq ty) s 0 =
  Some (data_for g s ty).
Proof. exact C08_fetch_wire. Qed.
Print Assumptions C08_mapper_loop_end_to_end.

Theorem C08_offsets_fit :
  forall (mtu : N) (data : list N) (fuel : nat),
  (N.of_nat (length data) <= 65535)%N ->
  Forall (fun x : N => (x < 65536)%N) (fetch_offs mtu fuel data 0).
Proof. exact C08_offsets_16bit. Qed.
Print Assumptions C08_offsets_fit.

Theorem C08_icon_cached :
  forall (ctx : N) (c : pcfg) (g : gcfg) (mtu : N) (s : ist) (buf : list N) (h : hdr) (d : list N),
  parse_hdr buf = Some h ->
  is_discovery_tos (h_tos h) = true ->
  h_opc h = opcode_queryLargeTlv ->
  h_seq h <> 0%N ->
  h_b0 h = tlv_iconImage ->
  g_icon g = Some d ->
  icon (fst (f_step ctx c g mtu s buf)) = Some match icon s with
  | Some d0 => d0
  | None => d
  end.
Proof. exact C08_icon_cached. Qed.
Print Assumptions C08_icon_cached.

Theorem C08_hardware_id :
  forall g : gcfg,
  let v := hwid_value g in
  let sc := hwid_scratch g in
  v = firstn (length v) sc /\
  Nat.even (length v) = true /\
  length v <= 64 /\
  (forall k : nat, 2 * k + 1 < length v -> ~ (nth (2 * k) sc 0%N = 0%N /\ nth (2 * k + 1) sc 0%N = 0%N)) /\
  (length v < 64 -> nth (length v) sc 0%N = 0%N /\ nth (S (length v)) sc 0%N = 0%N).
Proof. exact C08_hwid_prefix. Qed.
Print Assumptions C08_hardware_id.

Theorem C08_on_the_buffer_level_model :
  forall (junk ctx : N) (c : pcfg) (g : gcfg) (mtu : N) (r : registry) (buf : list N)
  (w : world) (bl : nat) (bb : N) (h : hdr),
  c_mtu c = Some mtu ->
  (576 <= mtu)%N ->
  (mtu <= 9216)%N ->
  (mtu <= c_rxsize c)%N ->
  length buf = o (c_rxsize c) ->
  BlockSafe.ledger_reg bl bb r w ->
  parse_hdr buf = Some h ->
  is_discovery_tos (h_tos h) = true ->
  h_opc h = opcode_queryLargeTlv ->
  h_seq h <> 0%N ->
  let ch := chunk_spec mtu (data_for g (SystemRefinement.reg_state r ctx) (h_b0 h)) (h_w1 h) in
  exists (r' : registry) (w' : world),
  parse_frame no_fail no_fail junk ctx c g r buf w = Ok r' w' /\
  w_trace w' = tx ctx (qlt_frame c h (h_seq h) (fst ch) (snd ch)) :: w_trace w /\
  length (qlt_frame c h (h_seq h) (fst ch) (snd ch)) = 34 + length (fst ch) /\
  length (qlt_frame c h (h_seq h) (fst ch) (snd ch)) <= o mtu /\ BlockSafe.ledger_reg bl bb r' w'.
Proof. exact C08_buffer_level. Qed.
Print Assumptions C08_on_the_buffer_level_model.

Theorem C08_seq0_buffer_level :
  forall (junk ctx : N) (c : pcfg) (g : gcfg) (mtu : N) (r : registry) (buf : list N)
  (w : world) (bl : nat) (bb : N) (h : hdr),
  c_mtu c = Some mtu ->
  (576 <= mtu)%N ->
  (mtu <= 9216)%N ->
  (mtu <= c_rxsize c)%N ->
  length buf = o (c_rxsize c) ->
  BlockSafe.ledger_reg bl bb r w ->
  parse_hdr buf = Some h ->
  h_opc h = opcode_queryLargeTlv ->
  h_seq h = 0%N ->
  exists (r' : registry) (w' : world),
  parse_frame no_fail no_fail junk ctx c g r buf w = Ok r' w' /\
  w_trace w' = w_trace w /\
  (forall k : N, SystemRefinement.reg_state r' k = SystemRefinement.reg_state r k) /\
  BlockSafe.ledger_reg bl bb r' w'.
Proof. exact C08_buffer_level_seq0. Qed.
Print Assumptions C08_seq0_buffer_level.

Theorem C08_icon_buffer_level :
  forall (junk ctx : N) (c : pcfg) (g : gcfg) (mtu : N) (r : registry) (buf : list N)
  (w : world) (bl : nat) (bb : N) (h : hdr) (d : list N),
  c_mtu c = Some mtu ->
  (576 <= mtu)%N ->
  (mtu <= 9216)%N ->
  (mtu <= c_rxsize c)%N ->
  length buf = o (c_rxsize c) ->
  BlockSafe.ledger_reg bl bb r w ->
  parse_hdr buf = Some h ->
  is_discovery_tos (h_tos h) = true ->
  h_opc h = opcode_queryLargeTlv ->
  h_seq h <> 0%N ->
  h_b0 h = tlv_iconImage ->
  g_icon g = Some d ->
  exists (r' : registry) (w' : world),
  parse_frame no_fail no_fail junk ctx c g r buf w = Ok r' w' /\
  icon (SystemRefinement.reg_state r' ctx) =
  Some match icon (SystemRefinement.reg_state r ctx) with
  | Some d0 => d0
  | None => d
  end /\ BlockSafe.ledger_reg bl bb r' w'.
Proof. exact C08_buffer_level_icon. Qed.
Print Assumptions C08_icon_buffer_level.
