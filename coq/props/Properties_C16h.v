(* C16, history level: the table invariant holds after any history through the frame flow and the tick, not only through the table API; the executable dictionary used as run-time oracle refines the table.
   Statements only: each theorem restates the full type of a lemma proved in coq/proofs and is closed by
   `exact`; Print Assumptions beneath.  Regenerate with bin/genprops.py after a lemma changes. *)
From LLTD Require Import Automata Sys TableProofs AutomataHistory SpecExec DictRefinement.

Theorem C16_flow_preserves :
  forall (now_s : N) (h : hdr) (ev : Z) (t : stable), Inv t -> Inv (flow_table now_s h ev t).
Proof. exact flow_table_inv. Qed.
Print Assumptions C16_flow_preserves.

Theorem C16_tick_preserves :
  forall (now_s : N) (t : stable), Inv t -> Inv (tick_table now_s t).
Proof. exact tick_table_inv. Qed.
Print Assumptions C16_tick_preserves.

Theorem C16_after_any_history :
  forall (af sf : N -> bool) (junk : N) (ops : list op) (y : sys) (w : world),
  Forall hist_op ops ->
  HInv y w ->
  exists (y' : sys) (w' : world),
  SysSafe.run_ops af sf junk y ops w = Ok y' w' /\
  (forall ctx : N,
  Inv (a_tbl (aset_of y' ctx)) /\ (t_count (a_tbl (aset_of y' ctx)) <= SESSION_TABLE_MAX_ENTRIES)%N).
Proof. exact C16_history_flow. Qed.
Print Assumptions C16_after_any_history.

Theorem C16_dictionary_refines_any_history :
  forall ops : list top,
  Permutation.Permutation (fold_left dstep ops []) (abs (fold_left tstep ops table0)).
Proof. exact dict_history_refines. Qed.
Print Assumptions C16_dictionary_refines_any_history.

Theorem C16_dictionary_observations_agree :
  forall ops : list top,
  let d := fold_left dstep ops [] in
  let t := fold_left tstep ops table0 in
  length d = N.to_nat (t_count t) /\
  d_all_complete d = t_allc t /\
  (forall k0 k1 k2 k3 k4 k5 g : N,
  d_has d k0 k1 k2 k3 k4 k5 g = true <->
  st_find t {| m0 := k0; m1 := k1; m2 := k2; m3 := k3; m4 := k4; m5 := k5 |} g <> None) /\
  (forall now k0 k1 k2 k3 k4 k5 g seq : N,
  snd (d_add d now k0 k1 k2 k3 k4 k5 g seq) = true <->
  snd (st_add t now {| m0 := k0; m1 := k1; m2 := k2; m3 := k3; m4 := k4; m5 := k5 |} g seq) <> None).
Proof. exact dict_history_observations. Qed.
Print Assumptions C16_dictionary_observations_agree.

Theorem C16_dictionary_add :
  forall (k0 k1 k2 k3 k4 k5 : N) (t : stable) (now g seq : N),
  Inv t ->
  Permutation.Permutation (fst (d_add (abs t) now k0 k1 k2 k3 k4 k5 g seq))
  (abs (fst (st_add t now {| m0 := k0; m1 := k1; m2 := k2; m3 := k3; m4 := k4; m5 := k5 |} g seq))) /\
  (snd (d_add (abs t) now k0 k1 k2 k3 k4 k5 g seq) = true <->
  snd (st_add t now {| m0 := k0; m1 := k1; m2 := k2; m3 := k3; m4 := k4; m5 := k5 |} g seq) <> None) /\
  (snd (d_add (abs t) now k0 k1 k2 k3 k4 k5 g seq) = false <->
  d_has (abs t) k0 k1 k2 k3 k4 k5 g = false /\ length (abs t) = 16).
Proof. exact dict_add_refines. Qed.
Print Assumptions C16_dictionary_add.

Theorem C16_dictionary_tick :
  forall (t : stable) (now_s : N),
  Inv t -> Permutation.Permutation (d_tick (abs t) now_s) (abs (tick_table now_s t)).
Proof. exact dict_tick_refines. Qed.
Print Assumptions C16_dictionary_tick.

Theorem C16_dictionary_all_complete :
  forall t : stable, Inv t -> d_all_complete (abs t) = t_allc t.
Proof. exact dict_all_complete_refines. Qed.
Print Assumptions C16_dictionary_all_complete.

Theorem C16_dictionary_count :
  forall t : stable, Inv t -> length (abs t) = N.to_nat (t_count t).
Proof. exact dict_count. Qed.
Print Assumptions C16_dictionary_count.
