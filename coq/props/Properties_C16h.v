(* C16, history level: the table invariant holds after any history through the frame flow and the tick, not only through the table API.
   Statements only: each theorem restates the full type of a lemma proved in coq/proofs and is closed by
   `exact`; Print Assumptions beneath.  Regenerate with bin/genprops.py after a lemma changes. *)
From LLTD Require Import Automata Sys TableProofs AutomataHistory.

Theorem C16_flow_preserves :
  forall (now_s : N) (h : hdr) (ev : Z) (t : stable), Inv t -> Inv (flow_table now_s h ev t).
Proof. exact flow_table_inv. Qed.
Print Assumptions C16_flow_preserves.

Theorem C16_tick_preserves :
  forall (now_s : N) (t : stable), Inv t -> Inv (tick_table now_s t).
Proof. exact tick_table_inv. Qed.
Print Assumptions C16_tick_preserves.

Theorem C16_after_any_history :
  forall (af sf : N -> bool) (junk : N) (ops : list op) (y : sys) (w : world),
  Forall hist_op ops ->
  HInv y w ->
  exists (y' : sys) (w' : world),
  SysSafe.run_ops af sf junk y ops w = Ok y' w' /\
  (forall ctx : N,
  Inv (a_tbl (aset_of y' ctx)) /\ (t_count (a_tbl (aset_of y' ctx)) <= SESSION_TABLE_MAX_ENTRIES)%N).
Proof. exact C16_history_flow. Qed.
Print Assumptions C16_after_any_history.
