(* C03: an accepted Discover is answered by exactly one correct Hello.
   Statements only: each theorem restates the full type of a lemma proved in coq/proofs and is closed by
   `exact`; Print Assumptions beneath.  Regenerate with bin/genprops.py after a lemma changes. *)
From LLTD Require Import BlockFun BlockNominal PropsMapper SystemRefinement BufferLevel HelloHistory.

Theorem C03_accepted_discover_one_hello :
  forall (ctx : N) (c : pcfg) (g : gcfg) (mtu : N) (s : ist) (buf : list N) (h : hdr),
  parse_hdr buf = Some h ->
  is_discover h = true ->
  matches s h = true ->
  snd (f_step ctx c g mtu s buf) =
  (if (h_tos h =? tos_discovery)%N then [Sleep 10] else []) ++ [tx ctx (hello_frame c g h (h_w0 h))].
Proof. exact C03_one_hello. Qed.
Print Assumptions C03_accepted_discover_one_hello.

Theorem C03_hello_fields :
  forall (c : pcfg) (g : gcfg) (h : hdr) (gen : N),
  hello_frame c g h gen =
  header_bytes (own c) bcast (own c) bcast 0 opcode_hello (h_tos h) ++
  be16 gen ++ mac_bytes (h_rsrc h) ++ mac_bytes (h_esrc h) ++ concat (hello_tlvs c g).
Proof. exact C03_hello_shape. Qed.
Print Assumptions C03_hello_fields.

Theorem C03_generation_of_that_discover :
  forall (ctx : N) (c : pcfg) (g : gcfg) (mtu : N) (s : ist) (buf : list N) (h : hdr),
  parse_hdr buf = Some h ->
  is_discover h = true ->
  matches s h = true -> get_gen (fst (f_step ctx c g mtu s buf)) (h_tos h) = h_w0 h.
Proof. exact C03_generation_recorded. Qed.
Print Assumptions C03_generation_of_that_discover.

Theorem C03_refused_discover_silence :
  forall (ctx : N) (c : pcfg) (g : gcfg) (mtu : N) (s : ist) (buf : list N) (h : hdr),
  parse_hdr buf = Some h ->
  is_discover h = true -> matches s h = false -> f_step ctx c g mtu s buf = (s, []).
Proof. exact C03_rejected. Qed.
Print Assumptions C03_refused_discover_silence.

Theorem C03_hellos_heard_change_nothing :
  forall (ctx : N) (c : pcfg) (g : gcfg) (mtu : N) (s : ist) (buf : list N) (h : hdr),
  parse_hdr buf = Some h -> h_opc h = opcode_hello -> f_step ctx c g mtu s buf = (s, []).
Proof. exact C03_hello_heard. Qed.
Print Assumptions C03_hellos_heard_change_nothing.

Theorem C03_buffer_level_model_refines :
  forall (junk ctx : N) (c : pcfg) (g : gcfg) (mtu : N),
  c_mtu c = Some mtu ->
  (576 <= mtu)%N ->
  (mtu <= 9216)%N ->
  (mtu <= c_rxsize c)%N ->
  forall (s : ist) (buf : list N) (w : world) (bl : nat) (bb : N),
  length buf = o (c_rxsize c) ->
  ledger_frame bl bb s w ->
  exists w' : world,
  parse_frame_st no_fail no_fail junk ctx c g s buf w = Ok (fst (f_step ctx c g mtu s buf)) w' /\
  w_trace w' = rev (snd (f_step ctx c g mtu s buf)) ++ w_trace w /\
  ledger_frame bl bb (fst (f_step ctx c g mtu s buf)) w' /\ w_now w' = w_now w.
Proof. exact step_nominal. Qed.
Print Assumptions C03_buffer_level_model_refines.

Theorem C03_on_the_buffer_level_model :
  forall (junk ctx : N) (c : pcfg) (g : gcfg) (mtu : N) (r : registry) (buf : list N)
  (w : world) (bl : nat) (bb : N) (h : hdr),
  c_mtu c = Some mtu ->
  (576 <= mtu)%N ->
  (mtu <= 9216)%N ->
  (mtu <= c_rxsize c)%N ->
  length buf = o (c_rxsize c) ->
  BlockSafe.ledger_reg bl bb r w ->
  parse_hdr buf = Some h ->
  is_discover h = true ->
  matches (reg_state r ctx) h = true ->
  exists (r' : registry) (w' : world),
  parse_frame no_fail no_fail junk ctx c g r buf w = Ok r' w' /\
  w_trace w' =
  rev
  ((if (h_tos h =? tos_discovery)%N then [Sleep 10] else []) ++
  [tx ctx (hello_frame c g h (h_w0 h))]) ++ w_trace w /\ BlockSafe.ledger_reg bl bb r' w'.
Proof. exact C03_buffer_level. Qed.
Print Assumptions C03_on_the_buffer_level_model.

Theorem C03_every_hello_of_any_history :
  forall (junk : N) (cfgs : N -> pcfg) (g : gcfg) (mtus : N -> N),
  cfgs_nominal cfgs mtus ->
  (forall k : N, TxProofs.cfg_wf (cfgs k) g) ->
  forall (l : list BlockSafe.fop) (r : registry) (w : world) (bl : nat) (bb : N),
  Forall (fop_len cfgs) l ->
  BlockSafe.ledger_reg bl bb r w ->
  exists (r' : registry) (w' : world) (ta : list (N * action)),
  BlockSafe.run_frames no_fail no_fail junk cfgs g r l w = Ok r' w' /\
  ta = snd (Isolation.sys_run cfgs g mtus (reg_state r) (fframes l)) /\
  w_trace w' = rev (map snd ta) ++ w_trace w /\
  BlockSafe.ledger_reg bl bb r' w' /\
  (forall (k k' : N) (ok : bool) (fr : list N),
  In (k, Send k' ok fr) ta -> nth 17 fr 0%N = opcode_hello -> hello_explained cfgs g l k k' ok fr).
Proof. exact C03_C04_buffer_level_history. Qed.
Print Assumptions C03_every_hello_of_any_history.

Theorem C03_hello_only_for_an_accepted_discover :
  forall (junk : N) (cfgs : N -> pcfg) (g : gcfg) (mtus : N -> N),
  cfgs_nominal cfgs mtus ->
  forall (l : list BlockSafe.fop) (r : registry) (w : world) (bl : nat) (bb : N),
  Forall (fop_len cfgs) l ->
  BlockSafe.ledger_reg bl bb r w ->
  exists (r' : registry) (w' : world) (ta : list (N * action)),
  BlockSafe.run_frames no_fail no_fail junk cfgs g r l w = Ok r' w' /\
  ta = snd (Isolation.sys_run cfgs g mtus (reg_state r) (fframes l)) /\
  w_trace w' = rev (map snd ta) ++ w_trace w /\
  (forall (k k' : N) (ok : bool) (fr : list N),
  In (k, Send k' ok fr) ta ->
  nth 17 fr 0%N = opcode_hello ->
  exists (l1 : list (N * list N)) (buf : list N) (l2 : list (N * list N))
  (h : hdr),
  fframes l = l1 ++ (k, buf) :: l2 /\
  parse_hdr buf = Some h /\
  is_discover h = true /\
  (let s := fst (Isolation.sys_run cfgs g mtus (reg_state r) l1) k in
  (active s = None \/ active s = Some (h_rsrc h)) /\
  k' = k /\ ok = true /\ fr = hello_frame (cfgs k) g h (h_w0 h))).
Proof. exact C03_hello_accepted_history. Qed.
Print Assumptions C03_hello_only_for_an_accepted_discover.
