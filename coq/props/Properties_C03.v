(* placeholder until the proofs are integrated *)
From LLTD Require Import BufProofs.
Theorem C03_placeholder : True. Proof. exact I. Qed.
Print Assumptions C03_placeholder.
