(* C09: a topology Reset returns the responder to fresh-start behaviour.
   Statements only: each theorem restates the full type of a lemma proved in coq/proofs and is closed by
   `exact`; Print Assumptions beneath.  Regenerate with bin/genprops.py after a lemma changes. *)
From LLTD Require Import BlockFun PropsMapper SystemRefinement.

Theorem C09_normalisation_step :
  forall (ctx : N) (c : pcfg) (g : gcfg) (mtu : N) (s : ist) (buf : list N),
  snd (f_step ctx c g mtu s buf) = snd (f_step ctx c g mtu (norm s) buf) /\
  norm (fst (f_step ctx c g mtu s buf)) = norm (fst (f_step ctx c g mtu (norm s) buf)).
Proof. exact C09_norm_step. Qed.
Print Assumptions C09_normalisation_step.

Theorem C09_reset_gives_fresh :
  forall (ctx : N) (c : pcfg) (g : gcfg) (mtu : N) (s : ist) (buf : list N) (h : hdr),
  parse_hdr buf = Some h ->
  h_tos h = tos_discovery ->
  h_opc h = opcode_reset ->
  norm (fst (f_step ctx c g mtu s buf)) = fresh /\ snd (f_step ctx c g mtu s buf) = [].
Proof. exact C09_reset_fresh. Qed.
Print Assumptions C09_reset_gives_fresh.

Theorem C09_after_reset_like_fresh :
  forall (ctx : N) (c : pcfg) (g : gcfg) (mtu : N) (s : ist) (hist : list (list N))
  (rbuf : list N) (h : hdr) (cont : list (list N)),
  parse_hdr rbuf = Some h ->
  h_tos h = tos_discovery ->
  h_opc h = opcode_reset ->
  snd (f_run ctx c g mtu (fst (f_step ctx c g mtu (fst (f_run ctx c g mtu s hist)) rbuf)) cont) =
  snd (f_run ctx c g mtu fresh cont).
Proof. exact C09_history. Qed.
Print Assumptions C09_after_reset_like_fresh.

Theorem C09_one_run :
  forall (ctx : N) (c : pcfg) (g : gcfg) (mtu : N) (s : ist) (hist : list (list N))
  (rbuf : list N) (h : hdr) (cont : list (list N)),
  parse_hdr rbuf = Some h ->
  h_tos h = tos_discovery ->
  h_opc h = opcode_reset ->
  snd (f_run ctx c g mtu s (hist ++ rbuf :: cont)) =
  snd (f_run ctx c g mtu s hist) ++ snd (f_run ctx c g mtu fresh cont).
Proof. exact C09_history_run. Qed.
Print Assumptions C09_one_run.

Theorem C09_on_the_buffer_level_model :
  forall (junk : N) (cfgs : N -> pcfg) (g : gcfg) (mtus : N -> N),
  cfgs_nominal cfgs mtus ->
  forall (ctx : N) (hist : list (list N)) (rbuf : list N) (h : hdr) (cont : list (list N))
  (r : registry) (w : world) (bl : nat) (bb : N) (r0 : registry) (w0 : world)
  (bl0 : nat) (bb0 : N),
  Forall (buf_len cfgs ctx) hist ->
  buf_len cfgs ctx rbuf ->
  Forall (buf_len cfgs ctx) cont ->
  parse_hdr rbuf = Some h ->
  h_tos h = tos_discovery ->
  h_opc h = opcode_reset ->
  BlockSafe.ledger_reg bl bb r w ->
  reg_find r0 ctx = None ->
  BlockSafe.ledger_reg bl0 bb0 r0 w0 ->
  exists
  (r1 : registry) (w1 : world) (r2 : registry) (w2 : world) (r3 : registry)
  (w3 : world) (acts : list action),
  BlockSafe.run_frames no_fail no_fail junk cfgs g r (on ctx (hist ++ [rbuf])) w = Ok r1 w1 /\
  BlockSafe.run_frames no_fail no_fail junk cfgs g r1 (on ctx cont) w1 = Ok r2 w2 /\
  BlockSafe.run_frames no_fail no_fail junk cfgs g r0 (on ctx cont) w0 = Ok r3 w3 /\
  w_trace w2 = rev acts ++ w_trace w1 /\
  w_trace w3 = rev acts ++ w_trace w0 /\ acts = snd (f_run ctx (cfgs ctx) g (mtus ctx) fresh cont).
Proof. exact C09_buffer_level. Qed.
Print Assumptions C09_on_the_buffer_level_model.
