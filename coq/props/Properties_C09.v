(* placeholder until the proofs are integrated *)
From LLTD Require Import BufProofs.
Theorem C09_placeholder : True. Proof. exact I. Qed.
Print Assumptions C09_placeholder.
