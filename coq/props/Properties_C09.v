(* C09: a topology Reset returns the responder to fresh-start behaviour.
   Statements only: each theorem restates the full type of a lemma proved in coq/proofs and is closed by
   `exact`; Print Assumptions beneath.  Regenerate with bin/genprops.py after a lemma changes. *)
From LLTD Require Import BlockFun PropsMapper.

Theorem C09_normalisation_step :
  forall (ctx : N) (c : pcfg) (g : gcfg) (mtu : N) (s : ist) (buf : list N),
  snd (f_step ctx c g mtu s buf) = snd (f_step ctx c g mtu (norm s) buf) /\
  norm (fst (f_step ctx c g mtu s buf)) = norm (fst (f_step ctx c g mtu (norm s) buf)).
Proof. exact C09_norm_step. Qed.
Print Assumptions C09_normalisation_step.

Theorem C09_reset_gives_fresh :
  forall (ctx : N) (c : pcfg) (g : gcfg) (mtu : N) (s : ist) (buf : list N) (h : hdr),
  parse_hdr buf = Some h ->
  h_tos h = tos_discovery ->
  h_opc h = opcode_reset ->
  norm (fst (f_step ctx c g mtu s buf)) = fresh /\ snd (f_step ctx c g mtu s buf) = [].
Proof. exact C09_reset_fresh. Qed.
Print Assumptions C09_reset_gives_fresh.

Theorem C09_after_reset_like_fresh :
  forall (ctx : N) (c : pcfg) (g : gcfg) (mtu : N) (s : ist) (hist : list (list N))
  (rbuf : list N) (h : hdr) (cont : list (list N)),
  parse_hdr rbuf = Some h ->
  h_tos h = tos_discovery ->
  h_opc h = opcode_reset ->
  snd (f_run ctx c g mtu (fst (f_step ctx c g mtu (fst (f_run ctx c g mtu s hist)) rbuf)) cont) =
  snd (f_run ctx c g mtu fresh cont).
Proof. exact C09_history. Qed.
Print Assumptions C09_after_reset_like_fresh.

Theorem C09_one_run :
  forall (ctx : N) (c : pcfg) (g : gcfg) (mtu : N) (s : ist) (hist : list (list N))
  (rbuf : list N) (h : hdr) (cont : list (list N)),
  parse_hdr rbuf = Some h ->
  h_tos h = tos_discovery ->
  h_opc h = opcode_reset ->
  snd (f_run ctx c g mtu s (hist ++ rbuf :: cont)) =
  snd (f_run ctx c g mtu s hist) ++ snd (f_run ctx c g mtu fresh cont).
Proof. exact C09_history_run. Qed.
Print Assumptions C09_one_run.
