(* C13, history level: the RepeatBand bounds hold after ANY history of receive-path operations, ticks and automata API calls.
   Statements only: each theorem restates the full type of a lemma proved in coq/proofs and is closed by
   `exact`; Print Assumptions beneath.  Regenerate with bin/genprops.py after a lemma changes. *)
From LLTD Require Import Automata Sys AutomataHistory SpecExec ExpectSound.

Theorem C13_after_any_history :
  forall (af sf : N -> bool) (junk : N) (ops : list op) (y : sys) (w : world),
  Forall hist_op ops ->
  HInv y w ->
  exists (y' : sys) (w' : world),
  SysSafe.run_ops af sf junk y ops w = Ok y' w' /\
  (forall ctx : N,
  let b := a_band (aset_of y' ctx) in
  (BAND_ALPHA <= b_ni b <= BAND_NMAX)%N /\
  (b_r b < W32)%N /\ (b_hts b <= w_now w' + HTS_AHEAD)%N /\ (b_bts b <= w_now w' + BAND_BLOCK_TIME)%N).
Proof. exact C13_history. Qed.
Print Assumptions C13_after_any_history.

Theorem C13_choice_after_any_history :
  forall (af sf : N -> bool) (junk : N) (ops : list op) (ctx : N) (y : sys) (w : world),
  Forall hist_op ops ->
  HInv y w ->
  exists (y1 : sys) (w1 : world) (y' : sys) (w' : world),
  SysSafe.run_ops af sf junk y ops w = Ok y1 w1 /\
  SysSafe.run_ops af sf junk y (ops ++ [OBandChoose ctx]) w = Ok y' w' /\
  w_now w' = w_now w1 /\
  ((w_now w1 + HTS_AHEAD < W64)%N ->
  b_hts (a_band (aset_of y' ctx)) = (w_now w1 + hello_interval (b_ni (a_band (aset_of y1 ctx))))%N /\
  (w_now w1 + BAND_MUL_FRAME_1 <= b_hts (a_band (aset_of y' ctx)) <= w_now w1 + HTS_AHEAD)%N).
Proof. exact C13_history_choose. Qed.
Print Assumptions C13_choice_after_any_history.

Theorem C13_tick_after_any_history :
  forall (af sf : N -> bool) (junk : N) (ops : list op) (ctx : N) (y : sys) (w : world),
  Forall hist_op ops ->
  HInv y w ->
  exists (y' : sys) (w' : world),
  SysSafe.run_ops af sf junk y (ops ++ [OTick ctx]) w = Ok y' w' /\
  ((w_now w' + HTS_AHEAD < W64)%N ->
  a_cur (a_enum (aset_of y' ctx)) = 1%N ->
  b_hts (a_band (aset_of y' ctx)) = 0%N \/ (w_now w' < b_hts (a_band (aset_of y' ctx)))%N).
Proof. exact C13_history_tick. Qed.
Print Assumptions C13_tick_after_any_history.

Theorem C13_runtime_expectation_sound :
  forall (now : N) (b : band),
  (b_r b < W32)%N ->
  (SpecAutomata.ALPHA <= b_ni b <= SpecAutomata.NMAX)%N ->
  b_ni (band_update now b) = ni_expect (b_r b) (b_begun b) (b_ni b) /\
  (SpecAutomata.ALPHA <= ni_expect (b_r b) (b_begun b) (b_ni b) <= SpecAutomata.NMAX)%N.
Proof. exact ni_expect_sound. Qed.
Print Assumptions C13_runtime_expectation_sound.
