(* C20 - the protocol core reaches the outside world only through the port API.
   The facts (coq/gen/Symbols.v) are regenerated on every run by bin/symfacts.py: the four core files compiled on
   their own by {gcc, clang} x {-O0, -O2, -Os} x {hosted, -ffreestanding}, linked relocatably, `nm -u`; the port
   API parsed from lltdPort.h; system headers included by the core; the repository's own lint script.  The domain
   is finite and enumerated completely; the weight of this property is on the translator, the theorems are the
   complete enumeration checked by the kernel. *)
From Coq Require Import List String Bool.
From LLTD Require Import Symbols SpecSymbols.
Import ListNotations.

Theorem C20_twelve_configurations_built : List.length builds = 12%nat /\ build_errors = [].
Proof. split; reflexivity. Qed.
Theorem C20_only_port_api_and_memory_primitives :
  forallb (fun b => forallb (allowed port_api) (snd (fst b))) builds = true.
Proof. vm_compute. reflexivity. Qed.
(* beyond the property's twelve: position-independent builds and five other targets (Windows x86-64 / x86, AArch64,
   32-bit ARM and RISC-V bare metal), 14 further configurations *)
Theorem C20_further_configurations :
  List.length extra_builds = 14%nat /\ forallb (fun b => forallb (allowed port_api) (snd b)) extra_builds = true.
Proof. vm_compute. split; reflexivity. Qed.
Theorem C20_port_api_is_a_name_space : forallb is_port_name port_api = true.
Proof. vm_compute. reflexivity. Qed.
Theorem C20_no_library_or_os_header :
  forallb (fun f => forallb (mem_eqb freestanding_headers) (snd f)) system_includes = true.
Proof. vm_compute. reflexivity. Qed.
Theorem C20_repository_lint_clean : lint_hits = [].
Proof. reflexivity. Qed.
(* premise of C17: the only writable datum of the core is the interface registry *)
Theorem C17_premise_single_writable_global :
  forallb (fun b => forallb (String.eqb "g_iface_states") (snd b)) builds = true.
Proof. vm_compute. reflexivity. Qed.
Print Assumptions C20_only_port_api_and_memory_primitives.
Print Assumptions C20_no_library_or_os_header.
