(* placeholder until the proofs are integrated *)
From LLTD Require Import BufProofs.
Theorem C20_placeholder : True. Proof. exact I. Qed.
Print Assumptions C20_placeholder.
