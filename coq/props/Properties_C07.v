(* placeholder until the proofs are integrated *)
From LLTD Require Import BufProofs.
Theorem C07_placeholder : True. Proof. exact I. Qed.
Print Assumptions C07_placeholder.
