(* C07: every observed probe reported exactly once.
   Statements only: each theorem restates the full type of a lemma proved in coq/proofs and is closed by
   `exact`; Print Assumptions beneath.  Regenerate with bin/genprops.py after a lemma changes. *)
From LLTD Require Import BlockFun PropsQuery BufferLevel QueryHistory.

Theorem C07_record_rule :
  forall (ctx : N) (c : pcfg) (g : gcfg) (mtu : N) (s : ist) (buf : list N) (h : hdr),
  parse_hdr buf = Some h ->
  is_probe h = true ->
  snd (f_step ctx c g mtu s buf) = [] /\
  fst (f_step ctx c g mtu s buf) =
  with_see s
  (if for_us c h && negb (see_full s) && negb (existsb (obs_key_eqb (obs_of h)) (see s))
  then obs_of h :: see s
  else see s).
Proof. exact C07_record. Qed.
Print Assumptions C07_record_rule.

Theorem C07_no_duplicate_keys :
  forall (ctx : N) (c : pcfg) (g : gcfg) (mtu : N) (bufs : list (list N)) (s : ist),
  nodupb (see s) = true -> nodupb (see (fst (f_run ctx c g mtu s bufs))) = true.
Proof. exact C07_nodup_run. Qed.
Print Assumptions C07_no_duplicate_keys.

Theorem C07_query_reports :
  forall (ctx : N) (c : pcfg) (g : gcfg) (mtu : N) (s : ist) (buf : list N) (h : hdr),
  parse_hdr buf = Some h ->
  is_query h = true ->
  let cap := qcap mtu in
  snd (f_step ctx c g mtu s buf) =
  [tx ctx (qresp_frame c h (h_seq h) (firstn cap (see s)) (cap <? length (see s)))] /\
  see (fst (f_step ctx c g mtu s buf)) = skipn cap (see s).
Proof. exact C07_query. Qed.
Print Assumptions C07_query_reports.

Theorem C07_query_on_the_wire :
  forall (ctx : N) (c : pcfg) (g : gcfg) (mtu : N) (s : ist) (b : list N) (h : hdr),
  (576 <= mtu <= 9216)%N ->
  parse_hdr b = Some h ->
  is_query h = true ->
  Forall (fun x : N => (x < 256)%N) b ->
  types_ok (see s) ->
  exists fr : list N,
  snd (f_step ctx c g mtu s b) = [tx ctx fr] /\
  decode_qresp fr = Some (h_seq h, qcap mtu <? length (see s), delivered_step mtu s b).
Proof. exact C07_query_decoded. Qed.
Print Assumptions C07_query_on_the_wire.

Theorem C07_reply_destination :
  forall h : hdr,
  (h_rsrc h = h_esrc h -> reply_dst h = h_rsrc h) /\ (h_rsrc h <> h_esrc h -> reply_dst h = bcast).
Proof. exact reply_dst_spec. Qed.
Print Assumptions C07_reply_destination.

Theorem C07_other_frames_keep :
  forall (ctx : N) (c : pcfg) (g : gcfg) (mtu : N) (s : ist) (buf : list N) (h : hdr),
  parse_hdr buf = Some h ->
  is_probe h = false ->
  is_query h = false -> is_topo_reset h = false -> see (fst (f_step ctx c g mtu s buf)) = see s.
Proof. exact C07_others_keep. Qed.
Print Assumptions C07_other_frames_keep.

Theorem C07_reset_discards :
  forall (ctx : N) (c : pcfg) (g : gcfg) (mtu : N) (s : ist) (buf : list N) (h : hdr),
  parse_hdr buf = Some h -> is_topo_reset h = true -> see (fst (f_step ctx c g mtu s buf)) = [].
Proof. exact C07_reset_discards. Qed.
Print Assumptions C07_reset_discards.

Theorem C07_conservation :
  forall (ctx : N) (c : pcfg) (g : gcfg) (mtu : N) (s : ist) (bufs : list (list N)),
  Forall not_topo_reset bufs ->
  Permutation.Permutation (delivered_run ctx c g mtu s bufs ++ see (fst (f_run ctx c g mtu s bufs)))
  (recorded_run ctx c g mtu s bufs ++ see s).
Proof. exact C07_conservation. Qed.
Print Assumptions C07_conservation.

Theorem C07_drain :
  forall (ctx : N) (c : pcfg) (g : gcfg) (mtu : N) (s : ist) (qs : list (list N)),
  Forall query_frame qs ->
  length (see s) <= length qs * qcap mtu ->
  delivered_run ctx c g mtu s qs = see s /\ see (fst (f_run ctx c g mtu s qs)) = [].
Proof. exact C07_drain. Qed.
Print Assumptions C07_drain.

Theorem C07_drain_last_clear :
  forall (ctx : N) (c : pcfg) (g : gcfg) (mtu : N) (s : ist) (qs : list (list N)) (b : list N) (h : hdr),
  Forall query_frame (qs ++ [b]) ->
  length (see s) <= length (qs ++ [b]) * qcap mtu ->
  parse_hdr b = Some h ->
  let s' := fst (f_run ctx c g mtu s qs) in
  (qcap mtu <? length (see s')) = false /\
  snd (f_step ctx c g mtu s' b) = [tx ctx (qresp_frame c h (h_seq h) (see s') false)].
Proof. exact C07_drain_last. Qed.
Print Assumptions C07_drain_last_clear.

Theorem C07_on_the_buffer_level_model :
  forall (junk ctx : N) (c : pcfg) (g : gcfg) (mtu : N) (r : registry) (buf : list N)
  (w : world) (bl : nat) (bb : N) (h : hdr),
  c_mtu c = Some mtu ->
  (576 <= mtu)%N ->
  (mtu <= 9216)%N ->
  (mtu <= c_rxsize c)%N ->
  length buf = o (c_rxsize c) ->
  BlockSafe.ledger_reg bl bb r w ->
  parse_hdr buf = Some h ->
  is_query h = true ->
  let cap := qcap mtu in
  let recorded := see (SystemRefinement.reg_state r ctx) in
  exists (r' : registry) (w' : world),
  parse_frame no_fail no_fail junk ctx c g r buf w = Ok r' w' /\
  w_trace w' =
  tx ctx (qresp_frame c h (h_seq h) (firstn cap recorded) (cap <? length recorded)) :: w_trace w /\
  see (SystemRefinement.reg_state r' ctx) = skipn cap recorded /\ BlockSafe.ledger_reg bl bb r' w'.
Proof. exact C07_buffer_level. Qed.
Print Assumptions C07_on_the_buffer_level_model.

Theorem C07_decoded_buffer_level :
  forall (junk ctx : N) (c : pcfg) (g : gcfg) (mtu : N) (r : registry) (buf : list N)
  (w : world) (bl : nat) (bb : N) (h : hdr),
  c_mtu c = Some mtu ->
  (576 <= mtu)%N ->
  (mtu <= 9216)%N ->
  (mtu <= c_rxsize c)%N ->
  length buf = o (c_rxsize c) ->
  BlockSafe.ledger_reg bl bb r w ->
  parse_hdr buf = Some h ->
  is_query h = true ->
  Forall (fun x : N => (x < 256)%N) buf ->
  types_ok (see (SystemRefinement.reg_state r ctx)) ->
  exists (r' : registry) (w' : world) (fr : list N),
  parse_frame no_fail no_fail junk ctx c g r buf w = Ok r' w' /\
  w_trace w' = tx ctx fr :: w_trace w /\
  decode_qresp fr =
  Some
  (h_seq h, qcap mtu <? length (see (SystemRefinement.reg_state r ctx)),
  firstn (qcap mtu) (see (SystemRefinement.reg_state r ctx))) /\
  see (SystemRefinement.reg_state r' ctx) = skipn (qcap mtu) (see (SystemRefinement.reg_state r ctx)) /\
  BlockSafe.ledger_reg bl bb r' w'.
Proof. exact C07_buffer_level_decoded. Qed.
Print Assumptions C07_decoded_buffer_level.

Theorem C07_record_buffer_level :
  forall (junk ctx : N) (c : pcfg) (g : gcfg) (mtu : N) (r : registry) (buf : list N)
  (w : world) (bl : nat) (bb : N) (h : hdr),
  c_mtu c = Some mtu ->
  (576 <= mtu)%N ->
  (mtu <= 9216)%N ->
  (mtu <= c_rxsize c)%N ->
  length buf = o (c_rxsize c) ->
  BlockSafe.ledger_reg bl bb r w ->
  parse_hdr buf = Some h ->
  is_probe h = true ->
  let s := SystemRefinement.reg_state r ctx in
  exists (r' : registry) (w' : world),
  parse_frame no_fail no_fail junk ctx c g r buf w = Ok r' w' /\
  w_trace w' = w_trace w /\
  SystemRefinement.reg_state r' ctx =
  with_see s
  (if for_us c h && negb (see_full s) && negb (existsb (obs_key_eqb (obs_of h)) (see s))
  then obs_of h :: see s
  else see s) /\ BlockSafe.ledger_reg bl bb r' w'.
Proof. exact C07_buffer_level_record. Qed.
Print Assumptions C07_record_buffer_level.

Theorem C07_conservation_over_any_history_buffer_level :
  forall (junk : N) (cfgs : N -> pcfg) (g : gcfg) (mtus : N -> N),
  SystemRefinement.cfgs_nominal cfgs mtus ->
  forall (l : list (N * list N)) (r : registry) (w : world) (bl : nat) (bb ctx : N),
  Forall (SystemRefinement.frame_len cfgs) l ->
  BlockSafe.ledger_reg bl bb r w ->
  Forall bytes_ok (Isolation.frames_of ctx l) ->
  Forall not_topo_reset (Isolation.frames_of ctx l) ->
  types_ok (see (SystemRefinement.reg_state r ctx)) ->
  exists (r' : registry) (w' : world) (tagged : list (N * action)) (delivered : list obs),
  BlockSafe.run_frames no_fail no_fail junk cfgs g r (SystemRefinement.as_fops l) w = Ok r' w' /\
  w_trace w' = rev (map snd tagged) ++ w_trace w /\
  Isolation.acts_of ctx tagged =
  snd
  (f_run ctx (cfgs ctx) g (mtus ctx) (SystemRefinement.reg_state r ctx) (Isolation.frames_of ctx l)) /\
  SystemRefinement.reg_state r' ctx =
  fst
  (f_run ctx (cfgs ctx) g (mtus ctx) (SystemRefinement.reg_state r ctx) (Isolation.frames_of ctx l)) /\
  answers ctx (Isolation.frames_of ctx l) (Isolation.acts_of ctx tagged) delivered /\
  Permutation.Permutation (delivered ++ see (SystemRefinement.reg_state r' ctx))
  (recorded_run ctx (cfgs ctx) g (mtus ctx) (SystemRefinement.reg_state r ctx)
  (Isolation.frames_of ctx l) ++ see (SystemRefinement.reg_state r ctx)).
Proof. exact C07_buffer_level_history. Qed.
Print Assumptions C07_conservation_over_any_history_buffer_level.

Theorem C07_no_duplicates_over_any_history_buffer_level :
  forall (junk : N) (cfgs : N -> pcfg) (g : gcfg) (mtus : N -> N),
  SystemRefinement.cfgs_nominal cfgs mtus ->
  forall (l : list (N * list N)) (r : registry) (w : world) (bl : nat) (bb ctx : N),
  Forall (SystemRefinement.frame_len cfgs) l ->
  BlockSafe.ledger_reg bl bb r w ->
  nodupb (see (SystemRefinement.reg_state r ctx)) = true ->
  exists (r' : registry) (w' : world),
  BlockSafe.run_frames no_fail no_fail junk cfgs g r (SystemRefinement.as_fops l) w = Ok r' w' /\
  nodupb (see (SystemRefinement.reg_state r' ctx)) = true.
Proof. exact C07_buffer_level_history_nodup. Qed.
Print Assumptions C07_no_duplicates_over_any_history_buffer_level.
