(* C18: platform faults degrade gracefully.
   Statements only: each theorem restates the full type of a lemma proved in coq/proofs and is closed by
   `exact`; Print Assumptions beneath.  Regenerate with bin/genprops.py after a lemma changes. *)
From LLTD Require Import BlockFun BlockSafe PropsMapper FaultProofs EndToEnd.

Theorem C18_no_fault_any_oracle :
  forall (af sf : N -> bool) (junk : N) (cfgs : N -> pcfg) (g : gcfg) (l : list fop)
  (r : registry) (w : world) (bl : nat) (bb : N),
  Forall (fop_ok cfgs) l ->
  ledger_reg bl bb r w ->
  reg_bounded g r ->
  exists (r' : registry) (w' : world),
  run_frames af sf junk cfgs g r l w = Ok r' w' /\ ledger_reg bl bb r' w' /\ reg_bounded g r'.
Proof. exact safe_history. Qed.
Print Assumptions C18_no_fault_any_oracle.

Theorem C18_step_any_oracle :
  forall (af sf : N -> bool) (junk ctx : N) (c : pcfg) (g : gcfg) (s : ist)
  (buf : list N) (w : world) (bl : nat) (bb : N),
  cfg_ok c ->
  length buf = o (c_rxsize c) ->
  ledger_frame bl bb s w ->
  st_bounded g s ->
  exists (s' : ist) (w' : world),
  parse_frame_st af sf junk ctx c g s buf w = Ok s' w' /\
  ledger_frame bl bb s' w' /\ st_bounded g s' /\ w_now w' = w_now w.
Proof. exact safe_step. Qed.
Print Assumptions C18_step_any_oracle.

Theorem C18_reset_restores_fresh_any_oracle :
  forall (af sf : N -> bool) (junk ctx : N) (c : pcfg) (g : gcfg) (s : ist)
  (buf : list N) (h : hdr) (w : world) (bl : nat) (bb : N),
  cfg_ok c ->
  length buf = o (c_rxsize c) ->
  ledger_frame bl bb s w ->
  parse_hdr buf = Some h ->
  h_tos h = tos_discovery ->
  h_opc h = opcode_reset ->
  exists (s' : ist) (w' : world),
  parse_frame_st af sf junk ctx c g s buf w = Ok s' w' /\
  norm s' = fresh /\ w_live w' = bl /\ w_bytes w' = bb /\ w_trace w' = w_trace w /\ w_now w' = w_now w.
Proof. exact reset_any_oracle. Qed.
Print Assumptions C18_reset_restores_fresh_any_oracle.

Theorem C18_then_behaves_like_fresh :
  forall (ctx : N) (c : pcfg) (g : gcfg) (mtu : N) (s : ist) (hist : list (list N))
  (rbuf : list N) (h : hdr) (cont : list (list N)),
  parse_hdr rbuf = Some h ->
  h_tos h = tos_discovery ->
  h_opc h = opcode_reset ->
  snd (f_run ctx c g mtu (fst (f_step ctx c g mtu (fst (f_run ctx c g mtu s hist)) rbuf)) cont) =
  snd (f_run ctx c g mtu fresh cont).
Proof. exact C09_history. Qed.
Print Assumptions C18_then_behaves_like_fresh.

Theorem C18_constructors_report_failure :
  forall (af : N -> bool) (k : Sys.ctor_kind) (w : world),
  exists (obj extra : bool) (st : N) (w' : world),
  Sys.run_ctor af k w = Ok (Sys.RCtor obj extra st) w' /\
  w_live w' = w_live w /\
  w_bytes w' = w_bytes w /\ (obj = false -> extra = false) /\ (k = Sys.KEnumeration -> extra = obj).
Proof. exact ctor_any_oracle. Qed.
Print Assumptions C18_constructors_report_failure.

Theorem C18_fault_history_then_reset_then_like_fresh :
  forall (af sf af' sf' : N -> bool) (junk : N) (cfgs : N -> pcfg) (g : gcfg)
  (mtus : N -> N) (ctx : N) (hist : list (list N)) (rbuf : list N) (h : hdr)
  (cont : list (list N)) (r : registry) (w : world) (bl : nat) (bb : N),
  cfg_ok (cfgs ctx) ->
  Forall (SystemRefinement.buf_len cfgs ctx) hist ->
  SystemRefinement.buf_len cfgs ctx rbuf ->
  Forall (SystemRefinement.buf_len cfgs ctx) cont ->
  parse_hdr rbuf = Some h ->
  h_tos h = tos_discovery ->
  h_opc h = opcode_reset ->
  ledger_reg bl bb r w ->
  reg_bounded g r ->
  exists (r1 : registry) (w1 : world) (r2 : registry) (w2 : world),
  run_frames af sf junk cfgs g r (SystemRefinement.on ctx hist) w = Ok r1 w1 /\
  ledger_reg bl bb r1 w1 /\
  run_frames af' sf' junk cfgs g r1 (SystemRefinement.on ctx [rbuf]) w1 = Ok r2 w2 /\
  norm (SystemRefinement.reg_state r2 ctx) = fresh /\
  w_trace w2 = w_trace w1 /\
  (SystemRefinement.cfgs_nominal cfgs mtus ->
  exists (r3 : registry) (w3 : world),
  run_frames no_fail no_fail junk cfgs g r2 (SystemRefinement.on ctx cont) w2 = Ok r3 w3 /\
  w_trace w3 = rev (snd (f_run ctx (cfgs ctx) g (mtus ctx) fresh cont)) ++ w_trace w2 /\
  ledger_reg bl bb r3 w3).
Proof. exact C18_recovery. Qed.
Print Assumptions C18_fault_history_then_reset_then_like_fresh.

Theorem C18_reset_frame_any_oracle_registry_level :
  forall (af sf : N -> bool) (junk ctx : N) (c : pcfg) (g : gcfg) (r : registry)
  (buf : list N) (h : hdr) (w : world) (bl : nat) (bb : N),
  cfg_ok c ->
  length buf = o (c_rxsize c) ->
  ledger_reg bl bb r w ->
  parse_hdr buf = Some h ->
  h_tos h = tos_discovery ->
  h_opc h = opcode_reset ->
  exists (r' : registry) (w' : world),
  parse_frame af sf junk ctx c g r buf w = Ok r' w' /\
  norm (SystemRefinement.reg_state r' ctx) = fresh /\
  w_trace w' = w_trace w /\ ledger_reg bl bb r' w' /\ w_now w' = w_now w.
Proof. exact reset_frame_any_oracle. Qed.
Print Assumptions C18_reset_frame_any_oracle_registry_level.
