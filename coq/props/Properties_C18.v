(* C18: platform faults degrade gracefully.
   Statements only: each theorem restates the full type of a lemma proved in coq/proofs and is closed by
   `exact`; Print Assumptions beneath.  Regenerate with bin/genprops.py after a lemma changes. *)
From LLTD Require Import BlockFun BlockSafe PropsMapper FaultProofs.

Theorem C18_no_fault_any_oracle :
  forall (af sf : N -> bool) (junk : N) (cfgs : N -> pcfg) (g : gcfg) (l : list fop)
  (r : registry) (w : world) (bl : nat) (bb : N),
  Forall (fop_ok cfgs) l ->
  ledger_reg bl bb r w ->
  reg_bounded g r ->
  exists (r' : registry) (w' : world),
  run_frames af sf junk cfgs g r l w = Ok r' w' /\ ledger_reg bl bb r' w' /\ reg_bounded g r'.
Proof. exact safe_history. Qed.
Print Assumptions C18_no_fault_any_oracle.

Theorem C18_step_any_oracle :
  forall (af sf : N -> bool) (junk ctx : N) (c : pcfg) (g : gcfg) (s : ist)
  (buf : list N) (w : world) (bl : nat) (bb : N),
  cfg_ok c ->
  length buf = o (c_rxsize c) ->
  ledger_frame bl bb s w ->
  st_bounded g s ->
  exists (s' : ist) (w' : world),
  parse_frame_st af sf junk ctx c g s buf w = Ok s' w' /\
  ledger_frame bl bb s' w' /\ st_bounded g s' /\ w_now w' = w_now w.
Proof. exact safe_step. Qed.
Print Assumptions C18_step_any_oracle.

Theorem C18_reset_restores_fresh_any_oracle :
  forall (af sf : N -> bool) (junk ctx : N) (c : pcfg) (g : gcfg) (s : ist)
  (buf : list N) (h : hdr) (w : world) (bl : nat) (bb : N),
  cfg_ok c ->
  length buf = o (c_rxsize c) ->
  ledger_frame bl bb s w ->
  parse_hdr buf = Some h ->
  h_tos h = tos_discovery ->
  h_opc h = opcode_reset ->
  exists (s' : ist) (w' : world),
  parse_frame_st af sf junk ctx c g s buf w = Ok s' w' /\
  norm s' = fresh /\ w_live w' = bl /\ w_bytes w' = bb /\ w_trace w' = w_trace w /\ w_now w' = w_now w.
Proof. exact reset_any_oracle. Qed.
Print Assumptions C18_reset_restores_fresh_any_oracle.

Theorem C18_then_behaves_like_fresh :
  forall (ctx : N) (c : pcfg) (g : gcfg) (mtu : N) (s : ist) (hist : list (list N))
  (rbuf : list N) (h : hdr) (cont : list (list N)),
  parse_hdr rbuf = Some h ->
  h_tos h = tos_discovery ->
  h_opc h = opcode_reset ->
  snd (f_run ctx c g mtu (fst (f_step ctx c g mtu (fst (f_run ctx c g mtu s hist)) rbuf)) cont) =
  snd (f_run ctx c g mtu fresh cont).
Proof. exact C09_history. Qed.
Print Assumptions C18_then_behaves_like_fresh.

Theorem C18_constructors_report_failure :
  forall (af : N -> bool) (k : Sys.ctor_kind) (w : world),
  exists (obj extra : bool) (st : N) (w' : world),
  Sys.run_ctor af k w = Ok (Sys.RCtor obj extra st) w' /\
  w_live w' = w_live w /\
  w_bytes w' = w_bytes w /\ (obj = false -> extra = false) /\ (k = Sys.KEnumeration -> extra = obj).
Proof. exact ctor_any_oracle. Qed.
Print Assumptions C18_constructors_report_failure.
