(* placeholder until the proofs are integrated *)
From LLTD Require Import BufProofs.
Theorem C18_placeholder : True. Proof. exact I. Qed.
Print Assumptions C18_placeholder.
