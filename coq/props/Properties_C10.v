(* placeholder until the proofs are integrated *)
From LLTD Require Import BufProofs.
Theorem C10_placeholder : True. Proof. exact I. Qed.
Print Assumptions C10_placeholder.
