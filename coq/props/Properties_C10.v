(* C10: probes emitted by one responder are observed by a peer responder.
   Statements only: each theorem restates the full type of a lemma proved in coq/proofs and is closed by
   `exact`; Print Assumptions beneath.  Regenerate with bin/genprops.py after a lemma changes. *)
From LLTD Require Import BlockFun PropsEmit EndToEnd.

Theorem C10_emitted_frame_parses :
  forall (cA : pcfg) (d : emitee) (pad : list N),
  4 <= length pad ->
  exists h : hdr,
  parse_hdr (probe_frame cA d ++ pad) = Some h /\
  h_tos h = tos_discovery /\
  h_opc h = probe_opcode d /\
  h_edst h = d_dst d /\ h_esrc h = d_src d /\ h_rdst h = d_dst d /\ h_rsrc h = own cA /\ h_seq h = 0%N.
Proof. exact parse_probe_frame. Qed.
Print Assumptions C10_emitted_frame_parses.

Theorem C10_peer_records :
  forall (cA : pcfg) (ctxB : N) (cB : pcfg) (gB : gcfg) (mtuB : N) (d : emitee)
  (pad : list N) (sB : ist),
  4 <= length pad ->
  d_type d = 0%N \/ d_type d = 1%N ->
  d_dst d = own cB ->
  let fr := probe_frame cA d ++ pad in
  let ob := {| o_type := d_type d; o_rsrc := own cA; o_esrc := d_src d; o_edst := d_dst d |} in
  snd (f_step ctxB cB gB mtuB sB fr) = [] /\
  (see_full sB = false ->
  existsb (obs_key_eqb ob) (see sB) = false -> see (fst (f_step ctxB cB gB mtuB sB fr)) = ob :: see sB) /\
  (existsb (obs_key_eqb ob) (see sB) = true -> fst (f_step ctxB cB gB mtuB sB fr) = sB).
Proof. exact C10_peer. Qed.
Print Assumptions C10_peer_records.

Theorem C10_peer_reports :
  forall (cA : pcfg) (ctxB : N) (cB : pcfg) (gB : gcfg) (mtuB : N) (d : emitee)
  (pad : list N) (sB : ist) (q : list N) (hq : hdr),
  (576 <= mtuB <= 9216)%N ->
  4 <= length pad ->
  d_type d = 0%N \/ d_type d = 1%N ->
  d_dst d = own cB ->
  let fr := probe_frame cA d ++ pad in
  let ob := {| o_type := d_type d; o_rsrc := own cA; o_esrc := d_src d; o_edst := d_dst d |} in
  see_full sB = false ->
  existsb (obs_key_eqb ob) (see sB) = false ->
  parse_hdr q = Some hq ->
  h_tos hq = tos_discovery ->
  h_opc hq = opcode_query ->
  let sB' := fst (f_step ctxB cB gB mtuB sB fr) in
  snd (f_step ctxB cB gB mtuB sB' q) =
  [tx ctxB
  (qresp_frame cB hq (h_seq hq) (ob :: firstn (qcap mtuB - 1) (see sB))
  (qcap mtuB <? S (length (see sB))))].
Proof. exact C10_reported. Qed.
Print Assumptions C10_peer_reports.

Theorem C10_peer_reports_later :
  forall (cA : pcfg) (ctxB : N) (cB : pcfg) (gB : gcfg) (mtuB : N) (d : emitee)
  (pad : list N) (sB : ist) (mid : list (list N)) (q : list N) (hq : hdr),
  (576 <= mtuB <= 9216)%N ->
  4 <= length pad ->
  d_type d = 0%N \/ d_type d = 1%N ->
  d_dst d = own cB ->
  let fr := probe_frame cA d ++ pad in
  let ob := {| o_type := d_type d; o_rsrc := own cA; o_esrc := d_src d; o_edst := d_dst d |} in
  see_full sB = false ->
  existsb (obs_key_eqb ob) (see sB) = false ->
  Forall (fun buf : list N => forall h : hdr, parse_hdr buf = Some h -> ~ drains_see h) mid ->
  parse_hdr q = Some hq ->
  h_tos hq = tos_discovery ->
  h_opc hq = opcode_query ->
  let sB' := fst (f_run ctxB cB gB mtuB (fst (f_step ctxB cB gB mtuB sB fr)) mid) in
  length (see sB') <= qcap mtuB ->
  exists reported : list obs,
  snd (f_step ctxB cB gB mtuB sB' q) = [tx ctxB (qresp_frame cB hq (h_seq hq) reported false)] /\
  In ob reported.
Proof. exact C10_reported_later. Qed.
Print Assumptions C10_peer_reports_later.

Theorem C10_from_the_emit_to_the_peers_report :
  forall (ctxA : N) (cA : pcfg) (gA : gcfg) (mtuA ctxB : N) (cB : pcfg) (gB : gcfg) (mtuB : N),
  (576 <= mtuA <= 9216)%N ->
  (576 <= mtuB <= 9216)%N ->
  forall (sA : ist) (bufA : list N) (hA : hdr) (sB : ist) (d : emitee) (pad q : list N) (hq : hdr),
  parse_hdr bufA = Some hA ->
  h_tos hA = tos_discovery ->
  h_opc hA = opcode_emit ->
  (h_w0 hA <= (mtuA - 34) / 14)%N ->
  o mtuA <= length bufA ->
  In d (spec_descs bufA (o (h_w0 hA))) ->
  d_type d = 0%N \/ d_type d = 1%N ->
  d_dst d = own cB ->
  4 <= length pad ->
  let fr := probe_frame cA d in
  let ob := {| o_type := d_type d; o_rsrc := own cA; o_esrc := d_src d; o_edst := d_dst d |} in
  see_full sB = false ->
  existsb (obs_key_eqb ob) (see sB) = false ->
  parse_hdr q = Some hq ->
  h_tos hq = tos_discovery ->
  h_opc hq = opcode_query ->
  In (tx ctxA fr) (snd (f_step ctxA cA gA mtuA sA bufA)) /\
  snd (f_step ctxB cB gB mtuB sB (fr ++ pad)) = [] /\
  (let sB' := fst (f_step ctxB cB gB mtuB sB (fr ++ pad)) in
  snd (f_step ctxB cB gB mtuB sB' q) =
  [tx ctxB
  (qresp_frame cB hq (h_seq hq) (ob :: firstn (qcap mtuB - 1) (see sB))
  (qcap mtuB <? S (length (see sB))))]).
Proof. exact C10_system. Qed.
Print Assumptions C10_from_the_emit_to_the_peers_report.

Theorem C10_whatever_the_emitter_sends :
  forall (ctxA : N) (cA : pcfg) (gA : gcfg) (mtuA ctxB : N) (cB : pcfg) (gB : gcfg) (mtuB : N),
  (576 <= mtuB <= 9216)%N ->
  forall (sA : ist) (bufA : list N) (hA : hdr) (fr : list N),
  parse_hdr bufA = Some hA ->
  h_tos hA = tos_discovery ->
  h_opc hA = opcode_emit ->
  In (tx ctxA fr) (snd (f_step ctxA cA gA mtuA sA bufA)) ->
  fr <> ack_frame cA (with_seq (set_active sA hA) (h_seq hA)) ->
  exists (ds : list emitee) (d : emitee),
  read_descs bufA (o (h_w0 hA)) 0 = Some ds /\
  In d ds /\
  (d_type d = 0%N \/ d_type d = 1%N) /\
  fr = probe_frame cA d /\
  (d_dst d = own cB ->
  forall (sB : ist) (pad q : list N) (hq : hdr),
  4 <= length pad ->
  let ob := {| o_type := d_type d; o_rsrc := own cA; o_esrc := d_src d; o_edst := d_dst d |} in
  see_full sB = false ->
  existsb (obs_key_eqb ob) (see sB) = false ->
  parse_hdr q = Some hq ->
  h_tos hq = tos_discovery ->
  h_opc hq = opcode_query ->
  let sB' := fst (f_step ctxB cB gB mtuB sB (fr ++ pad)) in
  snd (f_step ctxB cB gB mtuB sB' q) =
  [tx ctxB
  (qresp_frame cB hq (h_seq hq) (ob :: firstn (qcap mtuB - 1) (see sB))
  (qcap mtuB <? S (length (see sB))))]).
Proof. exact C10_system_sent. Qed.
Print Assumptions C10_whatever_the_emitter_sends.

Theorem C10_on_one_wire :
  forall (cfgs : N -> pcfg) (g : gcfg) (mtus : N -> N) (m : N -> ist) (ctxA ctxB : N)
  (bufA : list N) (hA : hdr) (d : emitee) (pad q : list N) (hq : hdr),
  ctxA <> ctxB ->
  (576 <= mtus ctxA <= 9216)%N ->
  (576 <= mtus ctxB <= 9216)%N ->
  parse_hdr bufA = Some hA ->
  h_tos hA = tos_discovery ->
  h_opc hA = opcode_emit ->
  (h_w0 hA <= (mtus ctxA - 34) / 14)%N ->
  o (mtus ctxA) <= length bufA ->
  In d (spec_descs bufA (o (h_w0 hA))) ->
  d_type d = 0%N \/ d_type d = 1%N ->
  d_dst d = own (cfgs ctxB) ->
  4 <= length pad ->
  let fr := probe_frame (cfgs ctxA) d in
  let ob := {| o_type := d_type d; o_rsrc := own (cfgs ctxA); o_esrc := d_src d; o_edst := d_dst d |} in
  see_full (m ctxB) = false ->
  existsb (obs_key_eqb ob) (see (m ctxB)) = false ->
  parse_hdr q = Some hq ->
  h_tos hq = tos_discovery ->
  h_opc hq = opcode_query ->
  let tagged := snd (Isolation.sys_run cfgs g mtus m [(ctxA, bufA); (ctxB, fr ++ pad); (ctxB, q)]) in
  In (ctxA, tx ctxA fr) tagged /\
  Isolation.acts_of ctxB tagged =
  [tx ctxB
  (qresp_frame (cfgs ctxB) hq (h_seq hq) (ob :: firstn (qcap (mtus ctxB) - 1) (see (m ctxB)))
  (qcap (mtus ctxB) <? S (length (see (m ctxB)))))].
Proof. exact C10_system_run. Qed.
Print Assumptions C10_on_one_wire.
