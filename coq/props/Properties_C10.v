(* C10: probes emitted by one responder are observed by a peer responder.
   Statements only: each theorem restates the full type of a lemma proved in coq/proofs and is closed by
   `exact`; Print Assumptions beneath.  Regenerate with bin/genprops.py after a lemma changes. *)
From LLTD Require Import BlockFun PropsEmit.

Theorem C10_emitted_frame_parses :
  forall (cA : pcfg) (d : emitee) (pad : list N),
  4 <= length pad ->
  exists h : hdr,
  parse_hdr (probe_frame cA d ++ pad) = Some h /\
  h_tos h = tos_discovery /\
  h_opc h = probe_opcode d /\
  h_edst h = d_dst d /\ h_esrc h = d_src d /\ h_rdst h = d_dst d /\ h_rsrc h = own cA /\ h_seq h = 0%N.
Proof. exact parse_probe_frame. Qed.
Print Assumptions C10_emitted_frame_parses.

Theorem C10_peer_records :
  forall (cA : pcfg) (ctxB : N) (cB : pcfg) (gB : gcfg) (mtuB : N) (d : emitee)
  (pad : list N) (sB : ist),
  4 <= length pad ->
  d_type d = 0%N \/ d_type d = 1%N ->
  d_dst d = own cB ->
  let fr := probe_frame cA d ++ pad in
  let ob := {| o_type := d_type d; o_rsrc := own cA; o_esrc := d_src d; o_edst := d_dst d |} in
  snd (f_step ctxB cB gB mtuB sB fr) = [] /\
  (see_full sB = false ->
  existsb (obs_key_eqb ob) (see sB) = false -> see (fst (f_step ctxB cB gB mtuB sB fr)) = ob :: see sB) /\
  (existsb (obs_key_eqb ob) (see sB) = true -> fst (f_step ctxB cB gB mtuB sB fr) = sB).
Proof. exact C10_peer. Qed.
Print Assumptions C10_peer_records.

Theorem C10_peer_reports :
  forall (cA : pcfg) (ctxB : N) (cB : pcfg) (gB : gcfg) (mtuB : N) (d : emitee)
  (pad : list N) (sB : ist) (q : list N) (hq : hdr),
  (576 <= mtuB <= 9216)%N ->
  4 <= length pad ->
  d_type d = 0%N \/ d_type d = 1%N ->
  d_dst d = own cB ->
  let fr := probe_frame cA d ++ pad in
  let ob := {| o_type := d_type d; o_rsrc := own cA; o_esrc := d_src d; o_edst := d_dst d |} in
  see_full sB = false ->
  existsb (obs_key_eqb ob) (see sB) = false ->
  parse_hdr q = Some hq ->
  h_tos hq = tos_discovery ->
  h_opc hq = opcode_query ->
  let sB' := fst (f_step ctxB cB gB mtuB sB fr) in
  snd (f_step ctxB cB gB mtuB sB' q) =
  [tx ctxB
  (qresp_frame cB hq (h_seq hq) (ob :: firstn (qcap mtuB - 1) (see sB))
  (qcap mtuB <? S (length (see sB))))].
Proof. exact C10_reported. Qed.
Print Assumptions C10_peer_reports.

Theorem C10_peer_reports_later :
  forall (cA : pcfg) (ctxB : N) (cB : pcfg) (gB : gcfg) (mtuB : N) (d : emitee)
  (pad : list N) (sB : ist) (mid : list (list N)) (q : list N) (hq : hdr),
  (576 <= mtuB <= 9216)%N ->
  4 <= length pad ->
  d_type d = 0%N \/ d_type d = 1%N ->
  d_dst d = own cB ->
  let fr := probe_frame cA d ++ pad in
  let ob := {| o_type := d_type d; o_rsrc := own cA; o_esrc := d_src d; o_edst := d_dst d |} in
  see_full sB = false ->
  existsb (obs_key_eqb ob) (see sB) = false ->
  Forall (fun buf : list N => forall h : hdr, parse_hdr buf = Some h -> ~ drains_see h) mid ->
  parse_hdr q = Some hq ->
  h_tos hq = tos_discovery ->
  h_opc hq = opcode_query ->
  let sB' := fst (f_run ctxB cB gB mtuB (fst (f_step ctxB cB gB mtuB sB fr)) mid) in
  length (see sB') <= qcap mtuB ->
  exists reported : list obs,
  snd (f_step ctxB cB gB mtuB sB' q) = [tx ctxB (qresp_frame cB hq (h_seq hq) reported false)] /\
  In ob reported.
Proof. exact C10_reported_later. Qed.
Print Assumptions C10_peer_reports_later.
