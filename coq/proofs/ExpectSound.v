(* ExpectSound.v - the run-time expectations of spec/SpecExec.v (session_expect,
   mapping_expect, ni_expect), which the check evaluates on the pre-state of
   every operation of the C implementation, are sound consequences of the
   proved theorems C15 / C14 / C13: the MODEL always satisfies them.  Hence a
   run-time alarm of these oracles can never be caused by the expectation
   functions disagreeing with the proved properties. *)
From LLTD Require Import Automata SpecAutomata SpecExec AutomataBase SessionProofs MappingProofs BandProofs.
From Coq Require Import List NArith ZArith Bool.
From Coq Require Import Lia ZifyBool ZifyN ZifyNat.
Ltac Zify.zify_post_hook ::= Z.div_mod_to_equations.
Import ListNotations.
Local Open Scope N_scope.

(* ================= the numeric codes of SpecExec are those of the proofs ================= *)
Lemma sstate_num_code s : sstate_num s = sstate_code s.
Proof. destruct s; reflexivity. Qed.
Lemma mstate_num_code s : mstate_num s = mstate_code s.
Proof. destruct s; reflexivity. Qed.

Lemma sstate_of_code n s : sstate_of n = Some s -> n = sstate_code s.
Proof.
  unfold sstate_of. intros H.
  destruct n as [|[[p|p|]|[p|p|]|]]; try discriminate H; injection H as <-; reflexivity.
Qed.
Lemma sstate_of_legal n : n < 4 -> exists s, sstate_of n = Some s.
Proof.
  intros H. assert (C : n = 0 \/ n = 1 \/ n = 2 \/ n = 3) by lia.
  destruct C as [-> | [-> | [-> | ->]]]; cbn [sstate_of]; eexists; reflexivity.
Qed.
Lemma sevent_of_code z e : sevent_of z = Some e -> z = sevent_code e.
Proof.
  unfold sevent_of. intros H.
  destruct z as [|p|p]; [| |discriminate H].
  - injection H as <-. vm_compute. reflexivity.
  - destruct p as [[[p|p|]|[p|p|]|]|[[p|p|]|[p|p|]|]|]; try discriminate H; injection H as <-; vm_compute; reflexivity.
Qed.
Lemma sevent_of_legal z : (0 <= z <= 7)%Z -> exists e, sevent_of z = Some e.
Proof.
  intros H.
  assert (C : (z = 0 \/ z = 1 \/ z = 2 \/ z = 3 \/ z = 4 \/ z = 5 \/ z = 6 \/ z = 7)%Z) by lia.
  destruct C as [-> | [-> | [-> | [-> | [-> | [-> | [-> | ->]]]]]]]; cbn [sevent_of]; eexists; reflexivity.
Qed.
Lemma mstate_of_code n s : mstate_of n = Some s -> n = mstate_code s.
Proof.
  unfold mstate_of. intros H.
  destruct n as [|[[p|p|]|[p|p|]|]]; try discriminate H; injection H as <-; reflexivity.
Qed.
Lemma mstate_of_legal n : n < 3 -> exists s, mstate_of n = Some s.
Proof.
  intros H. assert (C : n = 0 \/ n = 1 \/ n = 2) by lia.
  destruct C as [-> | [-> | ->]]; cbn [mstate_of]; eexists; reflexivity.
Qed.

(* ================= 1. session ================= *)
(* the driver evaluates  session_expect (state before) ev (now_s - last_ts before) *)

(* on the whole domain the expectation is defined (the oracle never skips a legal case) *)
Theorem session_expect_defined (s : N) (ev : Z) (elapsed : N) :
  s < 4 -> (0 <= ev <= 7)%Z -> exists x, session_expect s ev elapsed = Some x.
Proof.
  intros Hs He. destruct (sstate_of_legal s Hs) as [s' E1]. destruct (sevent_of_legal ev He) as [e E2].
  unfold session_expect. rewrite E1, E2. eexists; reflexivity.
Qed.

Theorem session_expect_sound (s : N) (ev : Z) (now_s last x : N) :
  s < 4 -> (0 <= ev <= 7)%Z -> last <= now_s -> now_s < W64 ->
  session_expect s ev (now_s - last) = Some x ->
  let a' := switch_session {| a_cur := s; a_last := last |} now_s ev in
  a_cur a' = x /\ a_last a' = now_s.
Proof.
  intros _ _ Hl Hn Hx. cbv zeta. unfold session_expect in Hx.
  destruct (sstate_of s) as [s'|] eqn:E1; [|discriminate Hx].
  destruct (sevent_of ev) as [e|] eqn:E2; [|discriminate Hx].
  injection Hx as <-.
  apply sstate_of_code in E1. apply sevent_of_code in E2. subst s ev.
  pose proof (session_step s' e {| a_cur := sstate_code s'; a_last := last |} now_s eq_refl Hl Hn) as H.
  cbv zeta in H. cbn [a_last] in H. destruct H as (Ht & Hin & Hout).
  split; [|exact Ht]. change sstate_num with sstate_code.
  destruct (1 <? now_s - last) eqn:E.
  - apply Hout. lia.
  - apply Hin. lia.
Qed.

(* the hypotheses "legal state, event 0..7" are implied by the expectation being
   defined: the same conclusion whenever session_expect answers at all *)
Corollary session_expect_sound_any (s : N) (ev : Z) (now_s last x : N) :
  last <= now_s -> now_s < W64 ->
  session_expect s ev (now_s - last) = Some x ->
  a_cur (switch_session {| a_cur := s; a_last := last |} now_s ev) = x.
Proof.
  intros Hl Hn Hx.
  assert (Hs : s < 4).
  { unfold session_expect in Hx. destruct (sstate_of s) as [s'|] eqn:E; [|discriminate Hx].
    apply sstate_of_code in E. subst s. destruct s'; cbn; lia. }
  assert (He : (0 <= ev <= 7)%Z).
  { unfold session_expect in Hx. destruct (sstate_of s); [|discriminate Hx].
    destruct (sevent_of ev) as [e|] eqn:E; [|discriminate Hx].
    apply sevent_of_code in E. subst ev. destruct e; vm_compute; split; discriminate. }
  exact (proj1 (session_expect_sound s ev now_s last x Hs He Hl Hn Hx)).
Qed.

(* a Pending session (2) hears an acknowledging Discover (3) 1 s after the last event: Complete (3);
   the same 2 s after the last event: back to Nascent (1) *)
Example session_expect_example :
  session_expect 2 3 (11 - 10) = Some 3 /\
  a_cur (switch_session {| a_cur := 2; a_last := 10 |} 11 3%Z) = 3 /\
  session_expect 2 3 (12 - 10) = Some 1 /\
  a_cur (switch_session {| a_cur := 2; a_last := 10 |} 12 3%Z) = 1.
Proof. vm_compute. repeat split; reflexivity. Qed.
Example session_expect_sound_applies :
  a_cur (switch_session {| a_cur := 2; a_last := 10 |} 11 3%Z) = 3.
Proof.
  refine (proj1 (session_expect_sound 2 3%Z 11 10 3 _ _ _ _ _)); vm_compute; try reflexivity; try discriminate.
  split; discriminate.
Qed.
Print Assumptions session_expect_sound.
Print Assumptions session_expect_defined.

(* ================= 2. mapping ================= *)
(* the driver evaluates  mapping_expect (state before) input (now_s - last_ts before)
   (time-out of the state before in the regenerated table, 0 = none) *)

(* for EVERY C int as input, not only [-128, 255] *)
Theorem mapping_expect_sound_all (s : N) (input : Z) (now_s last : N) :
  s < 3 -> last <= now_s -> now_s < W64 ->
  let l := mapping_expect s input (now_s - last) (timeout_of mapping_timeouts s) in
  let a' := switch_mapping {| a_cur := s; a_last := last |} now_s input in
  In (a_cur a') l /\ l <> [] /\ a_last a' = now_s.
Proof.
  intros Hs Hl Hn. cbv zeta. destruct (mstate_of_legal s Hs) as [s' E1].
  unfold mapping_expect. rewrite E1. apply mstate_of_code in E1. subst s.
  pose proof (mapping_step s' input {| a_cur := mstate_code s'; a_last := last |} now_s eq_refl Hl Hn) as H.
  cbv zeta in H. cbn [a_last] in H. destruct H as (Ht & Hin & Hout).
  set (tmo := timeout_of mapping_timeouts (mstate_code s')) in *.
  destruct ((tmo =? 0)%Z || (now_s - last <=? Z.to_N tmo)) eqn:E.
  - split; [|split; [discriminate|exact Ht]].
    left. change mstate_num with mstate_code. symmetry. apply Hin.
    apply orb_prop in E. destruct E as [E|E]; [left; lia|right; lia].
  - apply orb_false_elim in E. destruct E as [Ez Ee].
    assert (Hq : a_cur (switch_mapping {| a_cur := mstate_code s'; a_last := last |} now_s input) = 0
                 \/ input = OP_DISCOVER /\ a_cur (switch_mapping {| a_cur := mstate_code s'; a_last := last |} now_s input) = 1).
    { apply Hout. split; lia. }
    destruct (input =? OP_DISCOVER)%Z eqn:Ed.
    + split; [|split; [discriminate|exact Ht]].
      destruct Hq as [Hq|[_ Hq]]; rewrite Hq; cbn [In]; auto.
    + split; [|split; [discriminate|exact Ht]].
      destruct Hq as [Hq|[Hd _]]; [rewrite Hq; cbn [In]; auto|]. lia.
Qed.

Theorem mapping_expect_sound (s : N) (input : Z) (now_s last : N) :
  s < 3 -> (-128 <= input <= 255)%Z -> last <= now_s -> now_s < W64 ->
  let tmo := timeout_of mapping_timeouts s in
  In (a_cur (switch_mapping {| a_cur := s; a_last := last |} now_s input)) (mapping_expect s input (now_s - last) tmo)
  /\ mapping_expect s input (now_s - last) tmo <> [].
Proof.
  intros Hs _ Hl Hn. cbv zeta.
  destruct (mapping_expect_sound_all s input now_s last Hs Hl Hn) as (H1 & H2 & _). split; assumption.
Qed.

(* the list is non-empty for a legal state whatever time-out value is passed *)
Theorem mapping_expect_nonempty (s : N) (input : Z) (elapsed : N) (tmo : Z) :
  s < 3 -> mapping_expect s input elapsed tmo <> [].
Proof.
  intros Hs. destruct (mstate_of_legal s Hs) as [s' E1]. unfold mapping_expect. rewrite E1.
  destruct ((tmo =? 0)%Z || (elapsed <=? Z.to_N tmo)); [discriminate|].
  destruct (input =? OP_DISCOVER)%Z; discriminate.
Qed.

(* the model is in fact sharper than the expectation after a time-out: it is
   always Quiescent, the alternative 1 that the property text allows for a
   Discover is never taken by this implementation *)
Theorem mapping_timed_out_quiescent (s : N) (input : Z) (now_s last : N) :
  s < 3 -> last <= now_s -> now_s < W64 ->
  let tmo := timeout_of mapping_timeouts s in
  tmo <> 0%Z -> Z.to_N tmo < now_s - last ->
  a_cur (switch_mapping {| a_cur := s; a_last := last |} now_s input) = 0.
Proof.
  intros Hs Hl Hn. cbv zeta. intros Hz Ht. destruct (mstate_of_legal s Hs) as [s' E1].
  apply mstate_of_code in E1. subst s.
  unfold switch_mapping. rewrite switch_timed_spec by assumption. cbn [a_cur a_last].
  unfold timed_out.
  assert (Hu : u64_of_Z (timeout_of mapping_timeouts (mstate_code s')) = Z.to_N (timeout_of mapping_timeouts (mstate_code s'))).
  { destruct s'; vm_compute; reflexivity. }
  rewrite Hu.
  destruct (timeout_of mapping_timeouts (mstate_code s') =? 0)%Z eqn:E0; [lia|].
  destruct (Z.to_N (timeout_of mapping_timeouts (mstate_code s')) <? now_s - last) eqn:E; [|lia].
  cbn [negb andb]. apply mapping_end_quiescent.
Qed.

(* Command (1) receives Emit (2) one second after the last frame: Emitting (2);
   Emitting (2) receives a Discover (0) 37 s after the last frame: timed out, the
   expectation allows {0, 1}, the model is in 0 *)
Example mapping_expect_example :
  mapping_expect 1 2 (4 - 3) (timeout_of mapping_timeouts 1) = [2] /\
  a_cur (switch_mapping {| a_cur := 1; a_last := 3 |} 4 2%Z) = 2 /\
  mapping_expect 2 0 (40 - 3) (timeout_of mapping_timeouts 2) = [0; 1] /\
  a_cur (switch_mapping {| a_cur := 2; a_last := 3 |} 40 0%Z) = 0 /\
  mapping_expect 0 (-128) (1000 - 3) (timeout_of mapping_timeouts 0) = [0] /\
  a_cur (switch_mapping {| a_cur := 0; a_last := 3 |} 1000 (-128)%Z) = 0.
Proof. vm_compute. repeat split; reflexivity. Qed.
Example mapping_expect_sound_applies :
  In (a_cur (switch_mapping {| a_cur := 2; a_last := 3 |} 40 0%Z)) [0; 1].
Proof.
  change [0; 1] with (mapping_expect 2 0 (40 - 3) (timeout_of mapping_timeouts 2)).
  refine (proj1 (mapping_expect_sound 2 0%Z 40 3 _ _ _ _)); vm_compute; try reflexivity; try discriminate.
  split; discriminate.
Qed.
Print Assumptions mapping_expect_sound.
Print Assumptions mapping_expect_sound_all.

(* ================= 3. RepeatBand ================= *)
(* the driver compares  ni_expect (r before) (begun before) (Ni before)  with Ni after band_update_stats *)
Theorem ni_expect_sound (now : N) (b : band) :
  b_r b < W32 -> ALPHA <= b_ni b <= NMAX ->
  b_ni (band_update now b) = ni_expect (b_r b) (b_begun b) (b_ni b)
  /\ ALPHA <= ni_expect (b_r b) (b_begun b) (b_ni b) <= NMAX.
Proof.
  intros Hr Hn.
  assert (E : b_ni (band_update now b) = ni_expect (b_r b) (b_begun b) (b_ni b)).
  { unfold ni_expect. apply band_update_ni. exact Hr. }
  split; [exact E|]. rewrite <- E.
  exact (proj1 (band_update_inv now b (conj Hn Hr))).
Qed.

(* the equation alone does not need the invariant range of the old count *)
Theorem ni_expect_sound_eq (now : N) (r : N) (begun : bool) (old hts bts : N) :
  r < W32 ->
  b_ni (band_update now {| b_ni := old; b_r := r; b_begun := begun; b_hts := hts; b_bts := bts |}) = ni_expect r begun old.
Proof.
  intros Hr. unfold ni_expect.
  exact (band_update_ni now {| b_ni := old; b_r := r; b_begun := begun; b_hts := hts; b_bts := bts |} Hr).
Qed.

(* 7 Hellos heard in a block that has begun: 45 * 7^2 = 2205; 2^32 - 1 Hellos: saturates at 10000;
   a block that has not begun keeps the old count *)
Example ni_expect_example :
  ni_expect 7 true 45 = 2205 /\
  b_ni (band_update 5 {| b_ni := 45; b_r := 7; b_begun := true; b_hts := 0; b_bts := 1 |}) = 2205 /\
  ni_expect 4294967295 true 45 = 10000 /\
  b_ni (band_update 5 {| b_ni := 45; b_r := 4294967295; b_begun := true; b_hts := 0; b_bts := 1 |}) = 10000 /\
  ni_expect 7 false 500 = 500 /\
  b_ni (band_update 5 {| b_ni := 500; b_r := 7; b_begun := false; b_hts := 0; b_bts := 1 |}) = 500.
Proof. vm_compute. repeat split; reflexivity. Qed.
Example ni_expect_sound_applies :
  b_ni (band_update 5 {| b_ni := 45; b_r := 7; b_begun := true; b_hts := 0; b_bts := 1 |}) = 2205.
Proof.
  change 2205 with (ni_expect 7 true 45).
  refine (proj1 (ni_expect_sound 5 {| b_ni := 45; b_r := 7; b_begun := true; b_hts := 0; b_bts := 1 |} _ _)).
  - vm_compute. reflexivity.
  - vm_compute. split; discriminate.
Qed.
Print Assumptions ni_expect_sound.
Print Assumptions ni_expect_sound_eq.

(* ================= 4. the bound r < 2^32 is needed: the C arithmetic wraps beyond it ================= *)
(* (r is a uint32_t in the C code, so the case cannot arise there; in the model, whose
   fields are unbounded N, the formula and the C-width arithmetic part at r = 2^32) *)
Example ni_expect_needs_r_bound :
  b_ni (band_update 5 {| b_ni := 45; b_r := 4294967296; b_begun := true; b_hts := 0; b_bts := 1 |}) = 0 /\
  ni_expect 4294967296 true 45 = 10000.
Proof. vm_compute. split; reflexivity. Qed.
(* likewise now_s < 2^64 (the C time stamp is a uint64_t): without it the elapsed time wraps *)
Example session_expect_needs_now_bound :
  session_expect 2 3 (18446744073709551617 - 0) = Some 1 /\
  a_cur (switch_session {| a_cur := 2; a_last := 0 |} 18446744073709551617 3%Z) = 3.
Proof. vm_compute. split; reflexivity. Qed.
