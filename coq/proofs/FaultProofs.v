(* FaultProofs.v - behaviour under EVERY fault oracle and totality of the
   entry points that take raw bytes:
     reset_any_oracle  a topology Reset releases everything the record held and
                       returns it (up to the dead mapper addresses) to [fresh],
                       whatever the allocation / transmit oracles are
     ctor_any_oracle   the automata constructors never fault, never leak and
                       never hand out a half-built object
     tick_total        automata_tick never faults, never touches the ledger
     esp32_total       the ESP32 entry point never reads at or beyond [len]
     classify_total    derive_session_event never reads at or beyond [len],
                       whatever the bytes (and the wire station count) are *)
From LLTD Require Import BlockFun BufProofs BlockSafe Sys.
From Coq Require Import Lia ZifyBool ZifyN ZifyNat.
Ltac Zify.zify_post_hook ::= Z.div_mod_to_equations.
Local Open Scope N_scope.

(* decide the comparisons between protocol constants *)
Ltac closed_eqb :=
  repeat match goal with
  | |- context [?a =? ?b] =>
    let v := eval vm_compute in (a =? b) in
    lazymatch v with
    | true => change (a =? b) with true
    | false => change (a =? b) with false
    end
  end.

(* ====================================================================== *)
(*  1. Reset under every oracle                                            *)
(* ====================================================================== *)

Lemma free_ok n w : (0 < w_live w)%nat -> n <= w_bytes w ->
  exists w', free n w = Ok tt w' /\ w_trace w' = w_trace w /\ w_now w' = w_now w
    /\ w_live w' = pred (w_live w) /\ w_bytes w' = w_bytes w - n.
Proof.
  intros H1 H2. unfold free. destruct (w_live w) as [|k]; [lia|].
  destruct (N.ltb_spec (w_bytes w) n); [lia|].
  eexists. split; [reflexivity|]. cbn [w_trace w_now w_live w_bytes pred]. auto.
Qed.

Lemma free_n_ok sz k : forall w, (k <= w_live w)%nat -> sz * N.of_nat k <= w_bytes w ->
  exists w', free_n k sz w = Ok tt w' /\ w_trace w' = w_trace w /\ w_now w' = w_now w
    /\ w_live w' = (w_live w - k)%nat /\ w_bytes w' = w_bytes w - sz * N.of_nat k.
Proof.
  induction k as [|k IH]; intros w H1 H2; cbn [free_n].
  - exists w. unfold ret. repeat split; lia.
  - destruct (free_ok sz w) as (w1 & E1 & T1 & N1 & L1 & B1); [lia|lia|].
    unfold bind. rewrite E1.
    destruct (IH w1) as (w2 & E2 & T2 & N2 & L2 & B2); [lia|lia|].
    exists w2. split; [exact E2|]. repeat split; try congruence; lia.
Qed.

Theorem reset_any_oracle af sf junk ctx c g s buf h w bl bb :
  cfg_ok c -> length buf = o (c_rxsize c) -> ledger_frame bl bb s w ->
  parse_hdr buf = Some h -> h_tos h = tos_discovery -> h_opc h = opcode_reset ->
  exists s' w', parse_frame_st af sf junk ctx c g s buf w = Ok s' w'
    /\ norm s' = fresh /\ w_live w' = bl /\ w_bytes w' = bb
    /\ w_trace w' = w_trace w /\ w_now w' = w_now w.
Proof.
  intros _ _ (L & B) P T O. unfold parse_frame_st, bind. rewrite P. unfold rdm, lift, ret.
  unfold pre_step, is_discovery_tos. rewrite T, O. closed_eqb. cbn [orb andb].
  unfold dispatch. rewrite T, O. closed_eqb. cbn [orb].
  unfold do_reset_topology, bind.
  unfold held_count, held_bytes in *.
  destruct (free_n_ok sz_probe_node (length (see s)) w) as (w1 & E1 & T1 & N1 & L1 & B1); [lia|lia|].
  rewrite E1.
  destruct (icon s) as [d|].
  - destruct (free_ok (N.of_nat (length d)) w1) as (w2 & E2 & T2 & N2 & L2 & B2); [lia|lia|].
    rewrite E2. unfold ret. eexists; eexists. split; [reflexivity|].
    split; [reflexivity|]. repeat split; try congruence; lia.
  - unfold ret. eexists; eexists. split; [reflexivity|].
    split; [reflexivity|]. repeat split; try congruence; lia.
Qed.

(* ====================================================================== *)
(*  2. the constructors under every allocation oracle                      *)
(* ====================================================================== *)

Definition ctor_good (k : ctor_kind) (w : world) (r : opret) (w' : world) : Prop :=
  match r with
  | RCtor obj extra st =>
    w_live w' = w_live w /\ w_bytes w' = w_bytes w
    /\ (obj = false -> extra = false) /\ (k = KEnumeration -> extra = obj)
  | _ => False
  end.

Lemma run_ctor_post af k w : post (run_ctor af k w) (ctor_good k w).
Proof.
  assert (R0 : forall w1, w_live w1 = w_live w -> w_bytes w1 = w_bytes w -> ctor_good k w (RCtor false false 0) w1).
  { intros w1 A B. unfold ctor_good. repeat split; auto. }
  destruct k; unfold run_ctor.
  - eapply post_bind; [apply alloc_post|]. intros a w1 (N1 & L1 & B1).
    destruct a; cbn [negb]; [|apply post_ret, R0; assumption].
    eapply post_bind; [apply alloc_post|]. intros e w2 (N2 & L2 & B2).
    eapply post_bind with (Q := fun _ w' => w_live w' = S (w_live w) /\ w_bytes w' = w_bytes w + sz_automata).
    + destruct e.
      * eapply post_weaken; [apply free_post; lia|]. intros ? w3 (N3 & L3 & B3). split; lia.
      * apply post_ret. split; lia.
    + intros ? w3 (L3 & B3).
      eapply post_bind; [apply free_post; lia|]. intros ? w4 (N4 & L4 & B4).
      apply post_ret. unfold ctor_good. repeat split; try lia; discriminate.
  - eapply post_bind; [apply alloc_post|]. intros a w1 (N1 & L1 & B1).
    destruct a; cbn [negb]; [|apply post_ret, R0; assumption].
    eapply post_bind; [apply free_post; lia|]. intros ? w4 (N4 & L4 & B4).
    apply post_ret. unfold ctor_good. repeat split; try lia; discriminate.
  - eapply post_bind; [apply alloc_post|]. intros a w1 (N1 & L1 & B1).
    destruct a; cbn [negb]; [|apply post_ret, R0; assumption].
    eapply post_bind; [apply alloc_post|]. intros e w2 (N2 & L2 & B2).
    destruct e; cbn [negb].
    + eapply post_bind; [apply free_post; lia|]. intros ? w3 (N3 & L3 & B3).
      eapply post_bind; [apply free_post; lia|]. intros ? w4 (N4 & L4 & B4).
      apply post_ret. unfold ctor_good. repeat split; try lia; discriminate.
    + eapply post_bind; [apply free_post; lia|]. intros ? w3 (N3 & L3 & B3).
      apply post_ret, R0; lia.
  - eapply post_bind; [apply alloc_post|]. intros a w1 (N1 & L1 & B1).
    destruct a; cbn [negb]; [|apply post_ret, R0; assumption].
    eapply post_bind; [apply free_post; lia|]. intros ? w4 (N4 & L4 & B4).
    apply post_ret. unfold ctor_good. repeat split; try lia; discriminate.
Qed.

Theorem ctor_any_oracle af k w :
  exists obj extra st w', run_ctor af k w = Ok (RCtor obj extra st) w'
    /\ w_live w' = w_live w /\ w_bytes w' = w_bytes w
    /\ (obj = false -> extra = false) /\ (k = KEnumeration -> extra = obj).
Proof.
  pose proof (run_ctor_post af k w) as H.
  destruct (run_ctor af k w) as [r w'|]; [|contradiction].
  cbn [post] in H. destruct r as [|z|obj extra st]; try contradiction.
  exists obj, extra, st, w'. split; [reflexivity|exact H].
Qed.

(* ====================================================================== *)
(*  3. the periodic tick                                                   *)
(* ====================================================================== *)

Theorem tick_total ctx a w :
  exists a' w', tick ctx a w = Ok a' w'
    /\ w_live w' = w_live w /\ w_bytes w' = w_bytes w /\ w_now w' = w_now w.
Proof.
  unfold tick, bind, now_ms. cbv zeta.
  match goal with |- context [tick_enum_state ?x1 ?x2 ?x3 ?x4] => destruct (tick_enum_state x1 x2 x3 x4) as [e b] end.
  destruct (a_cur e =? 1).
  - match goal with |- context [tick_hello ?x1 ?x2 ?x3 ?x4 ?x5] => destruct (tick_hello x1 x2 x3 x4 x5) as [[[e2 b2] ltx] tx] end.
    destruct tx; unfold act, ret; eexists; eexists; (split; [reflexivity|]); cbn [w_live w_bytes w_now]; auto.
  - unfold ret. eexists; eexists. split; [reflexivity|]. auto.
Qed.

(* ====================================================================== *)
(*  4. the ESP32 entry point                                               *)
(* ====================================================================== *)

Theorem esp32_total buf len now a : length buf = o len -> exists a', esp32_handle buf len now a = Some a'.
Proof.
  intros H. unfold esp32_handle.
  destruct (N.ltb_spec len sz_hdr) as [|H32]; [eauto|].
  destruct (rd8_ok buf (o of_opcode)) as (v & ->); [unfold sz_hdr, of_opcode, o in *; lia|].
  eauto.
Qed.

(* ====================================================================== *)
(*  5. the session-event classifier                                        *)
(* ====================================================================== *)

Lemma scan_stations_ok buf me k : forall off, (off + 6 * k <= length buf)%nat ->
  exists b, scan_stations buf off k me = Some b.
Proof.
  induction k as [|k IH]; intros off H; cbn [scan_stations]; [eauto|].
  destruct (rdmac_ok buf off) as (a & ->); [lia|].
  destruct (mac_eqb a me); [eauto|].
  apply IH. change (o station_stride) with 6%nat. lia.
Qed.

Theorem classify_total buf len t me : (o len <= length buf)%nat -> exists ev, classify buf len t me = Some ev.
Proof.
  intros H. unfold classify.
  destruct (N.ltb_spec len sz_hdr) as [|H32]; [eauto|]. unfold sz_hdr in H32.
  destruct (rd8_ok buf (o of_opcode)) as (opc & ->); [unfold of_opcode, o in *; lia|]. cbv beta iota.
  destruct (opc =? opcode_reset).
  { destruct (rdmac_ok buf (o of_rdst)) as (r & ->); [unfold of_rdst, o in *; lia|]. eauto. }
  destruct (opc =? opcode_hello); [eauto|].
  destruct (opc =? opcode_discover); [|eauto].
  cbv zeta. change (sz_hdr + of_disc_list) with 36.
  destruct (N.ltb_spec len 36) as [|H36]; [eauto|].
  change (o sz_hdr + o of_disc_gen)%nat with 32%nat. change (o sz_hdr + o of_disc_count)%nat with 34%nat.
  change (o of_seq) with 30%nat. change (o of_rsrc) with 24%nat. change (o 36) with 36%nat.
  destruct (rd16_ok buf 32) as (gen & ->); [unfold o in *; lia|]. cbv beta iota.
  destruct (rd16_ok buf 30) as (xid & ->); [unfold o in *; lia|]. cbv beta iota.
  destruct (rdmac_ok buf 24) as (rsrc & ->); [unfold o in *; lia|]. cbv beta iota.
  destruct (rd16_ok buf 34) as (count & ->); [unfold o in *; lia|]. cbv beta iota.
  match goal with |- context [if count =? 0 then Some true else ?e] =>
    assert (A : exists ack, (if count =? 0 then Some true else e) = Some ack) end.
  { destruct (count =? 0); [eauto|]. apply scan_stations_ok.
    change station_stride with 6. set (held := (len - 36) / 6).
    assert (Hh : 36 + 6 * held <= len) by (subst held; lia).
    destruct (N.ltb_spec held count); unfold o in *; lia. }
  destruct A as (ack & ->). eauto.
Qed.

Print Assumptions reset_any_oracle.
Print Assumptions ctor_any_oracle.
Print Assumptions tick_total.
Print Assumptions esp32_total.
Print Assumptions classify_total.
