(* SysSafe.v - every receive entry point of the modelled system (model/Sys.v),
   together, over histories of operations: parseFrame on the registry
   (OFrame), derive_session_event (OClassify), the ESP32 entry point (OEsp32),
   the Darwin per-frame flow (OFlow), the periodic tick (OTick) and the clock
   (OAdv).  For EVERY allocation oracle, EVERY transmit oracle, every junk
   byte, every sequence of received byte strings of any length: no operation
   faults (no read outside the receive buffer / the reported length, no write
   outside a transmit buffer, no bad release) and the allocation ledger stays
   equal to what the interface records hold. *)
From LLTD Require Import BlockFun BufProofs BlockSafe Sys FaultProofs.
From Coq Require Import Lia ZifyBool ZifyN ZifyNat.
Ltac Zify.zify_post_hook ::= Z.div_mod_to_equations.
Local Open Scope N_scope.

Definition rx_op_ok (y : sys) (p : op) : Prop :=
  match p with
  | OFrame ctx _ _ | OClassify ctx _ _ | OFlow ctx _ _ => cfg_ok (cfg_of y ctx)
  | OEsp32 _ _ _ | OTick _ | OAdv _ => True
  | _ => False
  end.

(* ---- the receive buffer the daemons hand to the core ---- *)
Lemma mk_rxbuf_length c fill bytes : length (mk_rxbuf c fill bytes) = o (c_rxsize c).
Proof.
  unfold mk_rxbuf. cbv zeta. rewrite app_length, repeat_length.
  pose proof (firstn_le (o (c_rxsize c)) bytes). lia.
Qed.

Lemma rx_len_le c fill bytes : (o (rx_len c bytes) <= length (mk_rxbuf c fill bytes))%nat.
Proof. rewrite mk_rxbuf_length. unfold rx_len, o. lia. Qed.

(* the ESP32 harness buffer is exactly [len] bytes long *)
Lemma esp32_buf_length len (bytes : list byte) :
  length (firstn (o len) bytes ++ zeros (o len - length (firstn (o len) bytes))) = o len.
Proof. rewrite app_length, zeros_length. pose proof (firstn_le (o len) bytes). lia. Qed.

Lemma ledger_reg_same bl bb r w w' :
  w_live w' = w_live w -> w_bytes w' = w_bytes w -> ledger_reg bl bb r w -> ledger_reg bl bb r w'.
Proof. unfold ledger_reg. intros -> ->. auto. Qed.

(* ---- one operation ---- *)
Theorem rx_op_safe af sf junk y p w bl bb :
  rx_op_ok y p -> ledger_reg bl bb (y_reg y) w -> reg_bounded (y_g y) (y_reg y) ->
  exists y' r w', run_op af sf junk y p w = Ok (y', r) w'
    /\ ledger_reg bl bb (y_reg y') w' /\ reg_bounded (y_g y') (y_reg y')
    /\ y_cfgs y' = y_cfgs y /\ y_g y' = y_g y.
Proof.
  intros OK LR RB. destruct p; cbn [rx_op_ok] in OK; try contradiction; unfold run_op.
  - (* OAdv *)
    unfold bind, advance, ret. eexists; eexists; eexists. split; [reflexivity|].
    split; [eapply ledger_reg_same; [| |exact LR]; reflexivity|]. auto.
  - (* OFrame *)
    cbv zeta.
    destruct (safe_frame af sf junk ctx (cfg_of y ctx) (y_g y) (y_reg y) (mk_rxbuf (cfg_of y ctx) fill bytes) w bl bb)
      as (r' & w' & E & LR' & RB' & _); auto using mk_rxbuf_length.
    unfold bind. rewrite E. unfold ret.
    exists (set_reg y r'), RNone, w'. unfold set_reg. cbn [y_reg y_g y_cfgs]. auto.
  - (* OClassify *)
    cbv zeta.
    destruct (classify_total (mk_rxbuf (cfg_of y ctx) fill bytes) (rx_len (cfg_of y ctx) bytes)
                             (a_tbl (aset_of y ctx)) (own (cfg_of y ctx))) as (ev & E); [apply rx_len_le|].
    unfold bind. rewrite E. unfold lift, ret.
    exists y, (RInt ev), w. auto.
  - (* OEsp32 *)
    cbv zeta. unfold bind, now_s.
    destruct (esp32_total (firstn (o len) bytes ++ zeros (o len - length (firstn (o len) bytes))) len
                          (w_now w / 1000) (aset_of y ctx)) as (a' & E); [apply esp32_buf_length|].
    rewrite E. unfold lift, ret.
    exists (set_aset y ctx a'), RNone, w. unfold set_aset. cbn [y_reg y_g y_cfgs]. auto.
  - (* OFlow *)
    cbv zeta. unfold bind at 1. unfold now_ms.
    set (c := cfg_of y ctx) in *. set (buf := mk_rxbuf c fill bytes).
    assert (Lb : length buf = o (c_rxsize c)) by apply mk_rxbuf_length.
    destruct (classify_total buf (rx_len c bytes) (a_tbl (aset_of y ctx)) (own c)) as (ev & E); [apply rx_len_le|].
    unfold bind at 1. rewrite E. unfold lift at 1. unfold ret at 1.
    destruct (parse_hdr_ok buf) as (h & Eh); [destruct OK as (C1 & _); unfold o in *; lia|].
    unfold bind at 1. rewrite Eh. unfold lift at 1. unfold ret at 1.
    destruct (safe_frame af sf junk ctx c (y_g y) (y_reg y) buf w bl bb) as (r' & w1 & Ef & LR' & RB' & _); auto.
    unfold bind at 1. rewrite Ef.
    destruct (tick_total ctx (flow_automata (w_now w) h ev (aset_of y ctx)) w1) as (a2 & w2 & Et & L2 & B2 & _).
    unfold bind. rewrite Et. unfold ret.
    exists (set_aset (set_reg y r') ctx a2), RNone, w2. unfold set_aset, set_reg. cbn [y_reg y_g y_cfgs].
    split; [reflexivity|]. split; [eapply ledger_reg_same; eassumption|]. auto.
  - (* OTick *)
    destruct (tick_total ctx (aset_of y ctx) w) as (a2 & w2 & Et & L2 & B2 & _).
    unfold bind. rewrite Et. unfold ret.
    exists (set_aset y ctx a2), RNone, w2. unfold set_aset. cbn [y_reg y_g y_cfgs].
    split; [reflexivity|]. split; [eapply ledger_reg_same; eassumption|]. auto.
Qed.

(* ---- histories ---- *)
Fixpoint run_ops (af sf : N -> bool) (junk : N) (y : sys) (ops : list op) : M sys :=
  match ops with
  | [] => ret y
  | p :: r => yr <- run_op af sf junk y p ;; run_ops af sf junk (fst yr) r
  end.

Theorem rx_history_safe af sf junk : forall ops y w bl bb,
  (forall ctx, cfg_ok (cfg_of y ctx)) ->
  Forall (fun p => match p with
                   | OFrame _ _ _ | OClassify _ _ _ | OFlow _ _ _ | OEsp32 _ _ _ | OTick _ | OAdv _ => True
                   | _ => False
                   end) ops ->
  ledger_reg bl bb (y_reg y) w -> reg_bounded (y_g y) (y_reg y) ->
  exists y' w', run_ops af sf junk y ops w = Ok y' w'
    /\ ledger_reg bl bb (y_reg y') w' /\ reg_bounded (y_g y') (y_reg y').
Proof.
  induction ops as [|p ops IH]; intros y w bl bb CO F LR RB; cbn [run_ops].
  - exists y, w. unfold ret. auto.
  - inversion F as [|? ? Hp Hl]; subst.
    assert (OK : rx_op_ok y p) by (destruct p; cbn [rx_op_ok]; try contradiction; auto).
    destruct (rx_op_safe af sf junk y p w bl bb OK LR RB) as (y1 & r & w1 & E & LR1 & RB1 & Ec & Eg).
    unfold bind. rewrite E. cbn [fst].
    apply IH; auto.
    intros ctx. unfold cfg_of. rewrite Ec. apply CO.
Qed.

(* non-vacuity: the initial system in the initial world meets the hypotheses
   (every interface without an explicit configuration gets default_cfg:
   rxsize = mtu = 1500) *)
Example rx_history_applies :
  (forall ctx, cfg_ok (cfg_of sys0 ctx))
  /\ ledger_reg 0 0 (y_reg sys0) world0 /\ reg_bounded (y_g sys0) (y_reg sys0).
Proof.
  split; [|split; [split; reflexivity|constructor]].
  intros ctx. unfold cfg_of, sys0. cbn [y_cfgs assoc]. unfold default_cfg, cfg_ok. cbn [c_rxsize c_mtu]. lia.
Qed.

(* and a history that exercises every receive entry point is accepted by the theorem *)
Example rx_history_instance af sf junk :
  exists y' w',
    run_ops af sf junk sys0
      [OFrame 0 0 [1; 2; 3]; OClassify 0 255 []; OEsp32 1 0 []; OEsp32 1 5 [1]; OFlow 2 7 [9]; OTick 0; OAdv 1000] world0
    = Ok y' w' /\ ledger_reg 0 0 (y_reg y') w' /\ reg_bounded (y_g y') (y_reg y').
Proof.
  destruct rx_history_applies as (A & B & C).
  apply rx_history_safe; auto. repeat constructor.
Qed.

Print Assumptions rx_op_safe.
Print Assumptions rx_history_safe.
Print Assumptions rx_history_applies.
