(* BlockSafe.v - for EVERY allocation oracle, EVERY transmit oracle, every
   junk byte, every state and every receive buffer of the daemon's size: the
   instrumented buffer-level model of lltdBlock.c (model/Block.v) never
   faults (no read outside the receive buffer, no write outside a transmit
   buffer, no release of something not live) and keeps the allocation ledger
   equal to what the interface records hold.  Basis of C01 (model half), C18
   and C19. *)
From LLTD Require Import BlockFun BufProofs.
From Coq Require Import Lia ZifyBool ZifyN ZifyNat.
Ltac Zify.zify_post_hook ::= Z.div_mod_to_equations.
Local Open Scope N_scope.

(* configuration range of the properties: MTU in [576, 9216] (or the getter fails), receive buffer of at least MTU bytes *)
Definition cfg_ok (c : pcfg) : Prop :=
  576 <= c_rxsize c /\ c_rxsize c <= 65535 /\
  match c_mtu c with Some m => 576 <= m /\ m <= 9216 /\ m <= c_rxsize c | None => True end.

(* what a record may hold *)
Definition st_bounded (g : gcfg) (s : ist) : Prop :=
  (length (see s) <= o LLTD_SEE_LIST_MAX)%nat /\ (icon s = None \/ icon s = g_icon g).

(* ---- postconditions in the world monad ---- *)
Definition post {A} (r : res A) (P : A -> world -> Prop) : Prop :=
  match r with Ok a w' => P a w' | Fault _ => False end.
(* same ledger, same clock *)
Definition same (w w' : world) : Prop :=
  w_live w' = w_live w /\ w_bytes w' = w_bytes w /\ w_now w' = w_now w.

Lemma same_refl w : same w w. Proof. unfold same; auto. Qed.
Lemma same_trans w1 w2 w3 : same w1 w2 -> same w2 w3 -> same w1 w3.
Proof. unfold same. intros (a & b & c) (d & e & f). repeat split; congruence. Qed.

Lemma post_bind {A B} (m : M A) (f : A -> M B) w (Q : A -> world -> Prop) (P : B -> world -> Prop) :
  post (m w) Q -> (forall a w', Q a w' -> post (f a w') P) -> post (bind m f w) P.
Proof. unfold bind. destruct (m w); cbn [post]; [intros H1 H2; apply H2, H1|contradiction]. Qed.
Lemma post_ret {A} (a : A) w (P : A -> world -> Prop) : P a w -> post (ret a w) P.
Proof. exact (fun H => H). Qed.
Lemma post_weaken {A} (r : res A) (Q P : A -> world -> Prop) :
  post r Q -> (forall a w', Q a w' -> P a w') -> post r P.
Proof. unfold post. destruct r; auto. Qed.
Lemma post_wr {A} (x : option A) a w (P : A -> world -> Prop) : x = Some a -> P a w -> post (wr x w) P.
Proof. intros -> H. exact H. Qed.
Lemma post_rdm {A} (x : option A) a w (P : A -> world -> Prop) : x = Some a -> P a w -> post (rdm x w) P.
Proof. intros -> H. exact H. Qed.

(* ---- the port primitives ---- *)
Lemma alloc_post af n w :
  post (alloc af n w) (fun ok w' => w_now w' = w_now w
     /\ w_live w' = (if ok then S (w_live w) else w_live w)
     /\ w_bytes w' = (if ok then w_bytes w + n else w_bytes w)).
Proof. unfold alloc, post. destruct (af (w_allocs w)); cbn [w_now w_live w_bytes]; auto. Qed.
Lemma free_post n w : (0 < w_live w)%nat -> n <= w_bytes w ->
  post (free n w) (fun _ w' => w_now w' = w_now w /\ w_live w' = pred (w_live w) /\ w_bytes w' = w_bytes w - n).
Proof.
  intros H1 H2. unfold free, post. destruct (w_live w) as [|k]; [lia|].
  destruct (N.ltb_spec (w_bytes w) n); [lia|]. cbn [w_now w_live w_bytes pred]. auto.
Qed.
Lemma send_post sf ctx buf len w : (len <= length buf)%nat -> post (send sf ctx buf len w) (fun _ w' => same w w').
Proof. intros H. unfold send, post. destruct (Nat.leb_spec len (length buf)); [|lia]. unfold same; cbn [w_now w_live w_bytes]; auto. Qed.
Lemma act_post a w : post (act a w) (fun _ w' => same w w').
Proof. unfold act, post, same; cbn [w_now w_live w_bytes]; auto. Qed.

Lemma free_n_post sz k : forall w, (k <= w_live w)%nat -> sz * N.of_nat k <= w_bytes w ->
  post (free_n k sz w) (fun _ w' => w_now w' = w_now w /\ w_live w' = (w_live w - k)%nat /\ w_bytes w' = w_bytes w - sz * N.of_nat k).
Proof.
  induction k as [|k IH]; intros w H1 H2; cbn [free_n].
  - apply post_ret. repeat split; lia.
  - eapply post_bind; [apply free_post; lia|]. intros _ w1 (N1 & L1 & B1).
    eapply post_weaken; [apply IH; lia|]. intros _ w2 (N2 & L2 & B2). repeat split; lia.
Qed.

(* ---- stores: only lengths matter ---- *)
Lemma poke_ok buf off bs : (off + length bs <= length buf)%nat -> exists b', poke buf off bs = Some b' /\ length b' = length buf.
Proof.
  intros H. unfold poke. destruct (Nat.leb_spec (off + length bs) (length buf)); [|lia].
  eexists; split; [reflexivity|]. rewrite !app_length, firstn_length, skipn_length. lia.
Qed.

Lemma set_header_ex_ok buf esrc edst rsrc rdst seq opcode tos : (32 <= length buf)%nat ->
  exists b', set_header_ex buf esrc edst rsrc rdst seq opcode tos = Some b' /\ length b' = length buf.
Proof.
  intros H. unfold set_header_ex.
  change (o of_etype) with 12%nat. change (o of_esrc) with 6%nat. change (o of_edst) with 0%nat.
  change (o of_rsrc) with 24%nat. change (o of_rdst) with 18%nat. change (o of_seq) with 30%nat.
  change (o of_opcode) with 17%nat. change (o of_tos) with 15%nat. change (o of_version) with 14%nat.
  repeat match goal with
  | |- context [poke ?b ?off ?bs] =>
    let b' := fresh "b" in let E := fresh "E" in let L := fresh "L" in
    destruct (poke_ok b off bs) as (b' & E & L); [cbn [length mac_bytes be16]; lia|rewrite E; clear E]
  end.
  eexists; split; [reflexivity|]. congruence.
Qed.
Lemma set_header_ok buf src dst seq opcode tos : (32 <= length buf)%nat ->
  exists b', set_header buf src dst seq opcode tos = Some b' /\ length b' = length buf.
Proof. apply set_header_ex_ok. Qed.

Lemma set_hello_header_ok buf off a cu gn : (off + 14 <= length buf)%nat ->
  exists b', set_hello_header buf off a cu gn = Some b' /\ length b' = length buf.
Proof.
  intros H. unfold set_hello_header.
  change (o of_hello_app) with 8%nat. change (o of_hello_cur) with 2%nat. change (o of_hello_gen) with 0%nat.
  repeat match goal with
  | |- context [poke ?b ?off ?bs] =>
    let b' := fresh "b" in let E := fresh "E" in let L := fresh "L" in
    destruct (poke_ok b off bs) as (b' & E & L); [cbn [length mac_bytes be16]; lia|rewrite E; clear E]
  end.
  eexists; split; [reflexivity|]. congruence.
Qed.

Lemma emits_ok segs : forall b off, (off + length (concat segs) <= length b)%nat ->
  exists b', emits (b, off) segs = Some (b', (off + length (concat segs))%nat) /\ length b' = length b.
Proof.
  induction segs as [|s r IH]; intros b off H; cbn [emits concat length] in *.
  - exists b. rewrite Nat.add_0_r. auto.
  - rewrite app_length in H. unfold emit1; cbn [fst snd].
    destruct (poke_ok b off s) as (b1 & E & L); [lia|]. rewrite E.
    destruct (IH b1 (off + length s)%nat) as (b2 & E2 & L2); [lia|]. rewrite E2.
    exists b2. rewrite app_length, Nat.add_assoc. split; [reflexivity|congruence].
Qed.

Lemma fresh_buf_eq junk n w : fresh_buf junk n w = Ok (zeros (o n)) w.
Proof. unfold fresh_buf. rewrite memset_full. reflexivity. Qed.

(* ---- loads ---- *)
Lemma rd8_ok buf off : (off < length buf)%nat -> exists v, rd8 buf off = Some v.
Proof. intros H. unfold rd8. destruct (nth_error buf off) eqn:E; [eauto|]. apply nth_error_None in E. lia. Qed.
Lemma rd16_ok buf off : (off + 2 <= length buf)%nat -> exists v, rd16 buf off = Some v.
Proof.
  intros H. unfold rd16. destruct (rd8_ok buf off) as (a & ->); [lia|]. destruct (rd8_ok buf (S off)) as (b & ->); [lia|]. eauto.
Qed.
Lemma rdmac_ok buf off : (off + 6 <= length buf)%nat -> exists v, rdmac buf off = Some v.
Proof.
  intros H. unfold rdmac.
  destruct (rd8_ok buf off) as (x0 & ->); [lia|]. destruct (rd8_ok buf (1 + off)) as (x1 & ->); [lia|].
  destruct (rd8_ok buf (2 + off)) as (x2 & ->); [lia|]. destruct (rd8_ok buf (3 + off)) as (x3 & ->); [lia|].
  destruct (rd8_ok buf (4 + off)) as (x4 & ->); [lia|]. destruct (rd8_ok buf (5 + off)) as (x5 & ->); [lia|]. eauto.
Qed.
Lemma parse_hdr_ok buf : (36 <= length buf)%nat -> exists h, parse_hdr buf = Some h.
Proof.
  intros H. unfold parse_hdr.
  change (o of_edst) with 0%nat. change (o of_esrc) with 6%nat. change (o of_tos) with 15%nat. change (o of_opcode) with 17%nat.
  change (o of_rdst) with 18%nat. change (o of_rsrc) with 24%nat. change (o of_seq) with 30%nat. change (o sz_hdr) with 32%nat.
  destruct (rdmac_ok buf 0) as (? & ->); [lia|]. destruct (rdmac_ok buf 6) as (? & ->); [lia|].
  destruct (rd8_ok buf 15) as (? & ->); [lia|]. destruct (rd8_ok buf 17) as (? & ->); [lia|].
  destruct (rdmac_ok buf 18) as (? & ->); [lia|]. destruct (rdmac_ok buf 24) as (? & ->); [lia|].
  destruct (rd16_ok buf 30) as (? & ->); [lia|]. destruct (rd16_ok buf 32) as (? & ->); [lia|].
  destruct (rd8_ok buf 32) as (? & ->); [lia|]. destruct (rd16_ok buf (32 + 2)) as (? & ->); [lia|]. eauto.
Qed.
Lemma read_emitee_ok buf off : (off + 14 <= length buf)%nat -> exists d, read_emitee buf off = Some d.
Proof.
  intros H. unfold read_emitee.
  change (o of_emitee_type) with 0%nat. change (o of_emitee_pause) with 1%nat. change (o of_emitee_src) with 2%nat. change (o of_emitee_dst) with 8%nat.
  destruct (rd8_ok buf (off + 0)) as (? & ->); [lia|]. destruct (rd8_ok buf (off + 1)) as (? & ->); [lia|].
  destruct (rdmac_ok buf (off + 2)) as (? & ->); [lia|]. destruct (rdmac_ok buf (off + 8)) as (? & ->); [lia|]. eauto.
Qed.

(* ---- range of the MTU the handlers size their buffers with ---- *)
Lemma mtu_range c : cfg_ok c -> 576 <= mtu_or_default c /\ mtu_or_default c <= 9216.
Proof.
  intros (_ & _ & H). unfold mtu_or_default. destruct (c_mtu c) as [m|]; [|lia].
  destruct (N.eqb_spec m 0); lia.
Qed.

Lemma bind_wr {A B} (x : option A) a (f : A -> M B) w (P : B -> world -> Prop) :
  x = Some a -> post (f a w) P -> post (bind (wr x) f w) P.
Proof. intros -> H. exact H. Qed.
Lemma bind_rdm {A B} (x : option A) a (f : A -> M B) w (P : B -> world -> Prop) :
  x = Some a -> post (f a w) P -> post (bind (rdm x) f w) P.
Proof. intros -> H. exact H. Qed.
Lemma bind_fresh {B} junk n (f : list byte -> M B) w (P : B -> world -> Prop) :
  (forall b, length b = o n -> post (f b w) P) -> post (bind (fresh_buf junk n) f w) P.
Proof. intros H. unfold bind. rewrite fresh_buf_eq. apply H. apply zeros_length. Qed.

(* ---- records: what changes neither the observation list nor the cached icon ---- *)
Definition keep (s s' : ist) : Prop := see s' = see s /\ icon s' = icon s.
Lemma keep_refl s : keep s s. Proof. split; reflexivity. Qed.
Lemma keep_trans a b d : keep a b -> keep b d -> keep a d.
Proof. intros (x & y) (z & t). split; congruence. Qed.
Lemma keep_set_active s h : keep s (set_active s h).
Proof. unfold set_active. destruct (known s); split; reflexivity. Qed.
Lemma keep_with_seq s q : keep s (with_seq s q). Proof. split; reflexivity. Qed.
Lemma keep_with_mapper s a b : keep s (with_mapper s a b). Proof. split; reflexivity. Qed.
Lemma keep_set_gen s t v : keep s (set_gen s t v).
Proof. unfold set_gen. destruct (t =? tos_quick_discovery); split; reflexivity. Qed.
Lemma keep_reset_quick s : keep s (do_reset_quick s). Proof. split; reflexivity. Qed.
Lemma keep_seq_active s h q : keep s (with_seq (set_active s h) q).
Proof. eapply keep_trans; [apply keep_set_active|apply keep_with_seq]. Qed.

Ltac wr_hdr :=
  match goal with
  | |- context [wr (set_header_ex ?b ?a1 ?a2 ?a3 ?a4 ?a5 ?a6 ?a7)] =>
    let b' := fresh "b" in let E := fresh "E" in let L := fresh "Lb" in
    destruct (set_header_ex_ok b a1 a2 a3 a4 a5 a6 a7) as (b' & E & L); [|eapply bind_wr; [exact E|]; clear E]
  | |- context [wr (set_header ?b ?a1 ?a2 ?a3 ?a4 ?a5)] =>
    let b' := fresh "b" in let E := fresh "E" in let L := fresh "Lb" in
    destruct (set_header_ok b a1 a2 a3 a4 a5) as (b' & E & L); [|eapply bind_wr; [exact E|]; clear E]
  end.
Ltac wr_poke :=
  match goal with
  | |- context [wr (poke ?b ?off ?bs)] =>
    let b' := fresh "b" in let E := fresh "E" in let L := fresh "Lb" in
    destruct (poke_ok b off bs) as (b' & E & L); [|eapply bind_wr; [exact E|]; clear E]
  end.

Section Safe.
  Variables (af sf : N -> bool) (junk ctx : N) (c : pcfg) (g : gcfg).

  (* outcome of a handler that returns the record: ledger exact, record bounded, clock untouched *)
  Definition good (bl : nat) (bb : N) (w : world) (s' : ist) (w' : world) : Prop :=
    ledger_frame bl bb s' w' /\ st_bounded g s' /\ w_now w' = w_now w.

  Lemma good_keep bl bb s w s' w' :
    ledger_frame bl bb s w -> st_bounded g s -> keep s s' -> same w w' -> good bl bb w s' w'.
  Proof.
    unfold good, ledger_frame, st_bounded, keep, same, held_count, held_bytes.
    intros (L & B) (S1 & S2) (K1 & K2) (W1 & W2 & W3). rewrite K1, K2, W1, W2, W3. auto.
  Qed.

  (* ---- sendProbeMsg ---- *)
  Lemma send_probe_msg_post s d ack w :
    post (send_probe_msg af sf junk ctx c s d ack w) (fun _ w' => same w w').
  Proof.
    unfold send_probe_msg.
    eapply post_bind; [apply alloc_post|]. intros ok w1 (N1 & L1 & B1).
    destruct ok; cbn [negb]; [|apply post_ret; unfold same; auto].
    apply bind_fresh. intros b0 Lb0. change (o sz_hdr) with 32%nat in *.
    wr_hdr; [lia|].
    eapply post_bind; [apply act_post|]. intros ? w2 (L2 & B2 & N2).
    eapply post_bind; [apply send_post; lia|]. intros sent w3 (L3 & B3 & N3).
    unfold sz_hdr in *.
    destruct sent; cbn [negb].
    - eapply post_bind with (Q := fun _ w' => same w3 w').
      + destruct ack; [|apply post_ret, same_refl].
        wr_hdr; [lia|].
        eapply post_bind; [apply send_post; lia|]. intros ? w4 S4. apply post_ret. exact S4.
      + intros ? w4 (L4 & B4 & N4).
        eapply post_weaken; [apply free_post; lia|]. intros ? w5 (N5 & L5 & B5). unfold same. repeat split; lia.
    - eapply post_weaken; [apply free_post; lia|]. intros ? w5 (N5 & L5 & B5). unfold same. repeat split; lia.
  Qed.

  (* ---- parseEmit ---- *)
  Lemma emit_loop_post s buf k : forall i n w,
    (34 + 14 * (o i + k) <= length buf)%nat -> N.of_nat (length buf) <= 65535 ->
    post (emit_loop af sf junk ctx c s buf k i n w) (fun _ w' => same w w').
  Proof.
    induction k as [|k IH]; intros i n w H1 H2; cbn [emit_loop]; [apply post_ret, same_refl|].
    change (o sz_hdr) with 32%nat. change (o sz_emit_hdr) with 2%nat. unfold sz_emitee. unfold o in *.
    match goal with |- context [read_emitee buf ?off] => destruct (read_emitee_ok buf off) as (d & E); [lia|] end.
    eapply bind_rdm; [exact E|]. clear E.
    eapply post_bind with (Q := fun _ w' => same w w').
    - match goal with |- context [if ?b then _ else _] => destruct b end; [apply send_probe_msg_post|apply post_ret, same_refl].
    - intros ? w1 S1. eapply post_weaken; [apply IH; lia|]. intros ? w2 S2. eapply same_trans; eassumption.
  Qed.

  Lemma parse_emit_post s h buf w bl bb :
    cfg_ok c -> length buf = o (c_rxsize c) -> ledger_frame bl bb s w -> st_bounded g s ->
    post (parse_emit af sf junk ctx c s h buf w) (good bl bb w).
  Proof.
    intros (C1 & C2 & C3) Lb LF SB. unfold parse_emit.
    destruct (emit_fits c (h_w0 h)) eqn:F; cbn [negb];
      [|apply post_ret; apply (good_keep bl bb s w); auto using keep_refl, same_refl].
    unfold emit_fits in F. destruct (c_mtu c) as [m|]; [|discriminate].
    unfold sz_hdr, sz_emit_hdr, sz_emitee in F.
    eapply post_bind; [apply emit_loop_post; unfold o in *; lia|].
    intros ? w1 S1. apply post_ret. apply (good_keep bl bb s w); auto using keep_seq_active.
  Qed.

  (* ---- parseProbe ---- *)
  Lemma parse_probe_post s h w bl bb :
    ledger_frame bl bb s w -> st_bounded g s -> post (parse_probe af c s h w) (good bl bb w).
  Proof.
    intros LF SB. unfold parse_probe.
    assert (G0 : good bl bb w s w) by (apply (good_keep bl bb s w); auto using keep_refl, same_refl).
    destruct (negb (mac_eqb (h_rdst h) (own c))); [apply post_ret, G0|].
    destruct (see_full s) eqn:F; [apply post_ret, G0|].
    unfold see_full, LLTD_SEE_LIST_MAX in F.
    destruct LF as (L & B). destruct SB as (S1 & S2).
    eapply post_bind; [apply alloc_post|]. intros ok w1 (N1 & L1 & B1).
    unfold good, ledger_frame, st_bounded, held_count, held_bytes, sz_probe_node, LLTD_SEE_LIST_MAX, o in *.
    destruct ok; cbn [negb]; [|apply post_ret; repeat split; auto; lia].
    match goal with |- context [if ?b then _ else _] => destruct b end.
    - eapply post_bind; [apply free_post; lia|]. intros ? w2 (N2 & L2 & B2). apply post_ret. repeat split; auto; lia.
    - apply post_ret. cbn [with_see see icon length]. repeat split; auto; lia.
  Qed.

  (* ---- parseQuery ---- *)
  Lemma query_loop_ok l : forall b off rem mtu, (off <= length b)%nat -> length b = mtu ->
    exists b' off' rem', query_loop b off l rem mtu = Some (b', off', rem')
      /\ length b' = length b /\ (off' <= length b)%nat /\ (rem' <= rem)%nat.
  Proof.
    induction l as [|ob l IH]; intros b off rem mtu H1 H2; [exists b, off, rem; destruct rem; cbn; auto|].
    destruct rem as [|r]; [exists b, off, O; cbn; auto|].
    cbn [query_loop]. change (o desc_wire_size) with 20%nat.
    destruct (Nat.ltb_spec mtu (off + 20)); [exists b, off, (S r); auto|].
    destruct (poke_ok b off (desc_bytes ob)) as (b1 & E & L1); [change (length (desc_bytes ob)) with 20%nat; lia|].
    rewrite E. destruct (IH b1 (off + 20)%nat r mtu) as (b' & off' & rem' & E2 & L2 & O2 & R2); [lia|lia|].
    exists b', off', rem'. rewrite E2. repeat split; auto; lia.
  Qed.

  Lemma parse_query_post s h w bl bb :
    cfg_ok c -> ledger_frame bl bb s w -> st_bounded g s -> post (parse_query af sf junk ctx c s h w) (good bl bb w).
  Proof.
    intros CO LF SB. pose proof (mtu_range c CO) as (M1 & M2). unfold parse_query.
    set (mtu := mtu_or_default c) in *.
    set (s1 := with_mapper (with_seq s (h_seq h)) (h_rsrc h) (h_esrc h)).
    assert (K : keep s s1) by (split; reflexivity).
    eapply post_bind; [apply alloc_post|]. intros ok w1 (N1 & L1 & B1).
    destruct ok; cbn [negb].
    2:{ apply post_ret. apply (good_keep bl bb s w); auto. unfold same; auto. }
    apply bind_fresh. intros b0 Lb0. unfold o in *.
    wr_hdr; [lia|].
    change (N.to_nat sz_hdr) with 32%nat. change (N.to_nat sz_qresp_hdr) with 2%nat.
    wr_poke; [cbn [length be16]; lia|].
    match goal with |- context [query_loop ?b ?off ?l ?r ?m] =>
      destruct (query_loop_ok l b off r m) as (b3 & off' & rem' & E & L3 & O3 & R3); [lia|lia|] end.
    eapply bind_wr; [exact E|]. clear E. cbv beta iota.
    eapply post_bind; [apply send_post; lia|]. intros ? w2 (L2 & B2 & N2).
    destruct LF as (L & B). destruct SB as (S1 & S2).
    eapply post_bind; [apply free_post; lia|]. intros ? w3 (N3 & L3' & B3).
    match goal with |- context [free_n ?r _] => set (rep := r) end.
    assert (R : (rep <= length (see s))%nat) by (subst rep; destruct K as (-> & _); apply Nat.le_min_r).
    unfold ledger_frame, held_count, held_bytes, sz_probe_node in *.
    eapply post_bind; [apply free_n_post; lia|]. intros ? w4 (N4 & L4 & B4).
    apply post_ret. unfold good, ledger_frame, st_bounded, held_count, held_bytes, sz_probe_node.
    destruct K as (K1 & K2). cbn [with_see see icon]. rewrite skipn_length, K1, K2.
    repeat split; auto; lia.
  Qed.

  (* ---- sendLargeTlvResponse ---- *)
  Lemma send_large_tlv_post s h data dsize off w :
    cfg_ok c -> match data with Some d => dsize <= N.of_nat (length d) | None => True end ->
    post (send_large_tlv af sf junk ctx c s h data dsize off w) (fun _ w' => same w w').
  Proof.
    intros CO D. pose proof (mtu_range c CO) as (M1 & M2). unfold send_large_tlv.
    set (mtu := mtu_or_default c) in *.
    unfold sz_hdr, sz_qltresp_hdr.
    destruct (N.ltb_spec (32 + 2) mtu) as [_|?]; [|lia].
    replace ((mtu - 32 - 2) mod 65536) with (mtu - 34) by lia.
    set (maxp := mtu - 34) in *.
    eapply post_bind; [apply alloc_post|]. intros ok w1 (N1 & L1 & B1).
    destruct ok; cbn [negb]; [|apply post_ret; unfold same; auto].
    apply bind_fresh. intros b0 Lb0. unfold o in *.
    wr_hdr; [lia|].
    match goal with |- context [let '(a, b) := ?e in _] => destruct e as [btw lenfield] eqn:Ep end.
    assert (P : btw <= maxp /\ (0 < btw -> exists d, data = Some d /\ off + btw <= N.of_nat (length d))).
    { destruct data as [d|]; [|inversion Ep; split; [lia|intros; lia]].
      destruct (N.eqb_spec dsize 0); [inversion Ep; split; [lia|intros; lia]|].
      destruct (N.ltb_spec (off + maxp) dsize).
      - inversion Ep. split; [lia|]. intros _. exists d. split; [reflexivity|lia].
      - destruct (N.ltb_spec off dsize).
        + inversion Ep. split; [lia|]. intros _. exists d. split; [reflexivity|lia].
        + inversion Ep; split; [lia|intros; lia]. }
    clear Ep. destruct P as (P1 & P2).
    wr_poke; [cbn [length be16]; lia|].
    eapply post_bind with (Q := fun b w' => w' = w1 /\ length b = length b0).
    - destruct (N.ltb_spec 0 btw) as [Hb|Hb]; [|apply post_ret; split; [reflexivity|congruence]].
      destruct (P2 Hb) as (d & -> & Hd).
      unfold slice. destruct (Nat.leb_spec (N.to_nat off + N.to_nat btw) (length d)) as [_|?]; [|lia].
      eapply bind_rdm; [reflexivity|].
      match goal with |- context [poke ?b ?o1 ?bs] => destruct (poke_ok b o1 bs) as (b2 & E & Lb2); [rewrite firstn_length, skipn_length; lia|] end.
      eapply post_wr; [exact E|]. split; [reflexivity|congruence].
    - intros b3 w2 (-> & Lb3).
      eapply post_bind; [apply send_post; lia|]. intros ? w3 (L3 & B3 & N3).
      eapply post_weaken; [apply free_post; lia|]. intros ? w4 (N4 & L4 & B4). unfold same. repeat split; lia.
  Qed.

  (* ---- parseQueryLargeTlv ---- *)
  Lemma hwid_scratch_length : length (hwid_scratch g) = 64%nat.
  Proof. unfold hwid_scratch. rewrite app_length, zeros_length. pose proof (firstn_le 64 (g_hwid g)). lia. Qed.
  Lemma hwid_scan_le n : forall l i, (length l <= n)%nat -> (N.to_nat i + length l <= 64)%nat -> hwid_scan l i <= 64.
  Proof.
    induction n as [|n IH]; intros l i H1 H2.
    - destruct l; [cbn; lia|cbn in H1; lia].
    - destruct l as [|a [|b r]]; cbn [hwid_scan]; try lia.
      destruct ((a =? 0) && (b =? 0)); [cbn [length] in H2; lia|].
      apply IH; cbn [length] in *; lia.
  Qed.

  Lemma post_then_ret {A} (m : M unit) (a : A) w (P : A -> world -> Prop) :
    post (m w) (fun _ w' => P a w') -> post (bind m (fun _ => ret a) w) P.
  Proof. intros H. eapply post_bind; [exact H|]. intros ? w' H'. exact H'. Qed.

  Lemma parse_qlt_post s h w bl bb :
    cfg_ok c -> ledger_frame bl bb s w -> st_bounded g s -> post (parse_qlt af sf junk ctx c g s h w) (good bl bb w).
  Proof.
    intros CO LF SB. unfold parse_qlt.
    destruct (h_seq h =? 0); [apply post_ret; apply (good_keep bl bb s w); auto using keep_refl, same_refl|].
    set (s1 := with_seq (set_active s h) (h_seq h)).
    assert (K : keep s s1) by apply keep_seq_active.
    assert (G1 : forall w', same w w' -> good bl bb w s1 w') by (intros; apply (good_keep bl bb s w); auto).
    assert (NoData : post (bind (send_large_tlv af sf junk ctx c s1 h None 0 (h_w1 h)) (fun _ => ret s1) w) (good bl bb w)).
    { apply post_then_ret. eapply post_weaken; [apply send_large_tlv_post; auto|]. intros ? w' S'. apply G1, S'. }
    destruct K as (K1 & K2). destruct LF as (L & B). destruct SB as (S1 & S2).
    destruct (h_b0 h =? tlv_iconImage); [|destruct (h_b0 h =? tlv_friendlyName); [|destruct (h_b0 h =? tlv_hwIdProperty)]].
    - destruct (icon s1) as [d|] eqn:Ic.
      + apply post_then_ret. eapply post_weaken; [apply send_large_tlv_post; [auto|lia]|]. intros ? w' S'. apply G1, S'.
      + destruct (g_icon g) as [d|] eqn:Gi; [|exact NoData].
        eapply post_bind; [apply alloc_post|]. intros got w1 (N1 & L1 & B1).
        destruct got.
        * apply post_then_ret. eapply post_weaken; [apply send_large_tlv_post; [auto|lia]|]. intros ? w' (L' & B' & N').
          assert (Is : icon s = None) by congruence. clear G1 NoData.
          unfold good, ledger_frame, st_bounded, held_count, held_bytes in *. cbn [with_icon see icon].
          rewrite K1. rewrite Is in *. repeat split; auto; lia.
        * apply post_then_ret. eapply post_weaken; [apply send_large_tlv_post; auto|]. intros ? w' (L' & B' & N').
          apply G1. unfold same. repeat split; lia.
    - destruct (g_fname g) as [d|]; [|exact NoData].
      eapply post_bind; [apply alloc_post|]. intros got w1 (N1 & L1 & B1).
      destruct got.
      * eapply post_bind; [apply send_large_tlv_post; [auto|lia]|]. intros ? w2 (L2 & B2 & N2).
        apply post_then_ret. eapply post_weaken; [apply free_post; lia|]. intros ? w3 (N3 & L3 & B3).
        apply G1. unfold same. repeat split; lia.
      * apply post_then_ret. eapply post_weaken; [apply send_large_tlv_post; auto|]. intros ? w' (L' & B' & N').
        apply G1. unfold same. repeat split; lia.
    - eapply post_bind; [apply alloc_post|]. intros got w1 (N1 & L1 & B1).
      destruct got.
      * eapply post_bind; [apply send_large_tlv_post; [auto|]|].
        { rewrite hwid_scratch_length. change (N.of_nat 64) with 64.
          apply (hwid_scan_le 64); rewrite hwid_scratch_length; [lia|cbn; lia]. }
        intros ? w2 (L2 & B2 & N2).
        apply post_then_ret. eapply post_weaken; [apply free_post; lia|]. intros ? w3 (N3 & L3 & B3).
        apply G1. unfold same. repeat split; lia.
      * apply post_then_ret. eapply post_weaken; [apply send_large_tlv_post; auto|]. intros ? w' (L' & B' & N').
        apply G1. unfold same. repeat split; lia.
    - exact NoData.
  Qed.

  (* ---- answerHello ---- *)
  Lemma answer_hello_post s h w bl bb :
    cfg_ok c -> ledger_frame bl bb s w -> st_bounded g s -> post (answer_hello af sf junk ctx c g s h w) (good bl bb w).
  Proof.
    intros CO LF SB. pose proof (mtu_range c CO) as (M1 & M2). unfold answer_hello.
    set (mtu := mtu_or_default c) in *.
    eapply post_bind; [apply alloc_post|]. intros ok w1 (N1 & L1 & B1).
    destruct ok; cbn [negb].
    2:{ apply post_ret. apply (good_keep bl bb s w); auto using keep_refl. unfold same; auto. }
    apply bind_fresh. intros b0 Lb0. unfold o in *.
    set (s1 := with_seq (set_active s h) (h_seq h)).
    match goal with |- context [ret ?x] => set (s2 := x) end.
    assert (K : keep s s2).
    { subst s2. destruct (_ && _); [eapply keep_trans; [|apply keep_set_gen]|]; apply keep_seq_active. }
    wr_hdr; [lia|].
    change (N.to_nat sz_hdr) with 32%nat. change (N.to_nat sz_hello_hdr) with 14%nat.
    match goal with |- context [wr (set_hello_header ?b ?a1 ?a2 ?a3 ?a4)] =>
      destruct (set_hello_header_ok b a1 a2 a3 a4) as (b2 & E & Lb2); [lia|eapply bind_wr; [exact E|]; clear E] end.
    pose proof (hello_tlvs_length c g) as HL.
    destruct (emits_ok (hello_tlvs c g) b2 (32 + 14)%nat) as (b3 & E & Lb3); [lia|].
    eapply bind_wr; [exact E|]. clear E. cbn [fst snd].
    eapply post_bind; [apply send_post; lia|]. intros ? w2 (L2 & B2 & N2).
    eapply post_bind; [apply free_post; lia|]. intros ? w3 (N3 & L3 & B3).
    apply post_ret. apply (good_keep bl bb s w); auto. unfold same. repeat split; lia.
  Qed.

  (* ---- Reset ---- *)
  Lemma do_reset_topology_post s w bl bb :
    ledger_frame bl bb s w -> st_bounded g s -> post (do_reset_topology s w) (good bl bb w).
  Proof.
    intros (L & B) (S1 & S2). unfold do_reset_topology.
    unfold held_count, held_bytes, sz_probe_node in *.
    eapply post_bind; [apply free_n_post; lia|]. intros ? w1 (N1 & L1 & B1).
    eapply post_bind with (Q := fun _ w' => w_now w' = w_now w /\ w_live w' = bl /\ w_bytes w' = bb).
    - destruct (icon s) as [d|].
      + eapply post_weaken; [apply free_post; lia|]. intros ? w2 (N2 & L2 & B2). repeat split; lia.
      + apply post_ret. repeat split; lia.
    - intros ? w2 (N2 & L2 & B2). apply post_ret.
      unfold good, ledger_frame, st_bounded, held_count, held_bytes. cbn [see icon length]. repeat split; auto; lia.
  Qed.

  (* ---- parseFrame on an existing record ---- *)
  Lemma dispatch_post s h buf w bl bb :
    cfg_ok c -> length buf = o (c_rxsize c) -> ledger_frame bl bb s w -> st_bounded g s ->
    post (dispatch af sf junk ctx c g s h buf w) (good bl bb w).
  Proof.
    intros CO Lb LF SB. unfold dispatch.
    assert (G0 : good bl bb w s w) by (apply (good_keep bl bb s w); auto using keep_refl, same_refl).
    destruct (h_tos h =? tos_discovery); [|destruct (h_tos h =? tos_quick_discovery); [|apply post_ret, G0]].
    - destruct (h_opc h =? opcode_discover).
      { destruct (matches s h); [|apply post_ret, G0].
        eapply post_bind; [apply act_post|]. intros ? w1 (L1 & B1 & N1).
        destruct LF as (L & B).
        eapply post_weaken; [apply (answer_hello_post s h w1 bl bb); auto; split; congruence|].
        intros s' w' (LF' & SB' & N'). repeat split; auto; try apply LF'; try apply SB'; congruence. }
      destruct (h_opc h =? opcode_emit); [apply parse_emit_post; auto|].
      destruct ((h_opc h =? opcode_train) || (h_opc h =? opcode_probe)); [apply parse_probe_post; auto|].
      destruct (h_opc h =? opcode_query); [apply parse_query_post; auto|].
      destruct (h_opc h =? opcode_queryLargeTlv); [apply parse_qlt_post; auto|].
      destruct (h_opc h =? opcode_reset); [apply do_reset_topology_post; auto|apply post_ret, G0].
    - destruct (h_opc h =? opcode_discover).
      { destruct (matches s h); [apply answer_hello_post; auto|apply post_ret, G0]. }
      destruct (h_opc h =? opcode_queryLargeTlv); [apply parse_qlt_post; auto|].
      destruct (h_opc h =? opcode_reset); [|apply post_ret, G0].
      apply post_ret. apply (good_keep bl bb s w); auto using keep_reset_quick, same_refl.
  Qed.

  Lemma parse_frame_st_post s buf w bl bb :
    cfg_ok c -> length buf = o (c_rxsize c) -> ledger_frame bl bb s w -> st_bounded g s ->
    post (parse_frame_st af sf junk ctx c g s buf w) (good bl bb w).
  Proof.
    intros CO Lb LF SB. unfold parse_frame_st.
    destruct (parse_hdr_ok buf) as (h & E); [destruct CO as (C1 & _); unfold o in *; lia|].
    eapply bind_rdm; [exact E|]. clear E.
    assert (G0 : good bl bb w s w) by (apply (good_keep bl bb s w); auto using keep_refl, same_refl).
    destruct (pre_step s h) as [s1|] eqn:P; [|apply post_ret, G0].
    assert (K : keep s s1).
    { unfold pre_step in P. destruct (_ && _); [|inversion P; apply keep_refl].
      destruct (matches s h); [|discriminate]. inversion P.
      eapply keep_trans; [apply keep_set_active|apply keep_set_gen]. }
    destruct (good_keep bl bb s w s1 w LF SB K (same_refl w)) as (LF1 & SB1 & _).
    apply dispatch_post; auto.
  Qed.

  Theorem safe_step s buf w bl bb :
    cfg_ok c -> length buf = o (c_rxsize c) -> ledger_frame bl bb s w -> st_bounded g s ->
    exists s' w', parse_frame_st af sf junk ctx c g s buf w = Ok s' w'
      /\ ledger_frame bl bb s' w' /\ st_bounded g s' /\ w_now w' = w_now w.
  Proof.
    intros CO Lb LF SB. pose proof (parse_frame_st_post s buf w bl bb CO Lb LF SB) as H.
    destruct (parse_frame_st af sf junk ctx c g s buf w) as [s' w'|]; [|contradiction].
    exists s', w'. split; [reflexivity|exact H].
  Qed.
End Safe.

(* ---- registry level: parseFrame proper ---- *)
Fixpoint reg_count (r : registry) : nat :=
  match r with [] => O | (_, s) :: r' => (1 + held_count s + reg_count r')%nat end.
Fixpoint reg_bytes (r : registry) : N :=
  match r with [] => 0 | (_, s) :: r' => sz_iface_state + held_bytes s + reg_bytes r' end.
Definition ledger_reg (bl : nat) (bb : N) (r : registry) (w : world) : Prop :=
  w_live w = (bl + reg_count r)%nat /\ w_bytes w = bb + reg_bytes r.
Definition reg_bounded (g : gcfg) (r : registry) : Prop := Forall (fun p => st_bounded g (snd p)) r.

(* the record of [ctx] as a frame of the registry's ledger *)
Lemma reg_frame r ctx s : reg_find r ctx = Some s ->
  exists rc rb, reg_count r = (rc + held_count s)%nat /\ reg_bytes r = rb + held_bytes s /\
    forall s', reg_count (reg_set r ctx s') = (rc + held_count s')%nat
            /\ reg_bytes (reg_set r ctx s') = rb + held_bytes s'
            /\ length (reg_set r ctx s') = length r.
Proof.
  induction r as [|[k s0] r IH]; cbn [reg_find]; [discriminate|].
  destruct (N.eqb_spec k ctx) as [->|Hk].
  - intros E; inversion E; subst s0. exists (1 + reg_count r)%nat, (sz_iface_state + reg_bytes r).
    cbn [reg_count reg_bytes reg_set]. rewrite N.eqb_refl. cbn [reg_count reg_bytes length].
    split; [lia|]. split; [lia|]. intros s'. repeat split; lia.
  - intros E. destruct (IH E) as (rc & rb & H1 & H2 & H3).
    exists (1 + held_count s0 + rc)%nat, (sz_iface_state + held_bytes s0 + rb).
    cbn [reg_count reg_bytes reg_set]. destruct (N.eqb_spec k ctx) as [?|_]; [contradiction|].
    cbn [reg_count reg_bytes length].
    split; [lia|]. split; [lia|]. intros s'. destruct (H3 s') as (A1 & A2 & A3). repeat split; lia.
Qed.
Lemma reg_set_new r ctx s : reg_find r ctx = None -> reg_set r ctx s = r ++ [(ctx, s)].
Proof.
  induction r as [|[k s0] r IH]; cbn [reg_find reg_set app]; [reflexivity|].
  destruct (k =? ctx); [discriminate|]. intros E. rewrite IH by exact E. reflexivity.
Qed.
Lemma reg_count_app a b : reg_count (a ++ b) = (reg_count a + reg_count b)%nat.
Proof. induction a as [|[k s] a IH]; cbn [app reg_count]; [reflexivity|]. rewrite IH. lia. Qed.
Lemma reg_bytes_app a b : reg_bytes (a ++ b) = reg_bytes a + reg_bytes b.
Proof. induction a as [|[k s] a IH]; cbn [app reg_bytes]; [reflexivity|]. rewrite IH. lia. Qed.
Lemma reg_find_bounded g r ctx s : reg_bounded g r -> reg_find r ctx = Some s -> st_bounded g s.
Proof.
  unfold reg_bounded. induction r as [|[k s0] r IH]; cbn [reg_find]; [discriminate|]. intros F.
  inversion F; subst. destruct (k =? ctx); [intros E; inversion E; subst; assumption|auto].
Qed.
Lemma reg_set_bounded g r ctx s : reg_bounded g r -> st_bounded g s -> reg_bounded g (reg_set r ctx s).
Proof.
  unfold reg_bounded. intros F S. induction r as [|[k s0] r IH]; cbn [reg_set]; [constructor; auto|].
  inversion F; subst. destruct (k =? ctx); constructor; auto.
Qed.
Lemma fresh_bounded g : st_bounded g fresh.
Proof. split; [cbn; lia|left; reflexivity]. Qed.

Theorem safe_frame af sf junk ctx c g r buf w bl bb :
  cfg_ok c -> length buf = o (c_rxsize c) -> ledger_reg bl bb r w -> reg_bounded g r ->
  exists r' w', parse_frame af sf junk ctx c g r buf w = Ok r' w'
    /\ ledger_reg bl bb r' w' /\ reg_bounded g r' /\ w_now w' = w_now w
    /\ (length r' <= S (length r))%nat /\ (reg_find r ctx <> None -> length r' = length r).
Proof.
  intros CO Lb (L & B) RB. unfold parse_frame.
  destruct (reg_find r ctx) as [s|] eqn:F.
  - destruct (reg_frame r ctx s F) as (rc & rb & H1 & H2 & H3).
    destruct (safe_step af sf junk ctx c g s buf w (bl + rc)%nat (bb + rb)) as (s' & w' & E & (L' & B') & SB' & N'); auto.
    { split; lia. }
    { eapply reg_find_bounded; eassumption. }
    unfold bind. rewrite E. exists (reg_set r ctx s'), w'. destruct (H3 s') as (A1 & A2 & A3).
    split; [reflexivity|]. split; [split; lia|]. split; [apply reg_set_bounded; auto|].
    split; [exact N'|]. split; [lia|auto].
  - unfold bind. pose proof (alloc_post af sz_iface_state w) as A.
    destruct (alloc af sz_iface_state w) as [ok w1|]; [|contradiction]. cbn [post] in A. destruct A as (N1 & L1 & B1).
    destruct ok; cbn [negb].
    2:{ exists r, w1. split; [reflexivity|]. split; [split; lia|]. split; [exact RB|].
        split; [exact N1|]. split; [lia|intros X; contradiction]. }
    destruct (safe_step af sf junk ctx c g fresh buf w1 (bl + reg_count r + 1)%nat (bb + reg_bytes r + sz_iface_state))
      as (s' & w' & E & (L' & B') & SB' & N'); auto.
    { split; cbn; lia. }
    { apply fresh_bounded. }
    rewrite E. exists (reg_set r ctx s'), w'. rewrite reg_set_new by exact F.
    split; [reflexivity|]. split.
    { split; [rewrite reg_count_app|rewrite reg_bytes_app]; cbn [reg_count reg_bytes]; lia. }
    split; [apply Forall_app; split; [exact RB|constructor; [exact SB'|constructor]]|].
    split; [congruence|]. split; [rewrite app_length; cbn [length]; lia|intros X; contradiction].
Qed.

(* ---- histories: any sequence of frames on any interfaces, the clock moving in between ---- *)
Inductive fop := FFrame (ctx : N) (buf : list byte) | FAdv (ms : N).
Section Hist.
  Variables (af sf : N -> bool) (junk : N) (cfgs : N -> pcfg) (g : gcfg).
  Fixpoint run_frames (r : registry) (l : list fop) : M registry :=
    match l with
    | [] => ret r
    | FFrame ctx buf :: l' => r' <- parse_frame af sf junk ctx (cfgs ctx) g r buf ;; run_frames r' l'
    | FAdv ms :: l' => advance ms ;;; run_frames r l'
    end.
  Definition fop_ok (p : fop) : Prop :=
    match p with FFrame ctx buf => cfg_ok (cfgs ctx) /\ length buf = o (c_rxsize (cfgs ctx)) | FAdv _ => True end.

  (* every history, every oracle: no fault, ledger = what the records hold, records bounded *)
  Theorem safe_history l : forall r w bl bb,
    Forall fop_ok l -> ledger_reg bl bb r w -> reg_bounded g r ->
    exists r' w', run_frames r l w = Ok r' w' /\ ledger_reg bl bb r' w' /\ reg_bounded g r'.
  Proof.
    induction l as [|p l IH]; intros r w bl bb F LR RB; cbn [run_frames].
    - exists r, w. auto.
    - inversion F as [|? ? Hp Hl]; subst. destruct p as [ctx buf|ms].
      + destruct Hp as (CO & Lb).
        destruct (safe_frame af sf junk ctx (cfgs ctx) g r buf w bl bb CO Lb LR RB) as (r1 & w1 & E & LR1 & RB1 & _).
        unfold bind. rewrite E. apply IH; auto.
      + unfold bind, advance. apply IH; auto.
  Qed.

  (* C19: the retained memory is bounded by a constant per interface record, whatever the history *)
  Definition icon_len : N := match g_icon g with Some d => N.of_nat (length d) | None => 0 end.
  Definition per_iface_bound : N := sz_iface_state + sz_probe_node * LLTD_SEE_LIST_MAX + icon_len.
  Lemma held_bytes_bound s : st_bounded g s -> held_bytes s <= sz_probe_node * LLTD_SEE_LIST_MAX + icon_len.
  Proof.
    intros (S1 & S2). unfold held_bytes, icon_len, sz_probe_node, LLTD_SEE_LIST_MAX, o in *.
    destruct S2 as [->| ->]; [|destruct (g_icon g)]; lia.
  Qed.
  Theorem reg_bytes_bound r : reg_bounded g r -> reg_bytes r <= N.of_nat (length r) * per_iface_bound.
  Proof.
    unfold reg_bounded. induction r as [|[k s] r IH]; intros F; cbn [reg_bytes length]; [lia|].
    inversion F as [|? ? Hs Hr]; subst. specialize (IH Hr). apply held_bytes_bound in Hs. cbn [snd] in Hs.
    unfold per_iface_bound in *. set (K := sz_probe_node * LLTD_SEE_LIST_MAX + icon_len) in *.
    unfold sz_iface_state in *. lia.
  Qed.
  Theorem reg_count_bound r : reg_bounded g r -> (reg_count r <= length r * (2 + o LLTD_SEE_LIST_MAX))%nat.
  Proof.
    unfold reg_bounded. induction r as [|[k s] r IH]; intros F; cbn [reg_count length]; [lia|].
    inversion F as [|? ? Hs Hr]; subst. specialize (IH Hr). destruct Hs as (S1 & S2). cbn [snd] in *.
    unfold held_count. set (K := o LLTD_SEE_LIST_MAX) in *.
    assert ((match icon s with Some _ => 1 | None => 0 end <= 1)%nat) by (destruct (icon s); lia). lia.
  Qed.
End Hist.

(* non-vacuity: the hypotheses are met by the empty registry in the empty world and a default-style configuration *)
Example safe_history_applies :
  ledger_reg 0 0 [] world0 /\ reg_bounded {| g_host := []; g_icon := None; g_fname := None; g_hwid := []; g_retfull := false |} [].
Proof. split; [split; reflexivity|constructor]. Qed.

(* the configuration range is inhabited, with a working MTU getter and with a failing one *)
Example cfg_ok_applies :
  forall mtu, mtu = Some 1500 \/ mtu = None ->
  cfg_ok {| c_rxsize := 1500; c_mtu := mtu; c_mac := None; c_flags := 0; c_iftype := None; c_ipv4 := None; c_ipv6 := None;
            c_speed := None; c_wifi := None; c_bssid := None; c_ssid := []; c_rate := None; c_rssi := None |}.
Proof. intros mtu [-> | ->]; unfold cfg_ok; cbn [c_rxsize c_mtu]; lia. Qed.

Print Assumptions safe_step.
Print Assumptions safe_frame.
Print Assumptions safe_history.
Print Assumptions reg_bytes_bound.
Print Assumptions reg_count_bound.
