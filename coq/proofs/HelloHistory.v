(* HelloHistory.v - C03 / C04 at HISTORY level on the buffer-level system model.

   BufferLevel.v states C04 per frame (an accepted Discover is answered by a Hello that decodes to the
   interface's attributes).  Here the statement is about a whole history and read from the trace side:
   EVERY transmission that a history adds to the trace and whose opcode byte says "Hello"
     - decodes (hello_fields / decode_attrs of spec/SpecTx.v) to the attributes of the interface it is
       attributed to, with that interface's own address as both sources, broadcast destinations, sequence 0;
     - was caused by a Discover of the history received on that very interface and accepted there, whose
       generation, mapper addresses and service type it echoes.
   The key step is step_hello_origin: in f_step only f_answer_hello emits a frame whose opcode byte is
   Hello; all other handlers emit Probe/Train/ACK/QueryResp/QueryLargeTlvResp. *)
From Coq Require Import List NArith Lia ZifyBool ZifyN ZifyNat.
From LLTD Require Import BlockFun BufProofs BlockSafe BlockNominal Isolation PropsMapper SystemRefinement
                         SpecTx TxProofs PropsEmit PropsQuery PropsLarge BufferLevel.
Import ListNotations.
Ltac Zify.zify_post_hook ::= Z.div_mod_to_equations.
Local Open Scope N_scope.

(* ====================================================================== *)
(*  1. The opcode byte of every frame the handlers build                  *)
(* ====================================================================== *)

(* the opcode sits at offset 17 of the base header, whatever follows it *)
Lemma opcode_at_17 es ed rs rd seq opc tos rest :
  nth 17 (header_bytes es ed rs rd seq opc tos ++ rest) 0 = opc.
Proof. reflexivity. Qed.

Lemma opcode_at_17_hdr es ed rs rd seq opc tos :
  nth 17 (header_bytes es ed rs rd seq opc tos) 0 = opc.
Proof. reflexivity. Qed.

(* a port call that is not a Hello transmission *)
Definition not_hello (a : action) : Prop :=
  match a with Send _ _ fr => nth 17 fr 0 <> opcode_hello | _ => True end.

Section NotHello.
  Variables (ctx : N) (c : pcfg) (g : gcfg) (mtu : N).

  Lemma nh_probe d : not_hello (tx ctx (probe_frame c d)).
  Proof.
    unfold tx, not_hello, probe_frame. rewrite opcode_at_17_hdr.
    destruct (d_type d =? 1); discriminate.
  Qed.
  Lemma nh_ack s : not_hello (tx ctx (ack_frame c s)).
  Proof. unfold tx, not_hello, ack_frame. rewrite opcode_at_17_hdr. discriminate. Qed.
  Lemma nh_qresp h seq rep more : not_hello (tx ctx (qresp_frame c h seq rep more)).
  Proof. unfold tx, not_hello, qresp_frame. rewrite opcode_at_17. discriminate. Qed.
  Lemma nh_qlt h seq chunk more : not_hello (tx ctx (qlt_frame c h seq chunk more)).
  Proof. unfold tx, not_hello, qlt_frame. rewrite opcode_at_17. discriminate. Qed.

  Lemma nh_emit_all s ds : Forall not_hello (f_emit_all ctx c s ds).
  Proof.
    induction ds as [|d ds IH]; cbn [f_emit_all]; [constructor|].
    apply Forall_app. split; [|exact IH].
    unfold f_emit_one. destruct ((d_type d =? 1) || (d_type d =? 0)); [|constructor].
    apply Forall_app. split.
    - constructor; [exact I|]. constructor; [apply nh_probe|constructor].
    - destruct ds; [constructor; [apply nh_ack|constructor]|constructor].
  Qed.

  Lemma nh_parse_emit s h buf : Forall not_hello (snd (f_parse_emit ctx c mtu s h buf)).
  Proof.
    unfold f_parse_emit.
    destruct (negb ((sz_hdr + sz_emit_hdr <=? mtu) && (h_w0 h <=? (mtu - sz_hdr - sz_emit_hdr) / sz_emitee)));
      [constructor|].
    destruct (read_descs buf (o (h_w0 h)) 0); cbn [snd]; [apply nh_emit_all|constructor].
  Qed.

  Lemma nh_parse_query s h : Forall not_hello (snd (f_parse_query ctx c mtu s h)).
  Proof. unfold f_parse_query. cbn [snd]. constructor; [apply nh_qresp|constructor]. Qed.

  Lemma nh_large_tlv h seq data off : Forall not_hello (f_large_tlv ctx c mtu h seq data off).
  Proof.
    unfold f_large_tlv. destruct (off + payload_max mtu <? N.of_nat (length data));
      (constructor; [apply nh_qlt|constructor]).
  Qed.

  Lemma nh_parse_qlt s h : Forall not_hello (snd (f_parse_qlt ctx c g mtu s h)).
  Proof.
    unfold f_parse_qlt. destruct (h_seq h =? 0); [constructor|].
    destruct (h_b0 h =? tlv_iconImage).
    { destruct (icon (with_seq (set_active s h) (h_seq h))); [cbn [snd]; apply nh_large_tlv|].
      destruct (g_icon g); cbn [snd]; apply nh_large_tlv. }
    destruct (h_b0 h =? tlv_friendlyName); [cbn [snd]; apply nh_large_tlv|].
    destruct (h_b0 h =? tlv_hwIdProperty); cbn [snd]; apply nh_large_tlv.
  Qed.

  (* the dispatcher: unless the frame is a Discover (either service) that the record accepts, nothing it
     makes the port transmit is a Hello *)
  Lemma nh_dispatch s h buf :
    is_discover h && matches s h = false ->
    Forall not_hello (snd (f_dispatch ctx c g mtu s h buf)).
  Proof.
    unfold is_discover, is_discovery_tos, f_dispatch. intros K.
    destruct (h_tos h =? tos_discovery).
    { cbn [orb andb] in K.
      destruct (h_opc h =? opcode_discover).
      { cbn [andb] in K. rewrite K. constructor. }
      destruct (h_opc h =? opcode_emit); [apply nh_parse_emit|].
      destruct ((h_opc h =? opcode_train) || (h_opc h =? opcode_probe)); [constructor|].
      destruct (h_opc h =? opcode_query); [apply nh_parse_query|].
      destruct (h_opc h =? opcode_queryLargeTlv); [apply nh_parse_qlt|].
      destruct (h_opc h =? opcode_reset); constructor. }
    cbn [orb] in K.
    destruct (h_tos h =? tos_quick_discovery); [|constructor].
    destruct (h_opc h =? opcode_discover).
    { cbn [andb] in K. rewrite K. constructor. }
    destruct (h_opc h =? opcode_queryLargeTlv); [apply nh_parse_qlt|].
    destruct (h_opc h =? opcode_reset); constructor.
  Qed.

  (* accepting is stable under the Discover pre-step (the dispatcher asks again) *)
  Lemma matches_pre_step s h s1 :
    is_discover h = true -> pre_step s h = Some s1 -> matches s h = true.
  Proof.
    unfold pre_step, is_discover. intros D. rewrite D.
    destruct (matches s h); [reflexivity|discriminate].
  Qed.

  (* ---- the key lemma: a Hello on the wire comes from an accepted Discover, and is THE Hello for it ---- *)
  Lemma step_hello_origin s buf k ok fr :
    In (Send k ok fr) (snd (f_step ctx c g mtu s buf)) -> nth 17 fr 0 = opcode_hello ->
    exists h, parse_hdr buf = Some h /\ is_discover h = true /\ matches s h = true
              /\ k = ctx /\ ok = true /\ fr = hello_frame c g h (h_w0 h).
  Proof.
    intros Hin Op.
    destruct (parse_hdr buf) as [h|] eqn:P; [|unfold f_step in Hin; rewrite P in Hin; contradiction].
    destruct (is_discover h) eqn:D.
    - destruct (matches s h) eqn:M.
      + rewrite (C03_one_hello ctx c g mtu s buf h P D M) in Hin.
        exists h. split; [reflexivity|]. split; [exact D|]. split; [exact M|].
        apply in_app_or in Hin as [Hin|Hin].
        * destruct (h_tos h =? tos_discovery); [destruct Hin as [Hin|[]]; discriminate|contradiction].
        * destruct Hin as [Hin|[]]. unfold tx in Hin. inversion Hin. repeat split.
      + rewrite (C03_rejected ctx c g mtu s buf h P D M) in Hin. contradiction.
    - exfalso. unfold f_step in Hin. rewrite P in Hin.
      destruct (pre_step s h) as [s1|]; [|contradiction].
      assert (K : is_discover h && matches s1 h = false) by (rewrite D; reflexivity).
      pose proof (nh_dispatch s1 h buf K) as F. rewrite Forall_forall in F.
      exact (F _ Hin Op).
  Qed.
End NotHello.

(* ====================================================================== *)
(*  2. Histories                                                          *)
(* ====================================================================== *)

(* what the theorem says of one transmission (k', ok, fr) attributed by the run to interface k *)
Definition hello_explained (cfgs : N -> pcfg) (g : gcfg) (l : list fop) (k k' : N) (ok : bool) (fr : list byte) : Prop :=
  k' = k /\ ok = true
  /\ exists hf, hello_fields fr = Some hf
     (* C04: the attributes of THAT interface, its own address, broadcast destinations, sequence 0 *)
     /\ decode_attrs (hf_props hf) = attrs_of (cfgs k) g
     /\ hf_esrc hf = mac_bytes (own (cfgs k))
     /\ hf_rsrc hf = mac_bytes (own (cfgs k))
     /\ hf_edst hf = [255; 255; 255; 255; 255; 255]
     /\ hf_rdst hf = [255; 255; 255; 255; 255; 255]
     /\ hf_seq hf = 0
     (* the wireless TLVs are present exactly on a wireless interface *)
     /\ (forall t, In t [4; 6; 9; 13] -> (In t (map fst (hf_props hf)) <-> c_wifi (cfgs k) <> None))
     /\ (In 5 (map fst (hf_props hf)) <-> c_wifi (cfgs k) <> None /\ c_bssid (cfgs k) <> None)
     (* C03: caused by a Discover of the history, received on k, whose fields it echoes *)
     /\ exists buf h, In (FFrame k buf) l /\ parse_hdr buf = Some h /\ is_discover h = true
          /\ hf_gen hf = h_w0 h mod 65536
          /\ hf_cur hf = mac_bytes (h_rsrc h)
          /\ hf_app hf = mac_bytes (h_esrc h)
          /\ hf_tos hf = h_tos h.

Section History.
  Variable junk : N.
  Variable cfgs : N -> pcfg.
  Variable g : gcfg.
  Variable mtus : N -> N.
  Hypothesis Hnom : cfgs_nominal cfgs mtus.
  Hypothesis Hwf : forall k, cfg_wf (cfgs k) g.

  Notation RUN := (run_frames no_fail no_fail junk cfgs g).
  Notation SYS := (sys_run cfgs g mtus).

  (* the pure multi-interface run: a Hello among its tagged calls was caused by a Discover of the history that
     the interface accepted in the state it had reached by then *)
  Lemma sys_run_hello_origin l m k k' ok fr :
    In (k, Send k' ok fr) (snd (SYS m l)) -> nth 17 fr 0 = opcode_hello ->
    exists l1 buf l2 h, l = l1 ++ (k, buf) :: l2
      /\ parse_hdr buf = Some h /\ is_discover h = true
      /\ matches (fst (SYS m l1) k) h = true
      /\ k' = k /\ ok = true /\ fr = hello_frame (cfgs k) g h (h_w0 h).
  Proof.
    intros Hin Op.
    destruct (sys_run_origin cfgs g mtus l m k _ Hin) as (l1 & buf & l2 & El & Ha).
    destruct (step_hello_origin k (cfgs k) g (mtus k) _ buf k' ok fr Ha Op) as (h & P & D & M & K & O & F).
    exists l1, buf, l2, h. repeat (split; [assumption|]). assumption.
  Qed.

  Lemma hello_frame_explained l k h buf :
    In (FFrame k buf) l -> parse_hdr buf = Some h -> is_discover h = true ->
    hello_explained cfgs g l k k true (hello_frame (cfgs k) g h (h_w0 h)).
  Proof.
    intros Hin P D. split; [reflexivity|]. split; [reflexivity|].
    pose proof (C04_roundtrip (cfgs k) g (Hwf k) h (h_w0 h)) as R.
    destruct (hello_fields (hello_frame (cfgs k) g h (h_w0 h))) as [hf|] eqn:Eh; [|contradiction].
    destruct (C04_wireless_gate (cfgs k) g (hf_props hf) (hello_fields_props (cfgs k) g h (h_w0 h) hf Eh)) as (G1 & G2).
    destruct R as (R1 & R2 & R3 & R4 & R5 & R6 & R7 & R8 & R9 & R10).
    exists hf. split; [reflexivity|].
    repeat (split; [assumption|]).
    exists buf, h. repeat (split; [assumption|]). assumption.
  Qed.

  (* ---- the main theorem ---- *)
  Theorem C03_C04_buffer_level_history l r w bl bb :
    Forall (fop_len cfgs) l -> ledger_reg bl bb r w ->
    exists r' w' ta,
      RUN r l w = Ok r' w'
      /\ ta = snd (SYS (reg_state r) (fframes l))
      /\ w_trace w' = rev (map snd ta) ++ w_trace w
      /\ ledger_reg bl bb r' w'
      /\ forall k k' ok fr, In (k, Send k' ok fr) ta -> nth 17 fr 0 = opcode_hello ->
           hello_explained cfgs g l k k' ok fr.
  Proof.
    intros F LR.
    destruct (system_refinement_clock junk cfgs g mtus Hnom l r w bl bb F LR) as (r' & w' & E & T & _ & LR' & _).
    exists r', w', (snd (SYS (reg_state r) (fframes l))).
    split; [exact E|]. split; [reflexivity|]. split; [exact T|]. split; [exact LR'|].
    intros k k' ok fr Hin Op.
    destruct (sys_run_hello_origin _ _ _ _ _ _ Hin Op) as (l1 & buf & l2 & h & El & P & D & _ & -> & -> & ->).
    apply (hello_frame_explained l k h buf); [|exact P|exact D].
    apply in_fframes. rewrite El. apply in_or_app. right. left. reflexivity.
  Qed.

  (* the same with the tags erased: about the calls ADDED to the trace themselves *)
  Corollary C03_C04_buffer_level_trace l r w bl bb :
    Forall (fop_len cfgs) l -> ledger_reg bl bb r w ->
    exists r' w' added,
      RUN r l w = Ok r' w'
      /\ w_trace w' = added ++ w_trace w
      /\ ledger_reg bl bb r' w'
      /\ forall k ok fr, In (Send k ok fr) added -> nth 17 fr 0 = opcode_hello ->
           hello_explained cfgs g l k k ok fr.
  Proof.
    intros F LR. destruct (C03_C04_buffer_level_history l r w bl bb F LR) as (r' & w' & ta & E & _ & T & LR' & P).
    exists r', w', (rev (map snd ta)). split; [exact E|]. split; [exact T|]. split; [exact LR'|].
    intros k ok fr Hin Op. apply in_rev, in_map_iff in Hin as ([k0 a] & Ea & Hin). cbn [snd] in Ea. subst a.
    pose proof (P _ _ _ _ Hin Op) as H. destruct H as (K & H). subst k0.
    split; [reflexivity|exact H].
  Qed.
End History.

(* the cause, positionally: the Discover sits at a definite place of the history and the interface's record,
   as the run had left it just before, accepted it (no mapper yet, or this mapper) *)
Theorem C03_hello_accepted_history junk cfgs g mtus (Hnom : cfgs_nominal cfgs mtus) l r w bl bb :
  Forall (fop_len cfgs) l -> ledger_reg bl bb r w ->
  exists r' w' ta,
    run_frames no_fail no_fail junk cfgs g r l w = Ok r' w'
    /\ ta = snd (sys_run cfgs g mtus (reg_state r) (fframes l))
    /\ w_trace w' = rev (map snd ta) ++ w_trace w
    /\ forall k k' ok fr, In (k, Send k' ok fr) ta -> nth 17 fr 0 = opcode_hello ->
         exists l1 buf l2 h, fframes l = l1 ++ (k, buf) :: l2
           /\ parse_hdr buf = Some h /\ is_discover h = true
           /\ let s := fst (sys_run cfgs g mtus (reg_state r) l1) k in
              (active s = None \/ active s = Some (h_rsrc h))
           /\ k' = k /\ ok = true /\ fr = hello_frame (cfgs k) g h (h_w0 h).
Proof.
  intros F LR.
  destruct (system_refinement_clock junk cfgs g mtus Hnom l r w bl bb F LR) as (r' & w' & E & T & _ & LR' & _).
  exists r', w', (snd (sys_run cfgs g mtus (reg_state r) (fframes l))).
  split; [exact E|]. split; [reflexivity|]. split; [exact T|].
  intros k k' ok fr Hin Op.
  destruct (sys_run_hello_origin cfgs g mtus _ _ _ _ _ _ Hin Op) as (l1 & buf & l2 & h & El & P & D & M & K & O & Fr).
  exists l1, buf, l2, h. split; [exact El|]. split; [exact P|]. split; [exact D|].
  split; [apply matches_active; exact M|]. repeat (split; [assumption|]). assumption.
Qed.

(* ====================================================================== *)
(*  3. A concrete two-interface history                                   *)
(* ====================================================================== *)

(* interface 2 is a wireless port with another address; every other interface is ex_cfg *)
Definition hh_cfg2 : pcfg :=
  {| c_rxsize := 1500; c_mtu := Some 1500; c_mac := Some (Mac 2 0 0 0 0 2); c_flags := 0; c_iftype := Some 71;
     c_ipv4 := Some 3232235777; c_ipv6 := None; c_speed := Some 540000; c_wifi := Some 2;
     c_bssid := Some (Mac 2 0 0 0 0 77); c_ssid := [104; 105]; c_rate := None; c_rssi := None |}.
Definition hh_cfgs (k : N) : pcfg := if k =? 2 then hh_cfg2 else ex_cfg.

(* Discovers on both interfaces (from different mappers), the clock moving, then an Emit, a Query and a
   QueryLargeTlv on interface 1 and a second Discover of interface 2's mapper *)
Definition hh_discover2 : list byte := ex_rx PropsMapper.ex_discover_other.
Definition hh_history : list fop :=
  [FFrame 1 bl_discover; FAdv 100; FFrame 2 hh_discover2; FFrame 1 bl_emit; FAdv 5; FFrame 1 bl_query;
   FFrame 2 hh_discover2; FFrame 1 bl_qlt].

Example hello_history_hypotheses_satisfiable :
  cfgs_nominal hh_cfgs (fun _ => 1500)
  /\ (forall k, cfg_wf (hh_cfgs k) bl_g)
  /\ Forall (fop_len hh_cfgs) hh_history
  /\ ledger_reg 0 0 [] world0.
Proof.
  split.
  { intros k. unfold hh_cfgs. destruct (k =? 2); cbn [hh_cfg2 ex_cfg c_mtu c_rxsize]; repeat split; lia. }
  split.
  { intros k. unfold hh_cfgs. destruct (k =? 2).
    - unfold cfg_wf, mac_ok, bytes_ok, hh_cfg2, bl_g; cbn; repeat split; repeat constructor; try reflexivity; discriminate.
    - exact (proj1 (proj2 (proj2 (proj2 (proj2 (proj2 (proj2 (proj2 (proj2 (proj2 buffer_level_hypotheses_satisfiable)))))))))). }
  split; [repeat constructor|split; reflexivity].
Qed.

(* the history runs without fault; exactly three of the calls it adds are Hellos - one on interface 1, two
   on interface 2 - and each of them is explained: it decodes to ITS interface's attributes (interface 2's
   carry the wireless mode, interface 1's do not) and echoes a Discover received there *)
Example hello_history_instance junk :
  exists r' w' ta,
    run_frames no_fail no_fail junk hh_cfgs bl_g [] hh_history world0 = Ok r' w'
    /\ w_trace w' = rev (map snd ta) ++ []
    /\ map fst (filter (fun p => match snd p with Send _ _ fr => nth 17 fr 0 =? opcode_hello | _ => false end) ta)
       = [1; 2; 2]
    /\ (forall k k' ok fr, In (k, Send k' ok fr) ta -> nth 17 fr 0 = opcode_hello ->
          hello_explained hh_cfgs bl_g hh_history k k' ok fr)
    /\ exists fr1 fr2 hf1 hf2,
         In (1, Send 1 true fr1) ta /\ In (2, Send 2 true fr2) ta
         /\ hello_fields fr1 = Some hf1 /\ hello_fields fr2 = Some hf2
         /\ at_wifi (decode_attrs (hf_props hf1)) = None
         /\ at_wifi (decode_attrs (hf_props hf2)) = Some 2
         /\ hf_gen hf1 = 5 /\ hf_gen hf2 = 9.
Proof.
  destruct hello_history_hypotheses_satisfiable as (Hn & Hw & Hl & Hr).
  destruct (C03_C04_buffer_level_history junk hh_cfgs bl_g (fun _ => 1500) Hn Hw hh_history [] world0 0%nat 0 Hl Hr)
    as (r' & w' & ta & E & Eta & T & _ & P).
  exists r', w', ta. split; [exact E|]. split; [exact T|].
  split; [rewrite Eta; vm_compute; reflexivity|]. split; [exact P|].
  rewrite Eta. vm_compute. do 4 eexists.
  split; [right; left; reflexivity|]. split; [do 3 right; left; reflexivity|].
  vm_compute. repeat split.
Qed.

(* The theorems select Hellos by the opcode byte and not by "hello_fields fr = Some hf": hello_fields does not
   look at the opcode, so a QueryLargeTlvResp whose payload happens to end like a property list (e.g. a
   13-byte icon ending in 0: skipn 46 of the 47-byte response is [0], the empty list) passes it with a
   property list that is not the interface's. *)

Print Assumptions step_hello_origin.
Print Assumptions C03_C04_buffer_level_history.
Print Assumptions C03_C04_buffer_level_trace.
Print Assumptions C03_hello_accepted_history.
Print Assumptions hello_history_hypotheses_satisfiable.
Print Assumptions hello_history_instance.
