(* QueryHistory.v - C07 (every observed probe reported exactly once) over a whole history, on the
   buffer-level whole-system model.

   PropsQuery.C07_conservation is a theorem about the pure run f_run of one interface:
       delivered_run ++ see (final state)   is a permutation of   recorded_run ++ see (initial state).
   Here the same conclusion is stated about run_frames (model/Block.v, the monadic model that is
   differentially tested against the C), for any interleaved history on any interfaces:
     - the run does not fault, and its trace is the tagged trace with the tags erased
       (SystemRefinement.C17_buffer_level = system_refinement + Isolation.isolation);
     - the port calls tagged ctx answer the frames of ctx one after the other; the answer to every Query
       is exactly one transmitted frame, which the independent decoder decode_qresp of PropsQuery.v
       reads as a QueryResp carrying the Query's sequence number (relation `answers`);
     - the observation lists decoded from these QueryResp frames, concatenated in order, together with
       what is still in the see-list of the final registry, are a permutation of what the history
       recorded together with what was in the see-list of the initial registry. *)
From Coq Require Import List NArith Lia Permutation ZifyBool ZifyN ZifyNat.
From LLTD Require Import BlockFun BufProofs BlockSafe BlockNominal Isolation PropsMapper PropsQuery
  SystemRefinement BufferLevel.
Import ListNotations.
Ltac Zify.zify_post_hook ::= Z.div_mod_to_equations.
Local Open Scope N_scope.

(* a received buffer holds bytes *)
Definition bytes_ok (b : list byte) : Prop := Forall (fun x => x < 256) b.

(* `answers ctx bufs acts ds`: the port calls acts split into one segment per received frame of bufs;
   the segment of a Query frame is exactly one transmit on ctx of a frame that decode_qresp reads as
   (sequence number of the Query, some more-flag, d); ds is the concatenation of these d, in order.
   Segments of other frames are not constrained (and contribute nothing to ds). *)
Inductive answers (ctx : N) : list (list byte) -> list action -> list obs -> Prop :=
| ans_nil : answers ctx [] [] []
| ans_query b h fr more d bufs acts ds :
    parse_hdr b = Some h -> is_query h = true ->
    decode_qresp fr = Some (h_seq h, more, d) ->
    answers ctx bufs acts ds ->
    answers ctx (b :: bufs) (tx ctx fr :: acts) (d ++ ds)
| ans_other b a bufs acts ds :
    (forall h, parse_hdr b = Some h -> is_query h = false) ->
    answers ctx bufs acts ds ->
    answers ctx (b :: bufs) (a ++ acts) ds.

(* ---- the pure run: its port calls answer the history with delivered_run ---- *)
Lemma answers_run ctx c g mtu : 576 <= mtu <= 9216 ->
  forall bufs s, Forall bytes_ok bufs -> types_ok (see s) ->
  answers ctx bufs (snd (f_run ctx c g mtu s bufs)) (delivered_run ctx c g mtu s bufs).
Proof.
  intros Hm. induction bufs as [|b bufs IH]; intros s Hb Ht.
  - cbn [f_run snd delivered_run]. constructor.
  - inversion Hb as [|? ? Hb1 Hb2]; subst.
    rewrite (run_cons_snd ctx c g mtu s b bufs). cbn [delivered_run].
    pose proof (IH (fst (f_step ctx c g mtu s b)) Hb2 (C07_types ctx c g mtu s b Ht)) as A.
    destruct (parse_hdr b) as [h|] eqn:Hp.
    + destruct (is_query h) eqn:Hq.
      * destruct (C07_query_decoded ctx c g mtu s b h Hm Hp Hq Hb1 Ht) as (fr & E & D).
        rewrite E. cbn [app]. eapply ans_query; eassumption.
      * replace (delivered_step mtu s b) with (@nil obs) by (unfold delivered_step; rewrite Hp, Hq; reflexivity).
        cbn [app]. apply ans_other; [|exact A].
        intros h' E'. rewrite Hp in E'. injection E' as <-. exact Hq.
    + replace (delivered_step mtu s b) with (@nil obs) by (unfold delivered_step; rewrite Hp; reflexivity).
      cbn [app]. apply ans_other; [|exact A]. intros h' E'. rewrite Hp in E'. discriminate E'.
Qed.

Section History.
  Variable junk : N.
  Variable cfgs : N -> pcfg.
  Variable g : gcfg.
  Variable mtus : N -> N.
  Hypothesis Hnom : cfgs_nominal cfgs mtus.

  Notation RUN := (run_frames no_fail no_fail junk cfgs g).

  Theorem C07_buffer_level_history l r w bl bb ctx :
    Forall (frame_len cfgs) l -> ledger_reg bl bb r w ->
    Forall bytes_ok (frames_of ctx l) ->
    Forall not_topo_reset (frames_of ctx l) ->
    types_ok (see (reg_state r ctx)) ->
    exists r' w' tagged delivered,
      RUN r (as_fops l) w = Ok r' w'
      /\ w_trace w' = rev (map snd tagged) ++ w_trace w
      /\ acts_of ctx tagged = snd (f_run ctx (cfgs ctx) g (mtus ctx) (reg_state r ctx) (frames_of ctx l))
      /\ reg_state r' ctx = fst (f_run ctx (cfgs ctx) g (mtus ctx) (reg_state r ctx) (frames_of ctx l))
      /\ answers ctx (frames_of ctx l) (acts_of ctx tagged) delivered
      /\ Permutation (delivered ++ see (reg_state r' ctx))
                     (recorded_run ctx (cfgs ctx) g (mtus ctx) (reg_state r ctx) (frames_of ctx l)
                      ++ see (reg_state r ctx)).
  Proof.
    intros F LR Hb Hn Ht.
    destruct (C17_buffer_level junk cfgs g mtus Hnom l r w bl bb F LR) as (r' & w' & tagged & E & T & A).
    destruct (A ctx) as (A1 & A2). destruct (Hnom ctx) as (_ & M2 & M3 & _).
    exists r', w', tagged, (delivered_run ctx (cfgs ctx) g (mtus ctx) (reg_state r ctx) (frames_of ctx l)).
    split; [exact E|]. split; [exact T|]. split; [exact A1|]. split; [exact A2|].
    split.
    - rewrite A1. apply answers_run; [lia|exact Hb|exact Ht].
    - rewrite A2. apply C07_conservation. exact Hn.
  Qed.

  (* no duplicate keys in the see-list of the registry after any history either *)
  Corollary C07_buffer_level_history_nodup l r w bl bb ctx :
    Forall (frame_len cfgs) l -> ledger_reg bl bb r w ->
    nodupb (see (reg_state r ctx)) = true ->
    exists r' w', RUN r (as_fops l) w = Ok r' w' /\ nodupb (see (reg_state r' ctx)) = true.
  Proof.
    intros F LR Hd.
    destruct (C17_buffer_level junk cfgs g mtus Hnom l r w bl bb F LR) as (r' & w' & tagged & E & _ & A).
    exists r', w'. split; [exact E|]. rewrite (proj2 (A ctx)). apply C07_nodup_run. exact Hd.
  Qed.
End History.

(* ---- `answers` is never satisfied vacuously: a Query frame in the history forces a frame in the trace
   that decodes as a QueryResp with the Query's sequence number ---- *)
Lemma answers_query_forces ctx b h bufs acts ds :
  parse_hdr b = Some h -> is_query h = true -> answers ctx (b :: bufs) acts ds ->
  exists fr more d acts' ds', acts = tx ctx fr :: acts' /\ ds = d ++ ds'
    /\ decode_qresp fr = Some (h_seq h, more, d) /\ answers ctx bufs acts' ds'.
Proof.
  intros Hp Hq A. inversion A as [|b0 h0 fr more d bufs0 acts0 ds0 P Q D R|b0 a bufs0 acts0 ds0 NQ R]; subst.
  - assert (h0 = h) by congruence. subst h0. exists fr, more, d, acts0, ds0. repeat split; assumption.
  - rewrite (NQ h Hp) in Hq. discriminate Hq.
Qed.

(* ------------------------------------------------------------------ *)
(* a concrete history: interface 1 hears a Probe, interface 2 hears     *)
(* the same Probe, then interface 1 is queried                          *)
(* ------------------------------------------------------------------ *)
Definition qh_hist : list (N * list byte) :=
  [(1, ex_rx PropsQuery.ex_probe); (2, ex_rx PropsQuery.ex_probe); (1, ex_rx PropsQuery.ex_query)].

Lemma forallb_bytes (b : list byte) : forallb (fun x => x <? 256) b = true -> bytes_ok b.
Proof.
  intros H. apply Forall_forall. intros x Hx. rewrite forallb_forall in H. specialize (H x Hx). cbv beta in H. lia.
Qed.

Example history_hypotheses_satisfiable :
  Forall (frame_len (fun _ => ex_cfg)) qh_hist
  /\ Forall bytes_ok (frames_of 1 qh_hist)
  /\ Forall not_topo_reset (frames_of 1 qh_hist)
  /\ types_ok (see (reg_state [] 1))
  /\ recorded_run 1 ex_cfg PropsQuery.ex_g 1500 (reg_state [] 1) (frames_of 1 qh_hist) = [PropsQuery.ex_ob 9 1]
  /\ delivered_run 1 ex_cfg PropsQuery.ex_g 1500 (reg_state [] 1) (frames_of 1 qh_hist) = [PropsQuery.ex_ob 9 1].
Proof.
  split; [repeat constructor|].
  split; [repeat constructor; apply forallb_bytes; vm_compute; reflexivity|].
  split.
  { repeat constructor; intros h E.
    - assert (X : parse_hdr (ex_rx PropsQuery.ex_probe) = Some PropsQuery.ex_probe_h) by (vm_compute; reflexivity).
      cbn [snd] in E. rewrite X in E. injection E as <-. reflexivity.
    - assert (X : exists h0, parse_hdr (ex_rx PropsQuery.ex_query) = Some h0 /\ is_topo_reset h0 = false)
        by (eexists; split; vm_compute; reflexivity).
      destruct X as (h0 & X & Y). cbn [snd] in E. rewrite X in E. injection E as <-. exact Y. }
  split; [constructor|].
  split; vm_compute; reflexivity.
Qed.

(* the theorem applied to it: the history runs without fault on the buffer-level model, the port calls of
   interface 1 are one QueryResp (nothing for the Probe), and it carries the one observation recorded *)
Example history_instance junk :
  exists r' w' tagged fr more,
    run_frames no_fail no_fail junk (fun _ => ex_cfg) PropsQuery.ex_g [] (as_fops qh_hist) world0 = Ok r' w'
    /\ w_trace w' = rev (map snd tagged) ++ []
    /\ acts_of 1 tagged = [tx 1 fr]
    /\ decode_qresp fr = Some (7, more, [PropsQuery.ex_ob 9 1])
    /\ see (reg_state r' 1) = [].
Proof.
  destruct history_hypotheses_satisfiable as (F & B & NR & T & _ & _).
  destruct (C07_buffer_level_history junk (fun _ => ex_cfg) PropsQuery.ex_g (fun _ => 1500)
              (proj1 (proj2 system_hypotheses_satisfiable)) qh_hist [] world0 0%nat 0 1
              F (proj1 system_hypotheses_satisfiable) B NR T)
    as (r' & w' & tagged & delivered & E & Tr & A1 & A2 & An & _).
  assert (X : exists fr, snd (f_run 1 ex_cfg PropsQuery.ex_g 1500 (reg_state [] 1) (frames_of 1 qh_hist)) = [tx 1 fr]
                         /\ exists more, decode_qresp fr = Some (7, more, [PropsQuery.ex_ob 9 1])).
  { eexists. split; [vm_compute; reflexivity|]. eexists. vm_compute. reflexivity. }
  destruct X as (fr & X1 & more & X2).
  exists r', w', tagged, fr, more. split; [exact E|]. split; [exact Tr|].
  split; [rewrite A1; exact X1|]. split; [exact X2|].
  rewrite A2. vm_compute. reflexivity.
Qed.

Print Assumptions C07_buffer_level_history.
Print Assumptions C07_buffer_level_history_nodup.
Print Assumptions history_instance.
