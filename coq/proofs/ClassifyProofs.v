(* ClassifyProofs.v - C11: the model of derive_session_event equals the
   byte-level specification for every buffer, length, table and address. *)
From LLTD Require Import Automata SpecClassify TableProofs.
From Coq Require Import Lia ZifyBool ZifyN ZifyNat.
Ltac Zify.zify_post_hook ::= Z.div_mod_to_equations.
Local Open Scope N_scope.

(* ---------- reads agree with slicing ---------- *)
Lemma nth_error_firstn {A} (l : list A) n i : (i < n)%nat -> nth_error (firstn n l) i = nth_error l i.
Proof. revert l i; induction n as [|n IH]; intros l i H; [lia|]. destruct l as [|x l]; [destruct i; reflexivity|].
  destruct i as [|i]; cbn; [reflexivity|]. apply IH. lia. Qed.
Lemma nth_error_skipn {A} (l : list A) k i : nth_error (skipn k l) i = nth_error l (k + i).
Proof. revert l; induction k as [|k IH]; intros l; cbn; [reflexivity|]. destruct l; [destruct i; reflexivity|apply IH]. Qed.
Lemma rd8_nth buf off : (off < length buf)%nat -> rd8 buf off = Some (nth off buf 0).
Proof. intros H. unfold rd8. apply nth_error_nth'. exact H. Qed.

Lemma bytes_at_2 l off : (off + 2 <= length l)%nat -> bytes_at l off 2 = [nth off l 0; nth (S off) l 0].
Proof.
  intros H. unfold bytes_at. destruct (skipn off l) as [|a [|b r]] eqn:E.
  - pose proof (skipn_length off l) as L. rewrite E in L. cbn in L. lia.
  - pose proof (skipn_length off l) as L. rewrite E in L. cbn in L. lia.
  - cbn. assert (Ha : nth_error (skipn off l) 0 = Some a) by (rewrite E; reflexivity).
    assert (Hb : nth_error (skipn off l) 1 = Some b) by (rewrite E; reflexivity).
    rewrite nth_error_skipn in Ha, Hb. rewrite Nat.add_0_r in Ha. replace (off + 1)%nat with (S off) in Hb by lia.
    rewrite (nth_error_nth _ _ 0 Ha), (nth_error_nth _ _ 0 Hb). reflexivity.
Qed.
Lemma rd16_u16 buf off : (off + 2 <= length buf)%nat -> rd16 buf off = Some (u16_at buf off).
Proof. intros H. unfold rd16, u16_at. rewrite !rd8_nth by lia. rewrite bytes_at_2 by exact H. reflexivity. Qed.

Lemma bytes_at_6 l off : (off + 6 <= length l)%nat ->
  bytes_at l off 6 = [nth off l 0; nth (1 + off) l 0; nth (2 + off) l 0; nth (3 + off) l 0; nth (4 + off) l 0; nth (5 + off) l 0].
Proof.
  intros H. unfold bytes_at.
  assert (G : forall i, (i < 6)%nat -> nth_error (firstn 6 (skipn off l)) i = Some (nth (i + off) l 0)).
  { intros i Hi. rewrite nth_error_firstn by exact Hi. rewrite nth_error_skipn. replace (off + i)%nat with (i + off)%nat by lia.
    apply nth_error_nth'. lia. }
  assert (L : length (firstn 6 (skipn off l)) = 6%nat) by (rewrite firstn_length, skipn_length; lia).
  destruct (firstn 6 (skipn off l)) as [|a [|b [|c [|d [|e [|f [|g r]]]]]]]; cbn in L; try lia.
  pose proof (G 0%nat) as G0. pose proof (G 1%nat) as G1. pose proof (G 2%nat) as G2.
  pose proof (G 3%nat) as G3. pose proof (G 4%nat) as G4. pose proof (G 5%nat) as G5. cbn in *.
  specialize (G0 ltac:(lia)). specialize (G1 ltac:(lia)). specialize (G2 ltac:(lia)).
  specialize (G3 ltac:(lia)). specialize (G4 ltac:(lia)). specialize (G5 ltac:(lia)). congruence.
Qed.
Lemma rdmac_at buf off : (off + 6 <= length buf)%nat ->
  exists a, rdmac buf off = Some a /\ mac_bytes a = bytes_at buf off 6.
Proof. intros H. unfold rdmac. rewrite !rd8_nth by lia. eexists. split; [reflexivity|]. rewrite bytes_at_6 by exact H. reflexivity. Qed.
Lemma bytes_eqb_mac a b : bytes_eqb (mac_bytes a) (mac_bytes b) = mac_eqb a b.
Proof. unfold mac_bytes, mac_eqb. cbn. rewrite andb_true_r, !andb_assoc. reflexivity. Qed.

(* slicing the received part of the buffer = slicing the buffer, below the length *)
Lemma firstn_skipn_firstn {A} (l : list A) len off n : (off + n <= len)%nat ->
  firstn n (skipn off (firstn len l)) = firstn n (skipn off l).
Proof.
  revert l len; induction off as [|off IH]; intros l len H.
  - cbn [skipn]. rewrite firstn_firstn. f_equal. lia.
  - destruct len as [|len]; [lia|]. destruct l as [|x l]; [reflexivity|]. cbn [firstn skipn]. apply IH. lia.
Qed.
Lemma bytes_at_firstn l len off n : (off + n <= len)%nat -> bytes_at (firstn len l) off n = bytes_at l off n.
Proof. apply firstn_skipn_firstn. Qed.
Lemma nth_firstn {A} (l : list A) len i d : (i < len)%nat -> nth i (firstn len l) d = nth i l d.
Proof. revert l i; induction len as [|n IH]; intros l i H; [lia|]. destruct l as [|x l]; [reflexivity|].
  destruct i as [|i]; cbn; [reflexivity|]. apply IH. lia. Qed.
Lemma u16_at_firstn l len off : (off + 2 <= len)%nat -> u16_at (firstn len l) off = u16_at l off.
Proof. intros H. unfold u16_at. rewrite bytes_at_firstn by exact H. reflexivity. Qed.

(* ---------- the station scan ---------- *)
Lemma existsb_map' {A B} (f : A -> B) (p : B -> bool) l : existsb p (map f l) = existsb (fun x => p (f x)) l.
Proof. induction l as [|x r IH]; cbn; [reflexivity|]. rewrite IH. reflexivity. Qed.
Lemma existsb_ext_in' {A} (p q : A -> bool) l : (forall x, In x l -> p x = q x) -> existsb p l = existsb q l.
Proof. induction l as [|x r IH]; cbn; [reflexivity|]. intros H. rewrite H by (left; reflexivity). rewrite IH; [reflexivity|]. intros y Hy. apply H. right. exact Hy. Qed.
Lemma find_ext' {A} (p q : A -> bool) l : (forall x, p x = q x) -> find p l = find q l.
Proof. intros H. induction l as [|x r IH]; cbn; [reflexivity|]. rewrite H, IH. reflexivity. Qed.
Lemma scan_stations_spec buf me k : forall off,
  (off + 6 * k <= length buf)%nat ->
  scan_stations buf off k me = Some (existsb (fun i => addr_at buf (off + 6 * i) (mac_bytes me)) (seq 0 k)).
Proof.
  change (o station_stride) with 6%nat.
  induction k as [|k IH]; intros off H; cbn [scan_stations]; [reflexivity|].
  destruct (rdmac_at buf off) as (a & Ha & Hb); [lia|]. rewrite Ha.
  change (o station_stride) with 6%nat.
  cbn [seq existsb]. replace (off + 6 * 0)%nat with off by lia.
  unfold addr_at at 1. rewrite <- Hb, bytes_eqb_mac.
  destruct (mac_eqb a me) eqn:E; cbn [orb]; [reflexivity|].
  rewrite IH by lia. f_equal. rewrite <- seq_shift, existsb_map'.
  apply existsb_ext_in'. intros i _. f_equal. lia.
Qed.

(* ---------- the table as "known sessions" ---------- *)
Definition known_of (t : stable) (rsrc : list N) (gen : N) : option N :=
  match find (fun s => s_valid s && bytes_eqb (mac_bytes (s_mac s)) rsrc && (s_gen s =? gen)) (t_slots t) with
  | Some s => Some (s_seq s) | None => None
  end.

Lemma find_idx_find {A} (p : A -> bool) l :
  match find_idx p l with Some i => nth_error l i = find p l /\ find p l <> None | None => find p l = None end.
Proof.
  induction l as [|x r IH]; cbn; [reflexivity|]. destruct (p x); [split; [reflexivity|discriminate]|].
  destruct (find_idx p r); cbn; exact IH.
Qed.

(* ---------- derive_session_event ---------- *)
Definition bytes_ok (l : list N) : Prop := Forall (fun b => b < 256) l.
Lemma nth_byte l i : bytes_ok l -> nth i l 0 < 256.
Proof. intros H. destruct (Nat.lt_ge_cases i (length l)) as [Hi|Hi].
  - unfold bytes_ok in H. rewrite Forall_forall in H. apply H, nth_In, Hi.
  - rewrite nth_overflow by exact Hi. lia. Qed.
Lemma u16_at_bound l off : bytes_ok l -> (off + 2 <= length l)%nat -> u16_at l off < 65536.
Proof. intros B H. unfold u16_at. rewrite bytes_at_2 by exact H.
  pose proof (nth_byte l off B). pose proof (nth_byte l (S off) B). lia. Qed.

Lemma known_of_find t rsrc gen :
  known_of t (mac_bytes rsrc) gen =
  match st_find t rsrc gen with Some i => option_map s_seq (nth_error (t_slots t) i) | None => None end.
Proof.
  unfold known_of, st_find.
  assert (E : forall s, (s_valid s && bytes_eqb (mac_bytes (s_mac s)) (mac_bytes rsrc) && (s_gen s =? gen)) = slot_match rsrc gen s).
  { intros s. rewrite bytes_eqb_mac. reflexivity. }
  rewrite (find_ext' _ _ (t_slots t) E).
  pose proof (find_idx_find (slot_match rsrc gen) (t_slots t)) as H.
  destruct (find_idx (slot_match rsrc gen) (t_slots t)) as [i|].
  - destruct H as [H1 H2]. rewrite H1. destruct (find _ _); [reflexivity|congruence].
  - rewrite H. reflexivity.
Qed.

Theorem classify_correct buf len t me :
  bytes_ok buf -> (N.to_nat len <= length buf)%nat ->
  classify buf len t me = Some (classify_spec (firstn (N.to_nat len) buf) (known_of t) (mac_bytes me)).
Proof.
  intros Hb Hlen. unfold classify, classify_spec.
  change sz_hdr with 32. change (o of_opcode) with 17%nat. change opcode_reset with 8. change opcode_hello with 1.
  change opcode_discover with 0. change (o of_rdst) with 18%nat. change (32 + of_disc_list) with 36.
  change (o 32 + o of_disc_gen)%nat with 32%nat. change (o of_seq) with 30%nat. change (o of_rsrc) with 24%nat.
  change (o 32 + o of_disc_count)%nat with 34%nat. change (o 36) with 36%nat. change station_stride with 6.
  set (n := N.to_nat len) in *. rewrite firstn_length, (Nat.min_l n (length buf)) by exact Hlen.
  destruct (len <? 32) eqn:E32.
  { destruct (n <? 32)%nat eqn:E; [reflexivity|]. apply Nat.ltb_ge in E. lia. }
  destruct (n <? 32)%nat eqn:E32'; [apply Nat.ltb_lt in E32'; lia|]. apply Nat.ltb_ge in E32'.
  rewrite rd8_nth by lia. rewrite nth_firstn by lia.
  set (opc := nth 17 buf 0).
  destruct (opc =? 8) eqn:Eo8.
  { destruct (rdmac_at buf 18) as (a & Ha & Hab); [lia|]. rewrite Ha. unfold addr_at. rewrite bytes_at_firstn by lia. rewrite <- Hab.
    change [255; 255; 255; 255; 255; 255] with (mac_bytes bcast). rewrite bytes_eqb_mac.
    destruct (mac_eqb a bcast); reflexivity. }
  destruct (opc =? 1) eqn:Eo1; [reflexivity|].
  destruct (opc =? 0) eqn:Eo0; [|reflexivity].
  destruct (len <? 36) eqn:E36.
  { destruct (n <? 36)%nat eqn:E; [reflexivity|]. apply Nat.ltb_ge in E. lia. }
  destruct (n <? 36)%nat eqn:E36'; [apply Nat.ltb_lt in E36'; lia|]. apply Nat.ltb_ge in E36'.
  rewrite !rd16_u16 by lia. destruct (rdmac_at buf 24) as (rsrc & Hr & Hrb); [lia|]. rewrite Hr.
  rewrite !u16_at_firstn by lia. rewrite bytes_at_firstn by lia.
  set (count := u16_at buf 34). set (gen := u16_at buf 32). set (xid := u16_at buf 30).
  assert (Hcount : count < 65536) by (apply u16_at_bound; [exact Hb|lia]).
  set (held := (len - 36) / 6).
  assert (Hheld : N.to_nat held = ((n - 36) / 6)%nat).
  { subst held n. rewrite N2Nat.inj_div, N2Nat.inj_sub. reflexivity. }
  set (kk := if held <? count then held mod 65536 else count).
  assert (Hkk : o kk = Nat.min (N.to_nat count) ((n - 36) / 6)).
  { unfold o. subst kk. rewrite <- Hheld. destruct (held <? count) eqn:Eh; [rewrite N.mod_small by lia|]; lia. }
  (* the scan *)
  assert (Hscan : (if count =? 0 then Some true else scan_stations buf 36 (o kk) me)
                  = Some (if count =? 0 then true else listed (firstn n buf) (Nat.min (N.to_nat count) ((n - 36) / 6)) (mac_bytes me))).
  { destruct (count =? 0); [reflexivity|]. rewrite Hkk. set (k := Nat.min _ _).
    assert (Hk : (36 + 6 * k <= n)%nat).
    { subst k. pose proof (Nat.div_mod (n - 36) 6 ltac:(lia)). pose proof (Nat.mod_upper_bound (n - 36) 6 ltac:(lia)). lia. }
    rewrite scan_stations_spec by lia. f_equal. unfold listed. apply existsb_ext_in'.
    intros i Hi. apply in_seq in Hi. unfold addr_at. rewrite bytes_at_firstn by lia. reflexivity. }
  rewrite Hscan. clear Hscan.
  (* the table *)
  rewrite <- Hrb. rewrite known_of_find.
  destruct (st_find t rsrc gen) as [i|] eqn:F.
  - destruct (st_find_some _ _ _ _ F) as (l1 & s & l2 & E & Hl & Hv & Hk & _ & _).
    assert (Hn : nth_error (t_slots t) i = Some s).
    { rewrite E, <- Hl. rewrite nth_error_app2 by lia. rewrite Nat.sub_diag. reflexivity. }
    rewrite Hn. cbn [option_map].
    assert (Hm : mac_eqb (s_mac s) rsrc = true) by (unfold key_is in Hk; apply andb_prop in Hk; tauto).
    rewrite Hm. cbn [negb]. f_equal.
    repeat match goal with |- context [if ?c then _ else _] => destruct c end; reflexivity.
  - f_equal. repeat match goal with |- context [if ?c then _ else _] => destruct c end; reflexivity.
Qed.

Example classify_nonvacuous :
  let fr := [255;255;255;255;255;255; 2;0;0;0;0;1; 136;217; 1;0;0;0; 255;255;255;255;255;255; 2;0;0;0;0;1; 0;9;
             0;5; 0;2; 2;0;0;0;0;7; 2;0;0;0;0;16] in
  classify (fr ++ repeat 0 100%nat) 48 table0 (Mac 2 0 0 0 0 16) = Some 3%Z /\
  classify (fr ++ repeat 0 100%nat) 48 table0 (Mac 2 0 0 0 0 17) = Some 2%Z /\
  classify (fr ++ repeat 0 100%nat) 42 table0 (Mac 2 0 0 0 0 16) = Some 2%Z.
Proof. vm_compute. auto. Qed.

(* ---------- consequences at the level of the property text ---------- *)
Lemma bytes_eqb_eq a b : bytes_eqb a b = true <-> a = b.
Proof.
  revert b; induction a as [|x a IH]; intros [|y b]; cbn; try (split; [discriminate|discriminate]); [tauto|].
  rewrite andb_true_iff, N.eqb_eq, IH. split; [intros [-> ->]; reflexivity|intros H; inversion H; auto].
Qed.
(* wherever in the list the address stands *)
Lemma listed_iff fr n me :
  listed fr n me = true <-> exists i, (i < n)%nat /\ bytes_at fr (36 + 6 * i) 6 = me.
Proof.
  unfold listed. rewrite existsb_exists. split.
  - intros (i & Hi & He). apply in_seq in Hi. exists i. split; [lia|]. apply bytes_eqb_eq. exact He.
  - intros (i & Hi & He). exists i. split; [apply in_seq; lia|]. apply bytes_eqb_eq. exact He.
Qed.

(* every opcode other than Discover, Hello, Reset yields no session event *)
Lemma classify_spec_other fr known me :
  nth 17 fr 0 <> 0 -> nth 17 fr 0 <> 1 -> nth 17 fr 0 <> 8 -> classify_spec fr known me = EV_NONE.
Proof.
  intros H0 H1 H8. unfold classify_spec. destruct (length fr <? 32)%nat; [reflexivity|].
  destruct (N.eqb_spec (nth 17 fr 0) 8); [contradiction|]. destruct (N.eqb_spec (nth 17 fr 0) 1); [contradiction|].
  destruct (N.eqb_spec (nth 17 fr 0) 0); [contradiction|]. reflexivity.
Qed.
Lemma classify_spec_hello fr known me : (32 <= length fr)%nat -> nth 17 fr 0 = 1 -> classify_spec fr known me = 7%Z.
Proof. intros H E. unfold classify_spec. destruct (Nat.ltb_spec (length fr) 32); [lia|]. rewrite E. reflexivity. Qed.
Lemma classify_spec_reset fr known me : (32 <= length fr)%nat -> nth 17 fr 0 = 8 ->
  classify_spec fr known me = if bytes_eqb (bytes_at fr 18 6) [255; 255; 255; 255; 255; 255] then 6%Z else 1%Z.
Proof. intros H E. unfold classify_spec. destruct (Nat.ltb_spec (length fr) 32); [lia|]. rewrite E. reflexivity. Qed.
(* a Discover with a non-empty station list *)
Lemma classify_spec_discover fr known me :
  (36 <= length fr)%nat -> nth 17 fr 0 = 0 -> u16_at fr 34 <> 0 ->
  let n := Nat.min (N.to_nat (u16_at fr 34)) ((length fr - 36) / 6) in
  let changed := match known (bytes_at fr 24 6) (u16_at fr 32) with Some q => negb (q =? u16_at fr 30) | None => false end in
  classify_spec fr known me =
  if listed fr n me then (if changed then 5%Z else 3%Z) else (if changed then 4%Z else 2%Z).
Proof.
  intros H E Hc. cbv zeta. unfold classify_spec. destruct (Nat.ltb_spec (length fr) 32); [lia|]. rewrite E. cbn [N.eqb].
  destruct (Nat.ltb_spec (length fr) 36); [lia|]. destruct (N.eqb_spec (u16_at fr 34) 0); [contradiction|]. reflexivity.
Qed.
