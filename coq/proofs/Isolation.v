(* Isolation.v - interfaces do not influence each other.
   Pure layer: a system of any number of interfaces, each with its own record,
   processing ANY interleaving of frames; what happens on one interface (its
   port calls, its final record) is exactly what that interface's own frames
   produce alone.  Registry: g_iface_states behaves as a finite map. *)
From LLTD Require Import BlockFun.
From Coq Require Import Lia.
Local Open Scope N_scope.

Definition smap := N -> ist.
Definition upd (m : smap) (k : N) (v : ist) : smap := fun x => if x =? k then v else m x.

Lemma upd_same m k v : upd m k v k = v.
Proof. unfold upd. rewrite N.eqb_refl. reflexivity. Qed.
Lemma upd_other m k v x : x <> k -> upd m k v x = m x.
Proof. unfold upd. intros H. destruct (N.eqb_spec x k); [contradiction|reflexivity]. Qed.

Definition frames_of (ctx : N) (l : list (N * list byte)) : list (list byte) :=
  map snd (filter (fun p => fst p =? ctx) l).
Definition acts_of (ctx : N) (tl : list (N * action)) : list action :=
  map snd (filter (fun p => fst p =? ctx) tl).

Lemma acts_of_app ctx a b : acts_of ctx (a ++ b) = acts_of ctx a ++ acts_of ctx b.
Proof. unfold acts_of. rewrite filter_app, map_app. reflexivity. Qed.
Lemma acts_of_tag_same ctx (a : list action) : acts_of ctx (map (pair ctx) a) = a.
Proof.
  unfold acts_of. induction a as [|x a IH]; cbn [map filter fst]; [reflexivity|].
  rewrite N.eqb_refl. cbn [map snd]. rewrite IH. reflexivity.
Qed.
Lemma acts_of_tag_other ctx k (a : list action) : k <> ctx -> acts_of ctx (map (pair k) a) = [].
Proof.
  intros H. unfold acts_of. induction a as [|x a IH]; cbn [map filter fst]; [reflexivity|].
  destruct (N.eqb_spec k ctx); [contradiction|]. exact IH.
Qed.

Section Iso.
  Variable cfgs : N -> pcfg.
  Variable g : gcfg.
  Variable mtus : N -> N.

  Fixpoint sys_run (m : smap) (l : list (N * list byte)) : smap * list (N * action) :=
    match l with
    | [] => (m, [])
    | (ctx, buf) :: r =>
      let '(s', a) := f_step ctx (cfgs ctx) g (mtus ctx) (m ctx) buf in
      let '(m2, a2) := sys_run (upd m ctx s') r in
      (m2, map (pair ctx) a ++ a2)
    end.

  Theorem isolation : forall l m ctx,
    acts_of ctx (snd (sys_run m l)) = snd (f_run ctx (cfgs ctx) g (mtus ctx) (m ctx) (frames_of ctx l))
    /\ fst (sys_run m l) ctx = fst (f_run ctx (cfgs ctx) g (mtus ctx) (m ctx) (frames_of ctx l)).
  Proof.
    induction l as [|[k buf] l IH]; intros m ctx.
    - cbn [sys_run frames_of filter map f_run fst snd]. split; reflexivity.
    - cbn [sys_run]. unfold frames_of. cbn [filter fst].
      destruct (f_step k (cfgs k) g (mtus k) (m k) buf) as [s' a] eqn:Es.
      specialize (IH (upd m k s') ctx).
      destruct (sys_run (upd m k s') l) as [m2 a2]. cbn [fst snd] in *.
      rewrite acts_of_app.
      destruct (N.eqb_spec k ctx) as [->|Hk].
      + cbn [map snd f_run]. rewrite Es. rewrite upd_same in IH. fold (frames_of ctx l).
        destruct (f_run ctx (cfgs ctx) g (mtus ctx) s' (frames_of ctx l)) as [s2 a3]. cbn [fst snd] in *.
        destruct IH as (IH1 & IH2). rewrite acts_of_tag_same, IH1. split; [reflexivity|exact IH2].
      + rewrite upd_other in IH by (intros X; apply Hk; symmetry; exact X).
        rewrite acts_of_tag_other by exact Hk. exact IH.
  Qed.

  (* the two halves separately *)
  Corollary isolation_actions l m ctx :
    acts_of ctx (snd (sys_run m l)) = snd (f_run ctx (cfgs ctx) g (mtus ctx) (m ctx) (frames_of ctx l)).
  Proof. apply isolation. Qed.
  Corollary isolation_state l m ctx :
    fst (sys_run m l) ctx = fst (f_run ctx (cfgs ctx) g (mtus ctx) (m ctx) (frames_of ctx l)).
  Proof. apply isolation. Qed.

  (* frames on OTHER interfaces change nothing at all for ctx *)
  Corollary isolation_others l1 l2 m ctx :
    frames_of ctx l1 = frames_of ctx l2 ->
    acts_of ctx (snd (sys_run m l1)) = acts_of ctx (snd (sys_run m l2))
    /\ fst (sys_run m l1) ctx = fst (sys_run m l2) ctx.
  Proof.
    intros E. destruct (isolation l1 m ctx) as (A1 & B1). destruct (isolation l2 m ctx) as (A2 & B2).
    rewrite A1, A2, B1, B2, E. split; reflexivity.
  Qed.
End Iso.

(* ---- the registry as a finite map ---- *)
Theorem reg_find_set_same r c s : reg_find (reg_set r c s) c = Some s.
Proof.
  induction r as [|[k s0] r IH]; cbn [reg_set reg_find].
  - rewrite N.eqb_refl. reflexivity.
  - destruct (N.eqb_spec k c) as [->|Hk]; cbn [reg_find].
    + rewrite N.eqb_refl. reflexivity.
    + destruct (N.eqb_spec k c); [contradiction|]. exact IH.
Qed.

Theorem reg_isolation : forall r c1 c2 s, c1 <> c2 -> reg_find (reg_set r c1 s) c2 = reg_find r c2.
Proof.
  intros r c1 c2 s H. induction r as [|[k s0] r IH]; cbn [reg_set reg_find].
  - destruct (N.eqb_spec c1 c2); [contradiction|]. reflexivity.
  - destruct (N.eqb_spec k c1) as [->|Hk]; cbn [reg_find].
    + destruct (N.eqb_spec c1 c2); [contradiction|]. reflexivity.
    + rewrite IH. reflexivity.
Qed.

(* non-vacuity: two interfaces, interleaved frames *)
Example isolation_instance cfgs g mtus m b1 b2 b3 :
  frames_of 1 [(1, b1); (2, b2); (1, b3)] = [b1; b3]
  /\ acts_of 2 (snd (sys_run cfgs g mtus m [(1, b1); (2, b2); (1, b3)]))
     = snd (f_run 2 (cfgs 2) g (mtus 2) (m 2) [b2]).
Proof. split; [reflexivity|]. apply (isolation cfgs g mtus [(1, b1); (2, b2); (1, b3)] m 2). Qed.

Print Assumptions isolation.
Print Assumptions reg_isolation.
Print Assumptions reg_find_set_same.
