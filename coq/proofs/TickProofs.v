(* TickProofs.v - C12: periodic Hellos are paced, purposeful and stop with the
   session, for every schedule of ticks, clock advances and arbitrary other
   calls.  "Other calls" are modelled adversarially: between ticks anything may
   happen to the automata, the RepeatBand state and the session table - only
   the last-transmit timestamp is private to the tick, as the Darwin daemon
   wires it (last_hello_tx_ms = &iface->LastHelloTxMs). *)
From LLTD Require Import Automata AutomataBase.
From Coq Require Import Lia ZifyBool ZifyN ZifyNat.
Ltac Zify.zify_post_hook ::= Z.div_mod_to_equations.
Local Open Scope N_scope.

(* times at which the tick handed a Hello to the send_hello callback of interface [ctx], newest first *)
Fixpoint hello_times (ctx : N) (tr : list action) : list N :=
  match tr with
  | [] => []
  | HelloTx c t :: r => if c =? ctx then t :: hello_times ctx r else hello_times ctx r
  | _ :: r => hello_times ctx r
  end.

Fixpoint paced (l : list N) : Prop :=
  match l with
  | a :: ((b :: _) as tl) => b + HELLO_MIN_INTERVAL_MS <= a /\ paced tl
  | _ => True
  end.

(* ---------- the enumeration table never re-enters Pausing on "all complete" ---------- *)
Lemma enum_complete_not_pausing cur : next_state enumeration_trans cur (Zc enum_sess_complete) <> 1.
Proof.
  unfold next_state. cbv [lookup enumeration_trans Zc enum_sess_complete Z.of_N Z.eqb Pos.eqb andb].
  destruct (N.eqb_spec 0 cur), (N.eqb_spec 1 cur), (N.eqb_spec 2 cur); subst; try lia; cbn; lia.
Qed.

(* ---------- what the tick does to the trace ---------- *)
Definition any_incomplete (l : list slot) : bool := existsb (fun s => s_valid s && negb (s_complete s)) l.
Lemma all_complete_any l : all_complete l = negb (any_incomplete l).
Proof. unfold all_complete, any_incomplete. induction l as [|s r IH]; cbn; [reflexivity|]. rewrite IH.
  destruct (s_valid s), (s_complete s); reflexivity. Qed.

(* the tick decomposed: result, and whether a Hello was handed out *)
Definition tick_sends (a : aset) (now_ms : N) : bool :=
  let now_s := now_ms / 1000 in
  let a1 := tick_mapping now_s a in
  let t := tick_table now_s (a_tbl a1) in
  let '(e, b) := tick_enum_state now_s (a_enum a1) (a_band a1) t in
  if a_cur e =? 1 then let '(_, _, _, tx) := tick_hello now_ms now_s e b (a_ltx a1) in tx else false.

Lemma tick_mapping_ltx ns a : a_ltx (tick_mapping ns a) = a_ltx a.
Proof. unfold tick_mapping. destruct (map_inactive_due ns (a_mst a)); reflexivity. Qed.

Lemma tick_trace ctx a w :
  exists a' w', tick ctx a w = Ok a' w' /\ w_now w' = w_now w /\
    w_trace w' = (if tick_sends a (w_now w) then [HelloTx ctx (w_now w)] else []) ++ w_trace w /\
    a_ltx a' = (if tick_sends a (w_now w) then w_now w else a_ltx a) /\
    a_tbl a' = tick_table (w_now w / 1000) (a_tbl (tick_mapping (w_now w / 1000) a)).
Proof.
  unfold tick, tick_sends, bind, now_ms. cbn [w_now].
  set (ns := w_now w / 1000).
  pose proof (tick_mapping_ltx ns a) as Hl.
  remember (tick_mapping ns a) as a1 eqn:Ea1. clear Ea1.
  destruct (tick_enum_state ns (a_enum a1) (a_band a1) (tick_table ns (a_tbl a1))) as [e b].
  destruct (a_cur e =? 1).
  - unfold tick_hello.
    destruct ((0 <? b_hts b) && (b_hts b <=? w_now w)).
    + destruct ((0 <? a_ltx a1) && ((w_now w + W64 - a_ltx a1) mod W64 <? HELLO_MIN_INTERVAL_MS)).
      * unfold ret. eexists _, _. split; [reflexivity|]. cbn. rewrite Hl. auto.
      * unfold act, ret. eexists _, _. split; [reflexivity|]. cbn. auto.
    + unfold ret. eexists _, _. split; [reflexivity|]. cbn. rewrite Hl. auto.
  - unfold ret. eexists _, _. split; [reflexivity|]. cbn. rewrite Hl. auto.
Qed.

(* a Hello goes out only if, after this tick's own expiry sweep, a live session is incomplete *)
Theorem tick_purpose a now_ms :
  tick_sends a now_ms = true ->
  let t := tick_table (now_ms / 1000) (a_tbl (tick_mapping (now_ms / 1000) a)) in
  any_incomplete (t_slots t) = true /\ st_is_empty t = false.
Proof.
  unfold tick_sends. set (ns := now_ms / 1000). set (a1 := tick_mapping ns a). cbv zeta.
  set (t := tick_table ns (a_tbl a1)).
  unfold tick_enum_state.
  destruct (a_cur (a_enum a1) =? 0) eqn:E0.
  { apply N.eqb_eq in E0. cbv beta iota. rewrite E0. cbn. discriminate. }
  destruct (st_is_empty t) eqn:Ee.
  { cbn [a_cur]. change (0 =? 1) with false. cbv iota. discriminate. }
  assert (Hallc : t_allc t = all_complete (t_slots t)).
  { subst t. unfold tick_table. destruct (expire ns (t_slots (a_tbl a1)) (t_count (a_tbl a1))). reflexivity. }
  destruct (t_allc t) eqn:Ea.
  { cbn [switch_enum a_cur]. destruct (next_state enumeration_trans (a_cur (a_enum a1)) (Zc enum_sess_complete) =? 1) eqn:E1.
    - apply N.eqb_eq in E1. exfalso. exact (enum_complete_not_pausing _ E1).
    - discriminate. }
  intros _. split; [|reflexivity]. rewrite all_complete_any in Hallc. destruct (any_incomplete (t_slots t)); [reflexivity|discriminate].
Qed.

(* a Hello goes out only if the previous one (by this tick's own record) is at least 1 s old *)
Lemma tick_sends_gap a now_ms :
  now_ms < W64 -> a_ltx a <= now_ms -> tick_sends a now_ms = true ->
  0 < now_ms /\ (a_ltx a = 0 \/ a_ltx a + HELLO_MIN_INTERVAL_MS <= now_ms).
Proof.
  intros Hn Hl. unfold tick_sends. set (ns := now_ms / 1000).
  rewrite tick_mapping_ltx. remember (tick_mapping ns a) as a1 eqn:Ea1. clear Ea1.
  destruct (tick_enum_state ns (a_enum a1) (a_band a1) (tick_table ns (a_tbl a1))) as [e b].
  destruct (a_cur e =? 1); [|discriminate].
  unfold tick_hello.
  destruct ((0 <? b_hts b) && (b_hts b <=? now_ms)) eqn:Eh; [|discriminate].
  destruct ((0 <? a_ltx a) && ((now_ms + W64 - a_ltx a) mod W64 <? HELLO_MIN_INTERVAL_MS)) eqn:Eg; [discriminate|].
  intros _. rewrite diff_small in Eg by assumption. change HELLO_MIN_INTERVAL_MS with 1000 in *. lia.
Qed.

(* ---------- arbitrary schedules ---------- *)
Inductive sop :=
| STick                      (* automata_tick *)
| SAdv (d : N)               (* the clock moves *)
| SHavoc (a : aset).         (* any other call: everything but the tick's private timestamp may change *)

Definition sstep (ctx : N) (s : aset * world) (p : sop) : aset * world :=
  let '(a, w) := s in
  match p with
  | STick => match tick ctx a w with Ok a' w' => (a', w') | Fault _ => (a, w) end
  | SAdv d => (a, {| w_trace := w_trace w; w_live := w_live w; w_bytes := w_bytes w; w_allocs := w_allocs w;
                     w_sends := w_sends w; w_now := w_now w + d |})
  | SHavoc a2 => ({| a_map := a_map a2; a_mst := a_mst a2; a_sess := a_sess a2; a_enum := a_enum a2;
                     a_band := a_band a2; a_tbl := a_tbl a2; a_ltx := a_ltx a |}, w)
  end.

Definition PInv (ctx : N) (s : aset * world) : Prop :=
  let '(a, w) := s in
  paced (hello_times ctx (w_trace w)) /\
  match hello_times ctx (w_trace w) with
  | [] => a_ltx a = 0
  | t :: _ => a_ltx a = t /\ 0 < t /\ t <= w_now w
  end.

Lemma sstep_now ctx s p : w_now (snd s) <= w_now (snd (sstep ctx s p)).
Proof.
  destruct s as [a w]. destruct p as [|d|a2]; cbn [sstep snd].
  - destruct (tick_trace ctx a w) as (a' & w' & Ht & Hn & _). rewrite Ht. cbn. lia.
  - cbn. lia.
  - lia.
Qed.
Lemma run_now ctx ops : forall s, w_now (snd s) <= w_now (snd (fold_left (sstep ctx) ops s)).
Proof. induction ops as [|p r IH]; intros s; cbn [fold_left]; [lia|]. pose proof (sstep_now ctx s p). specialize (IH (sstep ctx s p)). lia. Qed.

Lemma sstep_inv ctx s p : w_now (snd (sstep ctx s p)) < W64 -> PInv ctx s -> PInv ctx (sstep ctx s p).
Proof.
  destruct s as [a w]. destruct p as [|d|a2]; cbn [sstep snd]; intros Hn I.
  - destruct (tick_trace ctx a w) as (a' & w' & Ht & Hnow & Htr & Hltx & _). rewrite Ht in *. cbn [snd] in Hn.
    unfold PInv in *. destruct I as [P L]. rewrite Htr, Hltx.
    destruct (tick_sends a (w_now w)) eqn:Es.
    + assert (Hle : a_ltx a <= w_now w).
      { destruct (hello_times ctx (w_trace w)); [lia|]. lia. }
      destruct (tick_sends_gap a (w_now w) ltac:(lia) Hle Es) as [Hpos Hgap].
      cbn [app hello_times]. rewrite N.eqb_refl. split.
      * cbn [paced]. destruct (hello_times ctx (w_trace w)) as [|t tl]; [exact I|]. destruct L as (Hlt & Ht0 & Htn). split; [change HELLO_MIN_INTERVAL_MS with 1000 in *; lia|exact P].
      * rewrite Hnow. repeat split; lia.
    + cbn [app]. split; [exact P|]. destruct (hello_times ctx (w_trace w)); [exact L|]. rewrite Hnow. exact L.
  - unfold PInv in *. cbn [w_trace w_now]. destruct I as [P L]. split; [exact P|].
    destruct (hello_times ctx (w_trace w)); [exact L|]. destruct L as (? & ? & ?). repeat split; lia.
  - unfold PInv in *. cbn [a_ltx]. exact I.
Qed.

Theorem run_inv ctx ops : forall s,
  w_now (snd (fold_left (sstep ctx) ops s)) < W64 -> PInv ctx s -> PInv ctx (fold_left (sstep ctx) ops s).
Proof.
  induction ops as [|p r IH]; intros s Hn I; cbn [fold_left] in *; [exact I|].
  apply IH; [exact Hn|]. apply sstep_inv; [|exact I].
  pose proof (run_now ctx r (sstep ctx s p)). lia.
Qed.

Theorem paced_always ctx ops :
  let s := fold_left (sstep ctx) ops (aset0, world0) in
  w_now (snd s) < W64 -> paced (hello_times ctx (w_trace (snd s))).
Proof.
  cbv zeta. intros Hn. pose proof (run_inv ctx ops (aset0, world0) Hn) as H.
  destruct (fold_left (sstep ctx) ops (aset0, world0)) as [a w]. apply H. cbn. auto.
Qed.

(* Hellos of an interface come from its tick only *)
Theorem only_tick_sends ctx s p :
  hello_times ctx (w_trace (snd (sstep ctx s p))) <> hello_times ctx (w_trace (snd s)) -> p = STick.
Proof. destruct s as [a w]. destruct p as [|d|a2]; cbn [sstep snd w_trace]; [reflexivity| |]; intros H; exfalso; apply H; reflexivity. Qed.

(* once the table is empty no periodic Hello is sent until a session appears *)
Theorem silent_when_no_session a now_ms :
  (forall s, In s (t_slots (tick_table (now_ms / 1000) (a_tbl (tick_mapping (now_ms / 1000) a)))) -> s_valid s = false) ->
  tick_sends a now_ms = false.
Proof.
  intros H. destruct (tick_sends a now_ms) eqn:E; [|reflexivity]. exfalso.
  destruct (tick_purpose a now_ms E) as [Hany _]. unfold any_incomplete in Hany. apply existsb_exists in Hany as (s & Hin & Hs).
  rewrite (H s Hin) in Hs. discriminate.
Qed.

Example paced_nonvacuous :
  let a := {| a_map := a_map aset0; a_mst := mstate0; a_sess := a_sess aset0; a_enum := {| a_cur := 1; a_last := 0 |};
              a_band := {| b_ni := 45; b_r := 0; b_begun := false; b_hts := 1; b_bts := 0 |};
              a_tbl := fst (st_add table0 0 (Mac 2 0 0 0 0 1) 1 1); a_ltx := 0 |} in
  hello_times 0 (w_trace (snd (fold_left (sstep 0) [SAdv 5; STick; SAdv 400; SHavoc a; STick; SAdv 700; SHavoc a; STick] (a, world0)))) = [1105; 5].
Proof. vm_compute. reflexivity. Qed.

(* ---------- the other calls of the automata API are instances of SHavoc ---------- *)
From LLTD Require Import Sys.
Definition is_automata_api (p : op) : bool :=
  match p with
  | OSsMap _ _ | OSsSess _ _ | OSsEnum _ _ | OSetMap _ _ _ | OSetSess _ _ _ | OSetEnum _ _
  | OStAdd _ _ _ _ | OStFind _ _ _ | OStRemove _ _ _ | OStComplete _ _ _ _ | OStClear _
  | OBandInit _ | OBandHello _ | OBandUpdate _ | OBandChoose _ | OBandDoHello _ | OBandSet _ _ _ _
  | OMapCharge _ | OMapTouch _ | OMapResetCharge _ => true
  | _ => false
  end.

Lemma assoc_set_same {A} (l : list (N * A)) k v : assoc (assoc_set l k v) k = Some v.
Proof. induction l as [|[k' v'] r IH]; cbn; [rewrite N.eqb_refl; reflexivity|].
  destruct (k' =? k) eqn:E; cbn; rewrite E; [reflexivity|exact IH]. Qed.
Lemma assoc_set_other {A} (l : list (N * A)) k v c : c <> k -> assoc (assoc_set l k v) c = assoc l c.
Proof. intros H. induction l as [|[k' v'] r IH]; cbn.
  - destruct (N.eqb_spec k c); [congruence|reflexivity].
  - destruct (N.eqb_spec k' k); cbn.
    + subst. destruct (N.eqb_spec k c); [congruence|reflexivity].
    + destruct (k' =? c); [reflexivity|exact IH]. Qed.
Lemma upd_a_ltx y ctx f c : (forall a, a_ltx (f a) = a_ltx a) -> a_ltx (aset_of (upd_a y ctx f) c) = a_ltx (aset_of y c).
Proof.
  intros H. unfold upd_a, set_aset, aset_of. cbn [y_as].
  destruct (N.eq_dec c ctx) as [->|ne].
  - rewrite assoc_set_same. apply H.
  - rewrite assoc_set_other by exact ne. reflexivity.
Qed.

Theorem automata_api_is_havoc af sf junk y p w y' r w' :
  is_automata_api p = true -> run_op af sf junk y p w = Ok (y', r) w' ->
  w_trace w' = w_trace w /\ w_now w' = w_now w /\ forall c, a_ltx (aset_of y' c) = a_ltx (aset_of y c).
Proof.
  intros Hp H. destruct p; try discriminate Hp; cbn [run_op] in H; unfold bind, now_s, now_ms, ret in H;
    repeat match type of H with context [let '(_, _) := ?x in _] => destruct x end;
    inversion H; subst; (split; [reflexivity|]); (split; [reflexivity|]); intros c;
    try reflexivity; try (apply upd_a_ltx; intros; reflexivity).
Qed.
Lemma flow_automata_ltx now h ev a : a_ltx (flow_automata now h ev a) = a_ltx a.
Proof. unfold flow_automata. destruct (if h_opc h =? opcode_hello then _ else _). reflexivity. Qed.
