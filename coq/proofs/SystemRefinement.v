(* SystemRefinement.v - the refinement of proofs/BlockNominal.v lifted to the
   whole system, and the property theorems composed with it.

   BlockNominal.step_nominal : one frame on one interface record - the
     monadic, buffer-level model (model/Block.v, the one differentially tested
     against the C) computes the pure function f_step.
   Here:
     frame_nominal      parse_frame proper (registry look-up, allocation of a
                        record on first contact) against f_step on the registry
                        read as a total map (reg_state);
     system_refinement  any history of frames on any interfaces (run_frames)
                        against the pure multi-interface run sys_run;
     C03/C05/C17/C09_buffer_level
                        the property theorems of PropsMapper.v / Isolation.v
                        restated about parse_frame / run_frames themselves. *)
From Coq Require Import List NArith Lia ZifyBool ZifyN ZifyNat.
From LLTD Require Import BlockFun BufProofs BlockSafe BlockNominal Isolation PropsMapper.
Import ListNotations.
Ltac Zify.zify_post_hook ::= Z.div_mod_to_equations.
Local Open Scope N_scope.

(* ====================================================================== *)
(*  1. The registry read as a total map                                   *)
(* ====================================================================== *)

(* an interface the registry does not know yet behaves as a fresh record:
   that is what parse_frame starts from on first contact *)
Definition reg_state (r : registry) (ctx : N) : ist :=
  match reg_find r ctx with Some s => s | None => fresh end.

Lemma reg_state_set_same r ctx s : reg_state (reg_set r ctx s) ctx = s.
Proof. unfold reg_state. rewrite reg_find_set_same. reflexivity. Qed.
Lemma reg_state_set_other r ctx s c2 : c2 <> ctx -> reg_state (reg_set r ctx s) c2 = reg_state r c2.
Proof.
  intros H. unfold reg_state. rewrite reg_isolation by (intros X; apply H; symmetry; exact X). reflexivity.
Qed.
Lemma reg_state_unknown r ctx : reg_find r ctx = None -> reg_state r ctx = fresh.
Proof. intros H. unfold reg_state. rewrite H. reflexivity. Qed.

Theorem frame_nominal junk ctx c g mtu r buf w bl bb :
  c_mtu c = Some mtu -> 576 <= mtu -> mtu <= 9216 -> mtu <= c_rxsize c ->
  length buf = o (c_rxsize c) -> ledger_reg bl bb r w ->
  exists r' w', parse_frame no_fail no_fail junk ctx c g r buf w = Ok r' w'
    /\ reg_state r' ctx = fst (f_step ctx c g mtu (reg_state r ctx) buf)
    /\ (forall c2, c2 <> ctx -> reg_state r' c2 = reg_state r c2)
    /\ w_trace w' = rev (snd (f_step ctx c g mtu (reg_state r ctx) buf)) ++ w_trace w
    /\ ledger_reg bl bb r' w'
    /\ w_now w' = w_now w.
Proof.
  intros H1 H2 H3 H4 Hb (L & B). unfold parse_frame.
  destruct (reg_find r ctx) as [s|] eqn:F.
  - (* the record exists: it is one frame of the registry's ledger *)
    assert (RS : reg_state r ctx = s) by (unfold reg_state; rewrite F; reflexivity). rewrite RS.
    destruct (reg_frame r ctx s F) as (rc & rb & C1 & C2 & C3).
    destruct (step_nominal junk ctx c g mtu H1 H2 H3 H4 s buf w (bl + rc)%nat (bb + rb) Hb)
      as (w' & E & T & (L' & B') & N').
    { split; lia. }
    unfold bind. rewrite E. unfold ret.
    set (s' := fst (f_step ctx c g mtu s buf)) in *.
    exists (reg_set r ctx s'), w'. destruct (C3 s') as (A1 & A2 & _).
    split; [reflexivity|]. split; [apply reg_state_set_same|].
    split; [intros c2 Hc; apply reg_state_set_other; exact Hc|].
    split; [exact T|]. split; [split; lia|exact N'].
  - (* first contact: the record is allocated, then the frame is handled from the fresh record *)
    rewrite (reg_state_unknown r ctx F).
    unfold bind. rewrite alloc_nf. cbn [negb].
    destruct (step_nominal junk ctx c g mtu H1 H2 H3 H4 fresh buf (wal sz_iface_state w)
                (bl + reg_count r + 1)%nat (bb + reg_bytes r + sz_iface_state) Hb)
      as (w' & E & T & (L' & B') & N').
    { split; cbn; lia. }
    rewrite E. unfold ret.
    set (s' := fst (f_step ctx c g mtu fresh buf)) in *.
    exists (reg_set r ctx s'), w'.
    split; [reflexivity|]. split; [apply reg_state_set_same|].
    split; [intros c2 Hc; apply reg_state_set_other; exact Hc|].
    split; [exact T|]. split; [|exact N'].
    rewrite reg_set_new by exact F.
    split; [rewrite reg_count_app|rewrite reg_bytes_app]; cbn [reg_count reg_bytes]; lia.
Qed.

(* ====================================================================== *)
(*  2. Histories                                                          *)
(* ====================================================================== *)

(* sys_run only looks at the state map pointwise *)
Lemma sys_run_ext cfgs g mtus l : forall m1 m2, (forall x, m1 x = m2 x) ->
  snd (sys_run cfgs g mtus m1 l) = snd (sys_run cfgs g mtus m2 l)
  /\ forall x, fst (sys_run cfgs g mtus m1 l) x = fst (sys_run cfgs g mtus m2 l) x.
Proof.
  induction l as [|[k buf] l IH]; intros m1 m2 H.
  - cbn [sys_run fst snd]. split; [reflexivity|exact H].
  - cbn [sys_run]. rewrite (H k).
    destruct (f_step k (cfgs k) g (mtus k) (m2 k) buf) as [s' a].
    assert (U : forall x, upd m1 k s' x = upd m2 k s' x).
    { intros x. unfold upd. destruct (x =? k); [reflexivity|apply H]. }
    destruct (IH _ _ U) as (A & Bq).
    destruct (sys_run cfgs g mtus (upd m1 k s') l) as [ma aa].
    destruct (sys_run cfgs g mtus (upd m2 k s') l) as [mb ab].
    cbn [fst snd] in *. split; [rewrite A; reflexivity|exact Bq].
Qed.

(* the frames and the total clock advance of a registry-level history *)
Fixpoint fframes (l : list fop) : list (N * list byte) :=
  match l with
  | [] => []
  | FFrame k b :: r => (k, b) :: fframes r
  | FAdv _ :: r => fframes r
  end.
Fixpoint fadv (l : list fop) : N :=
  match l with
  | [] => 0
  | FFrame _ _ :: r => fadv r
  | FAdv d :: r => d + fadv r
  end.
Definition as_fops (l : list (N * list byte)) : list fop := map (fun p => FFrame (fst p) (snd p)) l.

Lemma fframes_as_fops l : fframes (as_fops l) = l.
Proof. induction l as [|[k b] l IH]; cbn [as_fops map fframes fst snd]; [reflexivity|]. fold (as_fops l). rewrite IH. reflexivity. Qed.
Lemma fadv_as_fops l : fadv (as_fops l) = 0.
Proof. induction l as [|[k b] l IH]; cbn [as_fops map fadv fst snd]; [reflexivity|exact IH]. Qed.

(* every interface has a working MTU getter, a value in range, and a receive buffer that holds a frame *)
Definition cfgs_nominal (cfgs : N -> pcfg) (mtus : N -> N) : Prop :=
  forall ctx, c_mtu (cfgs ctx) = Some (mtus ctx) /\ 576 <= mtus ctx /\ mtus ctx <= 9216 /\ mtus ctx <= c_rxsize (cfgs ctx).

Section System.
  Variable junk : N.
  Variable cfgs : N -> pcfg.
  Variable g : gcfg.
  Variable mtus : N -> N.
  Hypothesis Hnom : cfgs_nominal cfgs mtus.

  Notation RUN := (run_frames no_fail no_fail junk cfgs g).
  Notation SYS := (sys_run cfgs g mtus).

  (* a received frame occupies the interface's receive buffer *)
  Definition frame_len (p : N * list byte) : Prop := length (snd p) = o (c_rxsize (cfgs (fst p))).
  Definition fop_len (p : fop) : Prop :=
    match p with FFrame k b => length b = o (c_rxsize (cfgs k)) | FAdv _ => True end.

  (* frames on any interfaces with the clock moving in between *)
  Theorem system_refinement_clock l : forall r w bl bb,
    Forall fop_len l -> ledger_reg bl bb r w ->
    exists r' w', RUN r l w = Ok r' w'
      /\ w_trace w' = rev (map snd (snd (SYS (reg_state r) (fframes l)))) ++ w_trace w
      /\ (forall ctx, reg_state r' ctx = fst (SYS (reg_state r) (fframes l)) ctx)
      /\ ledger_reg bl bb r' w'
      /\ w_now w' = w_now w + fadv l.
  Proof.
    induction l as [|p l IH]; intros r w bl bb F LR.
    - cbn [run_frames fframes fadv sys_run map rev app fst snd]. exists r, w. unfold ret.
      split; [reflexivity|]. split; [reflexivity|]. split; [reflexivity|]. split; [exact LR|lia].
    - inversion F as [|? ? Hp Hl]; subst. destruct p as [k buf|d].
      + cbn [fop_len] in Hp. destruct (Hnom k) as (M1 & M2 & M3 & M4).
        destruct (frame_nominal junk k (cfgs k) g (mtus k) r buf w bl bb M1 M2 M3 M4 Hp LR)
          as (r1 & w1 & E1 & S1 & O1 & T1 & LR1 & N1).
        destruct (IH r1 w1 bl bb Hl LR1) as (r2 & w2 & E2 & T2 & S2 & LR2 & N2).
        cbn [run_frames fframes fadv sys_run]. unfold bind. rewrite E1.
        destruct (f_step k (cfgs k) g (mtus k) (reg_state r k) buf) as [s' a] eqn:Es. cbn [fst snd] in *.
        assert (U : forall x, reg_state r1 x = upd (reg_state r) k s' x).
        { intros x. unfold upd. destruct (N.eqb_spec x k) as [->|Hx]; [exact S1|apply O1; exact Hx]. }
        destruct (sys_run_ext cfgs g mtus (fframes l) _ _ U) as (X1 & X2).
        rewrite X1 in T2. assert (S2' : forall ctx, reg_state r2 ctx = fst (SYS (upd (reg_state r) k s') (fframes l)) ctx).
        { intros x. rewrite S2. apply X2. }
        destruct (SYS (upd (reg_state r) k s') (fframes l)) as [m2 a2]. cbn [fst snd] in *.
        exists r2, w2. split; [exact E2|].
        split.
        { rewrite T2, T1, map_app, map_map. cbn [snd]. rewrite map_id, rev_app_distr, app_assoc. reflexivity. }
        split; [exact S2'|]. split; [exact LR2|]. lia.
      + cbn [run_frames fframes fadv]. unfold bind, advance.
        match goal with |- context [RUN r l ?w0] => destruct (IH r w0 bl bb Hl) as (r2 & w2 & E2 & T2 & S2 & LR2 & N2) end.
        { destruct LR as (L & B). split; cbn [w_live w_bytes]; assumption. }
        cbn [w_trace w_now] in *. exists r2, w2. split; [exact E2|].
        split; [exact T2|]. split; [exact S2|]. split; [exact LR2|]. lia.
  Qed.

  (* frames only: the statement in terms of a list of (interface, buffer) pairs *)
  Theorem system_refinement l r w bl bb :
    Forall frame_len l -> ledger_reg bl bb r w ->
    exists r' w', RUN r (map (fun p => FFrame (fst p) (snd p)) l) w = Ok r' w'
      /\ w_trace w' = rev (map snd (snd (SYS (reg_state r) l))) ++ w_trace w
      /\ (forall ctx, reg_state r' ctx = fst (SYS (reg_state r) l) ctx)
      /\ ledger_reg bl bb r' w'
      /\ w_now w' = w_now w.
  Proof.
    intros F LR. fold (as_fops l).
    destruct (system_refinement_clock (as_fops l) r w bl bb) as (r' & w' & E & T & S & LR' & N'); [|exact LR|].
    { unfold as_fops. apply Forall_forall. intros p Hp. apply in_map_iff in Hp as (q & <- & Hq).
      cbn [fop_len]. exact (proj1 (Forall_forall _ _) F q Hq). }
    rewrite fframes_as_fops in *. rewrite fadv_as_fops in N'.
    exists r', w'. split; [exact E|]. split; [exact T|]. split; [exact S|]. split; [exact LR'|lia].
  Qed.

  (* ==================================================================== *)
  (*  3. The property theorems on the buffer-level model                  *)
  (* ==================================================================== *)

  (* ---- C17: interfaces are isolated, on the monadic model ----
     Sleep carries no interface, so the statement goes through sys_run's tagging of the trace:
     the final trace is the tagged list with the tags erased, and the calls tagged ctx are exactly
     what interface ctx does when it sees its own frames alone *)
  Theorem C17_buffer_level l r w bl bb :
    Forall frame_len l -> ledger_reg bl bb r w ->
    exists r' w' tagged,
      RUN r (map (fun p => FFrame (fst p) (snd p)) l) w = Ok r' w'
      /\ w_trace w' = rev (map snd tagged) ++ w_trace w
      /\ forall ctx,
           acts_of ctx tagged = snd (f_run ctx (cfgs ctx) g (mtus ctx) (reg_state r ctx) (frames_of ctx l))
           /\ reg_state r' ctx = fst (f_run ctx (cfgs ctx) g (mtus ctx) (reg_state r ctx) (frames_of ctx l)).
  Proof.
    intros F LR. destruct (system_refinement l r w bl bb F LR) as (r' & w' & E & T & S & _).
    exists r', w', (snd (SYS (reg_state r) l)). split; [exact E|]. split; [exact T|].
    intros ctx. destruct (isolation cfgs g mtus l (reg_state r) ctx) as (I1 & I2).
    split; [exact I1|]. rewrite S. exact I2.
  Qed.

  (* a history on one interface *)
  Definition on (ctx : N) (bufs : list (list byte)) : list fop := map (FFrame ctx) bufs.
  Definition buf_len (ctx : N) (b : list byte) : Prop := length b = o (c_rxsize (cfgs ctx)).

  Lemma sys_run_single ctx bufs : forall m,
    snd (SYS m (map (pair ctx) bufs)) = map (pair ctx) (snd (f_run ctx (cfgs ctx) g (mtus ctx) (m ctx) bufs))
    /\ fst (SYS m (map (pair ctx) bufs)) ctx = fst (f_run ctx (cfgs ctx) g (mtus ctx) (m ctx) bufs).
  Proof.
    induction bufs as [|b bufs IH]; intros m.
    - cbn [map sys_run f_run fst snd]. split; reflexivity.
    - cbn [map sys_run f_run].
      destruct (f_step ctx (cfgs ctx) g (mtus ctx) (m ctx) b) as [s' a].
      destruct (IH (upd m ctx s')) as (A & Bq). rewrite upd_same in A, Bq.
      destruct (SYS (upd m ctx s') (map (pair ctx) bufs)) as [m2 a2].
      destruct (f_run ctx (cfgs ctx) g (mtus ctx) s' bufs) as [s2 a3]. cbn [fst snd] in *.
      rewrite map_app, A. split; [reflexivity|exact Bq].
  Qed.

  Theorem single_refinement ctx bufs r w bl bb :
    Forall (buf_len ctx) bufs -> ledger_reg bl bb r w ->
    exists r' w', RUN r (on ctx bufs) w = Ok r' w'
      /\ w_trace w' = rev (snd (f_run ctx (cfgs ctx) g (mtus ctx) (reg_state r ctx) bufs)) ++ w_trace w
      /\ reg_state r' ctx = fst (f_run ctx (cfgs ctx) g (mtus ctx) (reg_state r ctx) bufs)
      /\ ledger_reg bl bb r' w'
      /\ w_now w' = w_now w.
  Proof.
    intros F LR.
    destruct (system_refinement (map (pair ctx) bufs) r w bl bb) as (r' & w' & E & T & S & LR' & N'); [|exact LR|].
    { apply Forall_forall. intros p Hp. apply in_map_iff in Hp as (q & <- & Hq).
      unfold frame_len. cbn [fst snd]. exact (proj1 (Forall_forall _ _) F q Hq). }
    rewrite map_map in E. cbn [fst snd] in E.
    destruct (sys_run_single ctx bufs (reg_state r)) as (A & Bq).
    rewrite A, map_map in T. cbn [snd] in T. rewrite map_id in T.
    exists r', w'. split; [exact E|]. split; [exact T|]. split; [rewrite S; exact Bq|]. split; [exact LR'|exact N'].
  Qed.

  (* ---- C09: a topology Reset returns the responder to fresh-start behaviour ----
     registry r has seen ANY history on ctx and then a topology Reset; registry r0 has never heard of
     ctx (in any world w0, whatever else is allocated there).  The same continuation makes both issue
     the same port calls, byte for byte. *)
  Theorem C09_buffer_level ctx hist rbuf h cont r w bl bb r0 w0 bl0 bb0 :
    Forall (buf_len ctx) hist -> buf_len ctx rbuf -> Forall (buf_len ctx) cont ->
    parse_hdr rbuf = Some h -> h_tos h = tos_discovery -> h_opc h = opcode_reset ->
    ledger_reg bl bb r w ->
    reg_find r0 ctx = None -> ledger_reg bl0 bb0 r0 w0 ->
    exists r1 w1 r2 w2 r3 w3 acts,
      RUN r (on ctx (hist ++ [rbuf])) w = Ok r1 w1
      /\ RUN r1 (on ctx cont) w1 = Ok r2 w2
      /\ RUN r0 (on ctx cont) w0 = Ok r3 w3
      /\ w_trace w2 = rev acts ++ w_trace w1
      /\ w_trace w3 = rev acts ++ w_trace w0
      /\ acts = snd (f_run ctx (cfgs ctx) g (mtus ctx) fresh cont).
  Proof.
    intros Fh Fr Fc P T O LR U LR0.
    destruct (single_refinement ctx (hist ++ [rbuf]) r w bl bb) as (r1 & w1 & E1 & _ & S1 & LR1 & _); [|exact LR|].
    { apply Forall_app. split; [exact Fh|constructor; [exact Fr|constructor]]. }
    destruct (single_refinement ctx cont r1 w1 bl bb Fc LR1) as (r2 & w2 & E2 & T2 & _).
    destruct (single_refinement ctx cont r0 w0 bl0 bb0 Fc LR0) as (r3 & w3 & E3 & T3 & _).
    exists r1, w1, r2, w2, r3, w3, (snd (f_run ctx (cfgs ctx) g (mtus ctx) fresh cont)).
    split; [exact E1|]. split; [exact E2|]. split; [exact E3|].
    split; [|split; [|reflexivity]].
    - rewrite T2, S1. rewrite run_app. cbn [fst]. rewrite run_cons, run_nil. cbn [fst].
      rewrite (C09_history ctx (cfgs ctx) g (mtus ctx) (reg_state r ctx) hist rbuf h cont P T O). reflexivity.
    - rewrite T3, (reg_state_unknown r0 ctx U). reflexivity.
  Qed.
End System.

(* ---- C03 / C05: one frame, one interface ---- *)
Lemma app_same_tail {A} (l t : list A) : l ++ t = t -> l = [].
Proof. intros H. apply (app_inv_tail t l []). exact H. Qed.

(* an accepted Discover makes parse_frame issue exactly: the 10 ms pause (topology discovery only),
   then one Hello carrying the Discover's generation *)
Theorem C03_buffer_level junk ctx c g mtu r buf w bl bb h :
  c_mtu c = Some mtu -> 576 <= mtu -> mtu <= 9216 -> mtu <= c_rxsize c ->
  length buf = o (c_rxsize c) -> ledger_reg bl bb r w ->
  parse_hdr buf = Some h -> is_discover h = true -> matches (reg_state r ctx) h = true ->
  exists r' w', parse_frame no_fail no_fail junk ctx c g r buf w = Ok r' w'
    /\ w_trace w' = rev ((if h_tos h =? tos_discovery then [Sleep 10] else [])
                         ++ [tx ctx (hello_frame c g h (h_w0 h))]) ++ w_trace w
    /\ ledger_reg bl bb r' w'.
Proof.
  intros H1 H2 H3 H4 Hb LR P D M.
  destruct (frame_nominal junk ctx c g mtu r buf w bl bb H1 H2 H3 H4 Hb LR) as (r' & w' & E & _ & _ & T & LR' & _).
  exists r', w'. split; [exact E|]. split; [|exact LR'].
  rewrite T, (C03_one_hello ctx c g mtu (reg_state r ctx) buf h P D M). reflexivity.
Qed.

(* a Discover of a discovery service makes the trace grow iff no mapper is active or it comes from the active mapper *)
Theorem C05_buffer_level junk ctx c g mtu r buf w bl bb h :
  c_mtu c = Some mtu -> 576 <= mtu -> mtu <= 9216 -> mtu <= c_rxsize c ->
  length buf = o (c_rxsize c) -> ledger_reg bl bb r w ->
  parse_hdr buf = Some h -> is_discover h = true ->
  exists r' w', parse_frame no_fail no_fail junk ctx c g r buf w = Ok r' w'
    /\ (w_trace w' <> w_trace w <->
        (active (reg_state r ctx) = None \/ active (reg_state r ctx) = Some (h_rsrc h)))
    /\ ledger_reg bl bb r' w'.
Proof.
  intros H1 H2 H3 H4 Hb LR P D.
  destruct (frame_nominal junk ctx c g mtu r buf w bl bb H1 H2 H3 H4 Hb LR) as (r' & w' & E & _ & _ & T & LR' & _).
  exists r', w'. split; [exact E|]. split; [|exact LR'].
  rewrite <- (C05_answered_iff ctx c g mtu (reg_state r ctx) buf h P D). rewrite T.
  set (a := snd (f_step ctx c g mtu (reg_state r ctx) buf)). split.
  - intros N Ea. apply N. rewrite Ea. reflexivity.
  - intros N Et. apply N. apply app_same_tail in Et.
    rewrite <- (rev_involutive a), Et. reflexivity.
Qed.

(* ====================================================================== *)
(*  The hypotheses are satisfiable                                        *)
(* ====================================================================== *)

Definition ex_cfg : pcfg :=
  {| c_rxsize := 1500; c_mtu := Some 1500; c_mac := Some (Mac 2 0 0 0 0 1); c_flags := 0; c_iftype := Some 6;
     c_ipv4 := None; c_ipv6 := None; c_speed := None; c_wifi := None; c_bssid := None; c_ssid := [];
     c_rate := None; c_rssi := None |}.
(* a Discover and a topology Reset as they sit in a 1500-byte receive buffer *)
Definition ex_rx (fr : list byte) : list byte := fr ++ zeros (1500 - length fr).

Example system_hypotheses_satisfiable :
  (* empty registry in the empty world, every interface configured like an Ethernet port with a 1500-byte MTU *)
  ledger_reg 0 0 [] world0
  /\ cfgs_nominal (fun _ => ex_cfg) (fun _ => 1500)
  /\ c_mtu ex_cfg = Some 1500 /\ 576 <= 1500 /\ 1500 <= 9216 /\ 1500 <= c_rxsize ex_cfg
  (* an interleaved history on two interfaces, buffers of the right length *)
  /\ Forall (frame_len (fun _ => ex_cfg)) [(1, ex_rx ex_discover); (2, ex_rx ex_discover_other); (1, ex_rx ex_reset)]
  /\ Forall (buf_len (fun _ => ex_cfg) 1) [ex_rx ex_discover; ex_rx ex_query]
  (* C03 / C05: an accepted Discover for the interface unknown to the registry *)
  /\ (exists h, parse_hdr (ex_rx ex_discover) = Some h /\ is_discover h = true
               /\ matches (reg_state [] 1) h = true /\ active (reg_state [] 1) = None)
  (* C09: a topology Reset, and a registry in which the interface is unknown *)
  /\ (exists h, parse_hdr (ex_rx ex_reset) = Some h /\ h_tos h = tos_discovery /\ h_opc h = opcode_reset)
  /\ buf_len (fun _ => ex_cfg) 1 (ex_rx ex_reset)
  /\ reg_find [] 1 = None.
Proof.
  split; [split; reflexivity|].
  split; [intros ctx; unfold ex_cfg; cbn [c_mtu c_rxsize]; split; [reflexivity|lia]|].
  split; [reflexivity|]. split; [lia|]. split; [lia|]. split; [unfold ex_cfg; cbn [c_rxsize]; lia|].
  split; [repeat constructor|]. split; [repeat constructor|].
  split; [eexists; split; [vm_compute; reflexivity|]; vm_compute; repeat split|].
  split; [eexists; split; [vm_compute; reflexivity|]; vm_compute; repeat split|].
  split; reflexivity.
Qed.

(* the theorems applied to that instance: the interleaved history runs without fault on the buffer-level
   model and interface 2's port calls are those of its own frame alone *)
Example system_instance junk g :
  exists r' w' tagged,
    run_frames no_fail no_fail junk (fun _ => ex_cfg) g []
      [FFrame 1 (ex_rx ex_discover); FFrame 2 (ex_rx ex_discover_other); FFrame 1 (ex_rx ex_reset)] world0 = Ok r' w'
    /\ w_trace w' = rev (map snd tagged) ++ []
    /\ acts_of 2 tagged = snd (f_run 2 ex_cfg g 1500 fresh [ex_rx ex_discover_other]).
Proof.
  destruct (C17_buffer_level junk (fun _ => ex_cfg) g (fun _ => 1500)
              (proj1 (proj2 system_hypotheses_satisfiable))
              [(1, ex_rx ex_discover); (2, ex_rx ex_discover_other); (1, ex_rx ex_reset)] [] world0 0%nat 0
              (proj1 (proj2 (proj2 (proj2 (proj2 (proj2 (proj2 system_hypotheses_satisfiable)))))))
              (proj1 system_hypotheses_satisfiable)) as (r' & w' & tagged & E & T & A).
  exists r', w', tagged. split; [exact E|]. split; [exact T|]. exact (proj1 (A 2)).
Qed.

Print Assumptions frame_nominal.
Print Assumptions system_refinement.
Print Assumptions C03_buffer_level.
Print Assumptions C05_buffer_level.
Print Assumptions C17_buffer_level.
Print Assumptions C09_buffer_level.
