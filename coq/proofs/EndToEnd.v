(* EndToEnd.v - the per-layer results chained into three end-to-end statements.

   C18_recovery       any allocation / transmit faults during any history on an
                      interface never fault the buffer-level model; a topology
                      Reset (again under any oracles) then returns the interface
                      to the fresh record without a port call; from there, with
                      the platform behaving nominally, every continuation makes
                      exactly the port calls of a freshly started responder and
                      the allocation ledger is again what the records hold.
   C19_history_bound  from the empty registry, for every oracle and every
                      history: no fault, and the memory retained is at most a
                      constant per DISTINCT interface seen - independent of the
                      number of frames.
   C10_system         two responders A and B on the pure multi-interface layer:
                      a descriptor of A's Emit that names B makes A transmit a
                      probe frame; that frame, received by B, is listed in B's
                      next QueryResp with A as the real source.

   Built from: BlockSafe.safe_history / safe_frame, FaultProofs.reset_any_oracle,
   SystemRefinement.single_refinement, PropsMapper.C09_norm_run_eq,
   PropsEmit.C06_emit_any_frames / C10_peer / C10_reported, Isolation.isolation. *)
From Coq Require Import List NArith Lia ZifyBool ZifyN ZifyNat Permutation.
From LLTD Require Import BlockFun BufProofs BlockSafe BlockNominal Isolation PropsMapper PropsEmit
                         FaultProofs SystemRefinement.
Import ListNotations.
Ltac Zify.zify_post_hook ::= Z.div_mod_to_equations.
Local Open Scope N_scope.

(* ====================================================================== *)
(*  0. parse_frame proper in terms of parse_frame_st                      *)
(* ====================================================================== *)

(* the record exists: parse_frame is parse_frame_st on that record + reg_set *)
Lemma parse_frame_found af sf junk ctx c g r s buf w :
  reg_find r ctx = Some s ->
  parse_frame af sf junk ctx c g r buf w =
  match parse_frame_st af sf junk ctx c g s buf w with
  | Ok s' w' => Ok (reg_set r ctx s') w'
  | Fault e => Fault e
  end.
Proof. intros F. unfold parse_frame. rewrite F. reflexivity. Qed.

(* first contact: the record is allocated; if that fails the frame is dropped *)
Lemma parse_frame_new af sf junk ctx c g r buf w :
  reg_find r ctx = None ->
  parse_frame af sf junk ctx c g r buf w =
  match alloc af sz_iface_state w with
  | Ok true w1 =>
    match parse_frame_st af sf junk ctx c g fresh buf w1 with
    | Ok s' w' => Ok (r ++ [(ctx, s')]) w'
    | Fault e => Fault e
    end
  | Ok false w1 => Ok r w1
  | Fault e => Fault e
  end.
Proof.
  intros F. unfold parse_frame. rewrite F. unfold bind.
  destruct (alloc af sz_iface_state w) as [[|] w1|]; cbn [negb]; [|reflexivity|reflexivity].
  destruct (parse_frame_st af sf junk ctx c g fresh buf w1) as [s' w'|]; [|reflexivity].
  unfold ret. rewrite reg_set_new by exact F. reflexivity.
Qed.

Lemma norm_see s : see (norm s) = see s.
Proof. unfold norm. destruct (known s); reflexivity. Qed.
Lemma norm_icon s : icon (norm s) = icon s.
Proof. unfold norm. destruct (known s); reflexivity. Qed.
Lemma norm_fresh_holds_nothing s : norm s = fresh -> held_count s = 0%nat /\ held_bytes s = 0.
Proof.
  intros E. unfold held_count, held_bytes. rewrite <- (norm_see s), <- (norm_icon s), E.
  unfold fresh. cbn [see icon length]. split; [reflexivity|lia].
Qed.
Lemma norm_fresh : norm fresh = fresh.
Proof. reflexivity. Qed.

(* ====================================================================== *)
(*  1. C18: recovery after arbitrary faults                               *)
(* ====================================================================== *)

(* reset_any_oracle lifted to the registry: whatever the oracles, whether or not the interface
   already has a record (and, if not, whether or not its allocation succeeds), a topology Reset
   leaves the interface at the fresh record, makes no port call and keeps the ledger exact *)
Theorem reset_frame_any_oracle af sf junk ctx c g r buf h w bl bb :
  cfg_ok c -> length buf = o (c_rxsize c) -> ledger_reg bl bb r w ->
  parse_hdr buf = Some h -> h_tos h = tos_discovery -> h_opc h = opcode_reset ->
  exists r' w', parse_frame af sf junk ctx c g r buf w = Ok r' w'
    /\ norm (reg_state r' ctx) = fresh
    /\ w_trace w' = w_trace w /\ ledger_reg bl bb r' w' /\ w_now w' = w_now w.
Proof.
  intros CO Lb (L & B) P T O.
  destruct (reg_find r ctx) as [s|] eqn:F.
  - rewrite (parse_frame_found af sf junk ctx c g r s buf w F).
    destruct (reg_frame r ctx s F) as (rc & rb & C1 & C2 & C3).
    destruct (reset_any_oracle af sf junk ctx c g s buf h w (bl + rc)%nat (bb + rb) CO Lb) as
      (s' & w' & E & Nf & L' & B' & T' & N'); auto.
    { split; lia. }
    rewrite E. exists (reg_set r ctx s'), w'. split; [reflexivity|].
    split; [rewrite reg_state_set_same; exact Nf|]. split; [exact T'|]. split; [|exact N'].
    destruct (C3 s') as (A1 & A2 & _). destruct (norm_fresh_holds_nothing s' Nf) as (H1 & H2).
    split; lia.
  - rewrite (parse_frame_new af sf junk ctx c g r buf w F). unfold alloc.
    destruct (af (w_allocs w)).
    + (* the record cannot be allocated: the frame is dropped, the interface stays unknown *)
      eexists; eexists. split; [reflexivity|].
      split; [rewrite (reg_state_unknown r ctx F); reflexivity|].
      cbn [w_trace w_now]. split; [reflexivity|]. split; [split; cbn [w_live w_bytes]; assumption|reflexivity].
    + match goal with |- context [parse_frame_st af sf junk ctx c g fresh buf ?w0] => set (w1 := w0) end.
      destruct (reset_any_oracle af sf junk ctx c g fresh buf h w1
                  (bl + reg_count r + 1)%nat (bb + reg_bytes r + sz_iface_state) CO Lb) as
        (s' & w' & E & Nf & L' & B' & T' & N'); auto.
      { subst w1. split; cbn; lia. }
      rewrite E. exists (r ++ [(ctx, s')]), w'. split; [reflexivity|].
      split. { rewrite <- (reg_set_new r ctx s' F), reg_state_set_same. exact Nf. }
      split; [rewrite T'; reflexivity|]. split; [|rewrite N'; reflexivity].
      destruct (norm_fresh_holds_nothing s' Nf) as (H1 & H2).
      split; [rewrite reg_count_app|rewrite reg_bytes_app]; cbn [reg_count reg_bytes]; lia.
Qed.

Lemma on_fop_ok cfgs ctx bufs :
  cfg_ok (cfgs ctx) -> Forall (buf_len cfgs ctx) bufs -> Forall (fop_ok cfgs) (on ctx bufs).
Proof.
  intros CO F. unfold on. apply Forall_forall. intros p Hp. apply in_map_iff in Hp as (b & <- & Hb).
  cbn [fop_ok]. split; [exact CO|]. exact (proj1 (Forall_forall _ _) F b Hb).
Qed.

Theorem C18_recovery af sf af' sf' junk cfgs g mtus ctx hist rbuf h cont r w bl bb :
  cfg_ok (cfgs ctx) ->
  Forall (buf_len cfgs ctx) hist -> buf_len cfgs ctx rbuf -> Forall (buf_len cfgs ctx) cont ->
  parse_hdr rbuf = Some h -> h_tos h = tos_discovery -> h_opc h = opcode_reset ->
  ledger_reg bl bb r w -> reg_bounded g r ->
  exists r1 w1 r2 w2,
    (* (a) any faults during any history: the model does not fault, the ledger stays exact *)
    run_frames af sf junk cfgs g r (on ctx hist) w = Ok r1 w1
    /\ ledger_reg bl bb r1 w1
    (* (b) a topology Reset, again under any oracles *)
    /\ run_frames af' sf' junk cfgs g r1 (on ctx [rbuf]) w1 = Ok r2 w2
    /\ norm (reg_state r2 ctx) = fresh
    /\ w_trace w2 = w_trace w1
    (* (c) from there, with the platform behaving nominally: a freshly started responder *)
    /\ (cfgs_nominal cfgs mtus ->
        exists r3 w3,
          run_frames no_fail no_fail junk cfgs g r2 (on ctx cont) w2 = Ok r3 w3
          /\ w_trace w3 = rev (snd (f_run ctx (cfgs ctx) g (mtus ctx) fresh cont)) ++ w_trace w2
          /\ ledger_reg bl bb r3 w3).
Proof.
  intros CO Fh Fr Fc P T O LR RB.
  destruct (safe_history af sf junk cfgs g (on ctx hist) r w bl bb (on_fop_ok cfgs ctx hist CO Fh) LR RB)
    as (r1 & w1 & E1 & LR1 & RB1).
  destruct (reset_frame_any_oracle af' sf' junk ctx (cfgs ctx) g r1 rbuf h w1 bl bb CO Fr LR1 P T O)
    as (r2 & w2 & E2 & Nf & T2 & LR2 & _).
  exists r1, w1, r2, w2. split; [exact E1|]. split; [exact LR1|].
  split. { unfold on. cbn [map run_frames]. unfold bind. rewrite E2. reflexivity. }
  split; [exact Nf|]. split; [exact T2|].
  intros Hnom.
  destruct (single_refinement junk cfgs g mtus Hnom ctx cont r2 w2 bl bb Fc LR2) as (r3 & w3 & E3 & T3 & _ & LR3 & _).
  exists r3, w3. split; [exact E3|]. split; [|exact LR3].
  rewrite T3. f_equal. f_equal. apply C09_norm_run_eq. rewrite Nf. reflexivity.
Qed.

(* the form with the interface record known to exist after the history (no allocation involved in the Reset) *)
Corollary C18_recovery_record af sf af' sf' junk cfgs g mtus ctx hist rbuf h cont r w bl bb :
  cfg_ok (cfgs ctx) -> cfgs_nominal cfgs mtus ->
  Forall (buf_len cfgs ctx) hist -> buf_len cfgs ctx rbuf -> Forall (buf_len cfgs ctx) cont ->
  parse_hdr rbuf = Some h -> h_tos h = tos_discovery -> h_opc h = opcode_reset ->
  ledger_reg bl bb r w -> reg_bounded g r ->
  exists r1 w1,
    run_frames af sf junk cfgs g r (on ctx hist) w = Ok r1 w1
    /\ forall s1, reg_find r1 ctx = Some s1 ->
       exists s2 w2 r3 w3,
         parse_frame_st af' sf' junk ctx (cfgs ctx) g s1 rbuf w1 = Ok s2 w2
         /\ parse_frame af' sf' junk ctx (cfgs ctx) g r1 rbuf w1 = Ok (reg_set r1 ctx s2) w2
         /\ norm s2 = fresh /\ w_trace w2 = w_trace w1
         /\ run_frames no_fail no_fail junk cfgs g (reg_set r1 ctx s2) (on ctx cont) w2 = Ok r3 w3
         /\ w_trace w3 = rev (snd (f_run ctx (cfgs ctx) g (mtus ctx) fresh cont)) ++ w_trace w2.
Proof.
  intros CO Hnom Fh Fr Fc P T O LR RB.
  destruct (C18_recovery af sf af' sf' junk cfgs g mtus ctx hist rbuf h cont r w bl bb CO Fh Fr Fc P T O LR RB)
    as (r1 & w1 & r2 & w2 & E1 & _ & E2 & Nf & T2 & K).
  exists r1, w1. split; [exact E1|]. intros s1 F.
  unfold on in E2. cbn [map run_frames] in E2. unfold bind in E2.
  rewrite (parse_frame_found af' sf' junk ctx (cfgs ctx) g r1 s1 rbuf w1 F) in E2.
  destruct (parse_frame_st af' sf' junk ctx (cfgs ctx) g s1 rbuf w1) as [s2 w2'|] eqn:Est; [|discriminate].
  unfold ret in E2. inversion E2; subst r2 w2'.
  destruct (K Hnom) as (r3 & w3 & E3 & T3 & _).
  exists s2, w2, r3, w3. split; [reflexivity|].
  split; [rewrite (parse_frame_found af' sf' junk ctx (cfgs ctx) g r1 s1 rbuf w1 F), Est; reflexivity|].
  split; [rewrite reg_state_set_same in Nf; exact Nf|]. split; [exact T2|]. split; [exact E3|exact T3].
Qed.

(* ====================================================================== *)
(*  2. C19: retained memory is bounded per interface seen                 *)
(* ====================================================================== *)

Definition keys (r : registry) : list N := map fst r.
(* the interfaces a history mentions, one entry per frame *)
Fixpoint fop_ctxs (l : list fop) : list N :=
  match l with
  | [] => []
  | FFrame k _ :: r => k :: fop_ctxs r
  | FAdv _ :: r => fop_ctxs r
  end.
(* how many distinct interfaces a history mentions *)
Definition distinct_ifaces (l : list fop) : nat := length (nodup N.eq_dec (fop_ctxs l)).

Lemma fop_ctxs_length l : (length (fop_ctxs l) <= length l)%nat.
Proof. induction l as [|[k b|d] l IH]; cbn [fop_ctxs length]; lia. Qed.
Lemma nodup_length_le {A} (dec : forall x y : A, {x = y} + {x <> y}) l : (length (nodup dec l) <= length l)%nat.
Proof. induction l as [|a l IH]; cbn [nodup length]; [lia|]. destruct (in_dec dec a l); cbn [length]; lia. Qed.
Lemma distinct_ifaces_le l : (distinct_ifaces l <= length l)%nat.
Proof. unfold distinct_ifaces. pose proof (nodup_length_le N.eq_dec (fop_ctxs l)). pose proof (fop_ctxs_length l). lia. Qed.

Lemma reg_find_none_keys r ctx : reg_find r ctx = None -> ~ In ctx (keys r).
Proof.
  induction r as [|[k s] r IH]; cbn [reg_find keys map fst In]; [tauto|].
  destruct (N.eqb_spec k ctx) as [->|Hk]; [discriminate|]. intros F [X|X]; [contradiction|]. exact (IH F X).
Qed.
Lemma keys_reg_set_found r ctx s s' : reg_find r ctx = Some s -> keys (reg_set r ctx s') = keys r.
Proof.
  induction r as [|[k s0] r IH]; cbn [reg_find reg_set]; [discriminate|].
  destruct (k =? ctx); [reflexivity|]. intros F. cbn [keys map fst]. f_equal. exact (IH F).
Qed.

(* a frame adds at most the key of its own interface, and only if it was not there *)
Lemma parse_frame_keys af sf junk ctx c g r buf w r' w' :
  parse_frame af sf junk ctx c g r buf w = Ok r' w' ->
  keys r' = keys r \/ (~ In ctx (keys r) /\ keys r' = keys r ++ [ctx]).
Proof.
  destruct (reg_find r ctx) as [s|] eqn:F.
  - rewrite (parse_frame_found af sf junk ctx c g r s buf w F).
    destruct (parse_frame_st af sf junk ctx c g s buf w) as [s' w1|]; [|discriminate].
    intros E; inversion E; subst. left. eapply keys_reg_set_found; exact F.
  - rewrite (parse_frame_new af sf junk ctx c g r buf w F).
    destruct (alloc af sz_iface_state w) as [[|] w1|]; [| |discriminate].
    + destruct (parse_frame_st af sf junk ctx c g fresh buf w1) as [s' w2|]; [|discriminate].
      intros E; inversion E; subst. right. split; [apply reg_find_none_keys; exact F|].
      unfold keys. rewrite map_app. reflexivity.
    + intros E; inversion E; subst. left; reflexivity.
Qed.

Lemma run_frames_keys af sf junk cfgs g l : forall r w r' w',
  run_frames af sf junk cfgs g r l w = Ok r' w' -> NoDup (keys r) ->
  NoDup (keys r') /\ incl (keys r') (keys r ++ fop_ctxs l).
Proof.
  induction l as [|[k buf|d] l IH]; intros r w r' w' E ND; cbn [run_frames fop_ctxs] in *.
  - unfold ret in E. inversion E; subst. split; [exact ND|]. rewrite app_nil_r. apply incl_refl.
  - unfold bind in E.
    destruct (parse_frame af sf junk k (cfgs k) g r buf w) as [r1 w1|] eqn:E1; [|discriminate].
    destruct (parse_frame_keys af sf junk k (cfgs k) g r buf w r1 w1 E1) as [K|(NI & K)].
    + destruct (IH r1 w1 r' w' E) as (A & I); [rewrite K; exact ND|]. split; [exact A|].
      rewrite K in I. intros x Hx. apply I in Hx. apply in_app_or in Hx as [Hx|Hx]; apply in_or_app; [left|right; right]; exact Hx.
    + destruct (IH r1 w1 r' w' E) as (A & I).
      { rewrite K. apply (Permutation_NoDup (l := k :: keys r)).
        - apply Permutation_cons_append.
        - constructor; assumption. }
      split; [exact A|]. rewrite K in I. intros x Hx. apply I in Hx.
      apply in_app_or in Hx as [Hx|Hx]; [apply in_app_or in Hx as [Hx|[<-|[]]]|]; apply in_or_app;
        [left; exact Hx|right; left; reflexivity|right; right; exact Hx].
  - unfold bind, advance in E. exact (IH r _ r' w' E ND).
Qed.

Theorem C19_history_bound af sf junk cfgs g l :
  Forall (fop_ok cfgs) l ->
  exists r' w',
    run_frames af sf junk cfgs g [] l world0 = Ok r' w'
    /\ w_bytes w' <= N.of_nat (length r') * per_iface_bound g
    /\ (w_live w' <= length r' * (2 + o LLTD_SEE_LIST_MAX))%nat
    /\ (length r' <= distinct_ifaces l)%nat
    /\ (length r' <= length l)%nat.
Proof.
  intros F.
  destruct (safe_history af sf junk cfgs g l [] world0 0%nat 0 F) as (r' & w' & E & (L & B) & RB).
  { split; reflexivity. } { constructor. }
  exists r', w'. split; [exact E|].
  pose proof (reg_bytes_bound af sf junk cfgs g r' RB) as H1.
  pose proof (reg_count_bound af sf junk cfgs g r' RB) as H2.
  split; [lia|]. split; [lia|].
  assert (D : (length r' <= distinct_ifaces l)%nat).
  { destruct (run_frames_keys af sf junk cfgs g l [] world0 r' w' E) as (ND & I); [constructor|].
    cbn [keys map app] in I. unfold distinct_ifaces.
    replace (length r') with (length (keys r')) by (unfold keys; apply map_length).
    apply NoDup_incl_length; [exact ND|]. intros x Hx. apply nodup_In. apply I. exact Hx. }
  split; [exact D|]. pose proof (distinct_ifaces_le l). lia.
Qed.

(* the bound spelled out in terms of the history alone: bytes and blocks retained are at most a
   constant times the number of distinct interfaces, however long the history is *)
Corollary C19_retained_per_interface af sf junk cfgs g l :
  Forall (fop_ok cfgs) l ->
  exists r' w',
    run_frames af sf junk cfgs g [] l world0 = Ok r' w'
    /\ w_bytes w' <= N.of_nat (distinct_ifaces l) * per_iface_bound g
    /\ (w_live w' <= distinct_ifaces l * (2 + o LLTD_SEE_LIST_MAX))%nat.
Proof.
  intros F. destruct (C19_history_bound af sf junk cfgs g l F) as (r' & w' & E & B & L & D & _).
  exists r', w'. split; [exact E|]. split.
  - eapply N.le_trans; [exact B|]. apply N.mul_le_mono_r. lia.
  - eapply Nat.le_trans; [exact L|]. apply Nat.mul_le_mono_r. exact D.
Qed.

(* ====================================================================== *)
(*  3. C10 across two responders                                          *)
(* ====================================================================== *)

(* every port call of an Emit step is the pause or the probe of a descriptor of a known kind
   read from the frame, or the acknowledgement *)
Lemma emit_sends_shape ctx c g mtu s buf h a :
  parse_hdr buf = Some h -> h_tos h = tos_discovery -> h_opc h = opcode_emit ->
  In a (snd (f_step ctx c g mtu s buf)) ->
  exists ds, read_descs buf (o (h_w0 h)) 0 = Some ds /\
    ((exists d, In d ds /\ (d_type d = 0 \/ d_type d = 1)
                /\ (a = Sleep (d_pause d) \/ a = tx ctx (probe_frame c d)))
     \/ a = tx ctx (ack_frame c (with_seq (set_active s h) (h_seq h)))).
Proof.
  intros Hp Ht Ho Hin. rewrite (step_emit ctx c g mtu s buf h Hp Ht Ho) in Hin.
  unfold f_parse_emit in Hin. cbv zeta in Hin.
  destruct (negb _); [contradiction|].
  destruct (read_descs buf (o (h_w0 h)) 0) as [ds|]; [|contradiction].
  cbn [snd] in Hin. rewrite emit_all_spec in Hin. apply in_app_or in Hin as [Hin|Hin].
  - apply in_flat_map in Hin as (d & Hd & Ha). destruct (kind_known d) eqn:K; [|contradiction].
    exists ds. split; [reflexivity|]. left. exists d. split; [exact Hd|].
    split; [apply kind_known_iff; exact K|].
    unfold exec_desc in Ha. cbn [In] in Ha. destruct Ha as [<-|[<-|[]]]; auto.
  - destruct (ack_due ds); [|contradiction]. destruct Hin as [<-|[]].
    exists ds. split; [reflexivity|]. right; reflexivity.
Qed.

(* conversely: each descriptor of a known kind makes the responder transmit its probe frame *)
Lemma emit_sends_probe ctx c g mtu s buf h d :
  576 <= mtu /\ mtu <= 9216 ->
  parse_hdr buf = Some h -> h_tos h = tos_discovery -> h_opc h = opcode_emit ->
  h_w0 h <= (mtu - 34) / 14 -> (o mtu <= length buf)%nat ->
  In d (spec_descs buf (o (h_w0 h))) -> (d_type d = 0 \/ d_type d = 1) ->
  In (tx ctx (probe_frame c d)) (snd (f_step ctx c g mtu s buf)).
Proof.
  intros Hm Hp Ht Ho Hhi Hlen Hd Hk.
  rewrite (C06_emit_any_frames ctx c g mtu Hm s buf h Hp Ht Ho Hhi Hlen).
  apply in_or_app. left. apply in_flat_map. exists d. split; [exact Hd|].
  rewrite (proj2 (kind_known_iff d) Hk). right; left; reflexivity.
Qed.

Section TwoResponders.
  Variables (ctxA : N) (cA : pcfg) (gA : gcfg) (mtuA : N).    (* the emitting responder *)
  Variables (ctxB : N) (cB : pcfg) (gB : gcfg) (mtuB : N).    (* the observing responder *)
  Hypothesis HmA : 576 <= mtuA /\ mtuA <= 9216.
  Hypothesis HmB : 576 <= mtuB /\ mtuB <= 9216.

  Notation stepA := (f_step ctxA cA gA mtuA).
  Notation stepB := (f_step ctxB cB gB mtuB).

  (* A is handed an Emit with a descriptor [d] of a known kind addressed to B; B's list is not
     full and has no entry with that key.  Then A transmits the probe frame, and B - receiving it
     in its buffer, then a Query - lists the observation in its QueryResp, A being the real source *)
  Theorem C10_system sA bufA hA sB d pad q hq :
    parse_hdr bufA = Some hA -> h_tos hA = tos_discovery -> h_opc hA = opcode_emit ->
    h_w0 hA <= (mtuA - 34) / 14 -> (o mtuA <= length bufA)%nat ->
    In d (spec_descs bufA (o (h_w0 hA))) -> (d_type d = 0 \/ d_type d = 1) -> d_dst d = own cB ->
    (4 <= length pad)%nat ->
    let fr := probe_frame cA d in
    let ob := {| o_type := d_type d; o_rsrc := own cA; o_esrc := d_src d; o_edst := d_dst d |} in
    see_full sB = false -> existsb (obs_key_eqb ob) (see sB) = false ->
    parse_hdr q = Some hq -> h_tos hq = tos_discovery -> h_opc hq = opcode_query ->
    In (tx ctxA fr) (snd (stepA sA bufA))
    /\ snd (stepB sB (fr ++ pad)) = []
    /\ let sB' := fst (stepB sB (fr ++ pad)) in
       snd (stepB sB' q) =
       [tx ctxB (qresp_frame cB hq (h_seq hq) (ob :: firstn (qcap mtuB - 1) (see sB))
                             (Nat.ltb (qcap mtuB) (S (length (see sB)))))].
  Proof.
    intros Hp Ht Ho Hhi Hlen Hd Hk Hdst L fr ob Hf He Hpq Htq Hoq.
    split; [exact (emit_sends_probe ctxA cA gA mtuA sA bufA hA d HmA Hp Ht Ho Hhi Hlen Hd Hk)|].
    split; [exact (proj1 (C10_peer cA ctxB cB gB mtuB d pad sB L Hk Hdst))|].
    exact (C10_reported cA ctxB cB gB mtuB d pad sB q hq HmB L Hk Hdst Hf He Hpq Htq Hoq).
  Qed.

  (* read from A's port calls instead of from A's input: any frame A transmits while executing an
     Emit, other than the acknowledgement, is the probe of a descriptor of a known kind; if that
     descriptor names B, B reports it *)
  Theorem C10_system_sent sA bufA hA fr :
    parse_hdr bufA = Some hA -> h_tos hA = tos_discovery -> h_opc hA = opcode_emit ->
    In (tx ctxA fr) (snd (stepA sA bufA)) ->
    fr <> ack_frame cA (with_seq (set_active sA hA) (h_seq hA)) ->
    exists ds d,
      read_descs bufA (o (h_w0 hA)) 0 = Some ds /\ In d ds /\ (d_type d = 0 \/ d_type d = 1)
      /\ fr = probe_frame cA d
      /\ (d_dst d = own cB ->
          forall sB pad q hq,
            (4 <= length pad)%nat ->
            let ob := {| o_type := d_type d; o_rsrc := own cA; o_esrc := d_src d; o_edst := d_dst d |} in
            see_full sB = false -> existsb (obs_key_eqb ob) (see sB) = false ->
            parse_hdr q = Some hq -> h_tos hq = tos_discovery -> h_opc hq = opcode_query ->
            let sB' := fst (stepB sB (fr ++ pad)) in
            snd (stepB sB' q) =
            [tx ctxB (qresp_frame cB hq (h_seq hq) (ob :: firstn (qcap mtuB - 1) (see sB))
                                  (Nat.ltb (qcap mtuB) (S (length (see sB)))))]).
  Proof.
    intros Hp Ht Ho Hin Hna.
    destruct (emit_sends_shape ctxA cA gA mtuA sA bufA hA _ Hp Ht Ho Hin) as (ds & Hr & [(d & Hd & Hk & [Ha|Ha])|Ha]).
    - discriminate Ha.
    - unfold tx in Ha. inversion Ha as [Hfr]. exists ds, d.
      split; [exact Hr|]. split; [exact Hd|]. split; [exact Hk|]. split; [reflexivity|].
      intros Hdst sB pad q hq L ob Hf He Hpq Htq Hoq.
      exact (C10_reported cA ctxB cB gB mtuB d pad sB q hq HmB L Hk Hdst Hf He Hpq Htq Hoq).
    - unfold tx in Ha. inversion Ha as [Hfr]. contradiction.
  Qed.
End TwoResponders.

(* the same on the multi-interface system of Isolation.v: interfaces ctxA and ctxB of one system
   (any state map m, i.e. any earlier history), A's Emit, then the probe arriving at B, then B's Query *)
Lemma sys_run_head cfgs g mtus m k b l :
  snd (sys_run cfgs g mtus m ((k, b) :: l)) =
  map (pair k) (snd (f_step k (cfgs k) g (mtus k) (m k) b))
  ++ snd (sys_run cfgs g mtus (upd m k (fst (f_step k (cfgs k) g (mtus k) (m k) b))) l).
Proof.
  cbn [sys_run]. destruct (f_step k (cfgs k) g (mtus k) (m k) b) as [s' a]. cbn [fst snd].
  destruct (sys_run cfgs g mtus (upd m k s') l) as [m2 a2]. reflexivity.
Qed.

Theorem C10_system_run cfgs g mtus m ctxA ctxB bufA hA d pad q hq :
  ctxA <> ctxB ->
  576 <= mtus ctxA /\ mtus ctxA <= 9216 -> 576 <= mtus ctxB /\ mtus ctxB <= 9216 ->
  parse_hdr bufA = Some hA -> h_tos hA = tos_discovery -> h_opc hA = opcode_emit ->
  h_w0 hA <= (mtus ctxA - 34) / 14 -> (o (mtus ctxA) <= length bufA)%nat ->
  In d (spec_descs bufA (o (h_w0 hA))) -> (d_type d = 0 \/ d_type d = 1) -> d_dst d = own (cfgs ctxB) ->
  (4 <= length pad)%nat ->
  let fr := probe_frame (cfgs ctxA) d in
  let ob := {| o_type := d_type d; o_rsrc := own (cfgs ctxA); o_esrc := d_src d; o_edst := d_dst d |} in
  see_full (m ctxB) = false -> existsb (obs_key_eqb ob) (see (m ctxB)) = false ->
  parse_hdr q = Some hq -> h_tos hq = tos_discovery -> h_opc hq = opcode_query ->
  let tagged := snd (sys_run cfgs g mtus m [(ctxA, bufA); (ctxB, fr ++ pad); (ctxB, q)]) in
  In (ctxA, tx ctxA fr) tagged
  /\ acts_of ctxB tagged =
     [tx ctxB (qresp_frame (cfgs ctxB) hq (h_seq hq) (ob :: firstn (qcap (mtus ctxB) - 1) (see (m ctxB)))
                           (Nat.ltb (qcap (mtus ctxB)) (S (length (see (m ctxB))))))].
Proof.
  intros Hne HmA HmB Hp Ht Ho Hhi Hlen Hd Hk Hdst L fr ob Hf He Hpq Htq Hoq tagged.
  destruct (C10_system ctxA (cfgs ctxA) g (mtus ctxA) ctxB (cfgs ctxB) g (mtus ctxB) HmA HmB
              (m ctxA) bufA hA (m ctxB) d pad q hq Hp Ht Ho Hhi Hlen Hd Hk Hdst L Hf He Hpq Htq Hoq)
    as (S1 & S2 & S3).
  fold fr in S1, S2, S3. fold ob in S3. split.
  - subst tagged. rewrite sys_run_head. apply in_or_app. left. apply in_map. exact S1.
  - subst tagged.
    rewrite (proj1 (isolation cfgs g mtus [(ctxA, bufA); (ctxB, fr ++ pad); (ctxB, q)] m ctxB)).
    unfold frames_of. cbn [filter fst]. rewrite N.eqb_refl.
    destruct (N.eqb_spec ctxA ctxB) as [X|_]; [contradiction|]. cbn [map snd f_run].
    destruct (f_step ctxB (cfgs ctxB) g (mtus ctxB) (m ctxB) (fr ++ pad)) as [sB' a1]. cbn [fst snd] in *.
    destruct (f_step ctxB (cfgs ctxB) g (mtus ctxB) sB' q) as [sB'' a2]. cbn [fst snd] in *.
    rewrite S2, S3. reflexivity.
Qed.

(* ====================================================================== *)
(*  The hypotheses are satisfiable                                        *)
(* ====================================================================== *)

Definition ex_g : gcfg := {| g_host := []; g_icon := None; g_fname := None; g_hwid := []; g_retfull := false |}.

Example C18_hypotheses_satisfiable :
  cfg_ok ex_cfg
  /\ cfgs_nominal (fun _ => ex_cfg) (fun _ => 1500)
  /\ Forall (buf_len (fun _ => ex_cfg) 1) [ex_rx ex_discover; ex_rx ex_query; ex_rx ex_probe]
  /\ buf_len (fun _ => ex_cfg) 1 (ex_rx ex_reset)
  /\ Forall (buf_len (fun _ => ex_cfg) 1) [ex_rx ex_discover; ex_rx ex_query]
  /\ (exists h, parse_hdr (ex_rx ex_reset) = Some h /\ h_tos h = tos_discovery /\ h_opc h = opcode_reset)
  /\ ledger_reg 0 0 [] world0 /\ reg_bounded ex_g [].
Proof.
  split; [unfold cfg_ok, ex_cfg; cbn [c_rxsize c_mtu]; lia|].
  split; [intros ctx; unfold ex_cfg; cbn [c_mtu c_rxsize]; split; [reflexivity|lia]|].
  split; [repeat constructor|]. split; [reflexivity|]. split; [repeat constructor|].
  split; [eexists; split; [vm_compute; reflexivity|]; vm_compute; repeat split|].
  split; [split; reflexivity|constructor].
Qed.

(* the theorem applied: whatever fails while a Discover, a Query and a Probe are handled, after the
   Reset a Discover is answered exactly as by a fresh responder *)
Example C18_instance af sf af' sf' junk :
  exists r1 w1 r2 w2 r3 w3,
    run_frames af sf junk (fun _ => ex_cfg) ex_g []
      (on 1 [ex_rx ex_discover; ex_rx ex_query; ex_rx ex_probe]) world0 = Ok r1 w1
    /\ run_frames af' sf' junk (fun _ => ex_cfg) ex_g r1 (on 1 [ex_rx ex_reset]) w1 = Ok r2 w2
    /\ w_trace w2 = w_trace w1
    /\ run_frames no_fail no_fail junk (fun _ => ex_cfg) ex_g r2 (on 1 [ex_rx ex_discover; ex_rx ex_query]) w2 = Ok r3 w3
    /\ w_trace w3 = rev (snd (f_run 1 ex_cfg ex_g 1500 fresh [ex_rx ex_discover; ex_rx ex_query])) ++ w_trace w2
    /\ ledger_reg 0 0 r3 w3.
Proof.
  destruct C18_hypotheses_satisfiable as (H1 & H2 & H3 & H4 & H5 & (h & P & T & O) & H7 & H8).
  destruct (C18_recovery af sf af' sf' junk (fun _ => ex_cfg) ex_g (fun _ => 1500) 1
              [ex_rx ex_discover; ex_rx ex_query; ex_rx ex_probe] (ex_rx ex_reset) h
              [ex_rx ex_discover; ex_rx ex_query] [] world0 0%nat 0 H1 H3 H4 H5 P T O H7 H8)
    as (r1 & w1 & r2 & w2 & E1 & _ & E2 & _ & T2 & K).
  destruct (K H2) as (r3 & w3 & E3 & T3 & LR3).
  exists r1, w1, r2, w2, r3, w3. auto 10.
Qed.

(* C19: an interleaved history on two interfaces with the clock moving; two distinct interfaces *)
Definition ex_hist : list fop :=
  [FFrame 1 (ex_rx ex_discover); FAdv 5; FFrame 2 (ex_rx ex_discover_other); FFrame 1 (ex_rx ex_probe);
   FFrame 1 (ex_rx ex_query); FFrame 2 (ex_rx ex_reset)].
Example C19_hypotheses_satisfiable :
  Forall (fop_ok (fun _ => ex_cfg)) ex_hist /\ distinct_ifaces ex_hist = 2%nat /\ length ex_hist = 6%nat.
Proof.
  pose proof (proj1 C18_hypotheses_satisfiable) as CO.
  split; [|split; reflexivity].
  unfold ex_hist.
  repeat (apply Forall_cons; [first [exact I | split; [exact CO|reflexivity]]|]). apply Forall_nil.
Qed.
Example C19_instance af sf junk :
  exists r' w', run_frames af sf junk (fun _ => ex_cfg) ex_g [] ex_hist world0 = Ok r' w'
    /\ w_bytes w' <= 2 * per_iface_bound ex_g /\ (w_live w' <= 2 * (2 + o LLTD_SEE_LIST_MAX))%nat.
Proof.
  destruct (C19_retained_per_interface af sf junk (fun _ => ex_cfg) ex_g ex_hist (proj1 C19_hypotheses_satisfiable))
    as (r' & w' & E & B & L).
  rewrite (proj1 (proj2 C19_hypotheses_satisfiable)) in B, L. exists r', w'. auto.
Qed.

(* C10: the concrete Emit of PropsEmit.Ex (two descriptors addressed to the peer macP), responder R
   on interface 7, peer P on interface 8, P's record fresh, then a Query to P *)
Example C10_hypotheses_satisfiable : exists hA hq,
  parse_hdr Ex.emit_buf = Some hA /\ h_tos hA = tos_discovery /\ h_opc hA = opcode_emit
  /\ h_w0 hA <= (576 - 34) / 14 /\ (o 576 <= length Ex.emit_buf)%nat
  /\ In Ex.d1 (spec_descs Ex.emit_buf (o (h_w0 hA))) /\ (d_type Ex.d1 = 0 \/ d_type Ex.d1 = 1)
  /\ d_dst Ex.d1 = own Ex.cP
  /\ see_full fresh = false
  /\ existsb (obs_key_eqb {| o_type := d_type Ex.d1; o_rsrc := own Ex.cR; o_esrc := d_src Ex.d1; o_edst := d_dst Ex.d1 |})
             (see fresh) = false
  /\ parse_hdr Ex.query_buf = Some hq /\ h_tos hq = tos_discovery /\ h_opc hq = opcode_query.
Proof.
  destruct Ex.emit_hyps as (hA & P & T & O & _ & Hhi & Hlen & Hds & _).
  exists hA. eexists. split; [exact P|]. split; [exact T|]. split; [exact O|]. split; [exact Hhi|].
  split; [exact Hlen|]. split; [rewrite Hds; left; reflexivity|]. split; [right; reflexivity|].
  split; [reflexivity|]. split; [reflexivity|]. split; [reflexivity|].
  split; [vm_compute; reflexivity|]. split; reflexivity.
Qed.

Example C10_instance : exists hq,
  parse_hdr Ex.query_buf = Some hq
  /\ In (tx 7 (probe_frame Ex.cR Ex.d1)) (snd (f_step 7 Ex.cR Ex.gR 576 Ex.s0 Ex.emit_buf))
  /\ snd (f_step 8 Ex.cP Ex.gR 576
            (fst (f_step 8 Ex.cP Ex.gR 576 fresh (probe_frame Ex.cR Ex.d1 ++ repeat 0 28))) Ex.query_buf) =
     [tx 8 (qresp_frame Ex.cP hq (h_seq hq)
              [{| o_type := 1; o_rsrc := Ex.macR; o_esrc := Ex.macR; o_edst := Ex.macP |}] false)].
Proof.
  destruct C10_hypotheses_satisfiable as (hA & hq & P & T & O & Hhi & Hlen & Hd & Hk & Hdst & Hf & He & Pq & Tq & Oq).
  exists hq. split; [exact Pq|].
  assert (M : 576 <= 576 /\ 576 <= 9216) by lia.
  assert (L : (4 <= length (repeat 0 28))%nat) by (rewrite repeat_length; lia).
  destruct (C10_system 7 Ex.cR Ex.gR 576 8 Ex.cP Ex.gR 576 M M Ex.s0 Ex.emit_buf hA fresh Ex.d1 (repeat 0 28)
              Ex.query_buf hq P T O Hhi Hlen Hd Hk Hdst L Hf He Pq Tq Oq) as (S1 & _ & S3).
  split; [exact S1|]. rewrite S3. reflexivity.
Qed.

Print Assumptions C18_recovery.
Print Assumptions C19_history_bound.
Print Assumptions C10_system.
Print Assumptions C10_system_sent.
Print Assumptions C10_system_run.
