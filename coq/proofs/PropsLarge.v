(* PropsLarge.v - property C08: large properties (icon image, friendly name,
   hardware id) are retrievable byte-exactly by offset.  Pure layer
   (model/BlockFun.v): one QueryLargeTlv request = one response frame carrying
   the slice of the property at the requested offset that fits in the MTU;
   an independent decoder reads the frame back; the mapper's fetch loop
   reassembles exactly the property. *)
From LLTD Require Import BlockFun.
From Coq Require Import Lia ZifyBool ZifyN ZifyNat.
Ltac Zify.zify_post_hook ::= Z.div_mod_to_equations.
Local Open Scope N_scope.

(* ------------------------------------------------------------------------ *)
(* generic list facts                                                        *)
(* ------------------------------------------------------------------------ *)
Lemma firstn_skipn_all (A : Type) (l : list A) (n : nat) :
  (length l <= n)%nat -> firstn n l = l.
Proof. intro H. apply firstn_all2. exact H. Qed.

Lemma skipn_add (A : Type) (a b : nat) (l : list A) : skipn (a + b) l = skipn b (skipn a l).
Proof.
  revert l. induction a as [|a IH]; intro l.
  - reflexivity.
  - destruct l as [|x l].
    + cbn [Nat.add skipn]. now rewrite skipn_nil.
    + cbn [Nat.add skipn]. apply IH.
Qed.

Lemma nth_firstn_lt (A : Type) (l : list A) (n k : nat) (d : A) :
  (k < n)%nat -> nth k (firstn n l) d = nth k l d.
Proof.
  revert l k. induction n as [|n IH]; intros l k H.
  - lia.
  - destruct l as [|x l]; [now destruct k|].
    destruct k as [|k]; [reflexivity|]. cbn [firstn nth]. apply IH. lia.
Qed.

Lemma mac_bytes_length m : length (mac_bytes m) = 6%nat.
Proof. reflexivity. Qed.

Lemma header_bytes_length a b c0 d q op t : length (header_bytes a b c0 d q op t) = 32%nat.
Proof. reflexivity. Qed.

(* ------------------------------------------------------------------------ *)
(* the hardware id: the UCS-2 string up to its first aligned 16-bit zero      *)
(* ------------------------------------------------------------------------ *)
Lemma pair_ind (P : list N -> Prop) :
  P [] -> (forall a, P [a]) -> (forall a b r, P r -> P (a :: b :: r)) -> forall l, P l.
Proof.
  intros H0 H1 H2.
  assert (H : forall l, P l /\ forall a, P (a :: l)).
  { induction l as [|x l [IHa IHb]].
    - split; [exact H0 | exact H1].
    - split; [apply IHb | intro a; apply H2; exact IHa]. }
  intro l. apply H.
Qed.

Lemma hwid_scan_spec l : forall i,
  Nat.even (length l) = true -> i + N.of_nat (length l) = 64 ->
  exists n : nat,
    hwid_scan l i = i + N.of_nat n /\ Nat.even n = true /\ (n <= length l)%nat /\
    (forall k, (2 * k + 1 < n)%nat -> ~ (nth (2 * k) l 0 = 0 /\ nth (2 * k + 1) l 0 = 0)) /\
    ((n < length l)%nat -> nth n l 0 = 0 /\ nth (S n) l 0 = 0).
Proof.
  induction l as [| a | a b r IH] using pair_ind; intros i Hev Hlen.
  - exists 0%nat. cbn [hwid_scan length] in *.
    split; [lia|]. split; [reflexivity|]. split; [lia|]. split; intros; lia.
  - discriminate Hev.
  - cbn [hwid_scan].
    destruct ((a =? 0) && (b =? 0)) eqn:E.
    + exists 0%nat.
      split; [lia|]. split; [reflexivity|]. split; [lia|]. split; [intros; lia|].
      intros _. cbn [nth]. lia.
    + destruct (IH (i + 2)) as (n & Hs & Hn & Hle & Hnz & Hz).
      * exact Hev.
      * cbn [length] in Hlen. lia.
      * exists (S (S n)). cbn [length].
        split; [rewrite Hs; lia|]. split; [exact Hn|]. split; [lia|]. split.
        -- intros k Hk. destruct k as [|k].
           ++ cbn [Nat.mul Nat.add nth]. lia.
           ++ replace (2 * S k)%nat with (S (S (2 * k))) by lia.
              replace (S (S (2 * k)) + 1)%nat with (S (S (2 * k + 1))) by lia.
              cbn [nth]. apply Hnz. lia.
        -- intros Hlt. cbn [nth]. apply Hz. lia.
Qed.

Lemma hwid_scratch_length g : length (hwid_scratch g) = 64%nat.
Proof.
  unfold hwid_scratch, zeros. rewrite app_length, repeat_length.
  pose proof (firstn_le_length 64 (g_hwid g)). lia.
Qed.

Theorem C08_hwid_prefix (g : gcfg) :
  let v := hwid_value g in
  let sc := hwid_scratch g in
  v = firstn (length v) sc /\
  Nat.even (length v) = true /\
  (length v <= 64)%nat /\
  (forall k, (2 * k + 1 < length v)%nat -> ~ (nth (2 * k) sc 0 = 0 /\ nth (2 * k + 1) sc 0 = 0)) /\
  ((length v < 64)%nat -> nth (length v) sc 0 = 0 /\ nth (S (length v)) sc 0 = 0).
Proof.
  intros v sc.
  pose proof (hwid_scratch_length g) as HL. fold sc in HL.
  destruct (hwid_scan_spec sc 0) as (n & Hs & Hn & Hle & Hnz & Hz).
  - rewrite HL. reflexivity.
  - rewrite HL. reflexivity.
  - assert (Hv : v = firstn n sc).
    { unfold v, hwid_value. fold sc. rewrite Hs. f_equal. unfold o. lia. }
    assert (Hlv : length v = n).
    { rewrite Hv, firstn_length. lia. }
    rewrite Hlv. rewrite HL in *.
    split; [exact Hv|]. split; [exact Hn|]. split; [exact Hle|]. split; [exact Hnz|exact Hz].
Qed.

(* the scratch buffer is the first 64 bytes of the platform's id, zero padded *)
Lemma hwid_scratch_spec g :
  hwid_scratch g = firstn 64 (g_hwid g) ++ repeat 0 (64 - length (firstn 64 (g_hwid g))).
Proof. reflexivity. Qed.

(* ------------------------------------------------------------------------ *)
(* big-endian 16-bit fields read back                                        *)
(* ------------------------------------------------------------------------ *)
Lemma be16_decode v : v < 65536 -> 256 * ((v / 256) mod 256) + v mod 256 = v.
Proof. intro H. lia. Qed.

Lemma be16_decode' v : v < 65536 -> (v / 256) mod 256 * 256 + v mod 256 = v.
Proof. intro H. lia. Qed.

(* Independent decoder of a QueryLargeTlvResp frame as it stands on the wire:
   sequence number at 30, the 16-bit length word at 32 (bit 15 = more, bit 14
   reserved, 14 bits of length), the payload after the 34 header bytes. *)
Definition decode_qlt (f : list N) : option (N * list N * bool) :=
  let seq := 256 * nth 30 f 0 + nth 31 f 0 in
  let w := 256 * nth 32 f 0 + nth 33 f 0 in
  let len := w mod 16384 in
  if (length f =? 34 + o len)%nat
  then Some (seq, firstn (o len) (skipn 34 f), 32768 <=? w)
  else None.

(* a QueryLargeTlv request as the mapper puts it on the wire (model layout:
   type byte at 32, the 16-bit offset word at 34) *)
Definition qlt_request (esrc edst rsrc rdst : mac) (seq ty off : N) : list N :=
  header_bytes esrc edst rsrc rdst seq opcode_queryLargeTlv tos_discovery ++ [ty; 0] ++ be16 off.

Lemma parse_qlt_request esrc edst rsrc rdst seq ty off :
  seq < 65536 -> off < 65536 ->
  exists h, parse_hdr (qlt_request esrc edst rsrc rdst seq ty off) = Some h /\
            h_tos h = tos_discovery /\ h_opc h = opcode_queryLargeTlv /\ h_seq h = seq /\
            h_b0 h = ty /\ h_w1 h = off /\ h_esrc h = esrc /\ h_rsrc h = rsrc /\
            h_edst h = edst /\ h_rdst h = rdst.
Proof.
  intros Hs Ho.
  destruct esrc as [a0 a1 a2 a3 a4 a5], edst as [b0 b1 b2 b3 b4 b5],
           rsrc as [c0 c1 c2 c3 c4 c5], rdst as [d0 d1 d2 d3 d4 d5].
  unfold parse_hdr, qlt_request, header_bytes, mac_bytes, be16, rdmac, rd16, rd8.
  change (o of_edst) with 0%nat. change (o of_esrc) with 6%nat. change (o of_tos) with 15%nat.
  change (o of_opcode) with 17%nat. change (o of_rdst) with 18%nat. change (o of_rsrc) with 24%nat.
  change (o of_seq) with 30%nat. change (o sz_hdr) with 32%nat.
  cbn [app nth_error Nat.add m0 m1 m2 m3 m4 m5].
  eexists. split; [reflexivity|]. cbn [h_tos h_opc h_seq h_b0 h_w1 h_esrc h_rsrc h_edst h_rdst].
  rewrite (be16_decode' seq Hs), (be16_decode' off Ho).
  repeat split; reflexivity.
Qed.

Section C08.
  Variable ctx : N.
  Variable c : pcfg.
  Variable g : gcfg.
  Variable mtu : N.
  Hypothesis Hmtu : 576 <= mtu /\ mtu <= 9216.

  Notation step := (f_step ctx c g mtu).
  Notation P := (payload_max mtu).

  Lemma P_val : P = mtu - 34.
  Proof. clear Hmtu. unfold payload_max, sz_hdr, sz_qltresp_hdr. lia. Qed.

  (* ---- one response ---- *)
  Definition chunk_spec (data : list N) (off : N) : list N * bool :=
    let size := N.of_nat (length data) in
    (firstn (o (N.min P (size - off))) (skipn (o off) data), off + P <? size).

  Theorem C08_reply h seq data off :
    f_large_tlv ctx c mtu h seq data off =
    [tx ctx (qlt_frame c h seq (fst (chunk_spec data off)) (snd (chunk_spec data off)))].
  Proof. clear Hmtu.
    unfold f_large_tlv, chunk_spec. cbn [fst snd].
    destruct (off + P <? N.of_nat (length data)) eqn:E.
    - replace (N.min P (N.of_nat (length data) - off)) with P by lia. reflexivity.
    - rewrite (firstn_all2 (n := o (N.min P (N.of_nat (length data) - off)))); [reflexivity|].
      rewrite skipn_length. unfold o. lia.
  Qed.

  Theorem C08_chunk_length data off :
    N.of_nat (length (fst (chunk_spec data off))) = N.min P (N.of_nat (length data) - off).
  Proof. clear Hmtu.
    unfold chunk_spec. cbn [fst]. rewrite firstn_length, skipn_length. unfold o. lia.
  Qed.

  Lemma qlt_frame_length h seq chunk more :
    length (qlt_frame c h seq chunk more) = (34 + length chunk)%nat.
  Proof. clear Hmtu.
    unfold qlt_frame. rewrite !app_length, header_bytes_length. reflexivity.
  Qed.

  (* the response never exceeds the MTU *)
  Theorem C08_fits h seq data off more :
    length (qlt_frame c h seq (fst (chunk_spec data off)) more)
      = (34 + length (fst (chunk_spec data off)))%nat /\
    (length (qlt_frame c h seq (fst (chunk_spec data off)) more) <= o mtu)%nat.
  Proof.
    rewrite qlt_frame_length. split; [reflexivity|].
    pose proof (C08_chunk_length data off) as H. rewrite P_val in H. unfold o. lia.
  Qed.

  Lemma chunk_more data off :
    off + P < N.of_nat (length data) ->
    chunk_spec data off = (firstn (o P) (skipn (o off) data), true) /\
    length (firstn (o P) (skipn (o off) data)) = o P.
  Proof. clear Hmtu.
    intro H. unfold chunk_spec. split.
    - replace (N.min P (N.of_nat (length data) - off)) with P by lia.
      replace (off + P <? N.of_nat (length data)) with true by lia. reflexivity.
    - rewrite firstn_length, skipn_length. unfold o. lia.
  Qed.

  Lemma chunk_last data off :
    N.of_nat (length data) <= off + P ->
    chunk_spec data off = (skipn (o off) data, false).
  Proof. clear Hmtu.
    intro H. unfold chunk_spec.
    replace (off + P <? N.of_nat (length data)) with false by lia.
    rewrite (firstn_all2 (n := o (N.min P (N.of_nat (length data) - off)))); [reflexivity|].
    rewrite skipn_length. unfold o. lia.
  Qed.

  (* ---- which bytes a type stands for ---- *)
  Definition data_for (s : ist) (ty : N) : list N :=
    if ty =? tlv_iconImage then
      match icon s with
      | Some d => d
      | None => match g_icon g with Some d => d | None => [] end
      end
    else if ty =? tlv_friendlyName then match g_fname g with Some d => d | None => [] end
    else if ty =? tlv_hwIdProperty then hwid_value g
    else [].

  Lemma icon_active s h q : icon (with_seq (set_active s h) q) = icon s.
  Proof. clear Hmtu. unfold set_active. destruct (known s); reflexivity. Qed.

  Lemma pre_step_qlt s h : h_opc h = opcode_queryLargeTlv -> pre_step s h = Some s.
  Proof. clear Hmtu.
    intro H. unfold pre_step. rewrite H.
    change (opcode_queryLargeTlv =? opcode_discover) with false.
    rewrite andb_false_r. reflexivity.
  Qed.

  Lemma dispatch_qlt s h buf :
    h_opc h = opcode_queryLargeTlv ->
    f_dispatch ctx c g mtu s h buf =
    if is_discovery_tos (h_tos h) then f_parse_qlt ctx c g mtu s h else (s, []).
  Proof. clear Hmtu.
    intro H. unfold f_dispatch, is_discovery_tos. rewrite H.
    change (opcode_queryLargeTlv =? opcode_discover) with false.
    change (opcode_queryLargeTlv =? opcode_emit) with false.
    change (opcode_queryLargeTlv =? opcode_train) with false.
    change (opcode_queryLargeTlv =? opcode_probe) with false.
    change (opcode_queryLargeTlv =? opcode_query) with false.
    change (opcode_queryLargeTlv =? opcode_queryLargeTlv) with true.
    cbn [orb].
    destruct (h_tos h =? tos_discovery); [reflexivity|].
    destruct (h_tos h =? tos_quick_discovery); reflexivity.
  Qed.

  Lemma step_qlt s buf h :
    parse_hdr buf = Some h -> h_opc h = opcode_queryLargeTlv ->
    step s buf = if is_discovery_tos (h_tos h) then f_parse_qlt ctx c g mtu s h else (s, []).
  Proof. clear Hmtu.
    intros Hp Ho. unfold f_step. rewrite Hp, (pre_step_qlt s h Ho). apply dispatch_qlt. exact Ho.
  Qed.

  (* what the handler does, in terms of [data_for] *)
  Lemma parse_qlt_spec s h :
    h_seq h <> 0 ->
    f_parse_qlt ctx c g mtu s h =
    (let s1 := with_seq (set_active s h) (h_seq h) in
     if h_b0 h =? tlv_iconImage then
       match icon s, g_icon g with
       | None, Some d => with_icon s1 (Some d)
       | _, _ => s1
       end
     else s1,
     f_large_tlv ctx c mtu h (h_seq h) (data_for s (h_b0 h)) (h_w1 h)).
  Proof. clear Hmtu.
    intro Hs. unfold f_parse_qlt, data_for.
    replace (h_seq h =? 0) with false by lia.
    cbv zeta. rewrite icon_active.
    destruct (h_b0 h =? tlv_iconImage).
    - destruct (icon s); [reflexivity|]. destruct (g_icon g); reflexivity.
    - destruct (h_b0 h =? tlv_friendlyName); [reflexivity|].
      destruct (h_b0 h =? tlv_hwIdProperty); reflexivity.
  Qed.

  Theorem C08_step s buf h :
    parse_hdr buf = Some h -> is_discovery_tos (h_tos h) = true ->
    h_opc h = opcode_queryLargeTlv -> h_seq h <> 0 ->
    snd (step s buf) =
    [tx ctx (qlt_frame c h (h_seq h)
               (fst (chunk_spec (data_for s (h_b0 h)) (h_w1 h)))
               (snd (chunk_spec (data_for s (h_b0 h)) (h_w1 h))))].
  Proof. clear Hmtu.
    intros Hp Ht Ho Hs.
    rewrite (step_qlt s buf h Hp Ho), Ht, (parse_qlt_spec s h Hs). cbn [snd].
    apply C08_reply.
  Qed.

  (* an unknown type is answered with an empty payload and the more flag clear *)
  Corollary C08_unknown_type s ty off :
    ty <> tlv_iconImage -> ty <> tlv_friendlyName -> ty <> tlv_hwIdProperty ->
    data_for s ty = [] /\ chunk_spec [] off = ([], false).
  Proof. clear Hmtu.
    intros H1 H2 H3. unfold data_for.
    replace (ty =? tlv_iconImage) with false by lia.
    replace (ty =? tlv_friendlyName) with false by lia.
    replace (ty =? tlv_hwIdProperty) with false by lia.
    split; [reflexivity|].
    unfold chunk_spec. cbn [length N.of_nat]. rewrite skipn_nil, firstn_nil.
    replace (off + P <? 0) with false by lia. reflexivity.
  Qed.

  (* an offset at or past the end: empty payload, more clear *)
  Corollary C08_past_end data off :
    N.of_nat (length data) <= off -> chunk_spec data off = ([], false).
  Proof. clear Hmtu.
    intro H. rewrite chunk_last by lia. f_equal. apply skipn_all2. unfold o. lia.
  Qed.

  Theorem C08_seq0 s buf h :
    parse_hdr buf = Some h -> h_opc h = opcode_queryLargeTlv -> h_seq h = 0 ->
    step s buf = (s, []).
  Proof. clear Hmtu.
    intros Hp Ho Hs. rewrite (step_qlt s buf h Hp Ho).
    destruct (is_discovery_tos (h_tos h)); [|reflexivity].
    unfold f_parse_qlt. rewrite Hs. reflexivity.
  Qed.

  (* ---- the icon cache ---- *)
  Lemma step_qlt_state s buf h :
    parse_hdr buf = Some h -> is_discovery_tos (h_tos h) = true ->
    h_opc h = opcode_queryLargeTlv -> h_seq h <> 0 ->
    fst (step s buf) =
    (let s1 := with_seq (set_active s h) (h_seq h) in
     if h_b0 h =? tlv_iconImage then
       match icon s, g_icon g with
       | None, Some d => with_icon s1 (Some d)
       | _, _ => s1
       end
     else s1).
  Proof. clear Hmtu.
    intros Hp Ht Ho Hs.
    rewrite (step_qlt s buf h Hp Ho), Ht, (parse_qlt_spec s h Hs). reflexivity.
  Qed.

  Theorem C08_icon_cached s buf h d :
    parse_hdr buf = Some h -> is_discovery_tos (h_tos h) = true ->
    h_opc h = opcode_queryLargeTlv -> h_seq h <> 0 ->
    h_b0 h = tlv_iconImage -> g_icon g = Some d ->
    icon (fst (step s buf)) = Some (match icon s with Some d0 => d0 | None => d end).
  Proof. clear Hmtu.
    intros Hp Ht Ho Hs Hb Hg.
    rewrite (step_qlt_state s buf h Hp Ht Ho Hs). cbv zeta.
    rewrite Hb, N.eqb_refl, Hg.
    destruct (icon s) eqn:E.
    - rewrite icon_active. exact E.
    - reflexivity.
  Qed.

  (* the only fields a QueryLargeTlv frame can change: sequence number, mapper, icon cache *)
  Lemma set_active_frame s h :
    see (set_active s h) = see s /\ gen_t (set_active s h) = gen_t s /\
    gen_q (set_active s h) = gen_q s /\ icon (set_active s h) = icon s.
  Proof. clear Hmtu. unfold set_active. destruct (known s); repeat split; reflexivity. Qed.

  Theorem C08_step_frame s buf h :
    parse_hdr buf = Some h -> h_opc h = opcode_queryLargeTlv ->
    let s' := fst (step s buf) in
    see s' = see s /\ gen_t s' = gen_t s /\ gen_q s' = gen_q s /\
    (icon s' = icon s \/ (icon s = None /\ icon s' = g_icon g)).
  Proof. clear Hmtu.
    intros Hp Ho. cbv zeta. rewrite (step_qlt s buf h Hp Ho).
    destruct (is_discovery_tos (h_tos h)); [|cbn [fst]; auto].
    destruct (N.eq_dec (h_seq h) 0) as [Hs|Hs].
    - unfold f_parse_qlt. rewrite Hs. cbn [N.eqb fst]. auto.
    - rewrite (parse_qlt_spec s h Hs). cbn [fst]. cbv zeta.
      destruct (set_active_frame s h) as (A & B & C & D).
      destruct (h_b0 h =? tlv_iconImage).
      + destruct (icon s) eqn:Ei.
        * cbn [with_seq see gen_t gen_q icon]. rewrite A, B, C, D. repeat split; auto.
        * destruct (g_icon g) eqn:Eg.
          -- cbn [with_icon with_seq see gen_t gen_q icon]. rewrite A, B, C. repeat split; auto.
          -- cbn [with_seq see gen_t gen_q icon]. rewrite A, B, C, D. repeat split; auto.
      + cbn [with_seq see gen_t gen_q icon]. rewrite A, B, C, D. repeat split; auto.
  Qed.

  (* what is served for the icon once it is cached does not depend on the platform any more *)
  Lemma data_for_cached s d0 :
    icon s = Some d0 -> data_for s tlv_iconImage = d0.
  Proof. clear Hmtu. intro H. unfold data_for. rewrite N.eqb_refl, H. reflexivity. Qed.

  (* a QueryLargeTlv frame leaves the bytes every type stands for unchanged *)
  Theorem C08_data_invariant s buf h ty :
    parse_hdr buf = Some h -> h_opc h = opcode_queryLargeTlv ->
    data_for (fst (step s buf)) ty = data_for s ty.
  Proof. clear Hmtu.
    intros Hp Ho.
    destruct (C08_step_frame s buf h Hp Ho) as (_ & _ & _ & [E | [E1 E2]]);
      unfold data_for.
    - rewrite E. reflexivity.
    - rewrite E1, E2. destruct (g_icon g); reflexivity.
  Qed.
  (* ---- the frame read back by the independent decoder ---- *)
  Theorem decode_qlt_frame h seq chunk more :
    seq < 65536 -> N.of_nat (length chunk) < 16384 ->
    decode_qlt (qlt_frame c h seq chunk more) = Some (seq, chunk, more).
  Proof. clear Hmtu.
    intros Hs Hc.
    set (w := N.of_nat (length chunk) + (if more then 32768 else 0)).
    assert (Hw : w < 65536) by (unfold w; destruct more; lia).
    assert (Hlen : w mod 16384 = N.of_nat (length chunk)) by (unfold w; destruct more; lia).
    assert (Hmore : (32768 <=? w) = more) by (unfold w; destruct more; lia).
    unfold decode_qlt. rewrite qlt_frame_length.
    unfold qlt_frame, header_bytes, mac_bytes, be16. fold w.
    cbn [app nth skipn].
    rewrite (be16_decode seq Hs), (be16_decode w Hw), Hlen, Hmore.
    unfold o. rewrite Nat2N.id, Nat.eqb_refl, firstn_all. reflexivity.
  Qed.

  (* every byte of the frame is a byte when its inputs are *)
  Lemma qlt_frame_bytes h seq chunk more :
    mac_ok (own c) -> mac_ok (reply_dst h) -> Forall (fun b => b < 256) chunk ->
    Forall (fun b => b < 256) (qlt_frame c h seq chunk more).
  Proof. clear Hmtu.
    intros (A0 & A1 & A2 & A3 & A4 & A5) (B0 & B1 & B2 & B3 & B4 & B5) Hc.
    unfold qlt_frame, header_bytes, mac_bytes, be16.
    unfold lltdEtherType, opcode_queryLargeTlvResp, tos_discovery.
    cbn [app].
    repeat (apply Forall_cons; [lia|]). exact Hc.
  Qed.

  (* under the MTU bounds every chunk fits the 14-bit length field *)
  Lemma chunk_small data off : N.of_nat (length (fst (chunk_spec data off))) < 16384.
  Proof.
    pose proof (C08_chunk_length data off) as H. rewrite P_val in H. lia.
  Qed.

  Corollary C08_step_decoded s buf h :
    parse_hdr buf = Some h -> is_discovery_tos (h_tos h) = true ->
    h_opc h = opcode_queryLargeTlv -> h_seq h <> 0 -> h_seq h < 65536 ->
    exists fr, snd (step s buf) = [Send ctx true fr] /\
               decode_qlt fr = Some (h_seq h,
                                     fst (chunk_spec (data_for s (h_b0 h)) (h_w1 h)),
                                     snd (chunk_spec (data_for s (h_b0 h)) (h_w1 h))).
  Proof.
    intros Hp Ht Ho Hs Hs'. eexists. split.
    - rewrite (C08_step s buf h Hp Ht Ho Hs). reflexivity.
    - apply decode_qlt_frame; [exact Hs' | apply chunk_small].
  Qed.

  (* ---- reassembly: the mapper's loop over the specification of one response ---- *)
  Fixpoint fetch (fuel : nat) (data : list N) (off : N) : option (list N) :=
    match fuel with
    | O => None
    | S f =>
      let '(ch, more) := chunk_spec data off in
      if more then
        match fetch f data (off + N.of_nat (length ch)) with
        | Some r => Some (ch ++ r)
        | None => None
        end
      else Some ch
    end.

  (* the offsets the loop asks for *)
  Fixpoint fetch_offs (fuel : nat) (data : list N) (off : N) : list N :=
    match fuel with
    | O => []
    | S f =>
      let '(ch, more) := chunk_spec data off in
      off :: (if more then fetch_offs f data (off + N.of_nat (length ch)) else [])
    end.

  Lemma P_pos : 0 < P.
  Proof. rewrite P_val. lia. Qed.

  Lemma skipn_chunk_join (data : list N) off :
    firstn (o P) (skipn (o off) data) ++ skipn (o (off + P)) data = skipn (o off) data.
  Proof. clear Hmtu.
    replace (o (off + P)) with (o off + o P)%nat by (unfold o; lia).
    rewrite skipn_add. apply firstn_skipn.
  Qed.

  Lemma fetch_skipn : forall fuel (data : list N) off,
    (length data - o off < fuel)%nat -> fetch fuel data off = Some (skipn (o off) data).
  Proof.
    induction fuel as [|f IH]; intros data off Hf; [lia|].
    cbn [fetch].
    destruct (N.ltb_spec (off + P) (N.of_nat (length data))) as [Hlt|Hge].
    - destruct (chunk_more data off Hlt) as [E L]. rewrite E, L.
      replace (N.of_nat (o P)) with P by (unfold o; lia).
      rewrite IH.
      + f_equal. apply skipn_chunk_join.
      + pose proof P_pos. unfold o in *. lia.
    - rewrite (chunk_last data off Hge). reflexivity.
  Qed.

  Theorem C08_reassemble data : fetch (S (length data)) data 0 = Some data.
  Proof. rewrite fetch_skipn; [reflexivity|]. unfold o. lia. Qed.

  (* any amount of fuel above the number of remaining bytes will do *)
  Corollary C08_reassemble_fuel data fuel :
    (length data < fuel)%nat -> fetch fuel data 0 = Some data.
  Proof. intro H. rewrite fetch_skipn; [reflexivity|]. unfold o. lia. Qed.

  (* the offsets asked for never pass the end of the property *)
  Lemma fetch_offs_le : forall fuel (data : list N) off,
    off <= N.of_nat (length data) ->
    Forall (fun x => x <= N.of_nat (length data)) (fetch_offs fuel data off).
  Proof. clear Hmtu.
    induction fuel as [|f IH]; intros data off Ho; [constructor|].
    cbn [fetch_offs].
    destruct (N.ltb_spec (off + P) (N.of_nat (length data))) as [Hlt|Hge].
    - destruct (chunk_more data off Hlt) as [E L]. rewrite E, L.
      constructor; [exact Ho|]. apply IH. unfold o. lia.
    - rewrite (chunk_last data off Hge). constructor; [exact Ho|constructor].
  Qed.

  Theorem C08_offsets_16bit data fuel :
    N.of_nat (length data) <= 65535 -> Forall (fun x => x < 65536) (fetch_offs fuel data 0).
  Proof. clear Hmtu.
    intro H. eapply Forall_impl; [|apply fetch_offs_le; lia].
    cbv beta. intros a Ha. lia.
  Qed.

  (* ---- end to end: the mapper drives [step] and decodes what it receives ---- *)
  Fixpoint mapper_fetch (fuel : nat) (req : N -> list N) (s : ist) (off : N) : option (list N) :=
    match fuel with
    | O => None
    | S f =>
      match step s (req off) with
      | (s', [Send _ _ fr]) =>
        match decode_qlt fr with
        | Some (_, ch, more) =>
          if more then
            match mapper_fetch f req s' (off + N.of_nat (length ch)) with
            | Some r => Some (ch ++ r)
            | None => None
            end
          else Some ch
        | None => None
        end
      | _ => None
      end
    end.

  (* a family of requests for type [ty], one per offset up to [lim] *)
  Definition requests_ok (req : N -> list N) (ty lim : N) : Prop :=
    forall off, off <= lim ->
      exists h, parse_hdr (req off) = Some h /\ is_discovery_tos (h_tos h) = true /\
                h_opc h = opcode_queryLargeTlv /\ h_seq h <> 0 /\ h_seq h < 65536 /\
                h_b0 h = ty /\ h_w1 h = off.

  Lemma mapper_fetch_skipn ty req data :
    requests_ok req ty (N.of_nat (length data)) ->
    forall fuel s off,
      data_for s ty = data -> off <= N.of_nat (length data) ->
      (length data - o off < fuel)%nat ->
      mapper_fetch fuel req s off = Some (skipn (o off) data).
  Proof.
    intros Hreq. induction fuel as [|f IH]; intros s off Hd Ho Hf; [lia|].
    destruct (Hreq off Ho) as (h & Hp & Ht & Hop & Hs & Hs' & Hb & Hw).
    destruct (C08_step_decoded s (req off) h Hp Ht Hop Hs Hs') as (fr & Hsnd & Hdec).
    pose proof (C08_data_invariant s (req off) h ty Hp Hop) as Hinv.
    cbn [mapper_fetch].
    destruct (step s (req off)) as [s' acts]. cbn [fst snd] in Hsnd, Hinv. subst acts.
    rewrite Hdec, Hb, Hw, Hd.
    destruct (N.ltb_spec (off + P) (N.of_nat (length data))) as [Hlt|Hge].
    - destruct (chunk_more data off Hlt) as [E L]. rewrite E. cbn [fst snd]. rewrite L.
      replace (N.of_nat (o P)) with P by (unfold o; lia).
      rewrite IH.
      + f_equal. apply skipn_chunk_join.
      + rewrite Hinv. exact Hd.
      + lia.
      + pose proof P_pos. unfold o in *. lia.
    - rewrite (chunk_last data off Hge). reflexivity.
  Qed.

  Theorem C08_fetch_steps s ty req :
    requests_ok req ty (N.of_nat (length (data_for s ty))) ->
    mapper_fetch (S (length (data_for s ty))) req s 0 = Some (data_for s ty).
  Proof.
    intro Hreq.
    rewrite (mapper_fetch_skipn ty req (data_for s ty) Hreq); [reflexivity|reflexivity|lia|].
    unfold o. lia.
  Qed.

  (* ... with the requests as they stand on the wire *)
  Corollary C08_fetch_wire s ty esrc edst rsrc rdst seq :
    0 < seq < 65536 -> N.of_nat (length (data_for s ty)) <= 65535 ->
    mapper_fetch (S (length (data_for s ty))) (qlt_request esrc edst rsrc rdst seq ty) s 0
    = Some (data_for s ty).
  Proof.
    intros Hseq Hlen. apply C08_fetch_steps. intros off Ho.
    destruct (parse_qlt_request esrc edst rsrc rdst seq ty off) as
      (h & Hp & Ht & Hop & Hs & Hb & Hw & _); [lia|lia|].
    exists h. rewrite Ht, Hs. repeat split; try assumption; try lia; reflexivity.
  Qed.
End C08.

(* ------------------------------------------------------------------------ *)
(* concrete instances: the hypotheses are satisfiable, the loop runs          *)
(* ------------------------------------------------------------------------ *)
Definition ex_data : list N := map (fun n => N.of_nat (n mod 251)) (seq 0 1300).
Definition ex_own : mac := Mac 2 0 0 0 0 1.
Definition ex_mapper : mac := Mac 2 0 0 0 0 9.
Definition ex_c : pcfg :=
  {| c_rxsize := 1500; c_mtu := Some 576; c_mac := Some ex_own; c_flags := 0; c_iftype := Some 6;
     c_ipv4 := None; c_ipv6 := None; c_speed := None; c_wifi := None; c_bssid := None; c_ssid := [];
     c_rate := None; c_rssi := None |}.
Definition ex_g : gcfg :=
  {| g_host := [104; 111]; g_icon := Some ex_data; g_fname := Some [70; 0; 111; 0; 111; 0];
     g_hwid := [65; 0; 66; 0; 0; 0; 67; 0]; g_retfull := false |}.
Definition ex_req (ty off : N) : list N := qlt_request ex_mapper ex_own ex_mapper ex_own 5 ty off.

(* 1300 bytes at MTU 576 (542 bytes a response): three requests *)
Example ex_fetch : fetch 576 (S (length ex_data)) ex_data 0 = Some ex_data.
Proof. vm_compute. reflexivity. Qed.
Example ex_fetch_offs : fetch_offs 576 (S (length ex_data)) ex_data 0 = [0; 542; 1084].
Proof. vm_compute. reflexivity. Qed.
Example ex_chunk_mid :
  chunk_spec 576 ex_data 542 = (firstn 542 (skipn 542 ex_data), true).
Proof. vm_compute. reflexivity. Qed.
Example ex_chunk_end : chunk_spec 576 ex_data 1300 = ([], false).
Proof. vm_compute. reflexivity. Qed.

(* the hypotheses of C08_step hold of a concrete request *)
Example ex_step_hyps :
  exists h, parse_hdr (ex_req tlv_iconImage 542) = Some h /\ is_discovery_tos (h_tos h) = true /\
            h_opc h = opcode_queryLargeTlv /\ h_seq h <> 0 /\ h_seq h < 65536 /\
            h_b0 h = tlv_iconImage /\ h_w1 h = 542 /\
            data_for ex_g fresh (h_b0 h) = ex_data.
Proof.
  eexists. split; [vm_compute; reflexivity|]. cbn [h_tos h_opc h_seq h_b0 h_w1].
  repeat split; try (vm_compute; congruence).
Qed.

(* the same request through the model and the decoder *)
Example ex_step_decode :
  match f_step 7 ex_c ex_g 576 fresh (ex_req tlv_iconImage 542) with
  | (s', [Send 7 true fr]) =>
    icon s' = Some ex_data /\ known s' = true /\ mreal s' = ex_mapper /\ mseq s' = 5 /\
    decode_qlt fr = Some (5, firstn 542 (skipn 542 ex_data), true) /\
    firstn 12 fr = mac_bytes ex_mapper ++ mac_bytes ex_own /\ length fr = 576%nat
  | _ => False
  end.
Proof. vm_compute. repeat split; reflexivity. Qed.

(* the whole loop through the model, for each kind of property *)
Example ex_mapper_icon :
  mapper_fetch 7 ex_c ex_g 576 (S (length ex_data)) (ex_req tlv_iconImage) fresh 0 = Some ex_data.
Proof. vm_compute. reflexivity. Qed.
Example ex_mapper_fname :
  mapper_fetch 7 ex_c ex_g 576 7 (ex_req tlv_friendlyName) fresh 0 = Some [70; 0; 111; 0; 111; 0].
Proof. vm_compute. reflexivity. Qed.
Example ex_mapper_hwid :
  mapper_fetch 7 ex_c ex_g 576 5 (ex_req tlv_hwIdProperty) fresh 0 = Some [65; 0; 66; 0].
Proof. vm_compute. reflexivity. Qed.
Example ex_mapper_unknown :
  mapper_fetch 7 ex_c ex_g 576 1 (ex_req 99) fresh 0 = Some [].
Proof. vm_compute. reflexivity. Qed.
Example ex_hwid : hwid_value ex_g = [65; 0; 66; 0] /\ length (hwid_scratch ex_g) = 64%nat.
Proof. vm_compute. split; reflexivity. Qed.
(* the general theorem instantiated *)
Example ex_fetch_wire :
  mapper_fetch 7 ex_c ex_g 576 (S (length (data_for ex_g fresh tlv_iconImage)))
               (ex_req tlv_iconImage) fresh 0 = Some (data_for ex_g fresh tlv_iconImage).
Proof. apply C08_fetch_wire; [lia | lia | vm_compute; congruence]. Qed.

Print Assumptions C08_reply.
Print Assumptions C08_step.
Print Assumptions C08_reassemble.
Print Assumptions decode_qlt_frame.
Print Assumptions C08_hwid_prefix.
Print Assumptions C08_fetch_steps.
Print Assumptions C08_fetch_wire.
Print Assumptions C08_icon_cached.
Print Assumptions C08_data_invariant.
Print Assumptions C08_offsets_16bit.
