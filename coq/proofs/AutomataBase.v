(* AutomataBase.v - generic facts about the table walk, the time-out pass and the tick. *)
From LLTD Require Import Automata.
From Coq Require Import Lia ZifyBool ZifyN ZifyNat.
Ltac Zify.zify_post_hook ::= Z.div_mod_to_equations.
Local Open Scope N_scope.

(* ---------- generic facts about the table walk ---------- *)
Lemma lookup_not_in tbl cur input acc :
  (forall f t w, In (f, t, w) tbl -> w <> input) -> lookup tbl cur input acc = acc.
Proof.
  revert acc; induction tbl as [|[[f t] w] r IH]; intros acc H; cbn [lookup]; [reflexivity|].
  rewrite IH by (intros f' t' w' Hin; eapply H; right; exact Hin).
  destruct (Z.eqb_spec w input) as [e|ne]; [exfalso; eapply H; [left; reflexivity|exact e]|].
  now rewrite andb_false_r.
Qed.

Lemma diff_small now last : last <= now -> now < W64 -> (now + W64 - last) mod W64 = now - last.
Proof. unfold W64. intros. replace (now + 18446744073709551616 - last) with ((now - last) + 1 * 18446744073709551616) by lia.
  rewrite N.mod_add by lia. apply N.mod_small. lia. Qed.

(* what switch_timed computes, with the elapsed time made explicit *)
Definition timed_out (tmo : list Z) (cur : N) (elapsed : N) : bool :=
  negb (timeout_of tmo cur =? 0)%Z && (u64_of_Z (timeout_of tmo cur) <? elapsed).
Lemma switch_timed_spec tbl tmo a now input :
  a_last a <= now -> now < W64 ->
  switch_timed tbl tmo a now input =
  {| a_cur := if timed_out tmo (a_cur a) (now - a_last a)
              then next_state tbl (next_state tbl (a_cur a) (-1)%Z) (-1)%Z
              else next_state tbl (a_cur a) input;
     a_last := now |}.
Proof.
  intros H1 H2. unfold switch_timed. rewrite diff_small by assumption. unfold pass, timed_out.
  destruct (negb (timeout_of tmo (a_cur a) =? 0)%Z && (u64_of_Z (timeout_of tmo (a_cur a)) <? now - a_last a)) eqn:E.
  - cbn [fst]. set (s1 := next_state tbl (a_cur a) (-1)%Z).
    replace (negb (timeout_of tmo s1 =? 0)%Z && (u64_of_Z (timeout_of tmo s1) <? 0)) with false; [reflexivity|].
    destruct (u64_of_Z (timeout_of tmo s1) <? 0) eqn:E0; [lia|]. now rewrite andb_false_r.
  - reflexivity.
Qed.

(* the 30 s inactivity deadline handled by the tick *)
Lemma st_clear_empty t : st_is_empty (st_clear t) = true /\ t_allc (st_clear t) = true.
Proof. unfold st_clear, st_is_empty; cbn. auto. Qed.

Lemma expire_slot0 now n c : expire now (repeat slot0 n) c = (repeat slot0 n, c).
Proof. induction n as [|n IH]; cbn [repeat expire]; [reflexivity|]. cbn [slot0 s_valid andb]. rewrite IH. reflexivity. Qed.

(* the tick never faults; what it does to the mapping automaton, the timers and the table *)
Lemma tick_shape (ctx : N) (a : aset) (w : world) :
  let ns := w_now w / 1000 in
  exists a' w', tick ctx a w = Ok a' w' /\
    a_map a' = a_map (tick_mapping ns a) /\ a_mst a' = a_mst (tick_mapping ns a) /\
    a_sess a' = a_sess a /\
    a_tbl a' = tick_table ns (a_tbl (tick_mapping ns a)) /\
    w_now w' = w_now w /\ w_live w' = w_live w /\ w_bytes w' = w_bytes w.
Proof.
  cbv zeta. unfold tick, bind, now_ms. cbn [w_now].
  set (ns := w_now w / 1000).
  assert (Hs : a_sess (tick_mapping ns a) = a_sess a).
  { unfold tick_mapping. destruct (map_inactive_due ns (a_mst a)); reflexivity. }
  remember (tick_mapping ns a) as a1 eqn:Ea1. clear Ea1.
  destruct (tick_enum_state ns (a_enum a1) (a_band a1) (tick_table ns (a_tbl a1))) as [e b].
  destruct (a_cur e =? 1).
  - destruct (tick_hello (w_now w) ns e b (a_ltx a1)) as [[[e2 b2] ltx] tx].
    destruct tx; unfold act, ret; eexists _, _; (split; [reflexivity|]); cbn; rewrite Hs; repeat split; reflexivity.
  - unfold ret; eexists _, _; (split; [reflexivity|]); cbn; rewrite Hs; repeat split; reflexivity.
Qed.

