(* TableProofs.v - C16: the 16-slot session table refines a dictionary keyed by
   (mapper address, generation).  The abstract view of a table is the list of
   its live sessions, [live t]; every operation is characterised on that view,
   and the bookkeeping fields (count, all_complete) are shown to be functions
   of it in every reachable table. *)
From LLTD Require Import Automata.
From Coq Require Import Lia ZifyBool ZifyN ZifyNat Permutation.
Local Open Scope N_scope.

(* ---------- addresses ---------- *)
Lemma mac_eqb_refl m : mac_eqb m m = true.
Proof. unfold mac_eqb. rewrite !N.eqb_refl. reflexivity. Qed.
Lemma mac_eqb_eq a b : mac_eqb a b = true <-> a = b.
Proof.
  split; [|intros ->; apply mac_eqb_refl].
  unfold mac_eqb. destruct a, b; cbn. rewrite !andb_true_iff, !N.eqb_eq. intros (((((?&?)&?)&?)&?)&?). congruence.
Qed.
Lemma mac_eqb_sym a b : mac_eqb a b = mac_eqb b a.
Proof. destruct (mac_eqb a b) eqn:E1, (mac_eqb b a) eqn:E2; try reflexivity.
  - apply mac_eqb_eq in E1. subst. rewrite mac_eqb_refl in E2. discriminate.
  - apply mac_eqb_eq in E2. subst. rewrite mac_eqb_refl in E1. discriminate. Qed.

(* ---------- list surgery ---------- *)
Section Lists.
  Context {A : Type}.
  Lemma find_idx_some (p : A -> bool) l i :
    find_idx p l = Some i ->
    exists l1 x l2, l = l1 ++ x :: l2 /\ length l1 = i /\ p x = true /\ forallb (fun y => negb (p y)) l1 = true.
  Proof.
    revert i; induction l as [|y r IH]; intros i H; cbn [find_idx] in H; [discriminate|].
    destruct (p y) eqn:E.
    - inversion H; subst. exists [], y, r. cbn. auto.
    - destruct (find_idx p r) as [j|] eqn:Ej; [|discriminate]. inversion H; subst.
      destruct (IH j eq_refl) as (l1 & x & l2 & -> & Hl & Hp & Hn).
      exists (y :: l1), x, l2. cbn. rewrite E, Hn, Hl. auto.
  Qed.
  Lemma find_idx_none (p : A -> bool) l : find_idx p l = None -> forallb (fun y => negb (p y)) l = true.
  Proof.
    induction l as [|y r IH]; intros H; cbn [find_idx] in H; [reflexivity|].
    destruct (p y) eqn:E; [discriminate|]. destruct (find_idx p r); [discriminate|]. cbn. rewrite E, IH; auto.
  Qed.
  Lemma upd_nth_app (l1 : list A) x l2 f : upd_nth (l1 ++ x :: l2) (length l1) f = l1 ++ f x :: l2.
  Proof. induction l1 as [|y r IH]; cbn; [reflexivity|]. rewrite IH. reflexivity. Qed.
  Lemma upd_nth_length (l : list A) i f : length (upd_nth l i f) = length l.
  Proof. revert i; induction l as [|y r IH]; intros [|i]; cbn; auto. Qed.
  Lemma filter_none (p : A -> bool) l : forallb (fun y => negb (p y)) l = true -> filter p l = [].
  Proof. induction l as [|y r IH]; cbn; [reflexivity|]. intros H. apply andb_prop in H as [H1 H2]. destruct (p y); [discriminate|auto]. Qed.
  Lemma filter_length_le (p : A -> bool) l : (length (filter p l) <= length l)%nat.
  Proof. induction l as [|y r IH]; cbn; [lia|]. destruct (p y); cbn; lia. Qed.
  Lemma filter_all (p : A -> bool) l : forallb p l = true -> filter p l = l.
  Proof. induction l as [|y r IH]; cbn; [reflexivity|]. intros H. apply andb_prop in H as [H1 H2]. rewrite H1, IH; auto. Qed.
End Lists.

(* ---------- the abstract view ---------- *)
Definition live (l : list slot) : list slot := filter s_valid l.
Definition key_is (m : mac) (g : N) (s : slot) : bool := mac_eqb (s_mac s) m && (s_gen s =? g).
Definition keys (l : list slot) : list (mac * N) := map (fun s => (s_mac s, s_gen s)) l.
(* dictionary lookup *)
Definition dget (l : list slot) (m : mac) (g : N) : option slot := find (key_is m g) (live l).

Lemma key_is_eq m g s : key_is m g s = true <-> (s_mac s, s_gen s) = (m, g).
Proof. unfold key_is. rewrite andb_true_iff, mac_eqb_eq, N.eqb_eq. split; [intros [-> ->]; reflexivity|intros H; inversion H; auto]. Qed.
Lemma slot_match_split m g s : slot_match m g s = s_valid s && key_is m g s.
Proof. unfold slot_match, key_is. rewrite andb_assoc. reflexivity. Qed.

Lemma live_app a b : live (a ++ b) = live a ++ live b. Proof. apply filter_app. Qed.
Lemma live_cons s l : live (s :: l) = if s_valid s then s :: live l else live l. Proof. reflexivity. Qed.
Lemma keys_app a b : keys (a ++ b) = keys a ++ keys b. Proof. apply map_app. Qed.

(* no slot before the first match matches: neither does any live one *)
Lemma nomatch_live m g l :
  forallb (fun y => negb (slot_match m g y)) l = true -> forallb (fun y => negb (key_is m g y)) (live l) = true.
Proof.
  induction l as [|y r IH]; cbn; [reflexivity|]. intros H. apply andb_prop in H as [H1 H2].
  rewrite slot_match_split in H1. destruct (s_valid y); cbn in *; [rewrite H1|]; auto.
Qed.
Lemma find_none_forall {A} (p : A -> bool) l : forallb (fun y => negb (p y)) l = true -> find p l = None.
Proof. induction l as [|y r IH]; cbn; [reflexivity|]. intros H. apply andb_prop in H as [H1 H2]. destruct (p y); [discriminate|auto]. Qed.
Lemma find_app_skip {A} (p : A -> bool) a b : forallb (fun y => negb (p y)) a = true -> find p (a ++ b) = find p b.
Proof. induction a as [|y r IH]; cbn; [reflexivity|]. intros H. apply andb_prop in H as [H1 H2]. destruct (p y); [discriminate|auto]. Qed.

(* ---------- session_table_find ---------- *)
Theorem st_find_some t m g i :
  st_find t m g = Some i ->
  exists l1 s l2, t_slots t = l1 ++ s :: l2 /\ length l1 = i /\ s_valid s = true /\ key_is m g s = true
                  /\ dget (t_slots t) m g = Some s
                  /\ forallb (fun y => negb (slot_match m g y)) l1 = true.
Proof.
  unfold st_find. intros H. destruct (find_idx_some _ _ _ H) as (l1 & s & l2 & E & Hl & Hp & Hn).
  rewrite slot_match_split in Hp. apply andb_prop in Hp as [Hv Hk].
  exists l1, s, l2. repeat split; auto.
  unfold dget. rewrite E, live_app. rewrite find_app_skip by (apply nomatch_live; exact Hn).
  rewrite ?live_cons. rewrite Hv. cbn [find]. rewrite Hk. reflexivity.
Qed.
Theorem st_find_none t m g : st_find t m g = None -> dget (t_slots t) m g = None.
Proof. unfold st_find, dget. intros H. apply find_none_forall, nomatch_live, find_idx_none, H. Qed.

(* ---------- the invariant ---------- *)
Record Inv (t : stable) : Prop := {
  inv_len : length (t_slots t) = N.to_nat SESSION_TABLE_MAX_ENTRIES;
  inv_nodup : NoDup (keys (live (t_slots t)));
  inv_count : t_count t = N.of_nat (length (live (t_slots t)));
  inv_allc : t_allc t = forallb s_complete (live (t_slots t))
}.

Lemma all_complete_live l : all_complete l = forallb s_complete (live l).
Proof. unfold all_complete. induction l as [|y r IH]; cbn; [reflexivity|]. destruct (s_valid y); cbn; rewrite IH; reflexivity. Qed.
Lemma live_length_le l : (length (live l) <= length l)%nat. Proof. apply filter_length_le. Qed.
Lemma live_repeat0 n : live (repeat slot0 n) = [].
Proof. induction n; cbn; auto. Qed.

Theorem inv_table0 : Inv table0.
Proof. split; cbn [table0 t_slots t_count t_allc]; rewrite ?live_repeat0; cbn; auto using repeat_length; constructor. Qed.

Theorem inv_bound t : Inv t -> t_count t <= SESSION_TABLE_MAX_ENTRIES /\ (length (live (t_slots t)) <= 16)%nat.
Proof. intros [Hl _ Hc _]. pose proof (live_length_le (t_slots t)) as H. rewrite Hl in H. change (N.to_nat SESSION_TABLE_MAX_ENTRIES) with 16%nat in H.
  change SESSION_TABLE_MAX_ENTRIES with 16. lia. Qed.

(* is_empty and all_complete report what the live sessions imply *)
Theorem st_is_empty_spec t : Inv t -> (st_is_empty t = true <-> live (t_slots t) = []).
Proof. intros I. unfold st_is_empty. rewrite (inv_count t I). split; intros H.
  - destruct (live (t_slots t)); [reflexivity|cbn in H; lia].
  - rewrite H. reflexivity. Qed.
Theorem st_allc_spec t : Inv t -> t_allc t = forallb s_complete (live (t_slots t)).
Proof. intros I. apply inv_allc, I. Qed.

(* ---------- session_table_clear ---------- *)
Theorem st_clear_spec t : Inv t -> Inv (st_clear t) /\ live (t_slots (st_clear t)) = [].
Proof. intros I. split; [|cbn; apply live_repeat0].
  split; cbn [st_clear t_slots t_count t_allc]; rewrite ?live_repeat0; cbn; auto; [rewrite repeat_length; apply I|constructor]. Qed.

(* ---------- session_table_update_complete_status ---------- *)
Lemma st_update_status_inv t :
  length (t_slots t) = N.to_nat SESSION_TABLE_MAX_ENTRIES -> NoDup (keys (live (t_slots t))) ->
  t_count t = N.of_nat (length (live (t_slots t))) -> Inv (st_update_status t).
Proof. intros. split; cbn [st_update_status t_slots t_count t_allc]; auto. apply all_complete_live. Qed.

(* helper: a key absent from a list of live slots *)
Lemma notin_keys m g l : forallb (fun y => negb (key_is m g y)) l = true -> ~ In (m, g) (keys l).
Proof.
  induction l as [|y r IH]; cbn; [tauto|]. intros H. apply andb_prop in H as [H1 H2]. intros [E|E]; [|exact (IH H2 E)].
  assert (K : key_is m g y = true) by (apply key_is_eq; exact E). rewrite K in H1. discriminate.
Qed.

(* ---------- session_table_add ---------- *)
Definition refresh (seq now : N) (s : slot) : slot :=
  {| s_mac := s_mac s; s_gen := s_gen s; s_seq := seq; s_state := s_state s; s_complete := s_complete s;
     s_valid := s_valid s; s_last := now; s_created := s_created s |}.
Definition new_slot (m : mac) (g seq now : N) : slot :=
  {| s_mac := m; s_gen := g; s_seq := seq; s_state := sess_discover_noack; s_complete := false;
     s_valid := true; s_last := now; s_created := now |}.

(* adding a known session refreshes it in place *)
Theorem st_add_existing t now m g seq s :
  Inv t -> dget (t_slots t) m g = Some s ->
  exists l1 l2 i, live (t_slots t) = l1 ++ s :: l2 /\
    st_add t now m g seq = ({| t_slots := t_slots (fst (st_add t now m g seq)); t_count := t_count t; t_allc := t_allc t |}, Some i) /\
    live (t_slots (fst (st_add t now m g seq))) = l1 ++ refresh seq now s :: l2 /\
    Inv (fst (st_add t now m g seq)).
Proof.
  intros I D. unfold st_add. destruct (st_find t m g) as [i|] eqn:F.
  - destruct (st_find_some _ _ _ _ F) as (a & s' & b & E & Hl & Hv & Hk & D' & Hn).
    rewrite D in D'. inversion D'; subst s'. clear D'.
    exists (live a), (live b), i. cbn [fst t_slots].
    rewrite E, <- Hl, upd_nth_app. fold (refresh seq now s).
    rewrite ?live_app. rewrite ?live_cons. rewrite Hv. cbn [refresh s_valid]. rewrite Hv.
    split; [reflexivity|]. split; [rewrite Hl; reflexivity|]. split; [reflexivity|].
    destruct I as [I1 I2 I3 I4]. rewrite E in *. rewrite !live_app in *. rewrite ?live_cons in *. rewrite Hv in *.
    split; cbn [t_slots t_count t_allc].
    + rewrite app_length in *. cbn [length] in *. exact I1.
    + rewrite ?live_app. rewrite ?live_cons; cbn [refresh s_valid]. rewrite Hv. rewrite keys_app in *. cbn [keys map refresh s_mac s_gen] in *. exact I2.
    + rewrite ?live_app. rewrite ?live_cons; cbn [refresh s_valid]. rewrite Hv. rewrite !app_length in *. cbn [length] in *. exact I3.
    + rewrite ?live_app. rewrite ?live_cons; cbn [refresh s_valid]. rewrite Hv. rewrite !forallb_app in *. cbn [forallb refresh s_complete] in *. exact I4.
  - apply st_find_none in F. rewrite F in D. discriminate.
Qed.

(* adding an unknown session to a table with room inserts it; a full table refuses and is untouched *)
Theorem st_add_new t now m g seq :
  Inv t -> dget (t_slots t) m g = None ->
  let r := st_add t now m g seq in
  ((length (live (t_slots t)) < 16)%nat ->
     exists l1 l2 i, live (t_slots t) = l1 ++ l2 /\ snd r = Some i /\
       live (t_slots (fst r)) = l1 ++ new_slot m g seq now :: l2 /\
       t_count (fst r) = t_count t + 1 /\ Inv (fst r)) /\
  ((length (live (t_slots t)) = 16)%nat -> r = (t, None)).
Proof.
  intros I D. cbv zeta. unfold st_add.
  destruct (st_find t m g) as [i|] eqn:F.
  { destruct (st_find_some _ _ _ _ F) as (a & s' & b & E & Hl & Hv & Hk & D' & Hn). rewrite D in D'. discriminate. }
  assert (Habs : forallb (fun y => negb (key_is m g y)) (live (t_slots t)) = true).
  { apply nomatch_live, find_idx_none. exact F. }
  destruct (find_idx (fun s => negb (s_valid s)) (t_slots t)) as [j|] eqn:Fj.
  - destruct (find_idx_some _ _ _ Fj) as (a & x & b & E & Hl & Hx & Hn).
    apply negb_true_iff in Hx.
    assert (Ha : live a = a).
    { apply filter_all. rewrite forallb_forall in *. intros y Hy. specialize (Hn y Hy). rewrite negb_involutive in Hn. exact Hn. }
    split.
    + intros _. exists (live a), (live b), j. cbn [fst snd t_slots t_count].
      rewrite E, <- Hl, upd_nth_app. fold (new_slot m g seq now). rewrite ?live_app. rewrite ?live_cons. rewrite Hx. cbn [new_slot s_valid].
      split; [reflexivity|]. split; [rewrite Hl; reflexivity|]. split; [reflexivity|].
      destruct I as [I1 I2 I3 I4]. rewrite E in *. rewrite !live_app in *. rewrite ?live_cons in *. rewrite Hx in *.
      pose proof (live_length_le a) as La. pose proof (live_length_le b) as Lb.
      rewrite app_length in I1. cbn [length] in I1. change (N.to_nat SESSION_TABLE_MAX_ENTRIES) with 16%nat in I1.
      assert (Hc : (t_count t + 1) mod 256 = t_count t + 1).
      { apply N.mod_small. rewrite I3, app_length. lia. }
      split; [exact Hc|].
      split; cbn [t_slots t_count t_allc].
      * rewrite app_length. cbn [length]. change (N.to_nat SESSION_TABLE_MAX_ENTRIES) with 16%nat. exact I1.
      * rewrite ?live_app. rewrite ?live_cons; cbn [new_slot s_valid]. rewrite keys_app in *. cbn [keys map new_slot s_mac s_gen].
        apply (proj2 (NoDup_Add (Add_app (m, g) (keys (live a)) (keys (live b))))).
        split; [exact I2|]. rewrite <- keys_app. apply notin_keys. exact Habs.
      * rewrite Hc, !live_app. rewrite ?live_cons; cbn [new_slot s_valid]. rewrite I3, !app_length. cbn [length]. lia.
      * rewrite ?live_app. rewrite ?live_cons; cbn [new_slot s_valid]. rewrite forallb_app. cbn [forallb new_slot s_complete]. rewrite andb_false_r. reflexivity.
    + intros H16. exfalso.
      destruct I as [I1 _ _ _]. rewrite E in *. rewrite live_app in H16. rewrite ?live_cons in H16. rewrite Hx in H16.
      rewrite app_length in *. cbn [length] in I1. change (N.to_nat SESSION_TABLE_MAX_ENTRIES) with 16%nat in I1.
      pose proof (live_length_le a). pose proof (live_length_le b). lia.
  - split; [|reflexivity]. intros Hlt. exfalso.
    apply find_idx_none in Fj.
    assert (Hall : live (t_slots t) = t_slots t).
    { apply filter_all. rewrite forallb_forall in *. intros y Hy. specialize (Fj y Hy). rewrite negb_involutive in Fj. exact Fj. }
    rewrite Hall in Hlt. rewrite (inv_len t I) in Hlt. change (N.to_nat SESSION_TABLE_MAX_ENTRIES) with 16%nat in Hlt. lia.
Qed.

(* ---------- session_table_remove ---------- *)
Lemma filter_notkey_id m g l :
  forallb (fun y => negb (key_is m g y)) l = true -> filter (fun y => negb (key_is m g y)) l = l.
Proof. apply filter_all. Qed.

Theorem st_remove_spec t m g :
  Inv t ->
  Inv (st_remove t m g) /\
  live (t_slots (st_remove t m g)) = filter (fun y => negb (key_is m g y)) (live (t_slots t)).
Proof.
  intros I. unfold st_remove. destruct (st_find t m g) as [i|] eqn:F.
  - destruct (st_find_some _ _ _ _ F) as (a & s & b & E & Hl & Hv & Hk & D & Hn).
    cbn [st_update_status t_slots]. rewrite E, <- Hl, upd_nth_app.
    destruct I as [I1 I2 I3 I4]. rewrite E in *. rewrite !live_app in *. rewrite ?live_cons in *; cbn [invalidate s_valid] in *. rewrite Hv in *.
    rewrite keys_app in I2. cbn [keys map] in I2. apply NoDup_remove in I2 as [I2 I2'].
    assert (Ka : forallb (fun y => negb (key_is m g y)) (live a) = true) by (apply nomatch_live; exact Hn).
    assert (Kb : forallb (fun y => negb (key_is m g y)) (live b) = true).
    { rewrite forallb_forall. intros y Hy. destruct (key_is m g y) eqn:Ky; [|reflexivity]. exfalso. apply I2'.
      apply in_or_app. right. apply key_is_eq in Ky. apply key_is_eq in Hk. rewrite Hk, <- Ky.
      change (s_mac y, s_gen y) with ((fun s => (s_mac s, s_gen s)) y). apply in_map. exact Hy. }
    split.
    + apply st_update_status_inv; cbn [t_slots t_count].
      * rewrite app_length in *. cbn [length] in *. exact I1.
      * rewrite ?live_app. rewrite ?live_cons; cbn [invalidate s_valid]. rewrite keys_app. exact I2.
      * rewrite ?live_app. rewrite ?live_cons; cbn [invalidate s_valid]. unfold dec_count. rewrite I3, !app_length. cbn [length].
        destruct (0 <? _) eqn:E0; lia.
    + rewrite ?live_app. rewrite ?live_cons; cbn [invalidate s_valid]. rewrite !filter_app. cbn [filter]. rewrite Hk. cbn [negb].
      rewrite !filter_notkey_id by assumption. reflexivity.
  - split.
    + destruct I as [I1 I2 I3 I4]. apply st_update_status_inv; assumption.
    + cbn [st_update_status t_slots]. symmetry. apply filter_notkey_id, nomatch_live, find_idx_none. exact F.
Qed.

(* ---------- completion update ---------- *)
Definition mark (v : bool) (s : slot) : slot :=
  {| s_mac := s_mac s; s_gen := s_gen s; s_seq := s_seq s; s_state := s_state s; s_complete := v;
     s_valid := s_valid s; s_last := s_last s; s_created := s_created s |}.
Theorem st_set_complete_spec t m g v :
  Inv t -> let t' := fst (st_set_complete t m g v) in
  Inv t' /\ keys (live (t_slots t')) = keys (live (t_slots t)) /\
  (forall s, dget (t_slots t) m g = Some s -> dget (t_slots t') m g = Some (mark v s)) /\
  (dget (t_slots t) m g = None -> live (t_slots t') = live (t_slots t)).
Proof.
  intros I. cbv zeta. unfold st_set_complete. destruct (st_find t m g) as [i|] eqn:F.
  - destruct (st_find_some _ _ _ _ F) as (a & s & b & E & Hl & Hv & Hk & D & Hn).
    cbn [fst st_update_status t_slots]. rewrite E, <- Hl, upd_nth_app. fold (mark v s).
    destruct I as [I1 I2 I3 I4]. rewrite E in *. rewrite !live_app in *. rewrite ?live_cons in *. rewrite Hv in *.
    assert (Ks : keys (live a ++ mark v s :: live b) = keys (live a ++ s :: live b)).
    { rewrite !keys_app. reflexivity. }
    split; [|split; [|split]].
    + apply st_update_status_inv; cbn [t_slots t_count]; rewrite ?live_app; rewrite ?live_cons; cbn [mark s_valid]; rewrite ?Hv.
      * rewrite app_length in *. cbn [length] in *. exact I1.
      * rewrite Ks. exact I2.
      * rewrite I3, !app_length. reflexivity.
    + rewrite ?live_app. rewrite ?live_cons; cbn [mark s_valid]. rewrite Hv. exact Ks.
    + intros s0 D0. unfold dget in *. rewrite ?live_app in *. rewrite ?live_cons in *; cbn [mark s_valid] in *. rewrite Hv in *.
      rewrite find_app_skip in * by (apply nomatch_live; exact Hn). cbn [find] in *.
      assert (Hk' : key_is m g (mark v s) = true) by exact Hk. rewrite Hk'. rewrite Hk in D0. inversion D0. reflexivity.
    + intros D0. rewrite D0 in D. discriminate.
  - cbn [fst st_update_status t_slots]. destruct I as [I1 I2 I3 I4].
    split; [apply st_update_status_inv; assumption|]. split; [reflexivity|]. split; [|reflexivity].
    intros s D0. apply st_find_none in F. rewrite F in D0. discriminate.
Qed.

(* ---------- the expiry sweep of the tick ---------- *)
Definition fresh_at (now_s : N) (s : slot) : bool := negb (s_last s + 60 <? now_s).
Lemma expire_spec now_s l : forall c,
  (length (live l) <= N.to_nat c)%nat ->
  let r := expire now_s l c in
  length (fst r) = length l /\ live (fst r) = filter (fresh_at now_s) (live l) /\
  snd r = c - N.of_nat (length (live l) - length (filter (fresh_at now_s) (live l))).
Proof.
  induction l as [|y r IH]; intros c Hc.
  - cbn. repeat split; lia.
  - cbn [expire]. rewrite live_cons in Hc |- *. destruct (s_valid y) eqn:Hv; cbn [andb].
    + cbn [length] in Hc. destruct (s_last y + 60 <? now_s) eqn:Ex.
      * assert (Hf : fresh_at now_s y = false) by (unfold fresh_at; rewrite Ex; reflexivity).
        assert (Hd : (length (live r) <= N.to_nat (dec_count c))%nat) by (unfold dec_count; destruct (0 <? c) eqn:E0; lia).
        specialize (IH (dec_count c) Hd). destruct (expire now_s r (dec_count c)) as [r' c'] eqn:Er.
        destruct IH as (H1 & H2 & H3). cbn [fst snd] in *.
        rewrite live_cons. cbn [invalidate s_valid filter length]. rewrite Hf.
        split; [lia|]. split; [exact H2|]. rewrite H3. unfold dec_count. destruct (0 <? c) eqn:E0; [|lia].
        pose proof (filter_length_le (fresh_at now_s) (live r)). lia.
      * assert (Hf : fresh_at now_s y = true) by (unfold fresh_at; rewrite Ex; reflexivity).
        assert (Hd : (length (live r) <= N.to_nat c)%nat) by lia.
        specialize (IH c Hd). destruct (expire now_s r c) as [r' c'] eqn:Er.
        destruct IH as (H1 & H2 & H3). cbn [fst snd] in *.
        rewrite live_cons, Hv. cbn [filter length]. rewrite Hf. cbn [length].
        split; [lia|]. split; [rewrite H2; reflexivity|]. rewrite H3.
        pose proof (filter_length_le (fresh_at now_s) (live r)). lia.
    + specialize (IH c Hc). destruct (expire now_s r c) as [r' c'] eqn:Er.
      destruct IH as (H1 & H2 & H3). cbn [fst snd] in *.
      rewrite live_cons, Hv. cbn [length]. split; [lia|]. split; [exact H2|exact H3].
Qed.

Lemma NoDup_keys_filter p l : NoDup (keys l) -> NoDup (keys (filter p l)).
Proof.
  induction l as [|y r IH]; cbn; [auto|]. intros H. inversion H as [|? ? Hn Hr]; subst.
  destruct (p y); cbn; [constructor|]; auto.
  intros Hin. apply Hn. unfold keys in *. apply in_map_iff in Hin as (z & Hz & Hzi). apply in_map_iff. exists z. split; [exact Hz|].
  apply filter_In in Hzi. tauto.
Qed.

(* a session idle for more than 60 s is removed, fresher ones survive *)
Theorem tick_table_spec now_s t :
  Inv t -> Inv (tick_table now_s t) /\
  live (t_slots (tick_table now_s t)) = filter (fresh_at now_s) (live (t_slots t)).
Proof.
  intros I. unfold tick_table.
  pose proof (expire_spec now_s (t_slots t) (t_count t)) as H.
  destruct (expire now_s (t_slots t) (t_count t)) as [l c] eqn:E.
  destruct I as [I1 I2 I3 I4].
  destruct H as (H1 & H2 & H3); [rewrite I3; lia|]. cbn [fst snd] in *.
  split.
  - apply st_update_status_inv; cbn [t_slots t_count].
    + rewrite H1. exact I1.
    + rewrite H2. apply NoDup_keys_filter. exact I2.
    + rewrite H3, H2, I3. pose proof (filter_length_le (fresh_at now_s) (live (t_slots t))). lia.
  - cbn [st_update_status t_slots]. exact H2.
Qed.

(* ---------- every reachable table ---------- *)
Inductive top :=
| TAdd (now : N) (m : mac) (g seq : N) | TFind (m : mac) (g : N) | TRemove (m : mac) (g : N)
| TClear | TComplete (m : mac) (g : N) (v : bool) | TTick (now_s : N).
Definition tstep (t : stable) (o : top) : stable :=
  match o with
  | TAdd now m g seq => fst (st_add t now m g seq)
  | TFind _ _ => t
  | TRemove m g => st_remove t m g
  | TClear => st_clear t
  | TComplete m g v => fst (st_set_complete t m g v)
  | TTick now_s => tick_table now_s t
  end.

Lemma dget_cases l m g : {s | dget l m g = Some s} + {dget l m g = None}.
Proof. destruct (dget l m g) as [s|]; [left; exists s; reflexivity|right; reflexivity]. Qed.

Theorem tstep_inv t o : Inv t -> Inv (tstep t o).
Proof.
  intros I. destruct o as [now m g seq|m g|m g| |m g v|now_s]; cbn [tstep].
  - destruct (dget_cases (t_slots t) m g) as [[s D]|D].
    + destruct (st_add_existing t now m g seq s I D) as (? & ? & ? & _ & _ & _ & I'). exact I'.
    + destruct (st_add_new t now m g seq I D) as [Hlt Heq].
      destruct (inv_bound t I) as [_ Hb].
      destruct (Nat.eq_dec (length (live (t_slots t))) 16) as [e|ne].
      * rewrite (Heq e). exact I.
      * destruct Hlt as (? & ? & ? & _ & _ & _ & _ & I'); [lia|exact I'].
  - exact I.
  - apply st_remove_spec, I.
  - apply st_clear_spec, I.
  - apply (st_set_complete_spec t m g v I).
  - apply tick_table_spec, I.
Qed.

Theorem reachable_inv ops : forall t, Inv t -> Inv (fold_left tstep ops t).
Proof. induction ops as [|o r IH]; intros t I; cbn [fold_left]; [exact I|]. apply IH, tstep_inv, I. Qed.

Example table_nonvacuous :
  let t := fold_left tstep [TAdd 5 (Mac 2 0 0 0 0 1) 7 1; TAdd 6 (Mac 2 0 0 0 0 2) 7 1; TComplete (Mac 2 0 0 0 0 1) 7 true; TTick 66] table0 in
  t_count t = 1 /\ t_allc t = false /\ keys (live (t_slots t)) = [(Mac 2 0 0 0 0 2, 7)].
Proof. vm_compute. auto. Qed.
