(* PropsQuery.v - property C07 on the pure layer (model/BlockFun.v):
   "every observed probe is reported to the mapper exactly once".

   - C07_record        what a Probe / Train frame does to the see list
   - C07_nodup         the see list never holds two entries with the same key
   - C07_query         what a Query transmits and what it leaves in the list
   - decode_qresp ...  an independent decoder of the QueryResp wire format reads
                       back exactly the list handed to qresp_frame
   - C07_others_keep, C07_reset_discards
   - C07_conservation  delivered ++ still held  ~  recorded ++ initially held
   - C07_drain         enough Queries deliver everything, last one says "no more" *)
From LLTD Require Import BlockFun.
From Coq Require Import Lia ZifyBool ZifyN ZifyNat Permutation Arith.
Ltac Zify.zify_post_hook ::= Z.div_mod_to_equations.
Local Open Scope N_scope.

(* ------------------------------------------------------------------ *)
(* small list / mac facts                                              *)
(* ------------------------------------------------------------------ *)
Lemma mac_eqb_eq a b : mac_eqb a b = true <-> a = b.
Proof.
  destruct a as [a0 a1 a2 a3 a4 a5], b as [b0 b1 b2 b3 b4 b5]. unfold mac_eqb. cbn [m0 m1 m2 m3 m4 m5].
  rewrite !andb_true_iff, !N.eqb_eq. split.
  - intros [[[[[-> ->] ->] ->] ->] ->]. reflexivity.
  - intros E. injection E as -> -> -> -> -> ->. repeat split.
Qed.

Lemma skipn_skipn_ {A} a : forall b (l : list A), skipn a (skipn b l) = skipn (b + a) l.
Proof.
  intros b; induction b as [|b IH]; intros l; [reflexivity|].
  destruct l as [|x l]; cbn [skipn Nat.add]; [apply skipn_nil|apply IH].
Qed.

Lemma Forall_skipn_ {A} (P : A -> Prop) n : forall l, Forall P l -> Forall P (skipn n l).
Proof.
  induction n as [|n IH]; intros l H; [exact H|]. destruct l as [|x l]; [exact H|].
  cbn [skipn]. apply IH. inversion H; assumption.
Qed.
Lemma Forall_firstn_ {A} (P : A -> Prop) n : forall l, Forall P l -> Forall P (firstn n l).
Proof.
  induction n as [|n IH]; intros l H; [constructor|]. destruct l as [|x l]; [constructor|].
  cbn [firstn]. inversion H; subst. constructor; [assumption|apply IH; assumption].
Qed.

(* ------------------------------------------------------------------ *)
(* vocabulary of the property                                          *)
(* ------------------------------------------------------------------ *)
Definition is_probe (h : hdr) : bool :=
  (h_tos h =? tos_discovery) && ((h_opc h =? opcode_probe) || (h_opc h =? opcode_train)).
Definition is_query (h : hdr) : bool := (h_tos h =? tos_discovery) && (h_opc h =? opcode_query).
Definition is_topo_reset (h : hdr) : bool := (h_tos h =? tos_discovery) && (h_opc h =? opcode_reset).
Definition obs_of (h : hdr) : obs :=
  {| o_type := if h_opc h =? opcode_probe then 1 else 0;
     o_rsrc := h_rsrc h; o_esrc := h_esrc h; o_edst := h_edst h |}.

(* no two entries with the same key *)
Fixpoint nodupb (l : list obs) : bool :=
  match l with
  | [] => true
  | a :: r => negb (existsb (obs_key_eqb a) r) && nodupb r
  end.

Lemma existsb_skipn {A} (p : A -> bool) n : forall l, existsb p l = false -> existsb p (skipn n l) = false.
Proof.
  induction n as [|n IH]; intros l H; [exact H|]. destruct l as [|x l]; [exact H|].
  cbn [skipn]. cbn [existsb] in H. apply orb_false_iff in H. apply IH, H.
Qed.
Lemma nodupb_skipn n : forall l, nodupb l = true -> nodupb (skipn n l) = true.
Proof.
  induction n as [|n IH]; intros l H; [exact H|]. destruct l as [|x l]; [exact H|].
  cbn [skipn]. cbn [nodupb] in H. apply andb_true_iff in H. apply IH, H.
Qed.

(* ------------------------------------------------------------------ *)
(* the QueryResp wire format, read back without reference to the writer *)
(* ------------------------------------------------------------------ *)
Fixpoint decode_descs (n : nat) (l : list N) : option (list obs) :=
  match n with
  | O => Some []
  | S n' =>
    match l with
    | t0 :: t1 :: r0 :: r1 :: r2 :: r3 :: r4 :: r5 :: s0 :: s1 :: s2 :: s3 :: s4 :: s5
      :: d0 :: d1 :: d2 :: d3 :: d4 :: d5 :: rest =>
      match decode_descs n' rest with
      | Some r => Some ({| o_type := 256 * t0 + t1; o_rsrc := Mac r0 r1 r2 r3 r4 r5;
                           o_esrc := Mac s0 s1 s2 s3 s4 s5; o_edst := Mac d0 d1 d2 d3 d4 d5 |} :: r)
      | None => None
      end
    | _ => None
    end
  end.

(* (sequence number, more flag, observations) *)
Definition decode_qresp (f : list N) : option (N * bool * list obs) :=
  if (length f <? 34)%nat then None else
  let seq := 256 * nth 30 f 0 + nth 31 f 0 in
  let w := 256 * nth 32 f 0 + nth 33 f 0 in
  match decode_descs (N.to_nat (w mod 16384)) (skipn 34 f) with
  | Some l => Some (seq, 32768 <=? w, l)
  | None => None
  end.

Definition obs_ok (ob : obs) : Prop :=
  o_type ob < 65536 /\ mac_ok (o_rsrc ob) /\ mac_ok (o_esrc ob) /\ mac_ok (o_edst ob).

(* the decoder fails exactly on truncated descriptor lists *)
Lemma decode_descs_none_iff n : forall l, decode_descs n l = None <-> (length l < 20 * n)%nat.
Proof.
  induction n as [|n IH]; intros l; [cbn [decode_descs]; split; [discriminate|lia]|].
  do 20 (destruct l as [|? l]; [cbn [decode_descs length]; split; [lia|reflexivity]|]).
  cbn [decode_descs length]. specialize (IH l). destruct (decode_descs n l).
  - split; [discriminate|]. intros H. assert (E : Some l0 = None) by (apply IH; lia). discriminate E.
  - split; [|reflexivity]. intros _. assert (length l < 20 * n)%nat by (apply IH; reflexivity). lia.
Qed.

Lemma decode_descs_concat l : Forall (fun ob => o_type ob < 65536) l ->
  forall tl, decode_descs (length l) (concat (map desc_bytes l) ++ tl) = Some l.
Proof.
  induction 1 as [|ob l Hob Hl IH]; intros tl; [reflexivity|].
  cbn [length map concat]. rewrite <- app_assoc.
  destruct ob as [t [r0 r1 r2 r3 r4 r5] [s0 s1 s2 s3 s4 s5] [d0 d1 d2 d3 d4 d5]].
  cbn [o_type] in Hob.
  unfold desc_bytes, be16, mac_bytes. cbn [o_type o_rsrc o_esrc o_edst m0 m1 m2 m3 m4 m5 app decode_descs].
  rewrite IH. replace (256 * (t / 256 mod 256) + t mod 256) with t by lia. reflexivity.
Qed.

Section C07.
  Variable ctx : N.
  Variable c : pcfg.
  Variable g : gcfg.
  Variable mtu : N.

  Notation step := (f_step ctx c g mtu).
  Notation run := (f_run ctx c g mtu).
  Notation cap := (qcap mtu).

  Definition for_us (h : hdr) : bool := mac_eqb (h_rdst h) (own c).

  Ltac consts :=
    unfold is_probe, is_query, is_topo_reset, tos_discovery, tos_quick_discovery, opcode_discover, opcode_emit,
      opcode_train, opcode_probe, opcode_query, opcode_queryLargeTlv, opcode_reset in *.

  (* ---------------- wire format ---------------- *)
  Theorem decode_qresp_frame h seq l more :
    seq < 65536 -> N.of_nat (length l) < 16384 -> Forall (fun ob => o_type ob < 65536) l ->
    decode_qresp (qresp_frame c h seq l more) = Some (seq, more, l).
  Proof.
    intros Hseq Hlen Hl. unfold decode_qresp, qresp_frame, header_bytes, mac_bytes, be16.
    cbn [app length nth skipn].
    destruct (Nat.ltb_spec (S (S (S (S (S (S (S (S (S (S (S (S (S (S (S (S (S (S (S (S (S (S (S (S (S (S (S (S (S (S (S (S (S (S
       (length (concat (map desc_bytes l))))))))))))))))))))))))))))))))))))) 34); [lia|].
    cbv zeta.
    set (w := N.of_nat (length l) + (if more then 32768 else 0)).
    assert (Hw : w < 65536) by (subst w; destruct more; lia).
    replace (256 * (w / 256 mod 256) + w mod 256) with w by lia.
    replace (256 * (seq / 256 mod 256) + seq mod 256) with seq by lia.
    assert (Hn : N.to_nat (w mod 16384) = length l) by (subst w; destruct more; lia).
    assert (Hm : (32768 <=? w) = more) by (subst w; destruct more; lia).
    rewrite Hn, Hm. rewrite <- (app_nil_r (concat (map desc_bytes l))).
    rewrite decode_descs_concat by assumption. reflexivity.
  Qed.

  (* the same, in the vocabulary of well-formed observations *)
  Corollary decode_qresp_frame_ok h seq l more :
    seq < 65536 -> N.of_nat (length l) < 16384 -> Forall obs_ok l ->
    mac_ok (own c) -> mac_ok (reply_dst h) ->
    decode_qresp (qresp_frame c h seq l more) = Some (seq, more, l).
  Proof.
    intros Hseq Hlen Hl _ _. apply decode_qresp_frame; try assumption.
    eapply Forall_impl; [|exact Hl]. intros ob H; apply H.
  Qed.

  (* with byte-sized addresses the frame is a string of bytes *)
  Lemma desc_bytes_bytes ob : obs_ok ob -> Forall (fun b => b < 256) (desc_bytes ob).
  Proof.
    intros (Ht & Hr & Hs & Hd). unfold mac_ok in *. unfold desc_bytes, be16, mac_bytes. cbn [app].
    repeat constructor; lia.
  Qed.
  Theorem qresp_frame_bytes h seq l more :
    Forall obs_ok l -> mac_ok (own c) -> mac_ok (reply_dst h) ->
    Forall (fun b => b < 256) (qresp_frame c h seq l more).
  Proof.
    intros Hl Ho Hr. unfold mac_ok in *. unfold qresp_frame, header_bytes, mac_bytes, be16.
    unfold tos_discovery, opcode_queryResp, lltdEtherType.
    rewrite !Forall_app. repeat split; try (repeat constructor; lia).
    induction Hl as [|ob l Hob Hl IH]; cbn [map concat]; [constructor|].
    apply Forall_app; split; [apply desc_bytes_bytes; assumption|exact IH].
  Qed.

  (* where the response goes: Ethernet destination (bytes 0..5) and real destination (bytes 18..23) *)
  Theorem qresp_frame_dst h seq l more :
    firstn 6 (qresp_frame c h seq l more) = mac_bytes (reply_dst h)
    /\ firstn 6 (skipn 18 (qresp_frame c h seq l more)) = mac_bytes (reply_dst h)
    /\ firstn 6 (skipn 6 (qresp_frame c h seq l more)) = mac_bytes (own c)
    /\ firstn 6 (skipn 24 (qresp_frame c h seq l more)) = mac_bytes (own c).
  Proof.
    unfold qresp_frame, header_bytes, mac_bytes, be16. cbn [app firstn skipn]. repeat split.
  Qed.
  Theorem reply_dst_spec h :
    (h_rsrc h = h_esrc h -> reply_dst h = h_rsrc h) /\ (h_rsrc h <> h_esrc h -> reply_dst h = bcast).
  Proof.
    unfold reply_dst. destruct (mac_eqb (h_rsrc h) (h_esrc h)) eqn:E; split; intros H; try reflexivity.
    - apply mac_eqb_eq in E. contradiction.
    - apply mac_eqb_eq in H. congruence.
  Qed.

  (* ---------------- the step, opened up ---------------- *)
  Lemma with_see_id s : with_see s (see s) = s.
  Proof. destruct s; reflexivity. Qed.

  Lemma step_hdr s buf h : parse_hdr buf = Some h ->
    step s buf = match pre_step s h with None => (s, []) | Some s1 => f_dispatch ctx c g mtu s1 h buf end.
  Proof. intros H. unfold f_step. rewrite H. reflexivity. Qed.
  Lemma step_nohdr s buf : parse_hdr buf = None -> step s buf = (s, []).
  Proof. intros H. unfold f_step. rewrite H. reflexivity. Qed.

  Lemma pre_step_nondisc s h : (h_opc h =? opcode_discover) = false -> pre_step s h = Some s.
  Proof. intros H. unfold pre_step. rewrite H, andb_false_r. reflexivity. Qed.

  Lemma see_set_active s h : see (set_active s h) = see s.
  Proof. unfold set_active. destruct (known s); reflexivity. Qed.
  Lemma see_set_gen s t v : see (set_gen s t v) = see s.
  Proof. unfold set_gen. destruct (t =? tos_quick_discovery); reflexivity. Qed.

  Lemma pre_step_see s h s1 : pre_step s h = Some s1 -> see s1 = see s.
  Proof.
    unfold pre_step. destruct (is_discovery_tos (h_tos h) && (h_opc h =? opcode_discover)).
    - destruct (matches s h); [|discriminate]. intros E; injection E as <-.
      rewrite see_set_gen. apply see_set_active.
    - intros E; injection E as <-. reflexivity.
  Qed.

  Lemma answer_hello_see s h : see (fst (f_answer_hello ctx c g s h)) = see s.
  Proof.
    unfold f_answer_hello. cbv zeta. cbn [fst].
    destruct ((get_gen (with_seq (set_active s h) (h_seq h)) (h_tos h) =? 0) && negb (h_w0 h =? 0)).
    - rewrite see_set_gen. cbn [with_seq see]. apply see_set_active.
    - cbn [with_seq see]. apply see_set_active.
  Qed.
  Lemma parse_emit_see s h buf : see (fst (f_parse_emit ctx c mtu s h buf)) = see s.
  Proof.
    unfold f_parse_emit. cbv zeta.
    destruct (negb ((sz_hdr + sz_emit_hdr <=? mtu) && (h_w0 h <=? (mtu - sz_hdr - sz_emit_hdr) / sz_emitee)));
      [reflexivity|].
    destruct (read_descs buf (o (h_w0 h)) 0); cbn [fst with_seq see]; apply see_set_active.
  Qed.
  Lemma parse_qlt_see s h : see (fst (f_parse_qlt ctx c g mtu s h)) = see s.
  Proof.
    unfold f_parse_qlt. cbv zeta. destruct (h_seq h =? 0); [reflexivity|].
    destruct (h_b0 h =? tlv_iconImage).
    - destruct (icon (with_seq (set_active s h) (h_seq h))); [cbn [fst with_seq see]; apply see_set_active|].
      destruct (g_icon g); cbn [fst with_icon with_seq see]; apply see_set_active.
    - destruct (h_b0 h =? tlv_friendlyName); [cbn [fst with_seq see]; apply see_set_active|].
      destruct (h_b0 h =? tlv_hwIdProperty); cbn [fst with_seq see]; apply see_set_active.
  Qed.

  Lemma dispatch_other_see s h buf :
    is_probe h = false -> is_query h = false -> is_topo_reset h = false ->
    see (fst (f_dispatch ctx c g mtu s h buf)) = see s.
  Proof.
    intros Hp Hq Hr. unfold f_dispatch.
    destruct (h_tos h =? tos_discovery) eqn:Et.
    - destruct (h_opc h =? opcode_discover) eqn:E0.
      { destruct (matches s h); [|reflexivity]. pose proof (answer_hello_see s h) as Ha.
        destruct (f_answer_hello ctx c g s h) as [s' a]. exact Ha. }
      destruct (h_opc h =? opcode_emit) eqn:E2; [apply parse_emit_see|].
      destruct ((h_opc h =? opcode_train) || (h_opc h =? opcode_probe)) eqn:E3; [exfalso; consts; lia|].
      destruct (h_opc h =? opcode_query) eqn:E6; [exfalso; consts; lia|].
      destruct (h_opc h =? opcode_queryLargeTlv) eqn:E11; [apply parse_qlt_see|].
      destruct (h_opc h =? opcode_reset) eqn:E8; [exfalso; consts; lia|]. reflexivity.
    - destruct (h_tos h =? tos_quick_discovery) eqn:Eq; [|reflexivity].
      destruct (h_opc h =? opcode_discover) eqn:E0.
      { destruct (matches s h); [|reflexivity]. apply answer_hello_see. }
      destruct (h_opc h =? opcode_queryLargeTlv) eqn:E11; [apply parse_qlt_see|].
      destruct (h_opc h =? opcode_reset) eqn:E8; reflexivity.
  Qed.

  (* ---------------- 1. recording ---------------- *)
  Definition records (s : ist) (h : hdr) : bool :=
    for_us h && negb (see_full s) && negb (existsb (obs_key_eqb (obs_of h)) (see s)).

  Theorem C07_record s buf h : parse_hdr buf = Some h -> is_probe h = true ->
    snd (step s buf) = []
    /\ fst (step s buf) =
       with_see s (if for_us h && negb (see_full s) && negb (existsb (obs_key_eqb (obs_of h)) (see s))
                   then obs_of h :: see s else see s).
  Proof.
    intros Hp Hpr. rewrite (step_hdr _ _ _ Hp).
    assert (E0 : (h_opc h =? opcode_discover) = false) by (consts; lia).
    assert (Et : (h_tos h =? tos_discovery) = true) by (consts; lia).
    assert (E2 : (h_opc h =? opcode_emit) = false) by (consts; lia).
    assert (E3 : ((h_opc h =? opcode_train) || (h_opc h =? opcode_probe)) = true) by (consts; lia).
    rewrite (pre_step_nondisc _ _ E0). unfold f_dispatch. rewrite Et, E0, E2, E3. cbn [fst snd].
    split; [reflexivity|].
    unfold f_parse_probe, for_us, obs_of. cbv zeta.
    destruct (mac_eqb (h_rdst h) (own c)); cbn [negb andb]; [|symmetry; apply with_see_id].
    destruct (see_full s); cbn [negb andb]; [symmetry; apply with_see_id|].
    match goal with |- context [existsb ?p (see s)] => destruct (existsb p (see s)) end; cbn [negb];
      [symmetry; apply with_see_id|reflexivity].
  Qed.

  Corollary C07_record_see s buf h : parse_hdr buf = Some h -> is_probe h = true ->
    see (fst (step s buf)) = if records s h then obs_of h :: see s else see s.
  Proof. intros Hp Hpr. destruct (C07_record s buf h Hp Hpr) as [_ ->]. reflexivity. Qed.

  (* a probe that is not addressed to this station leaves the record alone *)
  Corollary C07_not_for_us s buf h : parse_hdr buf = Some h -> is_probe h = true -> for_us h = false ->
    step s buf = (s, []).
  Proof.
    intros Hp Hpr Hu. destruct (C07_record s buf h Hp Hpr) as [Ha Hs]. rewrite Hu in Hs. cbn [andb] in Hs.
    rewrite with_see_id in Hs. destruct (step s buf) as [s' a]. cbn [fst snd] in *. congruence.
  Qed.

  (* ---------------- 3. reporting ---------------- *)
  Theorem C07_query s buf h : parse_hdr buf = Some h -> is_query h = true ->
    let cap := qcap mtu in
    snd (step s buf) =
      [tx ctx (qresp_frame c h (h_seq h) (firstn cap (see s)) (Nat.ltb cap (length (see s))))]
    /\ see (fst (step s buf)) = skipn cap (see s).
  Proof.
    intros Hp Hq. rewrite (step_hdr _ _ _ Hp).
    assert (E0 : (h_opc h =? opcode_discover) = false) by (consts; lia).
    assert (Et : (h_tos h =? tos_discovery) = true) by (consts; lia).
    assert (E2 : (h_opc h =? opcode_emit) = false) by (consts; lia).
    assert (E3 : ((h_opc h =? opcode_train) || (h_opc h =? opcode_probe)) = false) by (consts; lia).
    assert (E6 : (h_opc h =? opcode_query) = true) by (consts; lia).
    rewrite (pre_step_nondisc _ _ E0). unfold f_dispatch. rewrite Et, E0, E2, E3, E6.
    unfold f_parse_query. cbv zeta. cbn [fst snd with_see with_mapper with_seq see]. split; reflexivity.
  Qed.

  (* only here and in C07_query_decoded does the size of the MTU matter *)
  Theorem qcap_bounds : 576 <= mtu <= 9216 -> (27 <= qcap mtu <= 459)%nat.
  Proof. intros Hmtu. unfold qcap, o, sz_hdr, sz_qresp_hdr, desc_wire_size. lia. Qed.
  Corollary qcap_pos : 576 <= mtu <= 9216 -> (1 <= qcap mtu)%nat.
  Proof. intros Hmtu. pose proof (qcap_bounds Hmtu). lia. Qed.

  (* ---------------- 5. everything else ---------------- *)
  Theorem C07_others_keep s buf h : parse_hdr buf = Some h ->
    is_probe h = false -> is_query h = false -> is_topo_reset h = false ->
    see (fst (step s buf)) = see s.
  Proof.
    intros Hp H1 H2 H3. rewrite (step_hdr _ _ _ Hp). destruct (pre_step s h) as [s1|] eqn:E; [|reflexivity].
    rewrite dispatch_other_see by assumption. eapply pre_step_see; eassumption.
  Qed.

  Theorem C07_reset_discards s buf h : parse_hdr buf = Some h -> is_topo_reset h = true ->
    see (fst (step s buf)) = [].
  Proof.
    intros Hp Hr. rewrite (step_hdr _ _ _ Hp).
    assert (E0 : (h_opc h =? opcode_discover) = false) by (consts; lia).
    assert (Et : (h_tos h =? tos_discovery) = true) by (consts; lia).
    assert (E2 : (h_opc h =? opcode_emit) = false) by (consts; lia).
    assert (E3 : ((h_opc h =? opcode_train) || (h_opc h =? opcode_probe)) = false) by (consts; lia).
    assert (E6 : (h_opc h =? opcode_query) = false) by (consts; lia).
    assert (E11 : (h_opc h =? opcode_queryLargeTlv) = false) by (consts; lia).
    assert (E8 : (h_opc h =? opcode_reset) = true) by (consts; lia).
    rewrite (pre_step_nondisc _ _ E0). unfold f_dispatch. rewrite Et, E0, E2, E3, E6, E11, E8. reflexivity.
  Qed.

  (* the four things a frame can do to the see list *)
  Lemma step_see_cases s buf :
    see (fst (step s buf)) = see s
    \/ (exists h, parse_hdr buf = Some h /\ is_probe h = true
                  /\ existsb (obs_key_eqb (obs_of h)) (see s) = false
                  /\ see (fst (step s buf)) = obs_of h :: see s)
    \/ see (fst (step s buf)) = skipn cap (see s)
    \/ see (fst (step s buf)) = [].
  Proof.
    destruct (parse_hdr buf) as [h|] eqn:Hp; [|left; rewrite step_nohdr by assumption; reflexivity].
    destruct (is_probe h) eqn:E1.
    { rewrite (C07_record_see _ _ _ Hp E1). unfold records.
      destruct (existsb (obs_key_eqb (obs_of h)) (see s)) eqn:Ex.
      - left. rewrite andb_false_r. reflexivity.
      - destruct (for_us h && negb (see_full s)); cbn [negb andb]; [|left; reflexivity].
        right; left. exists h. auto. }
    destruct (is_query h) eqn:E2.
    { right; right; left. apply (C07_query s buf h Hp E2). }
    destruct (is_topo_reset h) eqn:E3.
    { right; right; right. apply (C07_reset_discards s buf h Hp E3). }
    left. apply (C07_others_keep s buf h Hp E1 E2 E3).
  Qed.

  (* ---------------- 2. never twice in the list ---------------- *)
  Theorem C07_nodup s buf : nodupb (see s) = true -> nodupb (see (fst (step s buf))) = true.
  Proof.
    intros H. destruct (step_see_cases s buf) as [E|[(h & _ & _ & Ex & E)|[E|E]]]; rewrite E.
    - exact H.
    - cbn [nodupb]. rewrite Ex, H. reflexivity.
    - apply nodupb_skipn, H.
    - reflexivity.
  Qed.

  (* the recorded types are 0 (Train) or 1 (Probe) *)
  Definition types_ok (l : list obs) : Prop := Forall (fun ob => o_type ob <= 1) l.
  Theorem C07_types s buf : types_ok (see s) -> types_ok (see (fst (step s buf))).
  Proof.
    unfold types_ok. intros H. destruct (step_see_cases s buf) as [E|[(h & _ & _ & Ex & E)|[E|E]]]; rewrite E.
    - exact H.
    - constructor; [|exact H]. unfold obs_of. cbn [o_type]. destruct (h_opc h =? opcode_probe); lia.
    - apply Forall_skipn_, H.
    - constructor.
  Qed.

  (* ---------------- histories ---------------- *)
  Lemma run_cons_fst s b r : fst (run s (b :: r)) = fst (run (fst (step s b)) r).
  Proof.
    cbn [f_run]. destruct (step s b) as [s1 a1]. cbn [fst]. destruct (run s1 r) as [s2 a2]. reflexivity.
  Qed.
  Lemma run_cons_snd s b r : snd (run s (b :: r)) = snd (step s b) ++ snd (run (fst (step s b)) r).
  Proof.
    cbn [f_run]. destruct (step s b) as [s1 a1]. cbn [fst snd]. destruct (run s1 r) as [s2 a2]. reflexivity.
  Qed.
  Lemma run_app_fst r1 : forall s r2, fst (run s (r1 ++ r2)) = fst (run (fst (run s r1)) r2).
  Proof.
    induction r1 as [|b r1 IH]; intros s r2; [reflexivity|].
    cbn [app]. rewrite !run_cons_fst. apply IH.
  Qed.

  Theorem C07_nodup_run bufs : forall s, nodupb (see s) = true -> nodupb (see (fst (run s bufs))) = true.
  Proof.
    induction bufs as [|b r IH]; intros s H; [exact H|]. rewrite run_cons_fst. apply IH, C07_nodup, H.
  Qed.

  (* what one step hands to the mapper / takes into the list *)
  Definition delivered_step (s : ist) (b : list byte) : list obs :=
    match parse_hdr b with
    | Some h => if is_query h then firstn cap (see s) else []
    | None => []
    end.
  Definition recorded_step (s : ist) (b : list byte) : list obs :=
    match parse_hdr b with
    | Some h => if is_probe h && records s h then [obs_of h] else []
    | None => []
    end.
  Fixpoint delivered_run (s : ist) (bufs : list (list byte)) : list obs :=
    match bufs with
    | [] => []
    | b :: r => delivered_step s b ++ delivered_run (fst (step s b)) r
    end.
  Fixpoint recorded_run (s : ist) (bufs : list (list byte)) : list obs :=
    match bufs with
    | [] => []
    | b :: r => recorded_step s b ++ recorded_run (fst (step s b)) r
    end.

  Definition not_topo_reset (b : list byte) : Prop := forall h, parse_hdr b = Some h -> is_topo_reset h = false.

  Lemma C07_step_conservation s b : not_topo_reset b ->
    Permutation (delivered_step s b ++ see (fst (step s b))) (recorded_step s b ++ see s).
  Proof.
    intros Hn. unfold delivered_step, recorded_step.
    destruct (parse_hdr b) as [h|] eqn:Hp; [|rewrite step_nohdr by assumption; reflexivity].
    specialize (Hn h Hp).
    destruct (is_probe h) eqn:E1.
    { assert (E2 : is_query h = false) by (consts; lia). rewrite E2.
      rewrite (C07_record_see _ _ _ Hp E1). cbn [andb app]. destruct (records s h); reflexivity. }
    cbn [andb app]. destruct (is_query h) eqn:E2.
    { destruct (C07_query s b h Hp E2) as [_ ->]. rewrite firstn_skipn. reflexivity. }
    rewrite (C07_others_keep s b h Hp E1 E2 Hn). reflexivity.
  Qed.

  Theorem C07_conservation s bufs : Forall not_topo_reset bufs ->
    Permutation (delivered_run s bufs ++ see (fst (run s bufs))) (recorded_run s bufs ++ see s).
  Proof.
    intros H. revert s. induction H as [|b r Hb Hr IH]; intros s; [reflexivity|].
    cbn [delivered_run recorded_run]. rewrite run_cons_fst, <- !app_assoc.
    rewrite (IH (fst (step s b))).
    (* D ++ R' ++ see s1  ~  R ++ R' ++ see s   from   D ++ see s1 ~ R ++ see s *)
    rewrite (Permutation_app_swap_app (delivered_step s b)), (Permutation_app_swap_app (recorded_step s b)).
    apply Permutation_app_head, C07_step_conservation, Hb.
  Qed.

  (* delivered_run is what goes out on the wire: the single frame a Query step transmits carries exactly
     that step's delivered list *)
  Corollary C07_delivered_on_wire s b h : parse_hdr b = Some h -> is_query h = true ->
    snd (step s b) = [tx ctx (qresp_frame c h (h_seq h) (delivered_step s b) (Nat.ltb cap (length (see s))))].
  Proof.
    intros Hp Hq. unfold delivered_step. rewrite Hp, Hq. apply (C07_query s b h Hp Hq).
  Qed.

  (* ... and the mapper's decoder gets back exactly that list *)
  Lemma rd16_bound buf i v : Forall (fun b => b < 256) buf -> rd16 buf i = Some v -> v < 65536.
  Proof.
    intros Hb. unfold rd16, rd8. destruct (nth_error buf i) as [a|] eqn:Ea; [|discriminate].
    destruct (nth_error buf (S i)) as [b|] eqn:Eb; [|discriminate]. intros E; injection E as <-.
    rewrite Forall_forall in Hb. pose proof (Hb _ (nth_error_In _ _ Ea)). pose proof (Hb _ (nth_error_In _ _ Eb)).
    cbv beta in *. lia.
  Qed.
  Lemma parse_hdr_seq buf h : Forall (fun b => b < 256) buf -> parse_hdr buf = Some h -> h_seq h < 65536.
  Proof.
    intros Hb. unfold parse_hdr.
    destruct (rdmac buf (o of_edst)); [|discriminate]. destruct (rdmac buf (o of_esrc)); [|discriminate].
    destruct (rd8 buf (o of_tos)); [|discriminate]. destruct (rd8 buf (o of_opcode)); [|discriminate].
    destruct (rdmac buf (o of_rdst)); [|discriminate]. destruct (rdmac buf (o of_rsrc)); [|discriminate].
    destruct (rd16 buf (o of_seq)) as [q|] eqn:Eq; [|discriminate].
    destruct (rd16 buf (o sz_hdr)); [|discriminate]. destruct (rd8 buf (o sz_hdr)); [|discriminate].
    destruct (rd16 buf (o sz_hdr + 2)); [|discriminate]. intros E; injection E as <-. cbn [h_seq].
    eapply rd16_bound; eassumption.
  Qed.

  Theorem C07_query_decoded s b h : 576 <= mtu <= 9216 -> parse_hdr b = Some h -> is_query h = true ->
    Forall (fun x => x < 256) b -> types_ok (see s) ->
    exists fr, snd (step s b) = [tx ctx fr]
               /\ decode_qresp fr = Some (h_seq h, Nat.ltb cap (length (see s)), delivered_step s b).
  Proof.
    intros Hmtu Hp Hq Hb Ht. eexists. split; [apply (C07_delivered_on_wire s b h Hp Hq)|].
    unfold delivered_step. rewrite Hp, Hq. apply decode_qresp_frame.
    - eapply parse_hdr_seq; eassumption.
    - pose proof (firstn_le_length cap (see s)). pose proof (qcap_bounds Hmtu). lia.
    - apply Forall_firstn_. eapply Forall_impl; [|exact Ht]. cbv beta. intros; lia.
  Qed.

  (* ---------------- 7. drain ---------------- *)
  Definition query_frame (b : list byte) : Prop := exists h, parse_hdr b = Some h /\ is_query h = true.

  Lemma run_queries_see qs : Forall query_frame qs -> forall s,
    see (fst (run s qs)) = skipn (length qs * cap) (see s) /\
    delivered_run s qs = firstn (length qs * cap) (see s).
  Proof.
    induction 1 as [|b r (h & Hp & Hq) Hr IH]; intros s; [split; reflexivity|].
    rewrite run_cons_fst. cbn [delivered_run length Nat.mul]. destruct (IH (fst (step s b))) as [E1 E2].
    rewrite E1, E2. unfold delivered_step. rewrite Hp, Hq.
    destruct (C07_query s b h Hp Hq) as [_ ->]. split.
    - apply skipn_skipn_.
    - rewrite <- (firstn_skipn cap (firstn (cap + length r * cap) (see s))).
      rewrite firstn_firstn, Nat.min_l by lia. f_equal.
      rewrite firstn_skipn_comm. reflexivity.
  Qed.

  Theorem C07_drain s qs : Forall query_frame qs -> (length (see s) <= length qs * cap)%nat ->
    delivered_run s qs = see s /\ see (fst (run s qs)) = [].
  Proof.
    intros Hq Hl. destruct (run_queries_see qs Hq s) as [E1 E2]. rewrite E1, E2. split.
    - apply firstn_all2, Hl.
    - apply skipn_all2, Hl.
  Qed.

  (* the last of these Queries is answered with everything that is left and the "more" flag cleared *)
  Theorem C07_drain_last s qs b h : Forall query_frame (qs ++ [b]) ->
    (length (see s) <= length (qs ++ [b]) * cap)%nat -> parse_hdr b = Some h ->
    let s' := fst (run s qs) in
    Nat.ltb cap (length (see s')) = false
    /\ snd (step s' b) = [tx ctx (qresp_frame c h (h_seq h) (see s') false)].
  Proof.
    intros Hq Hl Hp s'. apply Forall_app in Hq. destruct Hq as [Hq Hb]. inversion Hb as [|? ? (h' & Hp' & Hq') _]; subst.
    assert (h' = h) by congruence. subst h'.
    rewrite app_length in Hl. cbn [length] in Hl.
    assert (Hs : (length (see s') <= cap)%nat).
    { subst s'. destruct (run_queries_see qs Hq s) as [-> _]. rewrite skipn_length. lia. }
    assert (Hf : Nat.ltb cap (length (see s')) = false) by (apply Nat.ltb_ge, Hs).
    split; [exact Hf|]. destruct (C07_query s' b h Hp Hq') as [-> _]. rewrite Hf, firstn_all2 by exact Hs.
    reflexivity.
  Qed.
End C07.

(* ------------------------------------------------------------------ *)
(* the hypotheses are satisfiable: concrete frames and states          *)
(* ------------------------------------------------------------------ *)
Definition ex_c : pcfg :=
  {| c_rxsize := 1500; c_mtu := Some 1500; c_mac := Some (Mac 2 0 0 0 0 1); c_flags := 0; c_iftype := None;
     c_ipv4 := None; c_ipv6 := None; c_speed := None; c_wifi := None; c_bssid := None; c_ssid := [];
     c_rate := None; c_rssi := None |}.
Definition ex_g : gcfg := {| g_host := []; g_icon := None; g_fname := None; g_hwid := []; g_retfull := false |}.

(* a 36-byte Probe from 02:00:00:00:00:09 to this station *)
Definition ex_probe : list byte :=
  [2;0;0;0;0;1;  2;0;0;0;0;9;  136;217;  1;0;0;4;  2;0;0;0;0;1;  2;0;0;0;0;9;  0;0;  0;0;0;0].
Definition ex_probe_h : hdr :=
  {| h_edst := Mac 2 0 0 0 0 1; h_esrc := Mac 2 0 0 0 0 9; h_tos := 0; h_opc := 4; h_rdst := Mac 2 0 0 0 0 1;
     h_rsrc := Mac 2 0 0 0 0 9; h_seq := 0; h_w0 := 0; h_b0 := 0; h_w1 := 0 |}.
Example ex_probe_parses : parse_hdr ex_probe = Some ex_probe_h /\ is_probe ex_probe_h = true
                          /\ for_us ex_c ex_probe_h = true /\ Forall not_topo_reset [ex_probe].
Proof.
  repeat split. constructor; [|constructor]. intros h E.
  assert (h = ex_probe_h) by (change (parse_hdr ex_probe) with (Some ex_probe_h) in E; congruence).
  subst h. reflexivity.
Qed.
(* a Query (sequence number 7) from the mapper 02:00:00:00:00:05 *)
Definition ex_query : list byte :=
  [2;0;0;0;0;1;  2;0;0;0;0;5;  136;217;  1;0;0;6;  2;0;0;0;0;1;  2;0;0;0;0;5;  0;7;  0;0;0;0].
Example ex_query_parses : query_frame ex_query.
Proof. eexists. split; reflexivity. Qed.

(* a state that holds two observations *)
Definition ex_ob (k t : N) : obs :=
  {| o_type := t; o_rsrc := Mac 2 0 0 0 0 k; o_esrc := Mac 2 0 0 0 0 k; o_edst := Mac 2 0 0 0 0 1 |}.
Definition ex_s : ist := with_see fresh [ex_ob 8 0; ex_ob 7 1].
Example ex_s_ok : nodupb (see ex_s) = true /\ types_ok (see ex_s) /\ length (see ex_s) = 2%nat
                  /\ Forall obs_ok (see ex_s).
Proof.
  repeat split; try (repeat constructor; cbn; lia).
Qed.

(* the Probe above is recorded; a second copy of it is not *)
Example ex_record :
  see (fst (f_step 0 ex_c ex_g 1500 ex_s ex_probe)) = [ex_ob 9 1; ex_ob 8 0; ex_ob 7 1]
  /\ recorded_run 0 ex_c ex_g 1500 ex_s [ex_probe; ex_probe] = [ex_ob 9 1].
Proof. split; reflexivity. Qed.

(* with room for one descriptor per response (a 60-byte MTU, to keep the example small) three Queries drain
   the list, in order, one observation each *)
Example ex_drain :
  qcap 60 = 1%nat
  /\ delivered_run 0 ex_c ex_g 60 ex_s [ex_probe; ex_probe; ex_query; ex_query; ex_query]
     = [ex_ob 9 1; ex_ob 8 0; ex_ob 7 1]
  /\ recorded_run 0 ex_c ex_g 60 ex_s [ex_probe; ex_probe; ex_query; ex_query; ex_query]
     = [ex_ob 9 1]
  /\ see (fst (f_run 0 ex_c ex_g 60 ex_s [ex_probe; ex_probe; ex_query; ex_query; ex_query])) = [].
Proof. repeat (split; [vm_compute; reflexivity|]). vm_compute. reflexivity. Qed.

(* "once" is per stay in the list: a probe that is seen again after its observation was handed to the
   mapper is a new observation (recorded and delivered a second time) *)
Example ex_again :
  delivered_run 0 ex_c ex_g 60 fresh [ex_probe; ex_query; ex_probe; ex_query] = [ex_ob 9 1; ex_ob 9 1]
  /\ recorded_run 0 ex_c ex_g 60 fresh [ex_probe; ex_query; ex_probe; ex_query] = [ex_ob 9 1; ex_ob 9 1].
Proof. split; vm_compute; reflexivity. Qed.

(* the response to the Query, as the mapper reads it *)
Example ex_decoded :
  match snd (f_step 0 ex_c ex_g 1500 ex_s ex_query) with
  | [Send _ _ fr] => decode_qresp fr = Some (7, false, [ex_ob 8 0; ex_ob 7 1]) /\ length fr = 74%nat
  | _ => False
  end.
Proof. vm_compute. split; reflexivity. Qed.

Print Assumptions C07_record.
Print Assumptions C07_nodup.
Print Assumptions C07_query.
Print Assumptions C07_others_keep.
Print Assumptions C07_reset_discards.
Print Assumptions C07_conservation.
Print Assumptions C07_drain.
Print Assumptions C07_drain_last.
Print Assumptions C07_query_decoded.
Print Assumptions decode_qresp_frame.
