(* SessionProofs.v - C15. *)
From LLTD Require Import Automata SpecAutomata AutomataBase.
From Coq Require Import Lia ZifyBool ZifyN ZifyNat.
Ltac Zify.zify_post_hook ::= Z.div_mod_to_equations.
Local Open Scope N_scope.

(* ---------- C15: session automaton ---------- *)
Definition sstate_code (s : sstate) : N :=
  match s with Temporary => 0 | Nascent => 1 | Pending => 2 | Complete => 3 end.
Definition sevent_code (e : sevent) : Z :=
  Z.of_N (match e with
          | EvConflicting => sess_discover_conflicting | EvReset => sess_reset | EvNoAck => sess_discover_noack
          | EvAcking => sess_discover_acking | EvNoAckChanged => sess_discover_noack_chgd_xid
          | EvAckingChanged => sess_discover_acking_chgd_xid | EvTopoReset => sess_topo_reset | EvHello => sess_hello
          end).
Definition all_sstates := [Temporary; Nascent; Pending; Complete].
Definition all_sevents := [EvConflicting; EvReset; EvNoAck; EvAcking; EvNoAckChanged; EvAckingChanged; EvTopoReset; EvHello].
Lemma all_sstates_ok s : In s all_sstates. Proof. destruct s; cbn; tauto. Qed.
Lemma all_sevents_ok e : In e all_sevents. Proof. destruct e; cbn; tauto. Qed.

(* the session event alphabet is 0..7, one name each *)
Lemma sevent_alphabet : map sevent_code all_sevents = [0; 1; 2; 3; 4; 5; 6; 7]%Z.
Proof. vm_compute. reflexivity. Qed.

(* every state has the 1 s inactivity time-out *)
Lemma session_timeouts_one s : timeout_of session_timeouts (sstate_code s) = 1%Z.
Proof. destruct s; vm_compute; reflexivity. Qed.

Definition session_cell_ok (s : sstate) (e : sevent) : bool :=
  (next_state session_trans (sstate_code s) (sevent_code e) =? sstate_code (session_spec s e))
  && (next_state session_trans (next_state session_trans (sstate_code s) (-1)%Z) (-1)%Z =? sstate_code Nascent).
Lemma session_cells : forallb (fun s => forallb (session_cell_ok s) all_sevents) all_sstates = true.
Proof. vm_compute. reflexivity. Qed.

Theorem session_step (s : sstate) (e : sevent) (a : autom) (now : N) :
  a_cur a = sstate_code s -> a_last a <= now -> now < W64 ->
  let a' := switch_session a now (sevent_code e) in
  a_last a' = now /\
  (now - a_last a <= 1 -> a_cur a' = sstate_code (session_spec s e)) /\
  (1 < now - a_last a -> a_cur a' = sstate_code Nascent).
Proof.
  intros Hs Hl Hn. cbv zeta. unfold switch_session. rewrite switch_timed_spec by assumption. cbn [a_last a_cur].
  unfold timed_out. rewrite Hs, session_timeouts_one.
  pose proof session_cells as C. rewrite forallb_forall in C. specialize (C s (all_sstates_ok s)).
  rewrite forallb_forall in C. specialize (C e (all_sevents_ok e)). unfold session_cell_ok in C.
  apply andb_prop in C as [C1 C2]. apply N.eqb_eq in C1. apply N.eqb_eq in C2.
  change (u64_of_Z 1) with 1. change (negb (1 =? 0)%Z) with true. cbn [andb].
  split; [reflexivity|]. split; intros H.
  - destruct (1 <? now - a_last a) eqn:E; [lia|]. exact C1.
  - destruct (1 <? now - a_last a) eqn:E; [|lia]. exact C2.
Qed.

(* non-vacuity: a Pending session hears an acknowledging Discover in time *)
Example session_step_example :
  a_cur (switch_session {| a_cur := 2; a_last := 10 |} 11 (sevent_code EvAcking)) = sstate_code Complete.
Proof. vm_compute. reflexivity. Qed.

