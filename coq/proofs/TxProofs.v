(* TxProofs.v - C02 / C04: every frame the pure per-frame function transmits is
   well formed for the independent wire-level validator of spec/SpecTx.v, is
   solicited by the received frame, and a Hello decodes back to exactly what
   the platform getters supplied. *)
From LLTD Require Import BlockFun Sys SpecTx BufProofs.
From Coq Require Import Lia ZifyBool ZifyN ZifyNat.
Ltac Zify.zify_post_hook ::= Z.div_mod_to_equations.
Local Open Scope N_scope.

Definition bytes_ok (l : list N) : Prop := Forall (fun b => b < 256) l.

(* ------------------------------------------------------------------ *)
(* big-endian round trips                                               *)
(* ------------------------------------------------------------------ *)
Lemma be16_roundtrip v : be16_dec (be16 v) = v mod 65536.
Proof. unfold be16, be16_dec. lia. Qed.
Lemma be32_roundtrip v : be32_dec (be32 v) = v mod 4294967296.
Proof. unfold be32, be32_dec. lia. Qed.
Lemma be64_roundtrip v : be64_dec (be64 v) = v mod 18446744073709551616.
Proof.
  unfold be64. set (hi := v / 4294967296). set (lo := v mod 4294967296).
  unfold be32 at 1 2. cbn [app be64_dec].
  change [(hi / 16777216) mod 256; (hi / 65536) mod 256; (hi / 256) mod 256; hi mod 256] with (be32 hi).
  change [(lo / 16777216) mod 256; (lo / 65536) mod 256; (lo / 256) mod 256; lo mod 256] with (be32 lo).
  rewrite !be32_roundtrip. subst hi lo. lia.
Qed.
Lemma s32_roundtrip z : (-2147483648 <= z < 2147483648)%Z -> s32_dec (be32 (u32_of_Z z)) = z.
Proof.
  intros H. unfold s32_dec. rewrite be32_roundtrip. unfold u32_of_Z.
  destruct (Z.ltb_spec (Z.of_N (Z.to_N (z mod 4294967296) mod 4294967296)) 2147483648); lia.
Qed.

(* ------------------------------------------------------------------ *)
(* the property list                                                    *)
(* ------------------------------------------------------------------ *)
Lemma parse_tlvs_tlv f t v rest : t <> 0 ->
  parse_tlvs (S f) (tlv t v ++ rest) = option_map (cons (t, v)) (parse_tlvs f rest).
Proof.
  intros Ht. unfold tlv. cbn [app parse_tlvs].
  destruct (N.eqb_spec t 0) as [E|_]; [contradiction|].
  rewrite Nnat.Nat2N.id.
  destruct (Nat.leb_spec (length v) (length (v ++ rest))) as [_|H]; [|rewrite app_length in H; lia].
  rewrite firstn_app, firstn_all, Nat.sub_diag, firstn_O, app_nil_r.
  rewrite skipn_app, skipn_all, Nat.sub_diag. reflexivity.
Qed.

(* a list of (type, value) pairs as the writers lay it out *)
Definition enc_props (ps : list (N * list N)) : list N :=
  concat (map (fun p => tlv (fst p) (snd p)) ps) ++ [0].

Lemma parse_tlvs_enc ps : Forall (fun p => fst p <> 0) ps ->
  forall k, parse_tlvs (S (length ps) + k) (enc_props ps) = Some ps.
Proof.
  unfold enc_props. induction 1 as [|[t v] ps Ht _ IH]; intros k.
  - reflexivity.
  - cbn [map concat length fst snd]. rewrite <- app_assoc.
    change (S (S (length ps)) + k)%nat with (S (S (length ps) + k)).
    rewrite parse_tlvs_tlv by exact Ht. rewrite IH. reflexivity.
Qed.
Lemma enc_props_length ps : (length ps < length (enc_props ps))%nat.
Proof.
  unfold enc_props. rewrite app_length. cbn [length].
  induction ps as [|p ps IH]; cbn [map concat length]; [lia|]. rewrite app_length, tlv_length. lia.
Qed.
Lemma parse_props_enc ps : Forall (fun p => fst p <> 0) ps -> parse_props (enc_props ps) = Some ps.
Proof.
  intros H. unfold parse_props. pose proof (enc_props_length ps) as L.
  replace (S (length (enc_props ps))) with (S (length ps) + (length (enc_props ps) - length ps))%nat by lia.
  apply parse_tlvs_enc, H.
Qed.

(* the Hello's properties as (type, value) pairs, in the order of the writer calls *)
Definition hello_props (c : pcfg) (g : gcfg) : list (N * list N) :=
  [ (1, mac_bytes (own c));
    (2, be32 ((c_flags c mod 4294967296) * 65536));
    (3, be32 (opt0 (c_iftype c)));
    (7, be32 (opt0 (c_ipv4 c)));
    (8, match c_ipv6 c with Some a => pad16 (firstn 16 a) | None => repeat 0 16 end);
    (10, be64 1000000);
    (12, be32 (opt0 (c_speed c)));
    (15, firstn 32 (g_host g)) ]
  ++ (match c_wifi c with
      | Some m =>
        [(4, [m])]
        ++ (match c_bssid c with Some b => [(5, mac_bytes b)] | None => [] end)
        ++ [ (6, firstn 32 (c_ssid c));
             (9, be16 (opt0 (c_rate c)));
             (13, be32 (u32_of_Z (match c_rssi c with Some r => r | None => 0%Z end))) ]
      | None => []
      end)
  ++ [ (20, be32 (57344 * 65536)); (14, []); (17, []) ].

Lemma hello_tlvs_enc c g : concat (hello_tlvs c g) = enc_props (hello_props c g).
Proof.
  unfold hello_tlvs, hello_props, enc_props.
  unfold seg_hostid, seg_characteristics, seg_medium, seg_ipv4, seg_ipv6, seg_perf, seg_speed, seg_hostname,
    seg_wifimode, seg_bssid, seg_ssid, seg_rate, seg_rssi, seg_qos, seg_icon, seg_friendly, seg_eop.
  destruct (c_wifi c) as [m|]; [destruct (c_bssid c) as [b|]|];
    cbn [app map concat fst snd]; rewrite ?app_nil_r, <- ?app_assoc; reflexivity.
Qed.

Lemma hello_props_types c g : Forall (fun p => fst p <> 0) (hello_props c g).
Proof.
  unfold hello_props. destruct (c_wifi c) as [m|]; [destruct (c_bssid c) as [b|]|];
    cbn [app]; repeat constructor; cbn [fst]; discriminate.
Qed.

Theorem parse_props_hello c g : parse_props (concat (hello_tlvs c g)) = Some (hello_props c g).
Proof. rewrite hello_tlvs_enc. apply parse_props_enc, hello_props_types. Qed.

(* ------------------------------------------------------------------ *)
(* C04: a Hello decodes back to what the platform supplied              *)
(* ------------------------------------------------------------------ *)
Definition cfg_wf (c : pcfg) (g : gcfg) : Prop :=
  mac_ok (own c)
  /\ c_flags c < 4294967296
  /\ opt0 (c_iftype c) < 4294967296
  /\ opt0 (c_ipv4 c) < 4294967296
  /\ opt0 (c_speed c) < 4294967296
  /\ match c_ipv6 c with Some a => bytes_ok a | None => True end
  /\ bytes_ok (g_host g)
  /\ bytes_ok (c_ssid c)
  /\ match c_wifi c with Some m => m < 256 | None => True end
  /\ match c_bssid c with Some b => mac_ok b | None => True end
  /\ opt0 (c_rate c) < 65536
  /\ match c_rssi c with Some r => (-128 <= r <= 127)%Z | None => True end.

Lemma pad16_length l : (length l <= 16)%nat -> length (pad16 l) = 16%nat.
Proof. intros H. unfold pad16. rewrite app_length, repeat_length. lia. Qed.
Lemma ipv6_value_length (x : option (list N)) :
  length (match x with Some a => pad16 (firstn 16 a) | None => repeat 0 16 end) = 16%nat.
Proof. destruct x as [a|]; [apply pad16_length, firstn_le | reflexivity]. Qed.

Lemma val_exact_hit t n ps v : assoc t ps = Some v -> length v = n -> val_exact t n ps = Some v.
Proof. intros H L. unfold val_exact. rewrite H, L, Nat.eqb_refl. reflexivity. Qed.
Lemma val_upto_hit t n ps v : assoc t ps = Some v -> (length v <= n)%nat -> val_upto t n ps = Some v.
Proof. intros H L. unfold val_upto. rewrite H. destruct (Nat.leb_spec (length v) n); [reflexivity|lia]. Qed.
Lemma val_exact_miss t n (ps : list (N * list N)) : assoc t ps = None -> val_exact t n ps = None.
Proof. intros H. unfold val_exact. rewrite H. reflexivity. Qed.
Lemma val_upto_miss t n (ps : list (N * list N)) : assoc t ps = None -> val_upto t n ps = None.
Proof. intros H. unfold val_upto. rewrite H. reflexivity. Qed.

Lemma flags_dec F : be32_dec (be32 ((F mod 4294967296) * 65536)) / 65536 = F mod 65536.
Proof. rewrite be32_roundtrip. lia. Qed.
Lemma qos_dec : be32_dec (be32 (57344 * 65536)) / 65536 = 57344.
Proof. vm_compute. reflexivity. Qed.
Lemma perf_dec : be64_dec (be64 1000000) = 1000000.
Proof. vm_compute. reflexivity. Qed.

(* (plain [f_equal] on the 14-field record is very slow) *)
Lemma attrs_ext a1 a2 a3 a4 a5 a6 a7 a8 a9 a10 a11 a12 a13 a14 b1 b2 b3 b4 b5 b6 b7 b8 b9 b10 b11 b12 b13 b14 :
  a1 = b1 -> a2 = b2 -> a3 = b3 -> a4 = b4 -> a5 = b5 -> a6 = b6 -> a7 = b7 -> a8 = b8 -> a9 = b9 ->
  a10 = b10 -> a11 = b11 -> a12 = b12 -> a13 = b13 -> a14 = b14 ->
  Build_attrs a1 a2 a3 a4 a5 a6 a7 a8 a9 a10 a11 a12 a13 a14 = Build_attrs b1 b2 b3 b4 b5 b6 b7 b8 b9 b10 b11 b12 b13 b14.
Proof. intros; subst; reflexivity. Qed.

Lemma decode_hello_props c g : cfg_wf c g -> decode_attrs (hello_props c g) = attrs_of c g.
Proof.
  intros (_ & Hfl & Hif & Hv4 & Hsp & _ & _ & _ & _ & _ & Hrate & Hrssi).
  assert (Hr : (-2147483648 <= match c_rssi c with Some r => r | None => 0 end < 2147483648)%Z)
    by (destruct (c_rssi c); lia).
  unfold decode_attrs, attrs_of, if_wifi, hello_props.
  destruct (c_wifi c) as [m|]; [destruct (c_bssid c) as [b|]|]; cbn [app option_map]; apply attrs_ext.
  all: try
    first [ rewrite (val_exact_miss _ _ _ eq_refl); reflexivity
          | rewrite (val_upto_miss _ _ _ eq_refl); reflexivity
          | erewrite val_exact_hit by (first [reflexivity | apply ipv6_value_length])
          | erewrite val_upto_hit by (first [reflexivity | apply firstn_le]) ];
    cbn [option_map];
    rewrite ?flags_dec, ?qos_dec, ?perf_dec, ?be32_roundtrip, ?be16_roundtrip, ?s32_roundtrip by exact Hr;
    rewrite ?N.mod_small by assumption; reflexivity.
Qed.

(* the Hello as 46 explicit bytes followed by the property list *)
Lemma hello_frame_eq c g h gen :
  hello_frame c g h gen =
  [255; 255; 255; 255; 255; 255;
   m0 (own c); m1 (own c); m2 (own c); m3 (own c); m4 (own c); m5 (own c);
   136; 217; 1; h_tos h; 0; 1;
   255; 255; 255; 255; 255; 255;
   m0 (own c); m1 (own c); m2 (own c); m3 (own c); m4 (own c); m5 (own c);
   0; 0;
   (gen / 256) mod 256; gen mod 256;
   m0 (h_rsrc h); m1 (h_rsrc h); m2 (h_rsrc h); m3 (h_rsrc h); m4 (h_rsrc h); m5 (h_rsrc h);
   m0 (h_esrc h); m1 (h_esrc h); m2 (h_esrc h); m3 (h_esrc h); m4 (h_esrc h); m5 (h_esrc h)]
  ++ concat (hello_tlvs c g).
Proof. reflexivity. Qed.

Theorem C04_roundtrip c g : cfg_wf c g -> forall h gen,
  match hello_fields (hello_frame c g h gen) with
  | Some hf =>
    decode_attrs (hf_props hf) = attrs_of c g
    /\ hf_edst hf = [255; 255; 255; 255; 255; 255]
    /\ hf_rdst hf = [255; 255; 255; 255; 255; 255]
    /\ hf_esrc hf = mac_bytes (own c)
    /\ hf_rsrc hf = mac_bytes (own c)
    /\ hf_seq hf = 0
    /\ hf_gen hf = gen mod 65536
    /\ hf_cur hf = mac_bytes (h_rsrc h)
    /\ hf_app hf = mac_bytes (h_esrc h)
    /\ hf_tos hf = h_tos h
  | None => False
  end.
Proof.
  intros W h gen. rewrite hello_frame_eq. generalize (parse_props_hello c g).
  generalize (concat (hello_tlvs c g)) as tl. intros tl P.
  unfold hello_fields. cbn [skipn app]. rewrite P.
  cbn [hf_props hf_edst hf_rdst hf_esrc hf_rsrc hf_seq hf_gen hf_cur hf_app hf_tos].
  split; [apply decode_hello_props, W|].
  unfold fld, byte_at. cbn [skipn app firstn nth].
  change [(gen / 256) mod 256; gen mod 256] with (be16 gen). rewrite be16_roundtrip.
  repeat split.
Qed.

Theorem C04_wireless_gate c g ps : parse_props (concat (hello_tlvs c g)) = Some ps ->
  (forall t, In t [4; 6; 9; 13] -> (In t (map fst ps) <-> c_wifi c <> None))
  /\ (In 5 (map fst ps) <-> c_wifi c <> None /\ c_bssid c <> None).
Proof.
  rewrite parse_props_hello. intros E; inversion E; subst ps; clear E.
  unfold hello_props.
  destruct (c_wifi c) as [m|]; [destruct (c_bssid c) as [b|]|]; cbn [app map fst In]; split.
  all: try (intros t [<-|[<-|[<-|[<-|[]]]]]).
  all: split; intros H; try (split; discriminate); try discriminate; try tauto.
  all: repeat (destruct H as [H|H]; try discriminate H); try contradiction.
  all: try (destruct H as [H1 H2]; congruence).
Qed.

(* ------------------------------------------------------------------ *)
(* the Hello's property list is well formed, for every configuration    *)
(* ------------------------------------------------------------------ *)
Lemma legal_name (v : list N) : (length v <= 32)%nat -> legal_len 15 (N.of_nat (length v)) = true.
Proof. intros H. unfold legal_len. cbn [assoc len_rules N.eqb Pos.eqb]. lia. Qed.
Lemma legal_ssid (v : list N) : (length v <= 32)%nat -> legal_len 6 (N.of_nat (length v)) = true.
Proof. intros H. unfold legal_len. cbn [assoc len_rules N.eqb Pos.eqb]. lia. Qed.

Lemma hello_props_legal c g :
  forallb (fun p => legal_len (fst p) (N.of_nat (length (snd p)))) (hello_props c g) = true.
Proof.
  unfold hello_props.
  destruct (c_wifi c) as [m|]; [destruct (c_bssid c) as [b|]|]; cbn [app forallb fst snd];
    rewrite ipv6_value_length, ?legal_name, ?legal_ssid by apply firstn_le; reflexivity.
Qed.
Lemma hello_props_nodup c g : nodup_N (map fst (hello_props c g)) = true.
Proof.
  unfold hello_props.
  destruct (c_wifi c) as [m|]; [destruct (c_bssid c) as [b|]|]; cbn [app map fst]; reflexivity.
Qed.

Theorem wf_hello c g : wf_hello_props (concat (hello_tlvs c g)) = true.
Proof.
  unfold wf_hello_props. rewrite parse_props_hello.
  pose proof (hello_props_legal c g) as L. pose proof (hello_props_nodup c g) as D.
  destruct (hello_props c g) as [|[t0 v0] r] eqn:E; [discriminate E|].
  rewrite L, D. assert (t0 = 1) as -> by (unfold hello_props in E; cbn [app] in E; congruence).
  reflexivity.
Qed.

(* ------------------------------------------------------------------ *)
(* C02: every transmitted frame is well formed                          *)
(* ------------------------------------------------------------------ *)
Lemma list_eqb_refl l : list_eqb l l = true.
Proof. induction l as [|x l IH]; cbn [list_eqb]; [reflexivity|]. rewrite N.eqb_refl, IH. reflexivity. Qed.

(* the checks on the base header, for anything that starts with [header_bytes] and has our address as real source *)
Lemma wf_tx_header me m es ed rd seq opc tos rest F :
  F = header_bytes es ed me rd seq opc tos ++ rest ->
  wf_tx (mac_bytes me) m F = ((32 + length rest <=? m)%nat && wf_body tos opc F).
Proof.
  intros ->. unfold wf_tx.
  set (F := header_bytes es ed me rd seq opc tos ++ rest).
  change (byte_at F 12) with 136. change (byte_at F 13) with 217. change (byte_at F 14) with 1.
  change (byte_at F 16) with 0. change (fld F 24 6) with (mac_bytes me).
  change (byte_at F 15) with tos. change (byte_at F 17) with opc.
  rewrite list_eqb_refl. change (136 =? 136) with true. change (217 =? 217) with true.
  change (1 =? 1) with true. change (0 =? 0) with true.
  assert (L : length F = (32 + length rest)%nat) by (unfold F; rewrite app_length, header_bytes_length; reflexivity).
  rewrite L. destruct (Nat.leb_spec 32 (32 + length rest)); [|lia].
  rewrite !andb_true_r. reflexivity.
Qed.

Lemma desc_bytes_length ob : length (desc_bytes ob) = 20%nat. Proof. reflexivity. Qed.
Lemma descs_length l : length (concat (map desc_bytes l)) = (20 * length l)%nat.
Proof. induction l as [|a l IH]; cbn [map concat length]; [reflexivity|]. rewrite app_length, desc_bytes_length, IH. lia. Qed.

Section Step.
  Variables (ctx : N) (c : pcfg) (g : gcfg) (mtu : N).
  Hypothesis Hlo : 206 <= mtu.
  Hypothesis Hhi : mtu < 16418.

  Notation me := (mac_bytes (own c)).
  Definition wf_act (a : action) : Prop :=
    match a with Send _ _ fr => wf_tx me (o mtu) fr = true | _ => True end.

  Lemma wf_hello_frame h gen : is_discovery_tos (h_tos h) = true ->
    wf_tx me (o mtu) (hello_frame c g h gen) = true.
  Proof.
    intros T. rewrite (wf_tx_header (own c) (o mtu) (own c) bcast bcast 0 opcode_hello (h_tos h)
      (be16 gen ++ mac_bytes (h_rsrc h) ++ mac_bytes (h_esrc h) ++ concat (hello_tlvs c g))) by reflexivity.
    rewrite hello_frame_eq. pose proof (hello_tlvs_length c g) as L. pose proof (wf_hello c g) as W.
    revert L W. generalize (concat (hello_tlvs c g)) as tl. intros tl L W.
    unfold wf_body. change (opcode_hello =? 1) with true. cbn [skipn app]. rewrite W.
    rewrite !app_length. cbn [length be16 mac_bytes].
    unfold is_discovery_tos, tos_discovery, tos_quick_discovery in T. unfold o. lia.
  Qed.

  Lemma wf_hdr_only es ed rd seq opc :
    (opc =? 3) || (opc =? 4) || (opc =? 5) = true ->
    wf_tx me (o mtu) (header_bytes es ed (own c) rd seq opc tos_discovery) = true.
  Proof.
    intros K. rewrite (wf_tx_header (own c) (o mtu) es ed rd seq opc tos_discovery []) by (symmetry; apply app_nil_r).
    unfold wf_body. rewrite K. destruct (opc =? 1) eqn:E; [lia|].
    rewrite header_bytes_length. cbn [length]. unfold o. lia.
  Qed.
  Lemma wf_probe_frame d : wf_tx me (o mtu) (probe_frame c d) = true.
  Proof. unfold probe_frame. apply wf_hdr_only. destruct (d_type d =? 1); reflexivity. Qed.
  Lemma wf_ack_frame s : wf_tx me (o mtu) (ack_frame c s) = true.
  Proof. unfold ack_frame. apply wf_hdr_only. reflexivity. Qed.

  Lemma wf_qresp_frame h seq rep more : (length rep <= qcap mtu)%nat ->
    wf_tx me (o mtu) (qresp_frame c h seq rep more) = true.
  Proof.
    intros Hn. unfold qcap, sz_hdr, sz_qresp_hdr, desc_wire_size, o in Hn.
    set (w := N.of_nat (length rep) + (if more then 32768 else 0)).
    rewrite (wf_tx_header (own c) (o mtu) (own c) (reply_dst h) (reply_dst h) seq opcode_queryResp tos_discovery
      (be16 w ++ concat (map desc_bytes rep))) by reflexivity.
    set (F := qresp_frame c h seq rep more).
    assert (L : length F = (34 + 20 * length rep)%nat).
    { unfold F, qresp_frame. rewrite !app_length, header_bytes_length, descs_length. cbn [length be16]. lia. }
    unfold wf_body. change (opcode_queryResp =? 1) with false.
    change ((opcode_queryResp =? 3) || (opcode_queryResp =? 4) || (opcode_queryResp =? 5)) with false.
    change (opcode_queryResp =? 7) with true. cbv iota.
    change (fld F 32 2) with (be16 w). rewrite be16_roundtrip, L.
    rewrite app_length, descs_length. cbn [length be16]. subst w. unfold o. destruct more; lia.
  Qed.

  Lemma wf_qlt_frame h seq chunk more : (length chunk <= o (payload_max mtu))%nat ->
    wf_tx me (o mtu) (qlt_frame c h seq chunk more) = true.
  Proof.
    intros Hn. unfold payload_max, sz_hdr, sz_qltresp_hdr, o in Hn.
    set (w := N.of_nat (length chunk) + (if more then 32768 else 0)).
    rewrite (wf_tx_header (own c) (o mtu) (own c) (reply_dst h) (reply_dst h) seq opcode_queryLargeTlvResp tos_discovery
      (be16 w ++ chunk)) by reflexivity.
    set (F := qlt_frame c h seq chunk more).
    assert (L : length F = (34 + length chunk)%nat).
    { unfold F, qlt_frame. rewrite !app_length, header_bytes_length. cbn [length be16]. lia. }
    unfold wf_body. change (opcode_queryLargeTlvResp =? 1) with false.
    change ((opcode_queryLargeTlvResp =? 3) || (opcode_queryLargeTlvResp =? 4) || (opcode_queryLargeTlvResp =? 5)) with false.
    change (opcode_queryLargeTlvResp =? 7) with false. change (opcode_queryLargeTlvResp =? 12) with true. cbv iota.
    change (fld F 32 2) with (be16 w). rewrite be16_roundtrip, L.
    rewrite app_length. cbn [length be16]. subst w. unfold o. destruct more; lia.
  Qed.

  (* ---- the handlers ---- *)
  Lemma wf_emit_all s ds : Forall wf_act (f_emit_all ctx c s ds).
  Proof.
    induction ds as [|d r IH]; cbn [f_emit_all]; [constructor|].
    apply Forall_app; split; [|exact IH].
    unfold f_emit_one. destruct ((d_type d =? 1) || (d_type d =? 0)); [|constructor].
    apply Forall_app; split.
    - repeat constructor. unfold tx, wf_act. apply wf_probe_frame.
    - destruct r; repeat constructor. unfold tx, wf_act. apply wf_ack_frame.
  Qed.

  Lemma wf_large_tlv h seq data off : Forall wf_act (f_large_tlv ctx c mtu h seq data off).
  Proof.
    unfold f_large_tlv. destruct (off + payload_max mtu <? N.of_nat (length data)) eqn:E;
      repeat constructor; unfold tx, wf_act; apply wf_qlt_frame.
    - apply firstn_le.
    - rewrite skipn_length. unfold o. lia.
  Qed.

  Lemma wf_parse_qlt s h : Forall wf_act (snd (f_parse_qlt ctx c g mtu s h)).
  Proof.
    unfold f_parse_qlt. destruct (h_seq h =? 0); [constructor|].
    destruct (h_b0 h =? tlv_iconImage).
    { destruct (icon _); [|destruct (g_icon g)]; cbn [snd]; apply wf_large_tlv. }
    destruct (h_b0 h =? tlv_friendlyName); [cbn [snd]; apply wf_large_tlv|].
    destruct (h_b0 h =? tlv_hwIdProperty); cbn [snd]; apply wf_large_tlv.
  Qed.

  Lemma wf_parse_query s h : Forall wf_act (snd (f_parse_query ctx c mtu s h)).
  Proof.
    unfold f_parse_query. cbn [snd]. repeat constructor. unfold tx, wf_act.
    apply wf_qresp_frame, firstn_le.
  Qed.

  Lemma wf_parse_emit s h buf : Forall wf_act (snd (f_parse_emit ctx c mtu s h buf)).
  Proof.
    unfold f_parse_emit. destruct (negb _); [constructor|].
    destruct (read_descs _ _ _); cbn [snd]; [apply wf_emit_all|constructor].
  Qed.

  Lemma wf_answer_hello s h : is_discovery_tos (h_tos h) = true ->
    Forall wf_act (snd (f_answer_hello ctx c g s h)).
  Proof. intros T. unfold f_answer_hello. cbn [snd]. repeat constructor. unfold tx, wf_act. apply wf_hello_frame, T. Qed.

  Lemma wf_dispatch s h buf : Forall wf_act (snd (f_dispatch ctx c g mtu s h buf)).
  Proof.
    unfold f_dispatch.
    destruct (h_tos h =? tos_discovery) eqn:T0.
    { assert (T : is_discovery_tos (h_tos h) = true) by (unfold is_discovery_tos; rewrite T0; reflexivity).
      destruct (h_opc h =? opcode_discover).
      { destruct (matches s h); [|constructor].
        pose proof (wf_answer_hello s h T) as W. destruct (f_answer_hello ctx c g s h) as [s' a].
        cbn [snd] in *. constructor; [exact I|exact W]. }
      destruct (h_opc h =? opcode_emit); [apply wf_parse_emit|].
      destruct ((h_opc h =? opcode_train) || (h_opc h =? opcode_probe)); [constructor|].
      destruct (h_opc h =? opcode_query); [apply wf_parse_query|].
      destruct (h_opc h =? opcode_queryLargeTlv); [apply wf_parse_qlt|].
      destruct (h_opc h =? opcode_reset); constructor. }
    destruct (h_tos h =? tos_quick_discovery) eqn:T1; [|constructor].
    assert (T : is_discovery_tos (h_tos h) = true) by (unfold is_discovery_tos; rewrite T1; apply orb_true_r).
    destruct (h_opc h =? opcode_discover).
    { destruct (matches s h); [apply wf_answer_hello, T|constructor]. }
    destruct (h_opc h =? opcode_queryLargeTlv); [apply wf_parse_qlt|].
    destruct (h_opc h =? opcode_reset); constructor.
  Qed.

  Theorem C02_wf_step s buf :
    Forall (fun a => match a with Send _ _ fr => wf_tx (mac_bytes (own c)) (o mtu) fr = true | _ => True end)
           (snd (f_step ctx c g mtu s buf)).
  Proof.
    change (Forall wf_act (snd (f_step ctx c g mtu s buf))).
    unfold f_step. destruct (parse_hdr buf) as [h|]; [|constructor].
    destruct (pre_step s h) as [s1|]; [apply wf_dispatch|constructor].
  Qed.
End Step.

(* ------------------------------------------------------------------ *)
(* C02: nothing is transmitted unsolicited                              *)
(* ------------------------------------------------------------------ *)
Definition is_send (a : action) : bool := match a with Send _ _ _ => true | _ => false end.
Definition sends (l : list action) : nat := length (filter is_send l).
Lemma sends_app a b : sends (a ++ b) = (sends a + sends b)%nat.
Proof. unfold sends. rewrite filter_app, app_length. reflexivity. Qed.

Section Solicited.
  Variables (ctx : N) (c : pcfg) (g : gcfg) (mtu : N).

  Lemma sends_emit_all s ds : (sends (f_emit_all ctx c s ds) <= length ds + 1)%nat.
  Proof.
    induction ds as [|d r IH]; cbn [f_emit_all length]; [cbn; lia|].
    rewrite sends_app. unfold f_emit_one.
    destruct ((d_type d =? 1) || (d_type d =? 0)).
    - destruct r as [|d' r']; [cbn; lia|]. rewrite sends_app. cbn [length] in *.
      change (sends [Sleep (d_pause d); tx ctx (probe_frame c d)]) with 1%nat. change (sends []) with 0%nat. lia.
    - change (sends []) with 0%nat. lia.
  Qed.
  Lemma read_descs_length buf k : forall i ds, read_descs buf k i = Some ds -> length ds = k.
  Proof.
    induction k as [|k IH]; intros i ds; cbn [read_descs].
    - intros E; inversion E; reflexivity.
    - destruct (read_emitee _ _) as [d|]; [|discriminate].
      destruct (read_descs buf k (i + 1)) as [r|] eqn:R; [|discriminate].
      intros E; inversion E; subst ds. cbn [length]. f_equal. eapply IH, R.
  Qed.
  Lemma sends_large_tlv h seq data off : sends (f_large_tlv ctx c mtu h seq data off) = 1%nat.
  Proof. unfold f_large_tlv. destruct (_ <? _); reflexivity. Qed.
  Lemma sends_parse_qlt s h : (sends (snd (f_parse_qlt ctx c g mtu s h)) <= 1)%nat.
  Proof.
    unfold f_parse_qlt. destruct (h_seq h =? 0); [cbn; lia|].
    destruct (h_b0 h =? tlv_iconImage).
    { destruct (icon _); [|destruct (g_icon g)]; cbn [snd]; rewrite sends_large_tlv; lia. }
    destruct (h_b0 h =? tlv_friendlyName); [cbn [snd]; rewrite sends_large_tlv; lia|].
    destruct (h_b0 h =? tlv_hwIdProperty); cbn [snd]; rewrite sends_large_tlv; lia.
  Qed.
  Lemma sends_parse_emit s h buf : (sends (snd (f_parse_emit ctx c mtu s h buf)) <= o (h_w0 h) + 1)%nat.
  Proof.
    unfold f_parse_emit. destruct (negb _); [cbn; lia|].
    destruct (read_descs _ _ _) as [ds|] eqn:R; cbn [snd]; [|cbn; lia].
    apply read_descs_length in R. rewrite <- R. apply sends_emit_all.
  Qed.

  Lemma dispatch_solicited s h buf : snd (f_dispatch ctx c g mtu s h buf) <> [] ->
    In (h_tos h, h_opc h) [(0, 0); (1, 0); (0, 2); (0, 6); (0, 11); (1, 11)]
    /\ (sends (snd (f_dispatch ctx c g mtu s h buf))
        <= if ((h_tos h =? 0) && (h_opc h =? 2))%N then o (h_w0 h) + 1 else 1)%nat.
  Proof.
    unfold f_dispatch.
    destruct (N.eqb_spec (h_tos h) tos_discovery) as [T|T0].
    { unfold tos_discovery in T. rewrite T.
      destruct (N.eqb_spec (h_opc h) opcode_discover) as [P|_].
      { unfold opcode_discover in P. rewrite P. intros _. split; [cbn; tauto|].
        destruct (matches s h); [|cbn; lia]. unfold f_answer_hello. cbn. lia. }
      destruct (N.eqb_spec (h_opc h) opcode_emit) as [P|_].
      { unfold opcode_emit in P. rewrite P. intros _. split; [cbn; tauto|].
        change ((0 =? 0) && (2 =? 2)) with true. cbv iota. apply sends_parse_emit. }
      destruct ((h_opc h =? opcode_train) || (h_opc h =? opcode_probe)); [intros H; cbn in H; contradiction|].
      destruct (N.eqb_spec (h_opc h) opcode_query) as [P|_].
      { unfold opcode_query in P. rewrite P. intros _. split; [cbn; tauto|]. cbn. lia. }
      destruct (N.eqb_spec (h_opc h) opcode_queryLargeTlv) as [P|_].
      { unfold opcode_queryLargeTlv in P. rewrite P. intros _. split; [cbn; tauto|].
        change ((0 =? 0) && (11 =? 2)) with false. cbv iota. apply sends_parse_qlt. }
      destruct (h_opc h =? opcode_reset); intros H; cbn in H; contradiction. }
    destruct (N.eqb_spec (h_tos h) tos_quick_discovery) as [T|_]; [|intros H; cbn in H; contradiction].
    unfold tos_quick_discovery in T. rewrite T.
    destruct (N.eqb_spec (h_opc h) opcode_discover) as [P|_].
    { unfold opcode_discover in P. rewrite P. intros _. split; [cbn; tauto|].
      destruct (matches s h); [|cbn; lia]. unfold f_answer_hello. cbn. lia. }
    destruct (N.eqb_spec (h_opc h) opcode_queryLargeTlv) as [P|_].
    { unfold opcode_queryLargeTlv in P. rewrite P. intros _. split; [cbn; tauto|].
      change ((1 =? 0) && (11 =? 2)) with false. cbv iota. apply sends_parse_qlt. }
    destruct (h_opc h =? opcode_reset); intros H; cbn in H; contradiction.
  Qed.

  Theorem C02_solicited s buf : snd (f_step ctx c g mtu s buf) <> [] ->
    exists h, parse_hdr buf = Some h
      /\ In (h_tos h, h_opc h) [(0, 0); (1, 0); (0, 2); (0, 6); (0, 11); (1, 11)]
      /\ (sends (snd (f_step ctx c g mtu s buf))
          <= if ((h_tos h =? 0) && (h_opc h =? 2))%N then o (h_w0 h) + 1 else 1)%nat.
  Proof.
    unfold f_step. destruct (parse_hdr buf) as [h|]; [|intros H; cbn in H; contradiction].
    destruct (pre_step s h) as [s1|]; [|intros H; cbn in H; contradiction].
    intros H. exists h. split; [reflexivity|]. apply dispatch_solicited, H.
  Qed.
End Solicited.

(* ------------------------------------------------------------------ *)
(* C04: the Linux platform layer                                        *)
(* ------------------------------------------------------------------ *)
Theorem C04_linux i :
  linux_getters i = (li_mac i, li_mtu i, li_iftype i, (li_speed i mod 4294967296) / 100, linux_flags i)
  /\ (N.land (linux_flags i) 8192 <> 0 <-> N.land (li_medium i) 16 <> 0)     (* duplex, 0x2000 *)
  /\ (N.land (linux_flags i) 2048 <> 0 <-> N.land (li_flags i) 8 <> 0)       (* loopback, 0x800 *)
  /\ In (linux_flags i) [0; 2048; 8192; 10240].
Proof.
  split; [reflexivity|].
  unfold linux_flags, IFM_FDX, IFF_LOOPBACK, Config_TLV_NetworkInterfaceDuplex_Value, Config_TLV_InterfaceIsLoopback_Value.
  destruct (N.eqb_spec (N.land (li_medium i) 16) 0) as [A|A];
    destruct (N.eqb_spec (N.land (li_flags i) 8) 0) as [B|B]; rewrite ?A, ?B; cbn;
    repeat split; intros; try congruence; try discriminate; tauto.
Qed.

(* ------------------------------------------------------------------ *)
(* the hypotheses are satisfiable; the validator computes               *)
(* ------------------------------------------------------------------ *)
Definition cfg0 : pcfg :=
  {| c_rxsize := 1500; c_mtu := Some 1500; c_mac := Some (Mac 2 17 34 51 68 85);
     c_flags := 8192; c_iftype := Some 71; c_ipv4 := Some 3232235786;
     c_ipv6 := Some [254; 128; 0; 0; 0; 0; 0; 0; 0; 17; 34; 255; 254; 51; 68; 85];
     c_speed := Some 540000;
     c_wifi := Some 2; c_bssid := Some (Mac 0 37 156 1 2 3); c_ssid := [104; 111; 109; 101];
     c_rate := Some 108; c_rssi := Some (-60)%Z |}.
Definition gcfg0 : gcfg :=
  {| g_host := [108; 108; 116; 100; 45; 98; 111; 120]; g_icon := None; g_fname := None; g_hwid := []; g_retfull := false |}.
Definition mapper0 : mac := Mac 0 21 93 1 2 3.
Definition h0 : hdr :=
  {| h_edst := bcast; h_esrc := mapper0; h_tos := 0; h_opc := 0; h_rdst := bcast; h_rsrc := mapper0;
     h_seq := 0; h_w0 := 7; h_b0 := 0; h_w1 := 7 |}.

Example cfg0_wf : cfg_wf cfg0 gcfg0.
Proof.
  unfold cfg_wf, mac_ok, bytes_ok, cfg0, gcfg0; cbn.
  repeat split; repeat constructor; try reflexivity; discriminate.
Qed.

Example wf_tx_computes :
  wf_tx (mac_bytes (own cfg0)) 1500 (hello_frame cfg0 gcfg0 h0 7) = true
  /\ (let f := hello_frame cfg0 gcfg0 h0 7 in
      wf_tx (mac_bytes (own cfg0)) 1500 (firstn 16 f ++ [1] ++ skipn 17 f)) = false.
Proof. split; vm_compute; reflexivity. Qed.

Example hello_decodes :
  option_map (fun hf => decode_attrs (hf_props hf)) (hello_fields (hello_frame cfg0 gcfg0 h0 7))
  = Some (attrs_of cfg0 gcfg0).
Proof. vm_compute. reflexivity. Qed.

(* why C02_wf_step needs [mtu < 16418]: with a larger MTU a single QueryLargeTlvResp carries 16384 or more
   payload bytes and its length runs into bit 14 of the length word *)
Example C02_mtu_bound_needed :
  let g := {| g_host := []; g_icon := Some (repeat 0 (N.to_nat 20000)); g_fname := None; g_hwid := []; g_retfull := false |} in
  let buf := header_bytes mapper0 (own cfg0) mapper0 (own cfg0) 1 opcode_queryLargeTlv tos_discovery ++ [14; 0; 0; 0] in
  existsb (fun a => match a with Send _ _ fr => negb (wf_tx (mac_bytes (own cfg0)) (o 20000) fr) | _ => false end)
          (snd (f_step 0 cfg0 g 20000 fresh buf)) = true.
Proof. vm_compute. reflexivity. Qed.

Print Assumptions C04_roundtrip.
Print Assumptions wf_hello.
Print Assumptions C02_wf_step.
Print Assumptions C02_solicited.
Print Assumptions C04_wireless_gate.
Print Assumptions C04_linux.
