(* PropsEmit.v - properties C06 and C10 on the pure per-frame function of
   model/BlockFun.v.

   C06: an Emit is executed descriptor by descriptor (pause, then the Probe or
        Train frame built from the descriptor) and then acknowledged; the
        number of frames one Emit can cause is bounded by the MTU.
   C10: a probe emitted by responder A towards responder B is recorded by B
        with A as the real source and is listed in B's next QueryResp.

   The descriptor list of an Emit frame is specified independently of the
   model's reader ([read_descs]) by slicing the buffer ([spec_descs]). *)
From LLTD Require Import BlockFun.
From Coq Require Import Lia ZifyBool ZifyN ZifyNat.
Ltac Zify.zify_post_hook ::= Z.div_mod_to_equations.
Local Open Scope N_scope.

(* ---------- addresses ---------- *)
Lemma mac_eqb_refl m : mac_eqb m m = true.
Proof. unfold mac_eqb. rewrite !N.eqb_refl. reflexivity. Qed.
Lemma mac_eqb_eq a b : mac_eqb a b = true <-> a = b.
Proof.
  split; [|intros ->; apply mac_eqb_refl].
  unfold mac_eqb. destruct a as [a0 a1 a2 a3 a4 a5], b as [b0 b1 b2 b3 b4 b5]; cbn [m0 m1 m2 m3 m4 m5].
  rewrite !andb_true_iff, !N.eqb_eq. intros (((((?&?)&?)&?)&?)&?). congruence.
Qed.

(* "the active mapper is X" in terms of the record *)
Lemma active_some s x : active s = Some x <-> known s = true /\ mreal s = x.
Proof.
  unfold active. destruct (known s); split.
  - intros H; injection H as H; auto.
  - intros [_ ->]; reflexivity.
  - discriminate.
  - intros [H _]; discriminate.
Qed.

(* ---------- reads relative to a suffix of the buffer ---------- *)
Lemma rd8_skipn buf off k : rd8 (skipn off buf) k = rd8 buf (off + k).
Proof.
  unfold rd8. revert buf; induction off as [|off IH]; intros buf; [reflexivity|].
  destruct buf as [|a buf]; cbn [skipn Nat.add nth_error].
  - destruct k; reflexivity.
  - apply IH.
Qed.
Lemma skipn_add {A} x y (l : list A) : skipn x (skipn y l) = skipn (y + x) l.
Proof.
  revert l; induction y as [|y IH]; intros l; [reflexivity|].
  destruct l as [|a l]; cbn [skipn Nat.add]; [destruct x; reflexivity|apply IH].
Qed.
Lemma rdmac_skipn buf off k : rdmac (skipn off buf) k = rdmac buf (off + k).
Proof.
  unfold rdmac. rewrite !rd8_skipn.
  replace (off + (1 + k))%nat with (1 + (off + k))%nat by lia.
  replace (off + (2 + k))%nat with (2 + (off + k))%nat by lia.
  replace (off + (3 + k))%nat with (3 + (off + k))%nat by lia.
  replace (off + (4 + k))%nat with (4 + (off + k))%nat by lia.
  replace (off + (5 + k))%nat with (5 + (off + k))%nat by lia.
  reflexivity.
Qed.

(* ---------- the independent slicing specification ---------- *)
(* n chunks of k bytes each *)
Fixpoint chunks (k n : nat) (l : list N) : list (list N) :=
  match n with
  | O => []
  | S n' => firstn k l :: chunks k n' (skipn k l)
  end.
(* a 14-byte record: type, pause, source address, destination address *)
Definition emitee_of (b : list N) : emitee :=
  match b with
  | [t; p; s0; s1; s2; s3; s4; s5; e0; e1; e2; e3; e4; e5] =>
    {| d_type := t; d_pause := p; d_src := Mac s0 s1 s2 s3 s4 s5; d_dst := Mac e0 e1 e2 e3 e4 e5 |}
  | _ => {| d_type := 0; d_pause := 0; d_src := zmac; d_dst := zmac |}
  end.
(* the descriptors start right after the 32-byte base header and the 16-bit count *)
Definition spec_descs (buf : list N) (n : nat) : list emitee :=
  map emitee_of (chunks 14 n (skipn 34 buf)).

Lemma chunks_length k n l : length (chunks k n l) = n.
Proof. revert l; induction n as [|n IH]; intros l; cbn [chunks length]; [reflexivity|]. rewrite IH. reflexivity. Qed.
Lemma spec_descs_length buf n : length (spec_descs buf n) = n.
Proof. unfold spec_descs. rewrite map_length. apply chunks_length. Qed.

Lemma read_emitee_spec buf off : (off + 14 <= length buf)%nat ->
  read_emitee buf off = Some (emitee_of (firstn 14 (skipn off buf))).
Proof.
  intros H.
  assert (E : read_emitee buf off = read_emitee (skipn off buf) 0).
  { unfold read_emitee. rewrite !rdmac_skipn, !rd8_skipn. reflexivity. }
  rewrite E.
  assert (L : (14 <= length (skipn off buf))%nat) by (rewrite skipn_length; lia).
  generalize dependent (skipn off buf). intros l _ L.
  do 14 (destruct l as [|? l]; [cbn [length] in L; lia|]).
  reflexivity.
Qed.

Lemma read_descs_gen buf n : forall i,
  (34 + 14 * (o i + n) <= length buf)%nat -> (14 * (o i + n) < o 65536)%nat ->
  read_descs buf n i = Some (map emitee_of (chunks 14 n (skipn (34 + 14 * o i) buf))).
Proof.
  induction n as [|n IH]; intros i H1 H2; [reflexivity|].
  cbn [read_descs chunks map].
  replace (o sz_hdr + o sz_emit_hdr + o ((sz_emitee * i) mod 65536))%nat with (34 + 14 * o i)%nat
    by (unfold o, sz_hdr, sz_emit_hdr, sz_emitee in *; lia).
  rewrite read_emitee_spec by lia.
  rewrite IH by (unfold o in *; lia).
  rewrite skipn_add.
  replace (34 + 14 * o i + 14)%nat with (34 + 14 * o (i + 1))%nat by (unfold o; lia).
  reflexivity.
Qed.

Lemma read_descs_spec buf n : (34 + 14 * n <= length buf)%nat -> (14 * n < o 65536)%nat ->
  read_descs buf n 0 = Some (spec_descs buf n).
Proof.
  intros H1 H2. rewrite read_descs_gen by (unfold o in *; lia). reflexivity.
Qed.

Lemma read_descs_length buf n : forall i ds, read_descs buf n i = Some ds -> length ds = n.
Proof.
  induction n as [|n IH]; intros i ds; cbn [read_descs].
  - intros H; injection H as <-; reflexivity.
  - destruct (read_emitee buf _); [|discriminate].
    destruct (read_descs buf n (i + 1)) eqn:E; [|discriminate].
    intros H; injection H as <-. cbn [length]. rewrite (IH _ _ E). reflexivity.
Qed.

(* ---------- counting the frames handed to the port ---------- *)
Fixpoint count_sends (l : list action) : nat :=
  match l with
  | [] => O
  | Send _ _ _ :: r => S (count_sends r)
  | _ :: r => count_sends r
  end.
Lemma count_sends_app a b : count_sends (a ++ b) = (count_sends a + count_sends b)%nat.
Proof. induction a as [|[| |] a IH]; cbn [app count_sends]; rewrite ?IH; reflexivity. Qed.

Definition kind_known (d : emitee) : bool := (d_type d =? 1) || (d_type d =? 0).
Lemma kind_known_iff d : kind_known d = true <-> d_type d = 0 \/ d_type d = 1.
Proof. unfold kind_known. rewrite orb_true_iff, !N.eqb_eq. tauto. Qed.

Lemma last_nonempty_indep {A} (a : A) l d d' : last (a :: l) d = last (a :: l) d'.
Proof.
  revert a; induction l as [|x l IH]; intros a; [reflexivity|].
  change (last (a :: x :: l) d) with (last (x :: l) d).
  change (last (a :: x :: l) d') with (last (x :: l) d'). apply IH.
Qed.

Section Emit.
  Variable ctx : N.
  Variable c : pcfg.
  Variable g : gcfg.
  Variable mtu : N.
  Hypothesis Hmtu : 576 <= mtu /\ mtu <= 9216.

  Notation step := (f_step ctx c g mtu).

  (* what one executed descriptor contributes *)
  Definition exec_desc (d : emitee) : list action := [Sleep (d_pause d); tx ctx (probe_frame c d)].

  (* ---- f_emit_all, characterised without the "last index" bookkeeping ---- *)
  (* is the descriptor at the last declared index of a known kind? *)
  Definition ack_due (ds : list emitee) : bool :=
    match ds with
    | [] => false
    | d :: _ => kind_known (last ds d)
    end.

  Lemma emit_all_spec s ds :
    f_emit_all ctx c s ds =
    flat_map (fun d => if kind_known d then exec_desc d else []) ds
    ++ (if ack_due ds then [tx ctx (ack_frame c s)] else []).
  Proof.
    induction ds as [|d r IH]; [reflexivity|].
    cbn [f_emit_all flat_map]. rewrite IH. unfold f_emit_one. fold (kind_known d).
    destruct r as [|d' r'].
    - cbn [flat_map ack_due last app]. destruct (kind_known d); cbn [app]; reflexivity.
    - change (ack_due (d :: d' :: r')) with (kind_known (last (d' :: r') d)).
      change (ack_due (d' :: r')) with (kind_known (last (d' :: r') d')).
      replace (last (d' :: r') d) with (last (d' :: r') d').
      2:{ apply last_nonempty_indep. }
      rewrite app_nil_r, <- !app_assoc. destruct (kind_known d); reflexivity.
  Qed.

  Lemma emit_all_known s ds : ds <> [] -> Forall (fun d => d_type d = 0 \/ d_type d = 1) ds ->
    f_emit_all ctx c s ds = flat_map exec_desc ds ++ [tx ctx (ack_frame c s)].
  Proof. clear Hmtu.
    intros Hne Hk. induction ds as [|d r IH]; [congruence|].
    inversion Hk as [|? ? Hd Hr]; subst.
    cbn [f_emit_all flat_map]. unfold f_emit_one. fold (kind_known d).
    rewrite (proj2 (kind_known_iff d) Hd).
    destruct r as [|d' r'].
    - reflexivity.
    - rewrite IH by (auto; discriminate). rewrite app_nil_r, <- app_assoc. reflexivity.
  Qed.

  Lemma emit_all_count s ds : (count_sends (f_emit_all ctx c s ds) <= length ds + 1)%nat.
  Proof. clear Hmtu.
    induction ds as [|d r IH]; [cbn; lia|].
    cbn [f_emit_all length]. rewrite count_sends_app. unfold f_emit_one, tx.
    destruct r as [|d' r']; [change (f_emit_all ctx c s []) with (@nil action) in *|];
      destruct ((d_type d =? 1) || (d_type d =? 0)); cbn [app count_sends length] in *; lia.
  Qed.

  (* ---- dispatch of one frame ---- *)
  Lemma pre_step_other s h : h_opc h <> opcode_discover -> pre_step s h = Some s.
  Proof.
    intros H. unfold pre_step. apply N.eqb_neq in H. rewrite H, andb_false_r. reflexivity.
  Qed.

  Lemma step_emit s buf h : parse_hdr buf = Some h -> h_tos h = tos_discovery -> h_opc h = opcode_emit ->
    step s buf = f_parse_emit ctx c mtu s h buf.
  Proof.
    intros Hp Ht Ho. unfold f_step. rewrite Hp, pre_step_other by (rewrite Ho; discriminate).
    unfold f_dispatch. rewrite Ht, Ho. reflexivity.
  Qed.

  Lemma step_probe s buf h : parse_hdr buf = Some h -> h_tos h = tos_discovery ->
    h_opc h = opcode_probe \/ h_opc h = opcode_train ->
    step s buf = (f_parse_probe c s h, []).
  Proof.
    intros Hp Ht Ho. unfold f_step. rewrite Hp, pre_step_other by (destruct Ho as [-> | ->]; discriminate).
    unfold f_dispatch. rewrite Ht. destruct Ho as [-> | ->]; reflexivity.
  Qed.

  Lemma step_query s buf h : parse_hdr buf = Some h -> h_tos h = tos_discovery -> h_opc h = opcode_query ->
    step s buf = f_parse_query ctx c mtu s h.
  Proof.
    intros Hp Ht Ho. unfold f_step. rewrite Hp, pre_step_other by (rewrite Ho; discriminate).
    unfold f_dispatch. rewrite Ht, Ho. reflexivity.
  Qed.

  Definition emit_fits (n : N) : bool :=
    (sz_hdr + sz_emit_hdr <=? mtu) && (n <=? (mtu - sz_hdr - sz_emit_hdr) / sz_emitee).

  Lemma emit_fits_true n : n <= (mtu - 34) / 14 -> emit_fits n = true.
  Proof.
    intros H. unfold emit_fits, sz_hdr, sz_emit_hdr, sz_emitee.
    apply andb_true_iff; split; apply N.leb_le; lia.
  Qed.
  Lemma emit_fits_false n : n > (mtu - 34) / 14 -> emit_fits n = false.
  Proof. clear Hmtu.
    intros H. unfold emit_fits, sz_hdr, sz_emit_hdr, sz_emitee.
    apply andb_false_iff; right; apply N.leb_gt; lia.
  Qed.

  (* ---- C06 ---- *)
  (* general form: any mix of descriptor kinds; the state after the frame is [s1] *)
  Theorem C06_emit_any s buf h :
    parse_hdr buf = Some h -> h_tos h = tos_discovery -> h_opc h = opcode_emit ->
    h_w0 h <= (mtu - 34) / 14 -> (o mtu <= length buf)%nat ->
    let s1 := with_seq (set_active s h) (h_seq h) in
    step s buf = (s1, f_emit_all ctx c s1 (spec_descs buf (o (h_w0 h)))).
  Proof.
    intros Hp Ht Ho Hhi Hlen s1. rewrite (step_emit s buf h Hp Ht Ho).
    unfold f_parse_emit. fold (emit_fits (h_w0 h)). rewrite (emit_fits_true _ Hhi). cbn [negb].
    rewrite read_descs_spec by (unfold o in *; lia). reflexivity.
  Qed.

  (* the same, with the executed frames spelled out: descriptors of an unknown kind are
     skipped, the acknowledgement is sent only if the last declared one is of a known kind *)
  Corollary C06_emit_any_frames s buf h :
    parse_hdr buf = Some h -> h_tos h = tos_discovery -> h_opc h = opcode_emit ->
    h_w0 h <= (mtu - 34) / 14 -> (o mtu <= length buf)%nat ->
    let s1 := with_seq (set_active s h) (h_seq h) in
    let ds := spec_descs buf (o (h_w0 h)) in
    snd (step s buf) =
    flat_map (fun d => if kind_known d then [Sleep (d_pause d); tx ctx (probe_frame c d)] else []) ds
    ++ (if ack_due ds then [tx ctx (ack_frame c s1)] else []).
  Proof.
    intros Hp Ht Ho Hhi Hlen s1 ds. rewrite (C06_emit_any s buf h Hp Ht Ho Hhi Hlen).
    cbn [snd]. apply emit_all_spec.
  Qed.

  Theorem C06_emit s buf h :
    parse_hdr buf = Some h -> h_tos h = tos_discovery -> h_opc h = opcode_emit ->
    1 <= h_w0 h -> h_w0 h <= (mtu - 34) / 14 -> (o mtu <= length buf)%nat ->
    let ds := spec_descs buf (o (h_w0 h)) in
    Forall (fun d => d_type d = 0 \/ d_type d = 1) ds ->
    active s = Some (h_rsrc h) ->
    snd (step s buf) =
      flat_map (fun d => [Sleep (d_pause d); tx ctx (probe_frame c d)]) ds
      ++ [tx ctx (header_bytes (own c) (mapp s) (own c) (h_rsrc h) (h_seq h) opcode_ack tos_discovery)]
    /\ active (fst (step s buf)) = Some (h_rsrc h).
  Proof.
    intros Hp Ht Ho Hlo Hhi Hlen ds Hk Ha.
    apply active_some in Ha. destruct Ha as [Hkn Hm].
    rewrite (C06_emit_any s buf h Hp Ht Ho Hhi Hlen). cbn [fst snd].
    assert (Hs : set_active s h = s) by (unfold set_active; rewrite Hkn; reflexivity).
    rewrite Hs. split.
    - fold ds. rewrite emit_all_known; auto.
      + unfold ack_frame. cbn [mapp mreal mseq with_seq]. rewrite Hm. reflexivity.
      + intros E. assert (L := spec_descs_length buf (o (h_w0 h))). fold ds in L. rewrite E in L.
        cbn [length] in L. unfold o in L. lia.
    - apply active_some. cbn [known mreal with_seq]. auto.
  Qed.

  (* a declared count that does not fit the MTU: nothing happens at all *)
  Theorem C06_nofit s buf h :
    parse_hdr buf = Some h -> h_tos h = tos_discovery -> h_opc h = opcode_emit ->
    h_w0 h > (mtu - 34) / 14 -> step s buf = (s, []).
  Proof.
    intros Hp Ht Ho Hhi. rewrite (step_emit s buf h Hp Ht Ho).
    unfold f_parse_emit. fold (emit_fits (h_w0 h)). rewrite (emit_fits_false _ Hhi). reflexivity.
  Qed.

  (* whatever the declared count and whatever the buffer holds *)
  Theorem C06_bound s buf h :
    parse_hdr buf = Some h -> h_tos h = tos_discovery -> h_opc h = opcode_emit ->
    (count_sends (snd (step s buf)) <= o ((mtu - 34) / 14) + 1)%nat.
  Proof. clear Hmtu.
    intros Hp Ht Ho. rewrite (step_emit s buf h Hp Ht Ho).
    unfold f_parse_emit. fold (emit_fits (h_w0 h)).
    destruct (emit_fits (h_w0 h)) eqn:Hf; cbn [negb]; [|cbn; lia].
    assert (Hn : h_w0 h <= (mtu - 34) / 14).
    { unfold emit_fits, sz_hdr, sz_emit_hdr, sz_emitee in Hf. apply andb_true_iff in Hf.
      destruct Hf as [_ Hf]. apply N.leb_le in Hf. lia. }
    destruct (read_descs buf (o (h_w0 h)) 0) as [ds|] eqn:E; cbn [snd]; [|cbn; lia].
    apply read_descs_length in E.
    pose proof (emit_all_count (with_seq (set_active s h) (h_seq h)) ds) as Hc.
    unfold o in *. lia.
  Qed.

  (* ---- Query: what the next QueryResp lists ---- *)
  Lemma query_reports s q hq :
    parse_hdr q = Some hq -> h_tos hq = tos_discovery -> h_opc hq = opcode_query ->
    snd (step s q) =
    [tx ctx (qresp_frame c hq (h_seq hq) (firstn (qcap mtu) (see s)) (Nat.ltb (qcap mtu) (length (see s))))].
  Proof.
    intros Hp Ht Ho. rewrite (step_query s q hq Hp Ht Ho). reflexivity.
  Qed.

  Lemma qcap_pos : (1 <= qcap mtu)%nat.
  Proof. unfold qcap, o, sz_hdr, sz_qresp_hdr, desc_wire_size. lia. Qed.

  (* ---- observations stay recorded until a Query or a topology Reset ---- *)
  Lemma see_set_active s h : see (set_active s h) = see s.
  Proof. unfold set_active. destruct (known s); reflexivity. Qed.
  Lemma see_set_gen s t v : see (set_gen s t v) = see s.
  Proof. unfold set_gen. destruct (t =? tos_quick_discovery); reflexivity. Qed.

  Lemma see_answer_hello s h : see (fst (f_answer_hello ctx c g s h)) = see s.
  Proof.
    unfold f_answer_hello. cbn [fst].
    destruct ((get_gen (with_seq (set_active s h) (h_seq h)) (h_tos h) =? 0) && negb (h_w0 h =? 0));
      rewrite ?see_set_gen; cbn [see with_seq]; apply see_set_active.
  Qed.

  Lemma see_parse_emit s h buf : see (fst (f_parse_emit ctx c mtu s h buf)) = see s.
  Proof.
    unfold f_parse_emit. destruct (negb _); [reflexivity|].
    destruct (read_descs buf (o (h_w0 h)) 0); cbn [fst see with_seq]; apply see_set_active.
  Qed.

  Lemma see_parse_qlt s h : see (fst (f_parse_qlt ctx c g mtu s h)) = see s.
  Proof.
    unfold f_parse_qlt. destruct (h_seq h =? 0); [reflexivity|].
    destruct (h_b0 h =? tlv_iconImage).
    - destruct (icon (with_seq (set_active s h) (h_seq h))).
      + cbn [fst see with_seq]. apply see_set_active.
      + destruct (g_icon g); cbn [fst see with_seq with_icon]; apply see_set_active.
    - destruct (h_b0 h =? tlv_friendlyName); [cbn [fst see with_seq]; apply see_set_active|].
      destruct (h_b0 h =? tlv_hwIdProperty); cbn [fst see with_seq]; apply see_set_active.
  Qed.

  Lemma see_parse_probe s h : exists l, see (f_parse_probe c s h) = l ++ see s.
  Proof.
    unfold f_parse_probe.
    destruct (negb (mac_eqb (h_rdst h) (own c))); [exists []; reflexivity|].
    destruct (see_full s); [exists []; reflexivity|].
    destruct (existsb _ (see s)); [exists []; reflexivity|].
    eexists [_]. reflexivity.
  Qed.

  Definition drains_see (h : hdr) : Prop :=
    h_tos h = tos_discovery /\ (h_opc h = opcode_query \/ h_opc h = opcode_reset).

  (* a frame that is neither a Query nor a Reset of the topology-discovery service only ever
     adds to the list of observations *)
  Lemma see_grows s buf :
    (forall h, parse_hdr buf = Some h -> ~ drains_see h) ->
    exists l, see (fst (step s buf)) = l ++ see s.
  Proof. clear Hmtu.
    intros Hn. unfold f_step. destruct (parse_hdr buf) as [h|] eqn:Hp; [|exists []; reflexivity].
    specialize (Hn h eq_refl). unfold drains_see in Hn.
    destruct (pre_step s h) as [s1|] eqn:Hpre; [|exists []; reflexivity].
    assert (Hs1 : see s1 = see s).
    { unfold pre_step in Hpre. destruct (is_discovery_tos (h_tos h) && (h_opc h =? opcode_discover)).
      - destruct (matches s h); [|discriminate]. injection Hpre as <-.
        rewrite see_set_gen. apply see_set_active.
      - injection Hpre as <-. reflexivity. }
    rewrite <- Hs1. clear Hpre Hs1 s. rename s1 into s.
    unfold f_dispatch.
    destruct (h_tos h =? tos_discovery) eqn:Et.
    - apply N.eqb_eq in Et.
      destruct (h_opc h =? opcode_discover).
      { destruct (matches s h); [|exists []; reflexivity].
        pose proof (see_answer_hello s h) as Hh. destruct (f_answer_hello ctx c g s h) as [s' a].
        cbn [fst] in *. exists []. exact Hh. }
      destruct (h_opc h =? opcode_emit); [exists []; apply see_parse_emit|].
      destruct ((h_opc h =? opcode_train) || (h_opc h =? opcode_probe)); [cbn [fst]; apply see_parse_probe|].
      destruct (h_opc h =? opcode_query) eqn:Eq; [apply N.eqb_eq in Eq; tauto|].
      destruct (h_opc h =? opcode_queryLargeTlv); [exists []; apply see_parse_qlt|].
      destruct (h_opc h =? opcode_reset) eqn:Er; [apply N.eqb_eq in Er; tauto|].
      exists []; reflexivity.
    - destruct (h_tos h =? tos_quick_discovery); [|exists []; reflexivity].
      destruct (h_opc h =? opcode_discover).
      { destruct (matches s h); [|exists []; reflexivity]. exists []. apply see_answer_hello. }
      destruct (h_opc h =? opcode_queryLargeTlv); [exists []; apply see_parse_qlt|].
      destruct (h_opc h =? opcode_reset); exists []; reflexivity.
  Qed.

  Lemma see_kept s buf ob :
    (forall h, parse_hdr buf = Some h -> ~ drains_see h) ->
    In ob (see s) -> In ob (see (fst (step s buf))).
  Proof. clear Hmtu.
    intros Hn Hin. destruct (see_grows s buf Hn) as [l ->]. apply in_or_app. auto.
  Qed.

  Lemma see_kept_run bufs : forall s ob,
    Forall (fun buf => forall h, parse_hdr buf = Some h -> ~ drains_see h) bufs ->
    In ob (see s) -> In ob (see (fst (f_run ctx c g mtu s bufs))).
  Proof. clear Hmtu.
    induction bufs as [|b r IH]; intros s ob Hall Hin; [exact Hin|].
    inversion Hall as [|? ? Hb Hr]; subst. cbn [f_run].
    pose proof (see_kept s b ob Hb Hin) as H1.
    destruct (step s b) as [s1 a1]. cbn [fst] in H1.
    pose proof (IH s1 ob Hr H1) as H2.
    destruct (f_run ctx c g mtu s1 r) as [s2 a2]. exact H2.
  Qed.
End Emit.

(* ---------- C10 ---------- *)
(* reading back what [header_bytes] stores; 4 more bytes are needed because the header
   parser also fetches the two 16-bit words that follow the base header *)
Lemma parse_hdr_header esrc edst rsrc rdst seq opc tos p0 p1 p2 p3 rest :
  parse_hdr (header_bytes esrc edst rsrc rdst seq opc tos ++ p0 :: p1 :: p2 :: p3 :: rest) =
  Some {| h_edst := edst; h_esrc := esrc; h_tos := tos; h_opc := opc; h_rdst := rdst; h_rsrc := rsrc;
          h_seq := ((seq / 256) mod 256) * 256 + seq mod 256;
          h_w0 := p0 * 256 + p1; h_b0 := p0; h_w1 := p2 * 256 + p3 |}.
Proof. destruct esrc, edst, rsrc, rdst. reflexivity. Qed.

Definition probe_opcode (d : emitee) : N := if d_type d =? 1 then opcode_probe else opcode_train.

Lemma parse_probe_frame cA d pad : (4 <= length pad)%nat ->
  exists h, parse_hdr (probe_frame cA d ++ pad) = Some h
    /\ h_tos h = tos_discovery /\ h_opc h = probe_opcode d
    /\ h_edst h = d_dst d /\ h_esrc h = d_src d
    /\ h_rdst h = d_dst d /\ h_rsrc h = own cA /\ h_seq h = 0.
Proof.
  intros L. do 4 (destruct pad as [|? pad]; [cbn [length] in L; lia|]).
  unfold probe_frame. rewrite parse_hdr_header. eexists. split; [reflexivity|].
  cbn [h_tos h_opc h_edst h_esrc h_rdst h_rsrc h_seq]. unfold probe_opcode. repeat split; reflexivity.
Qed.

Section Peer.
  Variable cA : pcfg.                 (* the emitting responder *)
  Variable ctxB : N.                  (* the observing responder *)
  Variable cB : pcfg.
  Variable gB : gcfg.
  Variable mtuB : N.

  Notation stepB := (f_step ctxB cB gB mtuB).

  (* what B records about the probe described by [d] *)
  Definition obs_of (d : emitee) : obs :=
    {| o_type := d_type d; o_rsrc := own cA; o_esrc := d_src d; o_edst := d_dst d |}.

  Lemma peer_step d pad sB : (4 <= length pad)%nat -> d_type d = 0 \/ d_type d = 1 -> d_dst d = own cB ->
    stepB sB (probe_frame cA d ++ pad) =
    ((if see_full sB then sB else
      if existsb (obs_key_eqb (obs_of d)) (see sB) then sB else with_see sB (obs_of d :: see sB)), []).
  Proof.
    intros L Hk Hd.
    destruct (parse_probe_frame cA d pad L) as (h & Hp & Ht & Ho & Hed & Hes & Hrd & Hrs & Hsq).
    assert (Ho' : h_opc h = opcode_probe \/ h_opc h = opcode_train).
    { rewrite Ho. unfold probe_opcode. destruct Hk as [-> | ->]; cbn; auto. }
    rewrite (step_probe ctxB cB gB mtuB sB _ h Hp Ht Ho'). f_equal.
    unfold f_parse_probe. rewrite Hrd, Hd, mac_eqb_refl. cbn [negb].
    assert (Hob : {| o_type := if h_opc h =? opcode_probe then 1 else 0;
                     o_rsrc := h_rsrc h; o_esrc := h_esrc h; o_edst := h_edst h |} = obs_of d).
    { unfold obs_of. rewrite Hrs, Hes, Hed, Ho. unfold probe_opcode. destruct Hk as [-> | ->]; reflexivity. }
    rewrite Hob. reflexivity.
  Qed.

  Theorem C10_peer d pad sB :
    (4 <= length pad)%nat -> (d_type d = 0 \/ d_type d = 1) -> d_dst d = own cB ->
    let fr := probe_frame cA d ++ pad in
    let ob := {| o_type := d_type d; o_rsrc := own cA; o_esrc := d_src d; o_edst := d_dst d |} in
    snd (stepB sB fr) = []
    /\ (see_full sB = false -> existsb (obs_key_eqb ob) (see sB) = false ->
        see (fst (stepB sB fr)) = ob :: see sB)
    /\ (existsb (obs_key_eqb ob) (see sB) = true -> fst (stepB sB fr) = sB).
  Proof.
    intros L Hk Hd fr ob. subst fr. rewrite (peer_step d pad sB L Hk Hd). fold (obs_of d). fold (obs_of d) in ob.
    subst ob. cbn [fst snd]. split; [reflexivity|]. split.
    - intros -> ->. reflexivity.
    - intros ->. destruct (see_full sB); reflexivity.
  Qed.

  (* B's next QueryResp lists the observation, with A as the real source *)
  Theorem C10_reported d pad sB q hq :
    576 <= mtuB /\ mtuB <= 9216 ->
    (4 <= length pad)%nat -> (d_type d = 0 \/ d_type d = 1) -> d_dst d = own cB ->
    let fr := probe_frame cA d ++ pad in
    let ob := {| o_type := d_type d; o_rsrc := own cA; o_esrc := d_src d; o_edst := d_dst d |} in
    see_full sB = false -> existsb (obs_key_eqb ob) (see sB) = false ->
    parse_hdr q = Some hq -> h_tos hq = tos_discovery -> h_opc hq = opcode_query ->
    let sB' := fst (stepB sB fr) in
    snd (stepB sB' q) =
    [tx ctxB (qresp_frame cB hq (h_seq hq) (ob :: firstn (qcap mtuB - 1) (see sB))
                          (Nat.ltb (qcap mtuB) (S (length (see sB)))))].
  Proof.
    intros Hm L Hk Hd fr ob Hf He Hp Ht Ho sB'.
    rewrite (query_reports ctxB cB gB mtuB sB' q hq Hp Ht Ho).
    destruct (C10_peer d pad sB L Hk Hd) as (_ & Hsee & _). specialize (Hsee Hf He).
    fold fr in Hsee. fold sB' in Hsee. fold ob in Hsee. rewrite Hsee.
    pose proof (qcap_pos mtuB Hm) as Hq.
    destruct (qcap mtuB) as [|k]; [lia|].
    cbn [firstn length]. replace (S k - 1)%nat with k by lia. reflexivity.
  Qed.

  (* ... and so does a later one, as long as no Query or topology Reset came in between and the
     list still fits one response *)
  Theorem C10_reported_later d pad sB mid q hq :
    576 <= mtuB /\ mtuB <= 9216 ->
    (4 <= length pad)%nat -> (d_type d = 0 \/ d_type d = 1) -> d_dst d = own cB ->
    let fr := probe_frame cA d ++ pad in
    let ob := {| o_type := d_type d; o_rsrc := own cA; o_esrc := d_src d; o_edst := d_dst d |} in
    see_full sB = false -> existsb (obs_key_eqb ob) (see sB) = false ->
    Forall (fun buf => forall h, parse_hdr buf = Some h -> ~ drains_see h) mid ->
    parse_hdr q = Some hq -> h_tos hq = tos_discovery -> h_opc hq = opcode_query ->
    let sB' := fst (f_run ctxB cB gB mtuB (fst (stepB sB fr)) mid) in
    (length (see sB') <= qcap mtuB)%nat ->
    exists reported,
      snd (stepB sB' q) = [tx ctxB (qresp_frame cB hq (h_seq hq) reported false)] /\ In ob reported.
  Proof.
    intros Hm L Hk Hd fr ob Hf He Hmid Hp Ht Ho sB' Hlen.
    rewrite (query_reports ctxB cB gB mtuB sB' q hq Hp Ht Ho).
    exists (see sB'). split.
    - rewrite firstn_all2 by exact Hlen.
      replace (Nat.ltb (qcap mtuB) (length (see sB'))) with false; [reflexivity|].
      symmetry. apply Nat.ltb_ge. exact Hlen.
    - apply see_kept_run; [exact Hmid|].
      destruct (C10_peer d pad sB L Hk Hd) as (_ & Hsee & _). specialize (Hsee Hf He).
      fold fr in Hsee. fold ob in Hsee. rewrite Hsee. left. reflexivity.
  Qed.
End Peer.

(* ---------- the hypotheses are satisfiable: a concrete Emit with two descriptors ---------- *)
Module Ex.
  Definition macR : mac := Mac 2 0 0 0 0 1.      (* the responder *)
  Definition macM : mac := Mac 2 0 0 0 0 9.      (* the mapper *)
  Definition macP : mac := Mac 2 0 0 0 0 2.      (* a peer *)
  Definition cR : pcfg :=
    {| c_rxsize := 1500; c_mtu := Some 576; c_mac := Some macR; c_flags := 0; c_iftype := None;
       c_ipv4 := None; c_ipv6 := None; c_speed := None; c_wifi := None; c_bssid := None;
       c_ssid := []; c_rate := None; c_rssi := None |}.
  Definition gR : gcfg := {| g_host := []; g_icon := None; g_fname := None; g_hwid := []; g_retfull := false |}.
  Definition d1 : emitee := {| d_type := 1; d_pause := 5; d_src := macR; d_dst := macP |}.
  Definition d2 : emitee := {| d_type := 0; d_pause := 7; d_src := macR; d_dst := macP |}.
  Definition desc_wire (d : emitee) : list N := [d_type d; d_pause d] ++ mac_bytes (d_src d) ++ mac_bytes (d_dst d).
  Definition emit_buf : list N :=
    header_bytes macM macR macM macR 77 opcode_emit tos_discovery ++ be16 2 ++ desc_wire d1 ++ desc_wire d2
    ++ repeat 0 (576 - 62).
  Definition s0 : ist :=
    {| see := []; known := true; mreal := macM; mapp := macM; mseq := 3; gen_t := 1; gen_q := 0; icon := None |}.

  Example emit_hyps : exists h,
    parse_hdr emit_buf = Some h /\ h_tos h = tos_discovery /\ h_opc h = opcode_emit
    /\ 1 <= h_w0 h /\ h_w0 h <= (576 - 34) / 14 /\ (o 576 <= length emit_buf)%nat
    /\ spec_descs emit_buf (o (h_w0 h)) = [d1; d2]
    /\ Forall (fun d => d_type d = 0 \/ d_type d = 1) (spec_descs emit_buf (o (h_w0 h)))
    /\ active s0 = Some (h_rsrc h).
  Proof.
    eexists. split; [vm_compute; reflexivity|]. cbn [h_tos h_opc h_w0 h_rsrc].
    split; [reflexivity|]. split; [reflexivity|].
    split; [vm_compute; congruence|]. split; [vm_compute; congruence|].
    split; [vm_compute; lia|]. split; [vm_compute; reflexivity|]. split; [|vm_compute; reflexivity].
    vm_compute. constructor; [right; reflexivity|]. constructor; [left; reflexivity|]. constructor.
  Qed.

  Example emit_run :
    snd (f_step 7 cR gR 576 s0 emit_buf) =
    [Sleep 5; tx 7 (probe_frame cR d1); Sleep 7; tx 7 (probe_frame cR d2);
     tx 7 (header_bytes macR macM macR macM 77 opcode_ack tos_discovery)].
  Proof. vm_compute. reflexivity. Qed.

  (* the peer: B = macP receives the first probe, then a Query *)
  Definition cP : pcfg :=
    {| c_rxsize := 1500; c_mtu := Some 576; c_mac := Some macP; c_flags := 0; c_iftype := None;
       c_ipv4 := None; c_ipv6 := None; c_speed := None; c_wifi := None; c_bssid := None;
       c_ssid := []; c_rate := None; c_rssi := None |}.
  Definition query_buf : list N :=
    header_bytes macM macP macM macP 78 opcode_query tos_discovery ++ repeat 0 28.
  Example peer_run :
    let sB' := fst (f_step 8 cP gR 576 fresh (probe_frame cR d1 ++ repeat 0 28)) in
    see sB' = [{| o_type := 1; o_rsrc := macR; o_esrc := macR; o_edst := macP |}]
    /\ exists hq, parse_hdr query_buf = Some hq /\
       snd (f_step 8 cP gR 576 sB' query_buf) =
       [tx 8 (qresp_frame cP hq 78 [{| o_type := 1; o_rsrc := macR; o_esrc := macR; o_edst := macP |}] false)].
  Proof. split; [vm_compute; reflexivity|]. eexists. split; vm_compute; reflexivity. Qed.
End Ex.

Print Assumptions C06_emit.
Print Assumptions C06_emit_any.
Print Assumptions C06_nofit.
Print Assumptions C06_bound.
Print Assumptions C10_peer.
Print Assumptions C10_reported.
Print Assumptions C10_reported_later.
