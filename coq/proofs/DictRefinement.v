(* DictRefinement.v - the executable dictionary of spec/SpecExec.v (the run-time
   oracle of property C16) refines the session table of model/Automata.v.

   [abs t] is the list of live slots of the table, each as a [dent].  For every
   table satisfying [Inv] and every operation, the dictionary operation applied
   to [abs t] is a permutation of [abs] of the table operation's result, the
   observable results agree, and this lifts to every history of operations
   starting from the empty table / empty dictionary. *)
From LLTD Require Import SpecExec.
From LLTD Require Import Automata TableProofs.
From Coq Require Import List NArith ZArith Bool Arith Lia ZifyBool ZifyN ZifyNat Permutation.
Import ListNotations.
Local Open Scope N_scope.

(* ================= the abstraction ================= *)
Definition dent_of (s : slot) : dent :=
  {| d_k0 := m0 (s_mac s); d_k1 := m1 (s_mac s); d_k2 := m2 (s_mac s);
     d_k3 := m3 (s_mac s); d_k4 := m4 (s_mac s); d_k5 := m5 (s_mac s);
     d_gen := s_gen s; d_seq := s_seq s; d_complete := s_complete s; d_last := s_last s |}.
Definition abs (t : stable) : dict := map dent_of (live (t_slots t)).

(* the dictionary operations with the key given as an address *)
Definition dm_has (d : dict) (m : mac) (g : N) : bool := d_has d (m0 m) (m1 m) (m2 m) (m3 m) (m4 m) (m5 m) g.
Definition dm_add (d : dict) (now : N) (m : mac) (g seq : N) : dict * bool :=
  d_add d now (m0 m) (m1 m) (m2 m) (m3 m) (m4 m) (m5 m) g seq.
Definition dm_remove (d : dict) (m : mac) (g : N) : dict := d_remove d (m0 m) (m1 m) (m2 m) (m3 m) (m4 m) (m5 m) g.
Definition dm_set_complete (d : dict) (m : mac) (g : N) (v : bool) : dict :=
  d_set_complete d (m0 m) (m1 m) (m2 m) (m3 m) (m4 m) (m5 m) g v.

(* the dictionary step corresponding to a table operation (what ocaml/driver.ml does) *)
Definition dstep (d : dict) (o : top) : dict :=
  match o with
  | TAdd now m g seq => fst (dm_add d now m g seq)
  | TFind _ _ => d
  | TRemove m g => dm_remove d m g
  | TClear => []
  | TComplete m g v => dm_set_complete d m g v
  | TTick now_s => d_tick d now_s
  end.

Definition is_some {A} (o : option A) : bool := match o with Some _ => true | None => false end.

(* ================= list facts ================= *)
Section ListFacts.
  Context {A B : Type}.
  Lemma filter_map_comm (f : A -> B) (p : B -> bool) l : filter p (map f l) = map f (filter (fun x => p (f x)) l).
  Proof. induction l as [|y r IH]; cbn [map filter]; [reflexivity|]. destruct (p (f y)); cbn [map]; rewrite IH; reflexivity. Qed.
  Lemma existsb_map_comm (f : A -> B) (p : B -> bool) l : existsb p (map f l) = existsb (fun x => p (f x)) l.
  Proof. induction l as [|y r IH]; cbn [map existsb]; [reflexivity|]. rewrite IH. reflexivity. Qed.
  Lemma forallb_map_comm (f : A -> B) (p : B -> bool) l : forallb p (map f l) = forallb (fun x => p (f x)) l.
  Proof. induction l as [|y r IH]; cbn [map forallb]; [reflexivity|]. rewrite IH. reflexivity. Qed.
  Lemma existsb_find (p : A -> bool) l : existsb p l = is_some (find p l).
  Proof. induction l as [|y r IH]; cbn [existsb find]; [reflexivity|]. destruct (p y); cbn [orb is_some]; auto. Qed.
  Lemma Permutation_filter' (p : A -> bool) l l' : Permutation l l' -> Permutation (filter p l) (filter p l').
  Proof.
    induction 1 as [|x l l' _ IH|x y l|l l' l'' _ IH1 _ IH2]; cbn [filter].
    - constructor.
    - destruct (p x); [constructor|]; exact IH.
    - destruct (p x), (p y); try apply Permutation_refl. constructor.
    - eapply Permutation_trans; eassumption.
  Qed.
  Lemma Permutation_existsb (p : A -> bool) l l' : Permutation l l' -> existsb p l = existsb p l'.
  Proof.
    induction 1 as [|x l l' _ IH|x y l|l l' l'' _ IH1 _ IH2]; cbn [existsb].
    - reflexivity.
    - rewrite IH. reflexivity.
    - destruct (p x), (p y); reflexivity.
    - congruence.
  Qed.
  Lemma Permutation_forallb (p : A -> bool) l l' : Permutation l l' -> forallb p l = forallb p l'.
  Proof.
    induction 1 as [|x l l' _ IH|x y l|l l' l'' _ IH1 _ IH2]; cbn [forallb].
    - reflexivity.
    - rewrite IH. reflexivity.
    - destruct (p x), (p y); reflexivity.
    - congruence.
  Qed.
End ListFacts.

(* ================= the dictionary operations respect Permutation ================= *)
(* none of these needs NoDup: [d_add] refreshes EVERY entry with the key, which is
   insensitive to order; NoDup is what makes that coincide with the table's
   "refresh the first match" (see [upd_unique] below). *)
Section Perm.
  Variables (d d' : dict) (k0 k1 k2 k3 k4 k5 g : N).
  Hypothesis P : Permutation d d'.

  Lemma d_has_perm : d_has d k0 k1 k2 k3 k4 k5 g = d_has d' k0 k1 k2 k3 k4 k5 g.
  Proof. unfold d_has. apply Permutation_existsb, P. Qed.

  Lemma d_add_perm now seq :
    Permutation (fst (d_add d now k0 k1 k2 k3 k4 k5 g seq)) (fst (d_add d' now k0 k1 k2 k3 k4 k5 g seq)) /\
    snd (d_add d now k0 k1 k2 k3 k4 k5 g seq) = snd (d_add d' now k0 k1 k2 k3 k4 k5 g seq).
  Proof.
    unfold d_add. rewrite <- d_has_perm. rewrite <- (Permutation_length P).
    destruct (d_has d k0 k1 k2 k3 k4 k5 g).
    - cbn [fst snd]. split; [apply Permutation_map, P|reflexivity].
    - destruct (length d <? 16)%nat; cbn [fst snd]; split; try reflexivity; [apply Permutation_app_tail, P|exact P].
  Qed.

  Lemma d_remove_perm : Permutation (d_remove d k0 k1 k2 k3 k4 k5 g) (d_remove d' k0 k1 k2 k3 k4 k5 g).
  Proof. unfold d_remove. apply Permutation_filter', P. Qed.

  Lemma d_set_complete_perm v :
    Permutation (d_set_complete d k0 k1 k2 k3 k4 k5 g v) (d_set_complete d' k0 k1 k2 k3 k4 k5 g v).
  Proof. unfold d_set_complete. apply Permutation_map, P. Qed.

  Lemma d_tick_perm now_s : Permutation (d_tick d now_s) (d_tick d' now_s).
  Proof. unfold d_tick. apply Permutation_filter', P. Qed.

  Lemma d_all_complete_perm : d_all_complete d = d_all_complete d'.
  Proof. unfold d_all_complete. apply Permutation_forallb, P. Qed.
End Perm.

Lemma dstep_perm d d' o : Permutation d d' -> Permutation (dstep d o) (dstep d' o).
Proof.
  intros P. destruct o as [now m g seq|m g|m g| |m g v|now_s]; cbn [dstep].
  - apply d_add_perm, P.
  - exact P.
  - apply d_remove_perm, P.
  - constructor.
  - apply d_set_complete_perm, P.
  - apply d_tick_perm, P.
Qed.

(* ================= keys ================= *)
Lemma dkey_dent_of s m g : dkey (dent_of s) (m0 m) (m1 m) (m2 m) (m3 m) (m4 m) (m5 m) g = key_is m g s.
Proof. reflexivity. Qed.

Lemma dm_has_abs l m g : dm_has (map dent_of l) m g = existsb (key_is m g) l.
Proof. unfold dm_has, d_has. rewrite existsb_map_comm. reflexivity. Qed.

(* with unique keys, "update every entry with the key" is "update the one entry" *)
Lemma others_nokey m g l1 s l2 :
  NoDup (keys (l1 ++ s :: l2)) -> key_is m g s = true -> forall x, In x (l1 ++ l2) -> key_is m g x = false.
Proof.
  intros N K x Hx. unfold keys in N. rewrite map_app in N. cbn [map] in N. apply NoDup_remove_2 in N.
  destruct (key_is m g x) eqn:Kx; [|reflexivity]. exfalso. apply N.
  apply key_is_eq in K. apply key_is_eq in Kx. rewrite K, <- Kx, <- map_app.
  change (s_mac x, s_gen x) with ((fun s => (s_mac s, s_gen s)) x). apply in_map. exact Hx.
Qed.
Lemma map_nokey_id m g (f : slot -> slot) l :
  (forall x, In x l -> key_is m g x = false) -> map (fun x => if key_is m g x then f x else x) l = l.
Proof.
  induction l as [|y r IH]; cbn [map]; intros H; [reflexivity|].
  rewrite (H y) by (left; reflexivity). rewrite IH; [reflexivity|]. intros x Hx. apply H. right. exact Hx.
Qed.
Lemma upd_unique m g f l1 s l2 :
  NoDup (keys (l1 ++ s :: l2)) -> key_is m g s = true ->
  map (fun x => if key_is m g x then f x else x) (l1 ++ s :: l2) = l1 ++ f s :: l2.
Proof.
  intros N K. pose proof (others_nokey _ _ _ _ _ N K) as O.
  rewrite map_app. cbn [map]. rewrite K. rewrite !map_nokey_id; [reflexivity| |]; intros x Hx; apply O, in_or_app; auto.
Qed.

(* ================= the dictionary operations on an abstracted list ================= *)
Lemma dm_add_has l now m g seq :
  existsb (key_is m g) l = true ->
  dm_add (map dent_of l) now m g seq = (map dent_of (map (fun s => if key_is m g s then refresh seq now s else s) l), true).
Proof.
  intros H. unfold dm_add, d_add.
  change (d_has (map dent_of l) (m0 m) (m1 m) (m2 m) (m3 m) (m4 m) (m5 m) g) with (dm_has (map dent_of l) m g).
  rewrite dm_has_abs, H. f_equal. rewrite !map_map. apply map_ext. intros s. rewrite dkey_dent_of.
  destruct (key_is m g s); reflexivity.
Qed.
Lemma dm_add_new l now m g seq :
  existsb (key_is m g) l = false ->
  dm_add (map dent_of l) now m g seq =
  if (length l <? 16)%nat then (map dent_of l ++ [dent_of (new_slot m g seq now)], true) else (map dent_of l, false).
Proof.
  intros H. unfold dm_add, d_add.
  change (d_has (map dent_of l) (m0 m) (m1 m) (m2 m) (m3 m) (m4 m) (m5 m) g) with (dm_has (map dent_of l) m g).
  rewrite dm_has_abs, H, map_length. reflexivity.
Qed.
Lemma dm_set_complete_map l m g v :
  dm_set_complete (map dent_of l) m g v = map dent_of (map (fun s => if key_is m g s then mark v s else s) l).
Proof.
  unfold dm_set_complete, d_set_complete. rewrite !map_map. apply map_ext. intros s. rewrite dkey_dent_of.
  destruct (key_is m g s); reflexivity.
Qed.
Lemma dm_remove_map l m g : dm_remove (map dent_of l) m g = map dent_of (filter (fun y => negb (key_is m g y)) l).
Proof. unfold dm_remove, d_remove. rewrite filter_map_comm. reflexivity. Qed.
Lemma d_tick_map l now_s : d_tick (map dent_of l) now_s = map dent_of (filter (fresh_at now_s) l).
Proof. unfold d_tick. rewrite filter_map_comm. reflexivity. Qed.

(* the completion update on the live view (TableProofs only characterises keys and dget) *)
Lemma st_set_complete_live t m g v :
  Inv t ->
  live (t_slots (fst (st_set_complete t m g v))) = map (fun s => if key_is m g s then mark v s else s) (live (t_slots t)).
Proof.
  intros I. unfold st_set_complete. destruct (st_find t m g) as [i|] eqn:F.
  - destruct (st_find_some _ _ _ _ F) as (a & s & b & E & Hl & Hv & Hk & D & Hn).
    cbn [fst st_update_status t_slots]. pose proof (inv_nodup t I) as N. rewrite E in N |- *. rewrite <- Hl, upd_nth_app.
    fold (mark v s). rewrite !live_app in *. rewrite ?live_cons in *. cbn [mark s_valid]. rewrite Hv in *.
    symmetry. apply upd_unique; assumption.
  - cbn [fst st_update_status t_slots]. symmetry. apply map_nokey_id. intros x Hx.
    apply find_idx_none, nomatch_live in F. rewrite forallb_forall in F. apply negb_true_iff, F, Hx.
Qed.

Lemma dget_some_key l m g s : dget l m g = Some s -> key_is m g s = true.
Proof. unfold dget. intros H. apply find_some in H. tauto. Qed.

(* ================= refinement, key given as an address ================= *)
Lemma dm_add_refines t now m g seq :
  Inv t ->
  Permutation (fst (dm_add (abs t) now m g seq)) (abs (fst (st_add t now m g seq))) /\
  snd (dm_add (abs t) now m g seq) = is_some (snd (st_add t now m g seq)).
Proof.
  intros I. unfold abs at 1 3.
  destruct (dget_cases (t_slots t) m g) as [[s D]|D].
  - assert (Hx : existsb (key_is m g) (live (t_slots t)) = true).
    { rewrite existsb_find. fold (dget (t_slots t) m g). rewrite D. reflexivity. }
    rewrite (dm_add_has _ now m g seq Hx). cbn [fst snd].
    destruct (st_add_existing t now m g seq s I D) as (l1 & l2 & i & E & R & L & I').
    assert (Hs : snd (st_add t now m g seq) = Some i) by (rewrite R; reflexivity).
    rewrite Hs. split; [|reflexivity].
    unfold abs. rewrite L, E. rewrite upd_unique.
    + apply Permutation_refl.
    + rewrite <- E. apply inv_nodup, I.
    + eapply dget_some_key, D.
  - assert (Hx : existsb (key_is m g) (live (t_slots t)) = false).
    { rewrite existsb_find. fold (dget (t_slots t) m g). rewrite D. reflexivity. }
    rewrite (dm_add_new _ now m g seq Hx).
    destruct (st_add_new t now m g seq I D) as [Hlt Heq]. destruct (inv_bound t I) as [_ Hb].
    destruct (length (live (t_slots t)) <? 16)%nat eqn:E16; cbn [fst snd].
    + destruct Hlt as (l1 & l2 & i & E & Hs & L & _ & _); [lia|]. rewrite Hs. split; [|reflexivity].
      unfold abs. rewrite L, E, !map_app. cbn [map].
      eapply Permutation_trans; [apply Permutation_sym, Permutation_cons_append|]. apply Permutation_middle.
    + rewrite Heq by lia. cbn [fst snd is_some]. split; [apply Permutation_refl|reflexivity].
Qed.

Lemma dm_remove_refines t m g : Inv t -> dm_remove (abs t) m g = abs (st_remove t m g).
Proof. intros I. unfold abs. rewrite dm_remove_map. rewrite (proj2 (st_remove_spec t m g I)). reflexivity. Qed.

Lemma dm_complete_refines t m g v : Inv t -> dm_set_complete (abs t) m g v = abs (fst (st_set_complete t m g v)).
Proof. intros I. unfold abs. rewrite dm_set_complete_map, st_set_complete_live by exact I. reflexivity. Qed.

Lemma dm_find_refines t m g : dm_has (abs t) m g = is_some (st_find t m g).
Proof.
  unfold abs. rewrite dm_has_abs, existsb_find. fold (dget (t_slots t) m g).
  destruct (st_find t m g) as [i|] eqn:F.
  - destruct (st_find_some _ _ _ _ F) as (a & s & b & _ & _ & _ & _ & D & _). rewrite D. reflexivity.
  - rewrite (st_find_none _ _ _ F). reflexivity.
Qed.

(* ================= the requested statements (key given as six octets) ================= *)
Section Octets.
  Variables k0 k1 k2 k3 k4 k5 : N.
  Let m := Mac k0 k1 k2 k3 k4 k5.

  (* 1. add: the dictionaries agree up to order; "stored" iff the table returned a slot *)
  Theorem dict_add_refines t now g seq :
    Inv t ->
    Permutation (fst (d_add (abs t) now k0 k1 k2 k3 k4 k5 g seq)) (abs (fst (st_add t now m g seq))) /\
    (snd (d_add (abs t) now k0 k1 k2 k3 k4 k5 g seq) = true <-> snd (st_add t now m g seq) <> None) /\
    (snd (d_add (abs t) now k0 k1 k2 k3 k4 k5 g seq) = false <->
       d_has (abs t) k0 k1 k2 k3 k4 k5 g = false /\ length (abs t) = 16%nat).
  Proof.
    intros I. destruct (dm_add_refines t now m g seq I) as [P R]. split; [exact P|]. split.
    - change (d_add (abs t) now k0 k1 k2 k3 k4 k5 g seq) with (dm_add (abs t) now m g seq). rewrite R.
      destruct (snd (st_add t now m g seq)); cbn [is_some]; split; congruence.
    - unfold d_add. destruct (inv_bound t I) as [_ Hb]. unfold abs at 3 5. rewrite map_length.
      destruct (d_has (abs t) k0 k1 k2 k3 k4 k5 g); cbn [snd]; [split; [discriminate|intros [? _]; discriminate]|].
      unfold abs. rewrite map_length.
      destruct (length (live (t_slots t)) <? 16)%nat eqn:E; cbn [snd]; split; try discriminate; try tauto.
      + intros [_ H]. lia.
      + intros _. split; [reflexivity|lia].
  Qed.

  Theorem dict_remove_refines t g :
    Inv t -> Permutation (d_remove (abs t) k0 k1 k2 k3 k4 k5 g) (abs (st_remove t m g)).
  Proof. intros I. change (d_remove (abs t) k0 k1 k2 k3 k4 k5 g) with (dm_remove (abs t) m g). rewrite dm_remove_refines by exact I. apply Permutation_refl. Qed.

  Theorem dict_complete_refines t g v :
    Inv t -> Permutation (d_set_complete (abs t) k0 k1 k2 k3 k4 k5 g v) (abs (fst (st_set_complete t m g v))).
  Proof. intros I. change (d_set_complete (abs t) k0 k1 k2 k3 k4 k5 g v) with (dm_set_complete (abs t) m g v). rewrite dm_complete_refines by exact I. apply Permutation_refl. Qed.

  Theorem dict_find_refines t g : d_has (abs t) k0 k1 k2 k3 k4 k5 g = true <-> st_find t m g <> None.
  Proof.
    change (d_has (abs t) k0 k1 k2 k3 k4 k5 g) with (dm_has (abs t) m g). rewrite dm_find_refines.
    destruct (st_find t m g); cbn [is_some]; split; congruence.
  Qed.
End Octets.

Theorem dict_clear_refines t : Permutation [] (abs (st_clear t)).
Proof. unfold abs, st_clear. cbn [t_slots]. rewrite live_repeat0. constructor. Qed.

Theorem dict_tick_refines t now_s : Inv t -> Permutation (d_tick (abs t) now_s) (abs (tick_table now_s t)).
Proof. intros I. unfold abs. rewrite d_tick_map, (proj2 (tick_table_spec now_s t I)). apply Permutation_refl. Qed.

Theorem dict_all_complete_refines t : Inv t -> d_all_complete (abs t) = t_allc t.
Proof. intros I. unfold d_all_complete, abs. rewrite forallb_map_comm, (inv_allc t I). reflexivity. Qed.

Theorem dict_count t : Inv t -> length (abs t) = N.to_nat (t_count t).
Proof. intros I. unfold abs. rewrite map_length, (inv_count t I). lia. Qed.

(* ================= histories ================= *)
Theorem dstep_refines t o : Inv t -> Permutation (dstep (abs t) o) (abs (tstep t o)).
Proof.
  intros I. destruct o as [now m g seq|m g|m g| |m g v|now_s]; cbn [dstep tstep].
  - apply dm_add_refines, I.
  - apply Permutation_refl.
  - rewrite dm_remove_refines by exact I. apply Permutation_refl.
  - apply dict_clear_refines.
  - rewrite dm_complete_refines by exact I. apply Permutation_refl.
  - apply dict_tick_refines, I.
Qed.

Lemma dict_history_from ops : forall d t,
  Inv t -> Permutation d (abs t) -> Permutation (fold_left dstep ops d) (abs (fold_left tstep ops t)).
Proof.
  induction ops as [|o r IH]; intros d t I P; cbn [fold_left]; [exact P|].
  apply IH; [apply tstep_inv, I|].
  eapply Permutation_trans; [apply dstep_perm, P|apply dstep_refines, I].
Qed.

Lemma abs_table0 : abs table0 = [].
Proof. unfold abs, table0. cbn [t_slots]. rewrite live_repeat0. reflexivity. Qed.

Theorem dict_history_refines ops : Permutation (fold_left dstep ops []) (abs (fold_left tstep ops table0)).
Proof. apply dict_history_from; [apply inv_table0|]. rewrite abs_table0. constructor. Qed.

(* everything the driver can observe after (hence: during) any history agrees *)
Theorem dict_history_observations ops :
  let d := fold_left dstep ops [] in
  let t := fold_left tstep ops table0 in
  length d = N.to_nat (t_count t) /\
  d_all_complete d = t_allc t /\
  (forall k0 k1 k2 k3 k4 k5 g, d_has d k0 k1 k2 k3 k4 k5 g = true <-> st_find t (Mac k0 k1 k2 k3 k4 k5) g <> None) /\
  (forall now k0 k1 k2 k3 k4 k5 g seq,
     snd (d_add d now k0 k1 k2 k3 k4 k5 g seq) = true <-> snd (st_add t now (Mac k0 k1 k2 k3 k4 k5) g seq) <> None).
Proof.
  cbv zeta. pose proof (dict_history_refines ops) as P. pose proof (reachable_inv ops table0 inv_table0) as I.
  set (d := fold_left dstep ops []) in *. set (t := fold_left tstep ops table0) in *.
  split; [rewrite (Permutation_length P); apply dict_count, I|].
  split; [rewrite (d_all_complete_perm _ _ P); apply dict_all_complete_refines, I|].
  split.
  - intros. rewrite (d_has_perm _ _ k0 k1 k2 k3 k4 k5 g P). apply dict_find_refines.
  - intros. rewrite (proj2 (d_add_perm _ _ k0 k1 k2 k3 k4 k5 g P now seq)). apply dict_add_refines, I.
Qed.

(* ================= a concrete history ================= *)
(* two keys A, B; B is re-added (3), completed (4), A expires (5), is looked up (6),
   re-enters (7: the table reuses slot 0, the dictionary appends - the orders now differ),
   is removed (8), re-enters again (9) and is completed (10) *)
Definition exA : mac := Mac 2 0 0 0 0 1.
Definition exB : mac := Mac 2 0 0 0 0 2.
Definition ex_ops : list top :=
  [TAdd 5 exA 7 1; TAdd 6 exB 7 1; TAdd 50 exB 7 2; TComplete exB 7 true; TTick 66;
   TFind exA 7; TAdd 67 exA 7 3; TRemove exA 7; TAdd 68 exA 7 4; TComplete exA 7 true].
Definition ex_dA : dent :=
  {| d_k0 := 2; d_k1 := 0; d_k2 := 0; d_k3 := 0; d_k4 := 0; d_k5 := 1; d_gen := 7; d_seq := 4; d_complete := true; d_last := 68 |}.
Definition ex_dB : dent :=
  {| d_k0 := 2; d_k1 := 0; d_k2 := 0; d_k3 := 0; d_k4 := 0; d_k5 := 2; d_gen := 7; d_seq := 2; d_complete := true; d_last := 50 |}.

Example dict_history_example :
  fold_left dstep ex_ops [] = [ex_dB; ex_dA] /\
  abs (fold_left tstep ex_ops table0) = [ex_dA; ex_dB] /\
  (* after the expiry (first five operations) only B is left on both sides *)
  fold_left dstep (firstn 5 ex_ops) [] = abs (fold_left tstep (firstn 5 ex_ops) table0) /\
  length (fold_left dstep (firstn 5 ex_ops) []) = 1%nat /\
  t_count (fold_left tstep ex_ops table0) = 2 /\ t_allc (fold_left tstep ex_ops table0) = true /\
  Permutation [ex_dB; ex_dA] [ex_dA; ex_dB].
Proof.
  repeat split; try (vm_compute; reflexivity).
  assert (E1 : fold_left dstep ex_ops [] = [ex_dB; ex_dA]) by (vm_compute; reflexivity).
  assert (E2 : abs (fold_left tstep ex_ops table0) = [ex_dA; ex_dB]) by (vm_compute; reflexivity).
  rewrite <- E1, <- E2. apply dict_history_refines.
Qed.

Print Assumptions dict_add_refines.
Print Assumptions dict_remove_refines.
Print Assumptions dict_complete_refines.
Print Assumptions dict_clear_refines.
Print Assumptions dict_tick_refines.
Print Assumptions dict_find_refines.
Print Assumptions dict_all_complete_refines.
Print Assumptions dict_count.
Print Assumptions d_add_perm.
Print Assumptions dict_history_refines.
Print Assumptions dict_history_observations.
Print Assumptions dict_history_example.
