(* PropsMapper.v - properties C03, C05 and C09 on the pure per-frame function
   f_step of model/BlockFun.v.

   C03  an accepted Discover is answered by exactly one correct Hello
   C05  one mapper at a time
   C09  a topology Reset returns the responder to fresh-start behaviour

   Everything is stated for EVERY state s, every buffer, every configuration
   (ctx, c, g, mtu); nothing is assumed about the history that produced s. *)
From Coq Require Import Lia ZifyBool ZifyN ZifyNat.
From LLTD Require Import BlockFun.
Local Open Scope N_scope.

(* ---- frame classes the properties speak of ---- *)
Definition is_discover (h : hdr) : bool :=
  is_discovery_tos (h_tos h) && (h_opc h =? opcode_discover).
Definition is_reset (h : hdr) : bool :=
  is_discovery_tos (h_tos h) && (h_opc h =? opcode_reset).
Definition is_command (h : hdr) : bool :=
  is_discovery_tos (h_tos h) &&
  ((h_opc h =? opcode_emit) || (h_opc h =? opcode_query) || (h_opc h =? opcode_queryLargeTlv)).

(* ---- Ethernet address equality ---- *)
Lemma mac_eqb_eq a b : mac_eqb a b = true <-> a = b.
Proof.
  destruct a as [a0 a1 a2 a3 a4 a5], b as [b0 b1 b2 b3 b4 b5]. unfold mac_eqb. cbn [m0 m1 m2 m3 m4 m5].
  rewrite !andb_true_iff, !N.eqb_eq. split.
  - intros [[[[[-> ->] ->] ->] ->] ->]. reflexivity.
  - intros E. injection E as -> -> -> -> -> ->. repeat split.
Qed.
Lemma mac_eqb_refl a : mac_eqb a a = true.
Proof. apply mac_eqb_eq. reflexivity. Qed.

Lemma matches_active s h : matches s h = true <-> (active s = None \/ active s = Some (h_rsrc h)).
Proof.
  unfold matches, active. destruct (known s); cbn [negb orb].
  - rewrite mac_eqb_eq. split.
    + intros ->. right. reflexivity.
    + intros [H|H]; [discriminate|]. injection H as H. exact H.
  - split; auto.
Qed.

(* ---- projections of the state updates ---- *)
Ltac prj := cbn [see known mreal mapp mseq gen_t gen_q icon].

Lemma known_set_gen s t v : known (set_gen s t v) = known s.
Proof. unfold set_gen. destruct (t =? tos_quick_discovery); reflexivity. Qed.
Lemma mreal_set_gen s t v : mreal (set_gen s t v) = mreal s.
Proof. unfold set_gen. destruct (t =? tos_quick_discovery); reflexivity. Qed.
Lemma get_set_gen s t v : get_gen (set_gen s t v) t = v.
Proof. unfold get_gen, set_gen. destruct (t =? tos_quick_discovery); reflexivity. Qed.
Lemma known_set_active s h : known (set_active s h) = true.
Proof. unfold set_active. destruct (known s) eqn:K; [exact K|reflexivity]. Qed.
Lemma set_active_known s h : known s = true -> set_active s h = s.
Proof. unfold set_active. intros ->. reflexivity. Qed.
Lemma mreal_set_active s h : matches s h = true -> mreal (set_active s h) = h_rsrc h.
Proof.
  unfold matches, set_active. destruct (known s); cbn [negb orb]; [|reflexivity].
  intros E. apply mac_eqb_eq. exact E.
Qed.
Lemma get_gen_with_seq s q t : get_gen (with_seq s q) t = get_gen s t.
Proof. reflexivity. Qed.

Lemma active_known s X : active s = Some X <-> known s = true /\ mreal s = X.
Proof.
  unfold active. destruct (known s).
  - split; [intros H; injection H as H; auto|intros [_ ->]; reflexivity].
  - split; [discriminate|intros [H _]; discriminate].
Qed.
Lemma active_none s : active s = None <-> known s = false.
Proof. unfold active. destruct (known s); split; congruence. Qed.

Lemma norm_idem s : norm (norm s) = norm s.
Proof. destruct s as [se [|] mr ma sq gt gq ic]; reflexivity. Qed.
Lemma norm_known s : known s = true -> norm s = s.
Proof. unfold norm. intros ->. reflexivity. Qed.

Ltac break1 :=
  match goal with
  | |- context [match ?c with _ => _ end] =>
      lazymatch c with
      | context [match _ with _ => _ end] => fail
      | _ => first [is_var c; destruct c | destruct c eqn:?]
      end
  end.

(* closed comparisons between protocol constants *)
Ltac closed_eqb :=
  repeat match goal with
  | |- context [N.eqb ?a ?b] =>
      is_const a; is_const b;
      let v := eval vm_compute in (N.eqb a b) in change (N.eqb a b) with v
  end.

Section Mapper.
  Variable ctx : N.
  Variable c : pcfg.
  Variable g : gcfg.
  Variable mtu : N.

  Notation step := (f_step ctx c g mtu).
  Notation run := (f_run ctx c g mtu).

  (* ================================================================== *)
  (*  The accepted Discover                                             *)
  (* ================================================================== *)

  (* the state after the pre-step of an accepted Discover *)
  Definition accepted (s : ist) (h : hdr) : ist := set_gen (set_active s h) (h_tos h) (h_w0 h).

  Lemma accepted_known s h : known (accepted s h) = true.
  Proof. unfold accepted. rewrite known_set_gen. apply known_set_active. Qed.
  Lemma accepted_mreal s h : matches s h = true -> mreal (accepted s h) = h_rsrc h.
  Proof. intros M. unfold accepted. rewrite mreal_set_gen. apply mreal_set_active. exact M. Qed.
  Lemma accepted_matches s h : matches s h = true -> matches (accepted s h) h = true.
  Proof.
    intros M. unfold matches at 1. rewrite accepted_known, (accepted_mreal _ _ M). apply mac_eqb_refl.
  Qed.

  Lemma answer_hello_accepted s h :
    f_answer_hello ctx c g (accepted s h) h =
    (with_seq (accepted s h) (h_seq h), [tx ctx (hello_frame c g h (h_w0 h))]).
  Proof.
    unfold f_answer_hello.
    rewrite (set_active_known (accepted s h) h (accepted_known s h)).
    assert (G : get_gen (with_seq (accepted s h) (h_seq h)) (h_tos h) = h_w0 h).
    { rewrite get_gen_with_seq. unfold accepted. apply get_set_gen. }
    rewrite G. destruct (h_w0 h =? 0); cbn [andb negb]; rewrite G; reflexivity.
  Qed.

  (* what parseFrame does with an accepted Discover, state and actions *)
  Lemma step_discover s buf h :
    parse_hdr buf = Some h -> is_discover h = true -> matches s h = true ->
    step s buf = (with_seq (accepted s h) (h_seq h),
                  (if h_tos h =? tos_discovery then [Sleep 10] else []) ++ [tx ctx (hello_frame c g h (h_w0 h))]).
  Proof.
    intros P D M. unfold f_step. rewrite P. unfold pre_step.
    unfold is_discover in D. rewrite D, M. fold (accepted s h).
    apply andb_prop in D as [T O]. unfold f_dispatch. rewrite O, (accepted_matches _ _ M), answer_hello_accepted.
    unfold is_discovery_tos in T. destruct (h_tos h =? tos_discovery); cbn [orb] in T; [reflexivity|].
    rewrite T. reflexivity.
  Qed.

  (* ================================================================== *)
  (*  C03                                                               *)
  (* ================================================================== *)

  Theorem C03_one_hello s buf h :
    parse_hdr buf = Some h -> is_discover h = true -> matches s h = true ->
    snd (step s buf) =
      (if h_tos h =? tos_discovery then [Sleep 10] else []) ++ [tx ctx (hello_frame c g h (h_w0 h))].
  Proof. intros P D M. rewrite (step_discover _ _ _ P D M). reflexivity. Qed.

  Theorem C03_generation_recorded s buf h :
    parse_hdr buf = Some h -> is_discover h = true -> matches s h = true ->
    get_gen (fst (step s buf)) (h_tos h) = h_w0 h.
  Proof.
    intros P D M. rewrite (step_discover _ _ _ P D M). cbn [fst].
    rewrite get_gen_with_seq. unfold accepted. apply get_set_gen.
  Qed.

  (* the Hello, field by field: what hello_frame is *)
  Lemma C03_hello_shape h gen :
    hello_frame c g h gen =
      header_bytes (own c) bcast (own c) bcast 0 opcode_hello (h_tos h)
      ++ be16 gen ++ mac_bytes (h_rsrc h) ++ mac_bytes (h_esrc h) ++ concat (hello_tlvs c g).
  Proof. reflexivity. Qed.

  Theorem C03_rejected s buf h :
    parse_hdr buf = Some h -> is_discover h = true -> matches s h = false -> step s buf = (s, []).
  Proof.
    intros P D M. unfold f_step. rewrite P. unfold pre_step. unfold is_discover in D. rewrite D, M. reflexivity.
  Qed.

  Theorem C03_hello_heard s buf h :
    parse_hdr buf = Some h -> h_opc h = opcode_hello -> step s buf = (s, []).
  Proof.
    intros P O. unfold f_step. rewrite P. unfold pre_step, f_dispatch. rewrite O. closed_eqb.
    rewrite andb_false_r. cbn [orb].
    destruct (h_tos h =? tos_discovery); [reflexivity|].
    destruct (h_tos h =? tos_quick_discovery); reflexivity.
  Qed.

  (* ================================================================== *)
  (*  C05                                                               *)
  (* ================================================================== *)

  Theorem C05_answered_iff s buf h :
    parse_hdr buf = Some h -> is_discover h = true ->
    (snd (step s buf) <> [] <-> (active s = None \/ active s = Some (h_rsrc h))).
  Proof.
    intros P D. rewrite <- matches_active. destruct (matches s h) eqn:M.
    - rewrite (C03_one_hello _ _ _ P D M). split; [reflexivity|]. intros _ E.
      apply app_eq_nil in E as [_ E]. discriminate.
    - rewrite (C03_rejected _ _ _ P D M). cbn [snd]. split; [intros H; exfalso; apply H; reflexivity|discriminate].
  Qed.

  Theorem C05_becomes_mapper s buf h :
    parse_hdr buf = Some h -> is_discover h = true -> matches s h = true ->
    active (fst (step s buf)) = Some (h_rsrc h).
  Proof.
    intros P D M. rewrite (step_discover _ _ _ P D M). cbn [fst].
    apply active_known. unfold with_seq. prj. split; [apply accepted_known|apply accepted_mreal; exact M].
  Qed.

  (* --- the handlers keep a known mapper, except Query which installs its sender --- *)
  Lemma answer_hello_active s h : known s = true -> active (fst (f_answer_hello ctx c g s h)) = active s.
  Proof.
    intros K. unfold f_answer_hello. rewrite (set_active_known _ _ K). cbn [fst].
    match goal with |- active (if ?b then _ else _) = _ => destruct b end; unfold active, with_seq; prj;
      rewrite ?known_set_gen, ?mreal_set_gen; prj; reflexivity.
  Qed.
  Lemma parse_emit_active s h buf : known s = true -> active (fst (f_parse_emit ctx c mtu s h buf)) = active s.
  Proof.
    intros K. unfold f_parse_emit. rewrite (set_active_known _ _ K).
    repeat break1; reflexivity.
  Qed.
  Lemma parse_probe_active s h : active (f_parse_probe c s h) = active s.
  Proof. unfold f_parse_probe. repeat break1; reflexivity. Qed.
  Lemma parse_query_active s h : active (fst (f_parse_query ctx c mtu s h)) = Some (h_rsrc h).
  Proof. reflexivity. Qed.
  Lemma parse_qlt_active s h : known s = true -> active (fst (f_parse_qlt ctx c g mtu s h)) = active s.
  Proof.
    intros K. unfold f_parse_qlt. rewrite (set_active_known _ _ K).
    repeat break1; reflexivity.
  Qed.

  Theorem C05_preserved s buf h X :
    parse_hdr buf = Some h -> active s = Some X -> is_reset h = false ->
    (is_command h = true -> h_rsrc h = X) ->
    active (fst (step s buf)) = Some X.
  Proof.
    intros P A R Cm. pose proof A as A0. apply active_known in A0 as [K MR].
    destruct (is_discover h) eqn:D.
    { destruct (matches s h) eqn:M.
      - rewrite (C05_becomes_mapper _ _ _ P D M). f_equal.
        apply matches_active in M as [M|M]; rewrite A in M; [discriminate|]. injection M as M. auto.
      - rewrite (C03_rejected _ _ _ P D M). exact A. }
    unfold f_step. rewrite P. unfold pre_step. unfold is_discover in D. rewrite D.
    unfold is_reset, is_command, is_discovery_tos in *. unfold f_dispatch.
    destruct (h_tos h =? tos_discovery) eqn:T0; cbn [orb andb] in *.
    - rewrite D.
      destruct (h_opc h =? opcode_emit) eqn:O2; [rewrite parse_emit_active; assumption|].
      destruct ((h_opc h =? opcode_train) || (h_opc h =? opcode_probe)); [cbn [fst]; rewrite parse_probe_active; assumption|].
      destruct (h_opc h =? opcode_query) eqn:O6; [rewrite parse_query_active; f_equal; apply Cm; reflexivity|].
      destruct (h_opc h =? opcode_queryLargeTlv) eqn:O11; [rewrite parse_qlt_active; assumption|].
      rewrite R. exact A.
    - destruct (h_tos h =? tos_quick_discovery) eqn:T1; cbn [orb andb] in *; [|exact A].
      rewrite D.
      destruct (h_opc h =? opcode_queryLargeTlv) eqn:O11; [rewrite parse_qlt_active; assumption|].
      rewrite R. exact A.
  Qed.

  Theorem C05_reset_releases s buf h :
    parse_hdr buf = Some h -> is_reset h = true ->
    active (fst (step s buf)) = None /\ snd (step s buf) = [].
  Proof.
    intros P R. unfold is_reset in R. apply andb_prop in R as [T O]. apply N.eqb_eq in O.
    unfold f_step. rewrite P. unfold pre_step, f_dispatch. rewrite O. closed_eqb.
    rewrite andb_false_r. cbn [orb].
    unfold is_discovery_tos in T.
    destruct (h_tos h =? tos_discovery); cbn [orb] in T; [split; reflexivity|].
    rewrite T. split; reflexivity.
  Qed.

  Theorem C05_foreign_service s buf h :
    parse_hdr buf = Some h -> is_discovery_tos (h_tos h) = false -> step s buf = (s, []).
  Proof.
    intros P T. unfold f_step. rewrite P. unfold pre_step. rewrite T. cbn [andb].
    unfold f_dispatch. unfold is_discovery_tos in T. apply orb_false_elim in T as [-> ->]. reflexivity.
  Qed.

  Theorem C05_unparsable s buf : parse_hdr buf = None -> step s buf = (s, []).
  Proof. intros P. unfold f_step. rewrite P. reflexivity. Qed.

  (* --- histories --- *)
  Lemma run_nil s : run s [] = (s, []).
  Proof. reflexivity. Qed.
  Lemma run_cons s b r :
    run s (b :: r) = (fst (run (fst (step s b)) r), snd (step s b) ++ snd (run (fst (step s b)) r)).
  Proof.
    cbn [f_run]. destruct (step s b) as [s1 a1]. cbn [fst snd].
    destruct (run s1 r) as [s2 a2]. reflexivity.
  Qed.
  Lemma run_app s l1 l2 :
    run s (l1 ++ l2) = (fst (run (fst (run s l1)) l2), snd (run s l1) ++ snd (run (fst (run s l1)) l2)).
  Proof.
    revert s. induction l1 as [|b r IH]; intros s.
    - cbn [app]. rewrite run_nil. cbn [fst snd app]. destruct (run s l2); reflexivity.
    - cbn [app]. rewrite !run_cons, IH. cbn [fst snd]. rewrite app_assoc. reflexivity.
  Qed.

  Theorem C05_history s X bufs :
    active s = Some X ->
    Forall (fun b => match parse_hdr b with
                     | Some h => is_reset h = false /\ (is_command h = true -> h_rsrc h = X)
                     | None => True end) bufs ->
    active (fst (run s bufs)) = Some X.
  Proof.
    intros A F. revert s A. induction F as [|b r Hb _ IH]; intros s A; [exact A|].
    rewrite run_cons. cbn [fst]. apply IH.
    destruct (parse_hdr b) as [h|] eqn:P.
    - destruct Hb as [R Cm]. apply (C05_preserved _ _ _ _ P A R Cm).
    - rewrite (C05_unparsable _ _ P). exact A.
  Qed.

  (* the next Discover after such a history is replied to iff it comes from X *)
  Theorem C05_history_next s X bufs buf h :
    active s = Some X ->
    Forall (fun b => match parse_hdr b with
                     | Some h => is_reset h = false /\ (is_command h = true -> h_rsrc h = X)
                     | None => True end) bufs ->
    parse_hdr buf = Some h -> is_discover h = true ->
    (snd (step (fst (run s bufs)) buf) <> [] <-> h_rsrc h = X).
  Proof.
    intros A F P D. rewrite (C05_answered_iff _ _ _ P D), (C05_history _ _ _ A F). split.
    - intros [H|H]; [discriminate|]. injection H as H. auto.
    - intros ->. right. reflexivity.
  Qed.

  (* after a Reset of either discovery service no mapper is active ... *)
  Theorem C05_after_reset s rbuf r :
    parse_hdr rbuf = Some r -> is_reset r = true -> active (fst (step s rbuf)) = None.
  Proof. intros P R. apply (C05_reset_releases _ _ _ P R). Qed.

  (* ... hence the next Discover, from ANY station, is answered, with its own generation *)
  Theorem C05_after_reset_any s rbuf r buf h :
    parse_hdr rbuf = Some r -> is_reset r = true ->
    parse_hdr buf = Some h -> is_discover h = true ->
    snd (step (fst (step s rbuf)) buf) <> [] /\
    snd (step (fst (step s rbuf)) buf) =
      (if h_tos h =? tos_discovery then [Sleep 10] else []) ++ [tx ctx (hello_frame c g h (h_w0 h))] /\
    active (fst (step (fst (step s rbuf)) buf)) = Some (h_rsrc h).
  Proof.
    intros Pr R P D. pose proof (C05_after_reset s _ _ Pr R) as A.
    assert (M : matches (fst (step s rbuf)) h = true) by (apply matches_active; left; exact A).
    split; [apply (C05_answered_iff _ _ _ P D); left; exact A|].
    split; [apply (C03_one_hello _ _ _ P D M)|apply (C05_becomes_mapper _ _ _ P D M)].
  Qed.

  (* ================================================================== *)
  (*  C09                                                               *)
  (* ================================================================== *)

  (* two results that differ only in dead mapper addresses *)
  Definition same_upto_norm (r1 r2 : ist * list action) : Prop :=
    snd r1 = snd r2 /\ norm (fst r1) = norm (fst r2).

  Lemma same_refl r : same_upto_norm r r.
  Proof. split; reflexivity. Qed.
  Lemma same_eq r1 r2 : r1 = r2 -> same_upto_norm r1 r2.
  Proof. intros ->. apply same_refl. Qed.
  Lemma same_idle s : same_upto_norm (s, []) (norm s, []).
  Proof. split; [reflexivity|]. cbn [fst]. symmetry. apply norm_idem. Qed.

  Section Unknown.
    Variable s : ist.
    Hypothesis K : known s = false.

    Lemma norm_known_false : known (norm s) = false.
    Proof. unfold norm. rewrite K. reflexivity. Qed.
    Lemma set_active_norm h : set_active (norm s) h = set_active s h.
    Proof. unfold set_active. rewrite norm_known_false, K. unfold norm. rewrite K. reflexivity. Qed.
    Lemma matches_norm h : matches (norm s) h = matches s h.
    Proof. unfold matches. rewrite norm_known_false, K. reflexivity. Qed.
    Lemma pre_step_norm h : is_discover h = true -> pre_step (norm s) h = pre_step s h.
    Proof.
      intros D. unfold pre_step. unfold is_discover in D. rewrite D, matches_norm, set_active_norm. reflexivity.
    Qed.

    Lemma emit_norm h buf :
      same_upto_norm (f_parse_emit ctx c mtu s h buf) (f_parse_emit ctx c mtu (norm s) h buf).
    Proof.
      unfold f_parse_emit. rewrite set_active_norm.
      match goal with |- context [if ?b then _ else _] => destruct b end; [apply same_idle|apply same_refl].
    Qed.
    Lemma probe_norm h : norm (f_parse_probe c s h) = norm (f_parse_probe c (norm s) h).
    Proof.
      unfold f_parse_probe.
      destruct (negb (mac_eqb (h_rdst h) (own c))); [symmetry; apply norm_idem|].
      assert (S : see (norm s) = see s) by (unfold norm; rewrite K; reflexivity).
      unfold see_full. rewrite S.
      match goal with |- context [if ?b then _ else _] => destruct b end; [symmetry; apply norm_idem|].
      match goal with |- context [existsb ?f ?l] => destruct (existsb f l) end; [symmetry; apply norm_idem|].
      unfold norm, with_see. prj. rewrite K. prj. reflexivity.
    Qed.
    Lemma query_norm h : f_parse_query ctx c mtu (norm s) h = f_parse_query ctx c mtu s h.
    Proof.
      unfold f_parse_query.
      assert (E : with_mapper (with_seq (norm s) (h_seq h)) (h_rsrc h) (h_esrc h)
                  = with_mapper (with_seq s (h_seq h)) (h_rsrc h) (h_esrc h)).
      { unfold norm. rewrite K. reflexivity. }
      rewrite E. reflexivity.
    Qed.
    Lemma qlt_norm h :
      same_upto_norm (f_parse_qlt ctx c g mtu s h) (f_parse_qlt ctx c g mtu (norm s) h).
    Proof.
      unfold f_parse_qlt. rewrite set_active_norm.
      destruct (h_seq h =? 0); [apply same_idle|apply same_refl].
    Qed.
    Lemma reset_topology_norm : norm (f_reset_topology s) = norm (f_reset_topology (norm s)).
    Proof. unfold f_reset_topology, norm. prj. rewrite ?K. prj. reflexivity. Qed.
    Lemma reset_quick_norm : norm (do_reset_quick s) = norm (do_reset_quick (norm s)).
    Proof. unfold do_reset_quick, norm. prj. rewrite ?K. prj. reflexivity. Qed.

    Lemma step_norm_unknown buf : same_upto_norm (step s buf) (step (norm s) buf).
    Proof.
      unfold f_step. destruct (parse_hdr buf) as [h|]; [|apply same_idle].
      destruct (is_discover h) eqn:D.
      { rewrite (pre_step_norm _ D). destruct (pre_step s h); [apply same_refl|apply same_idle]. }
      unfold pre_step. unfold is_discover in D. rewrite D.
      unfold f_dispatch.
      destruct (h_tos h =? tos_discovery) eqn:T0.
      - unfold is_discovery_tos in D. rewrite T0 in D. cbn [orb andb] in D. rewrite D.
        destruct (h_opc h =? opcode_emit); [apply emit_norm|].
        destruct ((h_opc h =? opcode_train) || (h_opc h =? opcode_probe)).
        { split; [reflexivity|]. cbn [fst]. apply probe_norm. }
        destruct (h_opc h =? opcode_query); [rewrite query_norm; apply same_refl|].
        destruct (h_opc h =? opcode_queryLargeTlv); [apply qlt_norm|].
        destruct (h_opc h =? opcode_reset); [|apply same_idle].
        split; [reflexivity|]. cbn [fst]. apply reset_topology_norm.
      - destruct (h_tos h =? tos_quick_discovery) eqn:T1; [|apply same_idle].
        unfold is_discovery_tos in D. rewrite T0, T1 in D. cbn [orb andb] in D. rewrite D.
        destruct (h_opc h =? opcode_queryLargeTlv); [apply qlt_norm|].
        destruct (h_opc h =? opcode_reset); [|apply same_idle].
        split; [reflexivity|]. cbn [fst]. apply reset_quick_norm.
    Qed.
  End Unknown.

  Theorem C09_norm_step s buf :
    snd (step s buf) = snd (step (norm s) buf) /\
    norm (fst (step s buf)) = norm (fst (step (norm s) buf)).
  Proof.
    destruct (known s) eqn:K.
    - rewrite (norm_known _ K). split; reflexivity.
    - apply (step_norm_unknown s K buf).
  Qed.

  (* states equal up to dead addresses are indistinguishable, frame for frame *)
  Lemma norm_step_gen s1 s2 buf :
    norm s1 = norm s2 ->
    snd (step s1 buf) = snd (step s2 buf) /\ norm (fst (step s1 buf)) = norm (fst (step s2 buf)).
  Proof.
    intros E. destruct (C09_norm_step s1 buf) as [A1 B1]. destruct (C09_norm_step s2 buf) as [A2 B2].
    rewrite A1, A2, B1, B2, E. split; reflexivity.
  Qed.

  Theorem C09_norm_run_gen bufs : forall s1 s2,
    norm s1 = norm s2 ->
    snd (run s1 bufs) = snd (run s2 bufs) /\ norm (fst (run s1 bufs)) = norm (fst (run s2 bufs)).
  Proof.
    induction bufs as [|b r IH]; intros s1 s2 E.
    - rewrite !run_nil. cbn [fst snd]. split; [reflexivity|exact E].
    - rewrite !run_cons. cbn [fst snd].
      destruct (norm_step_gen s1 s2 b E) as [A B]. destruct (IH _ _ B) as [A' B'].
      rewrite A, A'. split; [reflexivity|exact B'].
  Qed.

  Theorem C09_norm_run s bufs : snd (run s bufs) = snd (run (norm s) bufs).
  Proof. apply C09_norm_run_gen. symmetry. apply norm_idem. Qed.

  Theorem C09_norm_run_eq s1 s2 bufs : norm s1 = norm s2 -> snd (run s1 bufs) = snd (run s2 bufs).
  Proof. intros E. apply C09_norm_run_gen. exact E. Qed.

  Theorem C09_reset_fresh s buf h :
    parse_hdr buf = Some h -> h_tos h = tos_discovery -> h_opc h = opcode_reset ->
    norm (fst (step s buf)) = fresh /\ snd (step s buf) = [].
  Proof.
    intros P T O. unfold f_step. rewrite P. unfold pre_step, f_dispatch. rewrite T, O. closed_eqb.
    rewrite andb_false_r. cbn [orb]. split; reflexivity.
  Qed.

  Theorem C09_history s hist rbuf h cont :
    parse_hdr rbuf = Some h -> h_tos h = tos_discovery -> h_opc h = opcode_reset ->
    snd (run (fst (step (fst (run s hist)) rbuf)) cont) = snd (run fresh cont).
  Proof.
    intros P T O. apply C09_norm_run_eq.
    destruct (C09_reset_fresh (fst (run s hist)) _ _ P T O) as [E _]. rewrite E. reflexivity.
  Qed.

  (* the same as one run: what follows the Reset is what a fresh responder does *)
  Corollary C09_history_run s hist rbuf h cont :
    parse_hdr rbuf = Some h -> h_tos h = tos_discovery -> h_opc h = opcode_reset ->
    snd (run s (hist ++ rbuf :: cont)) = snd (run s hist) ++ snd (run fresh cont).
  Proof.
    intros P T O. rewrite run_app. cbn [snd]. f_equal. rewrite run_cons. cbn [snd].
    destruct (C09_reset_fresh (fst (run s hist)) _ _ P T O) as [_ E]. rewrite E. cbn [app].
    apply (C09_history _ _ _ _ _ P T O).
  Qed.
End Mapper.

(* ====================================================================== *)
(*  The hypotheses are satisfiable                                        *)
(* ====================================================================== *)

Definition ex_mapper : mac := Mac 2 0 0 0 0 1.
Definition ex_other : mac := Mac 2 0 0 0 0 9.

(* a 36-byte frame: Ethernet header, demultiplex header, base header, 4 bytes of upper-level header *)
Definition ex_frame (src : mac) (tos opc : N) (w0 : N) : list byte :=
  mac_bytes bcast ++ mac_bytes src ++ [136; 217; 1; tos; 0; opc]
  ++ mac_bytes bcast ++ mac_bytes src ++ [0; 7] ++ be16 w0 ++ [0; 0].

Definition ex_discover : list byte := ex_frame ex_mapper tos_discovery opcode_discover 5.
Definition ex_quick_discover : list byte := ex_frame ex_mapper tos_quick_discovery opcode_discover 6.
Definition ex_discover_other : list byte := ex_frame ex_other tos_discovery opcode_discover 9.
Definition ex_reset : list byte := ex_frame ex_mapper tos_discovery opcode_reset 0.
Definition ex_hello : list byte := ex_frame ex_other tos_discovery opcode_hello 3.
Definition ex_probe : list byte := ex_frame ex_other tos_discovery opcode_probe 0.
Definition ex_query : list byte := ex_frame ex_mapper tos_discovery opcode_query 0.
Definition ex_qos : list byte := ex_frame ex_other tos_qos_diagnostics opcode_reset 0.

(* a state in which ex_mapper is the active mapper *)
Definition ex_busy : ist :=
  {| see := []; known := true; mreal := ex_mapper; mapp := ex_mapper; mseq := 0; gen_t := 4; gen_q := 0; icon := None |}.

Example ex_discover_len : length ex_discover = 36%nat.
Proof. reflexivity. Qed.

Example ex_discover_accepted :
  exists h, parse_hdr ex_discover = Some h /\ is_discover h = true /\ matches fresh h = true /\
            matches ex_busy h = true /\ h_w0 h = 5 /\ h_rsrc h = ex_mapper /\ h_tos h = tos_discovery.
Proof. eexists. split; [vm_compute; reflexivity|]. vm_compute. repeat split. Qed.

Example ex_quick_discover_accepted :
  exists h, parse_hdr ex_quick_discover = Some h /\ is_discover h = true /\ matches fresh h = true /\
            h_w0 h = 6 /\ h_tos h = tos_quick_discovery.
Proof. eexists. split; [vm_compute; reflexivity|]. vm_compute. repeat split. Qed.

Example ex_discover_rejected :
  exists h, parse_hdr ex_discover_other = Some h /\ is_discover h = true /\ matches ex_busy h = false /\
            is_reset h = false /\ is_command h = false.
Proof. eexists. split; [vm_compute; reflexivity|]. vm_compute. repeat split. Qed.

Example ex_hello_heard : exists h, parse_hdr ex_hello = Some h /\ h_opc h = opcode_hello.
Proof. eexists. split; [vm_compute; reflexivity|]. vm_compute. reflexivity. Qed.

Example ex_reset_ok :
  exists h, parse_hdr ex_reset = Some h /\ is_reset h = true /\ h_tos h = tos_discovery /\ h_opc h = opcode_reset.
Proof. eexists. split; [vm_compute; reflexivity|]. vm_compute. repeat split. Qed.

Example ex_foreign :
  exists h, parse_hdr ex_qos = Some h /\ is_discovery_tos (h_tos h) = false.
Proof. eexists. split; [vm_compute; reflexivity|]. vm_compute. reflexivity. Qed.

Example ex_unparsable : parse_hdr (firstn 35 ex_discover) = None.
Proof. vm_compute. reflexivity. Qed.

(* a history that satisfies the hypothesis of C05_history for X = ex_mapper: a rejected Discover and a
   Hello and a Probe from another station, a Query from the mapper, a frame of another service, a runt *)
Example ex_history_ok :
  active ex_busy = Some ex_mapper /\
  Forall (fun b => match parse_hdr b with
                   | Some h => is_reset h = false /\ (is_command h = true -> h_rsrc h = ex_mapper)
                   | None => True end)
         [ex_discover_other; ex_hello; ex_probe; ex_query; ex_qos; firstn 20 ex_discover; ex_discover].
Proof.
  split; [reflexivity|].
  repeat (apply Forall_cons; [vm_compute; first [exact I | split; [reflexivity|intros H; first [reflexivity | discriminate H] ] ]|]).
  apply Forall_nil.
Qed.

(* a concrete instance of C03 on a concrete configuration: the very action list, computed *)
Example ex_c03_instance ctx c g mtu :
  snd (f_step ctx c g mtu fresh ex_discover)
  = [Sleep 10; Send ctx true (hello_frame c g {| h_edst := bcast; h_esrc := ex_mapper; h_tos := 0; h_opc := 0;
                                                  h_rdst := bcast; h_rsrc := ex_mapper; h_seq := 7;
                                                  h_w0 := 5; h_b0 := 0; h_w1 := 0 |} 5)].
Proof.
  assert (P : parse_hdr ex_discover = Some {| h_edst := bcast; h_esrc := ex_mapper; h_tos := 0; h_opc := 0;
                                               h_rdst := bcast; h_rsrc := ex_mapper; h_seq := 7;
                                               h_w0 := 5; h_b0 := 0; h_w1 := 0 |}) by (vm_compute; reflexivity).
  rewrite (C03_one_hello ctx c g mtu fresh _ _ P); reflexivity.
Qed.

Print Assumptions C03_one_hello.
Print Assumptions C05_answered_iff.
Print Assumptions C05_preserved.
Print Assumptions C05_foreign_service.
Print Assumptions C05_history.
Print Assumptions C09_norm_step.
Print Assumptions C09_history.
