(* RegistryProofs.v - C17, concurrent half: the unsynchronised registration is
   correct when the two first frames are handled one after the other and loses
   an interface record under an interleaving (the known finding). *)
From LLTD Require Import Registry.
From Coq Require Import List NArith Bool Lia.
Import ListNotations.
Local Open Scope N_scope.

(* thread 1 runs to completion, then thread 2 (or the other way round): both interfaces are registered.
   Interface ids are labels; 1 and 2 stand for any two distinct interfaces. *)
Theorem registry_sequential_ok :
  let s := rrun (rstate0 1 2) [false; false; false; false; true; true; true; true] in
  both_done s = true /\ registered s 1 = true /\ registered s 2 = true.
Proof. vm_compute. repeat split; reflexivity. Qed.
Theorem registry_sequential_ok' :
  let s := rrun (rstate0 1 2) [true; true; true; true; false; false; false; false] in
  both_done s = true /\ registered s 1 = true /\ registered s 2 = true.
Proof. vm_compute. repeat split; reflexivity. Qed.
(* all 70 interleavings of the two 4-step registrations: which ones lose a record *)
Fixpoint interleavings (a b : nat) : list (list bool) :=
  match a with
  | O => [repeat true b]
  | S a' => (fix inner (b : nat) : list (list bool) :=
               match b with
               | O => [repeat false (S a')]
               | S b' => map (cons false) (interleavings a' (S b')) ++ map (cons true) (inner b')
               end) b
  end.
Definition loses (sched : list bool) : bool :=
  let s := rrun (rstate0 1 2) sched in both_done s && negb (registered s 1 && registered s 2).
Theorem registry_all_interleavings :
  length (interleavings 4 4) = 70%nat /\ length (filter loses (interleavings 4 4)) = 40%nat.
Proof. vm_compute. split; reflexivity. Qed.

(* the lost update: both threads link against the empty list, then both publish *)
Definition lost_update_schedule : list bool := [false; true; false; true; false; true; false; true].
Theorem C17_registry_refuted :
  exists sched, let s := rrun (rstate0 1 2) sched in
    both_done s = true /\ (registered s 1 = false \/ registered s 2 = false).
Proof. exists lost_update_schedule. vm_compute. split; [reflexivity|left; reflexivity]. Qed.

Print Assumptions C17_registry_refuted.
