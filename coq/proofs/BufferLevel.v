(* BufferLevel.v - the per-frame property theorems of the pure layer restated
   about the buffer-level whole-system model itself.

   SystemRefinement.v proves that parse_frame / run_frames (model/Block.v, the
   model differentially tested against the C) compute f_step / sys_run, and
   restates C03/C05/C09/C17 on them.  Here the remaining per-frame theorems
     C02  (TxProofs.v:   C02_wf_step, C02_solicited)
     C04  (TxProofs.v:   C04_roundtrip, C04_wireless_gate)
     C06  (PropsEmit.v:  C06_emit, C06_emit_any_frames, C06_nofit, C06_bound)
     C07  (PropsQuery.v: C07_query, C07_record, C07_query_decoded)
     C08  (PropsLarge.v: C08_step, C08_seq0, C08_icon_cached)
   are composed with frame_nominal / system_refinement_clock: the subject of
   every statement below is
     parse_frame no_fail no_fail junk ctx c g r buf w     (one frame), or
     run_frames  no_fail no_fail junk cfgs g r l w        (a history),
   and the conclusions speak about the world's trace w_trace and the registry
   read as a map (reg_state). *)
From Coq Require Import List NArith Lia ZifyBool ZifyN ZifyNat.
From LLTD Require Import BlockFun BufProofs BlockSafe BlockNominal Isolation PropsMapper SystemRefinement
                         SpecTx TxProofs PropsEmit PropsQuery PropsLarge.
Import ListNotations.
Ltac Zify.zify_post_hook ::= Z.div_mod_to_equations.
Local Open Scope N_scope.

(* ====================================================================== *)
(*  0. The generic lifting lemma                                          *)
(* ====================================================================== *)

(* frame_nominal with the pure step named: whatever is known about
   f_step ctx c g mtu (reg_state r ctx) buf is known about parse_frame *)
Lemma parse_frame_as_f_step junk ctx c g mtu r buf w bl bb :
  c_mtu c = Some mtu -> 576 <= mtu -> mtu <= 9216 -> mtu <= c_rxsize c ->
  length buf = o (c_rxsize c) -> ledger_reg bl bb r w ->
  exists r' w', parse_frame no_fail no_fail junk ctx c g r buf w = Ok r' w'
    /\ let '(s', acts) := f_step ctx c g mtu (reg_state r ctx) buf in
       reg_state r' ctx = s'
       /\ (forall c2, c2 <> ctx -> reg_state r' c2 = reg_state r c2)
       /\ w_trace w' = rev acts ++ w_trace w
       /\ ledger_reg bl bb r' w'
       /\ w_now w' = w_now w.
Proof.
  intros H1 H2 H3 H4 Hb LR.
  destruct (frame_nominal junk ctx c g mtu r buf w bl bb H1 H2 H3 H4 Hb LR) as (r' & w' & E & S & O & T & LR' & N').
  exists r', w'. split; [exact E|].
  destruct (f_step ctx c g mtu (reg_state r ctx) buf) as [s' acts]. cbn [fst snd] in *.
  split; [exact S|]. split; [exact O|]. split; [exact T|]. split; [exact LR'|exact N'].
Qed.

(* the same, in the shape the corollaries below consume *)
Ltac lift_frame junk ctx c g mtu r buf w bl bb H1 H2 H3 H4 Hb LR r' w' E Hs T LR' :=
  destruct (frame_nominal junk ctx c g mtu r buf w bl bb H1 H2 H3 H4 Hb LR) as (r' & w' & E & Hs & _ & T & LR' & _).

Lemma rev_nil_iff {A} (a : list A) : rev a = [] <-> a = [].
Proof.
  split; intros H; [|rewrite H; reflexivity].
  rewrite <- (rev_involutive a), H. reflexivity.
Qed.

(* the trace grows iff the pure step acts *)
Lemma trace_grows_iff {A} (a t t' : list A) : t' = rev a ++ t -> (t' <> t <-> a <> []).
Proof.
  intros ->. split.
  - intros N Ea. apply N. rewrite Ea. reflexivity.
  - intros N Et. apply N. apply app_same_tail in Et. apply rev_nil_iff. exact Et.
Qed.

(* ====================================================================== *)
(*  1. C02                                                                *)
(* ====================================================================== *)

(* every port call of interface ctx's handlers is a pause or a transmission on ctx itself that the
   (nominal) port accepted: no HelloTx, no transmission attributed to another interface *)
Definition own_act (ctx : N) (a : action) : Prop :=
  match a with Sleep _ => True | Send k ok _ => k = ctx /\ ok = true | HelloTx _ _ => False end.

Section Own.
  Variables (ctx : N) (c : pcfg) (g : gcfg) (mtu : N).

  Lemma own_tx fr : own_act ctx (tx ctx fr).
  Proof. unfold tx, own_act. split; reflexivity. Qed.
  Lemma own_sleep n : own_act ctx (Sleep n).
  Proof. exact I. Qed.

  Lemma own_emit_all s ds : Forall (own_act ctx) (f_emit_all ctx c s ds).
  Proof.
    induction ds as [|d ds IH]; cbn [f_emit_all]; [constructor|].
    apply Forall_app. split; [|exact IH].
    unfold f_emit_one. destruct ((d_type d =? 1) || (d_type d =? 0)); [|constructor].
    apply Forall_app. split.
    - constructor; [apply own_sleep|]. constructor; [apply own_tx|constructor].
    - destruct ds; [constructor; [apply own_tx|constructor]|constructor].
  Qed.

  Lemma own_parse_emit s h buf : Forall (own_act ctx) (snd (f_parse_emit ctx c mtu s h buf)).
  Proof.
    unfold f_parse_emit.
    destruct (negb ((sz_hdr + sz_emit_hdr <=? mtu) && (h_w0 h <=? (mtu - sz_hdr - sz_emit_hdr) / sz_emitee)));
      [constructor|].
    destruct (read_descs buf (o (h_w0 h)) 0); cbn [snd]; [apply own_emit_all|constructor].
  Qed.

  Lemma own_answer_hello s h : Forall (own_act ctx) (snd (f_answer_hello ctx c g s h)).
  Proof. unfold f_answer_hello. cbn [snd]. constructor; [apply own_tx|constructor]. Qed.

  Lemma own_parse_query s h : Forall (own_act ctx) (snd (f_parse_query ctx c mtu s h)).
  Proof. unfold f_parse_query. cbn [snd]. constructor; [apply own_tx|constructor]. Qed.

  Lemma own_large_tlv h seq data off : Forall (own_act ctx) (f_large_tlv ctx c mtu h seq data off).
  Proof.
    unfold f_large_tlv. destruct (off + payload_max mtu <? N.of_nat (length data));
      (constructor; [apply own_tx|constructor]).
  Qed.

  Lemma own_parse_qlt s h : Forall (own_act ctx) (snd (f_parse_qlt ctx c g mtu s h)).
  Proof.
    unfold f_parse_qlt. destruct (h_seq h =? 0); [constructor|].
    destruct (h_b0 h =? tlv_iconImage).
    { destruct (icon (with_seq (set_active s h) (h_seq h))); [cbn [snd]; apply own_large_tlv|].
      destruct (g_icon g); cbn [snd]; apply own_large_tlv. }
    destruct (h_b0 h =? tlv_friendlyName); [cbn [snd]; apply own_large_tlv|].
    destruct (h_b0 h =? tlv_hwIdProperty); cbn [snd]; apply own_large_tlv.
  Qed.

  Lemma own_dispatch s h buf : Forall (own_act ctx) (snd (f_dispatch ctx c g mtu s h buf)).
  Proof.
    unfold f_dispatch.
    destruct (h_tos h =? tos_discovery).
    { destruct (h_opc h =? opcode_discover).
      { destruct (matches s h); [|constructor].
        pose proof (own_answer_hello s h) as W. destruct (f_answer_hello ctx c g s h) as [s' a].
        cbn [snd] in *. constructor; [apply own_sleep|exact W]. }
      destruct (h_opc h =? opcode_emit); [apply own_parse_emit|].
      destruct ((h_opc h =? opcode_train) || (h_opc h =? opcode_probe)); [constructor|].
      destruct (h_opc h =? opcode_query); [apply own_parse_query|].
      destruct (h_opc h =? opcode_queryLargeTlv); [apply own_parse_qlt|].
      destruct (h_opc h =? opcode_reset); constructor. }
    destruct (h_tos h =? tos_quick_discovery); [|constructor].
    destruct (h_opc h =? opcode_discover).
    { destruct (matches s h); [apply own_answer_hello|constructor]. }
    destruct (h_opc h =? opcode_queryLargeTlv); [apply own_parse_qlt|].
    destruct (h_opc h =? opcode_reset); constructor.
  Qed.

  Lemma own_step s buf : Forall (own_act ctx) (snd (f_step ctx c g mtu s buf)).
  Proof.
    unfold f_step. destruct (parse_hdr buf) as [h|]; [|constructor].
    destruct (pre_step s h) as [s1|]; [apply own_dispatch|constructor].
  Qed.
End Own.

(* what C02 says of one port call of interface ctx: a transmission is on ctx, was accepted, and its
   bytes pass the independent validator wf_tx for ctx's own address and MTU *)
Definition C02_act (ctx : N) (c : pcfg) (mtu : N) (a : action) : Prop :=
  match a with
  | Sleep _ => True
  | Send k ok fr => k = ctx /\ ok = true /\ wf_tx (mac_bytes (own c)) (o mtu) fr = true
  | HelloTx _ _ => False
  end.

(* the (service, opcode) pairs that solicit a transmission *)
Definition soliciting : list (N * N) := [(0, 0); (1, 0); (0, 2); (0, 6); (0, 11); (1, 11)].

Lemma C02_act_step ctx c g mtu s buf : 206 <= mtu -> mtu < 16418 ->
  Forall (C02_act ctx c mtu) (snd (f_step ctx c g mtu s buf)).
Proof.
  intros Hlo Hhi. pose proof (C02_wf_step ctx c g mtu Hlo Hhi s buf) as W.
  pose proof (own_step ctx c g mtu s buf) as O.
  rewrite Forall_forall in *. intros a Ha. specialize (W a Ha). specialize (O a Ha).
  destruct a as [n|k ok fr|k n]; cbn [C02_act own_act] in *; [exact I| |exact O].
  destruct O as (O1 & O2). repeat split; assumption.
Qed.

(* ---- one frame ---- *)
Theorem C02_buffer_level junk ctx c g mtu r buf w bl bb :
  c_mtu c = Some mtu -> 576 <= mtu -> mtu <= 9216 -> mtu <= c_rxsize c ->
  length buf = o (c_rxsize c) -> ledger_reg bl bb r w ->
  exists r' w' acts, parse_frame no_fail no_fail junk ctx c g r buf w = Ok r' w'
    /\ w_trace w' = rev acts ++ w_trace w
    /\ ledger_reg bl bb r' w'
    (* every call the frame adds to the trace is well formed *)
    /\ Forall (C02_act ctx c mtu) acts
    (* and the trace grows only when the frame solicits it, by at most the solicited number of transmissions *)
    /\ (w_trace w' <> w_trace w ->
        exists h, parse_hdr buf = Some h
          /\ In (h_tos h, h_opc h) soliciting
          /\ (sends acts <= if ((h_tos h =? 0) && (h_opc h =? 2))%N then o (h_w0 h) + 1 else 1)%nat).
Proof.
  intros H1 H2 H3 H4 Hb LR.
  lift_frame junk ctx c g mtu r buf w bl bb H1 H2 H3 H4 Hb LR r' w' E Hs T LR'.
  exists r', w', (snd (f_step ctx c g mtu (reg_state r ctx) buf)).
  split; [exact E|]. split; [exact T|]. split; [exact LR'|].
  split; [apply C02_act_step; lia|].
  intros G. apply (trace_grows_iff _ _ _ T) in G.
  exact (C02_solicited ctx c g mtu (reg_state r ctx) buf G).
Qed.

(* ---- histories ---- *)
Section History.
  Variable junk : N.
  Variable cfgs : N -> pcfg.
  Variable g : gcfg.
  Variable mtus : N -> N.
  Hypothesis Hnom : cfgs_nominal cfgs mtus.

  Notation RUN := (run_frames no_fail no_fail junk cfgs g).
  Notation SYS := (sys_run cfgs g mtus).

  (* every tagged call of the pure multi-interface run comes from one f_step of that interface, on the
     state the interface has reached by then *)
  Lemma sys_run_origin l : forall m k a, In (k, a) (snd (SYS m l)) ->
    exists l1 buf l2, l = l1 ++ (k, buf) :: l2
      /\ In a (snd (f_step k (cfgs k) g (mtus k) (fst (SYS m l1) k) buf)).
  Proof.
    induction l as [|[k0 b0] l IH]; intros m k a H.
    - cbn [sys_run snd] in H. contradiction.
    - cbn [sys_run] in H.
      destruct (f_step k0 (cfgs k0) g (mtus k0) (m k0) b0) as [s' a0] eqn:Es.
      destruct (SYS (upd m k0 s') l) as [m2 a2] eqn:Er. cbn [snd] in H.
      apply in_app_or in H as [H|H].
      + apply in_map_iff in H as (x & Hx & Hin). inversion Hx; subst k0 x.
        exists [], b0, l. split; [reflexivity|]. cbn [sys_run fst]. rewrite Es. exact Hin.
      + destruct (IH (upd m k0 s') k a) as (l1 & buf & l2 & El & Hin); [rewrite Er; exact H|].
        exists ((k0, b0) :: l1), buf, l2. split; [rewrite El; reflexivity|].
        cbn [sys_run]. rewrite Es.
        destruct (SYS (upd m k0 s') l1) as [m3 a3]. cbn [fst] in *. exact Hin.
  Qed.

  Lemma in_fframes k buf l : In (k, buf) (fframes l) -> In (FFrame k buf) l.
  Proof.
    induction l as [|[k0 b0|d] l IH]; cbn [fframes]; intros H.
    - contradiction.
    - destruct H as [H|H]; [inversion H; left; reflexivity|right; apply IH, H].
    - right. apply IH, H.
  Qed.

  (* the tagged form: ta is the pure run's list of (interface, call) pairs; the trace grows by ta with
     the tags erased; every pair (k, a) of ta is well formed for interface k's configuration and was
     solicited by a frame of the history received on k *)
  Theorem C02_buffer_level_history l r w bl bb :
    Forall (fop_len cfgs) l -> ledger_reg bl bb r w ->
    exists r' w' ta,
      RUN r l w = Ok r' w'
      /\ ta = snd (SYS (reg_state r) (fframes l))
      /\ w_trace w' = rev (map snd ta) ++ w_trace w
      /\ ledger_reg bl bb r' w'
      /\ forall k a, In (k, a) ta ->
           C02_act k (cfgs k) (mtus k) a
           /\ exists buf h, In (FFrame k buf) l /\ parse_hdr buf = Some h /\ In (h_tos h, h_opc h) soliciting.
  Proof.
    intros F LR.
    destruct (system_refinement_clock junk cfgs g mtus Hnom l r w bl bb F LR) as (r' & w' & E & T & _ & LR' & _).
    exists r', w', (snd (SYS (reg_state r) (fframes l))).
    split; [exact E|]. split; [reflexivity|]. split; [exact T|]. split; [exact LR'|].
    intros k a Hin. destruct (sys_run_origin _ _ _ _ Hin) as (l1 & buf & l2 & El & Ha).
    destruct (Hnom k) as (_ & M2 & M3 & _).
    split.
    - assert (W : Forall (C02_act k (cfgs k) (mtus k))
                    (snd (f_step k (cfgs k) g (mtus k) (fst (SYS (reg_state r) l1) k) buf)))
        by (apply C02_act_step; lia).
      rewrite Forall_forall in W. exact (W a Ha).
    - destruct (C02_solicited k (cfgs k) g (mtus k) (fst (SYS (reg_state r) l1) k) buf) as (h & P & So & _).
      { intros N. rewrite N in Ha. contradiction. }
      exists buf, h. split; [|split; assumption].
      apply in_fframes. rewrite El. apply in_or_app. right. left. reflexivity.
  Qed.

  (* the same with the tags erased: every transmission the history ADDS to the trace names its interface,
     was accepted, is well formed for that interface, and was solicited by a frame received there;
     nothing but pauses and transmissions is added *)
  Corollary C02_buffer_level_trace l r w bl bb :
    Forall (fop_len cfgs) l -> ledger_reg bl bb r w ->
    exists r' w' added,
      RUN r l w = Ok r' w'
      /\ w_trace w' = added ++ w_trace w
      /\ ledger_reg bl bb r' w'
      /\ (forall k n, ~ In (HelloTx k n) added)
      /\ forall k ok fr, In (Send k ok fr) added ->
           ok = true
           /\ wf_tx (mac_bytes (own (cfgs k))) (o (mtus k)) fr = true
           /\ exists buf h, In (FFrame k buf) l /\ parse_hdr buf = Some h /\ In (h_tos h, h_opc h) soliciting.
  Proof.
    intros F LR. destruct (C02_buffer_level_history l r w bl bb F LR) as (r' & w' & ta & E & _ & T & LR' & P).
    exists r', w', (rev (map snd ta)). split; [exact E|]. split; [exact T|]. split; [exact LR'|].
    split.
    - intros k n Hin. apply in_rev, in_map_iff in Hin as ([k0 a] & Ea & Hin). cbn [snd] in Ea. subst a.
      destruct (P _ _ Hin) as (C & _). exact C.
    - intros k ok fr Hin. apply in_rev, in_map_iff in Hin as ([k0 a] & Ea & Hin). cbn [snd] in Ea. subst a.
      destruct (P _ _ Hin) as ((-> & O & W) & So). split; [exact O|]. split; [exact W|exact So].
  Qed.
End History.

(* ====================================================================== *)
(*  2. C04                                                                *)
(* ====================================================================== *)

(* the property list hello_fields hands out is the parse of the interface's TLV bytes *)
Lemma hello_fields_props c g h gen hf :
  hello_fields (hello_frame c g h gen) = Some hf -> parse_props (concat (hello_tlvs c g)) = Some (hf_props hf).
Proof.
  rewrite hello_frame_eq. generalize (concat (hello_tlvs c g)) as tl. intros tl.
  unfold hello_fields. cbn [skipn app].
  destruct (parse_props tl) as [ps|]; [|discriminate].
  intros Eh. inversion Eh. cbn [hf_props]. reflexivity.
Qed.

(* an accepted Discover: the newest call on the trace is a Hello that decodes to the attributes of this
   interface's configuration, with the Discover's generation and addresses; the wireless TLVs are present
   exactly on a wireless interface *)
Theorem C04_buffer_level junk ctx c g mtu r buf w bl bb h :
  c_mtu c = Some mtu -> 576 <= mtu -> mtu <= 9216 -> mtu <= c_rxsize c ->
  length buf = o (c_rxsize c) -> ledger_reg bl bb r w ->
  cfg_wf c g ->
  parse_hdr buf = Some h -> is_discover h = true -> matches (reg_state r ctx) h = true ->
  exists r' w' fr hf, parse_frame no_fail no_fail junk ctx c g r buf w = Ok r' w'
    /\ w_trace w' = Send ctx true fr :: (if h_tos h =? tos_discovery then [Sleep 10] else []) ++ w_trace w
    /\ ledger_reg bl bb r' w'
    /\ hello_fields fr = Some hf
    /\ decode_attrs (hf_props hf) = attrs_of c g
    /\ hf_edst hf = [255; 255; 255; 255; 255; 255]
    /\ hf_rdst hf = [255; 255; 255; 255; 255; 255]
    /\ hf_esrc hf = mac_bytes (own c)
    /\ hf_rsrc hf = mac_bytes (own c)
    /\ hf_seq hf = 0
    /\ hf_gen hf = h_w0 h mod 65536
    /\ hf_cur hf = mac_bytes (h_rsrc h)
    /\ hf_app hf = mac_bytes (h_esrc h)
    /\ hf_tos hf = h_tos h
    /\ (forall t, In t [4; 6; 9; 13] -> (In t (map fst (hf_props hf)) <-> c_wifi c <> None))
    /\ (In 5 (map fst (hf_props hf)) <-> c_wifi c <> None /\ c_bssid c <> None).
Proof.
  intros H1 H2 H3 H4 Hb LR W P D M.
  destruct (C03_buffer_level junk ctx c g mtu r buf w bl bb h H1 H2 H3 H4 Hb LR P D M) as (r' & w' & E & T & LR').
  pose proof (C04_roundtrip c g W h (h_w0 h)) as R.
  destruct (hello_fields (hello_frame c g h (h_w0 h))) as [hf|] eqn:Eh; [|contradiction].
  destruct (C04_wireless_gate c g (hf_props hf) (hello_fields_props c g h (h_w0 h) hf Eh)) as (G1 & G2).
  exists r', w', (hello_frame c g h (h_w0 h)), hf. split; [exact E|].
  split.
  { rewrite T, rev_app_distr. cbn [rev app]. unfold tx.
    destruct (h_tos h =? tos_discovery); reflexivity. }
  split; [exact LR'|]. split; [exact Eh|].
  destruct R as (R1 & R2 & R3 & R4 & R5 & R6 & R7 & R8 & R9 & R10).
  repeat (split; [assumption|]). exact G2.
Qed.

(* ====================================================================== *)
(*  3. C06                                                                *)
(* ====================================================================== *)

(* an Emit from the active mapper with 1..fit descriptors of known kinds: the trace grows by exactly
   pause, probe, pause, probe, ... in descriptor order and then the ACK (newest); the mapper stays *)
Theorem C06_buffer_level junk ctx c g mtu r buf w bl bb h :
  c_mtu c = Some mtu -> 576 <= mtu -> mtu <= 9216 -> mtu <= c_rxsize c ->
  length buf = o (c_rxsize c) -> ledger_reg bl bb r w ->
  parse_hdr buf = Some h -> h_tos h = tos_discovery -> h_opc h = opcode_emit ->
  1 <= h_w0 h -> h_w0 h <= (mtu - 34) / 14 ->
  let ds := spec_descs buf (o (h_w0 h)) in
  Forall (fun d => d_type d = 0 \/ d_type d = 1) ds ->
  active (reg_state r ctx) = Some (h_rsrc h) ->
  exists r' w', parse_frame no_fail no_fail junk ctx c g r buf w = Ok r' w'
    /\ w_trace w' =
         rev (flat_map (fun d => [Sleep (d_pause d); tx ctx (probe_frame c d)]) ds
              ++ [tx ctx (header_bytes (own c) (mapp (reg_state r ctx)) (own c) (h_rsrc h) (h_seq h)
                                       opcode_ack tos_discovery)])
         ++ w_trace w
    /\ active (reg_state r' ctx) = Some (h_rsrc h)
    /\ ledger_reg bl bb r' w'.
Proof.
  intros H1 H2 H3 H4 Hb LR P T0 O N1 N2 ds K A.
  lift_frame junk ctx c g mtu r buf w bl bb H1 H2 H3 H4 Hb LR r' w' E Hs T LR'.
  destruct (C06_emit ctx c g mtu (conj H2 H3) (reg_state r ctx) buf h P T0 O N1 N2) with (2 := K) (3 := A)
    as (Q1 & Q2); [rewrite Hb; unfold o; lia|].
  exists r', w'. split; [exact E|]. split; [rewrite T, Q1; reflexivity|].
  split; [rewrite Hs; exact Q2|exact LR'].
Qed.

(* any Emit whose count fits, whatever the descriptor kinds and whoever sent it: descriptors of unknown
   kind are skipped, the ACK rides on the last declared one *)
Theorem C06_buffer_level_any junk ctx c g mtu r buf w bl bb h :
  c_mtu c = Some mtu -> 576 <= mtu -> mtu <= 9216 -> mtu <= c_rxsize c ->
  length buf = o (c_rxsize c) -> ledger_reg bl bb r w ->
  parse_hdr buf = Some h -> h_tos h = tos_discovery -> h_opc h = opcode_emit ->
  h_w0 h <= (mtu - 34) / 14 ->
  let s1 := with_seq (set_active (reg_state r ctx) h) (h_seq h) in
  let ds := spec_descs buf (o (h_w0 h)) in
  exists r' w', parse_frame no_fail no_fail junk ctx c g r buf w = Ok r' w'
    /\ w_trace w' =
         rev (flat_map (fun d => if kind_known d then [Sleep (d_pause d); tx ctx (probe_frame c d)] else []) ds
              ++ (if ack_due ds then [tx ctx (ack_frame c s1)] else []))
         ++ w_trace w
    /\ ledger_reg bl bb r' w'.
Proof.
  intros H1 H2 H3 H4 Hb LR P T0 O N2 s1 ds.
  lift_frame junk ctx c g mtu r buf w bl bb H1 H2 H3 H4 Hb LR r' w' E Hs T LR'.
  exists r', w'. split; [exact E|]. split; [|exact LR'].
  rewrite T, (C06_emit_any_frames ctx c g mtu (conj H2 H3) (reg_state r ctx) buf h P T0 O N2) by (rewrite Hb; unfold o; lia).
  reflexivity.
Qed.

(* an Emit declaring more descriptors than fit the MTU: nothing on the trace, the record untouched *)
Theorem C06_buffer_level_nofit junk ctx c g mtu r buf w bl bb h :
  c_mtu c = Some mtu -> 576 <= mtu -> mtu <= 9216 -> mtu <= c_rxsize c ->
  length buf = o (c_rxsize c) -> ledger_reg bl bb r w ->
  parse_hdr buf = Some h -> h_tos h = tos_discovery -> h_opc h = opcode_emit ->
  h_w0 h > (mtu - 34) / 14 ->
  exists r' w', parse_frame no_fail no_fail junk ctx c g r buf w = Ok r' w'
    /\ w_trace w' = w_trace w
    /\ (forall k, reg_state r' k = reg_state r k)
    /\ ledger_reg bl bb r' w'.
Proof.
  intros H1 H2 H3 H4 Hb LR P T0 O N2.
  destruct (frame_nominal junk ctx c g mtu r buf w bl bb H1 H2 H3 H4 Hb LR) as (r' & w' & E & S & Ot & T & LR' & _).
  rewrite (C06_nofit ctx c g mtu (reg_state r ctx) buf h P T0 O N2) in S, T. cbn [fst snd rev app] in S, T.
  exists r', w'. split; [exact E|]. split; [exact T|]. split; [|exact LR'].
  intros k. destruct (N.eq_dec k ctx) as [->|Hk]; [exact S|apply Ot, Hk].
Qed.

(* every Emit: the number of transmissions added to the trace is bounded by the MTU *)
Theorem C06_buffer_level_bound junk ctx c g mtu r buf w bl bb h :
  c_mtu c = Some mtu -> 576 <= mtu -> mtu <= 9216 -> mtu <= c_rxsize c ->
  length buf = o (c_rxsize c) -> ledger_reg bl bb r w ->
  parse_hdr buf = Some h -> h_tos h = tos_discovery -> h_opc h = opcode_emit ->
  exists r' w' acts, parse_frame no_fail no_fail junk ctx c g r buf w = Ok r' w'
    /\ w_trace w' = rev acts ++ w_trace w
    /\ (count_sends acts <= o ((mtu - 34) / 14) + 1)%nat
    /\ ledger_reg bl bb r' w'.
Proof.
  intros H1 H2 H3 H4 Hb LR P T0 O.
  lift_frame junk ctx c g mtu r buf w bl bb H1 H2 H3 H4 Hb LR r' w' E Hs T LR'.
  exists r', w', (snd (f_step ctx c g mtu (reg_state r ctx) buf)).
  split; [exact E|]. split; [exact T|]. split; [|exact LR'].
  exact (C06_bound ctx c g mtu (reg_state r ctx) buf h P T0 O).
Qed.

(* ====================================================================== *)
(*  4. C07                                                                *)
(* ====================================================================== *)

(* a Query: the trace grows by exactly one QueryResp carrying the first qcap recorded descriptors (oldest
   report first as stored), flagged "more" iff some remain; exactly those leave the interface's see-list *)
Theorem C07_buffer_level junk ctx c g mtu r buf w bl bb h :
  c_mtu c = Some mtu -> 576 <= mtu -> mtu <= 9216 -> mtu <= c_rxsize c ->
  length buf = o (c_rxsize c) -> ledger_reg bl bb r w ->
  parse_hdr buf = Some h -> is_query h = true ->
  let cap := qcap mtu in
  let recorded := see (reg_state r ctx) in
  exists r' w', parse_frame no_fail no_fail junk ctx c g r buf w = Ok r' w'
    /\ w_trace w' = tx ctx (qresp_frame c h (h_seq h) (firstn cap recorded) (cap <? length recorded)%nat) :: w_trace w
    /\ see (reg_state r' ctx) = skipn cap recorded
    /\ ledger_reg bl bb r' w'.
Proof.
  intros H1 H2 H3 H4 Hb LR P Q cap recorded.
  lift_frame junk ctx c g mtu r buf w bl bb H1 H2 H3 H4 Hb LR r' w' E Hs T LR'.
  destruct (C07_query ctx c g mtu (reg_state r ctx) buf h P Q) as (Q1 & Q2).
  exists r', w'. split; [exact E|]. split; [rewrite T, Q1; reflexivity|].
  split; [rewrite Hs; exact Q2|exact LR'].
Qed.

(* the same read off the wire: the frame on the trace decodes to the Query's sequence number, the "more"
   flag and the delivered descriptors *)
Theorem C07_buffer_level_decoded junk ctx c g mtu r buf w bl bb h :
  c_mtu c = Some mtu -> 576 <= mtu -> mtu <= 9216 -> mtu <= c_rxsize c ->
  length buf = o (c_rxsize c) -> ledger_reg bl bb r w ->
  parse_hdr buf = Some h -> is_query h = true ->
  Forall (fun x => x < 256) buf -> types_ok (see (reg_state r ctx)) ->
  exists r' w' fr, parse_frame no_fail no_fail junk ctx c g r buf w = Ok r' w'
    /\ w_trace w' = tx ctx fr :: w_trace w
    /\ decode_qresp fr = Some (h_seq h, (qcap mtu <? length (see (reg_state r ctx)))%nat,
                               firstn (qcap mtu) (see (reg_state r ctx)))
    /\ see (reg_state r' ctx) = skipn (qcap mtu) (see (reg_state r ctx))
    /\ ledger_reg bl bb r' w'.
Proof.
  intros H1 H2 H3 H4 Hb LR P Q By Ty.
  lift_frame junk ctx c g mtu r buf w bl bb H1 H2 H3 H4 Hb LR r' w' E Hs T LR'.
  destruct (C07_query_decoded ctx c g mtu (reg_state r ctx) buf h (conj H2 H3) P Q By Ty) as (fr & Q1 & Q2).
  destruct (C07_query ctx c g mtu (reg_state r ctx) buf h P Q) as (_ & Q3).
  exists r', w', fr. split; [exact E|]. split; [rewrite T, Q1; reflexivity|].
  split; [|split; [rewrite Hs; exact Q3|exact LR']].
  rewrite Q2. unfold delivered_step. rewrite P, Q. reflexivity.
Qed.

(* a Probe / Train frame: nothing on the trace; it is recorded iff addressed to us, the list is not full
   and its key is not yet present *)
Theorem C07_buffer_level_record junk ctx c g mtu r buf w bl bb h :
  c_mtu c = Some mtu -> 576 <= mtu -> mtu <= 9216 -> mtu <= c_rxsize c ->
  length buf = o (c_rxsize c) -> ledger_reg bl bb r w ->
  parse_hdr buf = Some h -> is_probe h = true ->
  let s := reg_state r ctx in
  exists r' w', parse_frame no_fail no_fail junk ctx c g r buf w = Ok r' w'
    /\ w_trace w' = w_trace w
    /\ reg_state r' ctx =
         with_see s (if for_us c h && negb (see_full s) && negb (existsb (obs_key_eqb (obs_of h)) (see s))
                     then obs_of h :: see s else see s)
    /\ ledger_reg bl bb r' w'.
Proof.
  intros H1 H2 H3 H4 Hb LR P Q s.
  lift_frame junk ctx c g mtu r buf w bl bb H1 H2 H3 H4 Hb LR r' w' E Hs T LR'.
  destruct (C07_record ctx c g mtu (reg_state r ctx) buf h P Q) as (Q1 & Q2).
  exists r', w'. split; [exact E|]. split; [rewrite T, Q1; reflexivity|].
  split; [rewrite Hs; exact Q2|exact LR'].
Qed.

(* ====================================================================== *)
(*  5. C08                                                                *)
(* ====================================================================== *)

(* a QueryLargeTlv with a non-zero sequence number: the trace grows by exactly one QueryLargeTlvResp
   carrying the requested chunk of the requested property, flagged "more" iff bytes remain beyond it *)
Theorem C08_buffer_level junk ctx c g mtu r buf w bl bb h :
  c_mtu c = Some mtu -> 576 <= mtu -> mtu <= 9216 -> mtu <= c_rxsize c ->
  length buf = o (c_rxsize c) -> ledger_reg bl bb r w ->
  parse_hdr buf = Some h -> is_discovery_tos (h_tos h) = true -> h_opc h = opcode_queryLargeTlv -> h_seq h <> 0 ->
  let ch := chunk_spec mtu (data_for g (reg_state r ctx) (h_b0 h)) (h_w1 h) in
  exists r' w', parse_frame no_fail no_fail junk ctx c g r buf w = Ok r' w'
    /\ w_trace w' = tx ctx (qlt_frame c h (h_seq h) (fst ch) (snd ch)) :: w_trace w
    /\ length (qlt_frame c h (h_seq h) (fst ch) (snd ch)) = (34 + length (fst ch))%nat
    /\ (length (qlt_frame c h (h_seq h) (fst ch) (snd ch)) <= o mtu)%nat
    /\ ledger_reg bl bb r' w'.
Proof.
  intros H1 H2 H3 H4 Hb LR P T0 O Sq ch.
  lift_frame junk ctx c g mtu r buf w bl bb H1 H2 H3 H4 Hb LR r' w' E Hs T LR'.
  exists r', w'. split; [exact E|].
  split; [rewrite T, (C08_step ctx c g mtu (reg_state r ctx) buf h P T0 O Sq); reflexivity|].
  destruct (C08_fits c mtu (conj H2 H3) h (h_seq h) (data_for g (reg_state r ctx) (h_b0 h)) (h_w1 h) (snd ch))
    as (F1 & F2).
  split; [exact F1|]. split; [exact F2|exact LR'].
Qed.

(* sequence number 0: ignored altogether *)
Theorem C08_buffer_level_seq0 junk ctx c g mtu r buf w bl bb h :
  c_mtu c = Some mtu -> 576 <= mtu -> mtu <= 9216 -> mtu <= c_rxsize c ->
  length buf = o (c_rxsize c) -> ledger_reg bl bb r w ->
  parse_hdr buf = Some h -> h_opc h = opcode_queryLargeTlv -> h_seq h = 0 ->
  exists r' w', parse_frame no_fail no_fail junk ctx c g r buf w = Ok r' w'
    /\ w_trace w' = w_trace w
    /\ (forall k, reg_state r' k = reg_state r k)
    /\ ledger_reg bl bb r' w'.
Proof.
  intros H1 H2 H3 H4 Hb LR P O Sq.
  destruct (frame_nominal junk ctx c g mtu r buf w bl bb H1 H2 H3 H4 Hb LR) as (r' & w' & E & S & Ot & T & LR' & _).
  rewrite (C08_seq0 ctx c g mtu (reg_state r ctx) buf h P O Sq) in S, T. cbn [fst snd rev app] in S, T.
  exists r', w'. split; [exact E|]. split; [exact T|]. split; [|exact LR'].
  intros k. destruct (N.eq_dec k ctx) as [->|Hk]; [exact S|apply Ot, Hk].
Qed.

(* the icon is read from the platform once and served from the interface's record afterwards *)
Theorem C08_buffer_level_icon junk ctx c g mtu r buf w bl bb h d :
  c_mtu c = Some mtu -> 576 <= mtu -> mtu <= 9216 -> mtu <= c_rxsize c ->
  length buf = o (c_rxsize c) -> ledger_reg bl bb r w ->
  parse_hdr buf = Some h -> is_discovery_tos (h_tos h) = true -> h_opc h = opcode_queryLargeTlv -> h_seq h <> 0 ->
  h_b0 h = tlv_iconImage -> g_icon g = Some d ->
  exists r' w', parse_frame no_fail no_fail junk ctx c g r buf w = Ok r' w'
    /\ icon (reg_state r' ctx) = Some (match icon (reg_state r ctx) with Some d0 => d0 | None => d end)
    /\ ledger_reg bl bb r' w'.
Proof.
  intros H1 H2 H3 H4 Hb LR P T0 O Sq B G.
  lift_frame junk ctx c g mtu r buf w bl bb H1 H2 H3 H4 Hb LR r' w' E Hs T LR'.
  exists r', w'. split; [exact E|]. split; [|exact LR'].
  rewrite Hs. exact (C08_icon_cached ctx c g mtu (reg_state r ctx) buf h d P T0 O Sq B G).
Qed.

(* ====================================================================== *)
(*  6. The hypotheses are jointly satisfiable                             *)
(* ====================================================================== *)

Definition bl_mapper : mac := Mac 2 0 0 0 0 9.
(* the record of interface 1 in mid-session: bl_mapper is the active mapper, two probes recorded *)
Definition bl_state : ist :=
  {| see := [PropsQuery.ex_ob 8 0; PropsQuery.ex_ob 7 1]; known := true; mreal := bl_mapper; mapp := bl_mapper;
     mseq := 0; gen_t := 4; gen_q := 0; icon := None |}.
Definition bl_reg : registry := [(1, bl_state)].
(* a world whose ledger holds exactly that registry: the record and its two see-list nodes *)
Definition bl_world : world :=
  {| w_trace := []; w_live := 3; w_bytes := sz_iface_state + 2 * sz_probe_node; w_allocs := 3; w_sends := 0; w_now := 0 |}.
Definition bl_g : gcfg :=
  {| g_host := [108; 108; 116; 100]; g_icon := Some PropsLarge.ex_data; g_fname := None; g_hwid := []; g_retfull := false |}.

(* frames from bl_mapper as they sit in the 1500-byte receive buffer of ex_cfg *)
Definition bl_discover : list byte := ex_rx (ex_frame bl_mapper tos_discovery opcode_discover 5).
(* an Emit declaring one descriptor: 14 zero bytes = a Train probe without pause *)
Definition bl_emit : list byte := ex_rx (ex_frame bl_mapper tos_discovery opcode_emit 1).
Definition bl_emit_nofit : list byte := ex_rx (ex_frame bl_mapper tos_discovery opcode_emit 200).
Definition bl_query : list byte := ex_rx (ex_frame bl_mapper tos_discovery opcode_query 0).
Definition bl_probe : list byte := ex_rx (ex_frame PropsMapper.ex_other tos_discovery opcode_probe 0).
Definition bl_qlt : list byte := ex_rx (qlt_request bl_mapper (own ex_cfg) bl_mapper (own ex_cfg) 5 tlv_iconImage 0).
Definition bl_qlt_seq0 : list byte := ex_rx (qlt_request bl_mapper (own ex_cfg) bl_mapper (own ex_cfg) 0 tlv_iconImage 0).

Lemma bytes_forallb l : forallb (fun x => x <? 256) l = true -> Forall (fun x => x < 256) l.
Proof.
  intros H. apply Forall_forall. intros x Hx. apply N.ltb_lt.
  exact (proj1 (forallb_forall _ l) H x Hx).
Qed.

Example buffer_level_hypotheses_satisfiable :
  (* common to all theorems: nominal configuration, a ledger that holds the registry, full receive buffers *)
  cfgs_nominal (fun _ => ex_cfg) (fun _ => 1500)
  /\ c_mtu ex_cfg = Some 1500 /\ 576 <= 1500 /\ 1500 <= 9216 /\ 1500 <= c_rxsize ex_cfg
  /\ ledger_reg 0 0 bl_reg bl_world
  /\ ledger_reg 0 0 [] world0
  /\ Forall (fun b => length b = o (c_rxsize ex_cfg))
            [bl_discover; bl_emit; bl_emit_nofit; bl_query; bl_probe; bl_qlt; bl_qlt_seq0]
  (* C02, history: frames on two interfaces with the clock moving in between *)
  /\ Forall (fop_len (fun _ => ex_cfg))
            [FFrame 1 bl_discover; FAdv 100; FFrame 2 bl_emit; FFrame 1 bl_emit; FAdv 5; FFrame 1 bl_query; FFrame 1 bl_qlt]
  (* C04: a well-formed configuration and an accepted Discover *)
  /\ cfg_wf ex_cfg bl_g
  /\ (exists h, parse_hdr bl_discover = Some h /\ is_discover h = true /\ matches (reg_state bl_reg 1) h = true)
  (* C06: an Emit from the active mapper, one descriptor of a known kind; and one that does not fit *)
  /\ (exists h, parse_hdr bl_emit = Some h /\ h_tos h = tos_discovery /\ h_opc h = opcode_emit
        /\ 1 <= h_w0 h /\ h_w0 h <= (1500 - 34) / 14
        /\ Forall (fun d => d_type d = 0 \/ d_type d = 1) (spec_descs bl_emit (o (h_w0 h)))
        /\ active (reg_state bl_reg 1) = Some (h_rsrc h))
  /\ (exists h, parse_hdr bl_emit_nofit = Some h /\ h_tos h = tos_discovery /\ h_opc h = opcode_emit
        /\ h_w0 h > (1500 - 34) / 14)
  (* C07: a Query and a Probe; the buffer holds bytes, the recorded kinds are 0 / 1 *)
  /\ (exists h, parse_hdr bl_query = Some h /\ is_query h = true)
  /\ Forall (fun x => x < 256) bl_query /\ types_ok (see (reg_state bl_reg 1))
  /\ (exists h, parse_hdr bl_probe = Some h /\ is_probe h = true)
  (* C08: a QueryLargeTlv for the icon, with sequence number 5 and with 0 *)
  /\ (exists h, parse_hdr bl_qlt = Some h /\ is_discovery_tos (h_tos h) = true /\ h_opc h = opcode_queryLargeTlv
        /\ h_seq h <> 0 /\ h_b0 h = tlv_iconImage /\ g_icon bl_g = Some PropsLarge.ex_data)
  /\ (exists h, parse_hdr bl_qlt_seq0 = Some h /\ h_opc h = opcode_queryLargeTlv /\ h_seq h = 0).
Proof.
  split; [exact (proj1 (proj2 system_hypotheses_satisfiable))|].
  split; [reflexivity|]. split; [lia|]. split; [lia|]. split; [unfold ex_cfg; cbn [c_rxsize]; lia|].
  split; [split; reflexivity|]. split; [split; reflexivity|].
  split; [repeat constructor|]. split; [repeat constructor|].
  split; [unfold cfg_wf, mac_ok, bytes_ok, ex_cfg, bl_g; cbn; repeat split; repeat constructor; try reflexivity; discriminate|].
  split; [eexists; split; [vm_compute; reflexivity|]; vm_compute; repeat split|].
  split.
  { eexists. split; [vm_compute; reflexivity|]. cbn [h_tos h_opc h_w0 h_rsrc].
    split; [reflexivity|]. split; [reflexivity|]. split; [vm_compute; discriminate|]. split; [vm_compute; discriminate|].
    split; [vm_compute; repeat constructor|reflexivity]. }
  split; [eexists; split; [vm_compute; reflexivity|]; vm_compute; repeat split|].
  split; [eexists; split; [vm_compute; reflexivity|]; vm_compute; repeat split|].
  split; [apply bytes_forallb; vm_compute; reflexivity|].
  split; [vm_compute; repeat constructor; discriminate|].
  split; [eexists; split; [vm_compute; reflexivity|]; vm_compute; repeat split|].
  split; [eexists; split; [vm_compute; reflexivity|]; vm_compute; repeat split; discriminate|].
  eexists. split; [vm_compute; reflexivity|]. vm_compute. repeat split.
Qed.

(* ---- the theorems applied to those instances ---- *)
Ltac bl_side :=
  solve [ reflexivity | lia | split; reflexivity | vm_compute; reflexivity | vm_compute; discriminate
        | vm_compute; repeat constructor
        | exact (proj1 (proj2 (proj2 (proj2 (proj2 (proj2 (proj2 (proj2 (proj2 (proj2 buffer_level_hypotheses_satisfiable)))))))))) ].

Definition bl_history : list fop :=
  [FFrame 1 bl_discover; FAdv 100; FFrame 2 bl_emit; FFrame 1 bl_emit; FAdv 5; FFrame 1 bl_query; FFrame 1 bl_qlt].

(* C02: the interleaved history from the empty registry runs without fault, puts ten calls on the trace
   (six of them transmissions, on interfaces 1 and 2), each well formed for its interface *)
Example C02_history_instance junk :
  exists r' w' ta,
    run_frames no_fail no_fail junk (fun _ => ex_cfg) bl_g [] bl_history world0 = Ok r' w'
    /\ w_trace w' = rev (map snd ta) ++ []
    /\ map fst ta = [1; 1; 2; 2; 2; 1; 1; 1; 1; 1]
    /\ forall k a, In (k, a) ta -> C02_act k ex_cfg 1500 a.
Proof.
  destruct (C02_buffer_level_history junk (fun _ => ex_cfg) bl_g (fun _ => 1500)
              (proj1 buffer_level_hypotheses_satisfiable) bl_history [] world0 0%nat 0)
    as (r' & w' & ta & E & Eta & T & _ & P).
  { repeat constructor. }
  { split; reflexivity. }
  exists r', w', ta. split; [exact E|]. split; [exact T|].
  split; [rewrite Eta; vm_compute; reflexivity|].
  intros k a Hin. exact (proj1 (P k a Hin)).
Qed.

(* C04: the Discover, re-sent to the interface in mid-session, is answered by a Hello that decodes to
   ex_cfg's attributes *)
Example C04_instance junk :
  exists r' w' fr hf,
    parse_frame no_fail no_fail junk 1 ex_cfg bl_g bl_reg bl_discover bl_world = Ok r' w'
    /\ w_trace w' = [Send 1 true fr; Sleep 10]
    /\ hello_fields fr = Some hf
    /\ decode_attrs (hf_props hf) = attrs_of ex_cfg bl_g
    /\ hf_gen hf = 5
    /\ ~ In 4 (map fst (hf_props hf)).
Proof.
  edestruct (C04_buffer_level junk 1 ex_cfg bl_g 1500 bl_reg bl_discover bl_world 0%nat 0)
    as (r' & w' & fr & hf & E & T & _ & Hf & D & _ & _ & _ & _ & _ & G & _ & _ & _ & W & _).
  1-10: bl_side.
  exists r', w', fr, hf. split; [exact E|]. split; [exact T|]. split; [exact Hf|]. split; [exact D|].
  split; [exact G|]. intros H4. apply (W 4) in H4; [apply H4; reflexivity|left; reflexivity].
Qed.

(* C06: the one-descriptor Emit makes the interface pause, transmit the probe, then the ACK *)
Example C06_instance junk :
  exists r' w' probe ack,
    parse_frame no_fail no_fail junk 1 ex_cfg bl_g bl_reg bl_emit bl_world = Ok r' w'
    /\ w_trace w' = [Send 1 true ack; Send 1 true probe; Sleep 0]
    /\ active (reg_state r' 1) = Some bl_mapper.
Proof.
  edestruct (C06_buffer_level junk 1 ex_cfg bl_g 1500 bl_reg bl_emit bl_world 0%nat 0) as (r' & w' & E & T & A & _).
  1-13: bl_side.
  vm_compute in T. exists r', w'. eexists. eexists. split; [exact E|]. split; [exact T|exact A].
Qed.

(* C07: the Query is answered with both recorded descriptors and empties the see-list *)
Example C07_instance junk :
  exists r' w' fr,
    parse_frame no_fail no_fail junk 1 ex_cfg bl_g bl_reg bl_query bl_world = Ok r' w'
    /\ w_trace w' = [Send 1 true fr]
    /\ decode_qresp fr = Some (7, false, [PropsQuery.ex_ob 8 0; PropsQuery.ex_ob 7 1])
    /\ see (reg_state r' 1) = [].
Proof.
  edestruct (C07_buffer_level_decoded junk 1 ex_cfg bl_g 1500 bl_reg bl_query bl_world 0%nat 0)
    as (r' & w' & fr & E & T & D & Sk & _).
  1-8: bl_side.
  { apply bytes_forallb. vm_compute. reflexivity. }
  { vm_compute. repeat constructor; discriminate. }
  exists r', w', fr. split; [exact E|]. split; [exact T|]. split; [exact D|exact Sk].
Qed.

(* C08: the first QueryLargeTlv for the 1300-byte icon is answered with its first 1464 bytes, i.e. all of it *)
Example C08_instance junk :
  exists r' w' fr,
    parse_frame no_fail no_fail junk 1 ex_cfg bl_g bl_reg bl_qlt bl_world = Ok r' w'
    /\ w_trace w' = [Send 1 true fr]
    /\ decode_qlt fr = Some (5, PropsLarge.ex_data, false).
Proof.
  edestruct (C08_buffer_level junk 1 ex_cfg bl_g 1500 bl_reg bl_qlt bl_world 0%nat 0) as (r' & w' & E & T & _).
  1-10: bl_side.
  eexists r', w', _. split; [exact E|]. split; [exact T|]. vm_compute. reflexivity.
Qed.

Print Assumptions parse_frame_as_f_step.
Print Assumptions C02_buffer_level.
Print Assumptions C02_buffer_level_history.
Print Assumptions C02_buffer_level_trace.
Print Assumptions C04_buffer_level.
Print Assumptions C06_buffer_level.
Print Assumptions C06_buffer_level_any.
Print Assumptions C06_buffer_level_nofit.
Print Assumptions C06_buffer_level_bound.
Print Assumptions C07_buffer_level.
Print Assumptions C07_buffer_level_decoded.
Print Assumptions C07_buffer_level_record.
Print Assumptions C08_buffer_level.
Print Assumptions C08_buffer_level_seq0.
Print Assumptions C08_buffer_level_icon.
Print Assumptions buffer_level_hypotheses_satisfiable.
Print Assumptions C02_history_instance.
Print Assumptions C06_instance.
