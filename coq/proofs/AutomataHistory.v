(* AutomataHistory.v - the one-step theorems of C13 / C14 / C15 / C16 lifted to
   HISTORIES: invariants of the whole modelled system (model/Sys.v) that hold
   after ANY finite list of operations, proved by induction over the list.

   The history class [hist_op] is the receive path of SysSafe.v (OFrame,
   OClassify, OEsp32, OFlow, OTick, OAdv) plus the constructor OMk and every
   call of the automata API that is not a raw state setter (the OSs.., OSt..,
   OMap.. calls and OBandInit/Hello/Update/Choose/DoHello).  Excluded: OSetMap, OSetSess,
   OSetEnum, OBandSet (test setters that write arbitrary values), OCfg, OGcfg,
   OCtor. *)
From LLTD Require Import BlockFun BufProofs BlockSafe Sys FaultProofs SysSafe.
From LLTD Require Import Automata SpecAutomata AutomataBase MappingProofs SessionProofs BandProofs TableProofs TickProofs.
From Coq Require Import Lia ZifyBool ZifyN ZifyNat.
Ltac Zify.zify_post_hook ::= Z.div_mod_to_equations.
Local Open Scope N_scope.

(* ================= the table walk stays inside the table ================= *)
Definition targets_below (n : N) (tbl : list (N * N * Z)) : Prop := Forall (fun r => snd (fst r) < n) tbl.

Lemma lookup_below n tbl cur input : forall acc,
  targets_below n tbl -> (match acc with Some s => s < n | None => True end) ->
  match lookup tbl cur input acc with Some s => s < n | None => True end.
Proof.
  induction tbl as [|[[f t] w] r IH]; intros acc H Ha; cbn [lookup]; [exact Ha|].
  inversion H as [|? ? H1 H2]; subst. cbn [fst snd] in H1.
  apply IH; [exact H2|]. destruct ((f =? cur) && (w =? input)%Z); assumption.
Qed.
Lemma next_state_below n tbl cur input : targets_below n tbl -> cur < n -> next_state tbl cur input < n.
Proof.
  intros H Hc. unfold next_state. pose proof (lookup_below n tbl cur input None H I) as L.
  destruct (lookup tbl cur input None); assumption.
Qed.

Lemma switch_timed_last tbl tmo a now input : a_last (switch_timed tbl tmo a now input) = now.
Proof. unfold switch_timed. destruct (pass tbl tmo (a_cur a) input _) as [s1 timed]. destruct timed; reflexivity. Qed.
Lemma switch_timed_below n tbl tmo a now input :
  targets_below n tbl -> a_cur a < n -> a_cur (switch_timed tbl tmo a now input) < n.
Proof.
  intros H Hc. unfold switch_timed, pass.
  destruct (negb (timeout_of tmo (a_cur a) =? 0)%Z && _); cbn [fst a_cur]; repeat apply next_state_below; assumption.
Qed.

Lemma mapping_targets : targets_below 3 mapping_trans.
Proof. unfold targets_below, mapping_trans. repeat constructor. Qed.
Lemma session_targets : targets_below 4 session_trans.
Proof. unfold targets_below, session_trans. repeat constructor. Qed.
Lemma enumeration_targets : targets_below 3 enumeration_trans.
Proof. unfold targets_below, enumeration_trans. repeat constructor. Qed.

Lemma switch_enum_below e now i : a_cur e < 3 -> a_cur (switch_enum e now i) < 3.
Proof. intros H. unfold switch_enum; cbn [a_cur]. apply next_state_below; [exact enumeration_targets|exact H]. Qed.

(* input -1 ("end") takes every legal mapping state to Quiescent, timed out or not, wrap-around or not *)
Lemma switch_mapping_end a now : a_cur a < 3 -> a_cur (switch_mapping a now (-1)%Z) = 0.
Proof.
  intros H. unfold switch_mapping, switch_timed, pass.
  generalize ((now + W64 - a_last a) mod W64). intros d.
  assert (C : a_cur a = 0 \/ a_cur a = 1 \/ a_cur a = 2) by lia.
  destruct C as [-> | [-> | ->]].
  - vm_compute. reflexivity.
  - change (timeout_of mapping_timeouts 1) with 5%Z. change (u64_of_Z 5) with 5. change (negb (5 =? 0)%Z) with true.
    cbn [andb]. destruct (5 <? d); vm_compute; reflexivity.
  - change (timeout_of mapping_timeouts 2) with 30%Z. change (u64_of_Z 30) with 30. change (negb (30 =? 0)%Z) with true.
    cbn [andb]. destruct (30 <? d); vm_compute; reflexivity.
Qed.

(* legal codes as names *)
Lemma mstate_code_ex n : n < 3 -> exists s, n = mstate_code s.
Proof. intros H. assert (C : n = 0 \/ n = 1 \/ n = 2) by lia.
  destruct C as [-> | [-> | ->]]; [exists Quiescent|exists Command|exists Emitting]; reflexivity. Qed.
Lemma sstate_code_ex n : n < 4 -> exists s, n = sstate_code s.
Proof. intros H. assert (C : n = 0 \/ n = 1 \/ n = 2 \/ n = 3) by lia.
  destruct C as [-> | [-> | [-> | ->]]]; [exists Temporary|exists Nascent|exists Pending|exists Complete]; reflexivity. Qed.

(* ================= C16: the flow's and the tick's table updates keep the table invariant ================= *)
Lemma upd_nth_keys l i (f : slot -> slot) :
  (forall s, s_valid (f s) = s_valid s /\ s_mac (f s) = s_mac s /\ s_gen (f s) = s_gen s) ->
  keys (live (upd_nth l i f)) = keys (live l).
Proof.
  intros Hf. revert i; induction l as [|x r IH]; intros i; [destruct i; reflexivity|].
  destruct i as [|j]; cbn [upd_nth]; rewrite !live_cons.
  - destruct (Hf x) as (Hv & Hm & Hg). rewrite Hv. destruct (s_valid x); [|reflexivity].
    cbn [keys map]. rewrite Hm, Hg. reflexivity.
  - destruct (s_valid x); [cbn [keys map]; f_equal|]; apply IH.
Qed.
Lemma upd_nth_live_length l i (f : slot -> slot) :
  (forall s, s_valid (f s) = s_valid s /\ s_mac (f s) = s_mac s /\ s_gen (f s) = s_gen s) ->
  length (live (upd_nth l i f)) = length (live l).
Proof.
  intros Hf. rewrite <- (map_length (fun s => (s_mac s, s_gen s)) (live (upd_nth l i f))).
  fold (keys (live (upd_nth l i f))). rewrite upd_nth_keys by exact Hf. unfold keys. apply map_length.
Qed.

Lemma st_add_inv t now m g seq : Inv t -> Inv (fst (st_add t now m g seq)).
Proof. intros I. exact (tstep_inv t (TAdd now m g seq) I). Qed.

Theorem flow_table_inv now_s h ev t : Inv t -> Inv (flow_table now_s h ev t).
Proof.
  intros I. unfold flow_table.
  destruct (h_opc h =? opcode_discover).
  - pose proof (st_add_inv t now_s (h_rsrc h) (h_w0 h) (h_seq h) I) as I1.
    destruct (st_add t now_s (h_rsrc h) (h_w0 h) (h_seq h)) as [t1 oi]. cbn [fst] in I1.
    destruct I1 as [L1 N1 C1 A1].
    destruct oi as [i|]; apply st_update_status_inv; cbn [t_slots t_count]; try assumption.
    + rewrite upd_nth_length. exact L1.
    + rewrite upd_nth_keys by (intros s; cbn [s_valid s_mac s_gen]; auto). exact N1.
    + rewrite upd_nth_live_length by (intros s; cbn [s_valid s_mac s_gen]; auto). exact C1.
  - destruct (h_opc h =? opcode_reset); [apply st_clear_spec|]; exact I.
Qed.

Theorem tick_table_inv now_s t : Inv t -> Inv (tick_table now_s t).
Proof. intros I. apply tick_table_spec, I. Qed.

(* ================= the per-interface invariant ================= *)
(* the longest Hello interval the RepeatBand arithmetic can choose (ms) *)
Definition HTS_AHEAD : N := hello_interval BAND_NMAX.
Lemma HTS_AHEAD_value : HTS_AHEAD = 26667. Proof. vm_compute. reflexivity. Qed.

Lemma hello_interval_range ni : ni <= NMAX -> 6 <= hello_interval ni <= HTS_AHEAD.
Proof.
  intros H. split.
  - rewrite hello_interval_closed by exact H. lia.
  - unfold HTS_AHEAD. change BAND_NMAX with NMAX. apply hello_interval_monotone; [exact H|lia].
Qed.

(* RepeatBand state: count within [ALPHA, NMAX], r a uint32, nothing scheduled
   further ahead than one maximal interval / one block *)
Definition BInv (now : N) (b : band) : Prop :=
  band_inv b /\ b_hts b <= now + HTS_AHEAD /\ b_bts b <= now + BAND_BLOCK_TIME.

Record AInv (now : N) (a : aset) : Prop := {
  ai_map_st : a_cur (a_map a) < 3;
  ai_map_ts : a_last (a_map a) <= now / 1000;
  ai_sess_st : a_cur (a_sess a) < 4;
  ai_sess_ts : a_last (a_sess a) <= now / 1000;
  ai_enum_st : a_cur (a_enum a) < 3;
  ai_enum_ts : a_last (a_enum a) <= now / 1000;
  ai_band : BInv now (a_band a);
  ai_tbl : Inv (a_tbl a);
  ai_ltx : a_ltx a <= now;
  ai_inact : ms_inact (a_mst a) <= now / 1000 + 30
}.

Lemma BInv_mono now now' b : now <= now' -> BInv now b -> BInv now' b.
Proof. intros H (B & H1 & H2). split; [exact B|]. lia. Qed.
Lemma AInv_mono now now' a : now <= now' -> AInv now a -> AInv now' a.
Proof.
  intros H [A1 A2 A3 A4 A5 A6 A7 A8 A9 A10].
  split; try assumption; try lia. eapply BInv_mono; eassumption.
Qed.

Lemma band0_inv : band_inv band0.
Proof. unfold band_inv, band0; cbn. change BAND_ALPHA with 45. unfold ALPHA, NMAX, W32. lia. Qed.

Lemma AInv_fresh now : 
  AInv now {| a_map := {| a_cur := mapping_init; a_last := now / 1000 |}; a_mst := mstate0;
              a_sess := {| a_cur := session_init; a_last := now / 1000 |};
              a_enum := {| a_cur := enumeration_init; a_last := now / 1000 |};
              a_band := band0; a_tbl := table0; a_ltx := 0 |}.
Proof.
  split; cbn [a_map a_sess a_enum a_band a_tbl a_ltx a_mst a_cur a_last mstate0 ms_inact];
    try (unfold mapping_init, session_init, enumeration_init; lia).
  - split; [exact band0_inv|]. cbn [band0 b_hts b_bts]. lia.
  - exact inv_table0.
Qed.
Lemma AInv_aset0 now : AInv now aset0.
Proof.
  split; cbn [aset0 a_map a_sess a_enum a_band a_tbl a_ltx a_mst a_cur a_last mstate0 ms_inact];
    try (unfold mapping_init, session_init, enumeration_init; lia).
  - split; [exact band0_inv|]. cbn [band0 b_hts b_bts]. lia.
  - exact inv_table0.
Qed.

(* ---- the band operations ---- *)
Lemma mod_le x : x mod W64 <= x.
Proof. unfold W64. lia. Qed.

Lemma BInv_init now b : BInv now (band_init now b).
Proof.
  split; [apply band_init_inv|]. unfold band_init; cbn [b_hts b_bts].
  pose proof (mod_le (now + BAND_BLOCK_TIME)). lia.
Qed.
Lemma BInv_on_hello now b : BInv now b -> BInv now (band_on_hello b).
Proof. intros (B & H1 & H2). split; [apply band_on_hello_inv, B|]. unfold band_on_hello; cbn [b_hts b_bts]. auto. Qed.
Lemma BInv_update now b : BInv now b -> BInv now (band_update now b).
Proof.
  intros (B & H1 & H2). split; [apply band_update_inv, B|]. unfold band_update; cbn [b_hts b_bts].
  pose proof (mod_le (now + BAND_BLOCK_TIME)). lia.
Qed.
Lemma BInv_choose now b : BInv now b -> BInv now (band_choose now b).
Proof.
  intros (B & H1 & H2). split; [exact B|]. unfold band_choose; cbn [b_hts b_bts].
  destruct B as [[_ Hn] _]. pose proof (hello_interval_range (b_ni b) Hn).
  pose proof (mod_le (now + hello_interval (b_ni b))). lia.
Qed.
Lemma BInv_do_hello now b : BInv now b -> BInv now (band_do_hello now b).
Proof.
  intros H. destruct (BInv_choose now b H) as (B & H1 & H2).
  split; [exact B|]. unfold band_do_hello. cbn [b_hts b_bts]. auto.
Qed.
Lemma BInv_begun now b v : BInv now b ->
  BInv now {| b_ni := b_ni b; b_r := b_r b; b_begun := v; b_hts := b_hts b; b_bts := b_bts b |}.
Proof. intros (B & H1 & H2). split; [exact B|]. cbn [b_hts b_bts]. auto. Qed.
Lemma BInv_stop now b : BInv now b ->
  BInv now {| b_ni := b_ni b; b_r := b_r b; b_begun := false; b_hts := 0; b_bts := 0 |}.
Proof. intros (B & H1 & H2). split; [exact B|]. cbn [b_hts b_bts]. lia. Qed.
Lemma BInv_set_hts now b h : BInv now b -> h <= now + HTS_AHEAD -> BInv now (band_set_hts b h).
Proof. intros (B & H1 & H2) H. split; [exact B|]. unfold band_set_hts; cbn [b_hts b_bts]. auto. Qed.

(* ================= the tick as a pure function of the clock ================= *)
Definition tick_res (now : N) (a : aset) : aset :=
  let ns := now / 1000 in
  let a1 := tick_mapping ns a in
  let t := tick_table ns (a_tbl a1) in
  let '(e, b) := tick_enum_state ns (a_enum a1) (a_band a1) t in
  if a_cur e =? 1 then
    let '(e2, b2, ltx, _) := tick_hello now ns e b (a_ltx a1) in
    {| a_map := a_map a1; a_mst := a_mst a1; a_sess := a_sess a1; a_enum := e2;
       a_band := tick_block now b2; a_tbl := t; a_ltx := ltx |}
  else
    {| a_map := a_map a1; a_mst := a_mst a1; a_sess := a_sess a1; a_enum := e;
       a_band := b; a_tbl := t; a_ltx := a_ltx a1 |}.

Lemma tick_eq ctx a w :
  exists w', tick ctx a w = Ok (tick_res (w_now w) a) w'
    /\ w_now w' = w_now w /\ w_live w' = w_live w /\ w_bytes w' = w_bytes w.
Proof.
  unfold tick, tick_res, bind, now_ms. cbv zeta.
  destruct (tick_enum_state _ _ _ _) as [e b].
  destruct (a_cur e =? 1).
  - destruct (tick_hello _ _ _ _ _) as [[[e2 b2] ltx] tx].
    destruct tx; unfold act, ret; eexists; (split; [reflexivity|]); cbn [w_now w_live w_bytes]; auto.
  - unfold ret; eexists; (split; [reflexivity|]); auto.
Qed.

Lemma check_charge_inact ns m : ms_inact (map_check_charge ns m) = ms_inact m.
Proof. unfold map_check_charge. destruct (negb (ms_chg m =? 0) && (ms_chg m <=? ns)); reflexivity. Qed.

Lemma tick_mapping_inv now a : AInv now a -> AInv now (tick_mapping (now / 1000) a).
Proof.
  intros [A1 A2 A3 A4 A5 A6 A7 A8 A9 A10]. unfold tick_mapping.
  destruct (map_inactive_due (now / 1000) (a_mst a));
    split; cbn [a_map a_mst a_sess a_enum a_band a_tbl a_ltx]; try assumption;
    rewrite ?check_charge_inact; try assumption.
  - apply switch_timed_below; [exact mapping_targets|exact A1].
  - unfold switch_mapping. rewrite switch_timed_last. lia.
  - apply st_clear_spec, A8.
  - cbn [map_reset_charge ms_inact]. lia.
Qed.
Lemma tick_mapping_sess ns a : a_sess (tick_mapping ns a) = a_sess a.
Proof. unfold tick_mapping. destruct (map_inactive_due ns (a_mst a)); reflexivity. Qed.

Lemma tick_enum_state_inv now e b t :
  a_cur e < 3 -> a_last e <= now / 1000 -> BInv now b ->
  let r := tick_enum_state (now / 1000) e b t in
  a_cur (fst r) < 3 /\ a_last (fst r) <= now / 1000 /\ BInv now (snd r).
Proof.
  intros H1 H2 HB. cbv zeta. unfold tick_enum_state.
  destruct (a_cur e =? 0); [cbn [fst snd]; auto|].
  destruct (st_is_empty t).
  { cbn [fst snd a_cur a_last]. split; [lia|]. split; [exact H2|]. apply BInv_stop, HB. }
  destruct (t_allc t); cbn [fst snd]; (split; [apply switch_enum_below, H1|]); (split; [cbn [switch_enum a_last]; lia|exact HB]).
Qed.

Lemma tick_hello_inv now e b ltx :
  a_cur e < 3 -> a_last e <= now / 1000 -> BInv now b -> ltx <= now ->
  let r := tick_hello now (now / 1000) e b ltx in
  a_cur (fst (fst (fst r))) < 3 /\ a_last (fst (fst (fst r))) <= now / 1000 /\
  BInv now (snd (fst (fst r))) /\ snd (fst r) <= now.
Proof.
  intros H1 H2 HB HL. cbv zeta. unfold tick_hello.
  destruct ((0 <? b_hts b) && (b_hts b <=? now)); [|cbn [fst snd]; auto].
  destruct ((0 <? ltx) && ((now + W64 - ltx) mod W64 <? HELLO_MIN_INTERVAL_MS)); cbn [fst snd].
  - split; [exact H1|]. split; [exact H2|]. split; [|exact HL].
    apply BInv_set_hts; [exact HB|]. pose proof (mod_le (ltx + HELLO_MIN_INTERVAL_MS)).
    rewrite HTS_AHEAD_value. change HELLO_MIN_INTERVAL_MS with 1000 in *. lia.
  - split; [apply switch_enum_below, H1|]. split; [cbn [switch_enum a_last]; lia|]. split; [|lia].
    pose proof (BInv_do_hello now b HB) as HD.
    destruct (b_hts (band_do_hello now b) <? (now + HELLO_MIN_INTERVAL_MS) mod W64); [|exact HD].
    apply BInv_set_hts; [exact HD|]. pose proof (mod_le (now + HELLO_MIN_INTERVAL_MS)).
    rewrite HTS_AHEAD_value. change HELLO_MIN_INTERVAL_MS with 1000 in *. lia.
Qed.

Lemma tick_block_inv now b : BInv now b -> BInv now (tick_block now b).
Proof.
  intros HB. unfold tick_block. destruct ((0 <? b_bts b) && (b_bts b <=? now)); [|exact HB].
  apply BInv_choose, BInv_update, HB.
Qed.

Theorem tick_res_inv now a : AInv now a -> AInv now (tick_res now a).
Proof.
  intros HA. apply tick_mapping_inv in HA. unfold tick_res. cbv zeta.
  remember (tick_mapping (now / 1000) a) as a1 eqn:E1. clear E1.
  destruct HA as [A1 A2 A3 A4 A5 A6 A7 A8 A9 A10].
  pose proof (tick_table_inv (now / 1000) (a_tbl a1) A8) as HT.
  pose proof (tick_enum_state_inv now (a_enum a1) (a_band a1) (tick_table (now / 1000) (a_tbl a1)) A5 A6 A7) as HE.
  cbv zeta in HE. destruct (tick_enum_state _ _ _ _) as [e b]. cbn [fst snd] in HE. destruct HE as (E1 & E2 & E3).
  destruct (a_cur e =? 1).
  - pose proof (tick_hello_inv now e b (a_ltx a1) E1 E2 E3 A9) as HH. cbv zeta in HH.
    destruct (tick_hello _ _ _ _ _) as [[[e2 b2] ltx] tx]. cbn [fst snd] in HH. destruct HH as (G1 & G2 & G3 & G4).
    split; cbn [a_map a_mst a_sess a_enum a_band a_tbl a_ltx]; try assumption. apply tick_block_inv, G3.
  - split; cbn [a_map a_mst a_sess a_enum a_band a_tbl a_ltx]; assumption.
Qed.

(* what the tick leaves of the other fields *)
Lemma tick_res_fields now a :
  let ns := now / 1000 in
  a_map (tick_res now a) = a_map (tick_mapping ns a) /\ a_mst (tick_res now a) = a_mst (tick_mapping ns a) /\
  a_sess (tick_res now a) = a_sess a /\ a_tbl (tick_res now a) = tick_table ns (a_tbl (tick_mapping ns a)).
Proof.
  cbv zeta. unfold tick_res. cbv zeta. rewrite <- (tick_mapping_sess (now / 1000) a).
  destruct (tick_enum_state _ _ _ _) as [e b].
  destruct (a_cur e =? 1); [destruct (tick_hello _ _ _ _ _) as [[[e2 b2] ltx] tx]|]; cbn [a_map a_mst a_sess a_tbl]; auto.
Qed.

(* ---- while Hellos are being sent the tick never leaves a due Hello time behind ---- *)
Lemma choose_future now b : band_inv b -> now + HTS_AHEAD < W64 ->
  now + 6 <= b_hts (band_choose now b) <= now + HTS_AHEAD.
Proof.
  intros [[_ Hn] _] Hw. unfold band_choose; cbn [b_hts].
  pose proof (hello_interval_range (b_ni b) Hn). rewrite N.mod_small by lia. lia.
Qed.

Lemma tick_block_hts now b : BInv now b -> now + HTS_AHEAD < W64 ->
  (b_hts b = 0 \/ now < b_hts b) -> b_hts (tick_block now b) = 0 \/ now < b_hts (tick_block now b).
Proof.
  intros HB Hw H. unfold tick_block. destruct ((0 <? b_bts b) && (b_bts b <=? now)); [|exact H].
  right. destruct (BInv_update now b HB) as (B & _). pose proof (choose_future now (band_update now b) B Hw). lia.
Qed.

Lemma tick_hello_hts now e b ltx : BInv now b -> ltx <= now -> now + HTS_AHEAD < W64 ->
  let b2 := snd (fst (fst (tick_hello now (now / 1000) e b ltx))) in b_hts b2 = 0 \/ now < b_hts b2.
Proof.
  intros HB HL Hw. cbv zeta. unfold tick_hello. rewrite HTS_AHEAD_value in Hw.
  destruct ((0 <? b_hts b) && (b_hts b <=? now)) eqn:Ed; [|cbn [fst snd]; lia].
  destruct ((0 <? ltx) && ((now + W64 - ltx) mod W64 <? HELLO_MIN_INTERVAL_MS)) eqn:Er; cbn [fst snd].
  - right. rewrite diff_small in Er by (unfold W64 in *; lia). change HELLO_MIN_INTERVAL_MS with 1000 in *.
    unfold band_set_hts; cbn [b_hts]. rewrite N.mod_small by (unfold W64 in *; lia). lia.
  - right. destruct HB as (B & _).
    assert (Hc : now + 6 <= b_hts (band_do_hello now b)).
    { unfold band_do_hello. cbn [b_hts]. apply choose_future; [exact B|rewrite HTS_AHEAD_value; exact Hw]. }
    change HELLO_MIN_INTERVAL_MS with 1000 in *.
    rewrite (N.mod_small (now + 1000)) by (unfold W64 in *; lia).
    destruct (b_hts (band_do_hello now b) <? now + 1000); [unfold band_set_hts; cbn [b_hts]|]; lia.
Qed.

Theorem tick_res_hts now a : AInv now a -> now + HTS_AHEAD < W64 ->
  a_cur (a_enum (tick_res now a)) = 1 ->
  b_hts (a_band (tick_res now a)) = 0 \/ now < b_hts (a_band (tick_res now a)).
Proof.
  intros HA Hw. apply tick_mapping_inv in HA. unfold tick_res. cbv zeta.
  remember (tick_mapping (now / 1000) a) as a1 eqn:E1. clear E1.
  destruct HA as [A1 A2 A3 A4 A5 A6 A7 A8 A9 A10].
  pose proof (tick_enum_state_inv now (a_enum a1) (a_band a1) (tick_table (now / 1000) (a_tbl a1)) A5 A6 A7) as HE.
  cbv zeta in HE. destruct (tick_enum_state _ _ _ _) as [e b]. cbn [fst snd] in HE. destruct HE as (E1 & E2 & E3).
  destruct (a_cur e =? 1) eqn:Ee.
  - pose proof (tick_hello_inv now e b (a_ltx a1) E1 E2 E3 A9) as HH. cbv zeta in HH.
    pose proof (tick_hello_hts now e b (a_ltx a1) E3 A9 Hw) as HF. cbv zeta in HF.
    destruct (tick_hello _ _ _ _ _) as [[[e2 b2] ltx] tx]. cbn [fst snd] in HH, HF. destruct HH as (G1 & G2 & G3 & G4).
    cbn [a_enum a_band]. intros _. apply tick_block_hts; assumption.
  - cbn [a_enum a_band]. intros H. rewrite H in Ee. discriminate.
Qed.

(* ================= the per-frame flow and the ESP32 entry point ================= *)
Lemma switch_mapping_inv a now i : a_cur a < 3 ->
  a_cur (switch_mapping a now i) < 3 /\ a_last (switch_mapping a now i) = now.
Proof. intros H. split; [apply switch_timed_below; [exact mapping_targets|exact H]|apply switch_timed_last]. Qed.
Lemma switch_session_inv a now i : a_cur a < 4 ->
  a_cur (switch_session a now i) < 4 /\ a_last (switch_session a now i) = now.
Proof. intros H. split; [apply switch_timed_below; [exact session_targets|exact H]|apply switch_timed_last]. Qed.

Theorem flow_automata_inv now h ev a : AInv now a -> AInv now (flow_automata now h ev a).
Proof.
  intros [A1 A2 A3 A4 A5 A6 A7 A8 A9 A10]. unfold flow_automata. cbv zeta.
  destruct (switch_mapping_inv (a_map a) (now / 1000) (Zc (h_opc h)) A1) as [M1 M2].
  destruct (switch_session_inv (a_sess a) (now / 1000) ev A3) as [S1 S2].
  assert (HT : Inv (if negb (a_cur (a_map a) =? 0) && (a_cur (switch_mapping (a_map a) (now / 1000) (Zc (h_opc h))) =? 0)
                    then st_clear (flow_table (now / 1000) h ev (a_tbl a)) else flow_table (now / 1000) h ev (a_tbl a))).
  { pose proof (flow_table_inv (now / 1000) h ev (a_tbl a) A8) as I1. destruct (_ && _); [apply st_clear_spec|]; exact I1. }
  assert (HM : ms_inact (if h_opc h =? opcode_charge then map_on_charge (now / 1000) (map_touch (now / 1000) (a_mst a))
                         else map_touch (now / 1000) (a_mst a)) <= now / 1000 + 30).
  { pose proof (mod_le (now / 1000 + 30)). destruct (h_opc h =? opcode_charge); cbn [map_on_charge map_touch ms_inact]; lia. }
  assert (HS : a_cur (if (0 <=? ev)%Z then switch_session (a_sess a) (now / 1000) ev else a_sess a) < 4 /\
               a_last (if (0 <=? ev)%Z then switch_session (a_sess a) (now / 1000) ev else a_sess a) <= now / 1000).
  { destruct (0 <=? ev)%Z; split; try assumption; lia. }
  destruct HS as [HS1 HS2].
  destruct (h_opc h =? opcode_hello); [|destruct (h_opc h =? opcode_discover)];
    split; cbn [a_map a_mst a_sess a_enum a_band a_tbl a_ltx]; try assumption; try lia;
    try (apply switch_enum_below, A5); try (cbn [switch_enum a_last]; lia).
  - apply BInv_on_hello, A7.
  - destruct (a_cur (a_enum a) =? 0); [apply BInv_choose, BInv_init|apply BInv_begun, A7].
Qed.

Lemma flow_automata_sess now h ev a :
  a_sess (flow_automata now h ev a) = if (0 <=? ev)%Z then switch_session (a_sess a) (now / 1000) ev else a_sess a.
Proof.
  unfold flow_automata. cbv zeta.
  destruct (h_opc h =? opcode_hello); [|destruct (h_opc h =? opcode_discover)]; reflexivity.
Qed.

Theorem esp32_handle_inv buf len now a a' :
  esp32_handle buf len (now / 1000) a = Some a' -> AInv now a -> AInv now a'.
Proof.
  unfold esp32_handle. intros H HA. destruct (len <? sz_hdr); [inversion H; subst; exact HA|].
  destruct (rd8 buf (o of_opcode)) as [opc|]; [|discriminate]. inversion H; subst. clear H.
  destruct HA as [A1 A2 A3 A4 A5 A6 A7 A8 A9 A10].
  destruct (switch_mapping_inv (a_map a) (now / 1000) (Zc opc) A1) as [M1 M2].
  destruct (switch_session_inv (a_sess a) (now / 1000) (Zc opc) A3) as [S1 S2].
  split; cbn [a_map a_mst a_sess a_enum a_band a_tbl a_ltx]; try assumption; try lia.
  - apply switch_enum_below, A5.
  - cbn [switch_enum a_last]. lia.
Qed.

(* ---- replacing one component ---- *)
Lemma AInv_set_map now a m : a_cur m < 3 -> a_last m <= now / 1000 -> AInv now a ->
  AInv now {| a_map := m; a_mst := a_mst a; a_sess := a_sess a; a_enum := a_enum a; a_band := a_band a; a_tbl := a_tbl a; a_ltx := a_ltx a |}.
Proof. intros H1 H2 [A1 A2 A3 A4 A5 A6 A7 A8 A9 A10]. split; cbn [a_map a_mst a_sess a_enum a_band a_tbl a_ltx]; assumption. Qed.
Lemma AInv_set_sess now a m : a_cur m < 4 -> a_last m <= now / 1000 -> AInv now a ->
  AInv now {| a_map := a_map a; a_mst := a_mst a; a_sess := m; a_enum := a_enum a; a_band := a_band a; a_tbl := a_tbl a; a_ltx := a_ltx a |}.
Proof. intros H1 H2 [A1 A2 A3 A4 A5 A6 A7 A8 A9 A10]. split; cbn [a_map a_mst a_sess a_enum a_band a_tbl a_ltx]; assumption. Qed.
Lemma AInv_set_enum now a m : a_cur m < 3 -> a_last m <= now / 1000 -> AInv now a ->
  AInv now {| a_map := a_map a; a_mst := a_mst a; a_sess := a_sess a; a_enum := m; a_band := a_band a; a_tbl := a_tbl a; a_ltx := a_ltx a |}.
Proof. intros H1 H2 [A1 A2 A3 A4 A5 A6 A7 A8 A9 A10]. split; cbn [a_map a_mst a_sess a_enum a_band a_tbl a_ltx]; assumption. Qed.
Lemma AInv_set_band now a b : BInv now b -> AInv now a ->
  AInv now {| a_map := a_map a; a_mst := a_mst a; a_sess := a_sess a; a_enum := a_enum a; a_band := b; a_tbl := a_tbl a; a_ltx := a_ltx a |}.
Proof. intros H1 [A1 A2 A3 A4 A5 A6 A7 A8 A9 A10]. split; cbn [a_map a_mst a_sess a_enum a_band a_tbl a_ltx]; assumption. Qed.
Lemma AInv_set_tbl now a t : Inv t -> AInv now a -> AInv now (set_tbl a t).
Proof. intros H1 [A1 A2 A3 A4 A5 A6 A7 A8 A9 A10]. split; cbn [set_tbl a_map a_mst a_sess a_enum a_band a_tbl a_ltx]; assumption. Qed.
Lemma AInv_set_mst now a m : ms_inact m <= now / 1000 + 30 -> AInv now a ->
  AInv now {| a_map := a_map a; a_mst := m; a_sess := a_sess a; a_enum := a_enum a; a_band := a_band a; a_tbl := a_tbl a; a_ltx := a_ltx a |}.
Proof. intros H1 [A1 A2 A3 A4 A5 A6 A7 A8 A9 A10]. split; cbn [a_map a_mst a_sess a_enum a_band a_tbl a_ltx]; assumption. Qed.

(* ================= the system invariant ================= *)
Definition hist_op (p : op) : Prop :=
  match p with
  | OAdv _ | OFrame _ _ _ | OClassify _ _ _ | OEsp32 _ _ _ | OFlow _ _ _ | OTick _ | OMk _
  | OSsMap _ _ | OSsSess _ _ | OSsEnum _ _
  | OStAdd _ _ _ _ | OStFind _ _ _ | OStRemove _ _ _ | OStComplete _ _ _ _ | OStClear _
  | OBandInit _ | OBandHello _ | OBandUpdate _ | OBandChoose _ | OBandDoHello _
  | OMapCharge _ | OMapTouch _ | OMapResetCharge _ => True
  | _ => False
  end.
(* the receive path, as in SysSafe.rx_history_safe *)
Definition rx_op (p : op) : Prop :=
  match p with
  | OFrame _ _ _ | OClassify _ _ _ | OFlow _ _ _ | OEsp32 _ _ _ | OTick _ | OAdv _ => True
  | _ => False
  end.
Lemma rx_op_hist p : rx_op p -> hist_op p.
Proof. destruct p; cbn; auto. Qed.
Lemma rx_ops_hist ops : Forall rx_op ops -> Forall hist_op ops.
Proof. intros H. eapply Forall_impl; [|exact H]. exact rx_op_hist. Qed.

Definition HInv (y : sys) (w : world) : Prop :=
  (forall ctx, cfg_ok (cfg_of y ctx)) /\
  (exists bl bb, ledger_reg bl bb (y_reg y) w) /\
  reg_bounded (y_g y) (y_reg y) /\
  forall ctx, AInv (w_now w) (aset_of y ctx).

(* the clock stands still, the ledger only grows *)
Definition wle (w w' : world) : Prop :=
  w_now w' = w_now w /\ (w_live w <= w_live w')%nat /\ w_bytes w <= w_bytes w'.
Lemma wle_refl w : wle w w. Proof. unfold wle. lia. Qed.
Lemma wle_trans a b c : wle a b -> wle b c -> wle a c. Proof. unfold wle. lia. Qed.
Lemma ledger_ex_mono r w w' : wle w w' ->
  (exists bl bb, ledger_reg bl bb r w) -> exists bl bb, ledger_reg bl bb r w'.
Proof.
  intros (_ & H1 & H2) (bl & bb & L1 & L2).
  exists (w_live w' - reg_count r)%nat, (w_bytes w' - reg_bytes r). unfold ledger_reg. lia.
Qed.
Lemma bind_alloc {A} af n (k : bool -> M A) w : exists b w1, wle w w1 /\ bind (alloc af n) k w = k b w1.
Proof.
  unfold bind, alloc. destruct (af (w_allocs w)); eexists _, _; (split; [|reflexivity]); unfold wle; cbn [w_now w_live w_bytes]; lia.
Qed.

Lemma aset_of_set y ctx a c : aset_of (set_aset y ctx a) c = if c =? ctx then a else aset_of y c.
Proof.
  unfold aset_of, set_aset. cbn [y_as]. destruct (N.eqb_spec c ctx) as [->|ne].
  - rewrite assoc_set_same. reflexivity.
  - rewrite assoc_set_other by exact ne. reflexivity.
Qed.

(* an operation that replaces the automata of [ctx] and possibly the registry *)
Lemma HInv_step y w r' w' ctx a' :
  HInv y w -> (exists bl bb, ledger_reg bl bb r' w') -> reg_bounded (y_g y) r' -> w_now w <= w_now w' ->
  AInv (w_now w') a' -> HInv (set_aset (set_reg y r') ctx a') w'.
Proof.
  intros (C & L & B & A) L' B' Hn HA. split; [|split; [|split]].
  - exact C.
  - exact L'.
  - exact B'.
  - intros c. rewrite aset_of_set. destruct (c =? ctx); [exact HA|].
    change (aset_of (set_reg y r') c) with (aset_of y c). eapply AInv_mono; [exact Hn|apply A].
Qed.
Lemma HInv_upd y w ctx a' : HInv y w -> AInv (w_now w) a' -> HInv (set_aset y ctx a') w.
Proof.
  intros H HA. destruct H as (C & L & B & A). split; [exact C|]. split; [exact L|]. split; [exact B|].
  intros c. rewrite aset_of_set. destruct (c =? ctx); [exact HA|apply A].
Qed.
Lemma HInv_world y w w' : HInv y w -> wle w w' -> HInv y w'.
Proof.
  intros (C & L & B & A) Hw. split; [exact C|]. split; [eapply ledger_ex_mono; eassumption|]. split; [exact B|].
  destruct Hw as (-> & _). exact A.
Qed.

Lemma HInv_sys0 w : HInv sys0 w.
Proof.
  destruct rx_history_applies as (C & _ & B). split; [exact C|]. split; [|split; [exact B|]].
  - exists (w_live w), (w_bytes w). split; cbn; lia.
  - intros c. apply AInv_aset0.
Qed.

(* ---- the per-frame flow, in full ---- *)
Lemma flow_step af sf junk y w ctx fill bytes :
  HInv y w ->
  let c := cfg_of y ctx in
  let buf := mk_rxbuf c fill bytes in
  exists ev h r' w1 w2,
    classify buf (rx_len c bytes) (a_tbl (aset_of y ctx)) (own c) = Some ev /\
    parse_hdr buf = Some h /\
    parse_frame af sf junk ctx c (y_g y) (y_reg y) buf w = Ok r' w1 /\
    w_now w2 = w_now w /\
    let a2 := tick_res (w_now w) (flow_automata (w_now w) h ev (aset_of y ctx)) in
    run_op af sf junk y (OFlow ctx fill bytes) w = Ok (set_aset (set_reg y r') ctx a2, RNone) w2 /\
    HInv (set_aset (set_reg y r') ctx a2) w2.
Proof.
  intros HI. pose proof HI as (C & (bl & bb & L) & B & A). cbv zeta.
  set (c := cfg_of y ctx). set (buf := mk_rxbuf c fill bytes).
  assert (Lb : length buf = o (c_rxsize c)) by apply mk_rxbuf_length.
  destruct (classify_total buf (rx_len c bytes) (a_tbl (aset_of y ctx)) (own c)) as (ev & E); [apply rx_len_le|].
  destruct (parse_hdr_ok buf) as (h & Eh); [destruct (C ctx) as (C1 & _); fold c in C1; unfold o in *; lia|].
  destruct (safe_frame af sf junk ctx c (y_g y) (y_reg y) buf w bl bb (C ctx) Lb L B) as (r' & w1 & Ef & LR' & RB' & N1 & _).
  destruct (tick_eq ctx (flow_automata (w_now w) h ev (aset_of y ctx)) w1) as (w2 & Et & N2 & L2 & B2).
  rewrite N1 in Et.
  exists ev, h, r', w1, w2. split; [exact E|]. split; [exact Eh|]. split; [exact Ef|]. split; [lia|].
  split.
  - unfold run_op. fold c. fold buf. unfold bind at 1. unfold now_ms.
    unfold bind at 1. rewrite E. unfold lift at 1. unfold ret at 1.
    unfold bind at 1. rewrite Eh. unfold lift at 1. unfold ret at 1.
    unfold bind at 1. rewrite Ef.
    unfold bind. rewrite Et. unfold ret. reflexivity.
  - apply (HInv_step y w r' w2 ctx); auto.
    + exists bl, bb. eapply ledger_reg_same; eassumption.
    + lia.
    + replace (w_now w2) with (w_now w) by lia. apply tick_res_inv, flow_automata_inv, A.
Qed.

Lemma tick_step af sf junk y w ctx :
  HInv y w ->
  exists w2, w_now w2 = w_now w /\
    let a2 := tick_res (w_now w) (aset_of y ctx) in
    run_op af sf junk y (OTick ctx) w = Ok (set_aset y ctx a2, RNone) w2 /\ HInv (set_aset y ctx a2) w2.
Proof.
  intros HI. pose proof HI as (C & L & B & A).
  destruct (tick_eq ctx (aset_of y ctx) w) as (w2 & Et & N2 & L2 & B2).
  exists w2. split; [exact N2|]. cbv zeta. split.
  - unfold run_op, bind. rewrite Et. unfold ret. reflexivity.
  - apply HInv_world with (w := w); [|unfold wle; lia]. apply HInv_upd; [exact HI|]. apply tick_res_inv, A.
Qed.

(* ================= one operation ================= *)
Theorem hist_step af sf junk y p w :
  hist_op p -> HInv y w ->
  exists y' r w', run_op af sf junk y p w = Ok (y', r) w' /\ HInv y' w' /\ w_now w <= w_now w'.
Proof.
  intros Hp HI. pose proof HI as (C & (bl & bb & L) & B & A).
  destruct p; cbn [hist_op] in Hp; try contradiction.
  - (* OAdv *)
    unfold run_op, bind, advance, ret. eexists _, _, _. split; [reflexivity|]. cbn [w_now]. split; [|lia].
    split; [exact C|]. split; [exists bl, bb; eapply ledger_reg_same; [| |exact L]; reflexivity|]. split; [exact B|].
    intros c. cbn [w_now]. eapply AInv_mono; [|apply A]. lia.
  - (* OFrame *)
    unfold run_op. cbv zeta.
    destruct (safe_frame af sf junk ctx (cfg_of y ctx) (y_g y) (y_reg y) (mk_rxbuf (cfg_of y ctx) fill bytes) w bl bb
                (C ctx) (mk_rxbuf_length _ _ _) L B) as (r' & w' & E & LR' & RB' & N' & _).
    unfold bind. rewrite E. unfold ret. exists (set_reg y r'), RNone, w'. split; [reflexivity|]. split; [|lia].
    split; [exact C|]. split; [exists bl, bb; exact LR'|]. split; [exact RB'|].
    intros c. rewrite N'. apply A.
  - (* OClassify *)
    unfold run_op. cbv zeta.
    destruct (classify_total (mk_rxbuf (cfg_of y ctx) fill bytes) (rx_len (cfg_of y ctx) bytes)
                             (a_tbl (aset_of y ctx)) (own (cfg_of y ctx))) as (ev & E); [apply rx_len_le|].
    unfold bind. rewrite E. unfold lift, ret. exists y, (RInt ev), w. split; [reflexivity|]. split; [exact HI|lia].
  - (* OEsp32 *)
    unfold run_op. cbv zeta. unfold bind, now_s.
    destruct (esp32_total (firstn (o len) bytes ++ zeros (o len - length (firstn (o len) bytes))) len
                          (w_now w / 1000) (aset_of y ctx)) as (a' & E); [apply esp32_buf_length|].
    rewrite E. unfold lift, ret. exists (set_aset y ctx a'), RNone, w. split; [reflexivity|]. split; [|lia].
    apply HInv_upd; [exact HI|]. eapply esp32_handle_inv; [exact E|apply A].
  - (* OFlow *)
    destruct (flow_step af sf junk y w ctx fill bytes HI) as (ev & h & r' & w1 & w2 & _ & _ & _ & N2 & E & HI').
    eexists _, _, _. split; [exact E|]. split; [exact HI'|lia].
  - (* OTick *)
    destruct (tick_step af sf junk y w ctx HI) as (w2 & N2 & E & HI').
    eexists _, _, _. split; [exact E|]. split; [exact HI'|lia].
  - (* OMk *)
    unfold run_op.
    destruct (bind_alloc af sz_automata (fun _ => alloc af sz_mapping_state ;;; alloc af sz_automata ;;;
        alloc af sz_automata ;;; alloc af sz_band_state ;;; alloc af sz_session_table ;;; now <- now_s ;;
        ret (set_aset y ctx {| a_map := {| a_cur := mapping_init; a_last := now |}; a_mst := mstate0;
                a_sess := {| a_cur := session_init; a_last := now |};
                a_enum := {| a_cur := enumeration_init; a_last := now |};
                a_band := band0; a_tbl := table0; a_ltx := 0 |}, RNone)) w) as (b1 & w1 & L1 & ->).
    match goal with |- context [bind (alloc af ?n) ?k w1] => destruct (bind_alloc af n k w1) as (b2 & w2 & L2 & ->) end.
    match goal with |- context [bind (alloc af ?n) ?k w2] => destruct (bind_alloc af n k w2) as (b3 & w3 & L3 & ->) end.
    match goal with |- context [bind (alloc af ?n) ?k w3] => destruct (bind_alloc af n k w3) as (b4 & w4 & L4 & ->) end.
    match goal with |- context [bind (alloc af ?n) ?k w4] => destruct (bind_alloc af n k w4) as (b5 & w5 & L5 & ->) end.
    match goal with |- context [bind (alloc af ?n) ?k w5] => destruct (bind_alloc af n k w5) as (b6 & w6 & L6 & ->) end.
    assert (L16 : wle w w6) by (repeat (eapply wle_trans; [eassumption|]); apply wle_refl).
    unfold bind, now_s, ret. eexists _, _, _. split; [reflexivity|].
    pose proof L16 as (N6 & _). split; [|lia].
    apply HInv_upd; [eapply HInv_world; eassumption|]. apply AInv_fresh.
  - (* OSsMap *)
    unfold run_op, bind, now_s, ret, upd_a. eexists _, _, _. split; [reflexivity|]. split; [|lia].
    apply HInv_upd; [exact HI|]. destruct (A ctx) as [A1 _ _ _ _ _ _ _ _ _].
    destruct (switch_mapping_inv (a_map (aset_of y ctx)) (w_now w / 1000) input A1) as [M1 M2].
    apply AInv_set_map; [exact M1|lia|apply A].
  - (* OSsSess *)
    unfold run_op, bind, now_s, ret, upd_a. eexists _, _, _. split; [reflexivity|]. split; [|lia].
    apply HInv_upd; [exact HI|]. destruct (A ctx) as [_ _ A3 _ _ _ _ _ _ _].
    destruct (switch_session_inv (a_sess (aset_of y ctx)) (w_now w / 1000) input A3) as [M1 M2].
    apply AInv_set_sess; [exact M1|lia|apply A].
  - (* OSsEnum *)
    unfold run_op, bind, now_s, ret, upd_a. eexists _, _, _. split; [reflexivity|]. split; [|lia].
    apply HInv_upd; [exact HI|]. destruct (A ctx) as [_ _ _ _ A5 _ _ _ _ _].
    apply AInv_set_enum; [apply switch_enum_below, A5|cbn [switch_enum a_last]; lia|apply A].
  - (* OStAdd *)
    unfold run_op, bind, now_s.
    pose proof (st_add_inv (a_tbl (aset_of y ctx)) (w_now w / 1000) m gen seq (ai_tbl _ _ (A ctx))) as I1.
    destruct (st_add (a_tbl (aset_of y ctx)) (w_now w / 1000) m gen seq) as [t oi]. cbn [fst] in I1.
    unfold ret, upd_a. eexists _, _, _. split; [reflexivity|]. split; [|lia].
    apply HInv_upd; [exact HI|]. apply AInv_set_tbl; [exact I1|apply A].
  - (* OStFind *)
    unfold run_op, ret. eexists _, _, _. split; [reflexivity|]. split; [exact HI|lia].
  - (* OStRemove *)
    unfold run_op, ret, upd_a. eexists _, _, _. split; [reflexivity|]. split; [|lia].
    apply HInv_upd; [exact HI|]. apply AInv_set_tbl; [apply st_remove_spec, (ai_tbl _ _ (A ctx))|apply A].
  - (* OStComplete *)
    unfold run_op.
    pose proof (st_set_complete_spec (a_tbl (aset_of y ctx)) m gen v (ai_tbl _ _ (A ctx))) as I1. cbv zeta in I1.
    destruct I1 as (I1 & _).
    destruct (st_set_complete (a_tbl (aset_of y ctx)) m gen v) as [t oi]. cbn [fst] in I1.
    unfold ret, upd_a. eexists _, _, _. split; [reflexivity|]. split; [|lia].
    apply HInv_upd; [exact HI|]. apply AInv_set_tbl; [exact I1|apply A].
  - (* OStClear *)
    unfold run_op, ret, upd_a. eexists _, _, _. split; [reflexivity|]. split; [|lia].
    apply HInv_upd; [exact HI|]. apply AInv_set_tbl; [apply st_clear_spec, (ai_tbl _ _ (A ctx))|apply A].
  - (* OBandInit *)
    unfold run_op, bind, now_ms, ret, upd_a. eexists _, _, _. split; [reflexivity|]. split; [|lia].
    apply HInv_upd; [exact HI|]. apply AInv_set_band; [apply BInv_init|apply A].
  - (* OBandHello *)
    unfold run_op, ret, upd_a. eexists _, _, _. split; [reflexivity|]. split; [|lia].
    apply HInv_upd; [exact HI|]. apply AInv_set_band; [apply BInv_on_hello, (ai_band _ _ (A ctx))|apply A].
  - (* OBandUpdate *)
    unfold run_op, bind, now_ms, ret, upd_a. eexists _, _, _. split; [reflexivity|]. split; [|lia].
    apply HInv_upd; [exact HI|]. apply AInv_set_band; [apply BInv_update, (ai_band _ _ (A ctx))|apply A].
  - (* OBandChoose *)
    unfold run_op, bind, now_ms, ret, upd_a. eexists _, _, _. split; [reflexivity|]. split; [|lia].
    apply HInv_upd; [exact HI|]. apply AInv_set_band; [apply BInv_choose, (ai_band _ _ (A ctx))|apply A].
  - (* OBandDoHello *)
    unfold run_op, bind, now_ms, ret, upd_a. eexists _, _, _. split; [reflexivity|]. split; [|lia].
    apply HInv_upd; [exact HI|]. apply AInv_set_band; [apply BInv_do_hello, (ai_band _ _ (A ctx))|apply A].
  - (* OMapCharge *)
    unfold run_op, bind, now_s, ret, upd_a. eexists _, _, _. split; [reflexivity|]. split; [|lia].
    apply HInv_upd; [exact HI|]. apply AInv_set_mst; [cbn [map_on_charge ms_inact]; apply (ai_inact _ _ (A ctx))|apply A].
  - (* OMapTouch *)
    unfold run_op, bind, now_s, ret, upd_a. eexists _, _, _. split; [reflexivity|]. split; [|lia].
    apply HInv_upd; [exact HI|]. apply AInv_set_mst; [cbn [map_touch ms_inact]; apply mod_le|apply A].
  - (* OMapResetCharge *)
    unfold run_op, ret, upd_a. eexists _, _, _. split; [reflexivity|]. split; [|lia].
    apply HInv_upd; [exact HI|]. apply AInv_set_mst; [cbn [map_reset_charge ms_inact]; apply (ai_inact _ _ (A ctx))|apply A].
Qed.

(* ================= histories ================= *)
Theorem history_inv af sf junk : forall ops y w,
  Forall hist_op ops -> HInv y w ->
  exists y' w', run_ops af sf junk y ops w = Ok y' w' /\ HInv y' w' /\ w_now w <= w_now w'.
Proof.
  induction ops as [|p ops IH]; intros y w F HI; cbn [run_ops].
  - exists y, w. unfold ret. split; [reflexivity|]. split; [exact HI|lia].
  - inversion F as [|? ? Hp Hl]; subst.
    destruct (hist_step af sf junk y p w Hp HI) as (y1 & r & w1 & E & HI1 & N1).
    unfold bind. rewrite E. cbn [fst].
    destruct (IH y1 w1 Hl HI1) as (y' & w' & E' & HI' & N').
    exists y', w'. split; [exact E'|]. split; [exact HI'|lia].
Qed.

Lemma run_ops_app af sf junk : forall ops1 ops2 y w,
  run_ops af sf junk y (ops1 ++ ops2) w =
  match run_ops af sf junk y ops1 w with Ok y1 w1 => run_ops af sf junk y1 ops2 w1 | Fault e => Fault e end.
Proof.
  induction ops1 as [|p r IH]; intros ops2 y w; cbn [app run_ops]; [reflexivity|].
  unfold bind. destruct (run_op af sf junk y p w) as [[y1 rr] w1|e]; [cbn [fst]; apply IH|reflexivity].
Qed.
Lemma run_ops_one af sf junk y p w :
  run_ops af sf junk y [p] w = match run_op af sf junk y p w with Ok yr w' => Ok (fst yr) w' | Fault e => Fault e end.
Proof. cbn [run_ops]. unfold bind, ret. destruct (run_op af sf junk y p w); reflexivity. Qed.

(* the history [ops] followed by one more operation [p] *)
Lemma history_then af sf junk ops p y w :
  Forall hist_op ops -> HInv y w ->
  exists y1 w1, run_ops af sf junk y ops w = Ok y1 w1 /\ HInv y1 w1 /\ w_now w <= w_now w1 /\
    run_ops af sf junk y (ops ++ [p]) w =
    match run_op af sf junk y1 p w1 with Ok yr w' => Ok (fst yr) w' | Fault e => Fault e end.
Proof.
  intros F HI. destruct (history_inv af sf junk ops y w F HI) as (y1 & w1 & E1 & HI1 & N1).
  exists y1, w1. split; [exact E1|]. split; [exact HI1|]. split; [exact N1|].
  rewrite run_ops_app, E1. apply run_ops_one.
Qed.
Lemma aset_of_set_same y ctx a : aset_of (set_aset y ctx a) ctx = a.
Proof. rewrite aset_of_set, N.eqb_refl. reflexivity. Qed.

(* ================= C14 over histories ================= *)
Definition legal_states (a : aset) : Prop :=
  (exists s, a_cur (a_map a) = mstate_code s) /\
  (exists s, a_cur (a_sess a) = sstate_code s) /\
  (a_cur (a_enum a) = 0 \/ a_cur (a_enum a) = 1 \/ a_cur (a_enum a) = 2).
Lemma AInv_legal now a : AInv now a -> legal_states a.
Proof.
  intros [A1 _ A3 _ A5 _ _ _ _ _]. split; [apply mstate_code_ex, A1|]. split; [apply sstate_code_ex, A3|]. lia.
Qed.

(* 1. after any history, on every interface, the three automata are in legal states *)
Theorem C14_history_state_valid af sf junk ops y w :
  Forall hist_op ops -> HInv y w ->
  exists y' w', run_ops af sf junk y ops w = Ok y' w' /\ forall ctx, legal_states (aset_of y' ctx).
Proof.
  intros F HI. destruct (history_inv af sf junk ops y w F HI) as (y' & w' & E & (_ & _ & _ & A) & _).
  exists y', w'. split; [exact E|]. intros ctx. eapply AInv_legal, A.
Qed.
(* ... in particular for the receive path of SysSafe.v after the constructors ran, from the empty system *)
Corollary C14_history_state_valid_rx af sf junk ctx0 ops w :
  Forall rx_op ops ->
  exists y' w', run_ops af sf junk sys0 (OMk ctx0 :: ops) w = Ok y' w' /\ forall ctx, legal_states (aset_of y' ctx).
Proof.
  intros F. apply C14_history_state_valid; [|apply HInv_sys0].
  constructor; [exact I|apply rx_ops_hist, F].
Qed.

Lemma tick_res_inactive now a :
  a_cur (a_map a) < 3 -> map_inactive_due (now / 1000) (a_mst a) = true ->
  a_cur (a_map (tick_res now a)) = 0 /\ ms_ctc (a_mst (tick_res now a)) = 0 /\ ms_inact (a_mst (tick_res now a)) = 0 /\
  st_is_empty (a_tbl (tick_res now a)) = true.
Proof.
  intros Hc Hd. destruct (tick_res_fields now a) as (F1 & F2 & _ & F4). cbv zeta in *.
  rewrite F1, F2, F4. unfold tick_mapping. rewrite Hd. cbn [a_map a_mst a_tbl].
  split; [apply switch_mapping_end, Hc|].
  unfold map_reset_charge, map_check_charge. cbn [ms_chg ms_ctc ms_inact]. change (0 =? 0) with true. cbn [negb andb ms_ctc ms_inact].
  split; [reflexivity|]. split; [reflexivity|].
  unfold tick_table. cbn [st_clear t_slots t_count t_allc]. rewrite expire_slot0. reflexivity.
Qed.

(* 2. any history, then a tick of [ctx] at or after its armed inactivity deadline:
   the mapping engine is Quiescent, the charge counter and the deadline are
   cleared, the session table of [ctx] holds no live session.  The premises
   "legal state", "time stamp not in the future", "clock below 2^64" of the
   one-step theorem C14_tick_inactive are gone. *)
Theorem C14_history_timeout af sf junk ops ctx y w :
  Forall hist_op ops -> HInv y w ->
  exists y1 w1 y' w',
    run_ops af sf junk y ops w = Ok y1 w1 /\
    run_ops af sf junk y (ops ++ [OTick ctx]) w = Ok y' w' /\ w_now w' = w_now w1 /\
    (ms_inact (a_mst (aset_of y1 ctx)) <> 0 -> ms_inact (a_mst (aset_of y1 ctx)) <= w_now w1 / 1000 ->
     a_cur (a_map (aset_of y' ctx)) = mstate_code Quiescent /\
     ms_ctc (a_mst (aset_of y' ctx)) = 0 /\ ms_inact (a_mst (aset_of y' ctx)) = 0 /\
     st_is_empty (a_tbl (aset_of y' ctx)) = true /\ live (t_slots (a_tbl (aset_of y' ctx))) = []).
Proof.
  intros F HI. destruct (history_then af sf junk ops (OTick ctx) y w F HI) as (y1 & w1 & E1 & HI1 & N1 & E2).
  destruct (tick_step af sf junk y1 w1 ctx HI1) as (w2 & N2 & Et & HI2). cbv zeta in Et, HI2.
  rewrite Et in E2. cbn [fst] in E2.
  eexists y1, w1, _, w2. split; [exact E1|]. split; [exact E2|]. split; [exact N2|].
  intros Hnz Hdue. rewrite aset_of_set_same.
  destruct HI1 as (_ & _ & _ & A1). destruct (A1 ctx) as [M1 _ _ _ _ _ _ _ _ _].
  assert (Hd : map_inactive_due (w_now w1 / 1000) (a_mst (aset_of y1 ctx)) = true).
  { unfold map_inactive_due. destruct (ms_inact (a_mst (aset_of y1 ctx)) =? 0) eqn:E; [lia|]. cbn [negb andb]. lia. }
  destruct (tick_res_inactive (w_now w1) (aset_of y1 ctx) M1 Hd) as (R1 & R2 & R3 & R4).
  split; [exact R1|]. split; [exact R2|]. split; [exact R3|]. split; [exact R4|].
  apply st_is_empty_spec; [|exact R4].
  destruct HI2 as (_ & _ & _ & A2). specialize (A2 ctx). rewrite aset_of_set_same in A2. apply A2.
Qed.

(* ================= C16 over histories ================= *)
(* 3. the table of every interface satisfies the table invariant after any history
   (flow, tick, reset, inactivity clearing, and the st_ API) *)
Theorem C16_history_flow af sf junk ops y w :
  Forall hist_op ops -> HInv y w ->
  exists y' w', run_ops af sf junk y ops w = Ok y' w' /\
    forall ctx, Inv (a_tbl (aset_of y' ctx)) /\ t_count (a_tbl (aset_of y' ctx)) <= SESSION_TABLE_MAX_ENTRIES.
Proof.
  intros F HI. destruct (history_inv af sf junk ops y w F HI) as (y' & w' & E & (_ & _ & _ & A) & _).
  exists y', w'. split; [exact E|]. intros ctx. pose proof (ai_tbl _ _ (A ctx)) as I1. split; [exact I1|apply inv_bound, I1].
Qed.

(* ================= C15 over histories ================= *)
(* 4a. legal state, and no time stamp from the future (in EVERY state, Nascent included) *)
Theorem C15_history_invariant af sf junk ops y w :
  Forall hist_op ops -> HInv y w ->
  exists y' w', run_ops af sf junk y ops w = Ok y' w' /\
    forall ctx, (exists s, a_cur (a_sess (aset_of y' ctx)) = sstate_code s) /\
                a_last (a_sess (aset_of y' ctx)) <= w_now w' / 1000.
Proof.
  intros F HI. destruct (history_inv af sf junk ops y w F HI) as (y' & w' & E & (_ & _ & _ & A) & _).
  exists y', w'. split; [exact E|]. intros ctx. destruct (A ctx) as [_ _ A3 A4 _ _ _ _ _ _].
  split; [apply sstate_code_ex, A3|exact A4].
Qed.

(* 4b. any history, then a frame through the flow of [ctx].  If the frame is no
   session event (classifier result -1) the session automaton is untouched;
   otherwise its time stamp becomes the current second, and: more than the
   time-out (1 s, every state) after the previous stamp the state is Nascent
   and the event is dropped; within it the transition is the specified one. *)
Theorem C15_history_flow af sf junk ops ctx fill bytes y w :
  Forall hist_op ops -> HInv y w ->
  exists y1 w1 ev y' w',
    run_ops af sf junk y ops w = Ok y1 w1 /\
    classify (mk_rxbuf (cfg_of y1 ctx) fill bytes) (rx_len (cfg_of y1 ctx) bytes)
             (a_tbl (aset_of y1 ctx)) (own (cfg_of y1 ctx)) = Some ev /\
    run_ops af sf junk y (ops ++ [OFlow ctx fill bytes]) w = Ok y' w' /\ w_now w' = w_now w1 /\
    let a := a_sess (aset_of y1 ctx) in
    let a' := a_sess (aset_of y' ctx) in
    let ns := w_now w1 / 1000 in
    ((ev < 0)%Z -> a' = a) /\
    ((0 <= ev)%Z -> w_now w1 < W64 ->
       a_last a' = ns /\
       (1 < ns - a_last a -> a_cur a' = sstate_code Nascent) /\
       (forall s e, ns - a_last a <= 1 -> a_cur a = sstate_code s -> ev = sevent_code e ->
                    a_cur a' = sstate_code (session_spec s e))).
Proof.
  intros F HI. destruct (history_then af sf junk ops (OFlow ctx fill bytes) y w F HI) as (y1 & w1 & E1 & HI1 & N1 & E2).
  destruct (flow_step af sf junk y1 w1 ctx fill bytes HI1) as (ev & h & r' & w1' & w2 & Ec & _ & _ & N2 & Ef & HI2).
  cbv zeta in Ef, HI2, Ec. rewrite Ef in E2. cbn [fst] in E2.
  eexists y1, w1, ev, _, w2. split; [exact E1|]. split; [exact Ec|]. split; [exact E2|]. split; [exact N2|].
  cbv zeta. rewrite aset_of_set_same.
  destruct (tick_res_fields (w_now w1) (flow_automata (w_now w1) h ev (aset_of y1 ctx))) as (_ & _ & -> & _).
  rewrite flow_automata_sess.
  destruct HI1 as (_ & _ & _ & A1). destruct (A1 ctx) as [_ _ A3 A4 _ _ _ _ _ _].
  split.
  - intros Hneg. destruct (0 <=? ev)%Z eqn:E; [lia|reflexivity].
  - intros Hpos Hw. destruct (0 <=? ev)%Z eqn:E; [|lia].
    assert (Hns : w_now w1 / 1000 < W64) by (unfold W64 in *; lia).
    destruct (sstate_code_ex _ A3) as [s0 Hs0].
    split; [apply switch_timed_last|]. split.
    + intros Hlate. unfold switch_session. rewrite switch_timed_spec by assumption. cbn [a_cur].
      unfold timed_out. rewrite Hs0, session_timeouts_one.
      change (u64_of_Z 1) with 1. change (negb (1 =? 0)%Z) with true. cbn [andb].
      destruct (1 <? w_now w1 / 1000 - a_last (a_sess (aset_of y1 ctx))) eqn:E3; [|lia].
      pose proof session_cells as Cl. rewrite forallb_forall in Cl. specialize (Cl s0 (all_sstates_ok s0)).
      rewrite forallb_forall in Cl. specialize (Cl EvReset (all_sevents_ok EvReset)). unfold session_cell_ok in Cl.
      apply andb_prop in Cl as [_ C2]. apply N.eqb_eq in C2. exact C2.
    + intros s e Hin Hs ->.
      destruct (session_step s e (a_sess (aset_of y1 ctx)) (w_now w1 / 1000) Hs A4 Hns) as (_ & H1 & _).
      apply H1, Hin.
Qed.

(* 4c. the tick does NOT evaluate the session automaton's time-out: whatever
   time has passed, a tick leaves state and time stamp as they are *)
Theorem C15_history_tick af sf junk ops ctx y w :
  Forall hist_op ops -> HInv y w ->
  exists y1 w1 y' w',
    run_ops af sf junk y ops w = Ok y1 w1 /\
    run_ops af sf junk y (ops ++ [OTick ctx]) w = Ok y' w' /\
    a_sess (aset_of y' ctx) = a_sess (aset_of y1 ctx).
Proof.
  intros F HI. destruct (history_then af sf junk ops (OTick ctx) y w F HI) as (y1 & w1 & E1 & HI1 & N1 & E2).
  destruct (tick_step af sf junk y1 w1 ctx HI1) as (w2 & N2 & Et & HI2). cbv zeta in Et.
  rewrite Et in E2. cbn [fst] in E2.
  eexists y1, w1, _, w2. split; [exact E1|]. split; [exact E2|].
  rewrite aset_of_set_same. apply tick_res_fields.
Qed.

(* ================= C13 over histories ================= *)
(* 5a. on every interface the count stays within [ALPHA, NMAX], r fits a
   uint32, and nothing is scheduled further ahead than the longest interval
   (Hello) / one block (block end) *)
Theorem C13_history af sf junk ops y w :
  Forall hist_op ops -> HInv y w ->
  exists y' w', run_ops af sf junk y ops w = Ok y' w' /\
    forall ctx, let b := a_band (aset_of y' ctx) in
      BAND_ALPHA <= b_ni b <= BAND_NMAX /\ b_r b < W32 /\
      b_hts b <= w_now w' + HTS_AHEAD /\ b_bts b <= w_now w' + BAND_BLOCK_TIME.
Proof.
  intros F HI. destruct (history_inv af sf junk ops y w F HI) as (y' & w' & E & (_ & _ & _ & A) & _).
  exists y', w'. split; [exact E|]. intros ctx. cbv zeta.
  destruct (ai_band _ _ (A ctx)) as ((Hn & Hr) & H1 & H2). auto.
Qed.

(* 5b. any history, then band_choose_hello_time: the chosen time lies between
   one frame time and the longest interval in the future *)
Theorem C13_history_choose af sf junk ops ctx y w :
  Forall hist_op ops -> HInv y w ->
  exists y1 w1 y' w',
    run_ops af sf junk y ops w = Ok y1 w1 /\
    run_ops af sf junk y (ops ++ [OBandChoose ctx]) w = Ok y' w' /\ w_now w' = w_now w1 /\
    (w_now w1 + HTS_AHEAD < W64 ->
     b_hts (a_band (aset_of y' ctx)) = w_now w1 + hello_interval (b_ni (a_band (aset_of y1 ctx))) /\
     w_now w1 + BAND_MUL_FRAME_1 <= b_hts (a_band (aset_of y' ctx)) <= w_now w1 + HTS_AHEAD).
Proof.
  intros F HI. destruct (history_then af sf junk ops (OBandChoose ctx) y w F HI) as (y1 & w1 & E1 & HI1 & N1 & E2).
  unfold run_op, bind, now_ms, ret, upd_a in E2. cbn [fst] in E2.
  eexists y1, w1, _, w1. split; [exact E1|]. split; [exact E2|]. split; [reflexivity|].
  intros Hw. rewrite aset_of_set_same. cbn [a_band].
  destruct HI1 as (_ & _ & _ & A1). destruct (ai_band _ _ (A1 ctx)) as (B & _).
  pose proof (choose_future (w_now w1) (a_band (aset_of y1 ctx)) B Hw) as Hc.
  split; [|exact Hc].
  apply band_choose_schedules. destruct B as [[_ Hn] _]. pose proof (hello_interval_range _ Hn). lia.
Qed.

(* 5c. any history, then a tick that leaves the enumeration automaton in the
   Hello-sending state: no due Hello time is left behind (it is unset or
   strictly in the future) *)
Theorem C13_history_tick af sf junk ops ctx y w :
  Forall hist_op ops -> HInv y w ->
  exists y' w',
    run_ops af sf junk y (ops ++ [OTick ctx]) w = Ok y' w' /\
    (w_now w' + HTS_AHEAD < W64 -> a_cur (a_enum (aset_of y' ctx)) = 1 ->
     b_hts (a_band (aset_of y' ctx)) = 0 \/ w_now w' < b_hts (a_band (aset_of y' ctx))).
Proof.
  intros F HI. destruct (history_then af sf junk ops (OTick ctx) y w F HI) as (y1 & w1 & E1 & HI1 & N1 & E2).
  destruct (tick_step af sf junk y1 w1 ctx HI1) as (w2 & N2 & Et & HI2). cbv zeta in Et.
  rewrite Et in E2. cbn [fst] in E2.
  eexists _, w2. split; [exact E2|]. rewrite aset_of_set_same, N2. intros Hw.
  destruct HI1 as (_ & _ & _ & A1). apply tick_res_hts; [apply A1|exact Hw].
Qed.

(* ================= non-vacuity: concrete histories ================= *)
(* an LLTD frame: Ethernet header, demultiplex header (opcode [opc]), base header from mapper 02:00:00:00:00:k *)
Definition fr (opc k : N) (body : list byte) : list byte :=
  [255;255;255;255;255;255; 2;0;0;0;0;k; 136;217; 1;0;0;opc; 255;255;255;255;255;255; 2;0;0;0;0;k; 0;1] ++ body.
Definition disc_ack k := fr 0 k [0;7; 0;0].                       (* Discover, generation 7, no stations: acknowledging *)
Definition disc_noack k := fr 0 k [0;7; 0;1; 2;0;0;0;0;99].       (* Discover listing one other station: not acknowledging *)
Definition hello_fr k := fr 1 k [0;7; 0;0].
Definition emit_fr k := fr 2 k [0;7; 0;0].

Definition R0 (ops : list op) : res sys := run_ops no_fail no_fail 0 sys0 ops world0.
Definition obs {A} (f : aset -> N -> A) (ctx : N) (r : res sys) : option A :=
  match r with Ok y w => Some (f (aset_of y ctx) (w_now w)) | Fault _ => None end.

(* 1: constructor, a Discover and an Emit through the flow, an ESP32 frame on another interface, a tick:
   mapping engine Emitting, session automaton Pending, enumeration sending Hellos *)
Example C14_history_state_valid_example :
  let ops := [OMk 0; OAdv 1000; OFlow 0 0 (disc_noack 9); OFlow 0 0 (emit_fr 9); OEsp32 1 40 (hello_fr 9); OAdv 500; OTick 0] in
  Forall hist_op ops /\ HInv sys0 world0 /\
  obs (fun a _ => (a_cur (a_map a), a_cur (a_sess a), a_cur (a_enum a))) 0 (R0 ops)
  = Some (mstate_code Emitting, sstate_code Pending, 1).
Proof. cbv zeta. split; [repeat constructor|]. split; [apply HInv_sys0|]. vm_compute. reflexivity. Qed.

(* 2: a Discover at 1 s arms the deadline (31 s); at 31 s the engine is still in Command with one
   session; the tick then ends it *)
Example C14_history_timeout_example :
  let ops := [OMk 0; OAdv 1000; OFlow 0 0 (disc_noack 9); OAdv 30000] in
  Forall hist_op ops /\ HInv sys0 world0 /\
  obs (fun a now => (a_cur (a_map a), ms_inact (a_mst a), now / 1000, t_count (a_tbl a))) 0 (R0 ops)
  = Some (mstate_code Command, 31, 31, 1) /\
  obs (fun a now => (a_cur (a_map a), ms_inact (a_mst a), t_count (a_tbl a))) 0 (R0 (ops ++ [OTick 0]))
  = Some (mstate_code Quiescent, 0, 0).
Proof. cbv zeta. split; [repeat constructor|]. split; [apply HInv_sys0|]. vm_compute. auto. Qed.

(* 3: two mappers' Discovers through the flow, a tick: two live sessions, one of them incomplete *)
Example C16_history_flow_example :
  let ops := [OMk 0; OAdv 1000; OFlow 0 0 (disc_noack 9); OAdv 2000; OFlow 0 0 (disc_ack 8); OAdv 1000; OTick 0] in
  Forall hist_op ops /\ HInv sys0 world0 /\
  obs (fun a _ => (t_count (a_tbl a), t_allc (a_tbl a), keys (live (t_slots (a_tbl a))))) 0 (R0 ops)
  = Some (2, false, [(Mac 2 0 0 0 0 9, 7); (Mac 2 0 0 0 0 8, 7)]).
Proof. cbv zeta. split; [repeat constructor|]. split; [apply HInv_sys0|]. vm_compute. reflexivity. Qed.

(* 4: a Discover within 1 s of the previous stamp is taken (Nascent -> Pending); the same Discover 5 s
   later finds the automaton timed out: Nascent, event dropped *)
Example C15_history_flow_example :
  let ops := [OMk 0; OAdv 1000] in
  Forall hist_op (ops ++ [OFlow 0 0 (disc_noack 9); OAdv 5000]) /\ HInv sys0 world0 /\
  obs (fun a _ => a_sess a) 0 (R0 (ops ++ [OFlow 0 0 (disc_noack 9)]))
  = Some {| a_cur := sstate_code Pending; a_last := 1 |} /\
  obs (fun a _ => a_sess a) 0 (R0 ((ops ++ [OFlow 0 0 (disc_noack 9); OAdv 5000]) ++ [OFlow 0 0 (disc_noack 9)]))
  = Some {| a_cur := sstate_code Nascent; a_last := 6 |}.
Proof. cbv zeta. split; [repeat constructor|]. split; [apply HInv_sys0|]. vm_compute. auto. Qed.

(* COUNTEREXAMPLE to "a tick / any frame past the time-out returns the session automaton to its
   initial state": Pending since second 1; neither the tick at second 61 nor an Emit frame at
   second 6 touches it (only a frame that is a session event does, 4b) *)
Example C15_tick_does_not_time_out :
  obs (fun a now => (a_sess a, now / 1000)) 0 (R0 [OMk 0; OAdv 1000; OFlow 0 0 (disc_noack 9); OAdv 60000; OTick 0])
  = Some ({| a_cur := sstate_code Pending; a_last := 1 |}, 61) /\
  obs (fun a now => (a_sess a, now / 1000)) 0 (R0 [OMk 0; OAdv 1000; OFlow 0 0 (disc_noack 9); OAdv 5000; OFlow 0 0 (emit_fr 9)])
  = Some ({| a_cur := sstate_code Pending; a_last := 1 |}, 6).
Proof. vm_compute. auto. Qed.

(* 5: through the daemon's own path: a Discover starts the enumeration, three Hellos are heard, the
   tick sends a Hello at 1.2 s, the block ends at 1.3 s: Ni = 45 * 3^2, next Hello chosen at 1400 + 1080 *)
Example C13_history_example :
  let ops := [OMk 0; OAdv 1000; OFlow 0 0 (disc_noack 9); OFlow 0 0 (hello_fr 9); OFlow 0 0 (hello_fr 9);
              OFlow 0 0 (hello_fr 9); OAdv 200; OTick 0; OAdv 200] in
  Forall hist_op ops /\ HInv sys0 world0 /\
  obs (fun a now => (a_cur (a_enum a), b_ni (a_band a), b_hts (a_band a), b_bts (a_band a), now)) 0 (R0 (ops ++ [OTick 0]))
  = Some (1, 405, 2480, 1700, 1400).
Proof. cbv zeta. split; [repeat constructor|]. split; [apply HInv_sys0|]. vm_compute. reflexivity. Qed.
(* ... and through the API: twelve Hellos in a block saturate nothing yet: Ni = 45 * 12^2, interval 17280 ms *)
Example C13_history_choose_example :
  let ops := [OBandInit 0] ++ repeat (OBandHello 0) 12 ++ [OAdv 300; OBandUpdate 0] in
  Forall hist_op ops /\ HInv sys0 world0 /\
  obs (fun a now => (b_ni (a_band a), b_hts (a_band a), now)) 0 (R0 (ops ++ [OBandChoose 0])) = Some (6480, 17580, 300).
Proof. cbv zeta. split; [repeat constructor|]. split; [apply HInv_sys0|]. vm_compute. reflexivity. Qed.

(* COUNTEREXAMPLE to "the chosen Hello time is never more than one block in the past": while the
   enumeration automaton is not in its Hello-sending state the tick does not look at the Hello time;
   here it is 99.88 s (333 blocks) in the past after a tick *)
Example C13_hello_time_can_be_stale :
  obs (fun a now => (a_cur (a_enum a), b_hts (a_band a), now)) 0 (R0 [OBandInit 0; OBandChoose 0; OAdv 100000; OTick 0])
  = Some (0, 120, 100000).
Proof. vm_compute. reflexivity. Qed.

(* OBSERVATION (history level, allowed by the one-step C14 statement): a Discover that arrives after the
   Command time-out (5 s) is consumed by the time-out handling: the engine goes to Quiescent and the flow
   clears the session table, including the session this very Discover registered *)
Example C14_discover_after_timeout_is_lost :
  obs (fun a _ => (a_cur (a_map a), t_count (a_tbl a))) 0 (R0 [OMk 0; OAdv 1000; OFlow 0 0 (disc_noack 9); OAdv 6000])
  = Some (mstate_code Command, 1) /\
  obs (fun a _ => (a_cur (a_map a), t_count (a_tbl a))) 0
      (R0 [OMk 0; OAdv 1000; OFlow 0 0 (disc_noack 9); OAdv 6000; OFlow 0 0 (disc_noack 8)])
  = Some (mstate_code Quiescent, 0).
Proof. vm_compute. auto. Qed.

Print Assumptions history_inv.
Print Assumptions C14_history_state_valid.
Print Assumptions C14_history_state_valid_rx.
Print Assumptions C14_history_timeout.
Print Assumptions flow_table_inv.
Print Assumptions C16_history_flow.
Print Assumptions C15_history_invariant.
Print Assumptions C15_history_flow.
Print Assumptions C15_history_tick.
Print Assumptions C13_history.
Print Assumptions C13_history_choose.
Print Assumptions C13_history_tick.
