(* BandProofs.v - C13. *)
From LLTD Require Import Automata SpecAutomata.
From Coq Require Import Lia ZifyBool ZifyN ZifyNat.
Ltac Zify.zify_post_hook ::= Z.div_mod_to_equations.
Local Open Scope N_scope.

(* ---------- C13: RepeatBand ---------- *)
Lemma band_constants :
  BAND_NMAX = NMAX /\ BAND_ALPHA = ALPHA /\ BAND_BETA = BETA /\ BAND_GAMMA = GAMMA /\ BAND_TXC = TXC /\ BAND_MUL_FRAME_1 = 6.
Proof. vm_compute. repeat split; reflexivity. Qed.

Theorem new_ni_spec r : r < W32 -> new_ni r = ni_spec r.
Proof.
  intros H. unfold new_ni, r_pow_beta, clampN, ni_spec.
  change BAND_NMAX with 10000. change BAND_ALPHA with 45. change (N.to_nat BAND_BETA - 1)%nat with 1%nat.
  unfold NMAX, ALPHA, BETA, W32, W64 in *. unfold Nat.iter, nat_rect.
  replace (r ^ 2) with (r * r) by (change 2 with (N.succ 1); rewrite N.pow_succ_r', N.pow_1_r; reflexivity).
  assert (Hm : (r * r) mod 18446744073709551616 = r * r) by (apply N.mod_small; nia). rewrite Hm.
  destruct (10000 <? r * r) eqn:E1.
  - change ((45 * 10000) mod 18446744073709551616) with 450000. change (10000 <? 450000) with true. cbv iota. lia.
  - rewrite (N.mod_small (45 * (r * r))) by lia.
    destruct (10000 <? 45 * (r * r)) eqn:E2; [lia|]. rewrite N.mod_small by lia. lia.
Qed.

Theorem ni_spec_monotone r1 r2 : r1 <= r2 -> ni_spec r1 <= ni_spec r2.
Proof. intros. unfold ni_spec. apply N.min_le_compat_l, N.mul_le_mono_l, N.pow_le_mono_l. assumption. Qed.

Lemma ni_spec_range r : 0 < r -> ALPHA <= ni_spec r <= NMAX.
Proof. intros H. unfold ni_spec, ALPHA, NMAX, BETA.
  replace (r ^ 2) with (r * r) by (change 2 with (N.succ 1); rewrite N.pow_succ_r', N.pow_1_r; reflexivity). nia. Qed.

Theorem band_update_ni now b :
  b_r b < W32 ->
  b_ni (band_update now b) = if (0 <? b_r b) && b_begun b then ni_spec (b_r b) else b_ni b.
Proof. intros H. unfold band_update; cbn [b_ni]. destruct ((0 <? b_r b) && b_begun b); [apply new_ni_spec; exact H|reflexivity]. Qed.

Definition band_inv (b : band) : Prop := ALPHA <= b_ni b <= NMAX /\ b_r b < W32.
Lemma band_update_inv now b : band_inv b -> band_inv (band_update now b).
Proof.
  intros [Hn Hr]. split; [|unfold band_update, W32; cbn; lia].
  rewrite band_update_ni by exact Hr.
  destruct (0 <? b_r b) eqn:E; cbn [andb]; [|exact Hn]. destruct (b_begun b); [|exact Hn].
  apply ni_spec_range. lia.
Qed.
Lemma band_init_inv now b : band_inv (band_init now b).
Proof. unfold band_inv, band_init; cbn. change BAND_ALPHA with 45. unfold ALPHA, NMAX, W32. lia. Qed.
Lemma band_on_hello_inv b : band_inv b -> band_inv (band_on_hello b).
Proof. intros [Hn Hr]. split; [exact Hn|]. unfold band_on_hello, W32; cbn. lia. Qed.
Lemma band_choose_inv now b : band_inv b -> band_inv (band_choose now b).
Proof. intros H; exact H. Qed.
Lemma band_do_hello_inv now b : band_inv b -> band_inv (band_do_hello now b).
Proof. intros H; exact H. Qed.

(* the interval chosen for a count obeys the load formula and the frame-time floor *)
Theorem hello_interval_ok ni : ni <= NMAX -> interval_ok ni (hello_interval ni).
Proof.
  unfold interval_ok, hello_interval, NMAX, TXC, GAMMA.
  change BAND_TXC with 4. change BAND_GAMMA with 10. change BAND_MUL_FRAME_1 with 6. unfold W64. intros H.
  rewrite (N.mod_small (4 * ni * 20)) by lia. change ((10 * 3) mod 18446744073709551616) with 30.
  destruct ((4 * ni * 20) mod 30 =? 0) eqn:E; destruct (_ <? 6) eqn:E2; lia.
Qed.
Lemma hello_interval_closed ni : ni <= NMAX -> hello_interval ni = N.max 6 ((80 * ni + 29) / 30).
Proof.
  unfold hello_interval, NMAX.
  change BAND_TXC with 4. change BAND_GAMMA with 10. change BAND_MUL_FRAME_1 with 6. unfold W64. intros H.
  rewrite (N.mod_small (4 * ni * 20)) by lia. change ((10 * 3) mod 18446744073709551616) with 30.
  replace (4 * ni * 20) with (80 * ni) by lia.
  assert (Hc : 80 * ni / 30 + (if (80 * ni) mod 30 =? 0 then 0 else 1) = (80 * ni + 29) / 30).
  { destruct ((80 * ni) mod 30 =? 0) eqn:E; lia. }
  rewrite Hc. destruct (_ <? 6) eqn:E2; lia.
Qed.
Theorem hello_interval_monotone n1 n2 : n1 <= n2 -> n2 <= NMAX -> hello_interval n1 <= hello_interval n2.
Proof.
  intros H1 H2. rewrite !hello_interval_closed by (unfold NMAX in *; lia).
  apply N.max_le_compat_l, N.div_le_mono; lia.
Qed.
Theorem band_choose_schedules now b :
  now + hello_interval (b_ni b) < W64 -> b_hts (band_choose now b) = now + hello_interval (b_ni b).
Proof. intros H. unfold band_choose; cbn [b_hts]. apply N.mod_small. exact H. Qed.
