(* BufProofs.v - transmit buffers: bounds-checked stores into a zeroed buffer
   build exactly the intended byte string; nothing of what malloc left in the
   buffer survives the memset. *)
From LLTD Require Import Tx.
From Coq Require Import Lia ZifyBool ZifyN ZifyNat.
Ltac Zify.zify_post_hook ::= Z.div_mod_to_equations.
Local Open Scope N_scope.

Lemma zeros_length n : length (zeros n) = n. Proof. apply repeat_length. Qed.
Lemma zeros_split a b : zeros (a + b) = zeros a ++ zeros b. Proof. apply repeat_app. Qed.
Lemma skipn_zeros k n : skipn k (zeros n) = zeros (n - k).
Proof. unfold zeros. revert k; induction n as [|n IH]; intros [|k]; cbn; auto. Qed.
Lemma firstn_zeros k n : (k <= n)%nat -> firstn k (zeros n) = zeros k.
Proof. unfold zeros. revert k; induction n as [|n IH]; intros [|k] H; cbn; auto; [lia|]. rewrite IH by lia. reflexivity. Qed.

(* memset over the whole allocation erases whatever was there *)
Lemma memset_full (j : N) n : memset (repeat j n) 0 n = Some (zeros n).
Proof. unfold memset. rewrite repeat_length, Nat.leb_refl. rewrite skipn_all2 by (rewrite repeat_length; lia). rewrite app_nil_r. reflexivity. Qed.

Lemma poke_tail a m bs : (length bs <= m)%nat ->
  poke (a ++ zeros m) (length a) bs = Some ((a ++ bs) ++ zeros (m - length bs)).
Proof.
  intros H. unfold poke. rewrite app_length, zeros_length.
  destruct (Nat.leb_spec (length a + length bs) (length a + m)); [|lia].
  rewrite firstn_app, firstn_all, Nat.sub_diag, firstn_O, app_nil_r.
  rewrite skipn_app, skipn_all2 by lia. cbn [app].
  replace (length a + length bs - length a)%nat with (length bs) by lia.
  rewrite skipn_zeros, <- app_assoc. reflexivity.
Qed.

Lemma poke_front a b off bs : (off + length bs <= length a)%nat ->
  poke (a ++ b) off bs = match poke a off bs with Some a' => Some (a' ++ b) | None => None end.
Proof.
  intros H. unfold poke. rewrite app_length.
  destruct (Nat.leb_spec (off + length bs) (length a + length b)); [|lia].
  destruct (Nat.leb_spec (off + length bs) (length a)); [|lia].
  rewrite firstn_app, skipn_app.
  replace (off - length a)%nat with O by lia. replace (off + length bs - length a)%nat with O by lia.
  cbn [firstn skipn]. rewrite app_nil_r, <- !app_assoc. reflexivity.
Qed.
Lemma poke_length buf off bs b' : poke buf off bs = Some b' -> length b' = length buf.
Proof.
  unfold poke. destruct (Nat.leb_spec (off + length bs) (length buf)); [|discriminate]. intros E. inversion E.
  rewrite !app_length, firstn_length, skipn_length. lia.
Qed.

(* ---- the base header ---- *)
Lemma header_bytes_length esrc edst rsrc rdst seq opcode tos : length (header_bytes esrc edst rsrc rdst seq opcode tos) = 32%nat.
Proof. reflexivity. Qed.

Lemma set_header_ex_zeros m esrc edst rsrc rdst seq opcode tos :
  set_header_ex (zeros 32 ++ zeros m) esrc edst rsrc rdst seq opcode tos
  = Some (header_bytes esrc edst rsrc rdst seq opcode tos ++ zeros m).
Proof.
  unfold set_header_ex.
  change (o of_etype) with 12%nat. change (o of_esrc) with 6%nat. change (o of_edst) with 0%nat.
  change (o of_rsrc) with 24%nat. change (o of_rdst) with 18%nat. change (o of_seq) with 30%nat.
  change (o of_opcode) with 17%nat. change (o of_tos) with 15%nat. change (o of_version) with 14%nat.
  repeat (rewrite poke_front by (cbn; lia);
          cbn [poke zeros repeat length Nat.leb Nat.add firstn skipn app mac_bytes be16]).
  reflexivity.
Qed.
(* writing a second header over a first one (the ACK reuses the Probe's buffer): every field is overwritten *)
Lemma set_header_ex_over m e1 d1 r1 t1 q1 o1 s1 esrc edst rsrc rdst seq opcode tos :
  set_header_ex (header_bytes e1 d1 r1 t1 q1 o1 s1 ++ zeros m) esrc edst rsrc rdst seq opcode tos
  = Some (header_bytes esrc edst rsrc rdst seq opcode tos ++ zeros m).
Proof.
  unfold set_header_ex.
  change (o of_etype) with 12%nat. change (o of_esrc) with 6%nat. change (o of_edst) with 0%nat.
  change (o of_rsrc) with 24%nat. change (o of_rdst) with 18%nat. change (o of_seq) with 30%nat.
  change (o of_opcode) with 17%nat. change (o of_tos) with 15%nat. change (o of_version) with 14%nat.
  unfold header_bytes.
  repeat (rewrite poke_front by (cbn; lia);
          cbn [poke zeros repeat length Nat.leb Nat.add firstn skipn app mac_bytes be16]).
  reflexivity.
Qed.

(* ---- a run of segment writers at a running offset ---- *)
Lemma emits_tail segs : forall a m, (length (concat segs) <= m)%nat ->
  emits (a ++ zeros m, length a) segs
  = Some ((a ++ concat segs) ++ zeros (m - length (concat segs)), length (a ++ concat segs)).
Proof.
  induction segs as [|s r IH]; intros a m H; cbn [emits concat].
  - rewrite app_nil_r, Nat.sub_0_r. reflexivity.
  - assert (H2 : (length s + length (concat r) <= m)%nat) by (cbn [concat] in H; rewrite app_length in H; exact H).
    unfold emit1; cbn [fst snd]. rewrite poke_tail by lia.
    rewrite <- app_length. rewrite IH by lia. rewrite <- !app_assoc, !app_length.
    replace (m - length s - length (concat r))%nat with (m - (length s + length (concat r)))%nat by lia. reflexivity.
Qed.

(* ---- sizes of the Hello property list ---- *)
Lemma firstn_le {A} n (l : list A) : (length (firstn n l) <= n)%nat.
Proof. rewrite firstn_length. lia. Qed.
Lemma tlv_length t v : length (tlv t v) = (2 + length v)%nat. Proof. reflexivity. Qed.
Lemma seg_ipv6_length c : length (seg_ipv6 c) = 18%nat.
Proof. unfold seg_ipv6. rewrite tlv_length. destruct (c_ipv6 c) as [a|]; [|reflexivity].
  rewrite app_length, zeros_length. pose proof (firstn_le 16 a). lia. Qed.
Lemma hello_tlvs_length c g : (length (concat (hello_tlvs c g)) <= 160)%nat.
Proof.
  unfold hello_tlvs. rewrite !concat_app, !app_length.
  cbn [concat app length]. rewrite !app_length. rewrite seg_ipv6_length.
  unfold seg_hostid, seg_characteristics, seg_medium, seg_ipv4, seg_perf, seg_speed, seg_hostname, seg_qos, seg_icon, seg_friendly, seg_eop.
  rewrite !tlv_length. cbn [length mac_bytes be32 be64 app].
  pose proof (firstn_le 32 (g_host g)).
  destruct (c_wifi c) as [m|]; cbn [concat app length]; [|lia].
  rewrite !app_length. unfold seg_wifimode, seg_bssid, seg_ssid, seg_rate, seg_rssi.
  destruct (c_wifi c); destruct (c_bssid c); rewrite ?tlv_length; cbn [length mac_bytes be32 be16 app];
    pose proof (firstn_le 32 (c_ssid c)); lia.
Qed.
