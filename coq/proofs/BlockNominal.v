(* BlockNominal.v - refinement: with a nominally behaving platform (no failing
   allocation or transmit, MTU available and in range) the instrumented,
   buffer-level model of lltdBlock.c (model/Block.v) computes exactly the pure
   functions of model/BlockFun.v - same new state, same port calls in the same
   order with the same bytes, every transient buffer released - for every
   state, every received buffer, every junk byte and every MTU in range. *)
From LLTD Require Import BlockFun BufProofs.
From Coq Require Import Lia ZifyBool ZifyN ZifyNat.
Ltac Zify.zify_post_hook ::= Z.div_mod_to_equations.
Local Open Scope N_scope.

(* ---------- world updates ---------- *)
Definition wal (n : N) (w : world) : world :=
  {| w_trace := w_trace w; w_live := S (w_live w); w_bytes := w_bytes w + n;
     w_allocs := w_allocs w + 1; w_sends := w_sends w; w_now := w_now w |}.
Definition wfr (n : N) (w : world) : world :=
  {| w_trace := w_trace w; w_live := pred (w_live w); w_bytes := w_bytes w - n;
     w_allocs := w_allocs w; w_sends := w_sends w; w_now := w_now w |}.
Definition wact (a : action) (w : world) : world :=
  {| w_trace := a :: w_trace w; w_live := w_live w; w_bytes := w_bytes w;
     w_allocs := w_allocs w; w_sends := w_sends w; w_now := w_now w |}.
Definition wsend (a : action) (w : world) : world :=
  {| w_trace := a :: w_trace w; w_live := w_live w; w_bytes := w_bytes w;
     w_allocs := w_allocs w; w_sends := w_sends w + 1; w_now := w_now w |}.

Lemma alloc_nf n w : alloc no_fail n w = Ok true (wal n w).
Proof. reflexivity. Qed.
Lemma free_ok n w : (0 < w_live w)%nat -> n <= w_bytes w -> free n w = Ok tt (wfr n w).
Proof. intros H1 H2. unfold free, wfr. destruct (w_live w); [lia|]. destruct (w_bytes w <? n) eqn:E; [lia|]. reflexivity. Qed.
Lemma send_nf ctx buf len w : (len <= length buf)%nat ->
  send no_fail ctx buf len w = Ok true (wsend (Send ctx true (firstn len buf)) w).
Proof. intros H. unfold send. destruct (Nat.leb_spec len (length buf)); [reflexivity|lia]. Qed.
Lemma act_eq a w : act a w = Ok tt (wact a w). Proof. reflexivity. Qed.

Lemma firstn_app_exact {A} (a b : list A) : firstn (length a) (a ++ b) = a.
Proof. rewrite firstn_app, Nat.sub_diag, firstn_all. cbn. apply app_nil_r. Qed.

(* what a handler that releases everything it allocates does to the world: it appends its port calls *)
Definition eff (acts : list action) (w w' : world) : Prop :=
  w_trace w' = rev acts ++ w_trace w /\ w_live w' = w_live w /\ w_bytes w' = w_bytes w /\ w_now w' = w_now w.
Lemma eff_nil w : eff [] w w.
Proof. repeat split. Qed.
Lemma eff_app a b w w1 w2 : eff a w w1 -> eff b w1 w2 -> eff (a ++ b) w w2.
Proof.
  intros (T1 & L1 & B1 & N1) (T2 & L2 & B2 & N2). repeat split; try congruence.
  rewrite T2, T1, rev_app_distr, app_assoc. reflexivity.
Qed.

(* a handler that may keep or release allocations recorded in the interface state *)
Definition post (bl : nat) (bb : N) (F : ist * list action) (w w' : world) : Prop :=
  w_trace w' = rev (snd F) ++ w_trace w /\ ledger_frame bl bb (fst F) w' /\ w_now w' = w_now w.

Lemma post_eff bl bb s s' acts w w' :
  see s' = see s -> icon s' = icon s -> ledger_frame bl bb s w -> eff acts w w' -> post bl bb (s', acts) w w'.
Proof.
  intros Hs Hi (L & B) (T' & L' & B' & N'). unfold post, ledger_frame, held_count, held_bytes in *. cbn [fst snd].
  rewrite Hs, Hi. repeat split; congruence.
Qed.

(* ---------- small arithmetic and list facts ---------- *)
Lemma lor_flag a : a < 32768 -> N.lor a 32768 = a + 32768.
Proof.
  intros H. assert (E : N.land a 32768 = 0).
  { apply N.bits_inj. intros n. rewrite N.land_spec, N.bits_0.
    change 32768 with (2 ^ 15). rewrite N.pow2_bits_eqb.
    destruct (N.eqb_spec 15 n) as [<-|]; [|apply andb_false_r].
    rewrite andb_true_r. apply N.testbit_false. rewrite N.div_small by (change (2 ^ 15) with 32768; lia). reflexivity. }
  rewrite N.add_nocarry_lxor by exact E. symmetry. apply N.lxor_lor. exact E.
Qed.

Lemma mac_eqb_refl a : mac_eqb a a = true.
Proof. unfold mac_eqb. rewrite !N.eqb_refl. reflexivity. Qed.

Lemma rd8_some buf k : (k < length buf)%nat -> exists v, rd8 buf k = Some v.
Proof. intros H. unfold rd8. destruct (nth_error buf k) eqn:E; [eauto|]. apply nth_error_None in E. lia. Qed.
Lemma rd16_some buf k : (k + 2 <= length buf)%nat -> exists v, rd16 buf k = Some v.
Proof.
  intros H. unfold rd16. destruct (rd8_some buf k) as [a Ea]; [lia|]. destruct (rd8_some buf (S k)) as [b Eb]; [lia|].
  rewrite Ea, Eb. eauto.
Qed.
Lemma rdmac_some buf k : (k + 6 <= length buf)%nat -> exists m, rdmac buf k = Some m.
Proof.
  intros H. unfold rdmac.
  destruct (rd8_some buf k) as [a0 E0]; [lia|]. destruct (rd8_some buf (1 + k)) as [a1 E1]; [lia|].
  destruct (rd8_some buf (2 + k)) as [a2 E2]; [lia|]. destruct (rd8_some buf (3 + k)) as [a3 E3]; [lia|].
  destruct (rd8_some buf (4 + k)) as [a4 E4]; [lia|]. destruct (rd8_some buf (5 + k)) as [a5 E5]; [lia|].
  rewrite E0, E1, E2, E3, E4, E5. eauto.
Qed.

Ltac rd_some :=
  match goal with
  | |- context [rdmac ?b ?k] => let m := fresh "m" in let E := fresh "E" in destruct (rdmac_some b k) as [m E]; [lia | rewrite E; clear E]
  | |- context [rd16 ?b ?k] => let m := fresh "v" in let E := fresh "E" in destruct (rd16_some b k) as [m E]; [lia | rewrite E; clear E]
  | |- context [rd8 ?b ?k] => let m := fresh "v" in let E := fresh "E" in destruct (rd8_some b k) as [m E]; [lia | rewrite E; clear E]
  end.

Lemma parse_hdr_some buf : (36 <= length buf)%nat -> exists h, parse_hdr buf = Some h.
Proof.
  intros H. unfold parse_hdr.
  change (o of_edst) with 0%nat. change (o of_esrc) with 6%nat. change (o of_tos) with 15%nat.
  change (o of_opcode) with 17%nat. change (o of_rdst) with 18%nat. change (o of_rsrc) with 24%nat.
  change (o of_seq) with 30%nat. change (o sz_hdr) with 32%nat.
  repeat rd_some. eauto.
Qed.

Lemma read_emitee_some buf off : (off + 14 <= length buf)%nat -> exists d, read_emitee buf off = Some d.
Proof.
  intros H. unfold read_emitee.
  change (o of_emitee_type) with 0%nat. change (o of_emitee_pause) with 1%nat.
  change (o of_emitee_src) with 2%nat. change (o of_emitee_dst) with 8%nat.
  repeat rd_some. eauto.
Qed.

(* ---------- state bookkeeping: which handlers leave the held allocations alone ---------- *)
Lemma set_active_held s h : see (set_active s h) = see s /\ icon (set_active s h) = icon s.
Proof. unfold set_active. destruct (known s); split; reflexivity. Qed.
Lemma set_gen_held s t v : see (set_gen s t v) = see s /\ icon (set_gen s t v) = icon s.
Proof. unfold set_gen. destruct (t =? tos_quick_discovery); split; reflexivity. Qed.
Lemma pre_step_held s h s1 : pre_step s h = Some s1 -> see s1 = see s /\ icon s1 = icon s.
Proof.
  unfold pre_step. destruct (is_discovery_tos (h_tos h) && (h_opc h =? opcode_discover)).
  - destruct (matches s h); [|discriminate]. intros E; inversion E; subst.
    destruct (set_gen_held (set_active s h) (h_tos h) (h_w0 h)) as [A B]. destruct (set_active_held s h) as [C D].
    split; congruence.
  - intros E; inversion E; subst. split; reflexivity.
Qed.
Lemma ledger_held bl bb s s' w : see s' = see s -> icon s' = icon s -> ledger_frame bl bb s w -> ledger_frame bl bb s' w.
Proof. intros Hs Hi. unfold ledger_frame, held_count, held_bytes. rewrite Hs, Hi. auto. Qed.

Lemma free_n_ok sz : forall k w, (k <= w_live w)%nat -> N.of_nat k * sz <= w_bytes w ->
  exists w', free_n k sz w = Ok tt w' /\ w_trace w' = w_trace w /\ w_live w' = (w_live w - k)%nat
             /\ w_bytes w' = w_bytes w - N.of_nat k * sz /\ w_now w' = w_now w.
Proof.
  induction k as [|k IH]; intros w HL HB.
  - exists w. cbn [free_n]. unfold ret. repeat split; lia.
  - cbn [free_n]. unfold bind. rewrite Nat2N.inj_succ, N.mul_succ_l in *.
    rewrite free_ok by lia.
    destruct (IH (wfr sz w)) as (w' & E & T & L & B & Nw); cbn [wfr w_live w_bytes]; try lia.
    exists w'. rewrite E. cbn [wfr w_live w_bytes w_trace w_now] in *. repeat split; try congruence; lia.
Qed.

Section Nominal.
  Variable junk ctx : N.
  Variable c : pcfg.
  Variable g : gcfg.
  Variable mtu : N.
  Hypothesis Hmtu : c_mtu c = Some mtu.
  Hypothesis Hmin : 576 <= mtu.
  Hypothesis Hmax : mtu <= 9216.
  Hypothesis Hrx : mtu <= c_rxsize c.

  Notation NF := no_fail.
  Lemma mtu_def : mtu_or_default c = mtu.
  Proof. unfold mtu_or_default. rewrite Hmtu. destruct (mtu =? 0) eqn:E; [lia|reflexivity]. Qed.

  Lemma fresh_buf_eq n w : fresh_buf junk n w = Ok (zeros (o n)) w.
  Proof. unfold fresh_buf, wr. rewrite memset_full. reflexivity. Qed.

  (* ---------- Hello ---------- *)
  Lemma set_hello_header_zeros m e1 d1 r1 t1 q1 o1 s1 app cur gen :
    set_hello_header (header_bytes e1 d1 r1 t1 q1 o1 s1 ++ zeros 14 ++ zeros m) 32 app cur gen
    = Some (header_bytes e1 d1 r1 t1 q1 o1 s1 ++ (be16 gen ++ mac_bytes cur ++ mac_bytes app) ++ zeros m).
  Proof.
    unfold set_hello_header.
    change (o of_hello_app) with 8%nat. change (o of_hello_cur) with 2%nat. change (o of_hello_gen) with 0%nat.
    rewrite app_assoc. unfold header_bytes.
    repeat (rewrite poke_front by (cbn; lia);
            cbn [poke zeros repeat length Nat.leb Nat.add firstn skipn app mac_bytes be16]).
    reflexivity.
  Qed.

  Lemma answer_hello_nominal s h w :
    answer_hello NF NF junk ctx c g s h w =
    Ok (fst (f_answer_hello ctx c g s h))
       (wfr mtu (wsend (Send ctx true (hello_frame c g h (get_gen (fst (f_answer_hello ctx c g s h)) (h_tos h)))) (wal mtu w))).
  Proof.
    unfold answer_hello, f_answer_hello, bind. rewrite mtu_def, alloc_nf. cbn [negb]. rewrite fresh_buf_eq.
    set (s1 := with_seq (set_active s h) (h_seq h)).
    set (s2 := if (get_gen s1 (h_tos h) =? 0) && negb (h_w0 h =? 0) then set_gen s1 (h_tos h) (h_w0 h) else s1).
    cbn [fst]. unfold wr.
    assert (Ho : (576 <= o mtu)%nat) by (unfold o; lia).
    replace (o mtu) with (32 + (14 + (o mtu - 46)))%nat by lia. rewrite (zeros_split 32).
    unfold set_header. rewrite set_header_ex_zeros. cbn [lift ret]. rewrite zeros_split.
    change (o sz_hdr) with 32%nat. rewrite set_hello_header_zeros. cbn [lift ret].
    change (o sz_hello_hdr) with 14%nat.
    set (H := header_bytes (own c) bcast (own c) bcast 0 opcode_hello (h_tos h)).
    set (U := be16 (get_gen s2 (h_tos h)) ++ mac_bytes (h_rsrc h) ++ mac_bytes (h_esrc h)).
    rewrite app_assoc. change (32 + 14)%nat with (length (H ++ U)).
    pose proof (hello_tlvs_length c g) as HL.
    rewrite emits_tail by lia. cbn [lift ret fst snd].
    rewrite send_nf by (rewrite !app_length, zeros_length; lia).
    rewrite firstn_app_exact. rewrite free_ok by (cbn; lia).
    unfold hello_frame. subst H U. rewrite <- !app_assoc. reflexivity.
  Qed.

  Lemma answer_hello_post bl bb s h w : ledger_frame bl bb s w ->
    exists w', answer_hello NF NF junk ctx c g s h w = Ok (fst (f_answer_hello ctx c g s h)) w'
               /\ post bl bb (f_answer_hello ctx c g s h) w w'.
  Proof.
    intros HL. eexists. split; [apply answer_hello_nominal|].
    unfold f_answer_hello at 2. cbn [fst].
    set (F := f_answer_hello ctx c g s h).
    apply post_eff with (s := s); try exact HL.
    - unfold F, f_answer_hello. cbn [fst].
      destruct (set_active_held s h) as [A _].
      match goal with |- see (if ?b then _ else _) = _ => destruct b end; [rewrite (proj1 (set_gen_held _ _ _))|]; exact A.
    - unfold F, f_answer_hello. cbn [fst].
      destruct (set_active_held s h) as [_ A].
      match goal with |- icon (if ?b then _ else _) = _ => destruct b end; [rewrite (proj2 (set_gen_held _ _ _))|]; exact A.
    - unfold eff. cbn [wfr wsend wal w_trace w_live w_bytes w_now rev app pred]. repeat split. lia.
  Qed.

  (* ---------- Probe / Train / ACK ---------- *)
  Definition probe_world (s : ist) (d : emitee) (ack : bool) (w : world) : world :=
    let w1 := wsend (Send ctx true (probe_frame c d)) (wact (Sleep (d_pause d)) (wal sz_hdr w)) in
    wfr sz_hdr (if ack then wsend (Send ctx true (ack_frame c s)) w1 else w1).
  Lemma send_probe_msg_nominal s d ack w :
    send_probe_msg NF NF junk ctx c s d ack w = Ok tt (probe_world s d ack w).
  Proof.
    unfold send_probe_msg, probe_world, bind. rewrite alloc_nf. cbn [negb]. rewrite fresh_buf_eq.
    change (o sz_hdr) with 32%nat. unfold wr.
    change (zeros 32) with (zeros 32 ++ zeros 0) at 1. rewrite set_header_ex_zeros. cbn [lift ret].
    rewrite act_eq. rewrite send_nf by reflexivity. cbn [negb].
    change (firstn 32 (header_bytes (d_src d) (d_dst d) (own c) (d_dst d) 0 (if d_type d =? 1 then opcode_probe else opcode_train) tos_discovery ++ zeros 0))
      with (probe_frame c d).
    destruct ack.
    - rewrite set_header_ex_over. cbn [lift ret]. rewrite send_nf by reflexivity.
      change (firstn 32 (header_bytes (own c) (mapp s) (own c) (mreal s) (mseq s) opcode_ack tos_discovery ++ zeros 0)) with (ack_frame c s).
      unfold ret. rewrite free_ok by (cbn; lia). reflexivity.
    - unfold ret. rewrite free_ok by (cbn; lia). reflexivity.
  Qed.

  Lemma probe_world_eff s d (ack : bool) w :
    eff ([Sleep (d_pause d); tx ctx (probe_frame c d)] ++ (if ack then [tx ctx (ack_frame c s)] else [])) w (probe_world s d ack w).
  Proof.
    unfold eff, probe_world, tx. destruct ack; cbn [wfr wsend wact wal w_trace w_live w_bytes w_now rev app pred]; repeat split; lia.
  Qed.

  (* ---------- Emit ---------- *)
  Lemma emit_loop_nominal s buf n : 34 + 14 * n <= mtu -> length buf = o (c_rxsize c) ->
    forall k i w, N.of_nat k + i = n ->
    exists ds w', read_descs buf k i = Some ds /\ length ds = k
      /\ emit_loop NF NF junk ctx c s buf k i n w = Ok tt w' /\ eff (f_emit_all ctx c s ds) w w'.
  Proof.
    intros Hn Hb. induction k as [|k IH]; intros i w Hk.
    - exists [], w. cbn [read_descs emit_loop f_emit_all length]. repeat split.
    - cbn [read_descs emit_loop]. unfold bind.
      set (off := (o sz_hdr + o sz_emit_hdr + o ((sz_emitee * i) mod 65536))%nat).
      destruct (read_emitee_some buf off) as [d Ed].
      { subst off. unfold o, sz_hdr, sz_emit_hdr, sz_emitee in *. lia. }
      rewrite Ed. unfold rdm, lift. unfold ret at 1.
      destruct ((d_type d =? 1) || (d_type d =? 0)) eqn:Et.
      + rewrite send_probe_msg_nominal.
        destruct (IH (i + 1) (probe_world s d (i =? n - 1) w)) as (ds & w' & R & Ld & E & F); [lia|].
        rewrite R, E. exists (d :: ds), w'. split; [reflexivity|]. split; [cbn [length]; lia|]. split; [reflexivity|].
        cbn [f_emit_all]. unfold f_emit_one. rewrite Et.
        apply eff_app with (w1 := probe_world s d (i =? n - 1) w); [|exact F].
        replace (match ds with [] => true | _ :: _ => false end) with (i =? n - 1).
        * apply probe_world_eff.
        * destruct ds; cbn [length] in Ld; lia.
      + unfold ret at 1.
        destruct (IH (i + 1) w) as (ds & w' & R & Ld & E & F); [lia|].
        rewrite R, E. exists (d :: ds), w'. split; [reflexivity|]. split; [cbn [length]; lia|]. split; [reflexivity|].
        cbn [f_emit_all]. unfold f_emit_one. rewrite Et. exact F.
  Qed.

  Lemma parse_emit_post bl bb s h buf w : length buf = o (c_rxsize c) -> ledger_frame bl bb s w ->
    exists w', parse_emit NF NF junk ctx c s h buf w = Ok (fst (f_parse_emit ctx c mtu s h buf)) w'
               /\ post bl bb (f_parse_emit ctx c mtu s h buf) w w'.
  Proof.
    intros Hb HL. unfold parse_emit, f_parse_emit, emit_fits. rewrite Hmtu.
    destruct ((sz_hdr + sz_emit_hdr <=? mtu) && (h_w0 h <=? (mtu - sz_hdr - sz_emit_hdr) / sz_emitee)) eqn:E; cbn [negb].
    - set (s1 := with_seq (set_active s h) (h_seq h)).
      assert (Hn : 34 + 14 * h_w0 h <= mtu) by (unfold sz_hdr, sz_emit_hdr, sz_emitee in E; lia).
      assert (Hk : N.of_nat (o (h_w0 h)) + 0 = h_w0 h) by (unfold o; lia).
      destruct (emit_loop_nominal s1 buf (h_w0 h) Hn Hb (o (h_w0 h)) 0 w Hk) as (ds & w' & R & _ & E' & F).
      unfold bind. rewrite E', R. cbn [fst snd]. exists w'. split; [reflexivity|].
      apply post_eff with (s := s); try assumption; subst s1; cbn [with_seq see icon]; apply set_active_held.
    - exists w. split; [reflexivity|]. cbn [fst snd]. apply post_eff with (s := s); auto using eff_nil.
  Qed.

  (* ---------- Query ---------- *)
  Lemma desc_bytes_length ob : length (desc_bytes ob) = 20%nat. Proof. reflexivity. Qed.
  Lemma concat_desc_length l : length (concat (map desc_bytes l)) = (length l * 20)%nat.
  Proof. induction l as [|ob l IH]; [reflexivity|]. cbn [map concat length]. rewrite app_length, IH, desc_bytes_length. lia. Qed.

  Lemma query_loop_tail mt : forall l k a m, (k <= length l)%nat -> (length a + k * 20 <= mt)%nat -> (k * 20 <= m)%nat ->
    query_loop (a ++ zeros m) (length a) l k mt
    = Some ((a ++ concat (map desc_bytes (firstn k l))) ++ zeros (m - k * 20), (length a + k * 20)%nat, 0%nat).
  Proof.
    induction l as [|ob l IH]; intros k a m Hk Ha Hm.
    - cbn [length] in Hk. assert (k = 0)%nat by lia. subst k. cbn [query_loop firstn map concat].
      change (0 * 20)%nat with 0%nat. rewrite app_nil_r, Nat.sub_0_r, Nat.add_0_r. reflexivity.
    - destruct k as [|k].
      + cbn [query_loop firstn map concat].
        change (0 * 20)%nat with 0%nat. rewrite app_nil_r, Nat.sub_0_r, Nat.add_0_r. reflexivity.
      + cbn [query_loop]. change (o desc_wire_size) with 20%nat. cbn [length] in Hk.
        destruct (Nat.ltb_spec mt (length a + 20)); [lia|].
        rewrite poke_tail by (rewrite desc_bytes_length; lia). rewrite desc_bytes_length.
        replace (length a + 20)%nat with (length (a ++ desc_bytes ob)) by (rewrite app_length; reflexivity).
        rewrite IH by (rewrite ?app_length, ?desc_bytes_length; lia).
        cbn [firstn map concat]. rewrite app_length, desc_bytes_length, <- !app_assoc.
        replace (m - 20 - k * 20)%nat with (m - S k * 20)%nat by lia.
        replace (length a + 20 + k * 20)%nat with (length a + S k * 20)%nat by lia. reflexivity.
  Qed.

  Lemma firstn_min_len {A} k (l : list A) : firstn (Nat.min k (length l)) l = firstn k l.
  Proof.
    destruct (Nat.le_ge_cases k (length l)).
    - rewrite Nat.min_l by lia. reflexivity.
    - rewrite Nat.min_r by lia. rewrite firstn_all, firstn_all2 by lia. reflexivity.
  Qed.
  Lemma skipn_min_len {A} k (l : list A) : skipn (Nat.min k (length l)) l = skipn k l.
  Proof.
    destruct (Nat.le_ge_cases k (length l)).
    - rewrite Nat.min_l by lia. reflexivity.
    - rewrite Nat.min_r by lia. rewrite skipn_all, skipn_all2 by lia. reflexivity.
  Qed.

  Lemma parse_query_post bl bb s h w : ledger_frame bl bb s w ->
    exists w', parse_query NF NF junk ctx c s h w = Ok (fst (f_parse_query ctx c mtu s h)) w'
               /\ post bl bb (f_parse_query ctx c mtu s h) w w'.
  Proof.
    intros (HL & HB). unfold parse_query, f_parse_query, bind. rewrite mtu_def, alloc_nf. cbn [negb]. rewrite fresh_buf_eq.
    set (s1 := with_mapper (with_seq s (h_seq h)) (h_rsrc h) (h_esrc h)).
    assert (Hsee : see s1 = see s) by reflexivity. assert (Hic : icon s1 = icon s) by reflexivity.
    change (mseq s1) with (h_seq h).
    set (l := see s1) in *.
    unfold wr. assert (Ho : (576 <= o mtu)%nat) by (unfold o; lia).
    replace (o mtu) with (32 + (o mtu - 32))%nat by lia. rewrite zeros_split.
    unfold set_header. rewrite set_header_ex_zeros. cbn [lift ret].
    set (H := header_bytes (own c) (reply_dst h) (own c) (reply_dst h) (h_seq h) opcode_queryResp tos_discovery).
    destruct (sz_hdr + sz_qresp_hdr <? mtu) eqn:E1; [|unfold sz_hdr, sz_qresp_hdr in E1; lia].
    unfold qcap.
    set (qc := (mtu - sz_hdr - sz_qresp_hdr) / desc_wire_size).
    assert (Hqc : 34 + 20 * qc <= mtu) by (subst qc; unfold sz_hdr, sz_qresp_hdr, desc_wire_size; lia).
    set (cnt := N.of_nat (length l)).
    set (num := (if qc <? cnt then qc else cnt) mod 65536).
    assert (Hnum : o num = Nat.min (o qc) (length l)).
    { subst num cnt. unfold o. destruct (qc <? N.of_nat (length l)) eqn:A; lia. }
    set (X := N.of_nat (length (firstn (o qc) l)) + (if (o qc <? length l)%nat then 32768 else 0)).
    assert (Hcount : N.lor num (if num <? cnt then 32768 else 0) = X).
    { subst X. rewrite firstn_length. subst cnt. unfold o in *.
      destruct (num <? N.of_nat (length l)) eqn:A; destruct (Nat.ltb_spec (N.to_nat qc) (length l)); try lia.
      - rewrite lor_flag by lia. lia.
      - rewrite N.lor_0_r. lia. }
    rewrite Hcount.
    change (o sz_hdr + o sz_qresp_hdr)%nat with (length (H ++ be16 X)). change (o sz_hdr) with (length H).
    rewrite poke_tail by (cbn [length be16]; lia). cbn [lift ret]. change (length (be16 X)) with 2%nat.
    rewrite query_loop_tail;
      [| rewrite Hnum; lia | change (length (H ++ be16 X)) with 34%nat; unfold o in *; lia | unfold o in *; lia].
    cbn [lift ret]. cbv beta iota.
    set (A := H ++ be16 X). set (D := concat (map desc_bytes (firstn (o num) l))).
    assert (HD : length D = (o num * 20)%nat).
    { subst D. rewrite concat_desc_length, firstn_length. rewrite Hnum. lia. }
    rewrite <- HD, <- app_length.
    rewrite send_nf by (rewrite (app_length (A ++ D)); lia). rewrite firstn_app_exact.
    rewrite free_ok by (cbn [wsend wal w_live w_bytes]; lia).
    rewrite Nat.sub_0_r. replace (Nat.min (o num) (length l)) with (o num) by lia.
    match goal with |- context [free_n _ _ ?W] => set (W0 := W) end.
    destruct (free_n_ok sz_probe_node (o num) W0) as (w' & E & T & L & B & Nw).
    { subst W0. cbn [wfr wsend wal w_live pred]. rewrite HL. unfold held_count. rewrite <- Hsee. lia. }
    { subst W0. cbn [wfr wsend wal w_bytes]. rewrite HB. unfold held_bytes, sz_probe_node. rewrite <- Hsee. fold l. lia. }
    rewrite E. exists w'. cbn [fst snd]. split.
    - unfold ret. rewrite Hnum, skipn_min_len. reflexivity.
    - unfold post, ledger_frame, held_count, held_bytes. cbn [fst snd with_see see icon rev app].
      rewrite T, L, B, Nw. subst W0. cbn [wfr wsend wal w_trace w_live w_bytes w_now pred].
      rewrite HL, HB. unfold held_count, held_bytes, sz_probe_node. rewrite <- Hsee, Hic. fold l. rewrite skipn_length.
      split; [|split; [split|]]; try lia.
      unfold tx, qresp_frame. fold H. subst A D X. rewrite Hnum, firstn_min_len, <- !app_assoc. reflexivity.
  Qed.

  (* ---------- QueryLargeTlv ---------- *)
  Definition maxp_c : N :=
    if sz_hdr + sz_qltresp_hdr <? mtu_or_default c then (mtu_or_default c - sz_hdr - sz_qltresp_hdr) mod 65536 else 0.
  Definition slt_pair (data : option (list byte)) (dsize off : N) : N * N :=
    match data with
    | None => (0, 0)
    | Some _ =>
      if dsize =? 0 then (0, 0)
      else if off + maxp_c <? dsize then (maxp_c, N.lor maxp_c 32768)
      else if off <? dsize then ((dsize - off) mod 65536, (dsize - off) mod 65536)
      else (0, 0)
    end.
  Definition slt_tail (data : option (list byte)) (off bsize : N) (b1 : list byte) (p : N * N) : M unit :=
    let '(btw, lenfield) := p in
    b2 <- wr (poke b1 (o sz_hdr) (be16 lenfield)) ;;
    b3 <- (if 0 <? btw then
             match data with
             | Some d => chunk <- rdm (slice d (o off) (o btw)) ;; wr (poke b2 (o sz_hdr + o sz_qltresp_hdr) chunk)
             | None => ret b2
             end
           else ret b2) ;;
    send NF ctx b3 (o sz_hdr + o sz_qltresp_hdr + o btw) ;;; free bsize.
  Lemma slt_unfold s h data dsize off :
    send_large_tlv NF NF junk ctx c s h data dsize off =
    (ok <- alloc NF (sz_hdr + sz_qltresp_hdr + maxp_c) ;;
     if negb ok then ret tt else
     b0 <- fresh_buf junk (sz_hdr + sz_qltresp_hdr + maxp_c) ;;
     b1 <- wr (set_header b0 (own c) (reply_dst h) (mseq s) opcode_queryLargeTlvResp tos_discovery) ;;
     slt_tail data off (sz_hdr + sz_qltresp_hdr + maxp_c) b1 (slt_pair data dsize off)).
  Proof. reflexivity. Qed.
  Lemma maxp_eq : maxp_c = mtu - 34.
  Proof. unfold maxp_c. rewrite mtu_def. unfold sz_hdr, sz_qltresp_hdr. destruct (32 + 2 <? mtu) eqn:E; lia. Qed.
  Lemma bsize_eq : sz_hdr + sz_qltresp_hdr + maxp_c = mtu.
  Proof. rewrite maxp_eq. unfold sz_hdr, sz_qltresp_hdr. lia. Qed.

  Definition qlt_hdr (h : hdr) (seq : N) : list byte :=
    header_bytes (own c) (reply_dst h) (own c) (reply_dst h) seq opcode_queryLargeTlvResp tos_discovery.

  Lemma slt_head s h data dsize off w :
    send_large_tlv NF NF junk ctx c s h data dsize off w
    = slt_tail data off mtu (qlt_hdr h (mseq s) ++ zeros (o mtu - 32)) (slt_pair data dsize off) (wal mtu w).
  Proof.
    rewrite slt_unfold. unfold bind. rewrite bsize_eq, alloc_nf. cbn [negb]. rewrite fresh_buf_eq.
    assert (Ho : (576 <= o mtu)%nat) by (unfold o; lia).
    replace (o mtu) with (32 + (o mtu - 32))%nat at 1 by lia. rewrite zeros_split.
    unfold wr, set_header. rewrite set_header_ex_zeros. reflexivity.
  Qed.

  Lemma slt_tail_zero data off H w1 : length H = 32%nat -> (0 < w_live w1)%nat -> mtu <= w_bytes w1 ->
    slt_tail data off mtu (H ++ zeros (o mtu - 32)) (0, 0) w1
    = Ok tt (wfr mtu (wsend (Send ctx true (H ++ be16 0 ++ [])) w1)).
  Proof.
    intros HH Hl Hb. unfold slt_tail, bind. change (0 <? 0) with false. cbv beta iota.
    assert (Ho : (576 <= o mtu)%nat) by (unfold o; lia).
    change (o sz_hdr) with 32%nat. rewrite <- HH at 2. unfold wr.
    rewrite poke_tail by (cbn [length be16]; lia). cbn [lift]. unfold ret.
    change (32 + o sz_qltresp_hdr + o 0)%nat with 34%nat.
    replace 34%nat with (length (H ++ be16 0)) by (rewrite app_length, HH; reflexivity).
    rewrite send_nf by (rewrite (app_length (H ++ be16 0)); lia). rewrite firstn_app_exact.
    rewrite free_ok by (cbn [wsend w_live w_bytes]; lia). reflexivity.
  Qed.

  Lemma slt_tail_chunk d off btw lf H w1 : length H = 32%nat -> (0 < w_live w1)%nat -> mtu <= w_bytes w1 ->
    0 < btw -> btw <= mtu - 34 -> (o off + o btw <= length d)%nat ->
    slt_tail (Some d) off mtu (H ++ zeros (o mtu - 32)) (btw, lf) w1
    = Ok tt (wfr mtu (wsend (Send ctx true (H ++ be16 lf ++ firstn (o btw) (skipn (o off) d))) w1)).
  Proof.
    intros HH Hl Hb H0 H1 H2. unfold slt_tail, bind.
    destruct (0 <? btw) eqn:E; [|lia]. cbv beta iota.
    assert (Ho : (576 <= o mtu)%nat) by (unfold o; lia).
    change (o sz_hdr) with 32%nat. rewrite <- HH at 2. unfold wr.
    rewrite poke_tail by (cbn [length be16]; lia). cbn [lift]. unfold ret at 1.
    unfold slice. destruct (Nat.leb_spec (o off + o btw) (length d)); [|lia].
    unfold rdm. cbn [lift]. unfold ret at 1.
    set (ch := firstn (o btw) (skipn (o off) d)).
    assert (Hch : length ch = o btw) by (subst ch; rewrite firstn_length, skipn_length; lia).
    change (32 + o sz_qltresp_hdr)%nat with 34%nat.
    replace 34%nat with (length (H ++ be16 lf)) by (rewrite app_length, HH; reflexivity).
    rewrite poke_tail by (cbn [length be16]; unfold o in *; lia). cbn [lift]. unfold ret at 1.
    rewrite <- Hch, <- app_length.
    rewrite send_nf by (rewrite (app_length ((H ++ be16 lf) ++ ch)); lia). rewrite firstn_app_exact.
    rewrite free_ok by (cbn [wsend w_live w_bytes]; lia). rewrite <- !app_assoc. reflexivity.
  Qed.

  Lemma eff_buf n a w : eff [a] w (wfr n (wsend a (wal n w))).
  Proof. unfold eff. cbn [wfr wsend wal w_trace w_live w_bytes w_now rev app pred]. repeat split. lia. Qed.

  Lemma send_large_tlv_none s h off w :
    exists w', send_large_tlv NF NF junk ctx c s h None 0 off w = Ok tt w'
               /\ eff (f_large_tlv ctx c mtu h (mseq s) [] off) w w'.
  Proof.
    eexists. split.
    - rewrite slt_head. cbn [slt_pair]. apply slt_tail_zero; [reflexivity|cbn [wal w_live]; lia|cbn [wal w_bytes]; lia].
    - unfold f_large_tlv. cbn [length N.of_nat]. destruct (off + payload_max mtu <? 0) eqn:E; [lia|].
      rewrite skipn_nil. apply eff_buf.
  Qed.

  Lemma send_large_tlv_some s h d dsize off w : (o dsize <= length d)%nat ->
    exists w', send_large_tlv NF NF junk ctx c s h (Some d) dsize off w = Ok tt w'
               /\ eff (f_large_tlv ctx c mtu h (mseq s) (firstn (o dsize) d) off) w w'.
  Proof.
    intros Hd. rewrite slt_head. unfold f_large_tlv, payload_max.
    assert (Hsz : N.of_nat (length (firstn (o dsize) d)) = dsize) by (rewrite firstn_length; unfold o in *; lia).
    rewrite Hsz. unfold slt_pair. rewrite maxp_eq.
    change (mtu - sz_hdr - sz_qltresp_hdr) with (mtu - 32 - 2). replace (mtu - 32 - 2) with (mtu - 34) by lia.
    assert (HW1 : (0 < w_live (wal mtu w))%nat) by (cbn [wal w_live]; lia).
    assert (HW2 : mtu <= w_bytes (wal mtu w)) by (cbn [wal w_bytes]; lia).
    unfold tx, qlt_frame. fold (qlt_hdr h (mseq s)).
    destruct (dsize =? 0) eqn:E0.
    - eexists. split; [apply slt_tail_zero; auto|].
      destruct (off + (mtu - 34) <? dsize) eqn:E1; [lia|].
      replace dsize with 0 by lia. change (o 0) with 0%nat. cbn [firstn]. rewrite skipn_nil. apply eff_buf.
    - destruct (off + (mtu - 34) <? dsize) eqn:E1.
      + eexists. split; [apply slt_tail_chunk; auto; unfold o in *; lia|].
        rewrite skipn_firstn_comm, firstn_firstn. replace (Nat.min (o (mtu - 34)) (o dsize - o off)) with (o (mtu - 34)) by (unfold o; lia).
        rewrite firstn_length, skipn_length.
        replace (N.of_nat (Nat.min (o (mtu - 34)) (length d - o off))) with (mtu - 34) by (unfold o in *; lia).
        rewrite lor_flag by lia. apply eff_buf.
      + destruct (off <? dsize) eqn:E2.
        * rewrite (N.mod_small (dsize - off) 65536) by lia.
          eexists. split; [apply slt_tail_chunk; auto; unfold o in *; lia|].
          rewrite skipn_firstn_comm. replace (o dsize - o off)%nat with (o (dsize - off)) by (unfold o; lia).
          rewrite firstn_length, skipn_length.
          replace (N.of_nat (Nat.min (o (dsize - off)) (length d - o off)) + 0) with (dsize - off) by (unfold o in *; lia).
          apply eff_buf.
        * eexists. split; [apply slt_tail_zero; auto|].
          rewrite skipn_all2 by (rewrite firstn_length; unfold o in *; lia). apply eff_buf.
  Qed.

  Lemma hwid_scan_le : forall n l i, (length l <= n)%nat -> i + N.of_nat (length l) <= 64 -> hwid_scan l i <= 64.
  Proof.
    induction n as [|n IH]; intros l i Hn Hi.
    - destruct l; [cbn [hwid_scan]; lia|cbn [length] in Hn; lia].
    - destruct l as [|a [|b r]]; cbn [hwid_scan]; try lia.
      destruct ((a =? 0) && (b =? 0)); [cbn [length] in Hi; lia|]. apply IH; cbn [length] in *; lia.
  Qed.
  Lemma hwid_scratch_length : length (hwid_scratch g) = 64%nat.
  Proof. unfold hwid_scratch. rewrite app_length, zeros_length, firstn_length. lia. Qed.

  Lemma post_ret bl bb s w : ledger_frame bl bb s w -> post bl bb (s, []) w w.
  Proof. intros HL. apply post_eff with (s := s); auto using eff_nil. Qed.

  (* allocate a scratch block, answer, release it *)
  Lemma eff_alloc_free n acts w w' : eff acts (wal n w) w' ->
    free n w' = Ok tt (wfr n w') /\ eff acts w (wfr n w').
  Proof.
    intros (T & L & B & Nw). cbn [wal w_trace w_live w_bytes w_now] in *. split.
    - apply free_ok; lia.
    - unfold eff. cbn [wfr w_trace w_live w_bytes w_now]. rewrite L, B. repeat split; auto; lia.
  Qed.

  Lemma parse_qlt_post bl bb s h w : ledger_frame bl bb s w ->
    exists w', parse_qlt NF NF junk ctx c g s h w = Ok (fst (f_parse_qlt ctx c g mtu s h)) w'
               /\ post bl bb (f_parse_qlt ctx c g mtu s h) w w'.
  Proof.
    intros HL. unfold parse_qlt, f_parse_qlt.
    destruct (h_seq h =? 0) eqn:Eq.
    { exists w. split; [reflexivity|]. apply post_ret, HL. }
    set (s1 := with_seq (set_active s h) (h_seq h)).
    assert (Hs1 : see s1 = see s /\ icon s1 = icon s) by (subst s1; cbn [with_seq see icon]; apply set_active_held).
    destruct Hs1 as [Hsee Hic].
    assert (Hq : mseq s1 = h_seq h) by reflexivity.
    assert (Hnone : exists w',
               send_large_tlv NF NF junk ctx c s1 h None 0 (h_w1 h) w = Ok tt w'
               /\ post bl bb (s1, f_large_tlv ctx c mtu h (h_seq h) [] (h_w1 h)) w w').
    { destruct (send_large_tlv_none s1 h (h_w1 h) w) as (w' & E & F). rewrite Hq in F.
      exists w'. split; [exact E|]. apply post_eff with (s := s); auto. }
    destruct (h_b0 h =? tlv_iconImage) eqn:T1.
    - destruct (icon s1) as [d|] eqn:Ei.
      + unfold bind.
        destruct (send_large_tlv_some s1 h d (N.of_nat (length d)) (h_w1 h) w) as (w' & E & F); [unfold o; lia|].
        rewrite E. replace (firstn (o (N.of_nat (length d))) d) with d in F by (unfold o; rewrite Nat2N.id, firstn_all; reflexivity).
        rewrite Hq in F. exists w'. split; [reflexivity|]. cbn [fst snd]. apply post_eff with (s := s); auto. congruence.
      + destruct (g_icon g) as [d|].
        * unfold bind. rewrite alloc_nf. set (s2 := with_icon s1 (Some d)).
          destruct (send_large_tlv_some s2 h d (N.of_nat (length d)) (h_w1 h) (wal (N.of_nat (length d)) w)) as (w' & E & F); [unfold o; lia|].
          rewrite E. replace (firstn (o (N.of_nat (length d))) d) with d in F by (unfold o; rewrite Nat2N.id, firstn_all; reflexivity).
          change (mseq s2) with (h_seq h) in F. exists w'. split; [reflexivity|]. cbn [fst snd].
          destruct F as (T & L & B & Nw). destruct HL as (HL & HB).
          unfold post, ledger_frame, held_count, held_bytes in *. cbn [fst snd]. subst s2. cbn [with_icon see icon].
          cbn [wal w_trace w_live w_bytes w_now] in *. rewrite Hsee. rewrite <- Hic in HL, HB.
          repeat split; auto; lia.
        * unfold bind. destruct Hnone as (w' & E & P). rewrite E. exists w'. split; [reflexivity|exact P].
    - destruct (h_b0 h =? tlv_friendlyName) eqn:T2.
      + destruct (g_fname g) as [d|].
        * unfold bind. rewrite alloc_nf.
          destruct (send_large_tlv_some s1 h d (N.of_nat (length d)) (h_w1 h) (wal (N.of_nat (length d)) w)) as (w' & E & F); [unfold o; lia|].
          rewrite E. replace (firstn (o (N.of_nat (length d))) d) with d in F by (unfold o; rewrite Nat2N.id, firstn_all; reflexivity).
          rewrite Hq in F. apply eff_alloc_free in F. destruct F as (Efr & F). rewrite Efr.
          eexists. split; [reflexivity|]. cbn [fst snd]. apply post_eff with (s := s); auto.
        * unfold bind. destruct Hnone as (w' & E & P). rewrite E. exists w'. split; [reflexivity|exact P].
      + destruct (h_b0 h =? tlv_hwIdProperty) eqn:T3.
        * unfold bind. rewrite alloc_nf.
          destruct (send_large_tlv_some s1 h (hwid_scratch g) (hwid_scan (hwid_scratch g) 0) (h_w1 h) (wal 64 w)) as (w' & E & F).
          { pose proof (hwid_scan_le 64 (hwid_scratch g) 0) as Hs. rewrite hwid_scratch_length in *.
            specialize (Hs (le_n _)). unfold o. lia. }
          rewrite E. fold (hwid_value g) in F.
          rewrite Hq in F. apply eff_alloc_free in F. destruct F as (Efr & F). rewrite Efr.
          eexists. split; [reflexivity|]. cbn [fst snd]. apply post_eff with (s := s); auto.
        * unfold bind. destruct Hnone as (w' & E & P). rewrite E. exists w'. split; [reflexivity|exact P].
  Qed.

  (* ---------- Probe / Train received ---------- *)
  Lemma parse_probe_post bl bb s h w : ledger_frame bl bb s w ->
    exists w', parse_probe NF c s h w = Ok (f_parse_probe c s h) w' /\ post bl bb (f_parse_probe c s h, []) w w'.
  Proof.
    intros HL. unfold parse_probe, f_parse_probe.
    destruct (negb (mac_eqb (h_rdst h) (own c))).
    { exists w. split; [reflexivity|]. apply post_ret, HL. }
    destruct (see_full s).
    { exists w. split; [reflexivity|]. apply post_ret, HL. }
    unfold bind. rewrite alloc_nf. cbn [negb].
    set (ob := {| o_type := if h_opc h =? opcode_probe then 1 else 0; o_rsrc := h_rsrc h; o_esrc := h_esrc h; o_edst := h_edst h |}).
    destruct (existsb (obs_key_eqb ob) (see s)).
    - rewrite free_ok by (cbn [wal w_live w_bytes]; lia). eexists. split; [reflexivity|].
      apply post_eff with (s := s); auto.
      unfold eff. cbn [wfr wal w_trace w_live w_bytes w_now rev app pred]. repeat split. lia.
    - eexists. split; [reflexivity|]. destruct HL as (HL & HB).
      unfold post, ledger_frame, held_count, held_bytes in *. cbn [fst snd with_see see icon length rev app].
      cbn [wal w_trace w_live w_bytes w_now]. unfold sz_probe_node in *. repeat split; lia.
  Qed.

  (* ---------- Reset ---------- *)
  Lemma reset_post bl bb s w : ledger_frame bl bb s w ->
    exists w', do_reset_topology s w = Ok (f_reset_topology s) w' /\ post bl bb (f_reset_topology s, []) w w'.
  Proof.
    intros (HL & HB). unfold do_reset_topology, bind. unfold held_count, held_bytes, sz_probe_node in *.
    destruct (free_n_ok 28 (length (see s)) w) as (w1 & E & T & L & B & Nw); [lia|lia|].
    change sz_probe_node with 28. rewrite E.
    destruct (icon s) as [d|] eqn:Ei.
    - rewrite free_ok by lia. eexists. split; [reflexivity|].
      unfold post, ledger_frame, held_count, held_bytes, f_reset_topology. cbn [fst snd see icon length rev app].
      cbn [wfr w_trace w_live w_bytes w_now]. repeat split; try congruence; lia.
    - eexists. split; [reflexivity|].
      unfold post, ledger_frame, held_count, held_bytes, f_reset_topology. cbn [fst snd see icon length rev app].
      repeat split; try congruence; lia.
  Qed.

  (* ---------- the dispatcher ---------- *)
  Lemma dispatch_post bl bb s h buf w : length buf = o (c_rxsize c) -> ledger_frame bl bb s w ->
    exists w', dispatch NF NF junk ctx c g s h buf w = Ok (fst (f_dispatch ctx c g mtu s h buf)) w'
               /\ post bl bb (f_dispatch ctx c g mtu s h buf) w w'.
  Proof.
    intros Hb HL. unfold dispatch, f_dispatch.
    assert (R : exists w', ret s w = Ok (fst (s, @nil action)) w' /\ post bl bb (s, []) w w').
    { exists w. split; [reflexivity|]. apply post_ret, HL. }
    destruct (h_tos h =? tos_discovery).
    - destruct (h_opc h =? opcode_discover).
      { destruct (matches s h); [|exact R].
        unfold bind. rewrite act_eq.
        destruct (answer_hello_post bl bb s h (wact (Sleep 10) w)) as (w' & E & (T & L & Nw)); [exact HL|].
        rewrite E. unfold f_answer_hello in *. cbn [fst snd] in *. exists w'. split; [reflexivity|].
        unfold post. cbn [fst snd rev wact w_trace w_now] in *. rewrite T, <- app_assoc. split; [reflexivity|split; assumption]. }
      destruct (h_opc h =? opcode_emit). { apply parse_emit_post; assumption. }
      destruct ((h_opc h =? opcode_train) || (h_opc h =? opcode_probe)). { apply parse_probe_post; assumption. }
      destruct (h_opc h =? opcode_query). { apply parse_query_post; assumption. }
      destruct (h_opc h =? opcode_queryLargeTlv). { apply parse_qlt_post; assumption. }
      destruct (h_opc h =? opcode_reset). { apply reset_post; assumption. }
      exact R.
    - destruct (h_tos h =? tos_quick_discovery); [|exact R].
      destruct (h_opc h =? opcode_discover).
      { destruct (matches s h); [|exact R]. apply answer_hello_post; assumption. }
      destruct (h_opc h =? opcode_queryLargeTlv). { apply parse_qlt_post; assumption. }
      destruct (h_opc h =? opcode_reset); [|exact R].
      exists w. split; [reflexivity|]. apply post_eff with (s := s); auto using eff_nil.
  Qed.

  Theorem step_nominal s buf w bl bb :
    length buf = o (c_rxsize c) -> ledger_frame bl bb s w ->
    exists w', parse_frame_st no_fail no_fail junk ctx c g s buf w = Ok (fst (f_step ctx c g mtu s buf)) w'
      /\ w_trace w' = rev (snd (f_step ctx c g mtu s buf)) ++ w_trace w
      /\ ledger_frame bl bb (fst (f_step ctx c g mtu s buf)) w'
      /\ w_now w' = w_now w.
  Proof.
    intros Hb HL. unfold parse_frame_st, f_step, bind.
    destruct (parse_hdr_some buf) as [h Eh]. { rewrite Hb. unfold o. lia. }
    rewrite Eh. unfold rdm, lift. unfold ret at 1.
    destruct (pre_step s h) as [s1|] eqn:Ep.
    - destruct (pre_step_held s h s1 Ep) as [A B].
      apply dispatch_post; [exact Hb|]. apply ledger_held with (s := s); assumption.
    - exists w. split; [reflexivity|]. apply post_ret, HL.
  Qed.
End Nominal.

(* C02, determinism clause: what is sent does not depend on what freshly allocated memory contains *)
Corollary junk_independent j1 j2 ctx c g mtu s buf w bl bb :
  c_mtu c = Some mtu -> 576 <= mtu -> mtu <= 9216 -> mtu <= c_rxsize c ->
  length buf = o (c_rxsize c) -> ledger_frame bl bb s w ->
  match parse_frame_st no_fail no_fail j1 ctx c g s buf w, parse_frame_st no_fail no_fail j2 ctx c g s buf w with
  | Ok s1 w1, Ok s2 w2 => s1 = s2 /\ w_trace w1 = w_trace w2
  | _, _ => False
  end.
Proof.
  intros H1 H2 H3 H4 Hb HL.
  destruct (step_nominal j1 ctx c g mtu H1 H2 H3 H4 s buf w bl bb Hb HL) as (w1 & E1 & T1 & _).
  destruct (step_nominal j2 ctx c g mtu H1 H2 H3 H4 s buf w bl bb Hb HL) as (w2 & E2 & T2 & _).
  rewrite E1, E2. split; [reflexivity|congruence].
Qed.

(* the hypotheses are satisfiable: an Ethernet interface with a 1500-byte MTU, an empty record, a zero-filled buffer *)
Example nominal_hypotheses_satisfiable :
  let c := {| c_rxsize := 1500; c_mtu := Some 1500; c_mac := Some (Mac 2 0 0 0 0 1); c_flags := 0; c_iftype := Some 6;
              c_ipv4 := None; c_ipv6 := None; c_speed := None; c_wifi := None; c_bssid := None; c_ssid := [];
              c_rate := None; c_rssi := None |} in
  c_mtu c = Some 1500 /\ 576 <= 1500 /\ 1500 <= 9216 /\ 1500 <= c_rxsize c
  /\ length (zeros 1500) = o (c_rxsize c) /\ ledger_frame 0 0 fresh world0.
Proof. cbv zeta. cbn [c_mtu c_rxsize]. repeat split; try lia. Qed.

Print Assumptions step_nominal.
Print Assumptions junk_independent.
